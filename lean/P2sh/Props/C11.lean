import P2sh.Model.Builtins
import P2sh.Spec.Builtins
import P2sh.Props.C08
import P2sh.Props.C10
import P2sh.Props.C10Float
/-!
# C11 — pure builtins: round-trip laws (on the model of `src/builtins/functions.rs`)

* `decode_encode` — `decode_utf8(encode_utf8(s)) == s` for every string;
* `len_encode`    — `len(encode_utf8(s)) == len(s)`;
* `join_chars`    — `join(chars(s)) == s`;
* `is_error_total`, `wrong_arity_is_error` — contract rows that hold for every argument list;
* `builtin_contract` — the whole table: the model refines `Spec.Builtins.call` for every name and
  every argument list (hypotheses name the rows they exclude); `sort_sorted_perm`, `sort_ints`.

`float(str(x)) == x` depends on Rust's shortest round-trip float printing/parsing, which is
not modelled: it is exercised on the implementation only (labelled as a test in the evidence).
`int(str(n)) == n` is `int_str` / `int_str_call` (decimal printing/parsing, by induction on the digits).
-/
namespace P2sh.Props.C11
open P2sh P2sh.Builtins P2sh.Proofs
open P2sh.Spec.Builtins (Out)

theorem decodeUtf8_utf8Bytes (s : String) : decodeUtf8 (utf8Bytes s) = some s := by
  simp [decodeUtf8, utf8Bytes, String.fromUTF8?, String.fromUTF8, s.isValidUTF8]

theorem mapM_section {α β} (g : α → β) (f : β → Option α) (h : ∀ a, f (g a) = some a) (xs : List α) :
    List.mapM (f ∘ g) xs = some xs := by
  induction xs with
  | nil => rfl
  | cons x xs ih => simp [List.mapM_cons, ih, h]

/-- `decode_utf8(encode_utf8(s)) == s` -/
theorem decode_encode (s : String) :
    (match call "encode_utf8" [.str s] with
     | .ok bytes => call "decode_utf8" [bytes]
     | r => r) = .ok (.str s) := by
  simp only [call, arity1]
  simp only [List.mapM_map]
  rw [mapM_section Val.byte _ (fun _ => rfl)]
  simp [decodeUtf8_utf8Bytes]

/-- `len(encode_utf8(s)) == len(s)` -/
theorem len_encode (s : String) :
    (match call "encode_utf8" [.str s] with
     | .ok bytes => call "len" [bytes]
     | r => r) = call "len" [.str s] := by
  simp only [call, arity1]
  simp only [utf8Bytes, List.length_map, Array.length_toList]
  rfl

theorem joinCharsL_nil (cs : List Char) : joinCharsL [] cs = cs := by
  induction cs with
  | nil => rfl
  | cons c cs ih =>
    cases cs with
    | nil => rfl
    | cons c' cs' => simp only [joinCharsL, List.nil_append] at ih ⊢; rw [ih]

/-- `join(chars(s)) == s` -/
theorem join_chars (s : String) :
    (match call "chars" [.str s] with
     | .ok cs => call "join" [cs]
     | r => r) = .ok (.str s) := by
  simp only [call, arity1]
  simp only [List.mapM_map]
  rw [mapM_section Val.char _ (fun _ => rfl)]
  simp [joinCharsL_nil]

/-- `is_error` answers for every value; with any other arity it is an error -/
theorem is_error_total (v : Val) : call "is_error" [v] = .ok (.bool v.isError) := by
  simp [call, arity1]

theorem is_error_arity (args : List Val) (h : args.length ≠ 1) : ∃ m, call "is_error" args = .err m := by
  match args, h with
  | [], _ => exact ⟨_, rfl⟩
  | [_], h => simp at h
  | _ :: _ :: _, _ => exact ⟨_, rfl⟩

/-- the one-argument builtins reject every other arity with an error (never a panic) -/
theorem wrong_arity_is_error (name : String)
    (hn : name ∈ ["len", "first", "last", "rest", "pop", "str", "int", "float", "char", "byte", "tolower", "toupper",
                  "is_error", "sort", "chars", "encode_utf8", "decode_utf8"])
    (args : List Val) (h : args.length ≠ 1) : ∃ m, call name args = .err m := by
  have hk : ∀ k, ∃ m, arity1 args k = .err m := by
    intro k
    match args, h with
    | [], _ => exact ⟨_, rfl⟩
    | [_], h => simp at h
    | _ :: _ :: _, _ => exact ⟨_, rfl⟩
  simp only [List.mem_cons, List.mem_nil_iff, or_false] at hn
  rcases hn with rfl | rfl | rfl | rfl | rfl | rfl | rfl | rfl | rfl | rfl | rfl | rfl | rfl | rfl | rfl | rfl | rfl <;>
    exact hk _

/-! ## `int(str(n)) == n`: the decimal parser inverts the decimal printer -/

/-- one step of the digit fold of `parseDigits` -/
def digitStep (acc : Nat) (c : Char) : Option Nat :=
  if c.isDigit then some (acc * 10 + (c.toNat - 48)) else none

theorem digitChar_fin : ∀ d : Fin 10, (digitChar d.val).isDigit = true ∧ (digitChar d.val).toNat - 48 = d.val ∧
    digitChar d.val ≠ '-' ∧ digitChar d.val ≠ '+' := by decide

theorem digitStep_digitChar (acc d : Nat) (h : d < 10) : digitStep acc (digitChar d) = some (acc * 10 + d) := by
  have := digitChar_fin ⟨d, h⟩
  simp only [digitStep, this.1, if_true, this.2.1]

theorem natDigits_fold (fuel : Nat) : ∀ n, n < fuel → (natDigits fuel n).foldlM digitStep 0 = some n := by
  induction fuel with
  | zero => intro n h; omega
  | succ fuel ih =>
    intro n h
    unfold natDigits
    split
    · rename_i h10
      simp [List.foldlM, digitStep_digitChar 0 n h10]
    · rename_i h10
      rw [List.foldlM_append, ih (n / 10) (by omega)]
      simp [List.foldlM, digitStep_digitChar (n / 10) (n % 10) (by omega)]
      omega

theorem natDigits_mem (fuel : Nat) : ∀ n, ∀ c ∈ natDigits fuel n, c ≠ '-' ∧ c ≠ '+' := by
  induction fuel with
  | zero => intro n c h; simp [natDigits] at h
  | succ fuel ih =>
    intro n c h
    unfold natDigits at h
    split at h
    · rename_i h10
      rw [List.mem_singleton] at h; subst h
      exact (digitChar_fin ⟨n, h10⟩).2.2
    · rw [List.mem_append, List.mem_singleton] at h
      rcases h with h | h
      · exact ih _ c h
      · subst h; exact (digitChar_fin ⟨n % 10, by omega⟩).2.2

theorem natDigits_ne_nil (fuel n : Nat) : natDigits (fuel + 1) n ≠ [] := by
  unfold natDigits
  split <;> simp

theorem parseDigits_natDigits (n : Nat) : parseDigits (natDigits (n + 1) n) = some n := by
  have h := natDigits_fold (n + 1) n (by omega)
  have hne := natDigits_ne_nil n n
  unfold parseDigits
  split
  · rename_i e; exact absurd e hne
  · exact h

/-- the sign split of `parseI64` -/
def signSplit (cs : List Char) : Bool × List Char :=
  match cs with
  | '-' :: r => (true, r)
  | '+' :: r => (false, r)
  | r => (false, r)

theorem parseI64_eq (s : String) : parseI64 s =
    match parseDigits (signSplit s.toList).2 with
    | none => none
    | some n =>
      let v : Int := if (signSplit s.toList).1 then - (n : Int) else n
      if -9223372036854775808 ≤ v ∧ v ≤ 9223372036854775807 then some (Int64.ofInt v) else none := rfl

/-- on the digits of a natural number no sign is consumed -/
theorem signSplit_natDigits (n : Nat) : signSplit (natDigits (n + 1) n) = (false, natDigits (n + 1) n) := by
  have hm := natDigits_mem (n + 1) n
  unfold signSplit
  split
  · rename_i r e; exact absurd rfl (hm '-' (by rw [e]; exact List.mem_cons_self)).1
  · rename_i r e; exact absurd rfl (hm '+' (by rw [e]; exact List.mem_cons_self)).2
  · rfl

theorem parseI64_showInt (i : Int) (hlo : -9223372036854775808 ≤ i) (hhi : i ≤ 9223372036854775807) :
    parseI64 (showInt i) = some (Int64.ofInt i) := by
  rw [parseI64_eq]
  by_cases hneg : i < 0
  · have hs : showInt i = "-" ++ showNat i.natAbs := by simp [showInt, hneg]
    rw [hs]
    have e : ("-" ++ showNat i.natAbs).toList = '-' :: natDigits (i.natAbs + 1) i.natAbs := by
      simp [showNat, String.toList_append]
    have hv : -(i.natAbs : Int) = i := by omega
    simp only [e, signSplit, parseDigits_natDigits, if_true, hv]
    simp [hlo, hhi]
  · have hs : showInt i = showNat i.toNat := by simp [showInt, hneg]
    rw [hs]
    have e : (showNat i.toNat).toList = natDigits (i.toNat + 1) i.toNat := by simp [showNat]
    have hv : (i.toNat : Int) = i := by omega
    simp only [e, signSplit_natDigits, parseDigits_natDigits, Bool.false_eq_true, if_false, hv]
    simp [hlo, hhi]

/-- **`int(str(n)) == n`**: the integer parser inverts the integer printer, for every `i64` -/
theorem int_str (n : Int64) : parseI64 (showI64 n) = some n := by
  have h1 := Int64.minValue_le_toInt n
  have h2 := Int64.toInt_le n
  have := parseI64_showInt n.toInt h1 h2
  rw [Int64.ofInt_toInt] at this
  exact this

example : parseI64 (showI64 Int64.minValue) = some Int64.minValue := int_str _
example : showI64 (-9223372036854775808) = "-9223372036854775808" := by decide +kernel

/-- `int(str(n)) == n` through the builtins' dispatch -/
theorem int_str_call (n : Int64) :
    (match call "str" [.int n] with
     | .ok s => call "int" [s]
     | r => r) = .ok (.int n) := by
  simp only [call, arity1, display, int_str]

example : (match call "str" [.int (-42)] with | .ok s => call "int" [s] | r => r) = .ok (.int (-42)) :=
  int_str_call _

/-! # The contract table (`builtin_contract`) -/

def Refines (m : Res) : Out → Prop
  | .value v => m = .ok v
  | .mutate ret nf => m = .mutated ret nf
  | .error => ∃ msg, m = .err msg
  | .okAny => (∃ v, m = .ok v) ∨ m = .unmodelled
  | .any => ∀ msg, m ≠ .panic msg

theorem refines_val (v : Val) : Refines (.ok v) (.value v) := rfl
theorem refines_mut (a b : Val) : Refines (.mutated a b) (.mutate a b) := rfl
theorem refines_err (m : String) : Refines (.err m) .error := ⟨m, rfl⟩
theorem refines_okAny (v : Val) : Refines (.ok v) .okAny := .inl ⟨v, rfl⟩
theorem refines_skip : Refines .unmodelled .okAny := .inr rfl
theorem refines_any (m : Res) (h : ∀ msg, m ≠ .panic msg) : Refines m .any := h

/-- a cell decided by evaluation of both tables -/
macro "cell" : tactic => `(tactic| first
  | exact refines_val _ | exact refines_mut _ _ | exact refines_err _ | exact refines_okAny _
  | exact refines_skip | exact refines_any _ (C08.builtins_no_panic _ _)
  | exact refines_any _ (fun _ h => Res.noConfusion h))

/-- split an argument list into its shapes up to three arguments, and each argument into its kind,
as far as needed to decide the cell -/
theorem byteArray_size (bs : ByteArray) : bs.size = bs.data.toList.length := by
  cases bs; rfl

theorem byteArray_toList_loop (bs : ByteArray) : ∀ (k i : Nat) (r : List UInt8), bs.size - i = k →
    ByteArray.toList.loop bs i r = r.reverse ++ bs.data.toList.drop i := by
  intro k
  induction k with
  | zero =>
    intro i r h
    unfold ByteArray.toList.loop
    have : ¬ i < bs.size := by omega
    simp only [this, if_false]
    have : bs.data.toList.length ≤ i := by rw [← byteArray_size]; omega
    rw [List.drop_eq_nil_of_le this, List.append_nil]
  | succ k ih =>
    intro i r h
    unfold ByteArray.toList.loop
    have hi : i < bs.size := by omega
    simp only [hi, if_true]
    rw [ih (i + 1) _ (by omega)]
    have hlen : i < bs.data.toList.length := by rw [← byteArray_size]; exact hi
    rw [List.drop_eq_getElem_cons hlen]
    have hlen' : i < bs.data.size := by simpa using hlen
    have : bs.get! i = bs.data.toList[i] := by
      show bs.data[i]! = _
      rw [getElem!_pos bs.data i hlen']; simp
    rw [this, List.reverse_cons, List.append_assoc]; rfl

theorem byteArray_toList (bs : ByteArray) : bs.toList = bs.data.toList := by
  unfold ByteArray.toList
  rw [byteArray_toList_loop bs _ 0 [] rfl]; simp

/-! decimal text -/
theorem digitChar_eq (d : Nat) (h : d < 10) : digitChar d = Nat.digitChar d := by
  have : ∀ d : Fin 10, digitChar d.val = Nat.digitChar d.val := by decide
  exact this ⟨d, h⟩

theorem natDigits_eq (fuel : Nat) : ∀ n, n < fuel → natDigits fuel n = Nat.toDigits 10 n := by
  induction fuel with
  | zero => intro n h; omega
  | succ fuel ih =>
    intro n h
    unfold natDigits
    rw [Nat.toDigits_eq_if (by decide)]
    split
    · rename_i h10; rw [digitChar_eq n h10]
    · rw [ih (n / 10) (by omega), digitChar_eq (n % 10) (by omega)]

theorem showNat_eq (n : Nat) : showNat n = toString n := by
  rw [Nat.toString_eq_repr, Nat.repr_eq_ofList_toDigits, showNat, natDigits_eq _ _ (by omega)]

theorem showInt_eq (i : Int) : showInt i = toString i := by
  show _ = Int.repr i
  unfold showInt Int.repr
  cases i with
  | ofNat m => simp [showNat_eq]
  | negSucc m =>
    have : Int.negSucc m < 0 := Int.negSucc_lt_zero m
    simp [this, showNat_eq]


/-! join -/
theorem intercalate_singletons (d : String) : ∀ cs : List Char,
    d.intercalate (cs.map String.singleton) = String.ofList (joinCharsL d.toList cs)
  | [] => by simp only [List.map_nil, String.intercalate_nil, joinCharsL]
  | [c] => by
    simp only [List.map_cons, List.map_nil, String.intercalate_singleton, joinCharsL]
    exact String.singleton_eq_ofList
  | c :: c' :: rest => by
    have ih := intercalate_singletons d (c' :: rest)
    simp only [List.map_cons] at ih ⊢
    rw [String.intercalate_cons_cons, ih]
    apply String.toList_inj.mp
    simp only [joinCharsL, String.toList_append, String.toList_singleton, String.toList_ofList,
      List.cons_append, List.nil_append]

/-! characters from numbers -/
theorem charFromU32_valid (n : Nat) (h : n < 0xd800 ∨ (0xdfff < n ∧ n < 0x110000)) :
    charFromU32 n = some (Char.ofNat n) := by
  unfold charFromU32
  rw [dif_pos h]
  congr 1
  apply Char.ext
  have hv : n.isValidChar := h
  simp only [Char.ofNat, hv, dif_pos, Char.ofNatAux]
  apply UInt32.toNat_inj.mp
  show (UInt32.ofNat n).toNat = n
  rw [UInt32.toNat_ofNat']
  have : n < 1114112 := by rcases h with h | h <;> omega
  omega

theorem i64AsU32_small (n : Int64) (h0 : 0 ≤ n.toInt) (h1 : n.toInt < 4294967296) :
    i64AsU32 n = n.toInt.toNat := by
  unfold i64AsU32
  have : n.toUInt64.toNat = n.toInt.toNat := by
    have h := Int64.toInt_toBitVec n
    have h2 := BitVec.toInt_eq_toNat_cond n.toBitVec
    have h3 : n.toBitVec.toNat < 2 ^ 64 := n.toBitVec.isLt
    show n.toBitVec.toNat = _
    rw [h] at h2
    split at h2 <;> omega
  rw [this]; omega

/-! `int` of a string -/
theorem parseDecimal?_eq (s : String) : Spec.Builtins.parseDecimal? s =
    if (signSplit s.toList).2.isEmpty || !(signSplit s.toList).2.all Char.isDigit then none
    else
      let n : Nat := (signSplit s.toList).2.foldl (fun a c => a * 10 + (c.toNat - 48)) 0
      some (if (signSplit s.toList).1 then - (n : Int) else n) := rfl

theorem foldlM_digits : ∀ (ds : List Char) (a : Nat), ds.all Char.isDigit = true →
    ds.foldlM (fun acc c => if c.isDigit then some (acc * 10 + (c.toNat - 48)) else none) a =
      some (ds.foldl (fun a c => a * 10 + (c.toNat - 48)) a)
  | [], a, _ => rfl
  | c :: ds, a, h => by
    simp only [List.all_cons, Bool.and_eq_true] at h
    simp only [List.foldlM_cons, h.1, if_true, List.foldl_cons]
    exact foldlM_digits ds _ h.2

theorem parseI64_of_spec (s : String) (n : Int) (h : Spec.Builtins.parseDecimal? s = some n)
    (hr : Spec.Builtins.i64Range n = true) : parseI64 s = some (Int64.ofInt n) := by
  rw [parseDecimal?_eq] at h
  rw [parseI64_eq]
  split at h
  · cases h
  · rename_i hc
    simp only [Bool.or_eq_true, Bool.not_eq_true', not_or, Bool.not_eq_false] at hc
    have hne : (signSplit s.toList).2 ≠ [] := by
      intro e; rw [e] at hc; simp at hc
    have hd : parseDigits (signSplit s.toList).2 =
        some ((signSplit s.toList).2.foldl (fun a c => a * 10 + (c.toNat - 48)) 0) := by
      unfold parseDigits
      split
      · rename_i e; exact absurd e hne
      · exact foldlM_digits _ 0 hc.2
    simp only [Option.some.injEq] at h
    simp only [Spec.Builtins.i64Range, Bool.and_eq_true, decide_eq_true_eq] at hr
    simp only [hd, h, hr, and_self, if_true]


macro "cells" : tactic => `(tactic|
  (intro args
   rcases args with _ | ⟨a, _ | ⟨b, _ | ⟨c, rest⟩⟩⟩
   · cell
   · first | cell | (cases a <;> cell)
   · first | cell | (cases a <;> first | cell | (cases b <;> cell))
   · first | cell | (cases a <;> first | cell | (cases b <;> first | cell | (cases c <;> first | cell | (cases rest <;> cell))))))

theorem contract_len : ∀ args, Refines (call "len" args) (Spec.Builtins.call "len" args) := by cells
theorem contract_first : ∀ args, Refines (call "first" args) (Spec.Builtins.call "first" args) := by cells
theorem contract_last : ∀ args, Refines (call "last" args) (Spec.Builtins.call "last" args) := by cells
theorem contract_rest : ∀ args, Refines (call "rest" args) (Spec.Builtins.call "rest" args) := by cells
theorem contract_push : ∀ args, Refines (call "push" args) (Spec.Builtins.call "push" args) := by cells
theorem contract_is_error : ∀ args, Refines (call "is_error" args) (Spec.Builtins.call "is_error" args) := by cells
theorem contract_chars : ∀ args, Refines (call "chars" args) (Spec.Builtins.call "chars" args) := by cells
theorem contract_round : ∀ args, Refines (call "round" args) (Spec.Builtins.call "round" args) := by cells
theorem contract_float : ∀ args, Refines (call "float" args) (Spec.Builtins.call "float" args) := by cells

theorem contract_pop : ∀ args, Refines (call "pop" args) (Spec.Builtins.call "pop" args) := by
  intro args
  rcases args with _ | ⟨a, _ | ⟨b, rest⟩⟩
  · cell
  · cases a
    case arr i xs =>
      show Refines (match xs.getLast? with | some v => .mutated v (.arr i xs.dropLast) | none => .ok .null)
        (match xs.getLast? with | some v => .mutate v (.arr i xs.dropLast) | none => .any)
      cases xs.getLast? <;> cell
    all_goals cell
  · first | cell | (cases a <;> cell)

theorem contract_get_arr (xs : List Val) (n : Int64) (i : Nat) :
    Refines (call "get" [.arr i xs, .int n]) (Spec.Builtins.call "get" [.arr i xs, .int n]) := by
  show Refines (.ok (if n < 0 then .null else xs.getD n.toNatClampNeg .null))
    (if n.toInt < 0 then .value .null else .value (xs.getD n.toInt.toNat .null))
  have hlt : (n < 0) ↔ n.toInt < 0 := by rw [Int64.lt_iff_toInt_lt]; exact Iff.rfl
  by_cases h : n < 0
  · simp only [h, hlt.mp h, if_true]; exact refines_val _
  · have h' : ¬ n.toInt < 0 := fun x => h (hlt.mpr x)
    simp only [h, h', if_false]; exact refines_val _

/-! ### maps: the hash-table model is the association list of the specification (C10) -/

/-- the hypothesis of the map rows: the probe for `k` meets an entry's key only under the same
hash stream (`C10.HashOK`; it holds for all keys under `C10.FloatLaw`, and unconditionally for
float-free keys — `C10.hash_respects_eq`, `C10.hash_respects_eq_floatfree`) -/
def MapKeysOK (args : List Val) : Prop :=
  ∀ i kvs k rest, args = .map i kvs :: k :: rest → ∀ e ∈ kvs, C10.HashOK e.1 k

theorem mapKeysOK_of_law (law : C10.FloatLaw) (args : List Val) : MapKeysOK args :=
  fun _ _ k _ _ e _ h => C10.hash_respects_eq law e.1 k h

theorem contract_get_map (i : Nat) (kvs : List (Val × Val)) (k : Val) (h : ∀ e ∈ kvs, C10.HashOK e.1 k) :
    Refines (call "get" [.map i kvs, k]) (Spec.Builtins.call "get" [.map i kvs, k]) := by
  have hm : call "get" [.map i kvs, k] = .ok (HMap.get kvs k) := by cases k <;> rfl
  have hs : Spec.Builtins.call "get" [.map i kvs, k] =
      if k.isValidKey then .value ((Spec.Assoc.lookup kvs k).getD .null) else .any := by cases k <;> rfl
  rw [hm, hs, HMap.get, C10.get?_refines kvs k h]
  cases k.isValidKey
  · exact refines_any _ (fun _ h => Res.noConfusion h)
  · exact refines_val _

theorem contract_get (args : List Val) (hk : MapKeysOK args) :
    Refines (call "get" args) (Spec.Builtins.call "get" args) := by
  rcases args with _ | ⟨a, _ | ⟨b, _ | ⟨c, rest⟩⟩⟩
  · cell
  · first | cell | (cases a <;> cell)
  · cases a
    case arr i xs =>
      cases b
      case int n => exact contract_get_arr xs n i
      all_goals cell
    case map i kvs => exact contract_get_map i kvs b (hk i kvs b [] rfl)
    all_goals first | cell | (cases b <;> cell)
  · first | cell | (cases a <;> first | cell | (cases b <;> cell))

theorem contract_contains (args : List Val) (hk : MapKeysOK args) :
    Refines (call "contains" args) (Spec.Builtins.call "contains" args) := by
  rcases args with _ | ⟨a, _ | ⟨b, _ | ⟨c, rest⟩⟩⟩
  · cell
  · first | cell | (cases a <;> cell)
  · cases a
    case map i kvs =>
      have hm : call "contains" [.map i kvs, b] = .ok (.bool (HMap.contains kvs b)) := by cases b <;> rfl
      have hs : Spec.Builtins.call "contains" [.map i kvs, b] =
          if b.isValidKey then .value (.bool (Spec.Assoc.lookup kvs b).isSome) else .any := by cases b <;> rfl
      rw [hm, hs, HMap.contains, C10.get?_refines kvs b (hk i kvs b [] rfl)]
      cases b.isValidKey
      · exact refines_any _ (fun _ h => Res.noConfusion h)
      · exact refines_val _
    all_goals first | cell | (cases b <;> cell)
  · first | cell | (cases a <;> first | cell | (cases b <;> cell))

theorem contract_insert (args : List Val) (hk : MapKeysOK args) :
    Refines (call "insert" args) (Spec.Builtins.call "insert" args) := by
  rcases args with _ | ⟨a, _ | ⟨b, _ | ⟨c, _ | ⟨d, rest⟩⟩⟩⟩
  · cell
  · first | cell | (cases a <;> cell)
  · first | cell | (cases a <;> first | cell | (cases b <;> cell))
  · cases a
    case map i kvs =>
      have hm : call "insert" [.map i kvs, b, c] =
          .mutated ((HMap.insert kvs b c).2.getD .null) (.map i (HMap.insert kvs b c).1) := by cases b <;> rfl
      have hs : Spec.Builtins.call "insert" [.map i kvs, b, c] =
          if b.isValidKey then
            .mutate ((Spec.Assoc.insert kvs b c).2.getD .null) (.map i (Spec.Assoc.insert kvs b c).1)
          else .any := by cases b <;> rfl
      rw [hm, hs, C10.insert_refines kvs b c (hk i kvs b [c] rfl)]
      cases b.isValidKey
      · exact refines_any _ (fun _ h => Res.noConfusion h)
      · exact refines_mut _ _
    all_goals first | cell | (cases b <;> first | cell | (cases c <;> cell))
  · first | cell | (cases a <;> first | cell | (cases b <;> first | cell | (cases c <;> first | cell | (cases d <;> cell))))


/-! ### str

`Spec.Builtins.display?` is structural (mutual with `displayList?`), so the texts it determines
can be compared with the model's `Display`: the model prints every element followed by `", "`
and trims the tail, the specification intercalates — they agree because no determined text ends
in a blank or a comma (`GoodEnd`). -/

/-- a text that ends in a character `trimTrail` keeps -/
def GoodEnd (s : String) : Prop := ∃ l c, s.toList = l ++ [c] ∧ c ≠ ' ' ∧ c ≠ ','

theorem goodEnd_append (a s : String) (h : GoodEnd s) : GoodEnd (a ++ s) := by
  obtain ⟨l, c, e, h1, h2⟩ := h
  exact ⟨a.toList ++ l, c, by rw [String.toList_append, e, List.append_assoc], h1, h2⟩

theorem goodEnd_snoc (a : String) (t : String) (c : Char) (ht : t.toList = [c]) (h1 : c ≠ ' ') (h2 : c ≠ ',') :
    GoodEnd (a ++ t) :=
  ⟨a.toList, c, by rw [String.toList_append, ht], h1, h2⟩

theorem trimTrail_goodEnd (s : String) (h : GoodEnd s) : trimTrail (s ++ ", ") = s := by
  obtain ⟨l, c, e, h1, h2⟩ := h
  apply String.toList_inj.mp
  have hsep : ", ".toList = [',', ' '] := rfl
  have hc : (c == ' ' || c == ',') = false := by simp [h1, h2]
  simp only [trimTrail, String.toList_ofList, String.toList_append, e, hsep, List.reverse_append,
    List.reverse_cons, List.reverse_nil, List.nil_append, List.cons_append, List.dropWhile_cons]
  simp [hc]

theorem trimTrail_empty : trimTrail "" = "" := by
  apply String.toList_inj.mp
  simp [trimTrail]

/-- the model's `displayList` text: every part followed by `", "` -/
def sepAll : List String → String
  | [] => ""
  | p :: ps => p ++ ", " ++ sepAll ps

theorem sepAll_eq : ∀ (p : String) (ps : List String),
    sepAll (p :: ps) = ", ".intercalate (p :: ps) ++ ", "
  | p, [] => by simp [sepAll, String.intercalate_singleton]
  | p, q :: ps => by
    rw [String.intercalate_cons_cons, sepAll, sepAll_eq q ps]
    simp [String.append_assoc]

theorem goodEnd_intercalate : ∀ (p : String) (ps : List String), (∀ q ∈ p :: ps, GoodEnd q) →
    GoodEnd (", ".intercalate (p :: ps))
  | p, [], h => by rw [String.intercalate_singleton]; exact h p List.mem_cons_self
  | p, q :: ps, h => by
    rw [String.intercalate_cons_cons]
    exact goodEnd_append _ _ (goodEnd_intercalate q ps (fun r hr => h r (List.mem_cons_of_mem _ hr)))

theorem natDigits_digit (fuel : Nat) : ∀ n, ∀ c ∈ natDigits fuel n, c ≠ ' ' ∧ c ≠ ',' := by
  have hd : ∀ d : Fin 10, digitChar d.val ≠ ' ' ∧ digitChar d.val ≠ ',' := by decide
  induction fuel with
  | zero => intro n c h; simp [natDigits] at h
  | succ fuel ih =>
    intro n c h
    unfold natDigits at h
    split at h
    · rename_i h10
      rw [List.mem_singleton] at h; subst h
      exact hd ⟨n, h10⟩
    · rw [List.mem_append, List.mem_singleton] at h
      rcases h with h | h
      · exact ih _ c h
      · subst h; exact hd ⟨n % 10, by omega⟩

theorem goodEnd_showNat (n : Nat) : GoodEnd (showNat n) := by
  have hne := natDigits_ne_nil n n
  have hm := natDigits_digit (n + 1) n
  obtain ⟨l, c, e⟩ : ∃ l c, natDigits (n + 1) n = l ++ [c] :=
    ⟨_, _, (List.dropLast_concat_getLast hne).symm⟩
  have hc := hm c (by rw [e]; simp)
  exact ⟨l, c, by simp [showNat, e], hc.1, hc.2⟩

theorem goodEnd_decimal (i : Int) : GoodEnd (Spec.Builtins.decimal i) := by
  show GoodEnd (toString i)
  rw [← showInt_eq]
  unfold showInt
  split
  · exact goodEnd_append _ _ (goodEnd_showNat _)
  · exact goodEnd_showNat _

mutual
/-- wherever the specification determines the text of a value, the model's `Display` prints
exactly that text (and it ends in a character that the array printer's trimming keeps) -/
theorem display_agrees (v : Val) (s : String) (h : Spec.Builtins.display? v = some s) :
    display v = some s ∧ GoodEnd s := by
  cases v <;> simp only [Spec.Builtins.display?, Option.some.injEq, reduceCtorEq] at h
  case null => subst h; exact ⟨rfl, ['n', 'u', 'l'], 'l', rfl, by decide, by decide⟩
  case str t => subst h; exact ⟨rfl, goodEnd_snoc _ "\"" '"' rfl (by decide) (by decide)⟩
  case char c => subst h; exact ⟨rfl, goodEnd_snoc _ "'" '\'' rfl (by decide) (by decide)⟩
  case int i =>
    subst h
    refine ⟨?_, goodEnd_decimal _⟩
    show some (showInt i.toInt) = some (toString i.toInt)
    rw [showInt_eq]
  case bool b =>
    subst h
    cases b
    · exact ⟨rfl, ['f', 'a', 'l', 's'], 'e', rfl, by decide, by decide⟩
    · exact ⟨rfl, ['t', 'r', 'u'], 'e', rfl, by decide, by decide⟩
  case arr i xs =>
    cases hp : Spec.Builtins.displayList? xs with
    | none => rw [hp] at h; cases h
    | some parts =>
      rw [hp] at h
      simp only [bind, Option.bind, pure, Option.some.injEq] at h
      subst h
      have ih := displayList_agrees xs parts hp
      refine ⟨?_, goodEnd_snoc _ "]" ']' rfl (by decide) (by decide)⟩
      simp only [display, ih.1, Option.map_some]
      cases parts with
      | nil => simp [sepAll, trimTrail_empty, String.intercalate_nil]
      | cons p ps =>
        rw [sepAll_eq, trimTrail_goodEnd _ (goodEnd_intercalate p ps ih.2)]
theorem displayList_agrees (xs : List Val) (parts : List String)
    (h : Spec.Builtins.displayList? xs = some parts) :
    displayList xs = some (sepAll parts) ∧ ∀ p ∈ parts, GoodEnd p := by
  match xs with
  | [] =>
    simp only [Spec.Builtins.displayList?, Option.some.injEq] at h
    subst h
    exact ⟨rfl, fun _ hp => by cases hp⟩
  | x :: rest =>
    simp only [Spec.Builtins.displayList?] at h
    cases hx : Spec.Builtins.display? x with
    | none => rw [hx] at h; cases h
    | some a =>
      cases hr : Spec.Builtins.displayList? rest with
      | none => rw [hx, hr] at h; cases h
      | some as =>
        rw [hx, hr] at h
        simp only [bind, Option.bind, pure, Option.some.injEq] at h
        subst h
        have i1 := display_agrees x a hx
        have i2 := displayList_agrees rest as hr
        refine ⟨?_, ?_⟩
        · simp only [displayList, i1.1, i2.1, bind, Option.bind, pure, sepAll]
        · intro p hp
          rcases List.mem_cons.mp hp with rfl | hp
          · exact i1.2
          · exact i2.2 p hp
end

/-- the model's `display` yields every text the specification determines -/
def DisplayAgrees (v : Val) : Prop := ∀ s, Spec.Builtins.display? v = some s → display v = some s

theorem displayAgrees (v : Val) : DisplayAgrees v := fun s h => (display_agrees v s h).1

theorem refines_display_okAny (v : Val) :
    Refines (match display v with | some s => .ok (.str s) | none => .unmodelled) .okAny := by
  cases display v
  · exact refines_skip
  · exact refines_okAny _

theorem refines_display (v : Val) (h : DisplayAgrees v) :
    Refines (match display v with | some s => .ok (.str s) | none => .unmodelled)
      (match Spec.Builtins.display? v with | some s => .value (.str s) | none => .okAny) := by
  cases hs : Spec.Builtins.display? v with
  | none => exact refines_display_okAny v
  | some s => rw [h s hs]; exact refines_val _

theorem contract_str (args : List Val) :
    Refines (call "str" args) (Spec.Builtins.call "str" args) := by
  rcases args with _ | ⟨a, _ | ⟨b, rest⟩⟩
  · cell
  · have h := displayAgrees a
    cases a
    case byte b =>
      show Refines (.ok (.str (showNat b.toNat))) (.value (.str (toString b.toNat)))
      rw [showNat_eq]; exact refines_val _
    case null => exact refines_display _ h
    case int n => exact refines_display _ h
    case bool b => exact refines_display _ h
    case arr i xs => exact refines_display _ h
    case float f => exact refines_display_okAny (.float f)
    case map i kvs => exact refines_display_okAny (.map i kvs)
    all_goals cell
  · first | cell | (cases a <;> cell)

/-! ### int -/

theorem contract_int_str (s : String) :
    Refines (call "int" [.str s]) (Spec.Builtins.call "int" [.str s]) := by
  show Refines (.ok (match parseI64 s with | some n => .int n | none => .null))
    (match Spec.Builtins.parseDecimal? s with
      | some n => if Spec.Builtins.i64Range n then .value (.int (Int64.ofInt n)) else .okAny
      | none => .okAny)
  cases h : Spec.Builtins.parseDecimal? s with
  | none => exact refines_okAny _
  | some n =>
    dsimp only
    cases hr : Spec.Builtins.i64Range n with
    | false => rw [if_neg (by simp)]; exact refines_okAny _
    | true => rw [parseI64_of_spec s n h hr, if_pos rfl]; exact refines_val _

theorem contract_int : ∀ args, Refines (call "int" args) (Spec.Builtins.call "int" args) := by
  intro args
  rcases args with _ | ⟨a, _ | ⟨b, rest⟩⟩
  · cell
  · cases a
    case str s => exact contract_int_str s
    all_goals cell
  · first | cell | (cases a <;> cell)

/-! ### char, byte -/

/-- rows where the implementation (and the model, which follows it) rejects a kind the
documentation lists: `char` of a string or a boolean, `byte` of a string — recorded as known
findings of C11 (`builtin=char argkinds=(s)|(t)|(f)`, `builtin=byte argkinds=(s)`); the
specification demands "not a runtime error" there, the model yields one -/
def knownFindingRow (name : String) (args : List Val) : Prop :=
  (name = "char" ∧ ((∃ s, args = [.str s]) ∨ ∃ b, args = [.bool b])) ∨ (name = "byte" ∧ ∃ s, args = [.str s])

theorem contract_char_int (n : Int64) :
    Refines (call "char" [.int n]) (Spec.Builtins.call "char" [.int n]) := by
  show Refines (.ok (match charFromU32 (i64AsU32 n) with | some c => .char c | none => .null))
    (if 0 ≤ n.toInt ∧ n.toInt < 0x110000 ∧ ¬ (0xd800 ≤ n.toInt ∧ n.toInt ≤ 0xdfff)
      then .value (.char (Char.ofNat n.toInt.toNat)) else .okAny)
  by_cases h : 0 ≤ n.toInt ∧ n.toInt < 0x110000 ∧ ¬ (0xd800 ≤ n.toInt ∧ n.toInt ≤ 0xdfff)
  · rw [if_pos h, i64AsU32_small n h.1 (by omega), charFromU32_valid _ (by omega)]
    exact refines_val _
  · rw [if_neg h]; exact refines_okAny _

theorem contract_char (args : List Val) (hk : ¬ knownFindingRow "char" args) :
    Refines (call "char" args) (Spec.Builtins.call "char" args) := by
  rcases args with _ | ⟨a, _ | ⟨b, rest⟩⟩
  · cell
  · cases a
    case int n => exact contract_char_int n
    case byte b =>
      show Refines (.ok (match charFromU32 b.toNat with | some c => .char c | none => .null))
        (.value (.char (Char.ofNat b.toNat)))
      have := b.toNat_lt
      rw [charFromU32_valid _ (by omega)]; exact refines_val _
    case str s => exact absurd (.inl ⟨rfl, .inl ⟨s, rfl⟩⟩) hk
    case bool b => exact absurd (.inl ⟨rfl, .inr ⟨b, rfl⟩⟩) hk
    all_goals cell
  · first | cell | (cases a <;> cell)

theorem char_toNat_ofNat (k : Nat) (h : k < 256) : (Char.ofNat k).toNat = k := by
  have : ∀ k : Fin 256, (Char.ofNat k.val).toNat = k.val := by decide +kernel
  exact this ⟨k, h⟩

theorem contract_byte (args : List Val) (hk : ¬ knownFindingRow "byte" args) :
    Refines (call "byte" args) (Spec.Builtins.call "byte" args) := by
  rcases args with _ | ⟨a, _ | ⟨b, rest⟩⟩
  · cell
  · cases a
    case int n =>
      show Refines (.ok (match charFromU32 (i64AsU32 n) with | some c => .byte (UInt8.ofNat c.toNat) | none => .null))
        (if 0 ≤ n.toInt ∧ n.toInt < 256 then .value (.byte (UInt8.ofNat n.toInt.toNat)) else .okAny)
      by_cases h : 0 ≤ n.toInt ∧ n.toInt < 256
      · rw [if_pos h, i64AsU32_small n h.1 (by omega), charFromU32_valid _ (by omega)]
        simp only [char_toNat_ofNat n.toInt.toNat (by omega)]
        exact refines_val _
      · rw [if_neg h]; exact refines_okAny _
    case char c =>
      show Refines (.ok (.byte (UInt8.ofNat c.toNat)))
        (if c.toNat < 256 then .value (.byte (UInt8.ofNat c.toNat)) else .okAny)
      split
      · exact refines_val _
      · exact refines_okAny _
    case str s => exact absurd (.inr ⟨rfl, s, rfl⟩) hk
    all_goals cell
  · first | cell | (cases a <;> cell)

/-! ### tolower, toupper -/

theorem refines_ite_okAny (c : Prop) [Decidable c] (v : Val) :
    Refines (.ok v) (if c then .value v else .okAny) := by
  split
  · exact refines_val _
  · exact refines_okAny _

theorem contract_tolower : ∀ args, Refines (call "tolower" args) (Spec.Builtins.call "tolower" args) := by
  intro args
  rcases args with _ | ⟨a, _ | ⟨b, rest⟩⟩
  · cell
  · cases a
    case char c => exact refines_ite_okAny _ _
    case byte b => exact refines_ite_okAny _ _
    case str s => exact refines_ite_okAny _ _
    all_goals cell
  · first | cell | (cases a <;> cell)

theorem contract_toupper : ∀ args, Refines (call "toupper" args) (Spec.Builtins.call "toupper" args) := by
  intro args
  rcases args with _ | ⟨a, _ | ⟨b, rest⟩⟩
  · cell
  · cases a
    case char c => exact refines_ite_okAny _ _
    case byte b => exact refines_ite_okAny _ _
    case str s => exact refines_ite_okAny _ _
    all_goals cell
  · first | cell | (cases a <;> cell)

/-! ### join -/

abbrev charOf : Val → Option Char := fun v => match v with | .char c => some c | _ => none

theorem contract_join1 (i : Nat) (xs : List Val) :
    Refines (call "join" [.arr i xs]) (Spec.Builtins.call "join" [.arr i xs]) := by
  show Refines (match xs.mapM charOf with
      | some cs => .ok (.str (String.ofList (joinCharsL "".toList cs)))
      | none => .err "array should contain only chars")
    (match xs.mapM charOf with
      | some cs => .value (.str (String.ofList cs))
      | none => .error)
  cases xs.mapM charOf with
  | none => exact refines_err _
  | some cs =>
    dsimp only
    rw [show "".toList = [] from rfl, joinCharsL_nil]; exact refines_val _

theorem contract_join2 (i : Nat) (xs : List Val) (d : String) (a : Val)
    (hm : call "join" [.arr i xs, a] = match xs.mapM charOf with
      | some cs => .ok (.str (String.ofList (joinCharsL d.toList cs)))
      | none => .err "array should contain only chars")
    (hs : Spec.Builtins.call "join" [.arr i xs, a] = match xs.mapM charOf with
      | some cs => .value (.str (d.intercalate (cs.map String.singleton)))
      | none => .error) :
    Refines (call "join" [.arr i xs, a]) (Spec.Builtins.call "join" [.arr i xs, a]) := by
  rw [hm, hs]
  cases xs.mapM charOf with
  | none => exact refines_err _
  | some cs => dsimp only; rw [intercalate_singletons]; exact refines_val _

theorem contract_join : ∀ args, Refines (call "join" args) (Spec.Builtins.call "join" args) := by
  intro args
  rcases args with _ | ⟨a, _ | ⟨b, _ | ⟨c, rest⟩⟩⟩
  · cell
  · cases a
    case arr i xs => exact contract_join1 i xs
    all_goals cell
  · cases a
    case arr i xs =>
      cases b
      case str s => exact contract_join2 i xs s _ rfl rfl
      case char c => exact contract_join2 i xs (String.singleton c) _ rfl rfl
      all_goals cell
    all_goals first | cell | (cases b <;> cell)
  · first | cell | (cases a <;> first | cell | (cases b <;> cell))

/-! ### encode_utf8, decode_utf8 -/

theorem contract_encode_utf8 : ∀ args,
    Refines (call "encode_utf8" args) (Spec.Builtins.call "encode_utf8" args) := by
  intro args
  rcases args with _ | ⟨a, _ | ⟨b, rest⟩⟩
  · cell
  · cases a
    case str s =>
      show Refines (.ok (.arr 0 ((utf8Bytes s).map .byte))) (.value (.arr 0 (s.toUTF8.toList.map .byte)))
      rw [byteArray_toList]; exact refines_val _
    all_goals cell
  · first | cell | (cases a <;> cell)

abbrev byteOf : Val → Option UInt8 := fun v => match v with | .byte b => some b | _ => none

theorem contract_decode_utf8 : ∀ args,
    Refines (call "decode_utf8" args) (Spec.Builtins.call "decode_utf8" args) := by
  intro args
  rcases args with _ | ⟨a, _ | ⟨b, rest⟩⟩
  · cell
  · cases a
    case arr i xs =>
      show Refines (match xs.mapM byteOf with
          | none => .err "array should contain only bytes"
          | some bs => match decodeUtf8 bs with
            | some s => .ok (.str s)
            | none => .ok (.err "utf8"))
        (match xs.mapM byteOf with
          | some bs => (match String.fromUTF8? (ByteArray.mk bs.toArray) with
              | some s => .value (.str s)
              | none => .value (.err "utf8"))
          | none => .error)
      cases xs.mapM byteOf with
      | none => exact refines_err _
      | some bs =>
        dsimp only [decodeUtf8]
        cases String.fromUTF8? (ByteArray.mk bs.toArray) with
        | none => exact refines_val _
        | some s => exact refines_val _
    all_goals cell
  · first | cell | (cases a <;> cell)

/-! ### sort -/

theorem comparableAdj_of_all : ∀ xs : List Val,
    (∀ a ∈ xs, ∀ b ∈ xs, (a.partialCmp b).isSome = true) → comparableAdj xs = true
  | [], _ => rfl
  | [_], _ => rfl
  | a :: b :: rest, h => by
    unfold comparableAdj
    rw [h a List.mem_cons_self b (List.mem_cons_of_mem _ List.mem_cons_self), Bool.true_and]
    exact comparableAdj_of_all (b :: rest) (fun x hx y hy =>
      h x (List.mem_cons_of_mem _ hx) y (List.mem_cons_of_mem _ hy))

theorem contract_sort_arr (i : Nat) (xs : List Val) :
    Refines (call "sort" [.arr i xs]) (Spec.Builtins.call "sort" [.arr i xs]) := by
  show Refines
    (if (!comparableAdj xs || (match xs with | x :: _ => (x.partialCmp x).isNone | [] => false)) = true
      then .err "array elements are not comparable"
      else .mutated (.arr i (sortVals xs)) (.arr i (sortVals xs)))
    (if xs.all (fun a => xs.all (fun b => (a.partialCmp b).isSome)) = true then
      .mutate (.arr i (xs.mergeSort leVal)) (.arr i (xs.mergeSort leVal))
    else .any)
  by_cases h : xs.all (fun a => xs.all (fun b => (a.partialCmp b).isSome)) = true
  · rw [if_pos h]
    simp only [List.all_eq_true] at h
    have h1 := comparableAdj_of_all xs h
    rw [h1]
    cases xs with
    | nil => exact refines_mut _ _
    | cons x rest =>
      have := h x List.mem_cons_self x List.mem_cons_self
      cases hx : x.partialCmp x with
      | none => rw [hx] at this; cases this
      | some o =>
        have hn : (x.partialCmp x).isNone = false := by rw [hx]; rfl
        simp only [hn, Bool.not_true, Bool.or_self, Bool.false_eq_true, if_false]
        exact refines_mut _ _
  · rw [if_neg h]
    intro msg
    (repeat' split) <;> (intro h; cases h)

theorem contract_sort : ∀ args, Refines (call "sort" args) (Spec.Builtins.call "sort" args) := by
  intro args
  rcases args with _ | ⟨a, _ | ⟨b, rest⟩⟩
  · cell
  · cases a
    case arr i xs => exact contract_sort_arr i xs
    all_goals cell
  · first | cell | (cases a <;> cell)

/-! ## the table -/

/-- the builtins the specification covers -/
def covered : List String :=
  ["len", "first", "last", "rest", "push", "pop", "get", "contains", "insert", "str", "int", "is_error",
   "float", "char", "byte", "tolower", "toupper", "chars", "join", "encode_utf8", "decode_utf8", "sort", "round"]

theorem spec_uncovered (name : String) (args : List Val) (h : name ∉ covered) :
    Spec.Builtins.call name args = .any := by
  unfold Spec.Builtins.call
  split
  all_goals first
    | rfl
    | exact absurd (by decide) h

/-- **the contract table**: for every builtin name and every argument list the model of the
builtin refines what the documentation fixes (`Spec.Builtins.call`): the documented value, the
documented mutation of the first argument, a runtime error for every other arity / kind, "some
value, not an error" (or the model declining) where a kind is documented without its result, and
no panic where the documents are silent (including every name outside the table).

Hypotheses (each names the rows it is about):
* `hk`  — not one of the three known-finding rows (`knownFindingRow`);
* `hm`  — `get` / `contains` / `insert` on a map: `MapKeysOK` (C10: equal keys hash alike);
  discharged in `builtin_contract_final` by `C10.floatLaw`. -/
theorem builtin_contract (name : String) (args : List Val)
    (hk : ¬ knownFindingRow name args)
    (hm : name = "get" ∨ name = "contains" ∨ name = "insert" → MapKeysOK args) :
    Refines (call name args) (Spec.Builtins.call name args) := by
  by_cases hc : name ∈ covered
  · simp only [covered, List.mem_cons, List.mem_nil_iff, or_false] at hc
    rcases hc with rfl | rfl | rfl | rfl | rfl | rfl | rfl | rfl | rfl | rfl | rfl | rfl | rfl | rfl | rfl |
      rfl | rfl | rfl | rfl | rfl | rfl | rfl | rfl
    · exact contract_len args
    · exact contract_first args
    · exact contract_last args
    · exact contract_rest args
    · exact contract_push args
    · exact contract_pop args
    · exact contract_get args (hm (.inl rfl))
    · exact contract_contains args (hm (.inr (.inl rfl)))
    · exact contract_insert args (hm (.inr (.inr rfl)))
    · exact contract_str args
    · exact contract_int args
    · exact contract_is_error args
    · exact contract_float args
    · exact contract_char args hk
    · exact contract_byte args hk
    · exact contract_tolower args
    · exact contract_toupper args
    · exact contract_chars args
    · exact contract_join args
    · exact contract_encode_utf8 args
    · exact contract_decode_utf8 args
    · exact contract_sort args
    · exact contract_round args
  · rw [spec_uncovered name args hc]
    exact C08.builtins_no_panic name args

/-- under the IEEE fact of C10 the map hypothesis is discharged -/
theorem builtin_contract_of_law (law : C10.FloatLaw) (name : String) (args : List Val)
    (hk : ¬ knownFindingRow name args) :
    Refines (call name args) (Spec.Builtins.call name args) :=
  builtin_contract name args hk (fun _ => mapKeysOK_of_law law args)

/-- **the contract table, final form**: for every builtin name and every argument list, outside
the three known-finding rows, the model refines the documented behaviour — no other hypothesis
(`C10.floatLaw` is proved from Lean's model of `Float`) -/
theorem builtin_contract_final (name : String) (args : List Val) (hk : ¬ knownFindingRow name args) :
    Refines (call name args) (Spec.Builtins.call name args) :=
  builtin_contract_of_law C10.floatLaw name args hk

/-- non-vacuity of the table: a value row, a mutation row, an error row, a conversion row -/
example : Refines (call "int" [.str "-12"]) (.value (.int (Int64.ofInt (-12)))) :=
  builtin_contract_final "int" [.str "-12"]
    (by rintro (⟨h, -⟩ | ⟨h, -⟩) <;> exact absurd h (by decide))
example : Refines (call "str" [.arr 0 [.int (-7), .str "a, ", .arr 1 [], .null]])
    (Spec.Builtins.call "str" [.arr 0 [.int (-7), .str "a, ", .arr 1 [], .null]]) := contract_str _
example : Spec.Builtins.display? (.arr 0 [.int (-7), .str "a, ", .arr 1 [], .null]) =
    some "[-7, \"a, \", [], null]" := by decide +kernel
example : Refines (call "push" [.arr 7 [.int 1], .null]) (.mutate .null (.arr 7 [.int 1, .null])) :=
  contract_push _
example : Refines (call "len" [.int 1]) .error := contract_len _
example : Refines (call "char" [.int 955]) (.value (.char 'λ')) := contract_char_int 955

/-! ## sort -/

/-- **`sort`**: the result is a permutation of the input, and it is sorted with respect to the
model's order `leVal` (`a ≤ b` unless `partial_cmp` says `Greater`) whenever that order is
transitive and total *on the elements of the array* (it is not on all values: NaN, and integers
beyond 2^53 next to floats) -/
theorem sort_sorted_perm (xs : List Val)
    (htrans : ∀ a ∈ xs, ∀ b ∈ xs, ∀ c ∈ xs, leVal a b = true → leVal b c = true → leVal a c = true)
    (htotal : ∀ a ∈ xs, ∀ b ∈ xs, (leVal a b || leVal b a) = true) :
    (sortVals xs).Pairwise (fun a b => leVal a b = true) ∧ (sortVals xs).Perm xs := by
  refine ⟨?_, List.mergeSort_perm xs leVal⟩
  let r : {v // v ∈ xs} → {v // v ∈ xs} → Bool := fun a b => leVal a.1 b.1
  have hmap : List.map Subtype.val (xs.attach.mergeSort r) = (List.map Subtype.val xs.attach).mergeSort leVal :=
    List.map_mergeSort (fun a _ b _ => rfl)
  rw [List.attach_map_subtype_val] at hmap
  unfold sortVals
  rw [← hmap, List.pairwise_map]
  exact List.pairwise_mergeSort (le := r)
    (fun a b c => htrans a.1 a.2 b.1 b.2 c.1 c.2) (fun a b => htotal a.1 a.2 b.1 b.2) xs.attach

theorem leVal_int (a b : Int64) : leVal (.int a) (.int b) = decide (a.toInt ≤ b.toInt) := by
  have h := C09.cmpOf_gt a b (C09.i64_gt_iff a b)
  unfold leVal
  simp only [Val.partialCmp]
  by_cases hlt : b < a
  · have hg : cmpOf a b = Ord3.gt := by simpa [hlt] using h
    have : ¬ a.toInt ≤ b.toInt := by have := Int64.lt_iff_toInt_lt.mp hlt; omega
    simp [hg, this]
  · have hg : cmpOf a b ≠ Ord3.gt := by
      intro e; rw [e] at h; simp [hlt] at h
    have : a.toInt ≤ b.toInt := by
      have : ¬ b.toInt < a.toInt := fun x => hlt (Int64.lt_iff_toInt_lt.mpr x)
      omega
    rw [decide_eq_true this]
    cases hc : cmpOf a b with
    | gt => exact absurd hc hg
    | lt => rfl
    | eq => rfl

/-- integer arrays: `sort` yields the ascending permutation -/
theorem sort_ints (ns : List Int64) :
    (sortVals (ns.map .int)).Pairwise (fun a b => leVal a b = true) ∧ (sortVals (ns.map .int)).Perm (ns.map .int) := by
  apply sort_sorted_perm
  · intro a ha b hb c hc
    obtain ⟨x, -, rfl⟩ := List.mem_map.mp ha
    obtain ⟨y, -, rfl⟩ := List.mem_map.mp hb
    obtain ⟨z, -, rfl⟩ := List.mem_map.mp hc
    simp only [leVal_int, decide_eq_true_eq]; omega
  · intro a ha b hb
    obtain ⟨x, -, rfl⟩ := List.mem_map.mp ha
    obtain ⟨y, -, rfl⟩ := List.mem_map.mp hb
    simp only [leVal_int, Bool.or_eq_true, decide_eq_true_eq]; omega

example : (sortVals [.int 3, .int (-1), .int 2]).Perm [.int 3, .int (-1), .int 2] := (sort_ints [3, -1, 2]).2

/-! ## sort: the arrays it orders -/

/-- `sort` through an order-reflecting key: if on the elements of `xs` the model's `≤` is the
decidable, transitive and total relation `le` on a key, the result is sorted -/
theorem sort_sorted_of_key {κ : Type} (key : Val → κ) (le : κ → κ → Prop) [DecidableRel le]
    (trans : ∀ a b c, le a b → le b c → le a c) (total : ∀ a b, le a b ∨ le b a) (xs : List Val)
    (h : ∀ a ∈ xs, ∀ b ∈ xs, leVal a b = decide (le (key a) (key b))) :
    (sortVals xs).Pairwise (fun a b => leVal a b = true) ∧ (sortVals xs).Perm xs := by
  apply sort_sorted_perm
  · intro a ha b hb c hc
    rw [h a ha b hb, h b hb c hc, h a ha c hc]
    simp only [decide_eq_true_eq]
    exact trans _ _ _
  · intro a ha b hb
    rw [h a ha b hb, h b hb a ha]
    simp only [Bool.or_eq_true, decide_eq_true_eq]
    exact total _ _

def notGt : Option Ord3 → Bool
  | some .gt => false
  | _ => true

theorem leVal_eq (a b : Val) : leVal a b = notGt (a.partialCmp b) := rfl

theorem leVal_cmpOf {α} [LT α] [DecidableRel (α := α) (· < ·)] [BEq α] [LawfulBEq α] (a b : α)
    (hgt : b < a ↔ ¬ a < b ∧ a ≠ b) :
    notGt (some (cmpOf a b)) = decide (¬ b < a) := by
  have h := C09.cmpOf_gt a b hgt
  by_cases hlt : b < a
  · have hg : cmpOf a b = Ord3.gt := by simpa [hlt] using h
    simp [hg, hlt, notGt]
  · have hg : cmpOf a b ≠ Ord3.gt := by intro e; rw [e] at h; simp [hlt] at h
    rw [decide_eq_true hlt]
    cases hc : cmpOf a b with
    | gt => exact absurd hc hg
    | lt => rfl
    | eq => rfl

theorem leVal_str (a b : String) : leVal (.str a) (.str b) = decide (a ≤ b) := by
  rw [leVal_eq]; simp only [Val.partialCmp]
  rw [leVal_cmpOf a b (string_gt_iff a b)]
  simp [String.not_lt]

theorem leVal_char (a b : Char) : leVal (.char a) (.char b) = decide (a ≤ b) := by
  rw [leVal_eq]; simp only [Val.partialCmp]
  rw [leVal_cmpOf a b (char_gt_iff a b)]
  simp [Char.not_lt]

theorem u8_gt_iff (a b : UInt8) : b < a ↔ ¬ a < b ∧ a ≠ b := by
  simp only [UInt8.lt_iff_toNat_lt, ne_eq, ← UInt8.toNat_inj]; omega

theorem leVal_byte (a b : UInt8) : leVal (.byte a) (.byte b) = decide (a.toNat ≤ b.toNat) := by
  rw [leVal_eq]; simp only [Val.partialCmp]
  rw [leVal_cmpOf a b (u8_gt_iff a b)]
  simp [UInt8.lt_iff_toNat_lt]

theorem leVal_bool : ∀ a b : Bool, leVal (.bool a) (.bool b) = decide (a.toNat ≤ b.toNat) := by decide

/-! ### doubles: the IEEE comparison of non-NaN values is a lexicographic order on a key -/

open Float.Model in
/-- class (−∞, negative, zero, positive, +∞), then exponent and mantissa (negated for negatives) -/
def ukey : UnpackedFloat → Int × Int × Int
  | .infinity .negative => (-2, 0, 0)
  | .infinity .positive => (2, 0, 0)
  | .notANumber => (0, 0, 0)
  | .zero _ => (0, 0, 0)
  | .finite .positive m e _ => (1, e, m)
  | .finite .negative m e _ => (-1, -e, -(m : Int))

def lexle (k1 k2 : Int × Int × Int) : Prop :=
  k1.1 < k2.1 ∨ (k1.1 = k2.1 ∧ (k1.2.1 < k2.2.1 ∨ (k1.2.1 = k2.2.1 ∧ k1.2.2 ≤ k2.2.2)))

instance : DecidableRel lexle := fun _ _ => by unfold lexle; infer_instance

theorem lexle_trans (a b c : Int × Int × Int) (h1 : lexle a b) (h2 : lexle b c) : lexle a c := by
  unfold lexle at *; omega

theorem lexle_total (a b : Int × Int × Int) : lexle a b ∨ lexle b a := by
  unfold lexle; omega

def notGtO : Option Ordering → Bool
  | some .gt => false
  | none => false
  | _ => true

theorem then_ne_gt (e1 e2 : Int) (m1 m2 : Nat) :
    ((compare e1 e2).then (compare m1 m2) ≠ .gt) ↔ (e1 < e2 ∨ (e1 = e2 ∧ m1 ≤ m2)) := by
  rw [Ne, Ordering.then_eq_gt, Int.compare_eq_gt, Int.compare_eq_eq, Nat.compare_eq_gt]; omega

theorem then_swap_ne_gt (e1 e2 : Int) (m1 m2 : Nat) :
    (((compare e1 e2).then (compare m1 m2)).swap ≠ .gt) ↔ (e2 < e1 ∨ (e1 = e2 ∧ m2 ≤ m1)) := by
  have : ∀ o : Ordering, o.swap = .gt ↔ o = .lt := by decide
  rw [Ne, this, Ordering.then_eq_lt, Int.compare_eq_lt, Int.compare_eq_eq, Nat.compare_eq_lt]; omega

open Float.Model in
theorem compare_key (x y : UnpackedFloat) (hx : x ≠ .notANumber) (hy : y ≠ .notANumber) :
    notGtO (x.compare y) = decide (lexle (ukey x) (ukey y)) := by
  cases x with
  | notANumber => exact absurd rfl hx
  | infinity s =>
    cases y with
    | notANumber => exact absurd rfl hy
    | infinity t => cases s <;> cases t <;> decide
    | zero t => cases s <;> cases t <;> decide
    | finite t m e h => cases s <;> cases t <;> simp [UnpackedFloat.compare, notGtO, ukey, lexle]
  | zero s =>
    cases y with
    | notANumber => exact absurd rfl hy
    | infinity t => cases s <;> cases t <;> decide
    | zero t => cases s <;> cases t <;> decide
    | finite t m e h => cases t <;> simp [UnpackedFloat.compare, notGtO, ukey, lexle]
  | finite s m e h =>
    cases y with
    | notANumber => exact absurd rfl hy
    | infinity t => cases s <;> cases t <;> simp [UnpackedFloat.compare, notGtO, ukey, lexle]
    | zero t => cases s <;> simp [UnpackedFloat.compare, notGtO, ukey, lexle]
    | finite t m' e' h' =>
      cases s <;> cases t
      · have := then_swap_ne_gt e e' m m'
        simp only [UnpackedFloat.compare, ukey, lexle]
        cases hc : ((compare e e').then (compare m m')).swap <;> simp [hc, notGtO] at this ⊢ <;> omega
      · simp [UnpackedFloat.compare, notGtO, ukey, lexle]
      · simp [UnpackedFloat.compare, notGtO, ukey, lexle]
      · have := then_ne_gt e e' m m'
        simp only [UnpackedFloat.compare, ukey, lexle]
        cases hc : (compare e e').then (compare m m') <;> simp [hc, notGtO] at this ⊢ <;> omega

open Float.Model in
theorem compare_isSome (x y : UnpackedFloat) (hx : x ≠ .notANumber) (hy : y ≠ .notANumber) :
    (x.compare y).isSome = true := by
  cases x with
  | notANumber => exact absurd rfl hx
  | infinity s =>
    cases y with
    | notANumber => exact absurd rfl hy
    | infinity t => rfl
    | zero t => cases s <;> rfl
    | finite t m e h => cases s <;> rfl
  | zero s =>
    cases y with
    | notANumber => exact absurd rfl hy
    | infinity t => cases t <;> rfl
    | zero t => rfl
    | finite t m e h => cases t <;> rfl
  | finite s m e h =>
    cases y with
    | notANumber => exact absurd rfl hy
    | infinity t => cases t <;> rfl
    | zero t => cases s <;> rfl
    | finite t m' e' h' => cases s <;> cases t <;> rfl

/-- not a NaN -/
def IsNum (f : Float) : Prop := f.toModel.unpack ≠ .notANumber

def fkey (f : Float) : Int × Int × Int := ukey f.toModel.unpack

theorem leVal_float (a b : Float) (ha : IsNum a) (hb : IsNum b) :
    leVal (.float a) (.float b) = decide (lexle (fkey a) (fkey b)) := by
  have hk := compare_key _ _ ha hb
  have hs := compare_isSome _ _ ha hb
  have hlt := float_lt_iff a b
  have heq := float_beq_iff a b
  have hgt := float_lt_iff b a
  rw [fcmp_swap] at hgt
  rw [leVal_eq]
  simp only [Val.partialCmp, cmpFloat]
  show _ = decide (lexle (ukey _) (ukey _))
  rw [← hk]
  change (fcmp a b).isSome = true at hs
  show _ = notGtO (fcmp a b)
  cases h : fcmp a b with
  | none => rw [h] at hs; cases hs
  | some o =>
    rw [h] at hlt heq hgt
    cases o <;> simp_all [notGt, notGtO]

theorem isNum_of_comparable (f : Float) (h : ((Val.float f).partialCmp (.float f)).isSome = true) : IsNum f := by
  intro hn
  have hc : fcmp f f = none := by unfold fcmp; rw [hn]; rfl
  have hlt := float_lt_iff f f
  have heq := float_beq_iff f f
  rw [hc] at hlt heq
  simp only [Val.partialCmp, cmpFloat] at h
  simp_all

/-! ### the arrays `sort` orders: one kind of scalar throughout -/

/-- all integers, all strings, all chars, all bytes, all booleans, or all doubles none of which is
NaN.  (Integer/float mixes are comparable too, but `Int64.toFloat` is opaque to the kernel, and
beyond 2^53 the mixed order is not transitive.) -/
def SameKind (xs : List Val) : Prop :=
  (∀ v ∈ xs, ∃ n, v = .int n) ∨ (∀ v ∈ xs, ∃ s, v = .str s) ∨ (∀ v ∈ xs, ∃ c, v = .char c) ∨
  (∀ v ∈ xs, ∃ b, v = .byte b) ∨ (∀ v ∈ xs, ∃ b, v = .bool b) ∨ (∀ v ∈ xs, ∃ f, v = .float f ∧ IsNum f)

def intKey : Val → Int | .int n => n.toInt | _ => 0
def strKey : Val → String | .str s => s | _ => ""
def charKey : Val → Char | .char c => c | _ => 'a'
def byteKey : Val → Nat | .byte b => b.toNat | _ => 0
def boolKey : Val → Nat | .bool b => b.toNat | _ => 0
def floatKey : Val → Int × Int × Int | .float f => fkey f | _ => (0, 0, 0)

/-- **`sort` sorts**: on an array of one scalar kind the result is the permutation of the input
that is ascending in the model's order — no side condition on the order -/
theorem sort_sorted_sameKind (xs : List Val) (h : SameKind xs) :
    (sortVals xs).Pairwise (fun a b => leVal a b = true) ∧ (sortVals xs).Perm xs := by
  rcases h with h | h | h | h | h | h
  · apply sort_sorted_of_key intKey (· ≤ ·) (fun _ _ _ => Int.le_trans) Int.le_total
    intro a ha b hb
    obtain ⟨x, rfl⟩ := h a ha; obtain ⟨y, rfl⟩ := h b hb
    exact leVal_int x y
  · apply sort_sorted_of_key strKey (· ≤ ·) (fun _ _ _ => String.le_trans) String.le_total
    intro a ha b hb
    obtain ⟨x, rfl⟩ := h a ha; obtain ⟨y, rfl⟩ := h b hb
    exact leVal_str x y
  · apply sort_sorted_of_key charKey (· ≤ ·) (fun _ _ _ => Char.le_trans) Char.le_total
    intro a ha b hb
    obtain ⟨x, rfl⟩ := h a ha; obtain ⟨y, rfl⟩ := h b hb
    exact leVal_char x y
  · apply sort_sorted_of_key byteKey (· ≤ ·) (fun _ _ _ => Nat.le_trans) Nat.le_total
    intro a ha b hb
    obtain ⟨x, rfl⟩ := h a ha; obtain ⟨y, rfl⟩ := h b hb
    exact leVal_byte x y
  · apply sort_sorted_of_key boolKey (· ≤ ·) (fun _ _ _ => Nat.le_trans) Nat.le_total
    intro a ha b hb
    obtain ⟨x, rfl⟩ := h a ha; obtain ⟨y, rfl⟩ := h b hb
    exact leVal_bool x y
  · apply sort_sorted_of_key floatKey lexle lexle_trans lexle_total
    intro a ha b hb
    obtain ⟨x, rfl, hx⟩ := h a ha; obtain ⟨y, rfl, hy⟩ := h b hb
    exact leVal_float x y hx hy

example : (sortVals [.float 2.5, .float (-0.0), .float (1.0 / 0.0)]).Pairwise (fun a b => leVal a b = true) :=
  (sort_sorted_sameKind _ (.inr (.inr (.inr (.inr (.inr (by
    intro v hv
    simp only [List.mem_cons, List.mem_nil_iff, or_false] at hv
    rcases hv with rfl | rfl | rfl <;> exact ⟨_, rfl, isNum_of_comparable _ (by decide +kernel)⟩))))))).1
example : (sortVals [.str "b", .str "", .str "ab"]).Perm [.str "b", .str "", .str "ab"] :=
  (sort_sorted_sameKind _ (.inr (.inl (by
    intro v hv
    simp only [List.mem_cons, List.mem_nil_iff, or_false] at hv
    rcases hv with rfl | rfl | rfl <;> exact ⟨_, rfl⟩)))).2

theorem cmpFloat_isSome (a b : Float) (ha : IsNum a) (hb : IsNum b) : (cmpFloat a b).isSome = true := by
  have hs := compare_isSome _ _ ha hb
  have hlt := float_lt_iff a b
  have heq := float_beq_iff a b
  have hgt := float_lt_iff b a
  rw [fcmp_swap] at hgt
  change (fcmp a b).isSome = true at hs
  unfold cmpFloat
  cases h : fcmp a b with
  | none => rw [h] at hs; cases hs
  | some o =>
    rw [h] at hlt heq hgt
    cases o <;> simp_all

theorem sameKind_comparable (xs : List Val) (h : SameKind xs) :
    ∀ a ∈ xs, ∀ b ∈ xs, (a.partialCmp b).isSome = true := by
  intro a ha b hb
  rcases h with h | h | h | h | h | h
  all_goals first
    | (obtain ⟨x, rfl⟩ := h a ha; obtain ⟨y, rfl⟩ := h b hb; rfl)
    | (obtain ⟨x, rfl, hx⟩ := h a ha; obtain ⟨y, rfl, hy⟩ := h b hb; exact cmpFloat_isSome x y hx hy)

/-- the `sort` builtin on an array of one scalar kind: it succeeds, stores and returns the
ascending permutation -/
theorem sort_call_sameKind (i : Nat) (xs : List Val) (h : SameKind xs) :
    ∃ ys, call "sort" [.arr i xs] = .mutated (.arr i ys) (.arr i ys) ∧
      ys.Pairwise (fun a b => leVal a b = true) ∧ ys.Perm xs := by
  have hc := sameKind_comparable xs h
  have hs := contract_sort_arr i xs
  have hall : xs.all (fun a => xs.all (fun b => (a.partialCmp b).isSome)) = true := by
    simp only [List.all_eq_true]; exact hc
  have hspec : Spec.Builtins.call "sort" [.arr i xs] =
      .mutate (.arr i (xs.mergeSort leVal)) (.arr i (xs.mergeSort leVal)) := by
    show (if xs.all (fun a => xs.all (fun b => (a.partialCmp b).isSome)) = true then _ else _) = _
    rw [if_pos hall]; rfl
  rw [hspec] at hs
  exact ⟨sortVals xs, hs, sort_sorted_sameKind xs h⟩

end P2sh.Props.C11
