import P2sh.Model.Scanner
/-!
# C01 — the scanner is total (`scan_total`)

Theorems about `P2sh.Model.Scanner`, the model of `src/scanner/mod.rs` in which every
`self.input[i]` / `self.input[a..b]` is a checked access yielding `panic` and every loop takes fuel.
The six slices (`S.slice`) and the two element reads of the literal readers (`S.at`: `the_byte` after `b'`, `the_char`
after `'`) can return `panic`; `readCharToken_good` / `readIdentifier_good` discharge the element reads with the
`position >= len` guard in front of them (`at_isSome`), so removing a guard from the code and the model breaks
`nextToken_no_panic` and `scan_total`.
All statements are for every input string (embedded NUL characters included: the scanner then
reports `Eof` at the first NUL, exactly as the code does).

Invariant `Inv s`:  `readPosition = position + 1`  and  `ch = input.getD position '\0'`.
Hence `ch ≠ '\0'` implies `position < input.size`; the cursor may run past the end (after an
unterminated literal and after `Eof` it does), where `ch = '\0'`.  `read_char` establishes `Inv`
from any state.  Inside a reader function the relation `Reach s0 s` additionally records
`s0.position ≤ s.position ≤ input.size` (each `read_char` there is guarded by `ch ≠ '\0'`), which
is what makes every slice `input[s0.position .. s.position]` valid.

Property theorems (the obligations):
* `nextToken_no_panic`  — `Inv s → nextToken s ≠ panic`, and the returned state satisfies `Inv`
                          over the same input (`nextToken_no_panic_reachable`: for every state
                          reachable from `init src`);
* `nextToken_progress`  — every call strictly advances the cursor, and a token other than `Eof`
                          is produced only from a position inside the input;
* `scan_total`          — `∀ src, ∃ ts, scan src = .ok ts` (no panic; the fuel `src.length + 2` suffices);
* `scan_ends_with_eof`  — the last token is `Eof`, no earlier one is, at most `src.length` tokens precede it;
* `scan_lines_monotone` — token line numbers are non-decreasing, start at 1, and are at most
                          1 + the number of `'\n'` in the source;
* `scan_lines_exact_partial` (with `nextToken_exact`) — for sources whose token stream contains no `Illegal` token, every
                          token's line is EXACTLY 1 + the number of `'\n'` up to and including the token's last character
                          (newlines in whitespace, comments, string literals, char literals and byte literals are all
                          counted);
* `skip_phase_exits`, `readWhile_exits`, `readUntilQuote_exits`, `readStringBody_exits`,
  `skipLine_exits`, `skipWhitespace_exits`, `skipComments_exits` — the fuel of every inner loop
  suffices: each loop returns at the exit condition of the Rust loop it models.

The line counter is advanced in four places, as in the code: `skip_whitespace` (a newline between tokens), the loop of
`read_string` (a newline inside a string literal, closed or not — after the break test, on the character just read),
`read_char_token` (a raw newline as the character behind the opening quote, before the second `read_char`) and the
byte-literal branch of `read_identifier` (a raw newline as the byte behind `b'`, before the second `read_char`, on the legal
and the illegal path alike).  Each
increment is paired with a newline passed (`Reach.nl`, `Skip.nl`, `Adv.nl`, `Next.nl`: the counter grows by at most the
number of newlines passed; `StrLoop.nl`, `Exa`: by exactly that number).

No fact about the generated tables (`Gen.ParseRules.keywords/singles/twins`) is used for totality and monotonicity:
whatever the tables contain, the single/twin arms read at most one further character, and the NUL test precedes them.
The exactness theorem uses one (`twins_no_nl`: no two-character operator ends in a newline).
-/
namespace P2sh.Props.C01
open P2sh.Scanner

/-! ## the cursor invariant -/

structure Inv (s : S) : Prop where
  rp : s.readPosition = s.position + 1
  ch : s.ch = s.input.getD s.position nul

theorem getD_nul_of_ge {a : Array Char} {i : Nat} (h : a.size ≤ i) : a.getD i nul = nul := by
  simp [Array.getD, Nat.not_lt.mpr h]

/-- inside the input the checked element read `self.input[i]` succeeds — this is where the `position >= len` guards in
front of the two element reads of the literal readers are used -/
theorem at_isSome {s : S} {i : Nat} (h : i < s.input.size) : ∃ c, s.at i = some c :=
  ⟨s.input[i], by simp [S.at, h]⟩

/-- a lone `'` and a lone `b'` at the end of the input: behind the opening quote the cursor is at the end and the
element read is out of range — without the `position >= len` guard both readers would return `panic` (the defects F1) -/
example : (let s := (init "'").readChar; decide (s.position ≥ s.input.size) && (s.at s.position).isNone) = true ∧
    (let s := (init "b'").readChar.readChar; decide (s.position ≥ s.input.size) && (s.at s.position).isNone) = true := by
  decide

theorem Inv.lt_of_ne {s : S} (h : Inv s) (hc : s.ch ≠ nul) : s.position < s.input.size := by
  apply Classical.byContradiction
  intro hn
  exact hc (by rw [h.ch]; exact getD_nul_of_ge (Nat.le_of_not_lt hn))

theorem Inv.ch_nul_of_ge {s : S} (h : Inv s) (hp : s.input.size ≤ s.position) : s.ch = nul := by
  rw [h.ch]; exact getD_nul_of_ge hp

@[simp] theorem readChar_input (s : S) : s.readChar.input = s.input := rfl
@[simp] theorem readChar_line (s : S) : s.readChar.line = s.line := rfl
@[simp] theorem readChar_position (s : S) : s.readChar.position = s.readPosition := rfl
@[simp] theorem readChar_readPosition (s : S) : s.readChar.readPosition = s.readPosition + 1 := rfl

theorem readChar_ch (s : S) : s.readChar.ch = s.input.getD s.readPosition nul := by
  simp only [S.readChar]
  split
  · next h => exact (getD_nul_of_ge h).symm
  · rfl

/-- `read_char` establishes the invariant from any state -/
theorem readChar_inv (s : S) : Inv s.readChar := ⟨rfl, readChar_ch s⟩

theorem Inv.readChar_pos {s : S} (h : Inv s) : s.readChar.position = s.position + 1 := h.rp

theorem peekChar_eq (s : S) : s.peekChar = s.input.getD s.readPosition nul := by
  simp only [S.peekChar]
  split
  · next h => exact (getD_nul_of_ge h).symm
  · rfl

theorem init_inv (src : String) : Inv (init src) := readChar_inv _
@[simp] theorem init_input (src : String) : (init src).input = src.toList.toArray := rfl
@[simp] theorem init_position (src : String) : (init src).position = 0 := rfl
@[simp] theorem init_line (src : String) : (init src).line = 1 := rfl

/-! ## slices -/

theorem slice_isSome {s : S} {a b : Nat} (h1 : a ≤ b) (h2 : b ≤ s.input.size) :
    ∃ t, s.slice a b = some t := by
  simp [S.slice, h1, h2]

/-! ## line numbers: newlines before the cursor -/

/-- number of `'\n'` characters before the cursor -/
def nlBefore (s : S) : Nat := (s.input.toList.take s.position).count '\n'

theorem nlBefore_mono {s s' : S} (hin : s'.input = s.input) (hp : s.position ≤ s'.position) :
    nlBefore s ≤ nlBefore s' := by
  unfold nlBefore
  rw [hin]
  exact List.Sublist.count_le _ (List.take_sublist_take_left hp)

theorem nlBefore_le_total (s : S) : nlBefore s ≤ s.input.toList.count '\n' :=
  List.Sublist.count_le _ (List.take_sublist _ _)

theorem nlBefore_newline {s s' : S} (h : Inv s) (hc : s.ch = '\n') (hin : s'.input = s.input)
    (hp : s'.position = s.position + 1) : nlBefore s' = nlBefore s + 1 := by
  unfold nlBefore
  rw [hin, hp, List.take_add_one, List.count_append]
  have h1 := h.ch
  rw [hc, Array.getD_eq_getD_getElem?, ← Array.getElem?_toList] at h1
  cases hx : s.input.toList[s.position]? with
  | none => rw [hx] at h1; exact absurd h1 (by decide)
  | some c =>
    rw [hx] at h1
    simp only [Option.getD_some] at h1
    subst h1
    simp

theorem nlBefore_other {s s' : S} (h : Inv s) (hc : s.ch ≠ '\n') (hin : s'.input = s.input)
    (hp : s'.position = s.position + 1) : nlBefore s' = nlBefore s := by
  unfold nlBefore
  rw [hin, hp, List.take_add_one, List.count_append]
  have h1 := h.ch
  rw [Array.getD_eq_getD_getElem?, ← Array.getElem?_toList] at h1
  cases hx : s.input.toList[s.position]? with
  | none => simp
  | some c =>
    rw [hx] at h1
    simp only [Option.getD_some] at h1
    subst h1
    have : (s.ch == '\n') = false := by simpa using hc
    simp [List.count_cons, this]

/-! ## `Reach s0 s`: inside one reader function, `s` was reached from `s0` by `read_char`s that
stayed within the input (so `input[s0.position .. s.position]` is a valid slice) -/

structure Reach (s0 s : S) : Prop where
  inv : Inv s
  input : s.input = s0.input
  pos : s0.position ≤ s.position
  bd : s.position ≤ s.input.size
  /-- the line number only grows (inside a string literal, and on a raw newline as the character of a char / byte literal) -/
  line : s0.line ≤ s.line
  /-- … by at most the number of newlines passed -/
  nl : s.line + nlBefore s0 ≤ s0.line + nlBefore s

theorem Reach.refl {s : S} (h : Inv s) (hb : s.position ≤ s.input.size) : Reach s s :=
  ⟨h, rfl, Nat.le_refl _, hb, Nat.le_refl _, Nat.le_refl _⟩

theorem Reach.trans {a b c : S} (h1 : Reach a b) (h2 : Reach b c) : Reach a c :=
  ⟨h2.inv, h2.input.trans h1.input, Nat.le_trans h1.pos h2.pos, h2.bd, Nat.le_trans h1.line h2.line,
   by have := h1.nl; have := h2.nl; omega⟩

/-- one `read_char` from a position inside the input -/
theorem Reach.step {s0 s : S} (r : Reach s0 s) (hlt : s.position < s.input.size) :
    Reach s0 s.readChar :=
  ⟨readChar_inv s, r.input, by rw [r.inv.readChar_pos]; exact Nat.le_succ_of_le r.pos,
   by rw [r.inv.readChar_pos]; exact hlt, r.line,
   by have := r.nl
      have := nlBefore_mono (s := s) (s' := s.readChar) rfl (by rw [r.inv.readChar_pos]; exact Nat.le_succ _)
      simp only [readChar_line]; omega⟩

theorem Reach.step' {s0 s : S} (r : Reach s0 s) (hc : s.ch ≠ nul) : Reach s0 s.readChar :=
  r.step (r.inv.lt_of_ne hc)

theorem Reach.slice {s0 s : S} (r : Reach s0 s) : ∃ t, s.slice s0.position s.position = some t :=
  slice_isSome r.pos r.bd

/-! ## the loops -/

theorem readWhile_reach (p : Char → Bool) (hp : p nul = false) :
    ∀ (fuel : Nat) (s : S), Inv s → s.position ≤ s.input.size → Reach s (readWhile p fuel s)
  | 0, s, h, hb => Reach.refl h hb
  | fuel+1, s, h, hb => by
    simp only [readWhile]
    split
    · next hc =>
      have hne : s.ch ≠ nul := by intro e; rw [e, hp] at hc; exact Bool.noConfusion hc
      have r1 : Reach s s.readChar := (Reach.refl h hb).step' hne
      exact r1.trans (readWhile_reach p hp fuel _ r1.inv r1.bd)
    · exact Reach.refl h hb

theorem Reach.while_ {s0 s : S} (r : Reach s0 s) (p : Char → Bool) (hp : p nul = false) (fuel : Nat) :
    Reach s0 (readWhile p fuel s) :=
  r.trans (readWhile_reach p hp fuel s r.inv r.bd)

/-- `Reach` plus strict progress of the cursor -/
structure ReachS (s0 s : S) : Prop where
  reach : Reach s0 s
  lt : s0.position < s.position

theorem ReachS.trans {a b c : S} (h1 : ReachS a b) (h2 : Reach b c) : ReachS a c :=
  ⟨h1.reach.trans h2, Nat.lt_of_lt_of_le h1.lt h2.pos⟩

theorem Reach.stepS {s0 s : S} (r : Reach s0 s) (hlt : s.position < s.input.size) :
    ReachS s0 s.readChar :=
  ⟨r.step hlt, by rw [r.inv.readChar_pos]; exact Nat.lt_succ_of_le r.pos⟩

theorem Reach.stepS' {s0 s : S} (r : Reach s0 s) (hc : s.ch ≠ nul) : ReachS s0 s.readChar :=
  r.stepS (r.inv.lt_of_ne hc)

theorem ReachS.step {s0 s : S} (r : ReachS s0 s) (hlt : s.position < s.input.size) :
    ReachS s0 s.readChar := (r.reach.stepS hlt)

theorem ReachS.step' {s0 s : S} (r : ReachS s0 s) (hc : s.ch ≠ nul) : ReachS s0 s.readChar :=
  r.reach.stepS' hc

theorem ReachS.while_ {s0 s : S} (r : ReachS s0 s) (p : Char → Bool) (hp : p nul = false) (fuel : Nat) :
    ReachS s0 (readWhile p fuel s) :=
  r.trans (readWhile_reach p hp fuel s r.reach.inv r.reach.bd)

/-- a `while p(ch)` loop entered with `p ch` true consumes at least one character -/
theorem Reach.whileS {s0 s : S} (r : Reach s0 s) (p : Char → Bool) (hp : p nul = false) (fuel : Nat)
    (hc : p s.ch = true) : ReachS s0 (readWhile p (fuel+1) s) := by
  have hne : s.ch ≠ nul := by intro e; rw [e, hp] at hc; exact Bool.noConfusion hc
  simp only [P2sh.Scanner.readWhile, hc, if_true]
  exact (r.stepS' hne).while_ p hp fuel

theorem readWhile_id (p : Char → Bool) (fuel : Nat) (s : S) (hc : p s.ch = false) :
    readWhile p fuel s = s := by
  cases fuel <;> simp [P2sh.Scanner.readWhile, hc]

theorem readUntilQuote_reach :
    ∀ (fuel : Nat) (s : S), Inv s → s.position ≤ s.input.size → Reach s (readUntilQuote fuel s)
  | 0, s, h, hb => Reach.refl h hb
  | fuel+1, s, h, hb => by
    simp only [readUntilQuote]
    split
    · next hc =>
      have hne : s.ch ≠ nul := by
        intro e; simp [e] at hc
      have r1 : Reach s s.readChar := (Reach.refl h hb).step' hne
      exact r1.trans (readUntilQuote_reach fuel _ r1.inv r1.bd)
    · exact Reach.refl h hb

theorem ReachS.untilQuote {s0 s : S} (r : ReachS s0 s) (fuel : Nat) :
    ReachS s0 (readUntilQuote fuel s) :=
  r.trans (readUntilQuote_reach fuel s r.reach.inv r.reach.bd)

theorem quote_ne_nul : '\'' ≠ nul := by decide

/-- `if self.ch == c { self.read_char() }` for a character `c ≠ '\0'` -/
theorem ReachS.condStep {s0 s : S} (r : ReachS s0 s) (c : Char) (hc : c ≠ nul) :
    ReachS s0 (if (s.ch == c) = true then s.readChar else s) := by
  split
  · next h => exact r.step' (by rw [eq_of_beq h]; exact hc)
  · exact r

/-- the state with which the string loop continues after a character that is not the closing quote:
the line counter is advanced if that character is a newline -/
theorem bump_facts (s1 : S) (h : Inv s1) :
    Inv (if (s1.ch == '\n') = true then { s1 with line := s1.line + 1 } else s1) ∧
    (if (s1.ch == '\n') = true then { s1 with line := s1.line + 1 } else s1).input = s1.input ∧
    (if (s1.ch == '\n') = true then { s1 with line := s1.line + 1 } else s1).position = s1.position ∧
    (if (s1.ch == '\n') = true then { s1 with line := s1.line + 1 } else s1).line + nlBefore s1 =
      s1.line + nlBefore (if (s1.ch == '\n') = true then { s1 with line := s1.line + 1 } else s1).readChar := by
  split
  · next hc =>
    refine ⟨⟨h.rp, h.ch⟩, rfl, rfl, ?_⟩
    have := nlBefore_newline (s' := ({ s1 with line := s1.line + 1 } : S).readChar) h (eq_of_beq hc) rfl h.rp
    show s1.line + 1 + nlBefore s1 = _
    omega
  · next hc =>
    refine ⟨h, rfl, rfl, ?_⟩
    have := nlBefore_other (s' := s1.readChar) h (by simpa using hc) rfl h.rp
    omega

/-- what the `read_char(); if ch == '"' || ch == '\0' { break }; if ch == '\n' { line += 1 }` loop of `read_string`
guarantees: it stays inside the input, consumes at least one character, and counts EXACTLY the newlines strictly
between the entry position and the exit position -/
structure StrLoop (s s' : S) : Prop where
  inv : Inv s'
  input : s'.input = s.input
  lt : s.position < s'.position
  bd : s'.position ≤ s'.input.size
  nl : s'.line + nlBefore s.readChar = s.line + nlBefore s'

theorem readStringBody_loop :
    ∀ (fuel : Nat) (s : S), Inv s → s.position < s.input.size → s.input.size - s.position ≤ fuel →
      StrLoop s (readStringBody fuel s)
  | 0, _, _, hlt, hf => by omega
  | fuel+1, s, h, hlt, hf => by
    have hp := h.readChar_pos
    have i1 := readChar_inv s
    rw [readStringBody]
    split
    · exact ⟨i1, rfl, by rw [hp]; exact Nat.lt_succ_self _, by rw [hp]; exact hlt, rfl⟩
    · next hc =>
      have hne : s.readChar.ch ≠ nul := by intro e; simp [e] at hc
      have hlt' := i1.lt_of_ne hne
      obtain ⟨i', hin', hpos', hnl'⟩ := bump_facts s.readChar i1
      generalize (if (s.readChar.ch == '\n') = true then { s.readChar with line := s.readChar.line + 1 } else s.readChar) = s1'
        at i' hin' hpos' hnl'
      have ih := readStringBody_loop fuel s1' i' (by rw [hin', hpos']; exact hlt')
        (by rw [hin', hpos', readChar_input, hp]; omega)
      refine ⟨ih.inv, ih.input.trans hin', ?_, ih.bd, ?_⟩
      · have := ih.lt; rw [hpos', hp] at this; omega
      · have := ih.nl; simp only [readChar_line] at hnl'; omega

theorem StrLoop.reachS {s s' : S} (h : Inv s) (l : StrLoop s s') : ReachS s s' := by
  have hp := h.readChar_pos
  have m1 := nlBefore_mono (s := s) (s' := s.readChar) rfl (by rw [hp]; exact Nat.le_succ _)
  have m2 := nlBefore_mono (s := s.readChar) (s' := s') l.input (by rw [hp]; exact l.lt)
  have := l.nl
  exact ⟨⟨l.inv, l.input, Nat.le_of_lt l.lt, l.bd, by omega, by omega⟩, l.lt⟩

/-! ## results of the reader functions -/

/-- the reader returned a token (no panic), stayed inside the input, advanced the cursor; the token carries the
line number of the state the reader ends in (`make_token` is the last thing every reader does) -/
def Good (s : S) (r : Res) : Prop :=
  ∃ t s', r = .tok t s' ∧ ReachS s s' ∧ t.line = s'.line

theorem good_tok {s0 s : S} (r : ReachS s0 s) (ty lit : String) : Good s0 (.tok (mk s ty lit) s) :=
  ⟨_, _, rfl, r, rfl⟩

theorem identFirst_nul : isIdentFirst nul = false := by decide
theorem identRemaining_nul : isIdentRemaining nul = false := by decide
theorem isDigit_nul : Char.isDigit nul = false := by decide

theorem readString_good (s : S) (h : Inv s) (hc : s.ch ≠ nul) : Good s (readString s) := by
  have hlt := h.lt_of_ne hc
  have r1 := (readStringBody_loop (s.input.size + 1) s h hlt (by omega)).reachS h
  simp only [readString]
  generalize readStringBody (s.input.size + 1) s = s1 at r1
  obtain ⟨t, ht⟩ := slice_isSome (s := s1) (a := s.position + 1) (b := s1.position) r1.lt r1.reach.bd
  rw [ht]
  simp only []
  split <;> exact good_tok r1 _ _

/-- the two steps of `read_char_token` behind the opening quote: `if the_char == "\n" { line += 1 }; read_char()` — and
of the byte-literal branch of `read_identifier` behind `b'`: `if the_byte == '\n' { line += 1 }; read_char()` -/
theorem ReachS.charStep {s0 s1 : S} (r : ReachS s0 s1) (hlt : s1.position < s1.input.size) {c : Char}
    (hc : s1.at s1.position = some c) :
    ReachS s0 (if (c == '\n') = true then { s1 with line := s1.line + 1 } else s1).readChar := by
  have hch : s1.ch = c := by
    rw [r.reach.inv.ch, Array.getD_eq_getD_getElem?]
    unfold S.at at hc
    rw [hc]; rfl
  split
  · next hn =>
    have i1 := r.reach.inv
    refine r.trans ⟨readChar_inv _, rfl, ?_, ?_, Nat.le_succ _, ?_⟩
    · show s1.position ≤ s1.readPosition; rw [i1.rp]; exact Nat.le_succ _
    · show s1.readPosition ≤ s1.input.size; rw [i1.rp]; exact hlt
    · have := nlBefore_newline (s' := ({ s1 with line := s1.line + 1 } : S).readChar) i1
        (hch.trans (eq_of_beq hn)) rfl i1.rp
      show s1.line + 1 + nlBefore s1 ≤ _
      omega
  · exact r.step hlt

theorem readCharToken_good (s : S) (h : Inv s) (hc : s.ch ≠ nul) : Good s (readCharToken s) := by
  have r1 := (Reach.refl h (Nat.le_of_lt (h.lt_of_ne hc))).stepS' hc
  simp only [readCharToken]
  generalize s.readChar = s1 at r1
  split
  · exact good_tok r1 _ _
  · next hlt =>
    obtain ⟨c, hc⟩ := at_isSome (s := s1) (Nat.lt_of_not_le hlt)
    simp only [hc]
    have r2 := r1.charStep (Nat.lt_of_not_le hlt) hc
    generalize (if (c == '\n') = true then { s1 with line := s1.line + 1 } else s1).readChar = s2 at r2
    split
    · exact good_tok r2 _ _
    · have r3 := r2.untilQuote (s2.input.size + 1)
      generalize readUntilQuote (s2.input.size + 1) s2 = s3 at r3
      have r4 := r3.condStep '\'' quote_ne_nul
      generalize (if (s3.ch == '\'') = true then s3.readChar else s3) = s4 at r4
      obtain ⟨t, ht⟩ := r4.reach.slice
      rw [ht]
      exact good_tok r4 _ _

theorem identRemaining_of_first {c : Char} (h : isIdentFirst c = true) : isIdentRemaining c = true := by
  simp [isIdentRemaining, h]

theorem readIdentifier_good (s : S) (h : Inv s) (hc : isIdentFirst s.ch = true) :
    Good s (readIdentifier s) := by
  have hne : s.ch ≠ nul := by intro e; rw [e, identFirst_nul] at hc; exact Bool.noConfusion hc
  have r1 := (Reach.refl h (Nat.le_of_lt (h.lt_of_ne hne))).whileS isIdentRemaining identRemaining_nul
    s.input.size (identRemaining_of_first hc)
  simp only [readIdentifier]
  generalize readWhile isIdentRemaining (s.input.size + 1) s = s1 at r1
  obtain ⟨t, ht⟩ := r1.reach.slice
  rw [ht]
  simp only []
  split
  · next hq =>
    have hq1 : s1.ch ≠ nul := by
      intro e; simp [e] at hq; exact absurd hq.1 (by decide)
    have r2 := r1.step' hq1
    generalize s1.readChar = s2 at r2
    split
    · obtain ⟨t2, ht2⟩ := slice_isSome (s := s2) (a := s.position) (b := s2.input.size)
        (Nat.le_trans r2.reach.pos r2.reach.bd) (Nat.le_refl _)
      rw [ht2]
      exact good_tok r2 _ _
    · next hlt =>
      obtain ⟨c, hc⟩ := at_isSome (s := s2) (Nat.lt_of_not_le hlt)
      simp only [hc]
      have r3 := r2.charStep (Nat.lt_of_not_le hlt) hc
      generalize (if (c == '\n') = true then { s2 with line := s2.line + 1 } else s2).readChar = s3 at r3
      split
      · next hq3 =>
        have hq3' : s3.ch ≠ nul := by
          intro e; simp [e] at hq3; exact absurd hq3.1 (by decide)
        exact good_tok (r3.step' hq3') _ _
      · have r4 := r3.condStep '\'' quote_ne_nul
        generalize (if (s3.ch == '\'') = true then s3.readChar else s3) = s4 at r4
        have r5 := r4.untilQuote (s4.input.size + 1)
        generalize readUntilQuote (s4.input.size + 1) s4 = s5 at r5
        have r6 := r5.condStep '\'' quote_ne_nul
        generalize (if (s5.ch == '\'') = true then s5.readChar else s5) = s6 at r6
        obtain ⟨t6, ht6⟩ := r6.reach.slice
        rw [ht6]
        exact good_tok r6 _ _
  · exact good_tok r1 _ _

/-! `read_number` in three stages (the definitions below are `readNumber` cut at its two tuple-valued `let`s;
`readNumber_eq` is by `rfl`) -/

def numHead (s0 : S) : S × Bool × Bool × Bool :=
  if s0.ch == '0' then
    let s := s0.readChar
    if s.ch == 'x' || s.ch == 'X' then (s.readChar, true, false, false)
    else if s.ch == 'o' || s.ch == 'O' then (s.readChar, false, true, false)
    else if s.ch == 'b' || s.ch == 'B' then (s.readChar, false, false, true)
    else (s, false, false, false)
  else (s0, false, false, false)

def numMid (n : Nat) (s : S) : S × Bool :=
  if s.ch == '.' && s.peekChar != '.' then (readWhile Char.isDigit n s.readChar, true) else (s, false)

def numTail (position n : Nat) (s : S) (isHex isOct isBin isFloat : Bool) : Res :=
  if s.ch == 'e' || s.ch == 'E' then
    let s := s.readChar
    if s.ch != '-' && s.ch != '+' && !s.ch.isDigit then
      match s.slice position s.position with
      | some t => .tok (mk s "Illegal" t) s
      | none => .panic
    else
      let s := if s.ch == '-' || s.ch == '+' then s.readChar else s
      let s := readWhile Char.isDigit n s
      let s := readWhile isIdentFirst n s
      match s.slice position s.position with
      | some t => .tok (mk s "Float" t) s
      | none => .panic
  else
    let s := readWhile isIdentFirst n s
    match s.slice position s.position with
    | some t =>
      let ty := if isFloat then "Float" else if isHex then "Hexadecimal" else if isOct then "Octal" else if isBin then "Binary" else "Decimal"
      .tok (mk s ty t) s
    | none => .panic

theorem ReachS.condStepP {s0 s : S} (r : ReachS s0 s) (c : Bool) (hc : c = true → s.ch ≠ nul) :
    ReachS s0 (if c = true then s.readChar else s) := by
  split
  · next h => exact r.step' (hc h)
  · exact r

theorem numTail_good {s0 s : S} (r : ReachS s0 s) (n : Nat) (isHex isOct isBin isFloat : Bool) :
    Good s0 (numTail s0.position n s isHex isOct isBin isFloat) := by
  simp only [numTail]
  split
  · next he =>
    have hne : s.ch ≠ nul := by
      intro e; simp [e] at he; exact he.elim (fun h => absurd h (by decide)) (fun h => absurd h (by decide))
    have r1 := r.step' hne
    generalize s.readChar = s1 at r1
    split
    · obtain ⟨t, ht⟩ := r1.reach.slice
      rw [ht]
      exact good_tok r1 _ _
    · have r2 := r1.condStepP (s1.ch == '-' || s1.ch == '+') (by
        intro hpm e; simp [e] at hpm
        exact hpm.elim (fun h => absurd h (by decide)) (fun h => absurd h (by decide)))
      generalize (if (s1.ch == '-' || s1.ch == '+') = true then s1.readChar else s1) = s2 at r2
      have r3 := (r2.while_ Char.isDigit isDigit_nul n).while_ isIdentFirst identFirst_nul n
      generalize readWhile isIdentFirst n (readWhile Char.isDigit n s2) = s3 at r3
      obtain ⟨t, ht⟩ := r3.reach.slice
      rw [ht]
      exact good_tok r3 _ _
  · have r1 := r.while_ isIdentFirst identFirst_nul n
    generalize readWhile isIdentFirst n s = s1 at r1
    obtain ⟨t, ht⟩ := r1.reach.slice
    rw [ht]
    exact good_tok r1 _ _

theorem numHead_reach {s0 : S} (h : Inv s0) (hlt : s0.position < s0.input.size) :
    Reach s0 (numHead s0).1 ∧ ((s0.ch == '0') = true → ReachS s0 (numHead s0).1) ∧
      (¬ (s0.ch == '0') = true → numHead s0 = (s0, false, false, false)) := by
  have r0 := Reach.refl h (Nat.le_of_lt hlt)
  simp only [numHead]
  split
  · next h0 =>
    have r1 := r0.stepS hlt
    generalize s0.readChar = s1 at r1
    have key : ∀ c1 c2 : Char, c1 ≠ nul → c2 ≠ nul → (s1.ch == c1 || s1.ch == c2) = true → ReachS s0 s1.readChar := by
      intro c1 c2 h1 h2 hc
      apply r1.step'
      intro e; simp [e] at hc
      exact hc.elim (fun h => h1 h.symm) (fun h => h2 h.symm)
    have fin : ∀ (x : S) (y : S × Bool × Bool × Bool), ReachS s0 x →
        Reach s0 x ∧ ((s0.ch == '0') = true → ReachS s0 x) ∧ (¬ (s0.ch == '0') = true → y = (s0, false, false, false)) :=
      fun x y hx => ⟨hx.reach, fun _ => hx, fun hn => absurd h0 hn⟩
    split
    · next hc => exact fin _ _ (key _ _ (by decide) (by decide) hc)
    · split
      · next hc => exact fin _ _ (key _ _ (by decide) (by decide) hc)
      · split
        · next hc => exact fin _ _ (key _ _ (by decide) (by decide) hc)
        · exact fin _ _ r1
  · next h0 => exact ⟨r0, fun h => absurd h h0, fun _ => rfl⟩

theorem numMid_reachS {s0 s : S} (r : ReachS s0 s) (n : Nat) : ReachS s0 (numMid n s).1 := by
  simp only [numMid]
  split
  · next hc =>
    have hne : s.ch ≠ nul := by
      intro e; simp [e] at hc; exact absurd hc.1 (by decide)
    exact (r.step' hne).while_ Char.isDigit isDigit_nul n
  · exact r

theorem numMid_dot {s0 s : S} (r : Reach s0 s) (n : Nat) (hd : s.ch = '.') (hp : s.peekChar ≠ '.') :
    ReachS s0 (numMid n s).1 := by
  have hne : s.ch ≠ nul := by rw [hd]; decide
  have hc : (s.ch == '.' && s.peekChar != '.') = true := by simp [hd, hp]
  simp only [numMid, hc, if_true]
  exact (r.stepS' hne).while_ Char.isDigit isDigit_nul n

theorem digit_pred_nul (isHex : Bool) : (fun c : Char => c.isDigit || (isHex && isHexDigit c)) nul = false := by
  cases isHex <;> decide

/-- `read_number` is entered with `ch` a digit, or with `ch = '.'` followed by a digit -/
theorem readNumber_good (s0 : S) (h : Inv s0)
    (hc : s0.ch.isDigit = true ∨ (s0.ch = '.' ∧ s0.peekChar.isDigit = true)) : Good s0 (readNumber s0) := by
  have hne : s0.ch ≠ nul := by
    intro e; rw [e] at hc
    exact hc.elim (fun h => absurd h (by decide)) (fun h => absurd h.1 (by decide))
  have hlt := h.lt_of_ne hne
  obtain ⟨rH, rH0, rHn⟩ := numHead_reach h hlt
  unfold readNumber
  extract_lets position n
  split
  next s isHex isOct isBin heq =>
  have heq' : numHead s0 = (s, isHex, isOct, isBin) := heq
  rw [heq'] at rH rH0 rHn
  simp only [] at rH rH0 rHn
  -- the state after the digit loop and the optional fraction has advanced
  have key : ReachS s0 (numMid (s0.input.size + 1)
      (readWhile (fun c => c.isDigit || (isHex && isHexDigit c)) (s0.input.size + 1) s)).1 := by
    by_cases h0 : (s0.ch == '0') = true
    · exact numMid_reachS ((rH0 h0).while_ _ (digit_pred_nul isHex) _) _
    · have e := rHn h0
      simp only [Prod.mk.injEq] at e
      obtain ⟨e1, e2, -, -⟩ := e
      subst e1 e2
      rcases hc with hd | ⟨hd, hp⟩
      · exact numMid_reachS (rH.whileS _ (digit_pred_nul false) _ (by simp [hd])) _
      · rw [readWhile_id _ _ _ (by rw [hd]; decide)]
        exact numMid_dot rH _ hd (by intro e; rw [e] at hp; exact absurd hp (by decide))
  extract_lets sA
  split
  next sB isFloat heq2 =>
  have heq2' : numMid (s0.input.size + 1)
      (readWhile (fun c => c.isDigit || (isHex && isHexDigit c)) (s0.input.size + 1) s) = (sB, isFloat) := heq2
  rw [heq2'] at key
  exact numTail_good key (s0.input.size + 1) isHex isOct isBin isFloat

/-! ## whitespace and comments -/

/-- `s` was reached from `s0` by skipping: cursor and line number only grow -/
structure Skip (s0 s : S) : Prop where
  inv : Inv s
  input : s.input = s0.input
  pos : s0.position ≤ s.position
  line : s0.line ≤ s.line
  /-- the line number grows by at most the number of newlines passed -/
  nl : s.line + nlBefore s0 ≤ s0.line + nlBefore s

theorem Skip.refl {s : S} (h : Inv s) : Skip s s :=
  ⟨h, rfl, Nat.le_refl _, Nat.le_refl _, Nat.le_refl _⟩

theorem Skip.trans {a b c : S} (h1 : Skip a b) (h2 : Skip b c) : Skip a c :=
  ⟨h2.inv, h2.input.trans h1.input, Nat.le_trans h1.pos h2.pos, Nat.le_trans h1.line h2.line,
   by have := h1.nl; have := h2.nl; omega⟩

theorem Skip.readChar {s : S} (h : Inv s) : Skip s s.readChar :=
  have hp : s.position ≤ s.readChar.position := by rw [h.readChar_pos]; exact Nat.le_succ _
  ⟨readChar_inv s, rfl, hp, Nat.le_refl _,
   by have := nlBefore_mono (s := s) (s' := s.readChar) rfl hp; simp only [readChar_line]; omega⟩

theorem Skip.newline {s : S} (h : Inv s) (hc : s.ch = '\n') :
    Skip s { s.readChar with line := s.line + 1 } :=
  ⟨⟨rfl, readChar_ch s⟩, rfl, by show s.position ≤ s.readChar.position; rw [h.readChar_pos]; exact Nat.le_succ _,
   Nat.le_succ _,
   by have := nlBefore_newline (s' := { s.readChar with line := s.line + 1 }) h hc rfl h.readChar_pos
      show s.line + 1 + nlBefore s ≤ _; omega⟩

theorem skipWhitespace_skip : ∀ (fuel : Nat) (s : S), Inv s → Skip s (skipWhitespace fuel s)
  | 0, s, h => Skip.refl h
  | fuel+1, s, h => by
    simp only [skipWhitespace]
    split
    · exact (Skip.readChar h).trans (skipWhitespace_skip fuel _ (readChar_inv s))
    · split
      · next hc =>
        have hn := Skip.newline h (eq_of_beq hc)
        exact hn.trans (skipWhitespace_skip fuel _ hn.inv)
      · exact Skip.refl h

theorem skipLine_skip : ∀ (fuel : Nat) (s : S), Inv s → Skip s (skipLine fuel s)
  | 0, s, h => Skip.refl h
  | fuel+1, s, h => by
    rw [skipLine]
    split
    · exact Skip.readChar h
    · exact (Skip.readChar h).trans (skipLine_skip fuel _ (readChar_inv s))

theorem skipComments_skip : ∀ (fuel : Nat) (s : S), Inv s → Skip s (skipComments fuel s)
  | 0, s, h => Skip.refl h
  | fuel+1, s, h => by
    rw [skipComments]
    split
    · have k1 := skipLine_skip (s.input.size + 1) s h
      generalize skipLine (s.input.size + 1) s = s1 at k1
      have k2 := k1.trans (skipWhitespace_skip (s1.input.size + 2) s1 k1.inv)
      exact k2.trans (skipComments_skip fuel _ k2.inv)
    · exact Skip.refl h

/-! ## `next_token` -/

/-- what one call of `next_token` guarantees: it returns token `t` and state `s'` with the invariant,
the cursor has strictly advanced, the token's line lies between the old and the new line, and a token
other than `Eof` was produced from a position inside the input -/
structure Next (s : S) (t : Token) (s' : S) : Prop where
  inv : Inv s'
  input : s'.input = s.input
  pos : s.position < s'.position
  line_lo : s.line ≤ t.line
  line_hi : t.line ≤ s'.line
  /-- the line number grows by at most the number of newlines passed -/
  nl : s'.line + nlBefore s ≤ s.line + nlBefore s'
  live : t.ttype ≠ "Eof" → s.position < s.input.size

/-- `s'` was reached from `s2` by at least one `read_char` -/
structure Adv (s2 s' : S) : Prop where
  inv : Inv s'
  input : s'.input = s2.input
  pos : s2.position < s'.position
  line : s2.line ≤ s'.line
  /-- the line number grows by at most the number of newlines passed -/
  nl : s'.line + nlBefore s2 ≤ s2.line + nlBefore s'

theorem Adv.first {s : S} (h : Inv s) : Adv s s.readChar :=
  have hp : s.position < s.readChar.position := by rw [h.readChar_pos]; exact Nat.lt_succ_self _
  ⟨readChar_inv s, rfl, hp, Nat.le_refl _,
   by have := nlBefore_mono (s := s) (s' := s.readChar) rfl (Nat.le_of_lt hp); simp only [readChar_line]; omega⟩

theorem Adv.step {s2 s' : S} (a : Adv s2 s') : Adv s2 s'.readChar :=
  ⟨readChar_inv s', a.input, by rw [a.inv.readChar_pos]; exact Nat.lt_succ_of_lt a.pos, a.line,
   by have := a.nl
      have := nlBefore_mono (s := s') (s' := s'.readChar) rfl (by rw [a.inv.readChar_pos]; exact Nat.le_succ _)
      simp only [readChar_line]; omega⟩

theorem ReachS.adv {s2 s' : S} (r : ReachS s2 s') : Adv s2 s' :=
  ⟨r.reach.inv, r.reach.input, r.lt, r.reach.line, r.reach.nl⟩

/-- the token was made somewhere between the end of the skipping phase and the returned state -/
theorem Next.mkG {s s2 s' : S} {t : Token} (k : Skip s s2) (a : Adv s2 s') (hlo : s2.line ≤ t.line)
    (hhi : t.line ≤ s'.line) (live : t.ttype ≠ "Eof" → s2.position < s2.input.size) : Next s t s' :=
  ⟨a.inv, a.input.trans k.input, Nat.lt_of_le_of_lt k.pos a.pos, Nat.le_trans k.line hlo, hhi,
   by have := k.nl; have := a.nl; omega,
   fun hne => by have := live hne; rw [k.input] at this; exact Nat.lt_of_le_of_lt k.pos this⟩

theorem Next.mk' {s s2 s' : S} {t : Token} (k : Skip s s2) (a : Adv s2 s') (ht : t.line = s2.line)
    (live : t.ttype ≠ "Eof" → s2.position < s2.input.size) : Next s t s' :=
  Next.mkG k a (by rw [ht]; exact Nat.le_refl _) (by rw [ht]; exact a.line) live

theorem singleOrTwin_cases {s : S} {t : Token} {s' : S} (h : singleOrTwin s = some (t, s')) :
    (s' = s ∨ s' = s.readChar) ∧ t.line = s.line := by
  unfold singleOrTwin at h
  extract_lets c at h
  split at h
  · injection h with h; injection h with h1 h2
    exact ⟨Or.inl h2.symm, by rw [← h1]; rfl⟩
  · split at h
    · split at h
      · injection h with h; injection h with h1 h2
        exact ⟨Or.inr h2.symm, by rw [← h1]; rfl⟩
      · injection h with h; injection h with h1 h2
        exact ⟨Or.inl h2.symm, by rw [← h1]; rfl⟩
    · cases h

theorem next_of_good {s s2 : S} (k : Skip s s2) {r : Res} (g : Good s2 r) :
    ∃ t s', r = .tok t s' ∧ Next s t s' := by
  obtain ⟨t, s', e, rs, hl⟩ := g
  exact ⟨t, s', e, Next.mkG k rs.adv (by rw [hl]; exact rs.reach.line) (by rw [hl]; exact Nat.le_refl _)
    (fun _ => Nat.lt_of_lt_of_le rs.lt (by have := rs.reach.bd; rw [rs.reach.input] at this; exact this))⟩

/-- the arms of `next_token` that end with the common `self.read_char()` after a reader function -/
theorem next_of_good_step {s s2 : S} (k : Skip s s2) {r : Res} (g : Good s2 r) :
    ∃ t s', (match r with
      | .tok t s' => Res.tok t s'.readChar
      | .panic => Res.panic) = .tok t s' ∧ Next s t s' := by
  obtain ⟨t, s', e, rs, hl⟩ := g
  subst e
  exact ⟨t, s'.readChar, rfl, Next.mkG k rs.adv.step (by rw [hl]; exact rs.reach.line) (by rw [hl]; exact Nat.le_refl _)
    (fun _ => Nat.lt_of_lt_of_le rs.lt (by have := rs.reach.bd; rw [rs.reach.input] at this; exact this))⟩

/-- `next_token` from any state satisfying the invariant returns a token (it does not panic),
re-establishes the invariant and strictly advances the cursor -/
theorem nextToken_spec (s : S) (h : Inv s) : ∃ t s', nextToken s = .tok t s' ∧ Next s t s' := by
  unfold nextToken
  extract_lets n s1 s2
  have k : Skip s s2 :=
    (skipWhitespace_skip n s h).trans (skipComments_skip n s1 (skipWhitespace_skip n s h).inv)
  clear_value s2
  have h2 := k.inv
  split
  · -- end of input (or an embedded NUL): `Eof`
    exact ⟨_, _, rfl, Next.mk' k (Adv.first h2) rfl (fun hne => absurd rfl hne)⟩
  · next hnul =>
    have hne : s2.ch ≠ nul := fun e => hnul (by rw [e]; decide)
    have hlt := h2.lt_of_ne hne
    split
    · next t s' heq =>
      obtain ⟨hs, hl⟩ := singleOrTwin_cases heq
      rcases hs with rfl | rfl
      · exact ⟨_, _, rfl, Next.mk' k (Adv.first h2) hl (fun _ => hlt)⟩
      · exact ⟨_, _, rfl, Next.mk' k (Adv.first h2).step hl (fun _ => hlt)⟩
    · split
      · exact next_of_good_step k (readString_good s2 h2 hne)
      · split
        · exact next_of_good_step k (readCharToken_good s2 h2 hne)
        · split
          · next hid => exact next_of_good k (readIdentifier_good s2 h2 hid)
          · split
            · next hd =>
              refine next_of_good k (readNumber_good s2 h2 (Or.inr ?_))
              simpa using hd
            · split
              · split
                · exact ⟨_, _, rfl, Next.mk' k (Adv.first h2).step.step rfl (fun _ => hlt)⟩
                · exact ⟨_, _, rfl, Next.mk' k (Adv.first h2).step rfl (fun _ => hlt)⟩
              · split
                · exact ⟨_, _, rfl, Next.mk' k (Adv.first h2) rfl (fun _ => hlt)⟩
                · split
                  · next hd =>
                    refine next_of_good k (readNumber_good s2 h2 (Or.inl ?_))
                    simp at hd; exact hd.2
                  · exact ⟨_, _, rfl, Next.mk' k (Adv.first h2) rfl (fun _ => hlt)⟩

/-- **nextToken_no_panic**: from every state satisfying the invariant, `next_token` does not panic,
and the state it returns satisfies the invariant again (over the same input) -/
theorem nextToken_no_panic (s : S) (h : Inv s) :
    nextToken s ≠ .panic ∧ ∀ t s', nextToken s = .tok t s' → Inv s' ∧ s'.input = s.input := by
  obtain ⟨t, s', e, nx⟩ := nextToken_spec s h
  refine ⟨by rw [e]; exact Res.noConfusion, ?_⟩
  intro t1 s1 e1
  rw [e] at e1
  injection e1 with _ hs
  subst hs
  exact ⟨nx.inv, nx.input⟩

/-- **nextToken_progress**: every call strictly advances the cursor; a token other than `Eof` is
produced only from a position inside the input (so there are at most `input.size` of them) -/
theorem nextToken_progress (s : S) (h : Inv s) (t : Token) (s' : S) (e : nextToken s = .tok t s') :
    s.position < s'.position ∧ (t.ttype ≠ "Eof" → s.position < s.input.size) := by
  obtain ⟨t0, s0, e0, nx⟩ := nextToken_spec s h
  rw [e0] at e
  injection e with ht hs
  subst ht hs
  exact ⟨nx.pos, nx.live⟩

/-- the scanner states that occur while scanning `src` -/
inductive Reachable (src : String) : S → Prop
  | init : Reachable src (init src)
  | next {s : S} {t : Token} {s' : S} : Reachable src s → nextToken s = .tok t s' → Reachable src s'

theorem Reachable.inv {src : String} {s : S} (r : Reachable src s) :
    Inv s ∧ s.input = src.toList.toArray := by
  induction r with
  | init => exact ⟨init_inv src, rfl⟩
  | next _ e ih =>
    obtain ⟨hi, hin⟩ := (nextToken_no_panic _ ih.1).2 _ _ e
    exact ⟨hi, hin.trans ih.2⟩

theorem nextToken_no_panic_reachable {src : String} {s : S} (r : Reachable src s) :
    nextToken s ≠ .panic :=
  (nextToken_no_panic s r.inv.1).1

/-- observable part of a `next_token` result, for the examples -/
def view : Res → Option (Token × Nat × Nat × Char)
  | .tok t s => some (t, s.position, s.readPosition, s.ch)
  | .panic => none

-- the two inputs on which the unrepaired scanner indexed past the end
example : view (nextToken (init "'")) = some (⟨"Illegal", "'", 1⟩, 2, 3, nul) := by decide
example : view (nextToken (init "b'")) = some (⟨"Illegal", "b'", 1⟩, 2, 3, nul) := by decide
-- whitespace, a comment and a newline are skipped, then a hexadecimal literal is read
example : view (nextToken (init " # c\n0x1F;")) = some (⟨"Hexadecimal", "0x1F", 2⟩, 9, 10, ';') := by decide
-- an unterminated string runs to the end of the input; the cursor ends one past it
example : view (nextToken (init "\"ab")) = some (⟨"Illegal", "ab", 1⟩, 4, 5, nul) := by decide
-- `Eof` at the end, and again after it
example : view (nextToken (init "")) = some (⟨"Eof", "", 1⟩, 1, 2, nul) := by decide

/-! ## the token loop -/

/-- one iteration of the token loop (unfolding `run` is slow, so it is done once, here) -/
theorem run_succ_tok (fuel : Nat) (s : S) (acc : List Token) (t : Token) (s' : S)
    (e : nextToken s = .tok t s') :
    run (fuel+1) s acc =
      if t.ttype == "Eof" then .ok (acc ++ [t]).reverse.reverse else run fuel s' (acc ++ [t]) := by
  conv => lhs; unfold run
  rw [e]

/-- `run` with enough fuel (one unit per character left, plus one for `Eof`) returns `acc` followed by
tokens none of which is `Eof`, followed by an `Eof` token; at most one token per remaining character -/
theorem run_spec (fuel : Nat) : ∀ (s : S) (acc : List Token), Inv s →
    s.input.size + 1 - s.position < fuel →
    ∃ pre t, run fuel s acc = .ok (acc ++ pre ++ [t]) ∧ t.ttype = "Eof" ∧
      (∀ x ∈ pre, x.ttype ≠ "Eof") ∧ pre.length ≤ s.input.size - s.position := by
  induction fuel with
  | zero => intro _ _ _ hf; exact absurd hf (Nat.not_lt_zero _)
  | succ fuel ih =>
    intro s acc h hf
    obtain ⟨t, s', e, nx⟩ := nextToken_spec s h
    rw [run_succ_tok fuel s acc t s' e]
    split
    · next ht =>
      exact ⟨[], t, by simp, eq_of_beq ht, by simp, Nat.zero_le _⟩
    · next ht =>
      have hne : t.ttype ≠ "Eof" := fun e => ht (beq_iff_eq.mpr e)
      have hlive := nx.live hne
      have hpos := nx.pos
      have hin : s'.input.size = s.input.size := by rw [nx.input]
      obtain ⟨pre, t', e', ht', hpre, hlen⟩ := ih s' (acc ++ [t]) nx.inv (by omega)
      refine ⟨t :: pre, t', by rw [e']; simp, ht', ?_, ?_⟩
      · intro x hx
        rcases List.mem_cons.mp hx with rfl | hx
        · exact hne
        · exact hpre x hx
      · simp only [List.length_cons]; omega

theorem input_size (src : String) : (init src).input.size = src.length := by
  simp [String.length_toList]

/-- **scan_total**: scanning any source text returns a token list — no checked access fails (no panic)
and the fuel `src.length + 2` of the model suffices -/
theorem scan_total (src : String) : ∃ ts, scan src = .ok ts := by
  obtain ⟨pre, t, e, -⟩ := run_spec (src.length + 2) (init src) [] (init_inv src)
    (by rw [input_size, init_position]; omega)
  exact ⟨_, e⟩

/-- the token list ends with `Eof`, no earlier token is `Eof`, and there is at most one token per
character of the source besides the final `Eof` -/
theorem scan_ends_with_eof (src : String) :
    ∃ pre t, scan src = .ok (pre ++ [t]) ∧ t.ttype = "Eof" ∧ (∀ x ∈ pre, x.ttype ≠ "Eof") ∧
      pre.length ≤ src.length := by
  obtain ⟨pre, t, e, ht, hpre, hlen⟩ := run_spec (src.length + 2) (init src) [] (init_inv src)
    (by rw [input_size, init_position]; omega)
  rw [input_size, init_position] at hlen
  exact ⟨pre, t, by simpa [scan] using e, ht, hpre, by omega⟩

/-! ## line numbers of the tokens -/

/-- line numbers are non-decreasing along the list and lie between `lo` and `hi` -/
def LinesOK (lo hi : Nat) (l : List Token) : Prop :=
  l.Pairwise (fun a b => a.line ≤ b.line) ∧ ∀ x ∈ l, lo ≤ x.line ∧ x.line ≤ hi

theorem run_zero (s : S) (acc : List Token) : run 0 s acc = .fuel := rfl

theorem run_lines (fuel : Nat) : ∀ (s : S) (acc ts : List Token), Inv s → s.line ≤ 1 + nlBefore s →
    run fuel s acc = .ok ts →
    ∃ out, ts = acc ++ out ∧ LinesOK s.line (1 + s.input.toList.count '\n') out := by
  induction fuel with
  | zero => intro s acc ts _ _ e; rw [run_zero] at e; exact Run.noConfusion e
  | succ fuel ih =>
    intro s acc ts h hl e
    obtain ⟨t, s', et, nx⟩ := nextToken_spec s h
    rw [run_succ_tok fuel s acc t s' et] at e
    have h1 := nx.line_lo
    have h2 := nx.line_hi
    have h3 := nx.nl
    have h4 := nlBefore_le_total s'
    rw [nx.input] at h4
    split at e
    · injection e with e
      refine ⟨[t], by rw [← e]; simp, List.pairwise_singleton _ _, ?_⟩
      intro x hx
      rw [List.mem_singleton.mp hx]
      exact ⟨h1, by omega⟩
    · obtain ⟨out, e', hp, hb⟩ := ih s' (acc ++ [t]) ts nx.inv (by omega) e
      rw [nx.input] at hb
      refine ⟨t :: out, by rw [e']; simp, List.pairwise_cons.mpr ⟨?_, hp⟩, ?_⟩
      · intro x hx
        have := (hb x hx).1
        omega
      · intro x hx
        rcases List.mem_cons.mp hx with rfl | hx
        · exact ⟨h1, by omega⟩
        · have := hb x hx
          exact ⟨by omega, this.2⟩

/-- **scan_lines_monotone**: token line numbers never decrease, start at 1 and do not exceed
one plus the number of newline characters in the source -/
theorem scan_lines_monotone (src : String) (ts : List Token) (e : scan src = .ok ts) :
    ts.Pairwise (fun a b => a.line ≤ b.line) ∧
      ∀ x ∈ ts, 1 ≤ x.line ∧ x.line ≤ 1 + src.toList.count '\n' := by
  obtain ⟨out, e', hp, hb⟩ := run_lines (src.length + 2) (init src) [] ts (init_inv src)
    (by rw [init_line]; exact Nat.le_add_right _ _) e
  rw [List.nil_append] at e'
  subst e'
  exact ⟨hp, by simpa using hb⟩

/-! ## the fuel of the inner loops suffices

Each inner loop of the model stops silently when its fuel runs out.  The lemmas below show that with
the fuel passed at every call site (`input.size + 1`, resp. `input.size + 2`) this never happens:
the loop returns in a state satisfying the exit condition of the `while`/`loop` it models, so the
model loop and the unbounded loop of the implementation compute the same state. -/

theorem readWhile_exits (p : Char → Bool) (hp : p nul = false) :
    ∀ (fuel : Nat) (s : S), Inv s → s.input.size - s.position < fuel →
      p (readWhile p fuel s).ch = false
  | 0, _, _, hf => absurd hf (Nat.not_lt_zero _)
  | fuel+1, s, h, hf => by
    simp only [readWhile]
    split
    · next hc =>
      have hne : s.ch ≠ nul := by intro e; rw [e, hp] at hc; exact Bool.noConfusion hc
      have hlt := h.lt_of_ne hne
      exact readWhile_exits p hp fuel s.readChar (readChar_inv s)
        (by rw [readChar_input, h.readChar_pos]; omega)
    · next hc => simpa using hc

theorem readUntilQuote_exits :
    ∀ (fuel : Nat) (s : S), Inv s → s.input.size - s.position < fuel →
      (readUntilQuote fuel s).ch = '\'' ∨ (readUntilQuote fuel s).ch = nul
  | 0, _, _, hf => absurd hf (Nat.not_lt_zero _)
  | fuel+1, s, h, hf => by
    simp only [readUntilQuote]
    split
    · next hc =>
      have hne : s.ch ≠ nul := by intro e; simp [e] at hc
      have hlt := h.lt_of_ne hne
      exact readUntilQuote_exits fuel s.readChar (readChar_inv s)
        (by rw [readChar_input, h.readChar_pos]; omega)
    · next hc =>
      simp only [Bool.and_eq_true, bne_iff_ne, ne_eq, not_and, Decidable.not_not] at hc
      by_cases h1 : s.ch = '\''
      · exact Or.inl h1
      · exact Or.inr (hc h1)

theorem readStringBody_exits :
    ∀ (fuel : Nat) (s : S), Inv s → s.position < s.input.size → s.input.size - s.position ≤ fuel →
      (readStringBody fuel s).ch = '"' ∨ (readStringBody fuel s).ch = nul
  | 0, _, _, hlt, hf => by omega
  | fuel+1, s, h, hlt, hf => by
    rw [readStringBody]
    split
    · next hc => simpa using hc
    · next hc =>
      have hne : s.readChar.ch ≠ nul := by intro e; simp [e] at hc
      have hlt' := (readChar_inv s).lt_of_ne hne
      rw [readChar_input, h.readChar_pos] at hlt'
      obtain ⟨i', hin', hpos', -⟩ := bump_facts s.readChar (readChar_inv s)
      generalize (if (s.readChar.ch == '\n') = true then { s.readChar with line := s.readChar.line + 1 } else s.readChar) = s1'
        at i' hin' hpos'
      exact readStringBody_exits fuel s1' i'
        (by rw [hin', hpos', readChar_input, h.readChar_pos]; exact hlt')
        (by rw [hin', hpos', readChar_input, h.readChar_pos]; omega)

theorem skipLine_exits :
    ∀ (fuel : Nat) (s : S), Inv s → s.position < s.input.size → s.input.size - s.position ≤ fuel →
      (skipLine fuel s).ch = '\n' ∨ (skipLine fuel s).ch = nul
  | 0, _, _, hlt, hf => by omega
  | fuel+1, s, h, hlt, hf => by
    rw [skipLine]
    split
    · next hc => simpa using hc
    · next hc =>
      have hne : s.readChar.ch ≠ nul := by intro e; simp [e] at hc
      have hlt' := (readChar_inv s).lt_of_ne hne
      rw [readChar_input, h.readChar_pos] at hlt'
      exact skipLine_exits fuel s.readChar (readChar_inv s)
        (by rw [readChar_input, h.readChar_pos]; exact hlt')
        (by rw [readChar_input, h.readChar_pos]; omega)

/-- `skip_line` consumes at least one character -/
theorem skipLine_pos (fuel : Nat) (s : S) (h : Inv s) : s.position + 1 ≤ (skipLine (fuel+1) s).position := by
  rw [skipLine]
  split
  · rw [h.readChar_pos]; exact Nat.le_refl _
  · have := (skipLine_skip fuel s.readChar (readChar_inv s)).pos
    rw [h.readChar_pos] at this
    exact this

def isBlank (c : Char) : Bool := c == ' ' || c == '\t' || c == '\r' || c == '\n'

theorem skipWhitespace_exits :
    ∀ (fuel : Nat) (s : S), Inv s → s.input.size - s.position < fuel →
      isBlank (skipWhitespace fuel s).ch = false
  | 0, _, _, hf => absurd hf (Nat.not_lt_zero _)
  | fuel+1, s, h, hf => by
    simp only [skipWhitespace]
    split
    · next hc =>
      have hne : s.ch ≠ nul := by intro e; simp [e] at hc; revert hc; decide
      have hlt := h.lt_of_ne hne
      exact skipWhitespace_exits fuel s.readChar (readChar_inv s)
        (by rw [readChar_input, h.readChar_pos]; omega)
    · next hc =>
      split
      · next hc2 =>
        have hne : s.ch ≠ nul := by intro e; simp [e] at hc2; revert hc2; decide
        have hlt := h.lt_of_ne hne
        have hn := Skip.newline h (eq_of_beq hc2)
        exact skipWhitespace_exits fuel _ hn.inv
          (by rw [hn.input]; show s.input.size - s.readChar.position < fuel; rw [h.readChar_pos]; omega)
      · next hc2 =>
        simp only [isBlank]
        simp only [Bool.or_eq_true, not_or, Bool.not_eq_true] at hc hc2 ⊢
        simp [hc.1.1, hc.1.2, hc.2, hc2]

/-- the condition of the `loop` in `skip_comments` -/
def atComment (s : S) : Bool := s.ch == '#' || (s.ch == '/' && s.peekChar == '/')

theorem skipComments_exits :
    ∀ (fuel : Nat) (s : S), Inv s → s.input.size - s.position < fuel →
      atComment (skipComments fuel s) = false
  | 0, _, _, hf => absurd hf (Nat.not_lt_zero _)
  | fuel+1, s, h, hf => by
    rw [skipComments]
    split
    · next hc =>
      have hne : s.ch ≠ nul := by
        intro e; simp [e] at hc
        rcases hc with h | ⟨h, _⟩ <;> exact absurd h (by decide)
      have hlt := h.lt_of_ne hne
      have k1 := skipLine_skip (s.input.size + 1) s h
      have p1 := skipLine_pos s.input.size s h
      generalize skipLine (s.input.size + 1) s = s1 at k1 p1
      show atComment (skipComments fuel (skipWhitespace (s1.input.size + 2) s1)) = false
      have k2 := skipWhitespace_skip (s1.input.size + 2) s1 k1.inv
      generalize skipWhitespace (s1.input.size + 2) s1 = s2 at k2
      have := k2.pos
      exact skipComments_exits fuel s2 k2.inv (by rw [k2.input, k1.input]; omega)
    · next hc => simpa [atComment] using hc

theorem skipComments_blank :
    ∀ (fuel : Nat) (s : S), Inv s → isBlank s.ch = false → isBlank (skipComments fuel s).ch = false
  | 0, _, _, hb => hb
  | fuel+1, s, h, hb => by
    rw [skipComments]
    split
    · have k1 := skipLine_skip (s.input.size + 1) s h
      generalize skipLine (s.input.size + 1) s = s1 at k1
      show isBlank (skipComments fuel (skipWhitespace (s1.input.size + 2) s1)).ch = false
      have e2 := skipWhitespace_exits (s1.input.size + 2) s1 k1.inv (by omega)
      have k2 := skipWhitespace_skip (s1.input.size + 2) s1 k1.inv
      exact skipComments_blank fuel _ k2.inv e2
    · exact hb

/-- after the two skipping phases of `next_token` (with the fuel `input.size + 2` of the model) the
cursor is neither on a blank nor at the start of a comment — both loops ran to completion -/
theorem skip_phase_exits (s : S) (h : Inv s) :
    atComment (skipComments (s.input.size + 2) (skipWhitespace (s.input.size + 2) s)) = false ∧
    isBlank (skipComments (s.input.size + 2) (skipWhitespace (s.input.size + 2) s)).ch = false := by
  have k1 := skipWhitespace_skip (s.input.size + 2) s h
  have e1 := skipWhitespace_exits (s.input.size + 2) s h (by omega)
  generalize skipWhitespace (s.input.size + 2) s = s1 at k1 e1
  exact ⟨skipComments_exits _ s1 k1.inv (by rw [k1.input]; omega), skipComments_blank _ s1 k1.inv e1⟩

/-- the token list of a `Run`, for the examples -/
def tokens : Run → Option (List Token)
  | .ok ts => some ts
  | _ => none

example : tokens (scan "let x = 0x1F; 'a' b'c' \"s\" # c\n..") = some
    [⟨"Let", "let", 1⟩, ⟨"Identifier", "x", 1⟩, ⟨"Assign", "=", 1⟩, ⟨"Hexadecimal", "0x1F", 1⟩,
     ⟨"Semicolon", ";", 1⟩, ⟨"Char", "a", 1⟩, ⟨"Byte", "c", 1⟩, ⟨"Str", "s", 1⟩,
     ⟨"RangeEx", "..", 2⟩, ⟨"Eof", "", 2⟩] := by decide
example : tokens (scan "b'") = some [⟨"Illegal", "b'", 1⟩, ⟨"Eof", "", 1⟩] := by decide
example : tokens (scan "1.5e+3 0b1 .5 1..=2 a.b 'xy") = some
    [⟨"Float", "1.5e+3", 1⟩, ⟨"Binary", "0b1", 1⟩, ⟨"Float", ".5", 1⟩, ⟨"Decimal", "1", 1⟩,
     ⟨"RangeInc", "..=", 1⟩, ⟨"Decimal", "2", 1⟩, ⟨"Identifier", "a", 1⟩, ⟨"Dot", ".", 1⟩,
     ⟨"Identifier", "b", 1⟩, ⟨"Illegal", "'xy", 1⟩, ⟨"Eof", "", 1⟩] := by decide

-- line numbers: the newlines inside a string literal are counted (the `Str` token carries the line the literal ends
-- on), and so is the one ending a comment
example : tokens (scan "a\n\"x\ny\" // c\n\n  b") = some
    [⟨"Identifier", "a", 1⟩, ⟨"Str", "x\ny", 3⟩, ⟨"Identifier", "b", 5⟩, ⟨"Eof", "", 5⟩] := by decide
-- a token after a multi-line string literal / after a char literal holding a raw newline is on line 2
example : tokens (scan "\"a\nb\" 1") = some
    [⟨"Str", "a\nb", 2⟩, ⟨"Decimal", "1", 2⟩, ⟨"Eof", "", 2⟩] := by decide
example : tokens (scan "'\n' x") = some
    [⟨"Char", "\n", 2⟩, ⟨"Identifier", "x", 2⟩, ⟨"Eof", "", 2⟩] := by decide
-- an unterminated string counts its lines too; an illegal char token counts only a newline right behind the quote
example : tokens (scan "\"a\nb\n") = some [⟨"Illegal", "a\nb\n", 3⟩, ⟨"Eof", "", 3⟩] := by decide
example : tokens (scan "'\nx\ny' z") = some [⟨"Illegal", "'\nx\ny'", 2⟩, ⟨"Identifier", "z", 2⟩, ⟨"Eof", "", 2⟩] := by decide
-- a raw newline as the byte of a byte literal is counted too: the `Byte` token and the token after it are on line 2
example : tokens (scan "b'\n' x") = some
    [⟨"Byte", "\n", 2⟩, ⟨"Identifier", "x", 2⟩, ⟨"Eof", "", 2⟩] := by decide
example : tokens (scan "let x = b'\n';\ny") = some
    [⟨"Let", "let", 1⟩, ⟨"Identifier", "x", 1⟩, ⟨"Assign", "=", 1⟩, ⟨"Byte", "\n", 2⟩, ⟨"Semicolon", ";", 2⟩,
     ⟨"Identifier", "y", 3⟩, ⟨"Eof", "", 3⟩] := by decide
-- an illegal byte token counts only a newline right behind `b'` (like the illegal char token above)
example : tokens (scan "b'\nx\ny' z") = some [⟨"Illegal", "b'\nx\ny'", 2⟩, ⟨"Identifier", "z", 2⟩, ⟨"Eof", "", 2⟩] := by decide

/-! ## exact line numbers (`scan_lines_exact_partial`)

With the newlines inside string literals and a raw newline as the character of a char literal or as the byte of a byte
literal (`b'⏎'`) counted, the only characters `next_token` consumes without looking whether they are newlines are those of
the tail of an illegal char/byte token (`read_until_quote`).  Outside this path — excluded below by the type of the token
produced (`Illegal`) — the line counter grows by EXACTLY the number of newlines passed. -/

/-- `s` was reached from `s0` with exact bookkeeping: the line counter grew by exactly the number of newlines passed -/
structure Exa (s0 s : S) : Prop where
  inv : Inv s
  ex : s.line + nlBefore s0 = s0.line + nlBefore s

theorem Exa.refl {s : S} (h : Inv s) : Exa s s := ⟨h, rfl⟩

theorem Exa.trans {a b c : S} (h1 : Exa a b) (h2 : Exa b c) : Exa a c :=
  ⟨h2.inv, by have := h1.ex; have := h2.ex; omega⟩

/-- `read_char` over a character that is not a newline -/
theorem Exa.step {s0 s : S} (e : Exa s0 s) (hc : s.ch ≠ '\n') : Exa s0 s.readChar :=
  ⟨readChar_inv s, by
    have := nlBefore_other (s' := s.readChar) e.inv hc rfl e.inv.rp
    have := e.ex
    simp only [readChar_line]; omega⟩

theorem Exa.condStep {s0 s : S} (e : Exa s0 s) (c : Bool) (hc : c = true → s.ch ≠ '\n') :
    Exa s0 (if c = true then s.readChar else s) := by
  split
  · next h => exact e.step (hc h)
  · exact e

theorem readWhile_exa (p : Char → Bool) (hp : p '\n' = false) :
    ∀ (fuel : Nat) (s : S), Inv s → Exa s (readWhile p fuel s)
  | 0, _, h => Exa.refl h
  | fuel+1, s, h => by
    simp only [readWhile]
    split
    · next hc =>
      have hne : s.ch ≠ '\n' := by intro e; rw [e, hp] at hc; exact Bool.noConfusion hc
      exact ((Exa.refl h).step hne).trans (readWhile_exa p hp fuel _ (readChar_inv s))
    · exact Exa.refl h

theorem Exa.while_ {s0 s : S} (e : Exa s0 s) (p : Char → Bool) (hp : p '\n' = false) (fuel : Nat) :
    Exa s0 (readWhile p fuel s) :=
  e.trans (readWhile_exa p hp fuel s e.inv)

theorem Exa.newline {s : S} (h : Inv s) (hc : s.ch = '\n') : Exa s { s.readChar with line := s.line + 1 } :=
  ⟨(Skip.newline h hc).inv, by
    have := nlBefore_newline (s' := { s.readChar with line := s.line + 1 }) h hc rfl h.readChar_pos
    show s.line + 1 + nlBefore s = _
    omega⟩

theorem skipWhitespace_exa : ∀ (fuel : Nat) (s : S), Inv s → Exa s (skipWhitespace fuel s)
  | 0, _, h => Exa.refl h
  | fuel+1, s, h => by
    simp only [skipWhitespace]
    split
    · next hc =>
      have hne : s.ch ≠ '\n' := by intro e; rw [e] at hc; revert hc; decide
      exact ((Exa.refl h).step hne).trans (skipWhitespace_exa fuel _ (readChar_inv s))
    · split
      · next hc =>
        have hn := Exa.newline h (eq_of_beq hc)
        exact hn.trans (skipWhitespace_exa fuel _ hn.inv)
      · exact Exa.refl h

/-- `skip_line` stops in front of the newline: it consumes the character it is entered on and non-newlines -/
theorem skipLine_exa : ∀ (fuel : Nat) (s : S), Inv s → s.ch ≠ '\n' → Exa s (skipLine fuel s)
  | 0, _, h, _ => Exa.refl h
  | fuel+1, s, h, hc => by
    rw [skipLine]
    split
    · exact (Exa.refl h).step hc
    · next hc2 =>
      have hne : s.readChar.ch ≠ '\n' := by intro e; simp [e] at hc2
      exact ((Exa.refl h).step hc).trans (skipLine_exa fuel _ (readChar_inv s) hne)

theorem skipComments_exa : ∀ (fuel : Nat) (s : S), Inv s → Exa s (skipComments fuel s)
  | 0, _, h => Exa.refl h
  | fuel+1, s, h => by
    rw [skipComments]
    split
    · next hc =>
      have hne : s.ch ≠ '\n' := by
        intro e
        have h1 : (s.ch == '#') = false ∧ (s.ch == '/') = false := by rw [e]; decide
        simp [h1.1, h1.2] at hc
      have e1 := skipLine_exa (s.input.size + 1) s h hne
      generalize skipLine (s.input.size + 1) s = s1 at e1
      have e2 := e1.trans (skipWhitespace_exa (s1.input.size + 2) s1 e1.inv)
      exact e2.trans (skipComments_exa fuel _ e2.inv)
    · exact Exa.refl h

/-! ### the reader functions -/

/-- exactness of a reader that is followed by the common `read_char` of `next_token` (string and char literals):
unless the token is `Illegal`, the bookkeeping is exact, the token carries the final line, and the cursor is not on a newline -/
def GoodXQ (s : S) (r : Res) : Prop :=
  ∀ t s', r = .tok t s' → t.ttype ≠ "Illegal" → Exa s s' ∧ t.line = s'.line ∧ s'.ch ≠ '\n'

/-- exactness of the other readers (identifiers and byte literals, numbers): unless the token is `Illegal` -/
def GoodX (s : S) (r : Res) : Prop :=
  ∀ t s', r = .tok t s' → t.ttype ≠ "Illegal" → Exa s s' ∧ t.line = s'.line

theorem goodXQ_tok {s0 s : S} (e : Exa s0 s) (hc : s.ch ≠ '\n') (ty lit : String) : GoodXQ s0 (.tok (mk s ty lit) s) := by
  intro t s' h _
  injection h with h1 h2
  subst h1 h2
  exact ⟨e, rfl, hc⟩

theorem goodXQ_illegal (s0 s : S) (lit : String) : GoodXQ s0 (.tok (mk s "Illegal" lit) s) := by
  intro t s' h hi
  injection h with h1 h2
  subst h1
  exact absurd rfl hi

theorem goodXQ_panic (s0 : S) : GoodXQ s0 .panic := by
  intro t s' h
  cases h

theorem goodX_tok {s0 s : S} (e : Exa s0 s) (ty lit : String) : GoodX s0 (.tok (mk s ty lit) s) := by
  intro t s' h _
  injection h with h1 h2
  subst h1 h2
  exact ⟨e, rfl⟩

theorem goodX_illegal (s0 s : S) (lit : String) : GoodX s0 (.tok (mk s "Illegal" lit) s) := by
  intro t s' h hi
  injection h with h1 h2
  subst h1
  exact absurd rfl hi

theorem goodX_panic (s0 : S) : GoodX s0 .panic := by
  intro t s' h
  cases h

/-- a string literal, closed or not, counts exactly the newlines it contains -/
theorem readString_goodX (s : S) (h : Inv s) (hq : s.ch = '"') : GoodXQ s (readString s) := by
  have hne : s.ch ≠ nul := by rw [hq]; decide
  have hlt := h.lt_of_ne hne
  have l := readStringBody_loop (s.input.size + 1) s h hlt (by omega)
  simp only [readString]
  generalize readStringBody (s.input.size + 1) s = s1 at l
  have ex : Exa s s1 := ⟨l.inv, by
    have := nlBefore_other (s' := s.readChar) h (by rw [hq]; decide) rfl h.rp
    have := l.nl
    omega⟩
  split
  · exact goodXQ_panic _
  · split
    · next hc => exact goodXQ_tok ex (by rw [eq_of_beq hc]; decide) _ _
    · exact goodXQ_illegal _ _ _

theorem charStep_exa {s1 : S} (i1 : Inv s1) {c : Char} (hc : s1.at s1.position = some c) :
    Exa s1 (if (c == '\n') = true then { s1 with line := s1.line + 1 } else s1).readChar := by
  have hch : s1.ch = c := by
    rw [i1.ch, Array.getD_eq_getD_getElem?]
    unfold S.at at hc
    rw [hc]; rfl
  split
  · next hn =>
    refine ⟨readChar_inv _, ?_⟩
    have := nlBefore_newline (s' := ({ s1 with line := s1.line + 1 } : S).readChar) i1
      (hch.trans (eq_of_beq hn)) rfl i1.rp
    show s1.line + 1 + nlBefore s1 = _
    omega
  · next hn => exact (Exa.refl i1).step (by rw [hch]; simpa using hn)

theorem readCharToken_goodX (s : S) (h : Inv s) (hq : s.ch = '\'') : GoodXQ s (readCharToken s) := by
  have e1 := (Exa.refl h).step (by rw [hq]; decide)
  simp only [readCharToken]
  generalize s.readChar = s1 at e1
  split
  · exact goodXQ_illegal _ _ _
  · next hlt =>
    obtain ⟨c, hc⟩ := at_isSome (s := s1) (Nat.lt_of_not_le hlt)
    simp only [hc]
    have e2 := e1.trans (charStep_exa e1.inv hc)
    generalize (if (c == '\n') = true then { s1 with line := s1.line + 1 } else s1).readChar = s2 at e2
    split
    · next hq2 => exact goodXQ_tok e2 (by rw [eq_of_beq hq2]; decide) _ _
    · split
      · exact goodXQ_illegal _ _ _
      · exact goodXQ_panic _

/-- an identifier or keyword passes no newline; a byte literal `b'…'` counts a raw newline as its byte -/
theorem readIdentifier_goodX (s : S) (h : Inv s) : GoodX s (readIdentifier s) := by
  have e1 := readWhile_exa isIdentRemaining (by decide) (s.input.size + 1) s h
  simp only [readIdentifier]
  generalize readWhile isIdentRemaining (s.input.size + 1) s = s1 at e1
  split
  · exact goodX_panic _
  · split
    · next hq =>
      have hq1 : s1.ch = '\'' := by
        simp only [Bool.and_eq_true, beq_iff_eq] at hq; exact hq.1
      have e2 := e1.step (by rw [hq1]; decide)
      generalize s1.readChar = s2 at e2
      split
      · split
        · exact goodX_illegal _ _ _
        · exact goodX_panic _
      · next hlt =>
        obtain ⟨c, hc⟩ := at_isSome (s := s2) (Nat.lt_of_not_le hlt)
        simp only [hc]
        have e3 := e2.trans (charStep_exa e2.inv hc)
        generalize (if (c == '\n') = true then { s2 with line := s2.line + 1 } else s2).readChar = s3 at e3
        split
        · next hq3 =>
          have hq3' : s3.ch = '\'' := by
            simp only [Bool.and_eq_true, beq_iff_eq] at hq3; exact hq3.1
          exact goodX_tok (e3.step (by rw [hq3']; decide)) _ _
        · split
          · exact goodX_illegal _ _ _
          · exact goodX_panic _
    · exact goodX_tok e1 _ _

theorem numTail_goodX {s0 s : S} (e : Exa s0 s) (pos n : Nat) (isHex isOct isBin isFloat : Bool) :
    GoodX s0 (numTail pos n s isHex isOct isBin isFloat) := by
  simp only [numTail]
  split
  · next he =>
    have hne : s.ch ≠ '\n' := by intro e'; rw [e'] at he; revert he; decide
    have e1 := e.step hne
    generalize s.readChar = s1 at e1
    split
    · split
      · exact goodX_illegal _ _ _
      · exact goodX_panic _
    · have e2 := e1.condStep (s1.ch == '-' || s1.ch == '+') (by
        intro hpm e'; rw [e'] at hpm; revert hpm; decide)
      generalize (if (s1.ch == '-' || s1.ch == '+') = true then s1.readChar else s1) = s2 at e2
      have e3 := (e2.while_ Char.isDigit (by decide) n).while_ isIdentFirst (by decide) n
      generalize readWhile isIdentFirst n (readWhile Char.isDigit n s2) = s3 at e3
      split
      · exact goodX_tok e3 _ _
      · exact goodX_panic _
  · have e1 := e.while_ isIdentFirst (by decide) n
    generalize readWhile isIdentFirst n s = s1 at e1
    split
    · exact goodX_tok e1 _ _
    · exact goodX_panic _

theorem numHead_exa {s0 : S} (h : Inv s0) : Exa s0 (numHead s0).1 := by
  simp only [numHead]
  split
  · next h0 =>
    have e1 := (Exa.refl h).step (by rw [eq_of_beq h0]; decide)
    generalize s0.readChar = s1 at e1
    have key : ∀ c1 c2 : Char, c1 ≠ '\n' → c2 ≠ '\n' → (s1.ch == c1 || s1.ch == c2) = true → Exa s0 s1.readChar := by
      intro c1 c2 h1 h2 hc
      apply e1.step
      intro e; simp [e] at hc
      exact hc.elim (fun h => h1 h.symm) (fun h => h2 h.symm)
    split
    · next hc => exact key _ _ (by decide) (by decide) hc
    · split
      · next hc => exact key _ _ (by decide) (by decide) hc
      · split
        · next hc => exact key _ _ (by decide) (by decide) hc
        · exact e1
  · exact Exa.refl h

theorem numMid_exa {s0 s : S} (e : Exa s0 s) (n : Nat) : Exa s0 (numMid n s).1 := by
  simp only [numMid]
  split
  · next hc =>
    have hne : s.ch ≠ '\n' := by
      intro e'
      have h1 : (s.ch == '.') = false := by rw [e']; decide
      simp [h1] at hc
    exact (e.step hne).while_ Char.isDigit (by decide) n
  · exact e

theorem digit_pred_nl (isHex : Bool) : (fun c : Char => c.isDigit || (isHex && isHexDigit c)) '\n' = false := by
  cases isHex <;> decide

theorem readNumber_goodX (s0 : S) (h : Inv s0) : GoodX s0 (readNumber s0) := by
  have eH := numHead_exa h
  unfold readNumber
  extract_lets position n
  split
  next s isHex isOct isBin heq =>
  have heq' : numHead s0 = (s, isHex, isOct, isBin) := heq
  rw [heq'] at eH
  simp only [] at eH
  have key : Exa s0 (numMid (s0.input.size + 1)
      (readWhile (fun c => c.isDigit || (isHex && isHexDigit c)) (s0.input.size + 1) s)).1 :=
    numMid_exa (eH.while_ _ (digit_pred_nl isHex) _) _
  extract_lets sA
  split
  next sB isFloat heq2 =>
  have heq2' : numMid (s0.input.size + 1)
      (readWhile (fun c => c.isDigit || (isHex && isHexDigit c)) (s0.input.size + 1) s) = (sB, isFloat) := heq2
  rw [heq2'] at key
  exact numTail_goodX key s0.position (s0.input.size + 1) isHex isOct isBin isFloat

/-! ### `next_token` -/

/-- the one fact about the generated tables used here: no two-character operator has a newline as its second character -/
theorem twins_no_nl : ∀ e ∈ P2sh.Gen.ParseRules.twins, ∀ x ∈ e.2.2, x.1 ≠ "\n" := by decide

theorem singleOrTwin_nl {s : S} {t : Token} {s' : S} (h : singleOrTwin s = some (t, s')) :
    s' = s ∨ (s' = s.readChar ∧ s.peekChar ≠ '\n') := by
  unfold singleOrTwin at h
  extract_lets c at h
  split at h
  · injection h with h; injection h with h1 h2
    exact Or.inl h2.symm
  · split at h
    · next a single nexts htw =>
      split at h
      · next y t2 hn =>
        injection h with h; injection h with h1 h2
        refine Or.inr ⟨h2.symm, ?_⟩
        intro e
        have m1 := List.mem_of_find?_eq_some htw
        have m2 := List.mem_of_find?_eq_some hn
        have p2 := List.find?_some hn
        apply twins_no_nl _ m1 _ m2
        have p3 : y = String.singleton s.peekChar := eq_of_beq p2
        show y = "\n"
        rw [p3, e]
        decide
      · injection h with h; injection h with h1 h2
        exact Or.inl h2.symm
    · cases h

/-- exact bookkeeping of one call of `next_token` -/
structure NextX (s : S) (t : Token) (s' : S) : Prop where
  /-- the line counter grew by exactly the number of newlines passed -/
  ex : s'.line + nlBefore s = s.line + nlBefore s'
  /-- the token carries the line number of the returned state -/
  line : t.line = s'.line

def GoodN (s : S) (r : Res) : Prop :=
  ∀ t s', r = .tok t s' → t.ttype ≠ "Illegal" → NextX s t s'

theorem goodN_tok {s s' : S} (e : Exa s s') {tk : Token} (hl : tk.line = s'.line) : GoodN s (.tok tk s') := by
  intro t s1 h _
  injection h with h1 h2
  subst h1 h2
  exact ⟨e.ex, hl⟩

theorem goodN_illegal (s sm s' : S) (lit : String) : GoodN s (.tok (mk sm "Illegal" lit) s') := by
  intro t s1 h hi
  injection h with h1 h2
  subst h1
  exact absurd rfl hi

theorem goodN_of_goodXQ {s s2 : S} (k : Exa s s2) {r : Res} : GoodXQ s2 r →
    GoodN s (match r with
      | .tok t s' => Res.tok t s'.readChar
      | .panic => Res.panic) := by
  intro g t s' e hi
  cases r with
  | panic => cases e
  | tok t0 s0 =>
    injection e with e1 e2
    subst e1 e2
    obtain ⟨x, hl, hc⟩ := g _ _ rfl hi
    exact ⟨((k.trans x).step hc).ex, hl⟩

theorem goodN_of_goodX {s s2 : S} (k : Exa s s2) {r : Res} (g : GoodX s2 r) : GoodN s r := by
  intro t s' e hi
  obtain ⟨x, hl⟩ := g _ _ e hi
  exact ⟨(k.trans x).ex, hl⟩

/-- **nextToken_exact**: unless the token produced is `Illegal`, one call of `next_token` advances the line counter by
exactly the number of newlines it passes, and the token carries the line number of the returned state -/
theorem nextToken_exact (s : S) (h : Inv s) : GoodN s (nextToken s) := by
  have hb := (skip_phase_exits s h).2
  unfold nextToken
  extract_lets n s1 s2
  have k : Exa s s2 :=
    (skipWhitespace_exa n s h).trans (skipComments_exa n s1 (skipWhitespace_exa n s h).inv)
  have hb' : isBlank s2.ch = false := hb
  clear_value s2
  clear hb
  have hnl : s2.ch ≠ '\n' := by intro e; rw [e] at hb'; revert hb'; decide
  have a1 : Exa s s2.readChar := k.step hnl
  split
  · exact goodN_tok a1 rfl
  · split
    · next t s' heq =>
      have hl := (singleOrTwin_cases heq).2
      rcases singleOrTwin_nl heq with rfl | ⟨rfl, hpk⟩
      · exact goodN_tok a1 hl
      · exact goodN_tok (a1.step (by rw [readChar_ch, ← peekChar_eq]; exact hpk)) hl
    · split
      · next hq => exact goodN_of_goodXQ k (readString_goodX s2 k.inv (eq_of_beq hq))
      · split
        · next hq => exact goodN_of_goodXQ k (readCharToken_goodX s2 k.inv (eq_of_beq hq))
        · split
          · exact goodN_of_goodX k (readIdentifier_goodX s2 k.inv)
          · split
            · exact goodN_of_goodX k (readNumber_goodX s2 k.inv)
            · split
              · next hd =>
                have hpk : s2.readChar.ch ≠ '\n' := by
                  intro e
                  rw [readChar_ch, ← peekChar_eq] at e
                  have hd' : (s2.ch == '.' && s2.peekChar == '.') = true := hd
                  rw [e] at hd'
                  simp at hd'
                have a2 := a1.step hpk
                split
                · next he => exact goodN_tok (a2.step (by rw [eq_of_beq he]; decide)) rfl
                · exact goodN_tok a2 rfl
              · split
                · exact goodN_tok a1 rfl
                · split
                  · exact goodN_of_goodX k (readNumber_goodX s2 k.inv)
                  · exact goodN_illegal _ _ _ _

/-! ### the token list -/

/-- `ts` is the list of tokens returned by successive calls of `next_token` from `s`, and every one of them carries
exactly the line number `1 + (number of newlines among the characters consumed so far)` — i.e. among the characters
before the cursor of the state returned with it: everything up to and including the token's last character -/
inductive ExactFrom : S → List Token → Prop
  | nil (s : S) : ExactFrom s []
  | cons {s s' : S} {t : Token} {rest : List Token} : nextToken s = .tok t s' → t.line = 1 + nlBefore s' →
      ExactFrom s' rest → ExactFrom s (t :: rest)

theorem run_exact (fuel : Nat) : ∀ (s : S) (acc ts : List Token), Inv s → s.line = 1 + nlBefore s →
    run fuel s acc = .ok ts → (∀ t ∈ ts, t.ttype ≠ "Illegal") →
    ∃ out, ts = acc ++ out ∧ ExactFrom s out := by
  induction fuel with
  | zero => intro s acc ts _ _ e; rw [run_zero] at e; exact Run.noConfusion e
  | succ fuel ih =>
    intro s acc ts h hl e hok
    obtain ⟨t, s', et, nx⟩ := nextToken_spec s h
    rw [run_succ_tok fuel s acc t s' et] at e
    split at e
    · injection e with e
      have hm : t ∈ ts := by rw [← e]; simp
      have hx := nextToken_exact s h t s' et (hok t hm)
      refine ⟨[t], by rw [← e]; simp, ExactFrom.cons et ?_ (ExactFrom.nil _)⟩
      have := hx.ex; have := hx.line; omega
    · have h3 := nx.nl
      obtain ⟨out0, e0, -⟩ := run_lines fuel s' (acc ++ [t]) ts nx.inv (by omega) e
      have hm : t ∈ ts := by rw [e0]; simp
      have hx := nextToken_exact s h t s' et (hok t hm)
      have hl' : s'.line = 1 + nlBefore s' := by have := hx.ex; omega
      obtain ⟨out, e', hf⟩ := ih s' (acc ++ [t]) ts nx.inv hl' e hok
      refine ⟨t :: out, by rw [e']; simp, ExactFrom.cons et ?_ hf⟩
      have := hx.line; omega

/-- **scan_lines_exact_partial**: for sources whose token stream contains no `Illegal` token (the one path on which the
scanner passes characters without counting newlines is the tail of an illegal char/byte token), every token's line number
is exact — `1 +` the number of newlines in the source up to and including the token's last character (newlines in
whitespace, in comments, inside string literals, as the character of a char literal and as the byte of a byte literal
`b'⏎'` are all counted; the `Str` token of a multi-line literal carries the line the literal ends on) -/
theorem scan_lines_exact_partial (src : String) (ts : List Token) (e : scan src = .ok ts)
    (hok : ∀ t ∈ ts, t.ttype ≠ "Illegal") : ExactFrom (init src) ts := by
  obtain ⟨out, e', hf⟩ := run_exact (src.length + 2) (init src) [] ts (init_inv src)
    (by simp [nlBefore]) e hok
  rw [List.nil_append] at e'
  subst e'
  exact hf

end P2sh.Props.C01
