import P2sh.Core.Fn.Encode
/-!
# C04 — parameters and locals of a function are stack slots (`P2sh.Core.Fn`)

* machine: in the activation a `Call` with `n` arguments creates, `GetLocal i` reads the `i`-th
  argument for `i < n` and `null` for the other slots up to `num_locals`
  (`parameters_and_locals_are_slots`); `SetLocal` / `DefineLocal i` change exactly slot `i`
  (`Core.Fn.fstep_setLocal`, `fstep_defLocal`);
* recogniser (the symbol resolution of the fragment, tied to the real compiler byte for byte
  by the `core` op): parameters get the slots `0 … n-1` in the order they are written, every
  `let` of the body the next slot; the function's own name is `CurrClosure`; a parameter named
  like the function hides it (examples).
-/
namespace P2sh.Props.C04Slots
open P2sh P2sh.Core P2sh.Core.Fn

/-- right after a call with the arguments `vs` (the callee `fd` takes `vs.length` parameters and
has `fd.numLocals` slots), the callee's activation reads slot `i` as the `i`-th argument, and
as `null` beyond the arguments: the state after the `Call` steps, under `GetLocal i`, to the
state with exactly that value pushed -/
theorem parameters_and_locals_are_slots {K : List Val} {F : FnDef → Option (List Instr)} {X : Ctxt}
    {pc : Nat} {vs rest fr g : List Val} {hh : List (List Val)} {aa : Heap} {fd : FnDef} {id : Nat} {code : List Instr} {i : Nat} {v : Val}
    (hcall : codeAt X.code pc [Instr.call vs.length]) (hp : vs.length = fd.numParams) (hF : F fd = some code)
    (hget : codeAt code 0 [Instr.getLocal i])
    (hv : (vs ++ List.replicate (fd.numLocals - vs.length) Val.null)[i]? = some v) :
    ∃ s1 s2, fstep K F (X.at pc (vs.reverse ++ (.clos fd fr id :: rest)) g hh aa) = some s1 ∧ fstep K F s1 = some s2 ∧
      s2.stk.head? = some v ∧ s2.stk.length = s1.stk.length + 1 ∧
      s1.act.bp = rest.length + 1 ∧ s1.stk.length = s1.act.bp + max fd.numLocals vs.length := by
  have h1 := fstep_call (K := K) (F := F) (X := X) (g := g) (hp' := hh) (a := aa) (fr := fr) (id := id) (rest := rest) hcall rfl hp hF
  refine ⟨_, _, h1, fstep_getLocal (X := X.callee pc code fd id (.clos fd fr id :: rest)) (ops := []) hget hv, rfl, ?_, ?_, ?_⟩
  · simp [Ctxt.st, Ctxt.at]
  · simp [Ctxt.st, Ctxt.at, Ctxt.callee]
  · simp [Ctxt.st, Ctxt.at, Ctxt.callee]; omega

/-- the slots of `fn f(a, b) { let c = a; { let d = c; } let e = b; f }`: `a`, `b` = 0, 1; `c`, `d`, `e` =
2, 3, 4 (the block's `d` is not reused); `f` = `CurrClosure` -/
example :
    (ofFnBody 50 [] "f" ["a", "b"]
      (.mk 1 [.letS 1 0 "c" (.ident 1 "a" .get), .block (.mk 1 [.letS 1 1 "d" (.ident 1 "c" .get)]),
              .letS 1 2 "e" (.ident 1 "b" .get), .exprS 1 (.ident 1 "f" .get)]) 1).map (fun d => (d.np, d.nl, compileFn 0 d))
    = some (2, 5, [.getLocal 0, .defLocal 2, .getLocal 2, .defLocal 3, .getLocal 1, .defLocal 4, .currClosure, .retv]) := by rfl

/-- a parameter named like the function hides the function's name; a global is read when the
function binds no such name; a name used in its own initialiser is outside the fragment -/
example :
    (ofFnBody 50 [("g", 7)] "f" ["f"] (.mk 1 [.exprS 1 (.binary 1 "+" (.ident 1 "f" .get) (.ident 1 "g" .get))]) 1).map (fun d => compileFn 0 d)
    = some [.getLocal 0, .getGlobal 7, .op .add, .retv] := by rfl

example : (ofFnBody 50 [] "f" ["a"] (.mk 1 [.letS 1 0 "x" (.ident 1 "x" .get)]) 1).isNone = true := by rfl

end P2sh.Props.C04Slots
