import P2sh.Props.RefCore
import P2sh.Props.CoreVm
import P2sh.Core.Prog
/-!
# End to end: the oracle's value is what the VM model computes from the real bytecode

Three layers are connected pairwise elsewhere:

* `Props/RefCore.lean` — the oracle `Ref.evalE` (`Spec/Ref.lean`) agrees with `Core.eval`;
* `Core/Correct.lean`  — `Core.eval` agrees with the abstract machine `Core.step` on `Core.compile`;
* `Props/CoreVm.lean`  — `Core.step` is refined by the VM model (`Model/Vm.lean`) running the bytes
                         `Core.encode C`, as long as the operand stack stays within `STACK_SIZE`.

This file composes them for the expression fragment.  The missing link is the stack bound that
`CoreVm.run_refines_bounded` asks for: `depth e` is a *static* bound on the growth of the operand
stack while `compile pos k e` runs, and `compile_correct_bounded` is compiler correctness again,
now producing a `CoreVm.StepsB` run (every state keeps at most `stk.length + depth e` values).

* `depth`, `compile_correct_bounded`, `compile_correct_depth` — all fourteen constructors (`match`
  included; nothing is partial).  `StepsB C K B s t` (`CoreVm`) is a run of the core machine every
  state of which after the first keeps at most `B` values (`StepsB.steps` forgets the bound);
* `oracle_value_vm_steps`   — from any VM state related to a core state, code placed anywhere, any
                              globals `g` related to the oracle's state (so that it can be iterated);
* `oracle_value_vm`         — `Vm.run` on `Core.encode (Core.compile 0 0 e)`: ends normally with
                              exactly the oracle's value on the stack and the oracle's cells as globals;
* `oracle_exprstmt_vm`      — the whole program `e;` as `Driver/CoreDrv.lean` lays it out
                              (`compileP 0 0 [] [.expr e] = compile 0 0 e ++ [Pop]`, pool `constsP`):
                              ends with `sp = 0` and `last_popped` = the oracle's value;
* `eval_length`, `eval_none_fails` — the error direction of compiler correctness (all fourteen
  constructors): `Core.eval = none` ⇒ a bounded run into an operator / unary instruction that fails;
* `fails_tick`, `oracle_error_vm`, `oracle_exprstmt_error_vm` — the oracle's runtime error ⇒ `Vm.run`
  ends in a runtime error at `lines[pc]` of an instruction (or in the panic "capacity overflow": see
  `oracle_error_vm` for why this alternative remains and for what is not chained).
-/
namespace P2sh.Chain
open P2sh P2sh.Core
open P2sh.CoreVm (StepsB Rel VmSteps scalar)
open P2sh.RefCore (EnvRel toAst globalsBelow globalsBelowArms isScalar)

/-! ## bounded runs compose -/

theorem sb_trans {C K B s1 s2 s3} (h1 : StepsB C K B s1 s2) (h2 : StepsB C K B s2 s3) : StepsB C K B s1 s3 := by
  induction h1 with
  | refl => exact h2
  | cons hs hb _ ih => exact .cons hs hb (ih h2)

theorem sb_one {C K B s pc stk g} (h : Core.step C K s = some ⟨pc, stk, g⟩) (hb : stk.length ≤ B) :
    StepsB C K B s ⟨pc, stk, g⟩ := .cons h hb (.refl _)

theorem sb_to {C K B s t t'} (h : StepsB C K B s t) (e : t = t') : StepsB C K B s t' := e ▸ h

theorem sb_mono {C K B B' s t} (h : StepsB C K B s t) (hB : B ≤ B') : StepsB C K B' s t := by
  induction h with
  | refl => exact .refl _
  | cons hs hb _ ih => exact .cons hs (Nat.le_trans hb hB) ih

/-- side goals `stack length ≤ B` -/
macro "bnd" : tactic => `(tactic| ((try simp only [List.length_cons]); omega))

/-! ## the static stack-depth bound -/

/-- the test of one pattern, with the scrutinee on the stack: `Dup; <constant>; <compare>` keeps the
scrutinee, its copy and the constant; the default pattern is a `Jump` -/
def patDepth : CPat → Nat
  | .dflt => 1
  | _ => 3

def patsDepth : List CPat → Nat
  | [] => 1
  | p :: ps => max (patDepth p) (patsDepth ps)

mutual
/-- how far the operand stack grows (above its height at the start) while the code of `e` runs.
It is at least 1: the value is left on the stack.  The left operand stays on the stack while the
right one is computed (`<`/`<=`: the right one first); `&&`/`||`/`if` pop the tested value before
the other part runs; the scrutinee of a `match` stays on the stack while the patterns are tested
(each test duplicates it: `patDepth`) and is popped before the selected body runs. -/
def depth : CExpr → Nat
  | .lit _ | .tru | .fls | .null | .gget _ => 1
  | .un _ e | .gset _ e => depth e
  | .bin _ a b => max (depth a) (depth b + 1)
  | .lt a b | .le a b => max (depth b) (depth a + 1)
  | .and a b | .or a b => max (depth a) (depth b)
  | .ite c t e => max (depth c) (max (depth t) (depth e))
  | .matchE s arms => max (depth s) (depthArms arms)
/-- the arms, entered with the scrutinee on the stack; measured from the stack *below* the scrutinee -/
def depthArms : CArms → Nat
  | .last d => max 1 (depth d)
  | .cons pats body rest => max (patsDepth pats) (max (depth body) (depthArms rest))
end

theorem patsDepth_pos : ∀ ps : List CPat, 1 ≤ patsDepth ps
  | [] => Nat.le_refl _
  | p :: ps => by have := patsDepth_pos ps; simp only [patsDepth]; omega

theorem depth_pos (e : CExpr) : 1 ≤ depth e := by
  induction e with
  | lit | tru | fls | null | gget => simp [depth]
  | un op a ih => simpa [depth] using ih
  | gset i a ih => simpa [depth] using ih
  | bin op a b iha ihb => simp only [depth]; omega
  | lt a b iha ihb => simp only [depth]; omega
  | le a b iha ihb => simp only [depth]; omega
  | and a b iha ihb => simp only [depth]; omega
  | or a b iha ihb => simp only [depth]; omega
  | ite c t e ihc iht ihe => simp only [depth]; omega
  | matchE s arms ihs _ => simp only [depth]; omega

/-! ## match: patterns, bounded -/

theorem cmp_stepsB {C K pos v c r stk g o t sz B} (push : Instr) (hsz : push.size = sz)
    (hpush : ∀ stk', step C K ⟨pos + 1, stk', g⟩ = some ⟨pos + 1 + sz, c :: stk', g⟩)
    (h : codeAt C pos [.dup, push, .op o, .jif t]) (hop : execOperator o v c = .ok r)
    (hB : stk.length + 3 ≤ B) :
    StepsB C K B ⟨pos, v :: stk, g⟩ ⟨if r.isFalsey then t else pos + 1 + sz + 1 + 3, v :: stk, g⟩ := by
  obtain ⟨h1, h⟩ := codeAt_cons h
  obtain ⟨_, h⟩ := codeAt_cons h
  rw [hsz] at h
  obtain ⟨h3, h⟩ := codeAt_cons h
  obtain ⟨h4, _⟩ := codeAt_cons h
  have h3 : codeAt C (pos + 1 + sz) [Instr.op o] := h3
  have h4 : codeAt C (pos + 1 + sz + 1) [Instr.jif t] := h4
  refine sb_trans (sb_one (step_dup h1) (by bnd)) (sb_trans (sb_one (hpush _) (by bnd))
    (sb_trans (sb_one (step_op h3 hop) (by bnd)) ?_))
  exact sb_to (sb_one (step_jif h4) (by bnd)) (by simp)

theorem pat_correctB (p : CPat) (C : List Instr) (K : List Val) (pos k t : Nat) (v : Val) (stk g : List Val) (b : Bool)
    (B : Nat) (h : codeAt C pos (compilePat pos k t p)) (hp : poolAt K k (patConsts p)) (ht : patTest v p = some b)
    (hB : stk.length + patDepth p ≤ B) :
    StepsB C K B ⟨pos, v :: stk, g⟩ ⟨if b then t else pos + patBytes p, v :: stk, g⟩ := by
  cases p with
  | lit c =>
    simp only [patTest] at ht
    simp only [compilePat] at h
    simp only [patDepth] at hB
    cases hop : execOperator .notEqual v c with
    | ok r =>
      simp only [hop, Option.some.injEq] at ht
      subst ht
      have hc : codeAt C (pos + 1) [Instr.const k] := (codeAt_cons (codeAt_cons h).2).1
      have := cmp_stepsB (sz := 3) (g := g) (stk := stk) (.const k) rfl
        (fun stk' => step_const hc (poolAt_get (by simpa [patConsts] using hp))) h hop hB
      exact sb_to this (by simp [patBytes])
    | err m => simp [hop] at ht
    | panic m => simp [hop] at ht
  | bool c =>
    simp only [patTest] at ht
    simp only [compilePat] at h
    simp only [patDepth] at hB
    cases hop : execOperator .notEqual v (.bool c) with
    | ok r =>
      simp only [hop, Option.some.injEq] at ht
      subst ht
      cases c with
      | true =>
        have h : codeAt C pos [.dup, .tru, .op .notEqual, .jif t] := by simpa using h
        have hc : codeAt C (pos + 1) [Instr.tru] := (codeAt_cons (codeAt_cons h).2).1
        have := cmp_stepsB (sz := 1) (K := K) (g := g) (stk := stk) .tru rfl (fun stk' => step_tru hc) h hop hB
        exact sb_to this (by simp [patBytes])
      | false =>
        have h : codeAt C pos [.dup, .fls, .op .notEqual, .jif t] := by simpa using h
        have hc : codeAt C (pos + 1) [Instr.fls] := (codeAt_cons (codeAt_cons h).2).1
        have := cmp_stepsB (sz := 1) (K := K) (g := g) (stk := stk) .fls rfl (fun stk' => step_fls hc) h hop hB
        exact sb_to this (by simp [patBytes])
    | err m => simp [hop] at ht
    | panic m => simp [hop] at ht
  | range incl lo hi =>
    simp only [patTest] at ht
    simp only [compilePat] at h
    simp only [patDepth] at hB
    have hA : codeAt C pos [.dup, .const k, .op .greaterEq, .jif (pos + 16)] :=
      codeAt_left (b := [.dup, .const (k + 1), .op (if incl then .greater else .greaterEq), .jif t]) (by simpa using h)
    have hB' : codeAt C (pos + 8) [.dup, .const (k + 1), .op (if incl then .greater else .greaterEq), .jif t] := by
      have := codeAt_right (a := [.dup, .const k, .op .greaterEq, .jif (pos + 16)]) (by simpa using h)
      simpa [bytes, Instr.size] using this
    have hp1 : poolAt K k [lo] := poolAt_left (b := [hi]) (by simpa [patConsts] using hp)
    have hp2 : poolAt K (k + 1) [hi] := by
      have := poolAt_right (a := [lo]) (b := [hi]) (by simpa [patConsts] using hp)
      simpa using this
    cases hop1 : execOperator .greaterEq v lo with
    | ok r1 =>
      simp only [hop1] at ht
      have hc1 : codeAt C (pos + 1) [Instr.const k] := (codeAt_cons (codeAt_cons hA).2).1
      have s1 := cmp_stepsB (sz := 3) (g := g) (stk := stk) (.const k) rfl
        (fun stk' => step_const hc1 (poolAt_get hp1)) hA hop1 hB
      by_cases hf : r1.isFalsey = true
      · simp only [hf, if_true, Option.some.injEq] at ht s1
        subst ht
        exact sb_to s1 (by simp [patBytes])
      · simp only [hf, Bool.false_eq_true, if_false] at ht s1
        cases hop2 : execOperator (if incl then .greater else .greaterEq) v hi with
        | ok r2 =>
          simp only [hop2, Option.some.injEq] at ht
          subst ht
          have hc2 : codeAt C (pos + 8 + 1) [Instr.const (k + 1)] := (codeAt_cons (codeAt_cons hB').2).1
          have s2 := cmp_stepsB (sz := 3) (g := g) (stk := stk) (.const (k + 1)) rfl
            (fun stk' => step_const hc2 (poolAt_get hp2)) hB' hop2 hB
          exact sb_to (sb_trans (sb_to s1 (by simp)) s2) (by simp [patBytes])
        | err m => simp [hop2] at ht
        | panic m => simp [hop2] at ht
    | err m => simp [hop1] at ht
    | panic m => simp [hop1] at ht
  | dflt =>
    simp only [patTest, Option.some.injEq] at ht
    subst ht
    simp only [compilePat] at h
    simp only [patDepth] at hB
    exact sb_to (sb_one (step_jump h) (by bnd)) (by simp)

theorem pats_correctB : ∀ (ps : List CPat) (C : List Instr) (K : List Val) (pos k t : Nat) (v : Val) (stk g : List Val)
    (b : Bool) (B : Nat),
    codeAt C pos (compilePats pos k t ps) → poolAt K k (patsConsts ps) → patsTest v ps = some b →
    stk.length + patsDepth ps ≤ B →
    StepsB C K B ⟨pos, v :: stk, g⟩ ⟨if b then t else pos + patsBytes ps, v :: stk, g⟩
  | [], C, K, pos, k, t, v, stk, g, b, B, _, _, ht, _ => by
    simp only [patsTest, Option.some.injEq] at ht
    subst ht
    exact sb_to (.refl _) (by simp [patsBytes])
  | p :: ps, C, K, pos, k, t, v, stk, g, b, B, h, hp, ht, hB => by
    simp only [compilePats] at h
    simp only [patsConsts] at hp
    simp only [patsTest] at ht
    simp only [patsDepth] at hB
    cases h1 : patTest v p with
    | none => simp [h1] at ht
    | some b1 =>
      have s1 := pat_correctB p C K pos k t v stk g b1 B (codeAt_left h) (poolAt_left hp) h1 (by omega)
      cases b1 with
      | true =>
        simp only [h1, Option.some.injEq] at ht
        subst ht
        exact s1
      | false =>
        simp only [h1] at ht
        have hr := codeAt_right h
        rw [bytes_compilePat] at hr
        have s2 := pats_correctB ps C K (pos + patBytes p) (k + (patConsts p).length) t v stk g b B hr
          (poolAt_right hp) ht (by omega)
        refine sb_trans (sb_to s1 (by simp)) (sb_to s2 ?_)
        cases b <;> simp [patsBytes, Nat.add_assoc]

/-! ## compiler correctness with the stack bound -/

/-- the statement of `compile_correct_bounded` for one expression (`B`: any bound that leaves
room for `depth e` more values) -/
def ExprSpecB (e : CExpr) : Prop :=
  ∀ (C : List Instr) (K : List Val) (pos k : Nat) (stk g : List Val) (v : Val) (g' : List Val) (B : Nat),
    codeAt C pos (compile pos k e) → poolAt K k (consts e) → eval g e = some (v, g') →
    stk.length + depth e ≤ B →
    StepsB C K B ⟨pos, stk, g⟩ ⟨pos + bytes (compile pos k e), v :: stk, g'⟩

theorem arms_correctB : ∀ (arms : CArms), arms.All ExprSpecB →
    ∀ (C : List Instr) (K : List Val) (pos k : Nat) (stk g : List Val) (v r : Val) (g' : List Val) (B : Nat),
    codeAt C pos (compileArms pos k arms) → poolAt K k (constsArms arms) → evalArms g v arms = some (r, g') →
    stk.length + depthArms arms ≤ B →
    StepsB C K B ⟨pos, v :: stk, g⟩ ⟨pos + bytes (compileArms pos k arms), r :: stk, g'⟩ := by
  intro arms
  induction arms using CArms.ind with
  | last d =>
    intro hall C K pos k stk g v r g' B h hp he hB
    simp only [CArms.All] at hall
    simp only [compileArms] at h ⊢
    simp only [constsArms] at hp
    simp only [evalArms] at he
    simp only [depthArms] at hB
    generalize hcd : compile (pos + 3 + 3 + 1) k d = cd at *
    obtain ⟨h1, h⟩ := codeAt_cons (by simpa using h)
    obtain ⟨_, h⟩ := codeAt_cons h
    obtain ⟨h3, h⟩ := codeAt_cons h
    simp only [Instr.size] at h3 h
    have sd := hall C K (pos + 3 + 3 + 1) k stk g r g' B (hcd ▸ h) hp he (by omega)
    rw [hcd] at sd
    refine sb_trans (sb_one (step_jump h1) (by bnd)) (sb_trans (sb_one (step_pop h3) (by bnd)) (sb_to sd ?_))
    simp [bytes, Instr.size]; omega
  | cons pats body rest ih =>
    intro hall C K pos k stk g v r g' B h hp he hB
    simp only [CArms.All] at hall
    simp only [compileArms] at h ⊢
    simp only [constsArms] at hp
    simp only [evalArms] at he
    simp only [depthArms] at hB
    have hpd := patsDepth_pos pats
    generalize hcb : compile (pos + patsBytes pats + 3 + 1) (k + (patsConsts pats).length) body = cb at *
    generalize hcr : compileArms (pos + patsBytes pats + 3 + 1 + bytes cb + 3)
      (k + (patsConsts pats).length + (consts body).length) rest = cr at *
    have hpats : codeAt C pos (compilePats pos k (pos + patsBytes pats + 3) pats) :=
      codeAt_left (codeAt_left (codeAt_left (codeAt_left h)))
    have hjo : codeAt C (pos + patsBytes pats) [Instr.jump (pos + patsBytes pats + 3 + 1 + bytes cb + 3)] := by
      have := codeAt_mid (compilePats pos k (pos + patsBytes pats + 3) pats) [_]
        (.pop :: (cb ++ [.jump (pos + patsBytes pats + 3 + 1 + bytes cb + 3 + bytes cr)] ++ cr)) (by simpa using h)
      simpa [bytes_compilePats] using this
    have hpop : codeAt C (pos + patsBytes pats + 3) [Instr.pop] := by
      have := codeAt_mid (compilePats pos k (pos + patsBytes pats + 3) pats ++ [.jump (pos + patsBytes pats + 3 + 1 + bytes cb + 3)]) [.pop]
        (cb ++ [.jump (pos + patsBytes pats + 3 + 1 + bytes cb + 3 + bytes cr)] ++ cr) (by simpa using h)
      simpa [bytes_append, bytes_compilePats, bytes, Instr.size, Nat.add_assoc] using this
    have hbody : codeAt C (pos + patsBytes pats + 3 + 1) cb := by
      have := codeAt_right (codeAt_left (codeAt_left h))
      simpa [bytes_append, bytes_compilePats, bytes, Instr.size, Nat.add_assoc] using this
    have hje : codeAt C (pos + patsBytes pats + 3 + 1 + bytes cb)
        [Instr.jump (pos + patsBytes pats + 3 + 1 + bytes cb + 3 + bytes cr)] := by
      exact (codeAt_right (codeAt_left h)).to (by simp [bytes_append, bytes_compilePats, bytes, Instr.size]; omega)
    have hrest : codeAt C (pos + patsBytes pats + 3 + 1 + bytes cb + 3) cr := by
      exact (codeAt_right h).to (by simp [bytes_append, bytes_compilePats, bytes, Instr.size]; omega)
    have hpp : poolAt K k (patsConsts pats) := poolAt_left (poolAt_left hp)
    have hpb : poolAt K (k + (patsConsts pats).length) (consts body) := poolAt_right (poolAt_left hp)
    have hpr : poolAt K (k + (patsConsts pats).length + (consts body).length) (constsArms rest) := by
      have := poolAt_right hp
      simpa [Nat.add_assoc] using this
    cases hm : patsTest v pats with
    | none => simp [hm] at he
    | some b =>
      have sp := pats_correctB pats C K pos k (pos + patsBytes pats + 3) v stk g b B hpats hpp hm (by omega)
      cases b with
      | true =>
        simp only [hm] at he
        simp only [if_true] at sp
        have sb := hall.1 C K _ _ stk g r g' B (hcb ▸ hbody) hpb he (by omega)
        rw [hcb] at sb
        refine sb_trans sp (sb_trans (sb_one (step_pop hpop) (by bnd))
          (sb_trans sb (sb_to (sb_one (step_jump hje) (by bnd)) ?_)))
        simp [bytes_append, bytes_compilePats, bytes, Instr.size]; omega
      | false =>
        simp only [hm] at he
        simp only [Bool.false_eq_true, if_false] at sp
        have sr := ih hall.2 C K _ _ stk g v r g' B (hcr ▸ hrest) hpr he (by omega)
        rw [hcr] at sr
        refine sb_trans sp (sb_trans (sb_one (step_jump hjo) (by bnd)) (sb_to sr ?_))
        simp [bytes_append, bytes_compilePats, bytes, Instr.size]; omega

/-- **compiler correctness with a static stack bound.**  `Core.compile_correct` again, now with
the information `CoreVm.run_refines_bounded` needs: along the run every state (after the first)
keeps at most `B` values on the stack, for every `B ≥ stk.length + depth e`. -/
theorem compile_correct_bounded : ∀ (e : CExpr), ExprSpecB e := by
  intro e
  induction e with
  | lit x =>
    intro C K pos k stk g v g' B h hp he hB
    simp only [eval, Option.some.injEq, Prod.mk.injEq] at he
    obtain ⟨rfl, rfl⟩ := he
    simp only [depth] at hB
    exact sb_to (sb_one (step_const h (poolAt_get hp)) (by bnd)) (by simp [compile, bytes, Instr.size])
  | tru =>
    intro C K pos k stk g v g' B h _ he hB
    simp only [eval, Option.some.injEq, Prod.mk.injEq] at he
    obtain ⟨rfl, rfl⟩ := he
    simp only [depth] at hB
    exact sb_to (sb_one (step_tru h) (by bnd)) (by simp [compile, bytes, Instr.size])
  | fls =>
    intro C K pos k stk g v g' B h _ he hB
    simp only [eval, Option.some.injEq, Prod.mk.injEq] at he
    obtain ⟨rfl, rfl⟩ := he
    simp only [depth] at hB
    exact sb_to (sb_one (step_fls h) (by bnd)) (by simp [compile, bytes, Instr.size])
  | null =>
    intro C K pos k stk g v g' B h _ he hB
    simp only [eval, Option.some.injEq, Prod.mk.injEq] at he
    obtain ⟨rfl, rfl⟩ := he
    simp only [depth] at hB
    exact sb_to (sb_one (step_null h) (by bnd)) (by simp [compile, bytes, Instr.size])
  | gget i =>
    intro C K pos k stk g v g' B h _ he hB
    simp only [eval, Option.some.injEq, Prod.mk.injEq] at he
    obtain ⟨rfl, rfl⟩ := he
    simp only [depth] at hB
    exact sb_to (sb_one (step_getGlobal h) (by bnd)) (by simp [compile, bytes, Instr.size])
  | un op a iha =>
    intro C K pos k stk g v g' B h hp he hB
    simp only [compile] at h ⊢
    simp only [eval] at he
    simp only [depth] at hB
    have hpa := depth_pos a
    cases hea : eval g a with
    | none => simp [hea] at he
    | some r =>
      obtain ⟨va, g1⟩ := r
      simp only [hea] at he
      cases hop : applyUn op va with
      | ok r' =>
        simp only [hop, Option.some.injEq, Prod.mk.injEq] at he
        obtain ⟨rfl, rfl⟩ := he
        generalize hca : compile pos k a = ca at *
        have ha := iha C K pos k stk g va g1 B (hca ▸ codeAt_mid [] ca [unInstr op] (by simpa using h))
          (by simpa [consts] using hp) hea hB
        rw [hca] at ha
        have hu : codeAt C (pos + bytes ca) [unInstr op] := codeAt_mid ca [unInstr op] [] (by simpa using h)
        exact sb_to (sb_trans ha (sb_one (step_un hu hop) (by bnd)))
          (by simp [bytes_append, bytes, Instr.size]; cases op <;> simp [unInstr] <;> omega)
      | err m => simp [hop] at he
      | panic m => simp [hop] at he
  | bin op a b iha ihb =>
    intro C K pos k stk g v g' B h hp he hB
    simp only [compile] at h ⊢
    simp only [eval] at he
    simp only [depth] at hB
    have hpa := depth_pos a
    cases hea : eval g a with
    | none => simp [hea] at he
    | some ra =>
      obtain ⟨va, g1⟩ := ra
      simp only [hea] at he
      cases heb : eval g1 b with
      | none => simp [heb] at he
      | some rb =>
        obtain ⟨vb, g2⟩ := rb
        simp only [heb] at he
        cases hop : execOperator op va vb with
        | ok r' =>
          simp only [hop, Option.some.injEq, Prod.mk.injEq] at he
          obtain ⟨rfl, rfl⟩ := he
          simp only [consts] at hp
          generalize hca : compile pos k a = ca at *
          generalize hcb : compile (pos + bytes ca) (k + (consts a).length) b = cb at *
          have ha := iha C K pos k stk g va g1 B (hca ▸ codeAt_mid [] ca (cb ++ [.op op]) (by simpa using h))
            (poolAt_left hp) hea (by omega)
          have hb := ihb C K (pos + bytes ca) (k + (consts a).length) (va :: stk) g1 vb g2 B
            (hcb ▸ codeAt_mid ca cb [.op op] (by simpa using h)) (poolAt_right hp) heb (by bnd)
          rw [hca] at ha; rw [hcb] at hb
          have ho : codeAt C (pos + bytes ca + bytes cb) [Instr.op op] := by
            have := codeAt_mid (ca ++ cb) [.op op] [] (by simpa using h)
            simpa [bytes_append, Nat.add_assoc] using this
          exact sb_to (sb_trans (sb_trans ha hb) (sb_one (step_op ho hop) (by bnd)))
            (by simp [bytes_append, bytes, Instr.size]; omega)
        | err m => simp [hop] at he
        | panic m => simp [hop] at he
  | lt a b iha ihb =>
    intro C K pos k stk g v g' B h hp he hB
    simp only [compile] at h ⊢
    simp only [eval] at he
    simp only [depth] at hB
    have hpb := depth_pos b
    cases heb : eval g b with
    | none => simp [heb] at he
    | some rb =>
      obtain ⟨vb, g1⟩ := rb
      simp only [heb] at he
      cases hea : eval g1 a with
      | none => simp [hea] at he
      | some ra =>
        obtain ⟨va, g2⟩ := ra
        simp only [hea] at he
        cases hop : execOperator .greater vb va with
        | ok r' =>
          simp only [hop, Option.some.injEq, Prod.mk.injEq] at he
          obtain ⟨rfl, rfl⟩ := he
          simp only [consts] at hp
          generalize hcb : compile pos k b = cb at *
          generalize hca : compile (pos + bytes cb) (k + (consts b).length) a = ca at *
          have hb := ihb C K pos k stk g vb g1 B (hcb ▸ codeAt_mid [] cb (ca ++ [.op .greater]) (by simpa using h))
            (poolAt_left hp) heb (by omega)
          have ha := iha C K (pos + bytes cb) (k + (consts b).length) (vb :: stk) g1 va g2 B
            (hca ▸ codeAt_mid cb ca [.op .greater] (by simpa using h)) (poolAt_right hp) hea (by bnd)
          rw [hcb] at hb; rw [hca] at ha
          have ho : codeAt C (pos + bytes cb + bytes ca) [Instr.op .greater] := by
            have := codeAt_mid (cb ++ ca) [.op .greater] [] (by simpa using h)
            simpa [bytes_append, Nat.add_assoc] using this
          exact sb_to (sb_trans (sb_trans hb ha) (sb_one (step_op ho hop) (by bnd)))
            (by simp [bytes_append, bytes, Instr.size]; omega)
        | err m => simp [hop] at he
        | panic m => simp [hop] at he
  | le a b iha ihb =>
    intro C K pos k stk g v g' B h hp he hB
    simp only [compile] at h ⊢
    simp only [eval] at he
    simp only [depth] at hB
    have hpb := depth_pos b
    cases heb : eval g b with
    | none => simp [heb] at he
    | some rb =>
      obtain ⟨vb, g1⟩ := rb
      simp only [heb] at he
      cases hea : eval g1 a with
      | none => simp [hea] at he
      | some ra =>
        obtain ⟨va, g2⟩ := ra
        simp only [hea] at he
        cases hop : execOperator .greaterEq vb va with
        | ok r' =>
          simp only [hop, Option.some.injEq, Prod.mk.injEq] at he
          obtain ⟨rfl, rfl⟩ := he
          simp only [consts] at hp
          generalize hcb : compile pos k b = cb at *
          generalize hca : compile (pos + bytes cb) (k + (consts b).length) a = ca at *
          have hb := ihb C K pos k stk g vb g1 B (hcb ▸ codeAt_mid [] cb (ca ++ [.op .greaterEq]) (by simpa using h))
            (poolAt_left hp) heb (by omega)
          have ha := iha C K (pos + bytes cb) (k + (consts b).length) (vb :: stk) g1 va g2 B
            (hca ▸ codeAt_mid cb ca [.op .greaterEq] (by simpa using h)) (poolAt_right hp) hea (by bnd)
          rw [hcb] at hb; rw [hca] at ha
          have ho : codeAt C (pos + bytes cb + bytes ca) [Instr.op .greaterEq] := by
            have := codeAt_mid (cb ++ ca) [.op .greaterEq] [] (by simpa using h)
            simpa [bytes_append, Nat.add_assoc] using this
          exact sb_to (sb_trans (sb_trans hb ha) (sb_one (step_op ho hop) (by bnd)))
            (by simp [bytes_append, bytes, Instr.size]; omega)
        | err m => simp [hop] at he
        | panic m => simp [hop] at he
  | and a b iha ihb =>
    intro C K pos k stk g v g' B h hp he hB
    simp only [compile] at h ⊢
    simp only [eval] at he
    simp only [depth] at hB
    have hpa := depth_pos a
    cases hea : eval g a with
    | none => simp [hea] at he
    | some ra =>
      obtain ⟨va, g1⟩ := ra
      simp only [hea] at he
      simp only [consts] at hp
      generalize hca : compile pos k a = ca at *
      generalize hcb : compile (pos + bytes ca + 3 + 1) (k + (consts a).length) b = cb at *
      have ha := iha C K pos k stk g va g1 B (hca ▸ codeAt_mid [] ca _ (by simpa using h)) (poolAt_left hp) hea (by omega)
      rw [hca] at ha
      have hj : codeAt C (pos + bytes ca) [Instr.jifnp (pos + bytes ca + 3 + 1 + bytes cb)] :=
        codeAt_mid ca [_] (.pop :: cb) (by simpa using h)
      have hpop : codeAt C (pos + bytes ca + 3) [Instr.pop] := by
        have := codeAt_mid (ca ++ [.jifnp (pos + bytes ca + 3 + 1 + bytes cb)]) [.pop] cb (by simpa using h)
        simpa [bytes_append, bytes, Instr.size, Nat.add_assoc] using this
      have hbb : codeAt C (pos + bytes ca + 3 + 1) cb := by
        have := codeAt_mid (ca ++ [.jifnp (pos + bytes ca + 3 + 1 + bytes cb), .pop]) cb [] (by simpa using h)
        simpa [bytes_append, bytes, Instr.size, Nat.add_assoc] using this
      refine sb_trans ha ?_
      by_cases hf : va.isFalsey = true
      · simp only [hf, if_true, Option.some.injEq, Prod.mk.injEq] at he
        obtain ⟨rfl, rfl⟩ := he
        refine sb_to (sb_one (step_jifnp hj) (by bnd)) ?_
        simp [hf, bytes_append, bytes, Instr.size]; omega
      · simp only [hf, Bool.false_eq_true, if_false] at he
        have hb := ihb C K (pos + bytes ca + 3 + 1) (k + (consts a).length) stk g1 v g' B (hcb ▸ hbb) (poolAt_right hp) he (by omega)
        rw [hcb] at hb
        refine sb_trans (sb_one (step_jifnp hj) (by bnd)) ?_
        simp only [hf, Bool.false_eq_true, if_false]
        exact sb_to (sb_trans (sb_one (step_pop hpop) (by bnd)) hb)
          (by simp [bytes_append, bytes, Instr.size]; omega)
  | or a b iha ihb =>
    intro C K pos k stk g v g' B h hp he hB
    simp only [compile] at h ⊢
    simp only [eval] at he
    simp only [depth] at hB
    have hpa := depth_pos a
    cases hea : eval g a with
    | none => simp [hea] at he
    | some ra =>
      obtain ⟨va, g1⟩ := ra
      simp only [hea] at he
      simp only [consts] at hp
      generalize hca : compile pos k a = ca at *
      generalize hcb : compile (pos + bytes ca + 3 + 3 + 1) (k + (consts a).length) b = cb at *
      have ha := iha C K pos k stk g va g1 B (hca ▸ codeAt_mid [] ca _ (by simpa using h)) (poolAt_left hp) hea (by omega)
      rw [hca] at ha
      have hj : codeAt C (pos + bytes ca) [Instr.jifnp (pos + bytes ca + 3 + 3)] :=
        codeAt_mid ca [_] (.jump (pos + bytes ca + 3 + 3 + 1 + bytes cb) :: .pop :: cb) (by simpa using h)
      have hjmp : codeAt C (pos + bytes ca + 3) [Instr.jump (pos + bytes ca + 3 + 3 + 1 + bytes cb)] := by
        have := codeAt_mid (ca ++ [.jifnp (pos + bytes ca + 3 + 3)]) [.jump (pos + bytes ca + 3 + 3 + 1 + bytes cb)] (.pop :: cb) (by simpa using h)
        simpa [bytes_append, bytes, Instr.size, Nat.add_assoc] using this
      have hpop : codeAt C (pos + bytes ca + 3 + 3) [Instr.pop] := by
        have := codeAt_mid (ca ++ [.jifnp (pos + bytes ca + 3 + 3), .jump (pos + bytes ca + 3 + 3 + 1 + bytes cb)]) [.pop] cb (by simpa using h)
        simpa [bytes_append, bytes, Instr.size, Nat.add_assoc] using this
      have hbb : codeAt C (pos + bytes ca + 3 + 3 + 1) cb := by
        have := codeAt_mid (ca ++ [.jifnp (pos + bytes ca + 3 + 3), .jump (pos + bytes ca + 3 + 3 + 1 + bytes cb), .pop]) cb [] (by simpa using h)
        simpa [bytes_append, bytes, Instr.size, Nat.add_assoc] using this
      refine sb_trans ha ?_
      by_cases hf : va.isFalsey = true
      · simp only [hf, if_true] at he
        have hb := ihb C K (pos + bytes ca + 3 + 3 + 1) (k + (consts a).length) stk g1 v g' B (hcb ▸ hbb) (poolAt_right hp) he (by omega)
        rw [hcb] at hb
        refine sb_trans (sb_one (step_jifnp hj) (by bnd)) ?_
        simp only [hf, if_true]
        exact sb_to (sb_trans (sb_one (step_pop hpop) (by bnd)) hb)
          (by simp [bytes_append, bytes, Instr.size]; omega)
      · simp only [hf, Bool.false_eq_true, if_false, Option.some.injEq, Prod.mk.injEq] at he
        obtain ⟨rfl, rfl⟩ := he
        refine sb_trans (sb_one (step_jifnp hj) (by bnd)) ?_
        simp only [hf, Bool.false_eq_true, if_false]
        exact sb_to (sb_one (step_jump hjmp) (by bnd))
          (by simp [bytes_append, bytes, Instr.size]; omega)
  | ite c t e ihc iht ihe =>
    intro C K pos k stk g v g' B h hp he hB
    simp only [compile] at h ⊢
    simp only [eval] at he
    simp only [depth] at hB
    have hpc := depth_pos c
    cases hec : eval g c with
    | none => simp [hec] at he
    | some rc =>
      obtain ⟨vc, g1⟩ := rc
      simp only [hec] at he
      simp only [consts] at hp
      generalize hcc : compile pos k c = cc at *
      generalize hct : compile (pos + bytes cc + 3) (k + (consts c).length) t = ct at *
      generalize hce : compile (pos + bytes cc + 3 + bytes ct + 3) (k + (consts c).length + (consts t).length) e = ce at *
      have hc := ihc C K pos k stk g vc g1 B (hcc ▸ codeAt_mid [] cc _ (by simpa using h)) (poolAt_left (poolAt_left hp)) hec (by omega)
      rw [hcc] at hc
      have hj : codeAt C (pos + bytes cc) [Instr.jif (pos + bytes cc + 3 + bytes ct + 3)] :=
        codeAt_mid cc [_] (ct ++ [.jump (pos + bytes cc + 3 + bytes ct + 3 + bytes ce)] ++ ce) (by simpa using h)
      have htt : codeAt C (pos + bytes cc + 3) ct := by
        have := codeAt_mid (cc ++ [.jif (pos + bytes cc + 3 + bytes ct + 3)]) ct
          ([.jump (pos + bytes cc + 3 + bytes ct + 3 + bytes ce)] ++ ce) (by simpa using h)
        simpa [bytes_append, bytes, Instr.size, Nat.add_assoc] using this
      have hm : codeAt C (pos + bytes cc + 3 + bytes ct) [Instr.jump (pos + bytes cc + 3 + bytes ct + 3 + bytes ce)] := by
        have := codeAt_mid (cc ++ [.jif (pos + bytes cc + 3 + bytes ct + 3)] ++ ct) [_] ce (by simpa using h)
        simpa [bytes_append, bytes, Instr.size, Nat.add_assoc] using this
      have hee : codeAt C (pos + bytes cc + 3 + bytes ct + 3) ce := by
        have := codeAt_mid (cc ++ [.jif (pos + bytes cc + 3 + bytes ct + 3)] ++ ct ++
          [.jump (pos + bytes cc + 3 + bytes ct + 3 + bytes ce)]) ce [] (by simpa using h)
        simpa [bytes_append, bytes, Instr.size, Nat.add_assoc] using this
      have hpt : poolAt K (k + (consts c).length) (consts t) := poolAt_right (poolAt_left hp)
      have hpe : poolAt K (k + (consts c).length + (consts t).length) (consts e) := by
        have := poolAt_right hp
        simpa [Nat.add_assoc] using this
      refine sb_trans hc (sb_trans (sb_one (step_jif hj) (by bnd)) ?_)
      by_cases hf : vc.isFalsey = true
      · simp only [hf, if_true] at he ⊢
        have hb := ihe C K (pos + bytes cc + 3 + bytes ct + 3) _ stk g1 v g' B (hce ▸ hee) hpe he (by omega)
        rw [hce] at hb
        exact sb_to hb (by simp [bytes_append, bytes, Instr.size]; omega)
      · simp only [hf, Bool.false_eq_true, if_false] at he ⊢
        have ha := iht C K (pos + bytes cc + 3) _ stk g1 v g' B (hct ▸ htt) hpt he (by omega)
        rw [hct] at ha
        exact sb_to (sb_trans ha (sb_one (step_jump hm) (by bnd)))
          (by simp [bytes_append, bytes, Instr.size]; omega)
  | gset i a iha =>
    intro C K pos k stk g v g' B h hp he hB
    simp only [compile] at h ⊢
    simp only [eval] at he
    simp only [depth] at hB
    have hpa := depth_pos a
    cases hea : eval g a with
    | none => simp [hea] at he
    | some r =>
      obtain ⟨va, g1⟩ := r
      simp only [hea] at he
      by_cases hi : i < g1.length
      · simp only [hi, if_true, Option.some.injEq, Prod.mk.injEq] at he
        obtain ⟨rfl, rfl⟩ := he
        generalize hca : compile pos k a = ca at *
        have ha := iha C K pos k stk g va g1 B (hca ▸ codeAt_mid [] ca [.setGlobal i] (by simpa using h))
          (by simpa [consts] using hp) hea hB
        rw [hca] at ha
        have hs : codeAt C (pos + bytes ca) [Instr.setGlobal i] := codeAt_mid ca [_] [] (by simpa using h)
        exact sb_to (sb_trans ha (sb_one (step_setGlobal hs hi) (by bnd)))
          (by simp [bytes_append, bytes, Instr.size]; omega)
      · simp [hi] at he
  | matchE s arms ihs iharms =>
    intro C K pos k stk g v g' B h hp he hB
    simp only [compile] at h ⊢
    simp only [eval] at he
    simp only [consts] at hp
    simp only [depth] at hB
    cases hes : eval g s with
    | none => simp [hes] at he
    | some r =>
      obtain ⟨vs, g1⟩ := r
      simp only [hes] at he
      have s1 := ihs C K pos k stk g vs g1 B (codeAt_left h) (poolAt_left hp) hes (by omega)
      have s2 := arms_correctB arms iharms C K _ _ stk g1 vs v g' B (codeAt_right h) (poolAt_right hp) he (by omega)
      exact sb_to (sb_trans s1 s2) (by simp [bytes_append]; omega)

/-- the form asked for: the bound is exactly `stk.length + depth e` -/
theorem compile_correct_depth (e : CExpr) (C : List Instr) (K : List Val) (pos k : Nat) (stk g : List Val) (v : Val)
    (g' : List Val) (hc : codeAt C pos (compile pos k e)) (hp : poolAt K k (consts e)) (he : eval g e = some (v, g')) :
    StepsB C K (stk.length + depth e) ⟨pos, stk, g⟩ ⟨pos + bytes (compile pos k e), v :: stk, g'⟩ :=
  compile_correct_bounded e C K pos k stk g v g' _ hc hp he (Nat.le_refl _)


/-! ## the chain: oracle ⇒ `Core.eval` ⇒ core machine (bounded) ⇒ VM model on the encoded bytes -/

/-- the oracle's scalars (`RefCore.isScalar`: null, bool, int, float, char, byte, string) are
scalars of the refinement (`CoreVm.scalar`: not a heap reference) -/
theorem scalar_of_isScalar {v : Val} (h : isScalar v = true) : scalar v = true := by
  cases v <;> first | rfl | (simp [isScalar] at h)

theorem codeAt_self (C : List Instr) : codeAt C 0 C := ⟨[], [], by simp, rfl⟩
theorem poolAt_self (K : List Val) : poolAt K 0 K := ⟨[], [], by simp, rfl⟩

/-- what `Rel` says when the core stack is `[v]`: the VM's stack pointer is 1 and slot 0 holds `v` -/
theorem rel_top {C K pc v g} {vs : Vm.St} (R : Rel C K ⟨pc, [v], g⟩ vs) : vs.sp = 1 ∧ vs.stack.getD 0 .null = v := by
  obtain ⟨h0, hv, hrest⟩ := R.stack.pop
  have hl := hrest.length
  simp only [List.length_nil] at hl
  have hsp : vs.sp = 1 := by omega
  rw [hsp] at hv
  exact ⟨hsp, hv⟩

/-- what `Rel` says of the globals: the VM's slot `i` is the `i`-th global, null beyond them -/
theorem rel_globals {C K cs} {vs : Vm.St} (R : Rel C K cs vs) (i : Nat) : vs.globals.getD i .null = cs.g.getD i .null :=
  R.globals.2.2 i

/-- **the chain, general form.**  The code of `e` is placed anywhere (`codeAt`, `poolAt`) in code `C`
all of whose operands fit (`hfit`: what `compileChecked` checks); `vs` is any VM state that stands
for the core state `⟨pos, stk, g⟩` (`R`; in particular `vs` runs the bytes `Core.encode C`); the
oracle's state is related to `g` (`hr`); the stack has room for `depth e` more values (`hd`).  If
the oracle evaluates the AST of `e` to the value `v`, then the VM model performs iterations of its
fetch–execute loop (`VmSteps`: each one `tick = ok true`) that lead to a state standing for
`⟨end of the block, v :: stk, the oracle's cells⟩`, and the oracle's new state is related to these
globals again (so that the theorem can be applied to the next expression). -/
theorem oracle_value_vm_steps {nm : Nat → String} {ln : Nat} {e : CExpr} {fuel : Nat} {env env' : Ref.Env}
    {st st' : Ref.St} {g : List Val} {v : Val}
    (hr : EnvRel nm env st g) (hf : globalsBelow g.length e = true)
    (h : RefCore.run (Ref.evalE fuel env (toAst nm ln e)) st = (.ok (.val v env'), st'))
    {C : List Instr} {K : List Val} {pos k : Nat} {stk : List Val} {vs : Vm.St}
    (hc : codeAt C pos (compile pos k e)) (hp : poolAt K k (consts e))
    (hfit : C.all fitsI = true) (R : Rel C K ⟨pos, stk, g⟩ vs)
    (hd : stk.length + depth e ≤ Vm.stackSize) :
    ∃ vs', VmSteps vs vs' ∧ Rel C K ⟨pos + bytes (compile pos k e), v :: stk, st'.cells⟩ vs' ∧
      EnvRel nm env' st' st'.cells ∧ CoreVm.mainFn vs' = CoreVm.mainFn vs := by
  obtain ⟨g', he, -, -, hr'⟩ := RefCore.ref_value_core hr hf h
  have hcells : st'.cells = g' := hr'.cells
  have steps := compile_correct_bounded e C K pos k stk g v g' Vm.stackSize hc hp he hd
  obtain ⟨vs', hv, R', hm⟩ := CoreVm.steps_refine_bounded R hfit steps
  rw [hcells]
  exact ⟨vs', hv, R', hr', hm⟩

/-- **the chain: the oracle's value is the value the VM model computes from the real bytecode.**

* `e`: any core expression (all fourteen constructors); `toAst nm ln e`: its AST (`RefCore.ofExpr_toAst`:
  what the recogniser of the fragment reads back from parsed source);
* `hr`: the oracle's environment binds the names `nm 0 … nm (n-1)` to the cells `0 … n-1`, which hold
  `null` — how `Vm.run` (and `Driver/CoreDrv.lean`: `g0 = replicate nglobals null`) starts;
* `hf`: `e` refers to these `n` globals only;  `hn`: they fit the VM's globals array;
* `main`: the function `Vm.run` runs: its code is `Core.encode (Core.compile 0 0 e)` — the bytes the
  `core` correspondence op compares with the real compiler's — with a `lines` table that covers it;
* the constant pool is `Core.consts e`; `hK`: no constant is an array/map reference;
* `hfit`: every operand fits its width (`Core.compileChecked` returns code);
* `hd`: `depth e ≤ STACK_SIZE` (otherwise the VM may report "Stack overflow!").

If the oracle yields the value `v` (for some fuel), then `Vm.run` (for some fuel) ends **normally** in
a state `vs'` that stands for the core state `⟨end of code, [v], st'.cells⟩`: exactly `v` on the
operand stack (`sp = 1`, `stack[0] = v`) and the oracle's cells in the globals array. -/
theorem oracle_value_vm {nm : Nat → String} {ln : Nat} {e : CExpr} {fuel : Nat} {env env' : Ref.Env}
    {st st' : Ref.St} {n : Nat} {v : Val}
    (hr : EnvRel nm env st (List.replicate n .null)) (hf : globalsBelow n e = true)
    (h : RefCore.run (Ref.evalE fuel env (toAst nm ln e)) st = (.ok (.val v env'), st'))
    (main : FnDef) (hcode : main.code = encode (compile 0 0 e)) (hlines : main.code.length ≤ main.lines.length)
    (hK : ∀ c ∈ consts e, scalar c = true) (hn : n ≤ P2sh.Gen.Limits.GLOBALS_SIZE)
    (hfit : (compile 0 0 e).all fitsI = true) (hd : depth e ≤ Vm.stackSize) :
    ∃ fuelV vs', Vm.run main (consts e) fuelV = (.ok (), vs') ∧
      Rel (compile 0 0 e) (consts e) ⟨bytes (compile 0 0 e), [v], st'.cells⟩ vs' ∧
      vs'.sp = 1 ∧ vs'.stack.getD 0 .null = v ∧ (∀ i, vs'.globals.getD i .null = st'.cells.getD i .null) ∧
      EnvRel nm env' st' st'.cells := by
  obtain ⟨g', he, -, -, hr'⟩ := RefCore.ref_value_core hr (by simpa using hf) h
  have hcells : st'.cells = g' := hr'.cells
  have steps := compile_correct_bounded e (compile 0 0 e) (consts e) 0 0 [] _ v g' Vm.stackSize
    (codeAt_self _) (poolAt_self _) he (by simpa using hd)
  obtain ⟨fuelV, vs', hrun, R'⟩ := CoreVm.run_refines_bounded main n hcode hlines hK hn hfit steps (by simp)
  rw [Nat.zero_add] at R'
  rw [hcells]
  exact ⟨fuelV, vs', hrun, R', (rel_top R').1, (rel_top R').2, rel_globals R', hr'⟩

/-! ## the whole program `e;` as the compiler lays it out -/

theorem vm_trans {a b c : Vm.St} (h1 : VmSteps a b) (h2 : VmSteps b c) : VmSteps a c := by
  induction h1 with
  | refl => exact h2
  | cons ht _ ih => exact .cons ht (ih h2)

section Stmt
open P2sh.Vm P2sh.Props.BcvWp P2sh.CoreVm
open P2sh.Props.Bcv (tick finish)

/-- one iteration on `Pop`, with what `step_refines` does not say: the popped value is the VM's
`last_popped` (the stale slot `stack[sp]`) -/
theorem tick_pop_last {C : List Instr} {K : List Val} {pc : Nat} {v : Val} {rest g : List Val} {vs : Vm.St}
    (R : Rel C K ⟨pc, v :: rest, g⟩ vs) (hfetch : Core.fetch C pc = some .pop) :
    ∃ vs', exec tick vs = (.ok true, vs') ∧ Rel C K ⟨pc + 1, rest, g⟩ vs' ∧ Vm.lastPopped vs' = v ∧
      mainFn vs' = mainFn vs := by
  obtain ⟨f, line, pre, post, hf, hcode, hip, hpc, hline, hlt⟩ := setup R hfetch
  have key : wpe tick (fun b s' => b = true ∧ ((Rel C K ⟨pc + 1, rest, g⟩ s' ∧ mainFn s' = mainFn vs) ∧
      Vm.lastPopped s' = v)) noErr vs := by
    refine tick_wpe hf hlt hline ?_
    simp only at hpc
    subst hpc
    have hnm := opname (b := 1) (name := "Pop") hcode hip rfl rfl
    unfold Vm.step; simp only [hnm]
    obtain ⟨n1, e1, s1⟩ := R.stack.pop
    simp only [wpe_bind, wpe_pop, wpe_pure, finish, wpe_curFrame, wpe_setIp, withIp, hf, n1, ↓reduceIte]
    exact ⟨R.next2 hf (by rw [hip]) rfl s1 rfl R.globals (fun x hx => R.scalarS x (by simp [hx])) R.scalarG, e1⟩
  obtain ⟨b, vs', he, rfl, ⟨hR, hm⟩, hl⟩ := wpe_elim _ _ key
  exact ⟨vs', he, hR, hl, hm⟩

end Stmt

/-- **the chain for the program `e;`** — the layout `Driver/CoreDrv.lean` runs and compares byte for
byte with the real compiler: code `compileP 0 0 [] [.expr e]` (the expression followed by `Pop`),
pool `constsP [.expr e]`, `n` global slots holding null.  If the oracle evaluates `e` to `v`, `Vm.run`
ends normally with an empty stack (`sp = 0`), `last_popped = v` (what the REPL prints / the driver
reports as `last=`) and the oracle's cells as globals. -/
theorem oracle_exprstmt_vm {nm : Nat → String} {ln : Nat} {e : CExpr} {fuel : Nat} {env env' : Ref.Env}
    {st st' : Ref.St} {n : Nat} {v : Val}
    (hr : EnvRel nm env st (List.replicate n .null)) (hf : globalsBelow n e = true)
    (h : RefCore.run (Ref.evalE fuel env (toAst nm ln e)) st = (.ok (.val v env'), st'))
    (main : FnDef) (hcode : main.code = encode (compileP 0 0 [] [.expr e]))
    (hlines : main.code.length ≤ main.lines.length)
    (hK : ∀ c ∈ constsP [.expr e], scalar c = true) (hn : n ≤ P2sh.Gen.Limits.GLOBALS_SIZE)
    (hfit : (compileP 0 0 [] [.expr e]).all fitsI = true) (hd : depth e ≤ Vm.stackSize) :
    ∃ fuelV vs', Vm.run main (constsP [.expr e]) fuelV = (.ok (), vs') ∧
      Rel (compileP 0 0 [] [.expr e]) (constsP [.expr e]) ⟨bytes (compileP 0 0 [] [.expr e]), [], st'.cells⟩ vs' ∧
      vs'.sp = 0 ∧ Vm.lastPopped vs' = v ∧ (∀ i, vs'.globals.getD i .null = st'.cells.getD i .null) := by
  have hC : compileP 0 0 [] [.expr e] = compile 0 0 e ++ [.pop] := by simp [compileP, compileS]
  have hKe : constsP [.expr e] = consts e := by simp [constsP, constsS]
  simp only [hC, hKe] at hcode hK hfit ⊢
  have hce : codeAt (compile 0 0 e ++ [.pop]) 0 (compile 0 0 e) := ⟨[], [.pop], by simp, rfl⟩
  have R0 := CoreVm.rel_init (C := compile 0 0 e ++ [.pop]) (K := consts e) main n hcode hlines hK hn
  obtain ⟨vs1, hv1, R1, _, hm1⟩ := oracle_value_vm_steps (stk := []) hr (by simpa using hf) h hce
    (poolAt_self _) hfit R0 (by simpa using hd)
  rw [Nat.zero_add] at R1
  have hfetch : Core.fetch (compile 0 0 e ++ [.pop]) (bytes (compile 0 0 e)) = some .pop := by
    have := fetch_at (compile 0 0 e) .pop []
    simpa using this
  obtain ⟨vs2, ht, R2, hlast, _⟩ := tick_pop_last R1 hfetch
  have hend : bytes (compile 0 0 e) + 1 = bytes (compile 0 0 e ++ [.pop]) := by simp [bytes_append, bytes, Instr.size]
  rw [hend] at R2
  have hv2 : VmSteps (Vm.initState main (consts e)) vs2 := vm_trans hv1 (.cons ht (.refl _))
  obtain ⟨m, hm⟩ := hv2.fuel 1
  refine ⟨m + 1, vs2, ?_, R2, ?_, hlast, rel_globals R2⟩
  · show P2sh.Props.BcvWp.exec (Vm.runLoop (m + 1)) (Vm.initState main (consts e)) = _
    rw [hm, P2sh.Props.Bcv.exec_runLoop_succ, CoreVm.tick_halt R2 rfl]
  · have := R2.stack.length
    simpa using this.symm


/-! ## the error direction

`RefCore.ref_error_core`: a runtime error of the oracle is `Core.eval = none`.  `Core/Correct.lean`
has no error direction; `Props/C13.lean` (`fail_line`) has one for line-annotated expressions, with
an unbounded run and without saying *which* instruction is stuck.  Here it is proved again in the
form the refinement needs: `eval_none_fails` — if `Core.eval g e = none`, the machine reaches, by
a run within the stack bound, a state at an operator / unary instruction that fails on the operands
on the stack (`Fails`).  (`SetGlobal` beyond the globals, the other way `Core.eval` can be `none`
and a place where the core machine is stricter than the VM, is excluded by `globalsBelow`.) -/

/-- the machine is at an operator instruction that fails on the operands on the stack -/
inductive Fails (C : List Instr) (s : Core.St) : Prop
  | op (o : Operator) (r l : Val) (rest : List Val) (hf : fetch C s.pc = some (.op o)) (hs : s.stk = r :: l :: rest)
      (hx : ∀ v, execOperator o l r ≠ .ok v)
  | minus (v : Val) (rest : List Val) (hf : fetch C s.pc = some .minus) (hs : s.stk = v :: rest)
      (hx : ∀ r, unaryMinus v ≠ .ok r)
  | bnot (v : Val) (rest : List Val) (hf : fetch C s.pc = some .bnot) (hs : s.stk = v :: rest)
      (hx : ∀ r, unaryNot v ≠ .ok r)

/-- a failing state is a stuck state of the core machine -/
theorem Fails.stuck {C K s} (h : Fails C s) : step C K s = none := by
  obtain ⟨pc, stk, g⟩ := s
  cases h with
  | op o r l rest hf hs hx =>
    simp only at hf hs; subst hs
    simp only [step, hf]
  | minus v rest hf hs hx =>
    simp only at hf hs; subst hs
    simp only [step, hf]
  | bnot v rest hf hs hx =>
    simp only at hf hs; subst hs
    simp only [step, hf]

/-! ### evaluation keeps the number of globals -/

def LenSpec (e : CExpr) : Prop := ∀ g v g', eval g e = some (v, g') → g'.length = g.length

theorem evalArms_length : ∀ (arms : CArms), arms.All LenSpec →
    ∀ g v r g', evalArms g v arms = some (r, g') → g'.length = g.length := by
  intro arms
  induction arms using CArms.ind with
  | last d =>
    intro hall g v r g' h
    simp only [CArms.All] at hall
    simp only [evalArms] at h
    exact hall _ _ _ h
  | cons pats body rest ih =>
    intro hall g v r g' h
    simp only [CArms.All] at hall
    simp only [evalArms] at h
    cases hm : patsTest v pats with
    | none => simp [hm] at h
    | some b =>
      cases b with
      | true => simp only [hm] at h; exact hall.1 _ _ _ h
      | false => simp only [hm] at h; exact ih hall.2 _ _ _ _ h

theorem eval_length (e : CExpr) : LenSpec e := by
  induction e with
  | lit x => intro g v g' h; simp only [eval, Option.some.injEq, Prod.mk.injEq] at h; obtain ⟨-, rfl⟩ := h; rfl
  | tru => intro g v g' h; simp only [eval, Option.some.injEq, Prod.mk.injEq] at h; obtain ⟨-, rfl⟩ := h; rfl
  | fls => intro g v g' h; simp only [eval, Option.some.injEq, Prod.mk.injEq] at h; obtain ⟨-, rfl⟩ := h; rfl
  | null => intro g v g' h; simp only [eval, Option.some.injEq, Prod.mk.injEq] at h; obtain ⟨-, rfl⟩ := h; rfl
  | gget i => intro g v g' h; simp only [eval, Option.some.injEq, Prod.mk.injEq] at h; obtain ⟨-, rfl⟩ := h; rfl
  | un op a iha =>
    intro g v g' h
    simp only [eval] at h
    cases hea : eval g a with
    | none => simp [hea] at h
    | some r =>
      obtain ⟨va, g1⟩ := r
      simp only [hea] at h
      cases hop : applyUn op va with
      | ok r' =>
        simp only [hop, Option.some.injEq, Prod.mk.injEq] at h
        obtain ⟨-, rfl⟩ := h
        exact iha _ _ _ hea
      | err m => simp [hop] at h
      | panic m => simp [hop] at h
  | bin op a b iha ihb =>
    intro g v g' h
    simp only [eval] at h
    cases hea : eval g a with
    | none => simp [hea] at h
    | some ra =>
      obtain ⟨va, g1⟩ := ra
      simp only [hea] at h
      cases heb : eval g1 b with
      | none => simp [heb] at h
      | some rb =>
        obtain ⟨vb, g2⟩ := rb
        simp only [heb] at h
        cases hop : execOperator op va vb with
        | ok r' =>
          simp only [hop, Option.some.injEq, Prod.mk.injEq] at h
          obtain ⟨-, rfl⟩ := h
          exact (ihb _ _ _ heb).trans (iha _ _ _ hea)
        | err m => simp [hop] at h
        | panic m => simp [hop] at h
  | lt a b iha ihb =>
    intro g v g' h
    simp only [eval] at h
    cases heb : eval g b with
    | none => simp [heb] at h
    | some rb =>
      obtain ⟨vb, g1⟩ := rb
      simp only [heb] at h
      cases hea : eval g1 a with
      | none => simp [hea] at h
      | some ra =>
        obtain ⟨va, g2⟩ := ra
        simp only [hea] at h
        cases hop : execOperator .greater vb va with
        | ok r' =>
          simp only [hop, Option.some.injEq, Prod.mk.injEq] at h
          obtain ⟨-, rfl⟩ := h
          exact (iha _ _ _ hea).trans (ihb _ _ _ heb)
        | err m => simp [hop] at h
        | panic m => simp [hop] at h
  | le a b iha ihb =>
    intro g v g' h
    simp only [eval] at h
    cases heb : eval g b with
    | none => simp [heb] at h
    | some rb =>
      obtain ⟨vb, g1⟩ := rb
      simp only [heb] at h
      cases hea : eval g1 a with
      | none => simp [hea] at h
      | some ra =>
        obtain ⟨va, g2⟩ := ra
        simp only [hea] at h
        cases hop : execOperator .greaterEq vb va with
        | ok r' =>
          simp only [hop, Option.some.injEq, Prod.mk.injEq] at h
          obtain ⟨-, rfl⟩ := h
          exact (iha _ _ _ hea).trans (ihb _ _ _ heb)
        | err m => simp [hop] at h
        | panic m => simp [hop] at h
  | and a b iha ihb =>
    intro g v g' h
    simp only [eval] at h
    cases hea : eval g a with
    | none => simp [hea] at h
    | some ra =>
      obtain ⟨va, g1⟩ := ra
      simp only [hea] at h
      by_cases hf : va.isFalsey = true
      · simp only [hf, if_true, Option.some.injEq, Prod.mk.injEq] at h
        obtain ⟨-, rfl⟩ := h
        exact iha _ _ _ hea
      · simp only [hf, Bool.false_eq_true, if_false] at h
        exact (ihb _ _ _ h).trans (iha _ _ _ hea)
  | or a b iha ihb =>
    intro g v g' h
    simp only [eval] at h
    cases hea : eval g a with
    | none => simp [hea] at h
    | some ra =>
      obtain ⟨va, g1⟩ := ra
      simp only [hea] at h
      by_cases hf : va.isFalsey = true
      · simp only [hf, if_true] at h
        exact (ihb _ _ _ h).trans (iha _ _ _ hea)
      · simp only [hf, Bool.false_eq_true, if_false, Option.some.injEq, Prod.mk.injEq] at h
        obtain ⟨-, rfl⟩ := h
        exact iha _ _ _ hea
  | ite c t e ihc iht ihe =>
    intro g v g' h
    simp only [eval] at h
    cases hec : eval g c with
    | none => simp [hec] at h
    | some rc =>
      obtain ⟨vc, g1⟩ := rc
      simp only [hec] at h
      by_cases hf : vc.isFalsey = true
      · simp only [hf, if_true] at h
        exact (ihe _ _ _ h).trans (ihc _ _ _ hec)
      · simp only [hf, Bool.false_eq_true, if_false] at h
        exact (iht _ _ _ h).trans (ihc _ _ _ hec)
  | gset i a iha =>
    intro g v g' h
    simp only [eval] at h
    cases hea : eval g a with
    | none => simp [hea] at h
    | some r =>
      obtain ⟨va, g1⟩ := r
      simp only [hea] at h
      by_cases hi : i < g1.length
      · simp only [hi, if_true, Option.some.injEq, Prod.mk.injEq] at h
        obtain ⟨-, rfl⟩ := h
        simpa using iha _ _ _ hea
      · simp [hi] at h
  | matchE s arms ihs iharms =>
    intro g v g' h
    simp only [eval] at h
    cases hes : eval g s with
    | none => simp [hes] at h
    | some r =>
      obtain ⟨vs, g1⟩ := r
      simp only [hes] at h
      exact (evalArms_length arms iharms _ _ _ _ h).trans (ihs _ _ _ hes)

/-! ### `eval = none` ⇒ a bounded run into a failing operator -/

/-- the statement of `eval_none_fails` for one expression -/
def FailSpecB (e : CExpr) : Prop :=
  ∀ (C : List Instr) (K : List Val) (pos k : Nat) (stk g : List Val) (B : Nat),
    codeAt C pos (compile pos k e) → poolAt K k (consts e) → eval g e = none →
    globalsBelow g.length e = true → stk.length + depth e ≤ B →
    ∃ s, StepsB C K B ⟨pos, stk, g⟩ s ∧ Fails C s

/-- `Dup; <push c>; <op>` with the scrutinee `v` on top, the comparison failing -/
theorem cmp_failB {C K pos v c stk g o t sz B} (push : Instr) (hsz : push.size = sz)
    (hpush : ∀ stk', step C K ⟨pos + 1, stk', g⟩ = some ⟨pos + 1 + sz, c :: stk', g⟩)
    (h : codeAt C pos [.dup, push, .op o, .jif t]) (hx : ∀ r, execOperator o v c ≠ .ok r)
    (hB : stk.length + 3 ≤ B) :
    ∃ s, StepsB C K B ⟨pos, v :: stk, g⟩ s ∧ Fails C s := by
  obtain ⟨h1, h⟩ := codeAt_cons h
  obtain ⟨_, h⟩ := codeAt_cons h
  rw [hsz] at h
  obtain ⟨h3, _⟩ := codeAt_cons h
  have h3 : codeAt C (pos + 1 + sz) [Instr.op o] := h3
  exact ⟨⟨pos + 1 + sz, c :: v :: v :: stk, g⟩,
    sb_trans (sb_one (step_dup h1) (by bnd)) (sb_one (hpush _) (by bnd)),
    .op o c v (v :: stk) (fetch_codeAt h3) rfl hx⟩

theorem fail_patB (p : CPat) (C : List Instr) (K : List Val) (pos k t : Nat) (v : Val) (stk g : List Val) (B : Nat)
    (h : codeAt C pos (compilePat pos k t p)) (hp : poolAt K k (patConsts p)) (ht : patTest v p = none)
    (hB : stk.length + patDepth p ≤ B) :
    ∃ s, StepsB C K B ⟨pos, v :: stk, g⟩ s ∧ Fails C s := by
  cases p with
  | lit c => simp [RefCore.patTest_lit] at ht
  | bool c => simp [RefCore.patTest_bool] at ht
  | dflt => simp [patTest] at ht
  | range incl lo hi =>
    simp only [patTest] at ht
    simp only [compilePat] at h
    simp only [patDepth] at hB
    have hA : codeAt C pos [.dup, .const k, .op .greaterEq, .jif (pos + 16)] :=
      codeAt_left (b := [.dup, .const (k + 1), .op (if incl then .greater else .greaterEq), .jif t]) (by simpa using h)
    have hB' : codeAt C (pos + 8) [.dup, .const (k + 1), .op (if incl then .greater else .greaterEq), .jif t] := by
      have := codeAt_right (a := [.dup, .const k, .op .greaterEq, .jif (pos + 16)]) (by simpa using h)
      simpa [bytes, Instr.size] using this
    have hp1 : poolAt K k [lo] := poolAt_left (b := [hi]) (by simpa [patConsts] using hp)
    have hp2 : poolAt K (k + 1) [hi] := by
      have := poolAt_right (a := [lo]) (b := [hi]) (by simpa [patConsts] using hp)
      simpa using this
    have hc1 : codeAt C (pos + 1) [Instr.const k] := (codeAt_cons (codeAt_cons hA).2).1
    have hc2 : codeAt C (pos + 8 + 1) [Instr.const (k + 1)] := (codeAt_cons (codeAt_cons hB').2).1
    cases hop1 : execOperator .greaterEq v lo with
    | ok r1 =>
      simp only [hop1] at ht
      have s1 := cmp_stepsB (sz := 3) (g := g) (stk := stk) (.const k) rfl
        (fun stk' => step_const hc1 (poolAt_get hp1)) hA hop1 hB
      by_cases hf : r1.isFalsey = true
      · simp [hf] at ht
      · simp only [hf, Bool.false_eq_true, if_false] at ht s1
        have hx : ∀ r, execOperator (if incl then .greater else .greaterEq) v hi ≠ .ok r := by
          intro r hr; simp [hr] at ht
        obtain ⟨s, hs, hF⟩ := cmp_failB (sz := 3) (g := g) (stk := stk) (.const (k + 1)) rfl
          (fun stk' => step_const hc2 (poolAt_get hp2)) hB' hx hB
        exact ⟨s, sb_trans (sb_to s1 (by simp)) hs, hF⟩
    | err m =>
      exact cmp_failB (sz := 3) (g := g) (stk := stk) (.const k) rfl
        (fun stk' => step_const hc1 (poolAt_get hp1)) hA (by intro r hr; simp [hop1] at hr) hB
    | panic m =>
      exact cmp_failB (sz := 3) (g := g) (stk := stk) (.const k) rfl
        (fun stk' => step_const hc1 (poolAt_get hp1)) hA (by intro r hr; simp [hop1] at hr) hB

theorem fail_patsB : ∀ (ps : List CPat) (C : List Instr) (K : List Val) (pos k t : Nat) (v : Val) (stk g : List Val)
    (B : Nat), codeAt C pos (compilePats pos k t ps) → poolAt K k (patsConsts ps) → patsTest v ps = none →
    stk.length + patsDepth ps ≤ B → ∃ s, StepsB C K B ⟨pos, v :: stk, g⟩ s ∧ Fails C s
  | [], C, K, pos, k, t, v, stk, g, B, _, _, ht, _ => by simp [patsTest] at ht
  | p :: ps, C, K, pos, k, t, v, stk, g, B, h, hp, ht, hB => by
    simp only [compilePats] at h
    simp only [patsConsts] at hp
    simp only [patsTest] at ht
    simp only [patsDepth] at hB
    cases h1 : patTest v p with
    | none => exact fail_patB p C K pos k t v stk g B (codeAt_left h) (poolAt_left hp) h1 (by omega)
    | some b1 =>
      cases b1 with
      | true => simp [h1] at ht
      | false =>
        simp only [h1] at ht
        have s1 := pat_correctB p C K pos k t v stk g false B (codeAt_left h) (poolAt_left hp) h1 (by omega)
        have hr := codeAt_right h
        rw [bytes_compilePat] at hr
        obtain ⟨s, hs, hF⟩ := fail_patsB ps C K (pos + patBytes p) (k + (patConsts p).length) t v stk g B hr
          (poolAt_right hp) ht (by omega)
        exact ⟨s, sb_trans (sb_to s1 (by simp)) hs, hF⟩

theorem fail_armsB : ∀ (arms : CArms), arms.All FailSpecB →
    ∀ (C : List Instr) (K : List Val) (pos k : Nat) (stk g : List Val) (v : Val) (B : Nat),
    codeAt C pos (compileArms pos k arms) → poolAt K k (constsArms arms) → evalArms g v arms = none →
    globalsBelowArms g.length arms = true → stk.length + depthArms arms ≤ B →
    ∃ s, StepsB C K B ⟨pos, v :: stk, g⟩ s ∧ Fails C s := by
  intro arms
  induction arms using CArms.ind with
  | last d =>
    intro hall C K pos k stk g v B h hp he hg hB
    simp only [CArms.All] at hall
    simp only [compileArms] at h
    simp only [constsArms] at hp
    simp only [evalArms] at he
    simp only [globalsBelowArms] at hg
    simp only [depthArms] at hB
    generalize hcd : compile (pos + 3 + 3 + 1) k d = cd at *
    obtain ⟨h1, h⟩ := codeAt_cons (by simpa using h)
    obtain ⟨_, h⟩ := codeAt_cons h
    obtain ⟨h3, h⟩ := codeAt_cons h
    simp only [Instr.size] at h3 h
    obtain ⟨s, hs, hF⟩ := hall C K (pos + 3 + 3 + 1) k stk g B (hcd ▸ h) hp he hg (by omega)
    exact ⟨s, sb_trans (sb_one (step_jump h1) (by bnd)) (sb_trans (sb_one (step_pop h3) (by bnd)) hs), hF⟩
  | cons pats body rest ih =>
    intro hall C K pos k stk g v B h hp he hg hB
    simp only [CArms.All] at hall
    simp only [compileArms] at h
    simp only [constsArms] at hp
    simp only [evalArms] at he
    simp only [globalsBelowArms, Bool.and_eq_true] at hg
    simp only [depthArms] at hB
    have hpd := patsDepth_pos pats
    generalize hcb : compile (pos + patsBytes pats + 3 + 1) (k + (patsConsts pats).length) body = cb at *
    generalize hcr : compileArms (pos + patsBytes pats + 3 + 1 + bytes cb + 3)
      (k + (patsConsts pats).length + (consts body).length) rest = cr at *
    have hpats : codeAt C pos (compilePats pos k (pos + patsBytes pats + 3) pats) :=
      codeAt_left (codeAt_left (codeAt_left (codeAt_left h)))
    have hjo : codeAt C (pos + patsBytes pats) [Instr.jump (pos + patsBytes pats + 3 + 1 + bytes cb + 3)] := by
      have := codeAt_mid (compilePats pos k (pos + patsBytes pats + 3) pats) [_]
        (.pop :: (cb ++ [.jump (pos + patsBytes pats + 3 + 1 + bytes cb + 3 + bytes cr)] ++ cr)) (by simpa using h)
      simpa [bytes_compilePats] using this
    have hpop : codeAt C (pos + patsBytes pats + 3) [Instr.pop] := by
      have := codeAt_mid (compilePats pos k (pos + patsBytes pats + 3) pats ++ [.jump (pos + patsBytes pats + 3 + 1 + bytes cb + 3)]) [.pop]
        (cb ++ [.jump (pos + patsBytes pats + 3 + 1 + bytes cb + 3 + bytes cr)] ++ cr) (by simpa using h)
      simpa [bytes_append, bytes_compilePats, bytes, Instr.size, Nat.add_assoc] using this
    have hbody : codeAt C (pos + patsBytes pats + 3 + 1) cb := by
      have := codeAt_right (codeAt_left (codeAt_left h))
      simpa [bytes_append, bytes_compilePats, bytes, Instr.size, Nat.add_assoc] using this
    have hrest : codeAt C (pos + patsBytes pats + 3 + 1 + bytes cb + 3) cr := by
      exact (codeAt_right h).to (by simp [bytes_append, bytes_compilePats, bytes, Instr.size]; omega)
    have hpp : poolAt K k (patsConsts pats) := poolAt_left (poolAt_left hp)
    have hpb : poolAt K (k + (patsConsts pats).length) (consts body) := poolAt_right (poolAt_left hp)
    have hpr : poolAt K (k + (patsConsts pats).length + (consts body).length) (constsArms rest) := by
      have := poolAt_right hp
      simpa [Nat.add_assoc] using this
    cases hm : patsTest v pats with
    | none => exact fail_patsB pats C K pos k (pos + patsBytes pats + 3) v stk g B hpats hpp hm (by omega)
    | some b =>
      have sp := pats_correctB pats C K pos k (pos + patsBytes pats + 3) v stk g b B hpats hpp hm (by omega)
      cases b with
      | true =>
        simp only [hm] at he
        simp only [if_true] at sp
        obtain ⟨s, hs, hF⟩ := hall.1 C K _ _ stk g B (hcb ▸ hbody) hpb he hg.1 (by omega)
        exact ⟨s, sb_trans sp (sb_trans (sb_one (step_pop hpop) (by bnd)) hs), hF⟩
      | false =>
        simp only [hm] at he
        simp only [Bool.false_eq_true, if_false] at sp
        obtain ⟨s, hs, hF⟩ := ih hall.2 C K _ _ stk g v B (hcr ▸ hrest) hpr he hg.2 (by omega)
        exact ⟨s, sb_trans sp (sb_trans (sb_one (step_jump hjo) (by bnd)) hs), hF⟩

/-- **the error direction of compiler correctness, bounded.**  If `Core.eval g e = none` (a
runtime error of the source semantics) and `e` refers to defined globals only, the machine running
`compile pos k e` — placed anywhere, with any stack — reaches, within the stack bound, a state at
an operator / unary `-` / unary `~` instruction that fails on the operands on the stack.  All
fourteen constructors (a `match` fails in a range comparison or in the selected arm). -/
theorem eval_none_fails : ∀ (e : CExpr), FailSpecB e := by
  intro e
  induction e with
  | lit x => intro C K pos k stk g B _ _ he; simp [eval] at he
  | tru => intro C K pos k stk g B _ _ he; simp [eval] at he
  | fls => intro C K pos k stk g B _ _ he; simp [eval] at he
  | null => intro C K pos k stk g B _ _ he; simp [eval] at he
  | gget i => intro C K pos k stk g B _ _ he; simp [eval] at he
  | un op a iha =>
    intro C K pos k stk g B h hp he hg hB
    simp only [compile] at h
    simp only [eval] at he
    simp only [depth] at hB
    simp only [globalsBelow] at hg
    simp only [consts] at hp
    cases hea : eval g a with
    | none => exact iha C K pos k stk g B (codeAt_left h) hp hea hg hB
    | some r =>
      obtain ⟨va, g1⟩ := r
      simp only [hea] at he
      have sa := compile_correct_bounded a C K pos k stk g va g1 B (codeAt_left h) hp hea hB
      have hu : fetch C (pos + bytes (compile pos k a)) = some (unInstr op) := fetch_codeAt (codeAt_right h)
      refine ⟨_, sa, ?_⟩
      cases op with
      | bang => simp [applyUn, unaryBang] at he
      | minus => exact .minus va stk hu rfl (fun r hr => by simp [applyUn, hr] at he)
      | bnot => exact .bnot va stk hu rfl (fun r hr => by simp [applyUn, hr] at he)
  | bin op a b iha ihb =>
    intro C K pos k stk g B h hp he hg hB
    simp only [compile] at h
    simp only [eval] at he
    simp only [depth] at hB
    simp only [globalsBelow, Bool.and_eq_true] at hg
    simp only [consts] at hp
    have hpa := depth_pos a
    have hca : codeAt C pos (compile pos k a) := codeAt_left (codeAt_left h)
    have hcb := codeAt_right (codeAt_left h)
    have ho := codeAt_right h
    cases hea : eval g a with
    | none => exact iha C K pos k stk g B hca (poolAt_left hp) hea hg.1 (by omega)
    | some ra =>
      obtain ⟨va, g1⟩ := ra
      simp only [hea] at he
      have sa := compile_correct_bounded a C K pos k stk g va g1 B hca (poolAt_left hp) hea (by omega)
      have hl1 := eval_length a _ _ _ hea
      cases heb : eval g1 b with
      | none =>
        obtain ⟨s, hs, hF⟩ := ihb C K _ _ (va :: stk) g1 B hcb (poolAt_right hp) heb (by rw [hl1]; exact hg.2) (by bnd)
        exact ⟨s, sb_trans sa hs, hF⟩
      | some rb =>
        obtain ⟨vb, g2⟩ := rb
        simp only [heb] at he
        have sb := compile_correct_bounded b C K _ _ (va :: stk) g1 vb g2 B hcb (poolAt_right hp) heb (by bnd)
        exact ⟨_, sb_trans sa sb, .op op vb va stk (fetch_codeAt (ho.to (by rw [bytes_append, Nat.add_assoc]))) rfl
          (fun r hr => by simp [hr] at he)⟩
  | lt a b iha ihb =>
    intro C K pos k stk g B h hp he hg hB
    simp only [compile] at h
    simp only [eval] at he
    simp only [depth] at hB
    simp only [globalsBelow, Bool.and_eq_true] at hg
    simp only [consts] at hp
    have hpb := depth_pos b
    have hcb : codeAt C pos (compile pos k b) := codeAt_left (codeAt_left h)
    have hca := codeAt_right (codeAt_left h)
    have ho := codeAt_right h
    cases heb : eval g b with
    | none => exact ihb C K pos k stk g B hcb (poolAt_left hp) heb hg.2 (by omega)
    | some rb =>
      obtain ⟨vb, g1⟩ := rb
      simp only [heb] at he
      have sb := compile_correct_bounded b C K pos k stk g vb g1 B hcb (poolAt_left hp) heb (by omega)
      have hl1 := eval_length b _ _ _ heb
      cases hea : eval g1 a with
      | none =>
        obtain ⟨s, hs, hF⟩ := iha C K _ _ (vb :: stk) g1 B hca (poolAt_right hp) hea (by rw [hl1]; exact hg.1) (by bnd)
        exact ⟨s, sb_trans sb hs, hF⟩
      | some ra =>
        obtain ⟨va, g2⟩ := ra
        simp only [hea] at he
        have sa := compile_correct_bounded a C K _ _ (vb :: stk) g1 va g2 B hca (poolAt_right hp) hea (by bnd)
        exact ⟨_, sb_trans sb sa, .op .greater va vb stk (fetch_codeAt (ho.to (by rw [bytes_append, Nat.add_assoc]))) rfl
          (fun r hr => by simp [hr] at he)⟩
  | le a b iha ihb =>
    intro C K pos k stk g B h hp he hg hB
    simp only [compile] at h
    simp only [eval] at he
    simp only [depth] at hB
    simp only [globalsBelow, Bool.and_eq_true] at hg
    simp only [consts] at hp
    have hpb := depth_pos b
    have hcb : codeAt C pos (compile pos k b) := codeAt_left (codeAt_left h)
    have hca := codeAt_right (codeAt_left h)
    have ho := codeAt_right h
    cases heb : eval g b with
    | none => exact ihb C K pos k stk g B hcb (poolAt_left hp) heb hg.2 (by omega)
    | some rb =>
      obtain ⟨vb, g1⟩ := rb
      simp only [heb] at he
      have sb := compile_correct_bounded b C K pos k stk g vb g1 B hcb (poolAt_left hp) heb (by omega)
      have hl1 := eval_length b _ _ _ heb
      cases hea : eval g1 a with
      | none =>
        obtain ⟨s, hs, hF⟩ := iha C K _ _ (vb :: stk) g1 B hca (poolAt_right hp) hea (by rw [hl1]; exact hg.1) (by bnd)
        exact ⟨s, sb_trans sb hs, hF⟩
      | some ra =>
        obtain ⟨va, g2⟩ := ra
        simp only [hea] at he
        have sa := compile_correct_bounded a C K _ _ (vb :: stk) g1 va g2 B hca (poolAt_right hp) hea (by bnd)
        exact ⟨_, sb_trans sb sa, .op .greaterEq va vb stk (fetch_codeAt (ho.to (by rw [bytes_append, Nat.add_assoc]))) rfl
          (fun r hr => by simp [hr] at he)⟩
  | and a b iha ihb =>
    intro C K pos k stk g B h hp he hg hB
    simp only [compile] at h
    simp only [eval] at he
    simp only [depth] at hB
    simp only [globalsBelow, Bool.and_eq_true] at hg
    simp only [consts] at hp
    have hpa := depth_pos a
    generalize hca : compile pos k a = ca at *
    generalize hcb : compile (pos + bytes ca + 3 + 1) (k + (consts a).length) b = cb at *
    have hA : codeAt C pos ca := codeAt_mid [] ca _ (by simpa using h)
    cases hea : eval g a with
    | none => exact iha C K pos k stk g B (hca ▸ hA) (poolAt_left hp) hea hg.1 (by omega)
    | some ra =>
      obtain ⟨va, g1⟩ := ra
      simp only [hea] at he
      by_cases hf : va.isFalsey = true
      · simp [hf] at he
      · simp only [hf, Bool.false_eq_true, if_false] at he
        have sa := compile_correct_bounded a C K pos k stk g va g1 B (hca ▸ hA) (poolAt_left hp) hea (by omega)
        rw [hca] at sa
        have hj : codeAt C (pos + bytes ca) [Instr.jifnp (pos + bytes ca + 3 + 1 + bytes cb)] :=
          codeAt_mid ca [_] (.pop :: cb) (by simpa using h)
        have hpop : codeAt C (pos + bytes ca + 3) [Instr.pop] := by
          have := codeAt_mid (ca ++ [.jifnp (pos + bytes ca + 3 + 1 + bytes cb)]) [.pop] cb (by simpa using h)
          simpa [bytes_append, bytes, Instr.size, Nat.add_assoc] using this
        have hbb : codeAt C (pos + bytes ca + 3 + 1) cb := by
          have := codeAt_mid (ca ++ [.jifnp (pos + bytes ca + 3 + 1 + bytes cb), .pop]) cb [] (by simpa using h)
          simpa [bytes_append, bytes, Instr.size, Nat.add_assoc] using this
        obtain ⟨s, hs, hF⟩ := ihb C K (pos + bytes ca + 3 + 1) (k + (consts a).length) stk g1 B (hcb ▸ hbb)
          (poolAt_right hp) he (by rw [eval_length a _ _ _ hea]; exact hg.2) (by omega)
        refine ⟨s, sb_trans sa (sb_trans (sb_one (step_jifnp hj) (by bnd)) ?_), hF⟩
        simp only [hf, Bool.false_eq_true, if_false]
        exact sb_trans (sb_one (step_pop hpop) (by bnd)) hs
  | or a b iha ihb =>
    intro C K pos k stk g B h hp he hg hB
    simp only [compile] at h
    simp only [eval] at he
    simp only [depth] at hB
    simp only [globalsBelow, Bool.and_eq_true] at hg
    simp only [consts] at hp
    have hpa := depth_pos a
    generalize hca : compile pos k a = ca at *
    generalize hcb : compile (pos + bytes ca + 3 + 3 + 1) (k + (consts a).length) b = cb at *
    have hA : codeAt C pos ca := codeAt_mid [] ca _ (by simpa using h)
    cases hea : eval g a with
    | none => exact iha C K pos k stk g B (hca ▸ hA) (poolAt_left hp) hea hg.1 (by omega)
    | some ra =>
      obtain ⟨va, g1⟩ := ra
      simp only [hea] at he
      by_cases hf : va.isFalsey = true
      · simp only [hf, if_true] at he
        have sa := compile_correct_bounded a C K pos k stk g va g1 B (hca ▸ hA) (poolAt_left hp) hea (by omega)
        rw [hca] at sa
        have hj : codeAt C (pos + bytes ca) [Instr.jifnp (pos + bytes ca + 3 + 3)] :=
          codeAt_mid ca [_] (.jump (pos + bytes ca + 3 + 3 + 1 + bytes cb) :: .pop :: cb) (by simpa using h)
        have hpop : codeAt C (pos + bytes ca + 3 + 3) [Instr.pop] := by
          have := codeAt_mid (ca ++ [.jifnp (pos + bytes ca + 3 + 3), .jump (pos + bytes ca + 3 + 3 + 1 + bytes cb)]) [.pop] cb (by simpa using h)
          simpa [bytes_append, bytes, Instr.size, Nat.add_assoc] using this
        have hbb : codeAt C (pos + bytes ca + 3 + 3 + 1) cb := by
          have := codeAt_mid (ca ++ [.jifnp (pos + bytes ca + 3 + 3), .jump (pos + bytes ca + 3 + 3 + 1 + bytes cb), .pop]) cb [] (by simpa using h)
          simpa [bytes_append, bytes, Instr.size, Nat.add_assoc] using this
        obtain ⟨s, hs, hF⟩ := ihb C K (pos + bytes ca + 3 + 3 + 1) (k + (consts a).length) stk g1 B (hcb ▸ hbb)
          (poolAt_right hp) he (by rw [eval_length a _ _ _ hea]; exact hg.2) (by omega)
        refine ⟨s, sb_trans sa (sb_trans (sb_one (step_jifnp hj) (by bnd)) ?_), hF⟩
        simp only [hf, if_true]
        exact sb_trans (sb_one (step_pop hpop) (by bnd)) hs
      · simp [hf] at he
  | ite c t e ihc iht ihe =>
    intro C K pos k stk g B h hp he hg hB
    simp only [compile] at h
    simp only [eval] at he
    simp only [depth] at hB
    simp only [globalsBelow, Bool.and_eq_true] at hg
    simp only [consts] at hp
    have hpc := depth_pos c
    generalize hcc : compile pos k c = cc at *
    generalize hct : compile (pos + bytes cc + 3) (k + (consts c).length) t = ct at *
    generalize hce : compile (pos + bytes cc + 3 + bytes ct + 3) (k + (consts c).length + (consts t).length) e = ce at *
    have hC : codeAt C pos cc := codeAt_mid [] cc _ (by simpa using h)
    cases hec : eval g c with
    | none => exact ihc C K pos k stk g B (hcc ▸ hC) (poolAt_left (poolAt_left hp)) hec hg.1.1 (by omega)
    | some rc =>
      obtain ⟨vc, g1⟩ := rc
      simp only [hec] at he
      have sc := compile_correct_bounded c C K pos k stk g vc g1 B (hcc ▸ hC) (poolAt_left (poolAt_left hp)) hec (by omega)
      rw [hcc] at sc
      have hl1 := eval_length c _ _ _ hec
      have hj : codeAt C (pos + bytes cc) [Instr.jif (pos + bytes cc + 3 + bytes ct + 3)] :=
        codeAt_mid cc [_] (ct ++ [.jump (pos + bytes cc + 3 + bytes ct + 3 + bytes ce)] ++ ce) (by simpa using h)
      have htt : codeAt C (pos + bytes cc + 3) ct := by
        have := codeAt_mid (cc ++ [.jif (pos + bytes cc + 3 + bytes ct + 3)]) ct
          ([.jump (pos + bytes cc + 3 + bytes ct + 3 + bytes ce)] ++ ce) (by simpa using h)
        simpa [bytes_append, bytes, Instr.size, Nat.add_assoc] using this
      have hee : codeAt C (pos + bytes cc + 3 + bytes ct + 3) ce := by
        have := codeAt_mid (cc ++ [.jif (pos + bytes cc + 3 + bytes ct + 3)] ++ ct ++
          [.jump (pos + bytes cc + 3 + bytes ct + 3 + bytes ce)]) ce [] (by simpa using h)
        simpa [bytes_append, bytes, Instr.size, Nat.add_assoc] using this
      have hpt : poolAt K (k + (consts c).length) (consts t) := poolAt_right (poolAt_left hp)
      have hpe : poolAt K (k + (consts c).length + (consts t).length) (consts e) := by
        have := poolAt_right hp
        simpa [Nat.add_assoc] using this
      by_cases hf : vc.isFalsey = true
      · simp only [hf, if_true] at he
        obtain ⟨s, hs, hF⟩ := ihe C K (pos + bytes cc + 3 + bytes ct + 3) _ stk g1 B (hce ▸ hee) hpe he
          (by rw [hl1]; exact hg.2) (by omega)
        refine ⟨s, sb_trans sc (sb_trans (sb_one (step_jif hj) (by bnd)) ?_), hF⟩
        simp only [hf, if_true]
        exact hs
      · simp only [hf, Bool.false_eq_true, if_false] at he
        obtain ⟨s, hs, hF⟩ := iht C K (pos + bytes cc + 3) _ stk g1 B (hct ▸ htt) hpt he
          (by rw [hl1]; exact hg.1.2) (by omega)
        refine ⟨s, sb_trans sc (sb_trans (sb_one (step_jif hj) (by bnd)) ?_), hF⟩
        simp only [hf, Bool.false_eq_true, if_false]
        exact hs
  | gset i a iha =>
    intro C K pos k stk g B h hp he hg hB
    simp only [compile] at h
    simp only [eval] at he
    simp only [depth] at hB
    simp only [globalsBelow, Bool.and_eq_true, decide_eq_true_eq] at hg
    simp only [consts] at hp
    cases hea : eval g a with
    | none => exact iha C K pos k stk g B (codeAt_left h) hp hea hg.2 hB
    | some r =>
      obtain ⟨va, g1⟩ := r
      simp only [hea] at he
      have hi : i < g1.length := by rw [eval_length a _ _ _ hea]; exact hg.1
      simp [hi] at he
  | matchE s arms ihs iharms =>
    intro C K pos k stk g B h hp he hg hB
    simp only [compile] at h
    simp only [eval] at he
    simp only [consts] at hp
    simp only [depth] at hB
    simp only [globalsBelow, Bool.and_eq_true] at hg
    cases hes : eval g s with
    | none => exact ihs C K pos k stk g B (codeAt_left h) (poolAt_left hp) hes hg.1 (by omega)
    | some r =>
      obtain ⟨vs, g1⟩ := r
      simp only [hes] at he
      have s1 := compile_correct_bounded s C K pos k stk g vs g1 B (codeAt_left h) (poolAt_left hp) hes (by omega)
      obtain ⟨s2, hs2, hF⟩ := fail_armsB arms iharms C K _ _ stk g1 vs B (codeAt_right h) (poolAt_right hp) he
        (by rw [eval_length s _ _ _ hes]; exact hg.2) (by omega)
      exact ⟨s2, sb_trans s1 hs2, hF⟩


/-! ### … and the VM model reports that operator's error -/

theorem Fails.fetch {C s} (h : Fails C s) : (fetch C s.pc).isSome = true := by
  cases h with
  | op o r l rest hf _ _ => simp [hf]
  | minus v rest hf _ _ => simp [hf]
  | bnot v rest hf _ _ => simp [hf]

theorem unaryMinus_not_panic (v : Val) (m : String) : unaryMinus v ≠ .panic m := by
  cases v <;> simp [unaryMinus]

theorem unaryNot_not_panic (v : Val) (m : String) : unaryNot v ≠ .panic m := by
  cases v <;> simp [unaryNot]

/-- only `*` (a string repetition beyond the memory exclusion of C08/C09) panics in the operator model -/
theorem panic_is_mul {o : Operator} {l r : Val} {m : String} (h : execOperator o l r = .panic m) : o = .mul := by
  have key : ∀ k, k ≠ BinKind.arith .mul → binaryOp k l r ≠ .panic m := fun k hk =>
    P2sh.Props.C09.binaryOp_no_panic k l r (fun hh => hk hh.1) m
  cases o <;> simp only [execOperator] at h
  case mul => rfl
  case equal => cases h
  case notEqual => cases h
  all_goals first
    | exact absurd h (key _ (by decide))
    | (exfalso; revert h; unfold bitwiseOp; split <;> simp)

def isMul : Instr → Bool
  | .op .mul => true
  | _ => false

/-- in a VM state that stands for a failing core state, the iteration of the loop ends in the
runtime error of the failing operator, reported at `lines[pc]` — or, when the instruction is `Mul`
and the operator model panics (`String::repeat` beyond the memory exclusion, C08/C09), in that panic -/
theorem fails_tick {C : List Instr} {K : List Val} {s : Core.St} {vs : Vm.St} (R : Rel C K s vs) (hF : Fails C s) :
    ∃ r vs', P2sh.Props.BcvWp.exec P2sh.Props.Bcv.tick vs = (.error r, vs') ∧
      ((∃ msg line f, r = .err msg line ∧ vs.frames = [f] ∧ f.fn.lines[s.pc]? = some line) ∨
        (r = .panic "capacity overflow" ∧ fetch C s.pc = some (.op .mul))) := by
  cases hF with
  | op o r l rest hf hs hx =>
    cases hx' : execOperator o l r with
    | ok v => exact absurd hx' (hx v)
    | err msg =>
      obtain ⟨f, line, vs', hfr, hl, he⟩ := CoreVm.op_err_refines R hf hs hx'
      exact ⟨_, vs', he, .inl ⟨msg, line, f, rfl, hfr, hl⟩⟩
    | panic msg =>
      obtain ⟨vs', he⟩ := CoreVm.op_panic_refines R hf hs hx'
      have := CoreVm.execOperator_panic_msg hx'
      subst this
      have hmul := panic_is_mul hx'
      subst hmul
      exact ⟨_, vs', he, .inr ⟨rfl, hf⟩⟩
  | minus v rest hf hs hx =>
    cases hx' : unaryMinus v with
    | ok w => exact absurd hx' (hx w)
    | err msg =>
      obtain ⟨f, line, vs', hfr, hl, he⟩ := CoreVm.minus_err_refines R hf hs hx'
      exact ⟨_, vs', he, .inl ⟨msg, line, f, rfl, hfr, hl⟩⟩
    | panic msg => exact absurd hx' (unaryMinus_not_panic v msg)
  | bnot v rest hf hs hx =>
    cases hx' : unaryNot v with
    | ok w => exact absurd hx' (hx w)
    | err msg =>
      obtain ⟨f, line, vs', hfr, hl, he⟩ := CoreVm.bnot_err_refines R hf hs hx'
      exact ⟨_, vs', he, .inl ⟨msg, line, f, rfl, hfr, hl⟩⟩
    | panic msg => exact absurd hx' (unaryNot_not_panic v msg)

/-- the error direction for code `C` that begins with the code of `e` (pool `K` beginning with its
constants): see `oracle_error_vm` -/
theorem oracle_error_vm_at {nm : Nat → String} {ln : Nat} {e : CExpr} {fuel : Nat} {env : Ref.Env}
    {st st' : Ref.St} {n l : Nat} {C : List Instr} {K : List Val}
    (hr : EnvRel nm env st (List.replicate n .null)) (hf : globalsBelow n e = true)
    (h : RefCore.run (Ref.evalE fuel env (toAst nm ln e)) st = (.error (.rt l), st'))
    (hc : codeAt C 0 (compile 0 0 e)) (hp : poolAt K 0 (consts e))
    (main : FnDef) (hcode : main.code = encode C) (hlines : main.code.length ≤ main.lines.length)
    (hK : ∀ c ∈ K, scalar c = true) (hn : n ≤ P2sh.Gen.Limits.GLOBALS_SIZE)
    (hfit : C.all fitsI = true) (hd : depth e ≤ Vm.stackSize) :
    ∃ fuelV vs' r, Vm.run main K fuelV = (.error r, vs') ∧
      ((∃ msg line pc, r = .err msg line ∧ main.lines[pc]? = some line ∧ (fetch C pc).isSome = true) ∨
        (r = .panic "capacity overflow" ∧ ∃ pc, fetch C pc = some (.op .mul))) := by
  have he := RefCore.ref_error_core hr (by simpa using hf) h
  obtain ⟨s, hs, hF⟩ := eval_none_fails e C K 0 0 [] _ Vm.stackSize hc hp he (by simpa using hf) (by simpa using hd)
  obtain ⟨vs1, hv, R1, hm1⟩ := CoreVm.steps_refine_bounded (CoreVm.rel_init main n hcode hlines hK hn) hfit hs
  obtain ⟨r, vs', het, hdis⟩ := fails_tick R1 hF
  obtain ⟨m, hm⟩ := hv.fuel 1
  refine ⟨m + 1, vs', r, ?_, ?_⟩
  · show P2sh.Props.BcvWp.exec (Vm.runLoop (m + 1)) (Vm.initState main K) = _
    rw [hm, P2sh.Props.Bcv.exec_runLoop_succ, het]
  · rcases hdis with ⟨msg, line, f, rfl, hfr, hl⟩ | ⟨rfl, hmul⟩
    · have hfn : f.fn = main := by
        have : some f.fn = some main := by simpa [CoreVm.mainFn, hfr, Vm.initState] using hm1
        exact Option.some.inj this
      exact .inl ⟨msg, line, s.pc, rfl, by rw [← hfn]; exact hl, hF.fetch⟩
    · exact .inr ⟨rfl, s.pc, hmul⟩

/-- **the chain, error direction.**  Same setting as `oracle_value_vm`.  If the oracle raises a
runtime error (`.rt l`, for some fuel), then `Vm.run` on the real bytecode does **not** end
normally: it ends in a runtime error `msg` reported at `main.lines[pc]` for the `pc` of an
instruction of the code (the failing operator / unary `-` / `~`), or — only if the code contains a
`Mul` instruction — in the panic "capacity overflow" (`oracle_error_vm_nomul`: without `Mul`, a
runtime error).

What is not chained here (stated so that nobody reads more into it):
* that `main.lines[pc]` is the oracle's line `l`: this is C13 (`Props/C13.lean` `fail_line`,
  `Core.lineTable`), which needs the line-annotated expressions of `Core/Lines.lean`;
* the panic alternative cannot be excluded from `Core.eval = none` alone: `Core.eval` does not say
  whether the failing operator erred or panicked.  (`RefCore.run_applyBinary` shows that where the
  operator model panics the oracle answers `mem`, not `rt`; carrying that through `RefCore.main_core`
  would remove the alternative.) -/
theorem oracle_error_vm {nm : Nat → String} {ln : Nat} {e : CExpr} {fuel : Nat} {env : Ref.Env}
    {st st' : Ref.St} {n l : Nat}
    (hr : EnvRel nm env st (List.replicate n .null)) (hf : globalsBelow n e = true)
    (h : RefCore.run (Ref.evalE fuel env (toAst nm ln e)) st = (.error (.rt l), st'))
    (main : FnDef) (hcode : main.code = encode (compile 0 0 e)) (hlines : main.code.length ≤ main.lines.length)
    (hK : ∀ c ∈ consts e, scalar c = true) (hn : n ≤ P2sh.Gen.Limits.GLOBALS_SIZE)
    (hfit : (compile 0 0 e).all fitsI = true) (hd : depth e ≤ Vm.stackSize) :
    ∃ fuelV vs' r, Vm.run main (consts e) fuelV = (.error r, vs') ∧
      ((∃ msg line pc, r = .err msg line ∧ main.lines[pc]? = some line ∧
          (fetch (compile 0 0 e) pc).isSome = true) ∨
        (r = .panic "capacity overflow" ∧ ∃ pc, fetch (compile 0 0 e) pc = some (.op .mul))) :=
  oracle_error_vm_at hr hf h (codeAt_self _) (poolAt_self _) main hcode hlines hK hn hfit hd

/-- **the chain, error direction, without `*`**: when the code of `e` has no `Mul` instruction, the
oracle's runtime error is a runtime error of `Vm.run` (message `msg`, reported at `main.lines[pc]`
for the `pc` of an instruction of the code) — no alternative -/
theorem oracle_error_vm_nomul {nm : Nat → String} {ln : Nat} {e : CExpr} {fuel : Nat} {env : Ref.Env}
    {st st' : Ref.St} {n l : Nat}
    (hr : EnvRel nm env st (List.replicate n .null)) (hf : globalsBelow n e = true)
    (h : RefCore.run (Ref.evalE fuel env (toAst nm ln e)) st = (.error (.rt l), st'))
    (main : FnDef) (hcode : main.code = encode (compile 0 0 e)) (hlines : main.code.length ≤ main.lines.length)
    (hK : ∀ c ∈ consts e, scalar c = true) (hn : n ≤ P2sh.Gen.Limits.GLOBALS_SIZE)
    (hfit : (compile 0 0 e).all fitsI = true) (hd : depth e ≤ Vm.stackSize)
    (hmul : (compile 0 0 e).all (fun i => !isMul i) = true) :
    ∃ fuelV vs' msg line pc, Vm.run main (consts e) fuelV = (.error (.err msg line), vs') ∧
      main.lines[pc]? = some line ∧ (fetch (compile 0 0 e) pc).isSome = true := by
  obtain ⟨fuelV, vs', r, hrun, hdis⟩ := oracle_error_vm hr hf h main hcode hlines hK hn hfit hd
  rcases hdis with ⟨msg, line, pc, rfl, hl, hfe⟩ | ⟨-, pc, hfe⟩
  · exact ⟨fuelV, vs', msg, line, pc, hrun, hl, hfe⟩
  · have hmem := CoreVm.fetch_mem _ _ _ hfe
    have := (List.all_eq_true.mp hmul) _ hmem
    simp [isMul] at this

/-- the error direction for the whole program `e;` (the layout of `Driver/CoreDrv.lean`) -/
theorem oracle_exprstmt_error_vm {nm : Nat → String} {ln : Nat} {e : CExpr} {fuel : Nat} {env : Ref.Env}
    {st st' : Ref.St} {n l : Nat}
    (hr : EnvRel nm env st (List.replicate n .null)) (hf : globalsBelow n e = true)
    (h : RefCore.run (Ref.evalE fuel env (toAst nm ln e)) st = (.error (.rt l), st'))
    (main : FnDef) (hcode : main.code = encode (compileP 0 0 [] [.expr e]))
    (hlines : main.code.length ≤ main.lines.length)
    (hK : ∀ c ∈ constsP [.expr e], scalar c = true) (hn : n ≤ P2sh.Gen.Limits.GLOBALS_SIZE)
    (hfit : (compileP 0 0 [] [.expr e]).all fitsI = true) (hd : depth e ≤ Vm.stackSize) :
    ∃ fuelV vs' r, Vm.run main (constsP [.expr e]) fuelV = (.error r, vs') ∧
      ((∃ msg line pc, r = .err msg line ∧ main.lines[pc]? = some line ∧
          (fetch (compileP 0 0 [] [.expr e]) pc).isSome = true) ∨
        (r = .panic "capacity overflow" ∧ ∃ pc, fetch (compileP 0 0 [] [.expr e]) pc = some (.op .mul))) := by
  have hC : compileP 0 0 [] [.expr e] = compile 0 0 e ++ [.pop] := by simp [compileP, compileS]
  have hKe : constsP [.expr e] = consts e := by simp [constsP, constsS]
  simp only [hC, hKe] at hcode hK hfit ⊢
  exact oracle_error_vm_at hr hf h ⟨[], [.pop], by simp, rfl⟩ (poolAt_self _) main hcode hlines hK hn hfit hd

/-! ## non-vacuity: every hypothesis holds for concrete expressions -/

section Examples
open P2sh.RefCore (nm1 e1 e2 globalScope)

/-- one global `x`, holding null — how `Vm.run` starts -/
def st0 : Ref.St := { cells := List.replicate 1 .null }
def env0 : Ref.Env := [globalScope nm1 1]

theorem rel0 : EnvRel nm1 env0 st0 (List.replicate 1 .null) :=
  EnvRel.ofNames nm1 st0 (List.replicate 1 .null) (by intro i j hi hj _; simp at hi hj; omega) rfl (by decide)

def mainOf (C : List Instr) : FnDef :=
  { code := encode C, lines := List.replicate (bytes C) 1, numLocals := 0, numParams := 0, line := 0 }

/-- `(x = 7) > 3 && ((1 + 2) < 4 && !(x == 3))` (`RefCore.e1` is the right operand; `x` starts as
null, on which the oracle does not commit for `==`, hence the assignment first) -/
def e6 : CExpr := .and (.bin .greater (.gset 0 (.lit (.int 7))) (.lit (.int 3))) e1

/-- the oracle says `true`, and `x` is 7 afterwards -/
theorem e6_ref0 : RefCore.run (Ref.evalE 10 env0 (toAst nm1 1 e6)) st0 =
    (.ok (.val (.bool true) env0), { st0 with cells := [.int 7] }) := by rfl

/-- the bytes the VM runs: `Constant 0; SetGlobal 0; Constant 1; Greater; JumpIfFalseNoPop 37; Pop;
Constant 2; Constant 3; Constant 4; Add; Greater; JumpIfFalseNoPop 37; Pop; GetGlobal 0; Constant 5;
Equal; Bang` -/
example : encode (compile 0 0 e6) =
    [0, 0, 0, 21, 0, 0, 0, 0, 1, 11, 17, 0, 37, 1, 0, 0, 2, 0, 0, 3, 0, 0, 4, 2, 11, 17, 0, 37, 1,
     20, 0, 0, 0, 0, 5, 9, 14] := by decide
example : consts e6 = [.int 7, .int 3, .int 4, .int 1, .int 2, .int 3] := rfl
example : depth e6 = 3 := by decide

/-- `oracle_value_vm` instantiated, all hypotheses discharged: `Vm.run` ends normally with `true`
alone on the stack and 7 in the global `x` -/
example : ∃ fuelV vs', Vm.run (mainOf (compile 0 0 e6)) (consts e6) fuelV = (.ok (), vs') ∧
    vs'.sp = 1 ∧ vs'.stack.getD 0 .null = .bool true ∧ vs'.globals.getD 0 .null = .int 7 := by
  obtain ⟨f, vs', h1, _, h2, h3, h4, _⟩ := oracle_value_vm rel0 (by decide) e6_ref0 (mainOf (compile 0 0 e6)) rfl
    (by decide) (by decide) (by decide) (by decide) (by decide)
  exact ⟨f, vs', h1, h2, h3, h4 0⟩

/-- the whole program `(x = 7) > 3 && …;`: ends with an empty stack and `last_popped = true` -/
example : ∃ fuelV vs', Vm.run (mainOf (compileP 0 0 [] [.expr e6])) (constsP [.expr e6]) fuelV = (.ok (), vs') ∧
    vs'.sp = 0 ∧ Vm.lastPopped vs' = .bool true ∧ vs'.globals.getD 0 .null = .int 7 := by
  obtain ⟨f, vs', h1, _, h2, h3, h4⟩ := oracle_exprstmt_vm rel0 (by decide) e6_ref0 (mainOf (compileP 0 0 [] [.expr e6])) rfl
    (by decide) (by decide) (by decide) (by decide) (by decide)
  exact ⟨f, vs', h1, h2, h3, h4 0⟩

/-- `if (x = 5) > 3 { match x { 1..=9 => x * 2, _ => 0 } } else { 0 }`: an assignment, an `if`, a
`match` with a range pattern (which duplicates the scrutinee: depth 3) -/
def e5 : CExpr :=
  .ite (.bin .greater (.gset 0 (.lit (.int 5))) (.lit (.int 3)))
    (.matchE (.gget 0)
      (.cons [.range true (.int 1) (.int 9)] (.bin .mul (.gget 0) (.lit (.int 2))) (.last (.lit (.int 0)))))
    (.lit (.int 0))

theorem e5_ref0 : RefCore.run (Ref.evalE 20 env0 (toAst nm1 1 e5)) st0 =
    (.ok (.val (.int 10) env0), { st0 with cells := [.int 5] }) := by rfl

example : depth e5 = 3 := by decide

/-- … the VM model leaves `10` on the stack and `5` in the global `x` -/
example : ∃ fuelV vs', Vm.run (mainOf (compile 0 0 e5)) (consts e5) fuelV = (.ok (), vs') ∧
    vs'.sp = 1 ∧ vs'.stack.getD 0 .null = .int 10 ∧ vs'.globals.getD 0 .null = .int 5 := by
  obtain ⟨f, vs', h1, _, h2, h3, h4, _⟩ := oracle_value_vm rel0 (by decide) e5_ref0 (mainOf (compile 0 0 e5)) rfl
    (by decide) (by decide) (by decide) (by decide) (by decide)
  exact ⟨f, vs', h1, h2, h3, h4 0⟩

/-- `true + 1` (`RefCore.e2`): the oracle raises a runtime error … -/
theorem e2_ref0 : RefCore.run (Ref.evalE 10 env0 (toAst nm1 1 e2)) st0 = (.error (.rt 1), st0) := by rfl

/-- … and `Vm.run` ends in a runtime error (the code `True; Constant 0; Add` has no `Mul`) -/
example : ∃ fuelV vs' msg line pc, Vm.run (mainOf (compile 0 0 e2)) (consts e2) fuelV = (.error (.err msg line), vs') ∧
    (mainOf (compile 0 0 e2)).lines[pc]? = some line ∧ (fetch (compile 0 0 e2) pc).isSome = true :=
  oracle_error_vm_nomul rel0 (by decide) e2_ref0 (mainOf (compile 0 0 e2)) rfl
    (by decide) (by decide) (by decide) (by decide) (by decide) (by decide)

/-- `eval_none_fails` instantiated: the machine runs into the failing `Add` at byte 4 -/
example : ∃ s, StepsB (compile 0 0 e2) (consts e2) 2 ⟨0, [], [.null]⟩ s ∧ Fails (compile 0 0 e2) s :=
  eval_none_fails e2 _ _ 0 0 [] [.null] 2 (codeAt_self _) (poolAt_self _) rfl (by decide) (by decide)

end Examples

#print axioms compile_correct_bounded
#print axioms compile_correct_depth
#print axioms eval_length
#print axioms eval_none_fails
#print axioms oracle_value_vm_steps
#print axioms oracle_value_vm
#print axioms oracle_exprstmt_vm
#print axioms oracle_error_vm
#print axioms oracle_error_vm_nomul
#print axioms oracle_exprstmt_error_vm
#print axioms fails_tick
#print axioms tick_pop_last

end P2sh.Chain
