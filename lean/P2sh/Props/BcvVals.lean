import P2sh.Model.Vm
/-!
# Closures are never forged by the pure layer (value-flow lemmas for the store typing of `Bcv`)

`VOk P C v`: every closure nested in `v` satisfies `P fn id`, every container identity is `0` (fresh, not yet
allocated) or satisfies `C`.  The operators, the builtins, the map primitives and `reify` / `reflect` only
move values around: they preserve `VOk` for every `P` and `C`.
-/
namespace P2sh.Props.BcvVals
open P2sh

mutual
def VOk (P : FnDef → Nat → Prop) (C : Nat → Prop) : Val → Prop
  | .clos g _ id => P g id
  | .arr id xs => (id = 0 ∨ C id) ∧ VOkL P C xs
  | .map id kvs => (id = 0 ∨ C id) ∧ VOkP P C kvs
  | _ => True
def VOkL (P : FnDef → Nat → Prop) (C : Nat → Prop) : List Val → Prop
  | [] => True
  | x :: xs => VOk P C x ∧ VOkL P C xs
def VOkP (P : FnDef → Nat → Prop) (C : Nat → Prop) : List (Val × Val) → Prop
  | [] => True
  | (k, v) :: rest => VOk P C k ∧ VOk P C v ∧ VOkP P C rest
end

variable {P P' : FnDef → Nat → Prop} {C C' : Nat → Prop}

/-! ## lists -/

theorem vokL_iff {xs : List Val} : VOkL P C xs ↔ ∀ x ∈ xs, VOk P C x := by
  induction xs with
  | nil => simp [VOkL]
  | cons x xs ih => simp [VOkL, ih]

theorem vokP_iff {kvs : List (Val × Val)} : VOkP P C kvs ↔ ∀ p ∈ kvs, VOk P C p.1 ∧ VOk P C p.2 := by
  induction kvs with
  | nil => simp [VOkP]
  | cons p kvs ih => obtain ⟨k, v⟩ := p; simp [VOkP, ih, and_assoc]

@[simp] theorem vok_null : VOk P C .null := by simp [VOk]
@[simp] theorem vok_bool {b} : VOk P C (.bool b) := by simp [VOk]
@[simp] theorem vok_int {b} : VOk P C (.int b) := by simp [VOk]
@[simp] theorem vok_float {b} : VOk P C (.float b) := by simp [VOk]
@[simp] theorem vok_char {b} : VOk P C (.char b) := by simp [VOk]
@[simp] theorem vok_byte {b} : VOk P C (.byte b) := by simp [VOk]
@[simp] theorem vok_str {b} : VOk P C (.str b) := by simp [VOk]
@[simp] theorem vok_builtin {b} : VOk P C (.builtin b) := by simp [VOk]
@[simp] theorem vok_func {b} : VOk P C (.func b) := by simp [VOk]
@[simp] theorem vok_file {b} : VOk P C (.file b) := by simp [VOk]
@[simp] theorem vok_err {b} : VOk P C (.err b) := by simp [VOk]
@[simp] theorem vok_other {b} : VOk P C (.other b) := by simp [VOk]
@[simp] theorem vokL_nil : VOkL P C [] := by simp [VOkL]
@[simp] theorem vokP_nil : VOkP P C [] := by simp [VOkP]
theorem vok_arr {id xs} : VOk P C (.arr id xs) ↔ (id = 0 ∨ C id) ∧ VOkL P C xs := by simp [VOk]
theorem vok_map {id xs} : VOk P C (.map id xs) ↔ (id = 0 ∨ C id) ∧ VOkP P C xs := by simp [VOk]
theorem vok_clos {g fr id} : VOk P C (.clos g fr id) ↔ P g id := by simp [VOk]
theorem vokL_cons {x xs} : VOkL P C (x :: xs) ↔ VOk P C x ∧ VOkL P C xs := by simp [VOkL]
theorem vokP_cons {k v xs} : VOkP P C ((k, v) :: xs) ↔ VOk P C k ∧ VOk P C v ∧ VOkP P C xs := by simp [VOkP]

theorem vokL_append {xs ys : List Val} (hx : VOkL P C xs) (hy : VOkL P C ys) : VOkL P C (xs ++ ys) := by
  rw [vokL_iff] at *
  intro x hx'
  rcases List.mem_append.1 hx' with h | h
  · exact hx x h
  · exact hy x h

theorem vokL_append_iff {xs ys : List Val} : VOkL P C (xs ++ ys) ↔ VOkL P C xs ∧ VOkL P C ys := by
  simp only [vokL_iff, List.mem_append]
  constructor
  · intro h; exact ⟨fun x hx => h x (Or.inl hx), fun x hx => h x (Or.inr hx)⟩
  · rintro ⟨h1, h2⟩ x (hx | hx)
    · exact h1 x hx
    · exact h2 x hx

theorem vokP_append {xs ys : List (Val × Val)} (hx : VOkP P C xs) (hy : VOkP P C ys) : VOkP P C (xs ++ ys) := by
  rw [vokP_iff] at *
  intro x hx'
  rcases List.mem_append.1 hx' with h | h
  · exact hx x h
  · exact hy x h

theorem vokL_singleton {x : Val} (hx : VOk P C x) : VOkL P C [x] := by simp [VOkL, hx]

theorem vokL_dropLast {xs : List Val} (hx : VOkL P C xs) : VOkL P C xs.dropLast := by
  rw [vokL_iff] at *
  exact fun x h => hx x (List.dropLast_subset xs h)

theorem vokL_tail {xs : List Val} (hx : VOkL P C xs) : VOkL P C xs.tail := by
  rw [vokL_iff] at *
  exact fun x h => hx x (List.mem_of_mem_tail h)

theorem vokL_set {xs : List Val} {i : Nat} {v : Val} (hx : VOkL P C xs) (hv : VOk P C v) : VOkL P C (xs.set i v) := by
  rw [vokL_iff] at *
  intro x h
  rcases List.mem_or_eq_of_mem_set h with h | h
  · exact hx x h
  · exact h ▸ hv

theorem vok_getD {xs : List Val} {i : Nat} {d : Val} (hx : VOkL P C xs) (hd : VOk P C d) : VOk P C (xs.getD i d) := by
  rw [vokL_iff] at hx
  rw [List.getD_eq_getElem?_getD]
  cases h : xs[i]? with
  | none => simpa using hd
  | some y => simpa using hx y (List.mem_of_getElem? h)

theorem vok_head?_getD {xs : List Val} {d : Val} (hx : VOkL P C xs) (hd : VOk P C d) : VOk P C (xs.head?.getD d) := by
  cases xs with
  | nil => simpa using hd
  | cons x xs => simpa using (vokL_cons.1 hx).1

theorem vok_getLast? {xs : List Val} {v : Val} (hx : VOkL P C xs) (h : xs.getLast? = some v) : VOk P C v := by
  rw [vokL_iff] at hx
  exact hx v (List.mem_of_getLast? h)

theorem vok_getLast?_getD {xs : List Val} {d : Val} (hx : VOkL P C xs) (hd : VOk P C d) : VOk P C (xs.getLast?.getD d) := by
  cases h : xs.getLast? with
  | none => simpa using hd
  | some y => simpa using vok_getLast? hx h

theorem vokL_mergeSort {xs : List Val} {le : Val → Val → Bool} (hx : VOkL P C xs) : VOkL P C (xs.mergeSort le) := by
  rw [vokL_iff] at *
  exact fun x h => hx x ((List.mergeSort_perm xs le).mem_iff.1 h)

theorem vokL_map_of_forall {α} {f : α → Val} {l : List α} (hf : ∀ a, VOk P C (f a)) : VOkL P C (l.map f) := by
  rw [vokL_iff]
  intro x h
  obtain ⟨a, _, rfl⟩ := List.mem_map.1 h
  exact hf a

theorem vokL_map {f : Val → Val} {l : List Val} (hl : VOkL P C l) (hf : ∀ a ∈ l, VOk P C a → VOk P' C' (f a)) :
    VOkL P' C' (l.map f) := by
  rw [vokL_iff] at *
  intro x h
  obtain ⟨a, ha, rfl⟩ := List.mem_map.1 h
  exact hf a ha (hl a ha)

/-! ## operators -/

theorem vok_arith {op l r v} (h : arith op l r = .ok v) : VOk P C v := by
  unfold arith at h
  split at h
  all_goals first
    | (cases h; done)
    | (unfold arithInt at h; cases op <;> simp only [] at h <;> (repeat' split at h) <;> first | (cases h; done) | (cases h; simp))
    | (unfold arithByte at h; cases op <;> simp only [] at h <;> (repeat' split at h) <;> first | (cases h; done) | (cases h; simp))
    | (unfold arithFloat at h; cases op <;> simp only [] at h <;> cases h <;> simp)

theorem vok_applyBin {k l r v} (h : applyBin k l r = .ok v) : VOk P C v := by
  unfold applyBin at h
  split at h
  · exact vok_arith h
  · cases h; simp
  · cases h; simp

theorem vok_binaryOp {k l r v} (hl : VOk P C l) (hr : VOk P C r) (h : binaryOp k l r = .ok v) : VOk P C v := by
  unfold binaryOp at h
  repeat' split at h
  all_goals first
    | (cases h; done)
    | exact vok_applyBin h
    | (cases h; simp; done)
    | (cases h; rw [vok_arr] at *; exact ⟨Or.inl rfl, vokL_append hl.2 hr.2⟩)

theorem vok_bitwiseOp {op l r v} (_hl : VOk P C l) (_hr : VOk P C r) (h : bitwiseOp op l r = .ok v) : VOk P C v := by
  unfold bitwiseOp at h
  split at h
  · cases h; simp
  · cases h

theorem vok_unaryMinus {x v} (_hx : VOk P C x) (h : unaryMinus x = .ok v) : VOk P C v := by
  unfold unaryMinus at h
  split at h <;> cases h <;> simp

theorem vok_unaryNot {x v} (_hx : VOk P C x) (h : unaryNot x = .ok v) : VOk P C v := by
  unfold unaryNot at h
  split at h <;> cases h <;> simp

theorem vok_unaryBang {x v} (h : unaryBang x = .ok v) : VOk P C v := by
  unfold unaryBang at h
  cases h; simp

/-! ## map primitives -/

theorem vok_hmap_get {m : HMap.Entries} {k : Val} (hm : VOkP P C m) : VOk P C (HMap.get m k) := by
  unfold HMap.get HMap.get?
  split
  · rename_i e he
    have := List.mem_of_find?_eq_some he
    simpa using ((vokP_iff.1 hm) _ this).2
  · simp

theorem vok_hmap_insert {m : HMap.Entries} {k v : Val} (hm : VOkP P C m) (hk : VOk P C k) (hv : VOk P C v) :
    VOkP P C (HMap.insert m k v).1 ∧ ∀ o, (HMap.insert m k v).2 = some o → VOk P C o := by
  induction m with
  | nil => simp [HMap.insert, VOkP, hk, hv]
  | cons p rest ih =>
    obtain ⟨k', v'⟩ := p
    rw [vokP_cons] at hm
    obtain ⟨h1, h2, h3⟩ := hm
    obtain ⟨ih1, ih2⟩ := ih h3
    simp only [HMap.insert]
    split
    · refine ⟨vokP_cons.2 ⟨h1, hv, h3⟩, ?_⟩
      intro o ho
      cases ho
      exact h2
    · exact ⟨vokP_cons.2 ⟨h1, h2, ih1⟩, ih2⟩


/-! ## heap layer -/

def ObjOk (P : FnDef → Nat → Prop) (C : Nat → Prop) : HObj → Prop
  | .arr xs => VOkL P C xs
  | .map kvs => VOkP P C kvs

def HeapOk (P : FnDef → Nat → Prop) (C : Nat → Prop) (h : Heap) : Prop := ∀ p ∈ h.objs, ObjOk P C p.2

def HeapWf (h : Heap) : Prop := ∀ p ∈ h.objs, p.1 < h.next

theorem objOk_get? {h : Heap} {id : Nat} {o : HObj} (hh : HeapOk P C h) (hg : h.get? id = some o) : ObjOk P C o := by
  unfold Heap.get? at hg
  split at hg
  · rename_i p hp
    cases hg
    exact hh _ (List.mem_of_find?_eq_some hp)
  · cases hg

theorem vokL_getArr {h : Heap} {id : Nat} (hh : HeapOk P C h) : VOkL P C (h.getArr id) := by
  unfold Heap.getArr
  split
  · rename_i xs hg
    exact objOk_get? hh hg
  · simp

theorem vokP_getMap {h : Heap} {id : Nat} (hh : HeapOk P C h) : VOkP P C (h.getMap id) := by
  unfold Heap.getMap
  split
  · rename_i xs hg
    exact objOk_get? hh hg
  · simp

theorem heapOk_set {h : Heap} {id : Nat} {o : HObj} (hh : HeapOk P C h) (ho : ObjOk P C o) :
    HeapOk P C (h.set id o) := by
  intro p hp
  simp only [Heap.set, List.mem_map] at hp
  obtain ⟨q, hq, rfl⟩ := hp
  split
  · exact ho
  · exact hh _ hq

theorem heapWf_set {h : Heap} {id : Nat} {o : HObj} (hh : HeapWf h) : HeapWf (h.set id o) := by
  intro p hp
  simp only [Heap.set, List.mem_map] at hp
  obtain ⟨q, hq, rfl⟩ := hp
  have := hh _ hq
  split
  · rename_i he
    have : q.1 = id := by simpa using he
    simpa [Heap.set, ← this] using hh _ hq
  · exact hh _ hq

theorem heapOk_alloc {h : Heap} {o : HObj} (hh : HeapOk P C h) (ho : ObjOk P C o) : HeapOk P C (h.alloc o).1 := by
  intro p hp
  simp only [Heap.alloc, List.mem_cons] at hp
  rcases hp with rfl | hp
  · exact ho
  · exact hh _ hp

theorem heapWf_alloc {h : Heap} {o : HObj} (hh : HeapWf h) : HeapWf (h.alloc o).1 := by
  intro p hp
  simp only [Heap.alloc, List.mem_cons] at hp ⊢
  rcases hp with rfl | hp
  · exact Nat.lt_succ_self _
  · exact Nat.lt_succ_of_lt (hh _ hp)

@[simp] theorem alloc_snd {h : Heap} {o : HObj} : (h.alloc o).2 = h.next := rfl
@[simp] theorem alloc_next {h : Heap} {o : HObj} : (h.alloc o).1.next = h.next + 1 := rfl
@[simp] theorem set_next {h : Heap} {id : Nat} {o : HObj} : (h.set id o).next = h.next := rfl

theorem get?_alloc_ne {h : Heap} {id : Nat} {o : HObj} (hlt : id ≠ h.next) :
    (h.alloc o).1.get? id = h.get? id := by
  have : (h.next == id) = false := by simpa using fun e => hlt e.symm
  simp [Heap.alloc, Heap.get?, this]

theorem get?_alloc_old {h : Heap} {id : Nat} {o : HObj} (_hw : HeapWf h) (hlt : id < h.next) :
    (h.alloc o).1.get? id = h.get? id :=
  get?_alloc_ne (Nat.ne_of_lt hlt)

theorem get?_alloc_new {h : Heap} {o : HObj} : (h.alloc o).1.get? h.next = some o := by
  simp [Heap.alloc, Heap.get?]

theorem get?_set_other {h : Heap} {id id' : Nat} {o : HObj} (hne : id' ≠ id) :
    (h.set id o).get? id' = h.get? id' := by
  obtain ⟨objs, next⟩ := h
  simp only [Heap.get?, Heap.set]
  induction objs with
  | nil => rfl
  | cons p rest ih =>
    simp only [List.map_cons, List.find?_cons]
    by_cases hp : p.1 = id
    · have h1 : (id == id') = false := by simpa using fun e => hne e.symm
      have h2 : (p.1 == id') = false := by simpa [hp] using fun e => hne e.symm
      simp only [hp, beq_self_eq_true, if_true, h1]
      exact ih
    · have h1 : (p.1 == id) = false := by simpa using hp
      simp only [h1]
      cases hq : (p.1 == id')
      · simpa [hq] using ih
      · simp [hq]

theorem get?_set_same {h : Heap} {id : Nat} {o o0 : HObj} (hg : h.get? id = some o0) :
    (h.set id o).get? id = some o := by
  obtain ⟨objs, next⟩ := h
  simp only [Heap.get?, Heap.set] at hg ⊢
  induction objs with
  | nil => simp at hg
  | cons p rest ih =>
    cases hp : (p.1 == id)
    · simp only [List.map_cons, List.find?_cons, hp, Bool.false_eq_true, ↓reduceIte] at hg ⊢
      exact ih hg
    · have e : (if (p.1 == id) = true then (id, o) else p) = (id, o) := by simp [hp]
      simp only [List.map_cons, List.find?_cons, e, beq_self_eq_true]

theorem get?_set_none {h : Heap} {id : Nat} {o : HObj} (hg : h.get? id = none) :
    (h.set id o).get? id = none := by
  obtain ⟨objs, next⟩ := h
  simp only [Heap.get?, Heap.set] at hg ⊢
  induction objs with
  | nil => rfl
  | cons p rest ih =>
    cases hp : (p.1 == id)
    · simp only [List.map_cons, List.find?_cons, hp, Bool.false_eq_true, ↓reduceIte] at hg ⊢
      exact ih hg
    · simp [hp] at hg

/-! ## monotonicity -/

mutual
theorem vok_mono_aux (hP : ∀ g id, P g id → P' g id) (hC : ∀ id, C id → C' id) : ∀ v, VOk P C v → VOk P' C' v
  | .clos g fr id, h => by rw [vok_clos] at *; exact hP _ _ h
  | .arr id xs, h => by
    rw [vok_arr] at *
    exact ⟨h.1.imp (fun e => e) (hC _), vokL_mono_aux hP hC xs h.2⟩
  | .map id kvs, h => by
    rw [vok_map] at *
    exact ⟨h.1.imp (fun e => e) (hC _), vokP_mono_aux hP hC kvs h.2⟩
  | .null, _ | .bool _, _ | .int _, _ | .float _, _ | .char _, _ | .byte _, _ | .str _, _
  | .builtin _, _ | .func _, _ | .file _, _ | .err _, _ | .other _, _ => by simp
theorem vokL_mono_aux (hP : ∀ g id, P g id → P' g id) (hC : ∀ id, C id → C' id) : ∀ xs, VOkL P C xs → VOkL P' C' xs
  | [], _ => by simp
  | x :: xs, h => by
    rw [vokL_cons] at *
    exact ⟨vok_mono_aux hP hC x h.1, vokL_mono_aux hP hC xs h.2⟩
theorem vokP_mono_aux (hP : ∀ g id, P g id → P' g id) (hC : ∀ id, C id → C' id) : ∀ kvs, VOkP P C kvs → VOkP P' C' kvs
  | [], _ => by simp
  | (k, v) :: rest, h => by
    rw [vokP_cons] at *
    exact ⟨vok_mono_aux hP hC k h.1, vok_mono_aux hP hC v h.2.1, vokP_mono_aux hP hC rest h.2.2⟩
end

theorem vok_mono (hP : ∀ g id, P g id → P' g id) (hC : ∀ id, C id → C' id) {v : Val} (h : VOk P C v) :
    VOk P' C' v := vok_mono_aux hP hC v h

theorem vokL_mono (hP : ∀ g id, P g id → P' g id) (hC : ∀ id, C id → C' id) {xs : List Val} (h : VOkL P C xs) :
    VOkL P' C' xs := vokL_mono_aux hP hC xs h

theorem vokP_mono (hP : ∀ g id, P g id → P' g id) (hC : ∀ id, C id → C' id) {kvs : List (Val × Val)}
    (h : VOkP P C kvs) : VOkP P' C' kvs := vokP_mono_aux hP hC kvs h

theorem objOk_mono (hP : ∀ g id, P g id → P' g id) (hC : ∀ id, C id → C' id) {o : HObj} (h : ObjOk P C o) :
    ObjOk P' C' o := by
  cases o with
  | arr xs => exact vokL_mono hP hC h
  | map kvs => exact vokP_mono hP hC h

theorem heapOk_mono (hP : ∀ g id, P g id → P' g id) (hC : ∀ id, C id → C' id) {h : Heap} (hh : HeapOk P C h) :
    HeapOk P' C' h :=
  fun p hp => objOk_mono hP hC (hh p hp)

/-! ## reify -/

theorem vok_reify {h : Heap} (hh : HeapOk P C h) : ∀ (n : Nat) (v : Val), VOk P C v → VOk P C (reify h n v) := by
  intro n
  induction n with
  | zero => intro v hv; simpa [reify] using hv
  | succ n ih =>
    intro v hv
    cases v
    all_goals try (simp [reify]; done)
    · rename_i id xs
      rw [vok_arr] at hv
      simp only [reify]
      split
      · exact vok_arr.2 ⟨Or.inl rfl, vokL_map hv.2 (fun a _ ha => ih a ha)⟩
      · exact vok_arr.2 ⟨hv.1, vokL_map (vokL_getArr hh) (fun a _ ha => ih a ha)⟩
    · rename_i id kvs
      rw [vok_map] at hv
      have key : ∀ l : List (Val × Val), VOkP P C l →
          VOkP P C (l.map fun (k, v) => (reify h n k, reify h n v)) := by
        intro l hl
        rw [vokP_iff] at *
        intro p hp
        obtain ⟨q, hq, rfl⟩ := List.mem_map.1 hp
        exact ⟨ih _ (hl q hq).1, ih _ (hl q hq).2⟩
      simp only [reify]
      split
      · exact vok_map.2 ⟨Or.inl rfl, key _ hv.2⟩
      · exact vok_map.2 ⟨hv.1, key _ (vokP_getMap hh)⟩
    · simpa [reify] using hv


/-! ## builtins -/

def ResOk (P : FnDef → Nat → Prop) (C : Nat → Prop) : Builtins.Res → Prop
  | .ok v => VOk P C v
  | .mutated ret nf => VOk P C ret ∧ VOk P C nf
  | _ => True

theorem resOk_arity1 {args : List Val} {k : Val → Builtins.Res} (h : ∀ a ∈ args, VOk P C a)
    (hk : ∀ v, VOk P C v → ResOk P C (k v)) : ResOk P C (Builtins.arity1 args k) := by
  unfold Builtins.arity1
  split
  · exact hk _ (h _ (by simp))
  · simp [ResOk]

theorem resOk_call (name : String) (args : List Val) (h : ∀ a ∈ args, VOk P C a) :
    ResOk P C (Builtins.call name args) := by
  unfold Builtins.call
  split
  all_goals first
    | (apply resOk_arity1 h; intro v hv; (repeat' split) <;> first
        | (simp [ResOk]; done)
        | exact vok_head?_getD (vok_arr.1 hv).2 vok_null
        | exact vok_getLast?_getD (vok_arr.1 hv).2 vok_null
        | exact vok_arr.2 ⟨Or.inl rfl, (vokL_cons.1 (vok_arr.1 hv).2).2⟩
        | exact ⟨vok_getLast? (vok_arr.1 hv).2 ‹_›, vok_arr.2 ⟨(vok_arr.1 hv).1, vokL_dropLast (vok_arr.1 hv).2⟩⟩
        | exact ⟨vok_arr.2 ⟨(vok_arr.1 hv).1, vokL_mergeSort (vok_arr.1 hv).2⟩,
            vok_arr.2 ⟨(vok_arr.1 hv).1, vokL_mergeSort (vok_arr.1 hv).2⟩⟩
        | exact vok_arr.2 ⟨Or.inl rfl, vokL_map_of_forall (fun _ => vok_char)⟩
        | exact vok_arr.2 ⟨Or.inl rfl, vokL_map_of_forall (fun _ => vok_byte)⟩)
    | ((repeat' split) <;> first
        | (simp [ResOk]; done)
        | (simp only [List.mem_cons, List.not_mem_nil, or_false, forall_eq_or_imp, forall_eq] at h
           first
           | exact ⟨vok_null, vok_arr.2 ⟨(vok_arr.1 h.1).1, vokL_append (vok_arr.1 h.1).2 (vokL_singleton h.2)⟩⟩
           | exact vok_getD (vok_arr.1 h.1).2 vok_null
           | exact vok_hmap_get (vok_map.1 h.1).2
           | (rename_i kvs' old heq
              have hi := vok_hmap_insert (P := P) (C := C) (vok_map.1 h.1).2 h.2.1 h.2.2
              rw [heq] at hi
              refine ⟨?_, vok_map.2 ⟨(vok_map.1 h.1).1, hi.1⟩⟩
              cases old with
              | none => exact vok_null
              | some o => exact hi.2 o rfl)))

theorem vok_call (name : String) (args : List Val) (h : ∀ a ∈ args, VOk P C a) :
    match Builtins.call name args with
    | .ok v => VOk P C v
    | .mutated ret nf => VOk P C ret ∧ VOk P C nf
    | _ => True := by
  have := resOk_call name args h
  cases hc : Builtins.call name args <;> simp only [hc, ResOk] at this ⊢ <;> first | exact this | trivial



/-! ## reflect -/

/-- what `reflect` guarantees about the heap it returns, relative to the heap `h0` it started from -/
structure HeapExt (P : FnDef → Nat → Prop) (C : Nat → Prop) (h0 h : Heap) : Prop where
  wf : HeapWf h
  ok : HeapOk P C h
  le : h0.next ≤ h.next
  old : ∀ id, id < h0.next → h.get? id = h0.get? id

theorem HeapExt.refl {h : Heap} (hw : HeapWf h) (hk : HeapOk P C h) : HeapExt P C h h :=
  ⟨hw, hk, Nat.le_refl _, fun _ _ => rfl⟩

theorem HeapExt.trans {h0 h1 h2 : Heap} (a : HeapExt P C h0 h1) (b : HeapExt P C h1 h2) : HeapExt P C h0 h2 :=
  ⟨b.wf, b.ok, Nat.le_trans a.le b.le,
    fun id hid => (b.old id (Nat.lt_of_lt_of_le hid a.le)).trans (a.old id hid)⟩

theorem HeapExt.alloc {h : Heap} {o : HObj} (hw : HeapWf h) (hk : HeapOk P C h) (ho : ObjOk P C o) :
    HeapExt P C h (h.alloc o).1 :=
  ⟨heapWf_alloc hw, heapOk_alloc hk ho, Nat.le_succ _, fun _ hid => get?_alloc_old hw hid⟩

def stepA (n : Nat) (acc : Heap × List Val) (x : Val) : Heap × List Val :=
  ((reflect acc.1 n x).1, acc.2 ++ [(reflect acc.1 n x).2])

def stepM (n : Nat) (acc : Heap × List (Val × Val)) (p : Val × Val) : Heap × List (Val × Val) :=
  ((reflect (reflect acc.1 n p.1).1 n p.2).1,
    acc.2 ++ [((reflect acc.1 n p.1).2, (reflect (reflect acc.1 n p.1).1 n p.2).2)])

theorem reflect_arr0 (h : Heap) (n : Nat) (xs : List Val) :
    reflect h (n+1) (.arr 0 xs) =
      (((xs.foldl (stepA n) (h, [])).1.alloc (.arr (xs.foldl (stepA n) (h, [])).2)).1,
        .arr (xs.foldl (stepA n) (h, [])).1.next []) := rfl

theorem reflect_map0 (h : Heap) (n : Nat) (kvs : List (Val × Val)) :
    reflect h (n+1) (.map 0 kvs) =
      (((kvs.foldl (stepM n) (h, [])).1.alloc (.map (kvs.foldl (stepM n) (h, [])).2)).1,
        .map (kvs.foldl (stepM n) (h, [])).1.next []) := rfl

/-- the statement proved by induction on the fuel (one colour `C` for old and new identities) -/
def ReflectOk (P : FnDef → Nat → Prop) (C : Nat → Prop) (n : Nat) : Prop :=
  ∀ (h : Heap) (v : Val), HeapWf h → HeapOk P C h → (∀ id, h.next ≤ id → C id) → VOk P C v →
    VOk P C (reflect h n v).2 ∧ HeapExt P C h (reflect h n v).1

theorem foldA_ok {n : Nat} (hrec : ReflectOk P C n) :
    ∀ (xs : List Val) (acc : Heap × List Val), HeapWf acc.1 → HeapOk P C acc.1 →
      (∀ id, acc.1.next ≤ id → C id) → VOkL P C acc.2 → VOkL P C xs →
      VOkL P C (xs.foldl (stepA n) acc).2 ∧ HeapExt P C acc.1 (xs.foldl (stepA n) acc).1 := by
  intro xs
  induction xs with
  | nil => intro acc hw hk _ ha _; exact ⟨ha, HeapExt.refl hw hk⟩
  | cons x xs ih =>
    intro acc hw hk hf ha hx
    rw [vokL_cons] at hx
    obtain ⟨hv, e1⟩ := hrec acc.1 x hw hk hf hx.1
    have := ih (stepA n acc x) e1.wf e1.ok (fun id hid => hf id (Nat.le_trans e1.le hid))
      (vokL_append ha (vokL_singleton hv)) hx.2
    exact ⟨this.1, e1.trans this.2⟩

theorem foldM_ok {n : Nat} (hrec : ReflectOk P C n) :
    ∀ (kvs : List (Val × Val)) (acc : Heap × List (Val × Val)), HeapWf acc.1 → HeapOk P C acc.1 →
      (∀ id, acc.1.next ≤ id → C id) → VOkP P C acc.2 → VOkP P C kvs →
      VOkP P C (kvs.foldl (stepM n) acc).2 ∧ HeapExt P C acc.1 (kvs.foldl (stepM n) acc).1 := by
  intro kvs
  induction kvs with
  | nil => intro acc hw hk _ ha _; exact ⟨ha, HeapExt.refl hw hk⟩
  | cons p kvs ih =>
    intro acc hw hk hf ha hx
    obtain ⟨k, v⟩ := p
    rw [vokP_cons] at hx
    obtain ⟨hk1, e1⟩ := hrec acc.1 k hw hk hf hx.1
    have hf1 : ∀ id, (reflect acc.1 n k).1.next ≤ id → C id := fun id hid => hf id (Nat.le_trans e1.le hid)
    obtain ⟨hv2, e2⟩ := hrec (reflect acc.1 n k).1 v e1.wf e1.ok hf1 hx.2.1
    have := ih (stepM n acc (k, v)) e2.wf e2.ok (fun id hid => hf1 id (Nat.le_trans e2.le hid))
      (vokP_append ha (vokP_cons.2 ⟨hk1, hv2, vokP_nil⟩)) hx.2.2
    exact ⟨this.1, (e1.trans e2).trans this.2⟩

theorem reflectOk (n : Nat) : ReflectOk P C n := by
  induction n with
  | zero => intro h v hw hk _ hv; exact ⟨hv, HeapExt.refl hw hk⟩
  | succ n ih =>
    intro h v hw hk hf hv
    cases v
    case arr id xs =>
      rw [vok_arr] at hv
      by_cases hid : id = 0
      · subst hid
        rw [reflect_arr0]
        obtain ⟨hys, e⟩ := foldA_ok ih xs (h, []) hw hk hf vokL_nil hv.2
        exact ⟨vok_arr.2 ⟨Or.inr (hf _ e.le), vokL_nil⟩, e.trans (HeapExt.alloc e.wf e.ok hys)⟩
      · have : reflect h (n+1) (.arr id xs) = (h, .arr id []) := by simp [reflect, hid]
        rw [this]
        exact ⟨vok_arr.2 ⟨hv.1, vokL_nil⟩, HeapExt.refl hw hk⟩
    case map id kvs =>
      rw [vok_map] at hv
      by_cases hid : id = 0
      · subst hid
        rw [reflect_map0]
        obtain ⟨hys, e⟩ := foldM_ok ih kvs (h, []) hw hk hf vokP_nil hv.2
        exact ⟨vok_map.2 ⟨Or.inr (hf _ e.le), vokP_nil⟩, e.trans (HeapExt.alloc e.wf e.ok hys)⟩
      · have : reflect h (n+1) (.map id kvs) = (h, .map id []) := by simp [reflect, hid]
        rw [this]
        exact ⟨vok_map.2 ⟨hv.1, vokP_nil⟩, HeapExt.refl hw hk⟩
    all_goals exact ⟨hv, HeapExt.refl hw hk⟩

theorem reflect_spec {h : Heap} {n : Nat} {v : Val} (hw : HeapWf h) (hk : HeapOk P C h) (hv : VOk P C v)
    (hC : ∀ id, C id → C' id) (hnew : ∀ id, h.next ≤ id → C' id) :
    VOk P C' (reflect h n v).2 ∧ HeapOk P C' (reflect h n v).1 ∧ HeapWf (reflect h n v).1 ∧
      h.next ≤ (reflect h n v).1.next ∧ (∀ id, id < h.next → (reflect h n v).1.get? id = h.get? id) := by
  obtain ⟨h1, e⟩ := reflectOk (P := P) (C := C') n h v hw (heapOk_mono (fun _ _ x => x) hC hk) hnew
    (vok_mono (fun _ _ x => x) hC hv)
  exact ⟨h1, e.ok, e.wf, e.le, e.old⟩


end P2sh.Props.BcvVals
