import P2sh.Props.C13
import P2sh.Props.Chain
import P2sh.Props.ChainProg
import P2sh.Core.EncodeL
/-!
# C13 end to end: the line of the oracle's runtime error is the line the VM model reports

Three results existed side by side:

* `Props/C13.lean` (`fail_line`): if `Core.failLine g e = some L` (the reference evaluation of the
  line-annotated core expression `e` fails at a node on line `L`) the compiled code runs, on the
  Core machine, into a stuck instruction whose entry in the compiler's line table is `L`;
* `Props/RefCore.lean`: the oracle (`Spec/Ref.lean`) agrees with `Core.eval` -- but on an AST that
  carries ONE line on every node (`toAst nm ln`);
* `Props/Chain.lean` (`oracle_error_vm`): the oracle's runtime error is a runtime error of
  `Vm.run`, reported at `main.lines[pc]` -- without saying that this is the oracle's line.

This file connects them.

## expressions

* `toAstL nm : LExpr → Expr` -- the line-aware embedding: every AST node carries the line of the
  `LExpr` node (the inverse of the recogniser `Core.ofExprL`: `ofExprL_toAstL`); `annot ln`
  annotates a `CExpr` with the constant line `ln`, and `toAstL nm (annot ln e) = toAst nm ln e`,
  `erase (annot ln e) = e`: RefCore's embedding is the special case of one line;
* `main_coreL` re-runs RefCore's induction with the lines: `ref_value_coreL`, `ref_error_coreL`,
  `ref_no_jump_coreL` are RefCore's theorems for `toAstL` (lines do not influence values), and
* `oracle_error_line` -- **the oracle's `.rt l` is `failLine`'s `some l`**: the oracle and Core's
  line-aware failure analysis agree on WHICH construct fails (all fourteen constructors, `match`
  included; evaluation order: `<`/`<=` right to left, short circuit, one branch of `if`/`match`);
* `oracle_error_vm_line(_at)` -- composed with `C13.fail_line`, `Chain.eval_none_fails`,
  `CoreVm.steps_refine_bounded` and `Chain.fails_tick` (the stuck state of C13's run *is* the failing
  state of Chain's bounded run: `C13.stuck_unique`): `Vm.run` on the encoding of the line-aware
  compile, with the per-byte line table `Core.byteLines … (Core.lineTable e)`, ends in
  `.error (.err msg l)` with the oracle's `l` (or, exactly as in `Chain.oracle_error_vm`, in the
  panic "capacity overflow" when the code has a `Mul`; `oracle_error_vm_line_nomul`: no alternative);
* `oracle_exprstmt_error_vm_line` -- the same for the whole program `e;`.

## statements and programs (nothing partial: the whole fragment of `RefProg.wfP`)

* `toStmtL` / `toStmtsL` -- the line-aware embedding of `LStmt` (`Core.ofStmtsL` reads it back: checked
  on the examples by `rfl`, not proved in general);
* `main_coreGL` -- the expression induction once more, parametric in the relation (`RefProg.RelOps`),
  as `RefProg.main_coreG`; `expr_bridgeGL`: under RefProg's relation `GR`;
* `Sim`, `sim_expr`, `sim_stmts` -- **the oracle's outcome on two ASTs of the fragment that differ
  only in their lines differs only in the line carried by `.rt`** (no hypothesis on the
  environment): every value theorem of `RefProg` / `ChainProg` carries over (`ref_stmts_coreL`,
  `oracle_program_vm_L`), and `RefProg.all_okG` serves as a black box below;
* `FailL g item L`, `ref_stmts_failL` -- `ChainProg.Fail` / `ref_stmts_fail` with the line: the
  oracle's `.rt l` is a genuine failure of Core's evaluation, at a node on line `l`, after finitely
  many completed statements / loop iterations; `FailL.fail` forgets the line, `FailL.failLine`
  (with `failLine_mono`): `Core.failLineP fuel g ss = some l` for some fuel (`oracle_stmts_error_line`);
* `oracle_program_error_vm_line(_nomul)` -- composed with `C13.fail_line_program`,
  `ChainProg.fail_machine`, CoreVm: `Vm.run` on the encoded program with the compiler's line table
  `byteLines … (lineTableP ss)` ends in `.error (.err msg l)` with the oracle's `l`.

No disagreement between the oracle's line discipline and `Core.failLine` / `failLineP` was found (the
real p2sh reports the same lines on the examples below).  `failLine` also assigns lines to two
failures the oracle never reports as `.rt`: a range pattern against a scrutinee of another kind
(oracle: `unc`) and an assignment to a slot beyond the globals (excluded by `globalsBelow` / `wfP`).
-/
namespace P2sh.ChainLines
open P2sh P2sh.Ref
open P2sh.Core (LExpr LArms LPat CExpr CArms CPat UnOp erase eraseArms erasePat failLine failLineArms patsFailLine
  lineTable lineTableArms)
open P2sh.RefCore
open P2sh.Props.C09 (Agrees specOp binary_spec unary_spec)

/-! ## the line-aware embedding -/

/-- a pattern with the line of its token -/
def toPatL (p : LPat) : Pat := toPat p.line (erasePat p)

mutual
/-- every AST node carries the line of the `LExpr` node it comes from (for `gset`: the assigned
identifier carries it, as `ofExprL` reads it; the blocks of `if` / arm bodies, whose lines
`ofExprL` ignores, carry the line of the `if` / the arm) -/
def toAstL (nm : Nat → String) : LExpr → Expr
  | .lit l v => litAst l v
  | .tru l => .bool l true
  | .fls l => .bool l false
  | .null l => .null l
  | .un l op e => .unary l (unSym op) (toAstL nm e)
  | .bin l op a b => .binary l (binSym op) (toAstL nm a) (toAstL nm b)
  | .lt l a b => .binary l "<" (toAstL nm a) (toAstL nm b)
  | .le l a b => .binary l "<=" (toAstL nm a) (toAstL nm b)
  | .and l a b => .binary l "&&" (toAstL nm a) (toAstL nm b)
  | .or l a b => .binary l "||" (toAstL nm a) (toAstL nm b)
  | .ite l c t e => .ifE l (toAstL nm c) (exprBlock l (toAstL nm t)) (.els (exprBlock l (toAstL nm e)))
  | .gget l i => .ident l (nm i) .get
  | .gset l i e => .assign l (.ident l (nm i) .set) (toAstL nm e)
  | .matchE l s arms => .matchE l (toAstL nm s) (toArmsL nm arms)
def toArmsL (nm : Nat → String) : LArms → List Arm
  | .last la lp d => [.mk la [.pdef lp] (exprBlock la (toAstL nm d))]
  | .cons la pats body rest => .mk la (pats.map toPatL) (exprBlock la (toAstL nm body)) :: toArmsL nm rest
end

/-! ### RefCore's embedding is the special case of a constant line -/

def annotPat (ln : Nat) : CPat → LPat
  | .lit v => .lit ln v
  | .bool b => .bool ln b
  | .range incl lo hi => .range ln incl lo hi
  | .dflt => .dflt ln

mutual
/-- the same line on every node -/
def annot (ln : Nat) : CExpr → LExpr
  | .lit v => .lit ln v
  | .tru => .tru ln
  | .fls => .fls ln
  | .null => .null ln
  | .un op e => .un ln op (annot ln e)
  | .bin op a b => .bin ln op (annot ln a) (annot ln b)
  | .lt a b => .lt ln (annot ln a) (annot ln b)
  | .le a b => .le ln (annot ln a) (annot ln b)
  | .and a b => .and ln (annot ln a) (annot ln b)
  | .or a b => .or ln (annot ln a) (annot ln b)
  | .ite c t e => .ite ln (annot ln c) (annot ln t) (annot ln e)
  | .gget i => .gget ln i
  | .gset i e => .gset ln i (annot ln e)
  | .matchE s arms => .matchE ln (annot ln s) (annotArms ln arms)
def annotArms (ln : Nat) : CArms → LArms
  | .last d => .last ln ln (annot ln d)
  | .cons pats body rest => .cons ln (pats.map (annotPat ln)) (annot ln body) (annotArms ln rest)
end

theorem erasePat_annotPat (ln : Nat) (p : CPat) : erasePat (annotPat ln p) = p := by
  cases p <;> rfl

theorem toPatL_annotPat (ln : Nat) (p : CPat) : toPatL (annotPat ln p) = toPat ln p := by
  cases p <;> rfl

theorem map_erasePat_annotPat (ln : Nat) (ps : List CPat) : (ps.map (annotPat ln)).map erasePat = ps := by
  induction ps with
  | nil => rfl
  | cons p ps ih => simp [erasePat_annotPat, ih]

theorem map_toPatL_annotPat (ln : Nat) (ps : List CPat) : (ps.map (annotPat ln)).map toPatL = ps.map (toPat ln) := by
  induction ps with
  | nil => rfl
  | cons p ps ih => simp [toPatL_annotPat]

/-- forgetting the constant annotation gives the expression back -/
theorem erase_annot (ln : Nat) : ∀ e : CExpr, erase (annot ln e) = e := by
  intro e
  induction e with
  | lit | tru | fls | null | gget => simp [annot, erase]
  | un op a ih => simp [annot, erase, ih]
  | gset i a ih => simp [annot, erase, ih]
  | bin op a b iha ihb => simp [annot, erase, iha, ihb]
  | lt a b iha ihb => simp [annot, erase, iha, ihb]
  | le a b iha ihb => simp [annot, erase, iha, ihb]
  | and a b iha ihb => simp [annot, erase, iha, ihb]
  | or a b iha ihb => simp [annot, erase, iha, ihb]
  | ite c t e ihc iht ihe => simp [annot, erase, ihc, iht, ihe]
  | matchE s arms ihs iharms =>
    have : eraseArms (annotArms ln arms) = arms := by
      clear ihs
      induction arms using CArms.ind with
      | last d => simp only [CArms.All] at iharms; simp [annotArms, eraseArms, iharms]
      | cons pats body rest ih =>
        simp only [CArms.All] at iharms
        simp only [annotArms, eraseArms, iharms.1, ih iharms.2, map_erasePat_annotPat]
    simp [annot, erase, ihs, this]

/-- **`toAstL` and RefCore's `toAst` agree**: on the expression annotated with the one line `ln`,
the line-aware embedding is RefCore's -/
theorem toAstL_annot (nm : Nat → String) (ln : Nat) : ∀ e : CExpr, toAstL nm (annot ln e) = toAst nm ln e := by
  intro e
  induction e with
  | lit | tru | fls | null | gget => simp [annot, toAstL, toAst]
  | un op a ih => simp [annot, toAstL, toAst, ih]
  | gset i a ih => simp [annot, toAstL, toAst, ih]
  | bin op a b iha ihb => simp [annot, toAstL, toAst, iha, ihb]
  | lt a b iha ihb => simp [annot, toAstL, toAst, iha, ihb]
  | le a b iha ihb => simp [annot, toAstL, toAst, iha, ihb]
  | and a b iha ihb => simp [annot, toAstL, toAst, iha, ihb]
  | or a b iha ihb => simp [annot, toAstL, toAst, iha, ihb]
  | ite c t e ihc iht ihe => simp [annot, toAstL, toAst, ihc, iht, ihe]
  | matchE s arms ihs iharms =>
    have : toArmsL nm (annotArms ln arms) = toArms nm ln arms := by
      clear ihs
      induction arms using CArms.ind with
      | last d => simp only [CArms.All] at iharms; simp [annotArms, toArmsL, toArms, iharms]
      | cons pats body rest ih =>
        simp only [CArms.All] at iharms
        simp only [annotArms, toArmsL, toArms, iharms.1, ih iharms.2, map_toPatL_annotPat]
    simp [annot, toAstL, toAst, ihs, this]

theorem toAstL_not_call (nm : Nat → String) (e : LExpr) (l : Nat) (f : Expr) (args : List Expr) :
    toAstL nm e ≠ .call l f args := by
  cases e <;> simp [toAstL]
  case lit l' v => cases v <;> simp [litAst]

/-! ## outcomes, with the line of a runtime error -/

/-- `RefCore.Out` with a predicate on the line the oracle's runtime error carries -/
def OutL {α} (env : Env) (P : α → St → Prop) (E : Nat → Prop) : Except Err (R α) × St → Prop
  | (.ok (.val v env'), s') => env' = env ∧ P v s'
  | (.ok (.jump _ _), _) => False
  | (.error (.rt l), _) => E l
  | (.error _, _) => True

theorem outL_bindR {α β} {env : Env} {P : α → St → Prop} {E : Nat → Prop} {P' : β → St → Prop} {E' : Nat → Prop}
    {m : M (R α)} {k : α → Env → M (R β)} {s : St}
    (hm : OutL env P E (run m s)) (hE : ∀ l, E l → E' l)
    (hk : ∀ v s', P v s' → OutL env P' E' (run (k v env) s')) :
    OutL env P' E' (run (bindR m k) s) := by
  unfold bindR
  show OutL env P' E' ((m >>= _).run.run s)
  rw [P2sh.Props.RefBvars.run_bind]
  revert hm
  show OutL env P E (m.run.run s) → _
  rcases m.run.run s with ⟨er | (⟨v, env1⟩ | ⟨fl, env1⟩), s1⟩
  · cases er <;> intro h <;> first | exact hE _ h | trivial
  · rintro ⟨rfl, hp⟩; exact hk v s1 hp
  · intro h; exact h.elim

theorem OutL.mono {α} {env : Env} {P P' : α → St → Prop} {E E' : Nat → Prop} {o : Except Err (R α) × St}
    (hP : ∀ v s, P v s → P' v s) (hE : ∀ l, E l → E' l) (h : OutL env P E o) : OutL env P' E' o := by
  rcases o with ⟨er | (⟨v, env1⟩ | ⟨fl, env1⟩), s1⟩
  · cases er <;> first | exact hE _ h | exact True.intro
  · exact ⟨h.1, hP _ _ h.2⟩
  · exact h.elim

theorem outL_ofExpect {env : Env} {P : Val → St → Prop} {E : Nat → Prop} (l : Nat) (ex : Spec.Expect) (s : St)
    (hv : ∀ v, ex = .value v → P v s) (he : ex = .error → E l) :
    OutL env P E (run (ofExpect l ex >>= fun r => pure (.val r env)) s) := by
  cases ex
  · exact ⟨rfl, hv _ rfl⟩
  · exact he rfl
  · exact True.intro

/-- what `applyBinary line` on two scalars may do; a runtime error carries `line` -/
def OpOutL (line : Nat) (op : Operator) (l r : Val) (s : St) : Except Err Val × St → Prop
  | (.ok v, s') => s' = s ∧ execOperator op l r = .ok v ∧ isScalar v = true
  | (.error (.rt l'), _) => l' = line ∧ ∃ msg, execOperator op l r = .err msg
  | (.error _, _) => True

theorem opOutL_of_spec (line : Nat) (op : Operator) (l r : Val) (s : St)
    (hspec : Agrees (execOperator op l r) (Spec.binary (specOp op) l r))
    (hsc : ExpScalar (Spec.binary (specOp op) l r)) :
    OpOutL line op l r s (run (ofExpect line (Spec.binary (specOp op) l r) >>= fun v => reflectM v) s) := by
  revert hspec hsc
  generalize Spec.binary (specOp op) l r = ex
  intro hspec hsc
  cases ex with
  | value v =>
    have hsc' : isScalar v = true := hsc
    simp only [ofExpect, pure_bind, reflectM_scalar hsc']
    exact ⟨rfl, hspec, hsc'⟩
  | error => exact ⟨rfl, hspec⟩
  | any => exact True.intro

theorem run_applyBinaryL (line : Nat) (op : Operator) (l r : Val) (hl : isScalar l = true) (hr : isScalar r = true)
    (s : St) : OpOutL line op l r s (run (applyBinary line (specOp op) l r) s) := by
  have hsc := binary_scalar (specOp op) l r hl hr
  unfold applyBinary
  simp only [reifyM_scalar hl, reifyM_scalar hr, pure_bind]
  split
  · rename_i s0 n hop
    split
    · exact True.intro
    · rename_i hh
      refine opOutL_of_spec line op _ _ s (binary_spec op _ _ ?_) hsc
      rintro - ⟨-, s1, n1, (⟨h1, h2⟩ | ⟨h1, h2⟩), hb⟩
      · cases h1; cases h2; exact hh ((huge_iff _ _).mpr hb)
      · cases h1
  · rename_i n s0 hop
    split
    · exact True.intro
    · rename_i hh
      refine opOutL_of_spec line op _ _ s (binary_spec op _ _ ?_) hsc
      rintro - ⟨-, s1, n1, (⟨h1, h2⟩ | ⟨h1, h2⟩), hb⟩
      · cases h1
      · cases h1; cases h2; exact hh ((huge_iff _ _).mpr hb)
  · rename_i hn1 hn2
    refine opOutL_of_spec line op _ _ s (binary_spec op _ _ ?_) hsc
    rintro hop ⟨-, s1, n1, (⟨h1, h2⟩ | ⟨h1, h2⟩), hb⟩
    · subst hop h1 h2; exact hn1 _ _ rfl rfl rfl
    · subst hop h1 h2; exact hn2 _ _ rfl rfl rfl

theorem outL_applyBinary {env : Env} {P : Val → St → Prop} {E : Nat → Prop} (line : Nat) (op : Operator) (l r : Val) (s : St)
    (hl : isScalar l = true) (hr : isScalar r = true)
    (hv : ∀ v, execOperator op l r = .ok v → isScalar v = true → P v s)
    (he : (∃ msg, execOperator op l r = .err msg) → E line) :
    OutL env P E (run (applyBinary line (specOp op) l r >>= fun x => pure (.val x env)) s) := by
  have h := run_applyBinaryL line op l r hl hr s
  show OutL env P E ((applyBinary line (specOp op) l r >>= _).run.run s)
  rw [P2sh.Props.RefBvars.run_bind]
  revert h
  show OpOutL line op l r s ((applyBinary line (specOp op) l r).run.run s) → _
  rcases (applyBinary line (specOp op) l r).run.run s with ⟨er | v, s1⟩
  · cases er <;> intro h <;> first | (obtain ⟨rfl, h⟩ := h; exact he h) | exact True.intro
  · rintro ⟨rfl, h1, h2⟩; exact ⟨rfl, hv v h1 h2⟩

theorem outL_evalBranch {env : Env} {P : Val → St → Prop} {E : Nat → Prop} (f ln : Nat) (x : Expr) (s : St)
    (hx : ∀ l fn args, x = .call l fn args → False)
    (h : ∀ f', OutL ([] :: env) P E (run (evalE f' ([] :: env) x) s)) :
    OutL env P E (run (evalBranch f env (exprBlock ln x)) s) := by
  match f with
  | 0 => rw [evalBranch]; exact True.intro
  | 1 => rw [evalBranch, evalBlock]; exact True.intro
  | 2 => rw [evalBranch, evalBlock, evalStmts]; exact True.intro
  | 3 => rw [evalBranch, evalBlock, exprBlock, Block.stmts, evalStmts, evalStmt]; exact True.intro
  | f+4 =>
    rw [evalBranch, evalBlock, exprBlock, Block.stmts, evalStmts, evalStmt]
    case x_3 => exact hx
    simp only [bind_assoc]
    rw [run_bind]
    have := h f
    revert this
    rcases run (evalE f ([] :: env) x) s with ⟨er | (⟨v, env1⟩ | ⟨fl, env1⟩), s1⟩
    · cases er <;> intro h <;> first | exact h | exact True.intro
    · rintro ⟨rfl, hp⟩
      simp only [pure_bind]
      rw [evalStmts]
      · exact ⟨rfl, hp⟩
      · omega
    · intro h; exact h.elim

/-! ## `match`: the alternatives of one arm, each pattern with its own line -/

theorem run_hitLoopL (v : Val) (s : St) :
    ∀ (ps : List LPat) (hit0 : Bool), HitOut hit0 v (ps.map erasePat) s (run (hitLoop hit0 v (ps.map toPatL)) s)
  | [], hit0 => by
    rw [List.map_nil, List.map_nil, hitLoop_nil]
    cases hit0 <;> exact ⟨rfl, rfl⟩
  | p :: ps, hit0 => by
    rw [List.map_cons, List.map_cons, hitLoop_cons, run_bind]
    cases hit0 with
    | true =>
      have := run_hitLoopL v s ps true
      simp only [if_true, run_pure]
      revert this
      rcases run (hitLoop true v (ps.map toPatL)) s with ⟨er | b', s2⟩
      · exact id
      · rintro ⟨rfl, hb⟩; exact ⟨rfl, hb⟩
    | false =>
      have hp := run_patMatches p.line v (erasePat p) s
      revert hp
      simp only [Bool.false_eq_true, if_false]
      show PatOut v (erasePat p) s (run (patMatches v (toPatL p)) s) → _
      rcases run (patMatches v (toPatL p)) s with ⟨er | b, s1⟩
      · cases er <;> intro h <;> first | exact h.elim | exact True.intro
      · rintro ⟨rfl, hpt⟩
        have := run_hitLoopL v s1 ps b
        revert this
        show HitOut b v (ps.map erasePat) s1 (run (hitLoop b v (ps.map toPatL)) s1) →
          HitOut false v (erasePat p :: ps.map erasePat) s1 (run (hitLoop b v (ps.map toPatL)) s1)
        rcases run (hitLoop b v (ps.map toPatL)) s1 with ⟨er | b', s2⟩
        · cases er <;> exact id
        · rintro ⟨rfl, hb⟩
          refine ⟨rfl, ?_⟩
          cases b with
          | true =>
            simp only [if_true] at hb
            simp [Core.patsTest, hpt, hb]
          | false =>
            simp only [Bool.false_eq_true, if_false] at hb ⊢
            simp [Core.patsTest, hpt, hb]

theorem outL_bind_hit {env : Env} {P : Val → St → Prop} {E : Nat → Prop} {hit0 : Bool} {v : Val} {cps : List CPat} {s : St}
    {m : M Bool} {K : Bool → M (R Val)} (h : HitOut hit0 v cps s (run m s))
    (hk : ∀ b, (if hit0 then b = true else Core.patsTest v cps = some b) → OutL env P E (run (K b) s)) :
    OutL env P E (run (m >>= K) s) := by
  rw [run_bind]
  revert h
  rcases run m s with ⟨er | b, s1⟩
  · cases er <;> intro h <;> first | exact h.elim | exact True.intro
  · rintro ⟨rfl, hb⟩; exact hk b hb

/-! ## the statement proved by induction -/

/-- what is proved of one run of the oracle on `toAstL nm e`: a value is Core's value (states
related, environment unchanged) -- `RefCore.Post` --, a jump does not occur, and **a runtime error
`.rt l` carries the line `failLine` computes** -/
def PostL (env : Env) (st : St) (g : List Val) (ev : Option (Val × List Val)) (fl : Option Nat) :
    Except Err (R Val) × St → Prop :=
  OutL env (ValOK st g ev) (fun l => fl = some l)

def MainL (nm : Nat → String) (e : LExpr) : Prop :=
  ∀ fuel env st g, EnvRel nm env st g → globalsBelow g.length (erase e) = true →
    PostL env st g (Core.eval g (erase e)) (failLine g e) (run (evalE fuel env (toAstL nm e)) st)

def ArmsMainL (nm : Nat → String) (arms : LArms) : Prop :=
  ∀ fuel env st g v, EnvRel nm env st g → isScalar v = true → globalsBelowArms g.length (eraseArms arms) = true →
    PostL env st g (Core.evalArms g v (eraseArms arms)) (failLineArms g v arms)
      (run (evalArms fuel env v (toArmsL nm arms)) st)

/-- continue after a first part that led from `g` to `g1` -/
theorem postL_trans {env' : Env} {st : St} {g g1 : List Val} {ev ev' : Option (Val × List Val)} {fl fl' : Option Nat}
    {o : Except Err (R Val) × St} (hl1 : g1.length = g.length) (hev : ev = ev') (hfl : fl = fl')
    (h : PostL env' { st with cells := g1 } g1 ev' fl' o) : PostL env' st g ev fl o := by
  subst hev hfl
  refine OutL.mono ?_ (fun _ h => h) h
  rintro v s ⟨hv, g', he, rfl, hl, hs⟩
  exact ⟨hv, g', he, rfl, hl.trans hl1, hs⟩

theorem failLine_none {g : List Val} {e : LExpr} {L : Nat} (h : failLine g e = some L) : Core.eval g (erase e) = none :=
  (Core.failLine_iff g e).1 ⟨L, h⟩

/-- the shape shared by `a op b`, `a < b`, `a <= b` (`x` is evaluated first) -/
theorem main_binopL {nm} (op : Operator) (x y e : LExpr) (ihx : MainL nm x) (ihy : MainL nm y)
    (line f : Nat) (env : Env) (st : St) (g : List Val) (hr : EnvRel nm env st g)
    (hfx : globalsBelow g.length (erase x) = true) (hfy : globalsBelow g.length (erase y) = true)
    (h3 : ∀ vx g1 vy g2 r, Core.eval g (erase x) = some (vx, g1) → Core.eval g1 (erase y) = some (vy, g2) →
      execOperator op vx vy = .ok r → Core.eval g (erase e) = some (r, g2))
    (f1 : ∀ L, Core.eval g (erase x) = none → failLine g x = some L → failLine g e = some L)
    (f2 : ∀ vx g1 L, Core.eval g (erase x) = some (vx, g1) → Core.eval g1 (erase y) = none →
      failLine g1 y = some L → failLine g e = some L)
    (f4 : ∀ vx g1 vy g2 msg, Core.eval g (erase x) = some (vx, g1) → Core.eval g1 (erase y) = some (vy, g2) →
      execOperator op vx vy = .err msg → failLine g e = some line) :
    PostL env st g (Core.eval g (erase e)) (failLine g e) (run (bindR (evalE f env (toAstL nm x)) fun vx env =>
      bindR (evalE f env (toAstL nm y)) fun vy env =>
        applyBinary line (specOp op) vx vy >>= fun r => pure (.val r env)) st) := by
  refine outL_bindR (ihx f env st g hr hfx) (fun L h => f1 L (failLine_none h) h) ?_
  rintro vx s1 ⟨hvx, g1, hex, rfl, hl1, hs1⟩
  have hr1 := hr.step hl1 hs1
  refine outL_bindR (ihy f env _ g1 hr1 (hl1 ▸ hfy)) (fun L h => f2 vx g1 L hex (failLine_none h) h) ?_
  rintro vy s2 ⟨hvy, g2, hey, rfl, hl2, hs2⟩
  refine outL_applyBinary line op vx vy _ hvx hvy ?_ ?_
  · intro r hop hrs
    exact ⟨hrs, g2, h3 _ _ _ _ _ hex hey hop, rfl, hl2.trans hl1, hs2⟩
  · rintro ⟨msg, hop⟩
    exact f4 _ _ _ _ _ hex hey hop

macro "binopL_side" : tactic => `(tactic| (intros; simp only [Core.eval, Core.erase, Core.failLine, *]))

theorem main_armsL (nm : Nat → String) : ∀ arms : LArms, arms.All (MainL nm) → ArmsMainL nm arms := by
  intro arms
  induction arms using LArms.ind with
  | last la lp d =>
    intro hall fuel env st g v hr hv hf
    simp only [LArms.All] at hall
    simp only [eraseArms, globalsBelowArms] at hf
    cases fuel with
    | zero => rw [evalArms_zero]; exact True.intro
    | succ f =>
      rw [toArmsL, evalArms_cons]
      refine outL_bind_hit (run_hitLoopL v st [.dflt lp] false) ?_
      intro b hb
      have hb' : b = true := by simpa [Core.patsTest, Core.patTest, erasePat] using hb.symm
      subst hb'
      simp only [if_true]
      rw [show Core.evalArms g v (eraseArms (.last la lp d)) = Core.eval g (erase d) by simp only [eraseArms, Core.evalArms],
        show failLineArms g v (.last la lp d) = failLine g d by simp only [failLineArms]]
      exact outL_evalBranch f la _ _ (fun l fn args h => toAstL_not_call nm d l fn args h) fun f' =>
        hall f' _ _ g hr.push hf
  | cons la pats body rest ih =>
    intro hall fuel env st g v hr hv hf
    simp only [LArms.All] at hall
    simp only [eraseArms, globalsBelowArms, Bool.and_eq_true] at hf
    cases fuel with
    | zero => rw [evalArms_zero]; exact True.intro
    | succ f =>
      rw [toArmsL, evalArms_cons]
      refine outL_bind_hit (run_hitLoopL v st pats false) ?_
      intro b hb
      simp only [Bool.false_eq_true, if_false] at hb
      cases b with
      | true =>
        simp only [if_true]
        rw [show Core.evalArms g v (eraseArms (.cons la pats body rest)) = Core.eval g (erase body) by
            simp only [eraseArms, Core.evalArms, hb],
          show failLineArms g v (.cons la pats body rest) = failLine g body by simp only [failLineArms, hb]]
        exact outL_evalBranch f la _ _ (fun l fn args h => toAstL_not_call nm body l fn args h) fun f' =>
          hall.1 f' _ _ g hr.push hf.1
      | false =>
        simp only [Bool.false_eq_true, if_false]
        rw [show Core.evalArms g v (eraseArms (.cons la pats body rest)) = Core.evalArms g v (eraseArms rest) by
            simp only [eraseArms, Core.evalArms, hb],
          show failLineArms g v (.cons la pats body rest) = failLineArms g v rest by simp only [failLineArms, hb]]
        exact ih hall.2 f env st g v hr hv hf.2

theorem main_coreL (nm : Nat → String) : ∀ e, MainL nm e := by
  intro e
  induction e with
  | lit l v =>
    intro fuel env st g hr _
    cases fuel with
    | zero => rw [evalE_zero]; exact True.intro
    | succ f =>
      rw [toAstL, evalE_lit]
      cases hc : isLit v with
      | true => exact ⟨rfl, isLit_scalar hc, g, rfl, st_self hr.cells, rfl, hr.scalars⟩
      | false => exact True.intro
  | tru l =>
    intro fuel env st g hr _
    cases fuel with
    | zero => rw [evalE_zero]; exact True.intro
    | succ f => rw [toAstL, evalE_bool]; exact ⟨rfl, rfl, g, rfl, st_self hr.cells, rfl, hr.scalars⟩
  | fls l =>
    intro fuel env st g hr _
    cases fuel with
    | zero => rw [evalE_zero]; exact True.intro
    | succ f => rw [toAstL, evalE_bool]; exact ⟨rfl, rfl, g, rfl, st_self hr.cells, rfl, hr.scalars⟩
  | null l =>
    intro fuel env st g hr _
    cases fuel with
    | zero => rw [evalE_zero]; exact True.intro
    | succ f => rw [toAstL, evalE_null]; exact ⟨rfl, rfl, g, rfl, st_self hr.cells, rfl, hr.scalars⟩
  | un l op a ih =>
    intro fuel env st g hr hf
    cases fuel with
    | zero => rw [evalE_zero]; exact True.intro
    | succ f =>
      rw [toAstL, evalE_un]
      simp only [erase, globalsBelow] at hf
      refine outL_bindR (ih f env st g hr hf)
        (fun L h => by have h0 := failLine_none h; simp only [failLine, h0, h]) ?_
      rintro v s1 ⟨hv, g1, he, rfl, hl1, hs1⟩
      rw [reifyM_scalar hv, pure_bind]
      have hspec := unary_spec (specUn op) v
      have hes := unary_scalar (specUn op) v
      refine outL_ofExpect l _ _ ?_ ?_
      · intro r hx
        rw [hx] at hspec hes
        have h1 : Core.applyUn op v = .ok r := by rw [applyUn_eq]; exact hspec
        exact ⟨hes, g1, by simp only [erase, Core.eval, he, h1], rfl, hl1, hs1⟩
      · intro hx
        rw [hx] at hspec
        obtain ⟨msg, hm⟩ := hspec
        have h1 : Core.applyUn op v = .err msg := by rw [applyUn_eq]; exact hm
        simp only [failLine, he, h1]
  | bin l op a b iha ihb =>
    intro fuel env st g hr hf
    cases fuel with
    | zero => rw [evalE_zero]; exact True.intro
    | succ f =>
      rw [toAstL, evalE_bin]
      simp only [erase, globalsBelow, Bool.and_eq_true] at hf
      exact main_binopL op a b _ iha ihb l f env st g hr hf.1 hf.2 (by binopL_side) (by binopL_side) (by binopL_side)
        (by binopL_side)
  | lt l a b iha ihb =>
    intro fuel env st g hr hf
    cases fuel with
    | zero => rw [evalE_zero]; exact True.intro
    | succ f =>
      rw [toAstL, evalE_lt]
      simp only [erase, globalsBelow, Bool.and_eq_true] at hf
      exact main_binopL .greater b a _ ihb iha l f env st g hr hf.2 hf.1 (by binopL_side) (by binopL_side) (by binopL_side)
        (by binopL_side)
  | le l a b iha ihb =>
    intro fuel env st g hr hf
    cases fuel with
    | zero => rw [evalE_zero]; exact True.intro
    | succ f =>
      rw [toAstL, evalE_le]
      simp only [erase, globalsBelow, Bool.and_eq_true] at hf
      exact main_binopL .greaterEq b a _ ihb iha l f env st g hr hf.2 hf.1 (by binopL_side) (by binopL_side) (by binopL_side)
        (by binopL_side)
  | and l a b iha ihb =>
    intro fuel env st g hr hf
    cases fuel with
    | zero => rw [evalE_zero]; exact True.intro
    | succ f =>
      rw [toAstL, evalE_and]
      simp only [erase, globalsBelow, Bool.and_eq_true] at hf
      refine outL_bindR (iha f env st g hr hf.1)
        (fun L h => by have h0 := failLine_none h; simp only [failLine, h0, h]) ?_
      rintro va s1 ⟨hva, g1, hea, rfl, hl1, hs1⟩
      rw [truthy_scalar hva, pure_bind, ← P2sh.Props.C06.falsey_table]
      cases hfal : va.isFalsey with
      | true =>
        simp only [Bool.not_true, Bool.false_eq_true, if_false]
        exact ⟨rfl, hva, g1, by simp only [erase, Core.eval, hea, hfal, if_true], rfl, hl1, hs1⟩
      | false =>
        simp only [Bool.not_false, if_true]
        exact postL_trans hl1 (by simp [erase, Core.eval, hea, hfal]) (by simp [failLine, hea, hfal])
          (ihb f env _ g1 (hr.step hl1 hs1) (hl1 ▸ hf.2))
  | or l a b iha ihb =>
    intro fuel env st g hr hf
    cases fuel with
    | zero => rw [evalE_zero]; exact True.intro
    | succ f =>
      rw [toAstL, evalE_or]
      simp only [erase, globalsBelow, Bool.and_eq_true] at hf
      refine outL_bindR (iha f env st g hr hf.1)
        (fun L h => by have h0 := failLine_none h; simp only [failLine, h0, h]) ?_
      rintro va s1 ⟨hva, g1, hea, rfl, hl1, hs1⟩
      rw [truthy_scalar hva, pure_bind, ← P2sh.Props.C06.falsey_table]
      cases hfal : va.isFalsey with
      | true =>
        simp only [Bool.not_true, Bool.false_eq_true, if_false]
        exact postL_trans hl1 (by simp [erase, Core.eval, hea, hfal]) (by simp [failLine, hea, hfal])
          (ihb f env _ g1 (hr.step hl1 hs1) (hl1 ▸ hf.2))
      | false =>
        simp only [Bool.not_false, if_true]
        exact ⟨rfl, hva, g1, by simp [erase, Core.eval, hea, hfal], rfl, hl1, hs1⟩
  | ite l c t e ihc iht ihe =>
    intro fuel env st g hr hf
    cases fuel with
    | zero => rw [evalE_zero]; exact True.intro
    | succ f =>
      rw [toAstL, evalE_ite]
      simp only [erase, globalsBelow, Bool.and_eq_true] at hf
      refine outL_bindR (ihc f env st g hr hf.1.1)
        (fun L h => by have h0 := failLine_none h; simp only [failLine, h0, h]) ?_
      rintro vc s1 ⟨hvc, g1, hec, rfl, hl1, hs1⟩
      rw [truthy_scalar hvc, pure_bind, ← P2sh.Props.C06.falsey_table]
      have hr1 := (hr.step hl1 hs1).push
      cases hfal : vc.isFalsey with
      | true =>
        simp only [Bool.not_true, Bool.false_eq_true, if_false]
        exact outL_evalBranch f l _ _ (fun l fn args h => toAstL_not_call nm e l fn args h) fun f' =>
          postL_trans hl1 (by simp [erase, Core.eval, hec, hfal]) (by simp [failLine, hec, hfal])
            (ihe f' _ _ g1 hr1 (hl1 ▸ hf.2))
      | false =>
        simp only [Bool.not_false, if_true]
        exact outL_evalBranch f l _ _ (fun l fn args h => toAstL_not_call nm t l fn args h) fun f' =>
          postL_trans hl1 (by simp [erase, Core.eval, hec, hfal]) (by simp [failLine, hec, hfal])
            (iht f' _ _ g1 hr1 (hl1 ▸ hf.1.2))
  | gget l i =>
    intro fuel env st g hr hf
    cases fuel with
    | zero => rw [evalE_zero]; exact True.intro
    | succ f =>
      simp only [erase, globalsBelow, decide_eq_true_eq] at hf
      rw [toAstL, evalE_gget _ _ _ _ _ i (hr.bound i hf), run_getCell_bind, hr.cells]
      have hsc := getD_scalar hr.scalars i
      rw [not_poison _ hsc]
      exact ⟨rfl, hsc, g, rfl, st_self hr.cells, rfl, hr.scalars⟩
  | gset l i e ih =>
    intro fuel env st g hr hf
    cases fuel with
    | zero => rw [evalE_zero]; exact True.intro
    | succ f =>
      simp only [erase, globalsBelow, Bool.and_eq_true, decide_eq_true_eq] at hf
      rw [toAstL, evalE_gset]
      refine outL_bindR (ih f env st g hr hf.2)
        (fun L h => by have h0 := failLine_none h; simp only [failLine, h0, h]) ?_
      rintro v s1 ⟨hv, g1, he, rfl, hl1, hs1⟩
      rw [assignIdent_g (hr.bound i hf.1), run_setCell_bind]
      have hi : i < g1.length := hl1 ▸ hf.1
      exact ⟨rfl, hv, g1.set i v, by simp only [erase, Core.eval, he, hi, if_true], rfl,
        by rw [List.length_set]; exact hl1, set_scalar hs1 i hv⟩
  | matchE l s arms ihs iharms =>
    intro fuel env st g hr hf
    cases fuel with
    | zero => rw [evalE_zero]; exact True.intro
    | succ f =>
      rw [toAstL, evalE_match]
      simp only [erase, globalsBelow, Bool.and_eq_true] at hf
      refine outL_bindR (ihs f env st g hr hf.1)
        (fun L h => by have h0 := failLine_none h; simp only [failLine, h0, h]) ?_
      rintro v s1 ⟨hv, g1, hes, rfl, hl1, hs1⟩
      rw [reifyM_scalar hv, pure_bind]
      exact postL_trans hl1 (by simp only [erase, Core.eval, hes]) (by simp only [failLine, hes])
        (main_armsL nm arms iharms f env _ g1 v (hr.step hl1 hs1) hv (hl1 ▸ hf.2))


/-! ## the theorems about the oracle on `toAstL` -/

/-- **the oracle's value is Core's value** (RefCore's `ref_value_core` for the line-aware embedding:
the lines do not influence the value) -/
theorem ref_value_coreL {nm : Nat → String} {e : LExpr} {fuel : Nat} {env env' : Env} {st st' : St}
    {g : List Val} {v : Val} (hr : EnvRel nm env st g) (hf : globalsBelow g.length (erase e) = true)
    (h : run (evalE fuel env (toAstL nm e)) st = (.ok (.val v env'), st')) :
    ∃ g', Core.eval g (erase e) = some (v, g') ∧ env' = env ∧ st' = { st with cells := g' } ∧ EnvRel nm env' st' g' := by
  have hm := main_coreL nm e fuel env st g hr hf
  rw [h] at hm
  obtain ⟨rfl, -, g', he, rfl, hl, hs⟩ := hm
  exact ⟨g', he, rfl, rfl, hr.step hl hs⟩

/-- a core expression never leaves through `break`/`continue`/`return` -/
theorem ref_no_jump_coreL {nm : Nat → String} {e : LExpr} {fuel : Nat} {env env' : Env} {st st' : St}
    {g : List Val} {fl : Flow} (hr : EnvRel nm env st g) (hf : globalsBelow g.length (erase e) = true) :
    run (evalE fuel env (toAstL nm e)) st ≠ (.ok (.jump fl env'), st') := by
  intro h
  have hm := main_coreL nm e fuel env st g hr hf
  rw [h] at hm
  exact hm

/-- **the oracle and `failLine` agree on which construct fails.**  If the oracle, run on the
line-annotated AST of `e`, raises the runtime error `.rt l`, then Core's line-aware failure
analysis (`Core.failLine`: the line of the node whose own operation fails, in evaluation order)
yields the same line `l`.  All fourteen constructors. -/
theorem oracle_error_line {nm : Nat → String} {e : LExpr} {fuel : Nat} {env : Env} {st st' : St}
    {g : List Val} {l : Nat} (hr : EnvRel nm env st g) (hf : globalsBelow g.length (erase e) = true)
    (h : run (evalE fuel env (toAstL nm e)) st = (.error (.rt l), st')) :
    failLine g e = some l := by
  have hm := main_coreL nm e fuel env st g hr hf
  rw [h] at hm
  exact hm

/-- … in particular Core's evaluation is a runtime error (RefCore's `ref_error_core`) -/
theorem ref_error_coreL {nm : Nat → String} {e : LExpr} {fuel : Nat} {env : Env} {st st' : St}
    {g : List Val} {l : Nat} (hr : EnvRel nm env st g) (hf : globalsBelow g.length (erase e) = true)
    (h : run (evalE fuel env (toAstL nm e)) st = (.error (.rt l), st')) :
    Core.eval g (erase e) = none := failLine_none (oracle_error_line hr hf h)

/-- RefCore's `ref_error_core` is the instance `annot ln e`; there the line is `ln` -/
theorem oracle_error_line_const {nm : Nat → String} {ln : Nat} {e : CExpr} {fuel : Nat} {env : Env} {st st' : St}
    {g : List Val} {l : Nat} (hr : EnvRel nm env st g) (hf : globalsBelow g.length e = true)
    (h : run (evalE fuel env (toAst nm ln e)) st = (.error (.rt l), st')) :
    failLine g (annot ln e) = some l := by
  rw [← toAstL_annot] at h
  exact oracle_error_line hr (by rw [erase_annot]; exact hf) h

/-! ## down to the VM model -/

section Vm
open P2sh.Core (Instr codeAt poolAt compile consts encode fitsI fetch lineAt byteLines compileP constsP bytes)
open P2sh.CoreVm (scalar)

/-- the error direction for code `C` that begins with the code of `e` (pool `K` beginning with its
constants), any line table `main.lines` that agrees with the compiler's on the code of `e`:
see `oracle_error_vm_line` -/
theorem oracle_error_vm_line_at {nm : Nat → String} {e : LExpr} {fuel : Nat} {env : Env}
    {st st' : St} {n l : Nat} {C : List Instr} {K : List Val}
    (hr : EnvRel nm env st (List.replicate n .null)) (hf : globalsBelow n (erase e) = true)
    (h : run (evalE fuel env (toAstL nm e)) st = (.error (.rt l), st'))
    (hc : codeAt C 0 (compile 0 0 (erase e))) (hp : poolAt K 0 (consts (erase e)))
    (main : FnDef) (hcode : main.code = encode C) (hlines : main.code.length ≤ main.lines.length)
    (hL : ∀ pc L, lineAt (compile 0 0 (erase e)) (lineTable e) pc = some L → main.lines[pc]? = some L)
    (hK : ∀ c ∈ K, scalar c = true) (hn : n ≤ P2sh.Gen.Limits.GLOBALS_SIZE)
    (hfit : C.all fitsI = true) (hd : Chain.depth (erase e) ≤ Vm.stackSize) :
    ∃ fuelV vs' r, Vm.run main K fuelV = (.error r, vs') ∧
      ((∃ msg pc, r = .err msg l ∧ main.lines[pc]? = some l ∧ (fetch C pc).isSome = true) ∨
        (r = .panic "capacity overflow" ∧ ∃ pc, fetch C pc = some (.op .mul))) := by
  have hf' : globalsBelow (List.replicate n Val.null).length (erase e) = true := by simpa using hf
  have hfl := oracle_error_line hr hf' h
  have he := failLine_none hfl
  obtain ⟨s, hs, hF⟩ := Chain.eval_none_fails (erase e) C K 0 0 [] _ Vm.stackSize hc hp he hf' (by simpa using hd)
  -- the stuck state of C13's run is the failing state: the machine is deterministic
  obtain ⟨st1, off, h1, h2, h3, -, -, h6⟩ := P2sh.Props.C13.fail_line e C K 0 0 [] _ l hc hp hfl
  have hst : s = st1 := P2sh.Props.C13.stuck_unique hs.steps (hF.stuck (K := K)) h1 h2
  have hline : main.lines[s.pc]? = some l := by
    rw [hst, h3, Nat.zero_add]
    exact hL off l h6
  obtain ⟨vs1, hv, R1, hm1⟩ := CoreVm.steps_refine_bounded (CoreVm.rel_init main n hcode hlines hK hn) hfit hs
  obtain ⟨r, vs', het, hdis⟩ := Chain.fails_tick R1 hF
  obtain ⟨m, hm⟩ := hv.fuel 1
  refine ⟨m + 1, vs', r, ?_, ?_⟩
  · show P2sh.Props.BcvWp.exec (Vm.runLoop (m + 1)) (Vm.initState main K) = _
    rw [hm, P2sh.Props.Bcv.exec_runLoop_succ, het]
  · rcases hdis with ⟨msg, line, f, rfl, hfr, hl⟩ | ⟨rfl, hmul⟩
    · have hfn : f.fn = main := by
        have : some f.fn = some main := by simpa [CoreVm.mainFn, hfr, Vm.initState] using hm1
        exact Option.some.inj this
      rw [hfn, hline] at hl
      cases hl
      exact .inl ⟨msg, s.pc, rfl, hline, hF.fetch⟩
    · exact .inr ⟨rfl, s.pc, hmul⟩

/-- **C13 end to end, expressions.**  `main.code` is the encoding of the line-aware compile of `e`
(= `compile 0 0 (erase e)`), `main.lines` the per-byte line table the compiler records for it
(`byteLines … (lineTable e)`: `Instructions.lines`), the pool its constants; `n` null globals
related to the oracle's state.  If the oracle, run on the line-annotated AST `toAstL nm e`, raises
the runtime error `.rt l`, then `Vm.run` ends in the runtime error `.err msg l` **with the same
line `l`** (it is `main.lines[pc]` for the `pc` of an instruction of the code) -- or, only if the
code contains a `Mul` instruction, in the panic "capacity overflow" (the alternative of
`Chain.oracle_error_vm`, kept as there; `oracle_error_vm_line_nomul` excludes it). -/
theorem oracle_error_vm_line {nm : Nat → String} {e : LExpr} {fuel : Nat} {env : Env}
    {st st' : St} {n l : Nat}
    (hr : EnvRel nm env st (List.replicate n .null)) (hf : globalsBelow n (erase e) = true)
    (h : run (evalE fuel env (toAstL nm e)) st = (.error (.rt l), st'))
    (main : FnDef) (hcode : main.code = encode (compile 0 0 (erase e)))
    (hlines : main.lines = byteLines (compile 0 0 (erase e)) (lineTable e))
    (hK : ∀ c ∈ consts (erase e), scalar c = true) (hn : n ≤ P2sh.Gen.Limits.GLOBALS_SIZE)
    (hfit : (compile 0 0 (erase e)).all fitsI = true) (hd : Chain.depth (erase e) ≤ Vm.stackSize) :
    ∃ fuelV vs' r, Vm.run main (consts (erase e)) fuelV = (.error r, vs') ∧
      ((∃ msg pc, r = .err msg l ∧ main.lines[pc]? = some l ∧ (fetch (compile 0 0 (erase e)) pc).isSome = true) ∨
        (r = .panic "capacity overflow" ∧ ∃ pc, fetch (compile 0 0 (erase e)) pc = some (.op .mul))) := by
  refine oracle_error_vm_line_at hr hf h (Chain.codeAt_self _) (Chain.poolAt_self _) main hcode ?_ ?_ hK hn hfit hd
  · rw [hcode, hlines, CoreVm.encode_length, Core.byteLines_length _ _ (Core.lineTable_length 0 0 e)]
    exact Nat.le_refl _
  · intro pc L hl
    rw [hlines]
    exact Core.lineAt_byteLines hl

/-- without `*` in the code: no alternative -/
theorem oracle_error_vm_line_nomul {nm : Nat → String} {e : LExpr} {fuel : Nat} {env : Env}
    {st st' : St} {n l : Nat}
    (hr : EnvRel nm env st (List.replicate n .null)) (hf : globalsBelow n (erase e) = true)
    (h : run (evalE fuel env (toAstL nm e)) st = (.error (.rt l), st'))
    (main : FnDef) (hcode : main.code = encode (compile 0 0 (erase e)))
    (hlines : main.lines = byteLines (compile 0 0 (erase e)) (lineTable e))
    (hK : ∀ c ∈ consts (erase e), scalar c = true) (hn : n ≤ P2sh.Gen.Limits.GLOBALS_SIZE)
    (hfit : (compile 0 0 (erase e)).all fitsI = true) (hd : Chain.depth (erase e) ≤ Vm.stackSize)
    (hmul : (compile 0 0 (erase e)).all (fun i => !Chain.isMul i) = true) :
    ∃ fuelV vs' msg, Vm.run main (consts (erase e)) fuelV = (.error (.err msg l), vs') := by
  obtain ⟨fuelV, vs', r, hrun, hdis⟩ := oracle_error_vm_line hr hf h main hcode hlines hK hn hfit hd
  rcases hdis with ⟨msg, pc, rfl, -, -⟩ | ⟨-, pc, hfe⟩
  · exact ⟨fuelV, vs', msg, hrun⟩
  · have hmem := CoreVm.fetch_mem _ _ _ hfe
    have := (List.all_eq_true.mp hmul) _ hmem
    simp [Chain.isMul] at this

/-- **C13 end to end, the whole program `e;`** on line `ls` (the layout of `Driver/CoreDrv.lean`:
`compileP 0 0 [] [.expr e] = compile 0 0 e ++ [Pop]`, line table `lineTableP`) -/
theorem oracle_exprstmt_error_vm_line {nm : Nat → String} {e : LExpr} {ls fuel : Nat} {env : Env}
    {st st' : St} {n l : Nat}
    (hr : EnvRel nm env st (List.replicate n .null)) (hf : globalsBelow n (erase e) = true)
    (h : run (evalE fuel env (toAstL nm e)) st = (.error (.rt l), st'))
    (main : FnDef) (hcode : main.code = encode (compileP 0 0 [] (Core.eraseP [.expr ls e])))
    (hlines : main.lines = byteLines (compileP 0 0 [] (Core.eraseP [.expr ls e])) (Core.lineTableP [.expr ls e]))
    (hK : ∀ c ∈ constsP (Core.eraseP [.expr ls e]), scalar c = true) (hn : n ≤ P2sh.Gen.Limits.GLOBALS_SIZE)
    (hfit : (compileP 0 0 [] (Core.eraseP [.expr ls e])).all fitsI = true) (hd : Chain.depth (erase e) ≤ Vm.stackSize) :
    ∃ fuelV vs' r, Vm.run main (constsP (Core.eraseP [.expr ls e])) fuelV = (.error r, vs') ∧
      ((∃ msg pc, r = .err msg l ∧ main.lines[pc]? = some l ∧
          (fetch (compileP 0 0 [] (Core.eraseP [.expr ls e])) pc).isSome = true) ∨
        (r = .panic "capacity overflow" ∧ ∃ pc, fetch (compileP 0 0 [] (Core.eraseP [.expr ls e])) pc = some (.op .mul))) := by
  have hC : compileP 0 0 [] (Core.eraseP [.expr ls e]) = compile 0 0 (erase e) ++ [.pop] := by
    simp [Core.eraseP, Core.eraseS, Core.compileP, Core.compileS]
  have hKe : constsP (Core.eraseP [.expr ls e]) = consts (erase e) := by
    simp [Core.eraseP, Core.eraseS, Core.constsP, Core.constsS]
  have hT : Core.lineTableP [.expr ls e] = lineTable e ++ [ls] := by
    simp [Core.lineTableP, Core.lineTableS]
  simp only [hC, hKe, hT] at hcode hK hfit hlines ⊢
  refine oracle_error_vm_line_at hr hf h ⟨[], [.pop], by simp, rfl⟩ (Chain.poolAt_self _) main hcode ?_ ?_ hK hn hfit hd
  · rw [hcode, hlines, CoreVm.encode_length, Core.byteLines_length]
    · exact Nat.le_refl _
    · simp [Core.lineTable_length 0 0 e]
  · intro pc L hl
    rw [hlines]
    exact Core.lineAt_byteLines (Core.lineAt_append_left hl)

end Vm


/-! # statements and programs

## expressions again, parametric in the relation (`RefProg.RelOps`; `RefProg.main_coreG` with lines) -/

section ExprG
open P2sh.RefProg (RelOps globalsSat globalsSatArms ValOKG)
variable {nm : Nat → String} {P : Nat → Bool} {Rl : Env → St → List Val → Prop} (ops : RelOps nm P Rl)

def PostGL (Rl : Env → St → List Val → Prop) (env : Env) (ev : Option (Val × List Val)) (fl : Option Nat) :
    Except Err (Ref.R Val) × St → Prop :=
  OutL env (ValOKG Rl env ev) (fun l => fl = some l)

def MainGL (nm : Nat → String) (P : Nat → Bool) (Rl : Env → St → List Val → Prop) (e : LExpr) : Prop :=
  ∀ fuel env st g, Rl env st g → globalsSat P (erase e) = true →
    PostGL Rl env (Core.eval g (erase e)) (failLine g e) (run (evalE fuel env (toAstL nm e)) st)

theorem postGL_eq {env : Env} {ev ev' : Option (Val × List Val)} {fl fl' : Option Nat}
    {o : Except Err (Ref.R Val) × St} (hev : ev = ev') (hfl : fl = fl')
    (h : PostGL Rl env ev' fl' o) : PostGL Rl env ev fl o := by subst hev hfl; exact h

include ops in
theorem postGL_pop {env : Env} {ev ev' : Option (Val × List Val)} {fl fl' : Option Nat}
    {o : Except Err (Ref.R Val) × St} (hev : ev = ev') (hfl : fl = fl')
    (h : OutL ([] :: env) (ValOKG Rl ([] :: env) ev') (fun l => fl' = some l) o) :
    OutL ([] :: env) (ValOKG Rl env ev) (fun l => fl = some l) o := by
  subst hev hfl
  exact h.mono (fun v s ⟨hv, g', he, hr'⟩ => ⟨hv, g', he, ops.pop _ _ _ hr'⟩) (fun _ h => h)

theorem main_binopGL (op : Operator) (x y e : LExpr) (ihx : MainGL nm P Rl x) (ihy : MainGL nm P Rl y)
    (line f : Nat) (env : Env) (st : St) (g : List Val) (hr : Rl env st g)
    (hfx : globalsSat P (erase x) = true) (hfy : globalsSat P (erase y) = true)
    (h3 : ∀ vx g1 vy g2 r, Core.eval g (erase x) = some (vx, g1) → Core.eval g1 (erase y) = some (vy, g2) →
      execOperator op vx vy = .ok r → Core.eval g (erase e) = some (r, g2))
    (f1 : ∀ L, Core.eval g (erase x) = none → failLine g x = some L → failLine g e = some L)
    (f2 : ∀ vx g1 L, Core.eval g (erase x) = some (vx, g1) → Core.eval g1 (erase y) = none →
      failLine g1 y = some L → failLine g e = some L)
    (f4 : ∀ vx g1 vy g2 msg, Core.eval g (erase x) = some (vx, g1) → Core.eval g1 (erase y) = some (vy, g2) →
      execOperator op vx vy = .err msg → failLine g e = some line) :
    PostGL Rl env (Core.eval g (erase e)) (failLine g e) (run (bindR (evalE f env (toAstL nm x)) fun vx env =>
      bindR (evalE f env (toAstL nm y)) fun vy env =>
        applyBinary line (specOp op) vx vy >>= fun r => pure (.val r env)) st) := by
  refine outL_bindR (ihx f env st g hr hfx) (fun L h => f1 L (failLine_none h) h) ?_
  rintro vx s1 ⟨hvx, g1, hex, hr1⟩
  refine outL_bindR (ihy f env _ g1 hr1 hfy) (fun L h => f2 vx g1 L hex (failLine_none h) h) ?_
  rintro vy s2 ⟨hvy, g2, hey, hr2⟩
  refine outL_applyBinary line op vx vy _ hvx hvy ?_ ?_
  · intro r hop hrs
    exact ⟨hrs, g2, h3 _ _ _ _ _ hex hey hop, hr2⟩
  · rintro ⟨msg, hop⟩
    exact f4 _ _ _ _ _ hex hey hop

def ArmsMainGL (nm : Nat → String) (P : Nat → Bool) (Rl : Env → St → List Val → Prop) (arms : LArms) : Prop :=
  ∀ fuel env st g v, Rl env st g → isScalar v = true → globalsSatArms P (eraseArms arms) = true →
    PostGL Rl env (Core.evalArms g v (eraseArms arms)) (failLineArms g v arms)
      (run (evalArms fuel env v (toArmsL nm arms)) st)

include ops in
theorem main_armsGL : ∀ arms : LArms, arms.All (MainGL nm P Rl) → ArmsMainGL nm P Rl arms := by
  intro arms
  induction arms using LArms.ind with
  | last la lp d =>
    intro hall fuel env st g v hr hv hf
    simp only [LArms.All] at hall
    simp only [eraseArms, globalsSatArms] at hf
    cases fuel with
    | zero => rw [evalArms_zero]; exact True.intro
    | succ f =>
      rw [toArmsL, evalArms_cons]
      refine outL_bind_hit (run_hitLoopL v st [.dflt lp] false) ?_
      intro b hb
      have hb' : b = true := by simpa [Core.patsTest, Core.patTest, erasePat] using hb.symm
      subst hb'
      simp only [if_true]
      exact outL_evalBranch f la _ _ (fun l fn args h => toAstL_not_call nm d l fn args h) fun f' =>
        postGL_pop ops (by simp only [eraseArms, Core.evalArms]) (by simp only [failLineArms])
          (hall f' _ _ g (ops.push _ _ _ hr) hf)
  | cons la pats body rest ih =>
    intro hall fuel env st g v hr hv hf
    simp only [LArms.All] at hall
    simp only [eraseArms, globalsSatArms, Bool.and_eq_true] at hf
    cases fuel with
    | zero => rw [evalArms_zero]; exact True.intro
    | succ f =>
      rw [toArmsL, evalArms_cons]
      refine outL_bind_hit (run_hitLoopL v st pats false) ?_
      intro b hb
      simp only [Bool.false_eq_true, if_false] at hb
      cases b with
      | true =>
        simp only [if_true]
        exact outL_evalBranch f la _ _ (fun l fn args h => toAstL_not_call nm body l fn args h) fun f' =>
          postGL_pop ops (by simp only [eraseArms, Core.evalArms, hb]) (by simp only [failLineArms, hb])
            (hall.1 f' _ _ g (ops.push _ _ _ hr) hf.1)
      | false =>
        simp only [Bool.false_eq_true, if_false]
        rw [show Core.evalArms g v (eraseArms (.cons la pats body rest)) = Core.evalArms g v (eraseArms rest) by
            simp only [eraseArms, Core.evalArms, hb],
          show failLineArms g v (.cons la pats body rest) = failLineArms g v rest by simp only [failLineArms, hb]]
        exact ih hall.2 f env st g v hr hv hf.2

include ops in
theorem main_coreGL : ∀ e, MainGL nm P Rl e := by
  intro e
  induction e with
  | lit l v =>
    intro fuel env st g hr _
    cases fuel with
    | zero => rw [evalE_zero]; exact True.intro
    | succ f =>
      rw [toAstL, evalE_lit]
      cases hc : isLit v with
      | true => exact ⟨rfl, isLit_scalar hc, g, rfl, hr⟩
      | false => exact True.intro
  | tru l =>
    intro fuel env st g hr _
    cases fuel with
    | zero => rw [evalE_zero]; exact True.intro
    | succ f => rw [toAstL, evalE_bool]; exact ⟨rfl, rfl, g, rfl, hr⟩
  | fls l =>
    intro fuel env st g hr _
    cases fuel with
    | zero => rw [evalE_zero]; exact True.intro
    | succ f => rw [toAstL, evalE_bool]; exact ⟨rfl, rfl, g, rfl, hr⟩
  | null l =>
    intro fuel env st g hr _
    cases fuel with
    | zero => rw [evalE_zero]; exact True.intro
    | succ f => rw [toAstL, evalE_null]; exact ⟨rfl, rfl, g, rfl, hr⟩
  | un l op a ih =>
    intro fuel env st g hr hf
    cases fuel with
    | zero => rw [evalE_zero]; exact True.intro
    | succ f =>
      rw [toAstL, evalE_un]
      simp only [erase, globalsSat] at hf
      refine outL_bindR (ih f env st g hr hf)
        (fun L h => by have h0 := failLine_none h; simp only [failLine, h0, h]) ?_
      rintro v s1 ⟨hv, g1, he, hr1⟩
      rw [reifyM_scalar hv, pure_bind]
      have hspec := unary_spec (specUn op) v
      have hes := unary_scalar (specUn op) v
      refine outL_ofExpect l _ _ ?_ ?_
      · intro r hx
        rw [hx] at hspec hes
        have h1 : Core.applyUn op v = .ok r := by rw [applyUn_eq]; exact hspec
        exact ⟨hes, g1, by simp only [erase, Core.eval, he, h1], hr1⟩
      · intro hx
        rw [hx] at hspec
        obtain ⟨msg, hm⟩ := hspec
        have h1 : Core.applyUn op v = .err msg := by rw [applyUn_eq]; exact hm
        simp only [failLine, he, h1]
  | bin l op a b iha ihb =>
    intro fuel env st g hr hf
    cases fuel with
    | zero => rw [evalE_zero]; exact True.intro
    | succ f =>
      rw [toAstL, evalE_bin]
      simp only [erase, globalsSat, Bool.and_eq_true] at hf
      exact main_binopGL op a b _ iha ihb l f env st g hr hf.1 hf.2 (by binopL_side) (by binopL_side) (by binopL_side)
        (by binopL_side)
  | lt l a b iha ihb =>
    intro fuel env st g hr hf
    cases fuel with
    | zero => rw [evalE_zero]; exact True.intro
    | succ f =>
      rw [toAstL, evalE_lt]
      simp only [erase, globalsSat, Bool.and_eq_true] at hf
      exact main_binopGL .greater b a _ ihb iha l f env st g hr hf.2 hf.1 (by binopL_side) (by binopL_side) (by binopL_side)
        (by binopL_side)
  | le l a b iha ihb =>
    intro fuel env st g hr hf
    cases fuel with
    | zero => rw [evalE_zero]; exact True.intro
    | succ f =>
      rw [toAstL, evalE_le]
      simp only [erase, globalsSat, Bool.and_eq_true] at hf
      exact main_binopGL .greaterEq b a _ ihb iha l f env st g hr hf.2 hf.1 (by binopL_side) (by binopL_side) (by binopL_side)
        (by binopL_side)
  | and l a b iha ihb =>
    intro fuel env st g hr hf
    cases fuel with
    | zero => rw [evalE_zero]; exact True.intro
    | succ f =>
      rw [toAstL, evalE_and]
      simp only [erase, globalsSat, Bool.and_eq_true] at hf
      refine outL_bindR (iha f env st g hr hf.1)
        (fun L h => by have h0 := failLine_none h; simp only [failLine, h0, h]) ?_
      rintro va s1 ⟨hva, g1, hea, hr1⟩
      rw [truthy_scalar hva, pure_bind, ← P2sh.Props.C06.falsey_table]
      cases hfal : va.isFalsey with
      | true =>
        simp only [Bool.not_true, Bool.false_eq_true, if_false]
        exact ⟨rfl, hva, g1, by simp only [erase, Core.eval, hea, hfal, if_true], hr1⟩
      | false =>
        simp only [Bool.not_false, if_true]
        exact postGL_eq (by simp [erase, Core.eval, hea, hfal]) (by simp [failLine, hea, hfal])
          (ihb f env _ g1 hr1 hf.2)
  | or l a b iha ihb =>
    intro fuel env st g hr hf
    cases fuel with
    | zero => rw [evalE_zero]; exact True.intro
    | succ f =>
      rw [toAstL, evalE_or]
      simp only [erase, globalsSat, Bool.and_eq_true] at hf
      refine outL_bindR (iha f env st g hr hf.1)
        (fun L h => by have h0 := failLine_none h; simp only [failLine, h0, h]) ?_
      rintro va s1 ⟨hva, g1, hea, hr1⟩
      rw [truthy_scalar hva, pure_bind, ← P2sh.Props.C06.falsey_table]
      cases hfal : va.isFalsey with
      | true =>
        simp only [Bool.not_true, Bool.false_eq_true, if_false]
        exact postGL_eq (by simp [erase, Core.eval, hea, hfal]) (by simp [failLine, hea, hfal])
          (ihb f env _ g1 hr1 hf.2)
      | false =>
        simp only [Bool.not_false, if_true]
        exact ⟨rfl, hva, g1, by simp [erase, Core.eval, hea, hfal], hr1⟩
  | ite l c t e ihc iht ihe =>
    intro fuel env st g hr hf
    cases fuel with
    | zero => rw [evalE_zero]; exact True.intro
    | succ f =>
      rw [toAstL, evalE_ite]
      simp only [erase, globalsSat, Bool.and_eq_true] at hf
      refine outL_bindR (ihc f env st g hr hf.1.1)
        (fun L h => by have h0 := failLine_none h; simp only [failLine, h0, h]) ?_
      rintro vc s1 ⟨hvc, g1, hec, hr1⟩
      rw [truthy_scalar hvc, pure_bind, ← P2sh.Props.C06.falsey_table]
      have hr1p := ops.push _ _ _ hr1
      cases hfal : vc.isFalsey with
      | true =>
        simp only [Bool.not_true, Bool.false_eq_true, if_false]
        exact outL_evalBranch f l _ _ (fun l fn args h => toAstL_not_call nm e l fn args h) fun f' =>
          postGL_pop ops (by simp [erase, Core.eval, hec, hfal]) (by simp [failLine, hec, hfal])
            (ihe f' _ _ g1 hr1p hf.2)
      | false =>
        simp only [Bool.not_false, if_true]
        exact outL_evalBranch f l _ _ (fun l fn args h => toAstL_not_call nm t l fn args h) fun f' =>
          postGL_pop ops (by simp [erase, Core.eval, hec, hfal]) (by simp [failLine, hec, hfal])
            (iht f' _ _ g1 hr1p hf.1.2)
  | gget l i =>
    intro fuel env st g hr hf
    cases fuel with
    | zero => rw [evalE_zero]; exact True.intro
    | succ f =>
      simp only [erase, globalsSat] at hf
      obtain ⟨c, hlk, hval, hsc⟩ := ops.get env st g i hr hf
      rw [toAstL, evalE_gget _ _ _ _ _ c hlk, run_getCell_bind, hval]
      rw [not_poison _ hsc]
      exact ⟨rfl, hsc, g, rfl, hr⟩
  | gset l i e ih =>
    intro fuel env st g hr hf
    cases fuel with
    | zero => rw [evalE_zero]; exact True.intro
    | succ f =>
      simp only [erase, globalsSat, Bool.and_eq_true] at hf
      rw [toAstL, evalE_gset]
      refine outL_bindR (ih f env st g hr hf.2)
        (fun L h => by have h0 := failLine_none h; simp only [failLine, h0, h]) ?_
      rintro v s1 ⟨hv, g1, he, hr1⟩
      obtain ⟨c, hlk, hi, hr2⟩ := ops.set env s1 g1 i v hr1 hf.1 hv
      rw [assignIdent_g hlk, run_setCell_bind]
      exact ⟨rfl, hv, g1.set i v, by simp only [erase, Core.eval, he, hi, if_true], hr2⟩
  | matchE l s arms ihs iharms =>
    intro fuel env st g hr hf
    cases fuel with
    | zero => rw [evalE_zero]; exact True.intro
    | succ f =>
      rw [toAstL, evalE_match]
      simp only [erase, globalsSat, Bool.and_eq_true] at hf
      refine outL_bindR (ihs f env st g hr hf.1)
        (fun L h => by have h0 := failLine_none h; simp only [failLine, h0, h]) ?_
      rintro v s1 ⟨hv, g1, hes, hr1⟩
      rw [reifyM_scalar hv, pure_bind]
      exact postGL_eq (by simp only [erase, Core.eval, hes]) (by simp only [failLine, hes])
        (main_armsGL ops arms iharms f env _ g1 v hr1 hv hf.2)

end ExprG

/-! ## the line-aware embedding of statements -/

section Stmts
open P2sh.Core (LStmt eraseS eraseP CStmt)
open P2sh.RefProg (toStmt toStmts)

mutual
/-- a core statement as the AST of its source, every node on its own line (`RefProg.toStmt` with
the lines of `Core/Lines.lean`; the inverse of `Core.ofStmtsL`): `ls` of an `ifS` is the line of
the expression statement, `l` the line of the `if`; blocks carry the line of their statement -/
def toStmtL (nm : Nat → String) : LStmt → Stmt
  | .letG l i e => .letS l i (nm i) (toAstL nm e)
  | .expr l e => .exprS l (toAstL nm e)
  | .block l body => .block (.mk l (toStmtsL nm body))
  | .whileS l lbl c body => .whileS l lbl (toAstL nm c) (.mk l (toStmtsL nm body))
  | .loopS l lbl body => .loop l lbl (.mk l (toStmtsL nm body))
  | .breakS l lbl => .breakS l lbl
  | .continueS l lbl => .continueS l lbl
  | .ifS ls l c t e => .exprS ls (.ifE l (toAstL nm c) (.mk l (toStmtsL nm t)) (.els (.mk l (toStmtsL nm e))))
def toStmtsL (nm : Nat → String) : List LStmt → List Stmt
  | [] => []
  | s :: rest => toStmtL nm s :: toStmtsL nm rest
end

/-! ## lines do not influence the oracle, except for the line carried by `.rt`

`Sim o1 o2`: the two outcomes are equal, or both are runtime errors (possibly on different lines)
in the same state.  The oracle's runs on `toAstL nm e` / `toStmtsL nm ss` and on RefCore's /
RefProg's one-line embeddings of the erased expression / program are `Sim`ilar: a structural
induction that needs no hypothesis on the environment.  It carries every value theorem of
`RefProg` / `ChainProg` over to the line-aware embedding. -/

def Sim {α} (o1 o2 : Except Err α × St) : Prop :=
  o1 = o2 ∨ ∃ l1 l2 s, o1 = (.error (.rt l1), s) ∧ o2 = (.error (.rt l2), s)

theorem sim_of_eq {α} {m1 m2 : M α} (h : m1 = m2) (s : St) : Sim (run m1 s) (run m2 s) := .inl (by rw [h])

theorem sim_bind {α β} {m1 m2 : M α} {k1 k2 : α → M β} {s : St}
    (h : Sim (run m1 s) (run m2 s)) (hk : ∀ a s', Sim (run (k1 a) s') (run (k2 a) s')) :
    Sim (run (m1 >>= k1) s) (run (m2 >>= k2) s) := by
  rw [run_bind, run_bind]
  rcases h with h | ⟨l1, l2, s', h1, h2⟩
  · rw [h]
    rcases run m2 s with ⟨er | a, s1⟩
    · exact .inl rfl
    · exact hk a s1
  · rw [h1, h2]; exact .inr ⟨l1, l2, s', rfl, rfl⟩

theorem sim_bindR {α β} {m1 m2 : M (R α)} {k1 k2 : α → Env → M (R β)} {s : St}
    (h : Sim (run m1 s) (run m2 s)) (hk : ∀ v env s', Sim (run (k1 v env) s') (run (k2 v env) s')) :
    Sim (run (bindR m1 k1) s) (run (bindR m2 k2) s) := by
  unfold bindR
  refine sim_bind h ?_
  intro r s'
  cases r with
  | val v env => exact hk v env s'
  | jump f env => exact .inl rfl

theorem sim_ofExpect (l1 l2 : Nat) (ex : Spec.Expect) (s : St) : Sim (run (ofExpect l1 ex) s) (run (ofExpect l2 ex) s) := by
  cases ex
  · exact .inl rfl
  · exact .inr ⟨l1, l2, s, rfl, rfl⟩
  · exact .inl rfl

theorem sim_applyBinary (l1 l2 : Nat) (op : Spec.Op) (a b : Val) (s : St) :
    Sim (run (applyBinary l1 op a b) s) (run (applyBinary l2 op a b) s) := by
  unfold applyBinary
  refine sim_bind (.inl rfl) fun a' s1 => sim_bind (.inl rfl) fun b' s2 => ?_
  have hjp : ∀ s, Sim (run (ofExpect l1 (Spec.binary op a' b') >>= fun v => reflectM v) s)
      (run (ofExpect l2 (Spec.binary op a' b') >>= fun v => reflectM v) s) :=
    fun s => sim_bind (sim_ofExpect l1 l2 _ s) fun v s4 => .inl rfl
  dsimp only
  split <;> (try split) <;> first | exact hjp _ | exact sim_bind (.inl rfl) fun _ s3 => hjp s3

theorem sim_evalBranch_expr (f l1 l2 : Nat) (x1 x2 : Expr) (env : Env) (s : St)
    (hx1 : ∀ l fn args, x1 = .call l fn args → False) (hx2 : ∀ l fn args, x2 = .call l fn args → False)
    (h : ∀ f' env' s', Sim (run (evalE f' env' x1) s') (run (evalE f' env' x2) s')) :
    Sim (run (evalBranch f env (exprBlock l1 x1)) s) (run (evalBranch f env (exprBlock l2 x2)) s) := by
  open P2sh.RefProg in
  cases f with
  | zero => rw [evalBranch_zero, evalBranch_zero]; exact .inl rfl
  | succ f =>
    rw [evalBranch_succ, evalBranch_succ]
    refine sim_bind ?_ (fun _ _ => .inl rfl)
    cases f with
    | zero => rw [evalBlock_zero, evalBlock_zero]; exact .inl rfl
    | succ f =>
      rw [evalBlock_succ, evalBlock_succ]
      simp only [exprBlock, Block.stmts]
      refine sim_bind ?_ (fun _ _ => .inl rfl)
      cases f with
      | zero => rw [evalStmts_zero, evalStmts_zero]; exact .inl rfl
      | succ f =>
        rw [evalStmts_cons, evalStmts_cons]
        refine sim_bind ?_ (fun _ _ => .inl rfl)
        cases f with
        | zero => rw [evalStmt_zero, evalStmt_zero]; exact .inl rfl
        | succ f =>
          rw [evalStmt_expr _ _ _ _ hx1, evalStmt_expr _ _ _ _ hx2]
          exact sim_bind (h f _ _) (fun _ _ => .inl rfl)

theorem patMatches_line (l1 l2 : Nat) (v : Val) (p : CPat) : patMatches v (toPat l1 p) = patMatches v (toPat l2 p) := by
  cases p with
  | dflt => rfl
  | bool b => rfl
  | lit w => cases w <;> rfl
  | range incl lo hi => cases lo <;> cases hi <;> first | rfl | (cases v <;> rfl)

theorem hitLoop_line (ln : Nat) (v : Val) : ∀ (ps : List LPat) (b : Bool),
    hitLoop b v (ps.map toPatL) = hitLoop b v ((ps.map erasePat).map (toPat ln))
  | [], b => rfl
  | p :: ps, b => by
    rw [List.map_cons, List.map_cons, List.map_cons, hitLoop_cons, hitLoop_cons]
    have hp : patMatches v (toPatL p) = patMatches v (toPat ln (erasePat p)) := patMatches_line _ _ v _
    rw [hp]
    apply bind_congr_fun
    intro h
    exact hitLoop_line ln v ps h

theorem evalE_ident_line (f : Nat) (env : Env) (l1 l2 : Nat) (name : String) (acc : Access) :
    evalE (f+1) env (.ident l1 name acc) = evalE (f+1) env (.ident l2 name acc) := by
  rw [evalE, evalE]

def SimE (nm : Nat → String) (ln : Nat) (e : LExpr) : Prop :=
  ∀ f env st, Sim (run (evalE f env (toAstL nm e)) st) (run (evalE f env (toAst nm ln (erase e))) st)

theorem sim_arms (nm : Nat → String) (ln : Nat) : ∀ arms : LArms, arms.All (SimE nm ln) →
    ∀ f env v st, Sim (run (evalArms f env v (toArmsL nm arms)) st) (run (evalArms f env v (toArms nm ln (eraseArms arms))) st) := by
  intro arms
  induction arms using LArms.ind with
  | last la lp d =>
    intro hall f env v st
    simp only [LArms.All] at hall
    cases f with
    | zero => rw [evalArms_zero, evalArms_zero]; exact .inl rfl
    | succ f =>
      rw [toArmsL, eraseArms, toArms, evalArms_cons, evalArms_cons]
      have hh : hitLoop false v [.pdef lp] = hitLoop false v [.pdef ln] := hitLoop_line ln v [.dflt lp] false
      refine sim_bind (sim_of_eq hh st) ?_
      intro hit s'
      cases hit with
      | true =>
        simp only [if_true]
        exact sim_evalBranch_expr f la ln _ _ env s' (fun l fn args h => toAstL_not_call nm d l fn args h)
          (fun l fn args h => toAst_not_call nm ln (erase d) l fn args h) hall
      | false =>
        simp only [Bool.false_eq_true, if_false]
        exact .inl rfl
  | cons la pats body rest ih =>
    intro hall f env v st
    simp only [LArms.All] at hall
    cases f with
    | zero => rw [evalArms_zero, evalArms_zero]; exact .inl rfl
    | succ f =>
      rw [toArmsL, eraseArms, toArms, evalArms_cons, evalArms_cons]
      refine sim_bind (sim_of_eq (hitLoop_line ln v pats false) st) ?_
      intro hit s'
      cases hit with
      | true =>
        simp only [if_true]
        exact sim_evalBranch_expr f la ln _ _ env s' (fun l fn args h => toAstL_not_call nm body l fn args h)
          (fun l fn args h => toAst_not_call nm ln (erase body) l fn args h) hall.1
      | false =>
        simp only [Bool.false_eq_true, if_false]
        exact ih hall.2 f env v s'

/-- **the oracle's outcome on the line-aware AST and on RefCore's one-line AST differ only in the
line carried by `.rt`** -/
theorem sim_expr (nm : Nat → String) (ln : Nat) : ∀ e, SimE nm ln e := by
  intro e
  induction e with
  | lit l v =>
    intro f env st
    cases f with
    | zero => rw [evalE_zero, evalE_zero]; exact .inl rfl
    | succ f => rw [toAstL, erase, toAst, evalE_lit, evalE_lit]; exact .inl rfl
  | tru l =>
    intro f env st
    cases f with
    | zero => rw [evalE_zero, evalE_zero]; exact .inl rfl
    | succ f => rw [toAstL, erase, toAst, evalE_bool, evalE_bool]; exact .inl rfl
  | fls l =>
    intro f env st
    cases f with
    | zero => rw [evalE_zero, evalE_zero]; exact .inl rfl
    | succ f => rw [toAstL, erase, toAst, evalE_bool, evalE_bool]; exact .inl rfl
  | null l =>
    intro f env st
    cases f with
    | zero => rw [evalE_zero, evalE_zero]; exact .inl rfl
    | succ f => rw [toAstL, erase, toAst, evalE_null, evalE_null]; exact .inl rfl
  | un l op a ih =>
    intro f env st
    cases f with
    | zero => rw [evalE_zero, evalE_zero]; exact .inl rfl
    | succ f =>
      rw [toAstL, erase, toAst, evalE_un, evalE_un]
      exact sim_bindR (ih f env st) fun v env1 s1 => sim_bind (.inl rfl) fun v' s2 =>
        sim_bind (sim_ofExpect l ln _ s2) fun r s3 => .inl rfl
  | bin l op a b iha ihb =>
    intro f env st
    cases f with
    | zero => rw [evalE_zero, evalE_zero]; exact .inl rfl
    | succ f =>
      rw [toAstL, erase, toAst, evalE_bin, evalE_bin]
      exact sim_bindR (iha f env st) fun va env1 s1 => sim_bindR (ihb f env1 s1) fun vb env2 s2 =>
        sim_bind (sim_applyBinary l ln _ va vb s2) fun r s3 => .inl rfl
  | lt l a b iha ihb =>
    intro f env st
    cases f with
    | zero => rw [evalE_zero, evalE_zero]; exact .inl rfl
    | succ f =>
      rw [toAstL, erase, toAst, evalE_lt, evalE_lt]
      exact sim_bindR (ihb f env st) fun vb env1 s1 => sim_bindR (iha f env1 s1) fun va env2 s2 =>
        sim_bind (sim_applyBinary l ln _ vb va s2) fun r s3 => .inl rfl
  | le l a b iha ihb =>
    intro f env st
    cases f with
    | zero => rw [evalE_zero, evalE_zero]; exact .inl rfl
    | succ f =>
      rw [toAstL, erase, toAst, evalE_le, evalE_le]
      exact sim_bindR (ihb f env st) fun vb env1 s1 => sim_bindR (iha f env1 s1) fun va env2 s2 =>
        sim_bind (sim_applyBinary l ln _ vb va s2) fun r s3 => .inl rfl
  | and l a b iha ihb =>
    intro f env st
    cases f with
    | zero => rw [evalE_zero, evalE_zero]; exact .inl rfl
    | succ f =>
      rw [toAstL, erase, toAst, evalE_and, evalE_and]
      refine sim_bindR (iha f env st) fun va env1 s1 => sim_bind (.inl rfl) fun t s2 => ?_
      cases t with
      | true => simp only [if_true]; exact ihb f env1 s2
      | false => simp only [Bool.false_eq_true, if_false]; exact .inl rfl
  | or l a b iha ihb =>
    intro f env st
    cases f with
    | zero => rw [evalE_zero, evalE_zero]; exact .inl rfl
    | succ f =>
      rw [toAstL, erase, toAst, evalE_or, evalE_or]
      refine sim_bindR (iha f env st) fun va env1 s1 => sim_bind (.inl rfl) fun t s2 => ?_
      cases t with
      | true => simp only [if_true]; exact .inl rfl
      | false => simp only [Bool.false_eq_true, if_false]; exact ihb f env1 s2
  | ite l c t e ihc iht ihe =>
    intro f env st
    cases f with
    | zero => rw [evalE_zero, evalE_zero]; exact .inl rfl
    | succ f =>
      rw [toAstL, erase, toAst, evalE_ite, evalE_ite]
      refine sim_bindR (ihc f env st) fun vc env1 s1 => sim_bind (.inl rfl) fun tt s2 => ?_
      cases tt with
      | true =>
        simp only [if_true]
        exact sim_evalBranch_expr f l ln _ _ env1 s2 (fun l fn args h => toAstL_not_call nm t l fn args h)
          (fun l fn args h => toAst_not_call nm ln (erase t) l fn args h) iht
      | false =>
        simp only [Bool.false_eq_true, if_false]
        exact sim_evalBranch_expr f l ln _ _ env1 s2 (fun l fn args h => toAstL_not_call nm e l fn args h)
          (fun l fn args h => toAst_not_call nm ln (erase e) l fn args h) ihe
  | gget l i =>
    intro f env st
    cases f with
    | zero => rw [evalE_zero, evalE_zero]; exact .inl rfl
    | succ f => rw [toAstL, erase, toAst, evalE_ident_line f env l ln]; exact .inl rfl
  | gset l i e ih =>
    intro f env st
    cases f with
    | zero => rw [evalE_zero, evalE_zero]; exact .inl rfl
    | succ f =>
      rw [toAstL, erase, toAst, evalE_gset, evalE_gset]
      exact sim_bindR (ih f env st) fun v env1 s1 => .inl rfl
  | matchE l s arms ihs iharms =>
    intro f env st
    cases f with
    | zero => rw [evalE_zero, evalE_zero]; exact .inl rfl
    | succ f =>
      rw [toAstL, erase, toAst, evalE_match, evalE_match]
      exact sim_bindR (ihs f env st) fun v env1 s1 => sim_bind (.inl rfl) fun v' s2 =>
        sim_arms nm ln arms iharms f env1 v' s2

section SimStmts
open P2sh.RefProg
variable (nm : Nat → String) (ln : Nat)

def SimAllS (f : Nat) : Prop :=
  (∀ (s : LStmt) env st, Sim (run (evalStmt f env (toStmtL nm s)) st) (run (evalStmt f env (toStmt nm ln (eraseS s))) st)) ∧
  (∀ (ss : List LStmt) env st last, Sim (run (evalStmts f env (toStmtsL nm ss) last) st)
    (run (evalStmts f env (toStmts nm ln (eraseP ss)) last) st)) ∧
  (∀ (ss : List LStmt) env st l1 l2, Sim (run (evalBlock f env (.mk l1 (toStmtsL nm ss))) st)
    (run (evalBlock f env (.mk l2 (toStmts nm ln (eraseP ss)))) st)) ∧
  (∀ lbl (c : Option LExpr) (body : List LStmt) env st l1 l2,
    Sim (run (evalLoop f env lbl (c.map (toAstL nm)) (.mk l1 (toStmtsL nm body))) st)
      (run (evalLoop f env lbl ((c.map erase).map (toAst nm ln)) (.mk l2 (toStmts nm ln (eraseP body)))) st))

theorem sim_all : ∀ f, SimAllS nm ln f := by
  intro f
  induction f using Nat.strongRecOn with
  | ind f ih =>
    cases f with
    | zero =>
      refine ⟨?_, ?_, ?_, ?_⟩
      · intro s env st; rw [evalStmt_zero, evalStmt_zero]; exact .inl rfl
      · intro ss env st last; rw [evalStmts_zero, evalStmts_zero]; exact .inl rfl
      · intro ss env st l1 l2; rw [evalBlock_zero, evalBlock_zero]; exact .inl rfl
      · intro lbl c body env st l1 l2; rw [evalLoop_zero, evalLoop_zero]; exact .inl rfl
    | succ f =>
      have ihf := ih f (Nat.lt_succ_self f)
      refine ⟨?_, ?_, ?_, ?_⟩
      · -- statements
        intro s env st
        cases s with
        | letG l i e =>
          rw [toStmtL, eraseS, toStmt, evalStmt_let, evalStmt_let]
          exact sim_bind (sim_expr nm ln e f env st) fun _ _ => .inl rfl
        | expr l e =>
          rw [toStmtL, eraseS, toStmt, evalStmt_expr _ _ _ _ (fun l fn args h => toAstL_not_call nm e l fn args h),
            evalStmt_expr _ _ _ _ (fun l fn args h => toAst_not_call nm ln (erase e) l fn args h)]
          exact sim_bind (sim_expr nm ln e f env st) fun _ _ => .inl rfl
        | block l body =>
          rw [toStmtL, eraseS, toStmt, evalStmt_block, evalStmt_block]
          exact sim_bind (ihf.2.2.1 body env st l ln) fun _ _ => .inl rfl
        | whileS l lbl c body =>
          rw [toStmtL, eraseS, toStmt, evalStmt_while, evalStmt_while]
          exact ihf.2.2.2 lbl (some c) body env st l ln
        | loopS l lbl body =>
          rw [toStmtL, eraseS, toStmt, evalStmt_loop, evalStmt_loop]
          exact ihf.2.2.2 lbl none body env st l ln
        | breakS l lbl => rw [toStmtL, eraseS, toStmt, evalStmt_break, evalStmt_break]; exact .inl rfl
        | continueS l lbl => rw [toStmtL, eraseS, toStmt, evalStmt_continue, evalStmt_continue]; exact .inl rfl
        | ifS ls l c t e =>
          rw [toStmtL, eraseS, toStmt, evalStmt_expr _ _ _ _ (fun l fn args h => by cases h),
            evalStmt_expr _ _ _ _ (fun l fn args h => by cases h)]
          refine sim_bind ?_ fun _ _ => .inl rfl
          cases f with
          | zero => rw [evalE_zero, evalE_zero]; exact .inl rfl
          | succ f0 =>
            rw [evalE_ite, evalE_ite]
            refine sim_bindR (sim_expr nm ln c f0 env st) fun vc env1 s1 => sim_bind (.inl rfl) fun tt s2 => ?_
            have hbr : ∀ body : List LStmt, Sim (run (evalBranch f0 env1 (.mk l (toStmtsL nm body))) s2)
                (run (evalBranch f0 env1 (.mk ln (toStmts nm ln (eraseP body)))) s2) := by
              intro body
              cases f0 with
              | zero => rw [evalBranch_zero, evalBranch_zero]; exact .inl rfl
              | succ f1 =>
                rw [evalBranch_succ, evalBranch_succ]
                exact sim_bind ((ih f1 (by omega)).2.2.1 body env1 s2 l ln) fun _ _ => .inl rfl
            cases tt with
            | true => simp only [if_true]; exact hbr t
            | false => simp only [Bool.false_eq_true, if_false]; exact hbr e
      · -- statement lists
        intro ss env st last
        cases ss with
        | nil => rw [toStmtsL, eraseP, toStmts]; exact .inl rfl
        | cons s rest =>
          rw [toStmtsL, eraseP, toStmts, evalStmts_cons, evalStmts_cons]
          refine sim_bind (ihf.1 s env st) ?_
          rintro ⟨fl, v, env1⟩ s'
          cases fl with
          | normal => exact ihf.2.1 rest env1 s' v
          | brk l => exact .inl rfl
          | cont l => exact .inl rfl
          | ret r => exact .inl rfl
      · -- blocks
        intro ss env st l1 l2
        rw [evalBlock_succ, evalBlock_succ]
        simp only [Block.stmts]
        exact sim_bind (ihf.2.1 ss ([] :: env) st .null) fun _ _ => .inl rfl
      · -- loops
        intro lbl c body env st l1 l2
        rw [evalLoop_succ, evalLoop_succ]
        refine sim_bind ?_ ?_
        · cases c with
          | none => exact .inl rfl
          | some c =>
            simp only [Option.map_some, loopCond]
            exact sim_bind (sim_expr nm ln c f env st) fun _ _ => .inl rfl
        · intro r s'
          cases r with
          | jump fl env1 => exact .inl rfl
          | val b env1 =>
            cases b with
            | false => exact .inl rfl
            | true =>
              show Sim (run (evalBlock f env1 _ >>= loopBodyK f lbl _ _) s') (run (evalBlock f env1 _ >>= loopBodyK f lbl _ _) s')
              refine sim_bind (ihf.2.2.1 body env1 s' l1 l2) ?_
              rintro ⟨fl, v, env2⟩ s2
              cases fl with
              | normal => exact ihf.2.2.2 lbl c body env2 s2 l1 l2
              | brk l => exact .inl rfl
              | cont l =>
                show Sim (run (if labelMatches lbl l then _ else _) s2) (run (if labelMatches lbl l then _ else _) s2)
                cases labelMatches lbl l with
                | true => simp only [if_true]; exact ihf.2.2.2 lbl c body env2 s2 l1 l2
                | false => simp only [Bool.false_eq_true, if_false]; exact .inl rfl
              | ret r => exact .inl rfl

/-- **programs: the oracle's outcome on the line-aware AST and on RefProg's one-line AST differ
only in the line carried by `.rt`** -/
theorem sim_stmts (ss : List LStmt) (f : Nat) (env : Env) (st : St) (last : Val) :
    Sim (run (evalStmts f env (toStmtsL nm ss) last) st) (run (evalStmts f env (toStmts nm ln (eraseP ss)) last) st) :=
  (sim_all nm ln f).2.1 ss env st last

end SimStmts
end Stmts

/-! ## the oracle's runtime error in a program: which statement's which expression, on which line -/

section Progs
open P2sh.Core (LStmt eraseS eraseP CStmt failLineS failLineP)
open P2sh.RefProg

/-- `RefProg.Res` with a predicate on the line of the runtime error -/
def ResL {α} (P : α → St → Prop) (E : Nat → Prop) : Except Err α × St → Prop
  | (.ok a, s) => P a s
  | (.error (.rt l), _) => E l
  | (.error _, _) => True

theorem ResL.bind {α β} {P : α → St → Prop} {E : Nat → Prop} {P' : β → St → Prop} {E' : Nat → Prop}
    {m : M α} {k : α → M β} {s : St}
    (hm : ResL P E (run m s)) (hE : ∀ l, E l → E' l) (hk : ∀ a s', P a s' → ResL P' E' (run (k a) s')) :
    ResL P' E' (run (m >>= k) s) := by
  rw [run_bind]
  revert hm
  rcases run m s with ⟨er | a, s1⟩
  · cases er <;> intro h <;> first | exact hE _ h | exact True.intro
  · intro h; exact hk a s1 h

theorem ResL.mono {α} {P P' : α → St → Prop} {E E' : Nat → Prop} {o : Except Err α × St}
    (hP : ∀ a s, P a s → P' a s) (hE : ∀ l, E l → E' l) (h : ResL P E o) : ResL P' E' o := by
  rcases o with ⟨er | a, s1⟩
  · cases er <;> first | exact hE _ h | exact True.intro
  · exact hP _ _ h

theorem OutL.res {α} {env : Env} {P : α → St → Prop} {E : Nat → Prop} {o : Except Err (R α) × St} (h : OutL env P E o) :
    ResL (fun r s => ∃ v, r = .val v env ∧ P v s) E o := by
  rcases o with ⟨er | (⟨v, env1⟩ | ⟨fl, env1⟩), s1⟩
  · cases er <;> first | exact h | exact True.intro
  · obtain ⟨rfl, hp⟩ := h; exact ⟨v, rfl, hp⟩
  · exact h.elim

abbrev ResFL {α} (E : Nat → Prop) : Except Err α × St → Prop := ResL (fun _ _ => True) E

theorem ResL.comb {α} {P : α → St → Prop} {E E' : Nat → Prop} {o : Except Err α × St} (h1 : ResL P E o) (h2 : ResFL E' o) :
    ResL P E' o := by
  rcases o with ⟨er | a, s1⟩
  · cases er <;> first | exact h2 | exact True.intro
  · exact h1

/-- what RefProg proves of the one-line embedding holds, for the values, of the line-aware one -/
theorem Res.toL_sim {α} {P : α → St → Prop} {E : Prop} {o1 o2 : Except Err α × St} (h : Res P E o2) (hs : Sim o1 o2) :
    ResL P (fun _ => True) o1 := by
  rcases hs with rfl | ⟨l1, l2, s, rfl, rfl⟩
  · rcases o1 with ⟨er | a, s1⟩
    · cases er <;> exact True.intro
    · exact h
  · exact True.intro

theorem expr_bridgeGL {nm : Nat → String} {vis : Core.Vis} {env : Env} {st : St} {g : List Val}
    (e : LExpr) (fuel : Nat) (P : Nat → Bool) (hP : ∀ k, P k = true → Core.globalIndex vis (nm k) = some k)
    (hr : GR vis env st g) (hf : globalsSat P (erase e) = true) :
    ResL (EOKG vis env st g (erase e)) (fun l => failLine g e = some l) (run (evalE fuel env (toAstL nm e)) st) := by
  have hm := main_coreGL (relOps nm vis st.sites g.length P hP) e fuel env st g ⟨hr.1, hr.2, rfl, rfl⟩ hf
  refine (OutL.res hm).mono ?_ (fun _ h => h)
  rintro r s ⟨v, rfl, hv, g', he, hc, hen, hs, hl⟩
  exact ⟨v, g', rfl, hv, he, ⟨hc, hen⟩, hs, hl⟩

inductive ItemL where
  | s (s : LStmt)
  | p (ss : List LStmt)

def ItemL.erase : ItemL → ChainProg.Item
  | .s x => .s (eraseS x)
  | .p xs => .p (eraseP xs)

def mkLoopL (l : Nat) (lbl : Option String) : Option LExpr → List LStmt → LStmt
  | none, body => .loopS l lbl body
  | some c, body => .whileS l lbl c body

theorem eraseS_mkLoopL (l : Nat) (lbl : Option String) (c : Option LExpr) (body : List LStmt) :
    eraseS (mkLoopL l lbl c body) = mkLoop lbl (c.map erase) (eraseP body) := by
  cases c <;> simp [mkLoopL, mkLoop, eraseS]

/-- `ChainProg.Fail` with the line: Core's evaluation of the statement / statement list from `g`
fails in an expression, **whose failing node is on line `L`** (`failLine`), after finitely many
completed statements / loop iterations -/
inductive FailL : List Val → ItemL → Nat → Prop
  | letG {g l i e L} : failLine g e = some L → globalsBelow g.length (erase e) = true → FailL g (.s (.letG l i e)) L
  | expr {g l e L} : failLine g e = some L → globalsBelow g.length (erase e) = true → FailL g (.s (.expr l e)) L
  | block {g l body L} : FailL g (.p body) L → FailL g (.s (.block l body)) L
  | whileC {g l lbl c body L} : failLine g c = some L → globalsBelow g.length (erase c) = true →
      FailL g (.s (.whileS l lbl c body)) L
  | whileB {g l lbl c body vc g1 L} : Core.eval g (erase c) = some (vc, g1) → vc.isFalsey = false → FailL g1 (.p body) L →
      FailL g (.s (.whileS l lbl c body)) L
  | whileN {g l lbl c body vc g1 f g2 fl L} : Core.eval g (erase c) = some (vc, g1) → vc.isFalsey = false →
      Core.evalP f g1 (eraseP body) = some (g2, fl) → Core.loopAct lbl fl = .again → FailL g2 (.s (.whileS l lbl c body)) L →
      FailL g (.s (.whileS l lbl c body)) L
  | loopB {g l lbl body L} : FailL g (.p body) L → FailL g (.s (.loopS l lbl body)) L
  | loopN {g l lbl body f g2 fl L} : Core.evalP f g (eraseP body) = some (g2, fl) → Core.loopAct lbl fl = .again →
      FailL g2 (.s (.loopS l lbl body)) L → FailL g (.s (.loopS l lbl body)) L
  | ifC {g ls l c t e L} : failLine g c = some L → globalsBelow g.length (erase c) = true → FailL g (.s (.ifS ls l c t e)) L
  | ifT {g ls l c t e vc g1 L} : Core.eval g (erase c) = some (vc, g1) → vc.isFalsey = false → FailL g1 (.p t) L →
      FailL g (.s (.ifS ls l c t e)) L
  | ifE {g ls l c t e vc g1 L} : Core.eval g (erase c) = some (vc, g1) → vc.isFalsey = true → FailL g1 (.p e) L →
      FailL g (.s (.ifS ls l c t e)) L
  | head {g s rest L} : FailL g (.s s) L → FailL g (.p (s :: rest)) L
  | tail {g s rest f g1 L} : Core.evalS f g (eraseS s) = some (g1, .normal) → FailL g1 (.p rest) L → FailL g (.p (s :: rest)) L

/-- forgetting the line: `ChainProg.Fail` of the erased program -/
theorem FailL.fail {g : List Val} {item : ItemL} {L : Nat} (h : FailL g item L) : ChainProg.Fail g item.erase := by
  induction h with
  | letG h hg => simp only [ItemL.erase, eraseS]; exact .letG (failLine_none h) hg
  | expr h hg => simp only [ItemL.erase, eraseS]; exact .expr (failLine_none h) hg
  | block _ ih => simp only [ItemL.erase, eraseS] at ih ⊢; exact .block ih
  | whileC h hg => simp only [ItemL.erase, eraseS]; exact .whileC (failLine_none h) hg
  | whileB h1 h2 _ ih => simp only [ItemL.erase, eraseS] at ih ⊢; exact .whileB h1 h2 ih
  | whileN h1 h2 h3 h4 _ ih => simp only [ItemL.erase, eraseS] at ih ⊢; exact .whileN h1 h2 h3 h4 ih
  | loopB _ ih => simp only [ItemL.erase, eraseS] at ih ⊢; exact .loopB ih
  | loopN h1 h2 _ ih => simp only [ItemL.erase, eraseS] at ih ⊢; exact .loopN h1 h2 ih
  | ifC h hg => simp only [ItemL.erase, eraseS]; exact .ifC (failLine_none h) hg
  | ifT h1 h2 _ ih => simp only [ItemL.erase, eraseS] at ih ⊢; exact .ifT h1 h2 ih
  | ifE h1 h2 _ ih => simp only [ItemL.erase, eraseS] at ih ⊢; exact .ifE h1 h2 ih
  | head _ ih => simp only [ItemL.erase, eraseP] at ih ⊢; exact .head ih
  | tail h1 _ ih => simp only [ItemL.erase, eraseP] at ih ⊢; exact .tail h1 ih

section InductionFL
variable (nm : Nat → String) (ln N : Nat)

def StmtFL (fuel : Nat) : Prop :=
  ∀ (s : LStmt) (vis : Core.Vis) (env : Env) (st : St) (g : List Val), g.length = N → GR vis env st g →
    wfS nm N vis (eraseS s) = true → ResFL (fun L => FailL g (.s s) L) (run (evalStmt fuel env (toStmtL nm s)) st)

def StmtsFL (fuel : Nat) : Prop :=
  ∀ (ss : List LStmt) (vis : Core.Vis) (env : Env) (st : St) (g : List Val) (last : Val), g.length = N → GR vis env st g →
    wfP nm N vis (eraseP ss) = true → ResFL (fun L => FailL g (.p ss) L) (run (evalStmts fuel env (toStmtsL nm ss) last) st)

def BlockFL (fuel : Nat) : Prop :=
  ∀ (ss : List LStmt) (vis : Core.Vis) (env : Env) (st : St) (g : List Val) (l : Nat), g.length = N → GR vis env st g →
    wfP nm N vis (eraseP ss) = true → ResFL (fun L => FailL g (.p ss) L) (run (evalBlock fuel env (.mk l (toStmtsL nm ss))) st)

def LoopFL (fuel : Nat) : Prop :=
  ∀ (l : Nat) (lbl : Option String) (cond : Option LExpr) (body : List LStmt) (vis : Core.Vis) (env : Env) (st : St) (g : List Val),
    g.length = N → GR vis env st g → condOKG nm vis (cond.map erase) = true → wfP nm N vis (eraseP body) = true →
    ResFL (fun L => FailL g (.s (mkLoopL l lbl cond body)) L)
      (run (evalLoop fuel env lbl (cond.map (toAstL nm)) (.mk l (toStmtsL nm body))) st)

def AllFL (fuel : Nat) : Prop := StmtFL nm N fuel ∧ StmtsFL nm N fuel ∧ BlockFL nm N fuel ∧ LoopFL nm N fuel

theorem all_zeroFL : AllFL nm N 0 := by
  refine ⟨?_, ?_, ?_, ?_⟩
  · intro s vis env st g _ _ _; rw [evalStmt_zero]; exact True.intro
  · intro ss vis env st g last _ _ _; rw [evalStmts_zero]; exact True.intro
  · intro ss vis env st g l _ _ _; rw [evalBlock_zero]; exact True.intro
  · intro l lbl cond body vis env st g _ _ _ _; rw [evalLoop_zero]; exact True.intro

include ln in
theorem stmts_succFL (fuel : Nat) (hS : StmtFL nm N fuel) (hP : StmtsFL nm N fuel) : StmtsFL nm N (fuel + 1) := by
  intro ss vis env st g last hg hr hwf
  cases ss with
  | nil =>
    rw [toStmtsL, evalStmts_nil]
    exact True.intro
  | cons s rest =>
    simp only [eraseP, wfP, Bool.and_eq_true] at hwf
    rw [toStmtsL, evalStmts_cons]
    have hok := Res.toL_sim ((all_okG nm ln N fuel).1 (eraseS s) vis env st g hg hr hwf.1) ((sim_all nm ln fuel).1 s env st)
    refine ResL.bind (ResL.comb hok (hS s vis env st g hg hr hwf.1)) (fun L h => FailL.head h) ?_
    rintro ⟨fl, v, env1⟩ s1 ⟨henv, hsub, fl', g1, f1, hfl, hev, hl1, hc1, hen1⟩
    have hev' : Core.evalS f1 g (eraseS s) = some (g1, fl') := hev
    have hfl' : fl = toFlow fl' := hfl
    subst hfl'
    cases fl' with
    | normal =>
      show ResFL _ (run (evalStmts fuel env1 (toStmtsL nm rest) v) s1)
      exact ResL.mono (fun _ _ _ => True.intro) (fun L h => FailL.tail hev' h)
        (hP rest (visAfter nm vis (eraseS s)) env1 s1 g1 v (hl1.trans hg) ⟨hc1, hen1 rfl⟩ hwf.2)
    | brk l => exact True.intro
    | cont l => exact True.intro

theorem block_succFL (fuel : Nat) (hP : StmtsFL nm N fuel) : BlockFL nm N (fuel + 1) := by
  intro ss vis env st g l hg hr hwf
  rw [evalBlock_succ]
  refine ResL.bind (hP ss vis ([] :: env) st g .null hg ⟨hr.1, hr.2.push⟩ hwf) (fun _ h => h) ?_
  intro _ _ _
  exact True.intro

theorem branchFL (f0 : Nat) (hB : ∀ f', f' ≤ f0 → BlockFL nm N f') (body : List LStmt) (vis : Core.Vis) (env : Env)
    (s1 : St) (g1 : List Val) (l : Nat) (hg1 : g1.length = N) (hr1 : GR vis env s1 g1) (hwf : wfP nm N vis (eraseP body) = true) :
    ResFL (fun L => FailL g1 (.p body) L) (run (evalBranch f0 env (.mk l (toStmtsL nm body)) >>= exprK) s1) := by
  cases f0 with
  | zero => rw [evalBranch_zero]; exact True.intro
  | succ f1 =>
    rw [evalBranch_succ, bind_assoc]
    refine ResL.bind (hB f1 (Nat.le_succ f1) body vis env s1 g1 l hg1 hr1 hwf) (fun _ h => h) ?_
    rintro ⟨fl, v, env1⟩ s2 -
    cases fl <;> exact True.intro

theorem stmt_succFL (f : Nat) (ih : ∀ f', f' ≤ f → AllFL nm N f') : StmtFL nm N (f + 1) := by
  intro s vis env st g hg hr hwf
  cases s with
  | letG l i e =>
    simp only [eraseS, wfS, Bool.and_eq_true, decide_eq_true_eq] at hwf
    rw [toStmtL, evalStmt_let]
    have hP : ∀ k, (resolves nm vis k && (nm k != nm i)) = true → Core.globalIndex vis (nm k) = some k :=
      fun k hk => resolves_sound k (by simp only [Bool.and_eq_true] at hk; exact hk.1)
    refine ResL.bind (expr_bridgeGL e f (fun k => resolves nm vis k && (nm k != nm i)) hP hr hwf.2)
      (fun L h => FailL.letG h (ChainProg.gr_below hr hP (erase e) hwf.2)) ?_
    rintro r s1 ⟨v, g1, rfl, hv, he, hr1, hs1, hl1⟩
    have hi1 : i < g1.length := by rw [hl1, hg]; exact hwf.1
    show ResL _ _ (run (if isGlobalEnv env then _ else _) s1)
    rw [hr.2.glob]
    simp only [if_true]
    obtain ⟨c, st2, hrun, -⟩ :=
      run_let_cell (fun c => (pure (Flow.normal, Val.null, bindTop (nm i) (.g c) env) : M (Flow × Val × Env))) s1 g1 i v hr1.1 hi1 hv
    have hrun' : run (siteCell i >>= fun c => setCell c v >>= fun _ =>
        (pure (Flow.normal, Val.null, bindTop (nm i) (.g c) env) : M (Flow × Val × Env))) s1 =
        (.ok (Flow.normal, Val.null, bindTop (nm i) (.g c) env), st2) := hrun
    rw [hrun']
    exact True.intro
  | expr l e =>
    simp only [eraseS, wfS] at hwf
    rw [toStmtL, evalStmt_expr _ _ _ _ (fun l fn args h => toAstL_not_call nm e l fn args h)]
    refine ResL.bind (expr_bridgeGL e f (resolves nm vis) (fun k hk => resolves_sound k hk) hr hwf)
      (fun L h => FailL.expr h (ChainProg.gr_below hr (fun k hk => resolves_sound k hk) (erase e) hwf)) ?_
    rintro r s1 ⟨v, g1, rfl, -⟩
    exact True.intro
  | block l body =>
    simp only [eraseS, wfS] at hwf
    rw [toStmtL, evalStmt_block]
    refine ResL.bind ((ih f (Nat.le_refl f)).2.2.1 body vis env st g l hg hr hwf) (fun L h => FailL.block h) ?_
    intro _ _ _
    exact True.intro
  | breakS l lbl =>
    rw [toStmtL, evalStmt_break]
    exact True.intro
  | continueS l lbl =>
    rw [toStmtL, evalStmt_continue]
    exact True.intro
  | whileS l lbl c body =>
    simp only [eraseS, wfS, Bool.and_eq_true] at hwf
    rw [toStmtL, evalStmt_while]
    exact (ih f (Nat.le_refl f)).2.2.2 l lbl (some c) body vis env st g hg hr hwf.1 hwf.2
  | loopS l lbl body =>
    simp only [eraseS, wfS] at hwf
    rw [toStmtL, evalStmt_loop]
    exact (ih f (Nat.le_refl f)).2.2.2 l lbl none body vis env st g hg hr rfl hwf
  | ifS ls l c t e =>
    simp only [eraseS, wfS, Bool.and_eq_true] at hwf
    rw [toStmtL, evalStmt_expr _ _ _ _ (fun l fn args h => by cases h)]
    cases f with
    | zero => rw [evalE_zero]; exact True.intro
    | succ f0 =>
      rw [evalE_ite]
      unfold bindR
      rw [bind_assoc]
      refine ResL.bind (expr_bridgeGL c f0 (resolves nm vis) (fun k hk => resolves_sound k hk) hr hwf.1.1)
        (fun L h => FailL.ifC h (ChainProg.gr_below hr (fun k hk => resolves_sound k hk) (erase c) hwf.1.1)) ?_
      rintro r s1 ⟨vc, g1, rfl, hvc, hec, hr1, hs1, hl1⟩
      dsimp only
      rw [truthy_scalar hvc, pure_bind, ← P2sh.Props.C06.falsey_table]
      have hB : ∀ f', f' ≤ f0 → BlockFL nm N f' := fun f' hf' => (ih f' (Nat.le_succ_of_le hf')).2.2.1
      cases hfal : vc.isFalsey with
      | true =>
        simp only [Bool.not_true, Bool.false_eq_true, if_false]
        exact ResL.mono (fun _ _ _ => True.intro) (fun L h => FailL.ifE hec hfal h)
          (branchFL nm N f0 hB e vis env s1 g1 l (hl1.trans hg) hr1 hwf.2)
      | false =>
        simp only [Bool.not_false, if_true]
        exact ResL.mono (fun _ _ _ => True.intro) (fun L h => FailL.ifT hec hfal h)
          (branchFL nm N f0 hB t vis env s1 g1 l (hl1.trans hg) hr1 hwf.1.2)

include ln in
theorem loop_bodyFL (f : Nat) (hB : BlockFL nm N f) (hL : LoopFL nm N f) (l : Nat) (lbl : Option String) (cond : Option LExpr)
    (body : List LStmt) (vis : Core.Vis) (env : Env) (s1 : St) (g1 : List Val)
    (hg1 : g1.length = N) (hr1 : GR vis env s1 g1) (hc : condOKG nm vis (cond.map erase) = true)
    (hwf : wfP nm N vis (eraseP body) = true)
    (E : Nat → Prop) (hEb : ∀ L, FailL g1 (.p body) L → E L)
    (hEn : ∀ f2 g2 fl L, Core.evalP f2 g1 (eraseP body) = some (g2, fl) → Core.loopAct lbl fl = .again →
      FailL g2 (.s (mkLoopL l lbl cond body)) L → E L) :
    ResFL E (run (evalBlock f env (.mk l (toStmtsL nm body)) >>=
      loopBodyK f lbl (cond.map (toAstL nm)) (.mk l (toStmtsL nm body))) s1) := by
  have hok := Res.toL_sim ((all_okG nm ln N f).2.2.1 (eraseP body) vis env s1 g1 hg1 hr1 hwf)
    ((sim_all nm ln f).2.2.1 body env s1 l ln)
  refine ResL.bind (ResL.comb hok (hB body vis env s1 g1 l hg1 hr1 hwf)) hEb ?_
  rintro ⟨fl, v, env1⟩ s2 ⟨henv, hsub2, fl', g2, f2, hfl, hev2, hl2, hc2⟩
  have henv' : env1 = env := henv
  have hfl' : fl = toFlow fl' := hfl
  have hev2' : Core.evalP f2 g1 (eraseP body) = some (g2, fl') := hev2
  subst henv' hfl'
  have hr2 : GR vis env1 s2 g2 := ⟨hc2, hr1.2.mono hsub2⟩
  have again : Core.loopAct lbl fl' = .again →
      ResFL E (run (evalLoop f env1 lbl (cond.map (toAstL nm)) (.mk l (toStmtsL nm body))) s2) := by
    intro hact
    exact ResL.mono (fun _ _ _ => True.intro) (fun L h => hEn f2 g2 fl' L hev2' hact h)
      (hL l lbl cond body vis env1 s2 g2 (hl2.trans hg1) hr2 hc hwf)
  cases fl' with
  | normal => exact again rfl
  | brk l' =>
    show ResFL E (run (if labelMatches lbl l' then _ else _) s2)
    cases labelMatches lbl l' with
    | true => simp only [if_true]; exact True.intro
    | false => simp only [Bool.false_eq_true, if_false]; exact True.intro
  | cont l' =>
    show ResFL E (run (if labelMatches lbl l' then _ else _) s2)
    rw [labelMatches_eq]
    cases ht : Core.targets lbl l' with
    | true =>
      simp only [if_true]
      exact again (by simp [Core.loopAct, ht])
    | false =>
      simp only [Bool.false_eq_true, if_false]
      exact True.intro

include ln in
theorem loop_succFL (f : Nat) (hB : BlockFL nm N f) (hL : LoopFL nm N f) : LoopFL nm N (f + 1) := by
  intro l lbl cond body vis env st g hg hr hc hwf
  rw [evalLoop_succ]
  cases cond with
  | none =>
    simp only [Option.map_none, loopCond, pure_bind]
    show ResFL _ (run (evalBlock f env _ >>= loopBodyK f lbl ((none : Option LExpr).map (toAstL nm)) _) st)
    exact loop_bodyFL nm ln N f hB hL l lbl none body vis env st g hg hr rfl hwf _ (fun L h => FailL.loopB h)
      (fun f2 g2 fl L h1 h2 h3 => FailL.loopN h1 h2 h3)
  | some c =>
    simp only [Option.map_some, loopCond, bind_assoc]
    have hc' : globalsSat (resolves nm vis) (erase c) = true := hc
    refine ResL.bind (expr_bridgeGL c f (resolves nm vis) (fun k hk => resolves_sound k hk) hr hc')
      (fun L h => FailL.whileC h (ChainProg.gr_below hr (fun k hk => resolves_sound k hk) (erase c) hc')) ?_
    rintro r s1 ⟨vc, g1, rfl, hvc, hec, hr1, hs1, hl1⟩
    simp only [condK, bind_assoc, pure_bind]
    rw [truthy_scalar hvc, pure_bind, ← P2sh.Props.C06.falsey_table]
    cases hfal : vc.isFalsey with
    | true =>
      simp only [Bool.not_true]
      exact True.intro
    | false =>
      simp only [Bool.not_false]
      show ResFL _ (run (evalBlock f env _ >>= loopBodyK f lbl ((some c).map (toAstL nm)) _) s1)
      exact loop_bodyFL nm ln N f hB hL l lbl (some c) body vis env s1 g1 (hl1.trans hg) hr1 hc hwf _
        (fun L h => FailL.whileB hec hfal h)
        (fun f2 g2 fl L h1 h2 h3 => FailL.whileN hec hfal h1 h2 h3)

include ln in
theorem all_FL : ∀ fuel, AllFL nm N fuel := by
  intro fuel
  induction fuel using Nat.strongRecOn with
  | ind fuel ih =>
    cases fuel with
    | zero => exact all_zeroFL nm N
    | succ f =>
      have ihf := ih f (Nat.lt_succ_self f)
      exact ⟨stmt_succFL nm N f (fun f' hf' => ih f' (Nat.lt_succ_of_le hf')),
        stmts_succFL nm ln N f ihf.1 ihf.2.1, block_succFL nm N f ihf.2.1, loop_succFL nm ln N f ihf.2.2.1 ihf.2.2.2⟩

end InductionFL

/-- **the oracle's runtime error `.rt l` in a program is a genuine failure of Core's evaluation at a
node on line `l`** (`ChainProg.ref_stmts_fail` with the line) -/
theorem ref_stmts_failL {nm : Nat → String} {fuel l : Nat} {ss : List LStmt} {vis : Core.Vis} {env : Env} {st st' : St}
    {g : List Val} {last : Val}
    (hr : GR vis env st g) (hok : wfP nm g.length vis (eraseP ss) = true)
    (h : run (evalStmts fuel env (toStmtsL nm ss) last) st = (.error (.rt l), st')) : FailL g (.p ss) l := by
  have hm := (all_FL nm 0 g.length fuel).2.1 ss vis env st g last rfl hr hok
  rw [h] at hm
  exact hm

/-! ### `FailL` is what `Core.failLineP` computes (with enough fuel) -/

/-- `failLineS` / `failLineP` are monotone in the fuel -/
theorem failLine_mono : ∀ fuel,
    (∀ g (s : LStmt) L f', failLineS fuel g s = some L → fuel ≤ f' → failLineS f' g s = some L) ∧
    (∀ g (ss : List LStmt) L f', failLineP fuel g ss = some L → fuel ≤ f' → failLineP f' g ss = some L)
  | 0 => ⟨fun g s L f' h => by simp [failLineS] at h, fun g ss L f' h => by simp [failLineP] at h⟩
  | fuel+1 => by
    have ih := failLine_mono fuel
    constructor
    · intro g s L f' h hle
      obtain ⟨f2, rfl⟩ : ∃ f2, f' = f2 + 1 := ⟨f' - 1, by omega⟩
      have hle2 : fuel ≤ f2 := by omega
      cases s with
      | letG l i e => simp only [failLineS] at h ⊢; exact h
      | expr l e => simp only [failLineS] at h ⊢; exact h
      | block l body => simp only [failLineS] at h ⊢; exact ih.2 g body L f2 h hle2
      | breakS l lbl => simp [failLineS] at h
      | continueS l lbl => simp [failLineS] at h
      | ifS ls l c thn els =>
        simp only [failLineS] at h ⊢
        cases he : Core.eval g (erase c) with
        | none => simp only [he] at h ⊢; exact h
        | some r =>
          obtain ⟨vc, g1⟩ := r
          simp only [he] at h ⊢
          by_cases hf : vc.isFalsey = true
          · simp only [hf, if_true] at h ⊢; exact ih.2 g1 els L f2 h hle2
          · simp only [hf, Bool.false_eq_true, if_false] at h ⊢; exact ih.2 g1 thn L f2 h hle2
      | loopS l lbl body =>
        simp only [failLineS] at h ⊢
        cases hb : Core.evalP fuel g (eraseP body) with
        | some r =>
          obtain ⟨g2, fl⟩ := r
          simp only [hb] at h
          rw [evalP_mono hle2 hb]
          simp only
          cases ha : Core.loopAct lbl fl with
          | again => simp only [ha] at h ⊢; exact ih.1 g2 _ L f2 h hle2
          | exit => simp [ha] at h
          | propagate => simp [ha] at h
        | none =>
          simp only [hb] at h
          have h2 := ih.2 g body L f2 h hle2
          rw [(Core.failLine_sound f2).2 g body L h2]
          exact h2
      | whileS l lbl c body =>
        simp only [failLineS] at h ⊢
        cases he : Core.eval g (erase c) with
        | none => simp only [he] at h ⊢; exact h
        | some r =>
          obtain ⟨vc, g1⟩ := r
          simp only [he] at h ⊢
          by_cases hf : vc.isFalsey = true
          · simp [hf] at h
          · simp only [hf, Bool.false_eq_true, if_false] at h ⊢
            cases hb : Core.evalP fuel g1 (eraseP body) with
            | some r2 =>
              obtain ⟨g2, fl⟩ := r2
              simp only [hb] at h
              rw [evalP_mono hle2 hb]
              simp only
              cases ha : Core.loopAct lbl fl with
              | again => simp only [ha] at h ⊢; exact ih.1 g2 _ L f2 h hle2
              | exit => simp [ha] at h
              | propagate => simp [ha] at h
            | none =>
              simp only [hb] at h
              have h2 := ih.2 g1 body L f2 h hle2
              rw [(Core.failLine_sound f2).2 g1 body L h2]
              exact h2
    · intro g ss L f' h hle
      obtain ⟨f2, rfl⟩ : ∃ f2, f' = f2 + 1 := ⟨f' - 1, by omega⟩
      have hle2 : fuel ≤ f2 := by omega
      cases ss with
      | nil => simp [failLineP] at h
      | cons s rest =>
        simp only [failLineP] at h ⊢
        cases hs : Core.evalS fuel g (eraseS s) with
        | some r =>
          obtain ⟨g1, fl⟩ := r
          rw [evalS_mono hle2 hs]
          cases fl with
          | normal => simp only [hs] at h ⊢; exact ih.2 g1 rest L f2 h hle2
          | brk l => simp [hs] at h
          | cont l => simp [hs] at h
        | none =>
          simp only [hs] at h
          have h2 := ih.1 g s L f2 h hle2
          rw [(Core.failLine_sound f2).1 g s L h2]
          exact h2

def FLSpec (g : List Val) (L : Nat) : ItemL → Prop
  | .s s => ∃ fuel, failLineS fuel g s = some L
  | .p ss => ∃ fuel, failLineP fuel g ss = some L

/-- a `FailL` derivation is found by `failLineS` / `failLineP` with enough fuel -/
theorem FailL.failLine {g : List Val} {item : ItemL} {L : Nat} (h : FailL g item L) : FLSpec g L item := by
  induction h with
  | letG h hg => exact ⟨1, by simp only [failLineS, failLine_none h, h]⟩
  | expr h hg => exact ⟨1, by simp only [failLineS, h]⟩
  | block _ ih =>
    obtain ⟨f, hf⟩ := ih
    exact ⟨f + 1, by simp only [failLineS, hf]⟩
  | whileC h hg => exact ⟨1, by simp only [failLineS, failLine_none h, h]⟩
  | @whileB g l lbl c body vc g1 L h1 h2 _ ih =>
    obtain ⟨f, hf⟩ := ih
    have hn := (Core.failLine_sound f).2 g1 body L hf
    exact ⟨f + 1, by simp [failLineS, h1, h2, hn, hf]⟩
  | @whileN g l lbl c body vc g1 f g2 fl L h1 h2 h3 h4 _ ih =>
    obtain ⟨f', hf'⟩ := ih
    have e1 := evalP_mono (Nat.le_max_left f f') h3
    have e2 := (failLine_mono f').1 g2 _ L (max f f') hf' (Nat.le_max_right f f')
    exact ⟨max f f' + 1, by simp [failLineS, h1, h2, e1, h4, e2]⟩
  | @loopB g l lbl body L _ ih =>
    obtain ⟨f, hf⟩ := ih
    have hn := (Core.failLine_sound f).2 g body L hf
    exact ⟨f + 1, by simp [failLineS, hn, hf]⟩
  | @loopN g l lbl body f g2 fl L h1 h2 _ ih =>
    obtain ⟨f', hf'⟩ := ih
    have e1 := evalP_mono (Nat.le_max_left f f') h1
    have e2 := (failLine_mono f').1 g2 _ L (max f f') hf' (Nat.le_max_right f f')
    exact ⟨max f f' + 1, by simp [failLineS, e1, h2, e2]⟩
  | ifC h hg => exact ⟨1, by simp only [failLineS, failLine_none h, h]⟩
  | ifT h1 h2 _ ih =>
    obtain ⟨f, hf⟩ := ih
    exact ⟨f + 1, by simp [failLineS, h1, h2, hf]⟩
  | ifE h1 h2 _ ih =>
    obtain ⟨f, hf⟩ := ih
    exact ⟨f + 1, by simp [failLineS, h1, h2, hf]⟩
  | @head g s rest L _ ih =>
    obtain ⟨f, hf⟩ := ih
    have hn := (Core.failLine_sound f).1 g s L hf
    exact ⟨f + 1, by simp [failLineP, hn, hf]⟩
  | @tail g s rest f g1 L h1 _ ih =>
    obtain ⟨f', hf'⟩ := ih
    have e1 := evalS_mono (Nat.le_max_left f f') h1
    have e2 := (failLine_mono f').2 g1 rest L (max f f') hf' (Nat.le_max_right f f')
    exact ⟨max f f' + 1, by simp [failLineP, e1, e2]⟩

/-- **the oracle and `failLineP` agree on which construct of a program fails**: the oracle's
runtime error `.rt l` on the line-annotated program ⇒ `failLineP fuel g ss = some l` for some fuel -/
theorem oracle_stmts_error_line {nm : Nat → String} {fuel l : Nat} {ss : List LStmt} {vis : Core.Vis} {env : Env} {st st' : St}
    {g : List Val} {last : Val}
    (hr : GR vis env st g) (hok : wfP nm g.length vis (eraseP ss) = true)
    (h : run (evalStmts fuel env (toStmtsL nm ss) last) st = (.error (.rt l), st')) :
    ∃ fuelC, failLineP fuelC g ss = some l :=
  (ref_stmts_failL hr hok h).failLine

theorem Sim.ok {α} {o1 o2 : Except Err α × St} {a : α} {s : St} (hs : Sim o1 o2) (h : o1 = (.ok a, s)) : o2 = (.ok a, s) := by
  rcases hs with rfl | ⟨l1, l2, s', rfl, rfl⟩
  · exact h
  · cases h

/-- **the value direction carries over** (lines do not influence values): RefProg's
`ref_stmts_core` for the line-aware embedding -/
theorem ref_stmts_coreL {nm : Nat → String} {fuel : Nat} {ss : List LStmt} {vis : Core.Vis} {env env' : Env} {st st' : St}
    {g : List Val} {last v : Val} {flow : Flow}
    (hr : GR vis env st g) (hok : wfP nm g.length vis (eraseP ss) = true)
    (h : run (evalStmts fuel env (toStmtsL nm ss) last) st = (.ok (flow, v, env'), st')) :
    ∃ fuel' g' flow', flow = toFlow flow' ∧ Core.evalP fuel' g (eraseP ss) = some (g', flow') ∧ g'.length = g.length ∧
      Coupled st' g' ∧ (flow' = .normal → GR (visAfterP nm vis (eraseP ss)) env' st' g') :=
  ref_stmts_core (ln := 0) hr hok ((sim_stmts nm 0 ss fuel env st last).ok h)

section VmP
open P2sh.Core (Instr codeAt poolAt compile consts encode fitsI fetch lineAt byteLines compileP constsP bytes lineTableP)
open P2sh.CoreVm (scalar Rel)

/-- `ChainProg.oracle_program_vm` for the line-aware embedding: a program the oracle runs to its
normal end is run to the same end by the VM model (lines do not influence values) -/
theorem oracle_program_vm_L {nm : Nat → String} {N fuel : Nat} {ss : List LStmt} {env' : Ref.Env} {st' : Ref.St} {v : Val}
    (hok : wfP nm N [] (eraseP ss) = true)
    (h : run (evalStmts fuel [[]] (toStmtsL nm ss) .null) {} = (.ok (.normal, v, env'), st'))
    (main : FnDef) (hcode : main.code = encode (compileP 0 0 [] (eraseP ss)))
    (hlines : main.code.length ≤ main.lines.length)
    (hK : ∀ c ∈ constsP (eraseP ss), scalar c = true) (hn : N ≤ P2sh.Gen.Limits.GLOBALS_SIZE)
    (hfit : (compileP 0 0 [] (eraseP ss)).all fitsI = true) (hd : ChainProg.depthP (eraseP ss) ≤ Vm.stackSize) :
    ∃ fuelV vs' g', Vm.run main (constsP (eraseP ss)) fuelV = (.ok (), vs') ∧
      Rel (compileP 0 0 [] (eraseP ss)) (constsP (eraseP ss)) ⟨bytes (compileP 0 0 [] (eraseP ss)), [], g'⟩ vs' ∧
      vs'.sp = 0 ∧ g'.length = N ∧ (∀ i, vs'.globals.getD i .null = g'.getD i .null) ∧
      GR (visAfterP nm [] (eraseP ss)) env' st' g' ∧
      (∀ name i, Core.globalIndex (visAfterP nm [] (eraseP ss)) name = some i →
        ∃ c, Ref.lookupEnv name env' = some (.g c) ∧ st'.cells.getD c .null = vs'.globals.getD i .null) :=
  ChainProg.oracle_program_vm (ln := 0) hok ((sim_stmts nm 0 ss fuel [[]] {} .null).ok h) main hcode hlines hK hn hfit hd

/-- **C13 end to end, whole programs.**  `ss`: any line-annotated core program -- `let` anywhere,
expression statements, blocks, `while`, `loop`, labelled and plain `break` / `continue`,
statement-level `if`, nested arbitrarily -- whose erasure is well-scoped (`RefProg.wfP`);
`toStmtsL nm ss` its AST, every node on its own line.  `main.code` is the encoding of the compiled
program, `main.lines` the per-byte line table the compiler records (`byteLines … (lineTableP ss)`:
`Instructions.lines`), the pool its constants.  If the oracle's run of the program (started as
`Driver/LangDrv.lean` starts it) ends in the runtime error `.rt l` -- in a `let`, an expression
statement, a loop condition, the condition of an `if`, at any depth, after any number of loop
iterations -- then `Vm.run` ends, for some fuel, in the runtime error `.err msg l` **with the same
line `l`** (`main.lines[pc]` for the `pc` of the failing instruction), or -- only if the code contains a
`Mul` instruction -- in the panic "capacity overflow" (the alternative of
`ChainProg.oracle_program_error_vm`, kept as there). -/
theorem oracle_program_error_vm_line {nm : Nat → String} {N fuel l : Nat} {ss : List LStmt} {st' : Ref.St}
    (hok : wfP nm N [] (eraseP ss) = true)
    (h : run (evalStmts fuel [[]] (toStmtsL nm ss) .null) {} = (.error (.rt l), st'))
    (main : FnDef) (hcode : main.code = encode (compileP 0 0 [] (eraseP ss)))
    (hlines : main.lines = byteLines (compileP 0 0 [] (eraseP ss)) (lineTableP ss))
    (hK : ∀ c ∈ constsP (eraseP ss), scalar c = true) (hn : N ≤ P2sh.Gen.Limits.GLOBALS_SIZE)
    (hfit : (compileP 0 0 [] (eraseP ss)).all fitsI = true) (hd : ChainProg.depthP (eraseP ss) ≤ Vm.stackSize) :
    ∃ fuelV vs' r, Vm.run main (constsP (eraseP ss)) fuelV = (.error r, vs') ∧
      ((∃ msg pc, r = .err msg l ∧ main.lines[pc]? = some l ∧
          (fetch (compileP 0 0 [] (eraseP ss)) pc).isSome = true) ∨
        (r = .panic "capacity overflow" ∧ ∃ pc, fetch (compileP 0 0 [] (eraseP ss)) pc = some (.op .mul))) := by
  have hlen : (List.replicate N Val.null).length = N := List.length_replicate
  have hFL := ref_stmts_failL (g := List.replicate N .null) (GR.init N) (by rw [hlen]; exact hok) h
  have hF : ChainProg.Fail (List.replicate N .null) (.p (eraseP ss)) := hFL.fail
  obtain ⟨s, hs, hFl⟩ := (ChainProg.fail_machine hF).1 (compileP 0 0 [] (eraseP ss)) (constsP (eraseP ss)) 0 0 [] []
    Vm.stackSize (Chain.codeAt_self _) (Chain.poolAt_self _) (by simpa using hd)
  -- C13: the stuck state of the machine carries the line `failLineP` computes; the machine is deterministic
  obtain ⟨fuelC, hfl⟩ := hFL.failLine
  obtain ⟨st1, h1, h2, h3⟩ := P2sh.Props.C13.fail_line_program fuelC ss _ l hfl
  have hst : s = st1 := P2sh.Props.C13.stuck_unique hs.steps (hFl.stuck (K := constsP (eraseP ss))) h1 h2
  have hline : main.lines[s.pc]? = some l := by rw [hst, hlines]; exact h3
  have hlines' : main.code.length ≤ main.lines.length := by
    rw [hcode, hlines, CoreVm.encode_length, Core.byteLines_length _ _ (Core.lineTableP_length 0 0 [] ss)]
    exact Nat.le_refl _
  obtain ⟨vs1, hv, R1, hm1⟩ := CoreVm.steps_refine_bounded (CoreVm.rel_init main N hcode hlines' hK hn) hfit hs
  obtain ⟨r, vs', het, hdis⟩ := Chain.fails_tick R1 hFl
  obtain ⟨m, hm⟩ := hv.fuel 1
  refine ⟨m + 1, vs', r, ?_, ?_⟩
  · show P2sh.Props.BcvWp.exec (Vm.runLoop (m + 1)) (Vm.initState main (constsP (eraseP ss))) = _
    rw [hm, P2sh.Props.Bcv.exec_runLoop_succ, het]
  · rcases hdis with ⟨msg, line, f, rfl, hfr, hl⟩ | ⟨rfl, hmul⟩
    · have hfn : f.fn = main := by
        have : some f.fn = some main := by simpa [CoreVm.mainFn, hfr, Vm.initState] using hm1
        exact Option.some.inj this
      rw [hfn, hline] at hl
      cases hl
      exact .inl ⟨msg, s.pc, rfl, hline, hFl.fetch⟩
    · exact .inr ⟨rfl, s.pc, hmul⟩

/-- without `*` in the program's code: no alternative -/
theorem oracle_program_error_vm_line_nomul {nm : Nat → String} {N fuel l : Nat} {ss : List LStmt} {st' : Ref.St}
    (hok : wfP nm N [] (eraseP ss) = true)
    (h : run (evalStmts fuel [[]] (toStmtsL nm ss) .null) {} = (.error (.rt l), st'))
    (main : FnDef) (hcode : main.code = encode (compileP 0 0 [] (eraseP ss)))
    (hlines : main.lines = byteLines (compileP 0 0 [] (eraseP ss)) (lineTableP ss))
    (hK : ∀ c ∈ constsP (eraseP ss), scalar c = true) (hn : N ≤ P2sh.Gen.Limits.GLOBALS_SIZE)
    (hfit : (compileP 0 0 [] (eraseP ss)).all fitsI = true) (hd : ChainProg.depthP (eraseP ss) ≤ Vm.stackSize)
    (hmul : (compileP 0 0 [] (eraseP ss)).all (fun i => !Chain.isMul i) = true) :
    ∃ fuelV vs' msg, Vm.run main (constsP (eraseP ss)) fuelV = (.error (.err msg l), vs') := by
  obtain ⟨fuelV, vs', r, hrun, hdis⟩ := oracle_program_error_vm_line hok h main hcode hlines hK hn hfit hd
  rcases hdis with ⟨msg, pc, rfl, -, -⟩ | ⟨-, pc, hfe⟩
  · exact ⟨fuelV, vs', msg, hrun⟩
  · have hmem := CoreVm.fetch_mem _ _ _ hfe
    have := (List.all_eq_true.mp hmul) _ hmem
    simp [Chain.isMul] at this

end VmP

end Progs

/-! ## the embedding is what the line-keeping recogniser reads back -/

/-- patterns a source pattern denotes -/
def patOKL (p : LPat) : Bool := patOK (erasePat p)

mutual
/-- annotated expressions that source text denotes (`RefCore.denotable` with the lines) -/
def denotableL (nm : Nat → String) : LExpr → Bool
  | .lit _ v => isLit v
  | .tru _ | .fls _ | .null _ | .gget _ _ => true
  | .un _ _ e | .gset _ _ e => denotableL nm e
  | .bin _ _ a b | .lt _ a b | .le _ a b | .and _ a b | .or _ a b => denotableL nm a && denotableL nm b
  | .ite _ c t e => denotableL nm c && denotableL nm t && denotableL nm e
  | .matchE _ s arms => denotableL nm s && denotableArmsL nm arms && Core.kindsUniform (toArmsL nm arms)
def denotableArmsL (nm : Nat → String) : LArms → Bool
  | .last _ _ d => denotableL nm d
  | .cons _ pats body rest => pats.all patOKL && denotableL nm body && denotableArmsL nm rest
end

theorem ofPatL_toPatL (p : LPat) (h : patOKL p = true) : Core.ofPatL (toPatL p) = some p := by
  cases p with
  | dflt l => rfl
  | bool l b => rfl
  | lit l w => cases w <;> first | rfl | (simp [patOKL, erasePat, patOK] at h)
  | range l incl lo hi =>
    cases lo <;> cases hi <;> first | (simp [patOKL, erasePat, patOK] at h; done) | (cases incl <;> rfl)

theorem ofPatsL_toPatL : ∀ ps : List LPat, ps.all patOKL = true → Core.ofPatsL (ps.map toPatL) = some ps
  | [], _ => rfl
  | p :: ps, h => by
    simp only [List.all_cons, Bool.and_eq_true] at h
    simp [Core.ofPatsL, ofPatL_toPatL p h.1, ofPatsL_toPatL ps h.2]

def RoundTripL (vis : Core.Vis) (nm : Nat → String) (n : Nat) (e : LExpr) : Prop :=
  denotableL nm e = true → globalsBelow n (erase e) = true → ∀ fuel, RefCore.depth (erase e) < fuel →
    Core.ofExprL vis fuel (toAstL nm e) = some e

theorem roundTrip_armsL (vis : Core.Vis) (nm : Nat → String) (n : Nat) :
    ∀ arms : LArms, arms.All (RoundTripL vis nm n) → denotableArmsL nm arms = true →
      globalsBelowArms n (eraseArms arms) = true → ∀ fuel, RefCore.depthArms (eraseArms arms) < fuel →
      Core.ofArmsL vis fuel (toArmsL nm arms) = some arms := by
  intro arms
  induction arms using LArms.ind with
  | last la lp d =>
    intro hall hd hg fuel hf
    simp only [LArms.All] at hall
    simp only [denotableArmsL] at hd
    simp only [eraseArms, globalsBelowArms] at hg
    simp only [eraseArms, RefCore.depthArms] at hf
    obtain ⟨f, rfl⟩ : ∃ f, fuel = f + 1 := ⟨fuel - 1, by omega⟩
    rw [toArmsL, exprBlock, Core.ofArmsL]
    simp [Core.armBody, Core.lastDefault?, hall hd hg f (by omega)]
  | cons la pats body rest ih =>
    intro hall hd hg fuel hf
    simp only [LArms.All] at hall
    simp only [denotableArmsL, Bool.and_eq_true] at hd
    simp only [eraseArms, globalsBelowArms, Bool.and_eq_true] at hg
    simp only [eraseArms, RefCore.depthArms] at hf
    obtain ⟨f, rfl⟩ : ∃ f, fuel = f + 1 := ⟨fuel - 1, by omega⟩
    have hrest : ∃ a as, toArmsL nm rest = a :: as := by
      cases rest <;> simp [toArmsL]
    obtain ⟨a, as, hra⟩ := hrest
    rw [toArmsL, exprBlock, Core.ofArmsL]
    have hl : Core.lastDefault? (pats.map toPatL) (toArmsL nm rest) = none := by
      rw [hra]; unfold Core.lastDefault?; split <;> simp_all
    simp [Core.armBody, hl, hall.1 hd.1.2 hg.1 f (by omega), ofPatsL_toPatL pats hd.1.1,
      ih hall.2 hd.2 hg.2 f (by omega)]

/-- **`toAstL` is the inverse of the recogniser `Core.ofExprL`** (which reads the AST of parsed
source, keeping the lines) on every denotable annotated expression, for names `nm i` that the
visible globals `vis` resolve to slot `i` -/
theorem ofExprL_toAstL (vis : Core.Vis) (nm : Nat → String) (n : Nat)
    (hvis : ∀ i, i < n → Core.globalIndex vis (nm i) = some i) : ∀ e, RoundTripL vis nm n e := by
  intro e
  induction e with
  | lit l v =>
    intro hd _ fuel hf
    obtain ⟨f, rfl⟩ : ∃ f, fuel = f + 1 := ⟨fuel - 1, by omega⟩
    simp only [denotableL] at hd
    cases v <;> first | (simp [isLit] at hd; done) | (rw [toAstL, litAst, Core.ofExprL])
  | tru l => intro _ _ fuel hf; obtain ⟨f, rfl⟩ : ∃ f, fuel = f + 1 := ⟨fuel - 1, by omega⟩; rw [toAstL, Core.ofExprL]
  | fls l => intro _ _ fuel hf; obtain ⟨f, rfl⟩ : ∃ f, fuel = f + 1 := ⟨fuel - 1, by omega⟩; rw [toAstL, Core.ofExprL]
  | null l => intro _ _ fuel hf; obtain ⟨f, rfl⟩ : ∃ f, fuel = f + 1 := ⟨fuel - 1, by omega⟩; rw [toAstL, Core.ofExprL]
  | un l op a ih =>
    intro hd hg fuel hf
    simp only [denotableL] at hd
    simp only [erase, globalsBelow] at hg
    simp only [erase, RefCore.depth] at hf
    obtain ⟨f, rfl⟩ : ∃ f, fuel = f + 1 := ⟨fuel - 1, by omega⟩
    rw [toAstL, Core.ofExprL]
    simp [unOfString_unSym, ih hd hg f (by omega)]
  | bin l op a b iha ihb =>
    intro hd hg fuel hf
    simp only [denotableL, Bool.and_eq_true] at hd
    simp only [erase, globalsBelow, Bool.and_eq_true] at hg
    simp only [erase, RefCore.depth] at hf
    obtain ⟨f, rfl⟩ : ∃ f, fuel = f + 1 := ⟨fuel - 1, by omega⟩
    rw [toAstL, Core.ofExprL]
    simp only [iha hd.1 hg.1 f (by omega), ihb hd.2 hg.2 f (by omega)]
    cases op <;> rfl
  | lt l a b iha ihb =>
    intro hd hg fuel hf
    simp only [denotableL, Bool.and_eq_true] at hd
    simp only [erase, globalsBelow, Bool.and_eq_true] at hg
    simp only [erase, RefCore.depth] at hf
    obtain ⟨f, rfl⟩ : ∃ f, fuel = f + 1 := ⟨fuel - 1, by omega⟩
    rw [toAstL, Core.ofExprL]
    simp [iha hd.1 hg.1 f (by omega), ihb hd.2 hg.2 f (by omega)]
  | le l a b iha ihb =>
    intro hd hg fuel hf
    simp only [denotableL, Bool.and_eq_true] at hd
    simp only [erase, globalsBelow, Bool.and_eq_true] at hg
    simp only [erase, RefCore.depth] at hf
    obtain ⟨f, rfl⟩ : ∃ f, fuel = f + 1 := ⟨fuel - 1, by omega⟩
    rw [toAstL, Core.ofExprL]
    simp [iha hd.1 hg.1 f (by omega), ihb hd.2 hg.2 f (by omega)]
  | and l a b iha ihb =>
    intro hd hg fuel hf
    simp only [denotableL, Bool.and_eq_true] at hd
    simp only [erase, globalsBelow, Bool.and_eq_true] at hg
    simp only [erase, RefCore.depth] at hf
    obtain ⟨f, rfl⟩ : ∃ f, fuel = f + 1 := ⟨fuel - 1, by omega⟩
    rw [toAstL, Core.ofExprL]
    simp [iha hd.1 hg.1 f (by omega), ihb hd.2 hg.2 f (by omega)]
  | or l a b iha ihb =>
    intro hd hg fuel hf
    simp only [denotableL, Bool.and_eq_true] at hd
    simp only [erase, globalsBelow, Bool.and_eq_true] at hg
    simp only [erase, RefCore.depth] at hf
    obtain ⟨f, rfl⟩ : ∃ f, fuel = f + 1 := ⟨fuel - 1, by omega⟩
    rw [toAstL, Core.ofExprL]
    simp [iha hd.1 hg.1 f (by omega), ihb hd.2 hg.2 f (by omega)]
  | ite l c t e ihc iht ihe =>
    intro hd hg fuel hf
    simp only [denotableL, Bool.and_eq_true] at hd
    simp only [erase, globalsBelow, Bool.and_eq_true] at hg
    simp only [erase, RefCore.depth] at hf
    obtain ⟨f, rfl⟩ : ∃ f, fuel = f + 1 := ⟨fuel - 1, by omega⟩
    rw [toAstL, exprBlock, exprBlock, Core.ofExprL]
    simp [ihc hd.1.1 hg.1.1 f (by omega), iht hd.1.2 hg.1.2 f (by omega), ihe hd.2 hg.2 f (by omega)]
  | gget l i =>
    intro _ hg fuel hf
    simp only [erase, globalsBelow, decide_eq_true_eq] at hg
    obtain ⟨f, rfl⟩ : ∃ f, fuel = f + 1 := ⟨fuel - 1, by omega⟩
    rw [toAstL, Core.ofExprL]
    simp [hvis i hg]
  | gset l i e ih =>
    intro hd hg fuel hf
    simp only [denotableL] at hd
    simp only [erase, globalsBelow, Bool.and_eq_true, decide_eq_true_eq] at hg
    simp only [erase, RefCore.depth] at hf
    obtain ⟨f, rfl⟩ : ∃ f, fuel = f + 1 := ⟨fuel - 1, by omega⟩
    rw [toAstL, Core.ofExprL]
    simp [hvis i hg.1, ih hd hg.2 f (by omega)]
  | matchE l s arms ihs iharms =>
    intro hd hg fuel hf
    simp only [denotableL, Bool.and_eq_true] at hd
    simp only [erase, globalsBelow, Bool.and_eq_true] at hg
    simp only [erase, RefCore.depth] at hf
    obtain ⟨f, rfl⟩ : ∃ f, fuel = f + 1 := ⟨fuel - 1, by omega⟩
    rw [toAstL, Core.ofExprL]
    simp [ihs hd.1.1 hg.1 f (by omega), roundTrip_armsL vis nm n arms iharms hd.1.2 hg.2 f (by omega), hd.2]

/-! ## non-vacuity -/

section Examples
open P2sh.RefCore (nm1 globalScope)
open P2sh.Chain (st0 env0 rel0)
open P2sh.Core (compile consts encode byteLines)

/-- the function the VM runs: the encoding of the line-aware compile and its per-byte line table -/
def mainOfL (e : LExpr) : FnDef :=
  { code := encode (compile 0 0 (erase e)), lines := byteLines (compile 0 0 (erase e)) (lineTable e),
    numLocals := 0, numParams := 0, line := 0 }

/-- `1 +⏎ true *⏎ 2`: `+` and `1` on line 1, `true` and `*` on line 2, `2` on line 3 -/
def x1 : LExpr := .bin 1 .add (.lit 1 (.int 1)) (.bin 2 .mul (.tru 2) (.lit 3 (.int 2)))

/-- the oracle: a runtime error on the line of `*` … -/
theorem x1_ref : run (evalE 10 env0 (toAstL nm1 x1)) st0 = (.error (.rt 2), st0) := by rfl
/-- … `failLine` says the same (here by evaluation, in general by `oracle_error_line`) … -/
example : failLine [.null] x1 = some 2 := by rfl
example : failLine (List.replicate 1 .null) x1 = some 2 := oracle_error_line rel0 (by decide) x1_ref
/-- … the compiler's line table: `Constant`(1) `True`(2) `Constant`(3) `Mul`(2) `Add`(1), per byte -/
example : (mainOfL x1).lines = [1, 1, 1, 2, 3, 3, 3, 2, 1] := by decide
example : (mainOfL x1).code = [0, 0, 0, 7, 0, 0, 1, 4, 2] := by decide
/-- … and `Vm.run` reports the runtime error on line 2 (the code has a `Mul`: the panic
alternative of `Chain.oracle_error_vm` stays in the statement) -/
example : ∃ fuelV vs' r, Vm.run (mainOfL x1) (consts (erase x1)) fuelV = (.error r, vs') ∧
    ((∃ msg pc, r = .err msg 2 ∧ (mainOfL x1).lines[pc]? = some 2 ∧ (Core.fetch (compile 0 0 (erase x1)) pc).isSome = true) ∨
      (r = .panic "capacity overflow" ∧ ∃ pc, Core.fetch (compile 0 0 (erase x1)) pc = some (.op .mul))) :=
  oracle_error_vm_line rel0 (by decide) x1_ref (mainOfL x1) rfl rfl (by decide) (by decide) (by decide) (by decide)

/-- `(null - 1) <⏎ (null + 1)`: both operands fail; `<` evaluates its RIGHT operand first, so the
error is that of `+` on line 2 -/
def x2 : LExpr := .lt 1 (.bin 1 .sub (.null 1) (.lit 1 (.int 1))) (.bin 2 .add (.null 2) (.lit 2 (.int 1)))

theorem x2_ref : run (evalE 10 env0 (toAstL nm1 x2)) st0 = (.error (.rt 2), st0) := by rfl
example : failLine [.null] x2 = some 2 := by rfl
example : (mainOfL x2).lines = [2, 2, 2, 2, 2, 1, 1, 1, 1, 1, 1] := by decide
/-- no `Mul` in the code: `Vm.run` ends in the runtime error on line 2, no alternative -/
example : ∃ fuelV vs' msg, Vm.run (mainOfL x2) (consts (erase x2)) fuelV = (.error (.err msg 2), vs') :=
  oracle_error_vm_line_nomul rel0 (by decide) x2_ref (mainOfL x2) rfl rfl (by decide) (by decide) (by decide) (by decide)
    (by decide)

/-- `if (x = 5) > 3 {⏎ match x { 1..=9 =>⏎ x - 'c', _ => 0 } } else { 0 }`: an assignment, an `if`, a
`match` with a range; the subtraction in the selected arm, on line 3, fails -/
def x3 : LExpr :=
  .ite 1 (.bin 1 .greater (.gset 1 0 (.lit 1 (.int 5))) (.lit 1 (.int 3)))
    (.matchE 2 (.gget 2 0)
      (.cons 2 [.range 2 true (.int 1) (.int 9)] (.bin 3 .sub (.gget 3 0) (.lit 3 (.char 'c')))
        (.last 3 3 (.lit 3 (.int 0)))))
    (.lit 3 (.int 0))

theorem x3_ref : run (evalE 20 env0 (toAstL nm1 x3)) st0 = (.error (.rt 3), { st0 with cells := [.int 5] }) := by rfl
example : ∃ fuelV vs' msg, Vm.run (mainOfL x3) (consts (erase x3)) fuelV = (.error (.err msg 3), vs') :=
  oracle_error_vm_line_nomul rel0 (by decide) x3_ref (mainOfL x3) rfl rfl (by decide) (by decide) (by decide) (by decide)
    (by decide)

/-- the whole program `1 +⏎ true *⏎ 2;` (the `Pop` of the statement on line 1) -/
def mainStmt1 : FnDef :=
  { code := encode (Core.compileP 0 0 [] (Core.eraseP [.expr 1 x1])),
    lines := byteLines (Core.compileP 0 0 [] (Core.eraseP [.expr 1 x1])) (Core.lineTableP [.expr 1 x1]),
    numLocals := 0, numParams := 0, line := 0 }
example : mainStmt1.lines = [1, 1, 1, 2, 3, 3, 3, 2, 1, 1] := by decide
example : ∃ fuelV vs' r, Vm.run mainStmt1 (Core.constsP (Core.eraseP [.expr 1 x1])) fuelV = (.error r, vs') ∧
    ((∃ msg, r = .err msg 2) ∨ r = .panic "capacity overflow") := by
  obtain ⟨f, vs', r, h, hd⟩ := oracle_exprstmt_error_vm_line (ls := 1) rel0 (by decide) x1_ref mainStmt1 rfl rfl
    (by decide) (by decide) (by decide) (by decide)
  refine ⟨f, vs', r, h, ?_⟩
  rcases hd with ⟨msg, pc, h1, -, -⟩ | ⟨h1, -⟩
  · exact .inl ⟨msg, h1⟩
  · exact .inr h1

/-- a value: the lines do not matter (`ref_value_coreL`) -/
def x4 : LExpr := .and 1 (.lt 1 (.lit 1 (.int 1)) (.lit 2 (.int 2))) (.un 3 .bang (.fls 4))
theorem x4_ref : run (evalE 10 env0 (toAstL nm1 x4)) st0 = (.ok (.val (.bool true) env0), st0) := by rfl
example : ∃ g', Core.eval (List.replicate 1 .null) (erase x4) = some (.bool true, g') :=
  let ⟨g', h, _⟩ := ref_value_coreL rel0 (by decide) x4_ref
  ⟨g', h⟩

/-- the recogniser that keeps the lines reads the embedding back -/
example : Core.ofExprL [("x", 0)] 20 (toAstL nm1 x1) = some x1 := by rfl
example : Core.ofExprL [("x", 0)] 20 (toAstL nm1 x3) = some x3 :=
  ofExprL_toAstL [("x", 0)] nm1 1 (fun i hi => by
    have h0 : i = 0 := by omega
    subst h0; rfl) x3 (by decide) (by decide) 20 (by decide)

/-- RefCore's one-line embedding is the constant annotation -/
example : toAstL nm1 (annot 1 RefCore.e1) = toAst nm1 1 RefCore.e1 := toAstL_annot nm1 1 RefCore.e1

/-- `C13.ex4`: `let i = 0;⏎ while i < 5 {⏎ i = i + 1;⏎ 10 / (3 - i);⏎ }` fails on line 4, in the
third iteration of the loop -/
def progL4 : List Core.LStmt := P2sh.Props.C13.ex4

theorem progL4_wf : RefProg.wfP nm1 1 [] (Core.eraseP progL4) = true := by decide

/-- the oracle: a runtime error on line 4 (the division) … -/
def isRtAt {α} (o : Except Err α × St) (l : Nat) : Bool :=
  match o.1 with
  | .error (.rt l') => l' == l
  | _ => false

theorem of_isRtAt {α} {o : Except Err α × St} {l : Nat} (h : isRtAt o l = true) : ∃ st', o = (.error (.rt l), st') := by
  obtain ⟨r, st'⟩ := o
  cases r with
  | ok a => simp [isRtAt] at h
  | error e =>
    cases e with
    | rt l' =>
      have : l' = l := by simpa [isRtAt] using h
      subst this
      exact ⟨st', rfl⟩
    | unc => simp [isRtAt] at h
    | mem => simp [isRtAt] at h
    | fuel => simp [isRtAt] at h

theorem progL4_ref : ∃ st', run (evalStmts 60 [[]] (toStmtsL nm1 progL4) .null) {} = (.error (.rt 4), st') :=
  of_isRtAt (by decide +kernel)

/-- … `failLineP` finds the same line … -/
example : ∃ fuelC, Core.failLineP fuelC (List.replicate 1 .null) progL4 = some 4 := by
  obtain ⟨st', h⟩ := progL4_ref
  exact oracle_stmts_error_line (RefProg.GR.init 1) (by decide) h

def mainProgL (ss : List Core.LStmt) : FnDef :=
  { code := encode (Core.compileP 0 0 [] (Core.eraseP ss)),
    lines := byteLines (Core.compileP 0 0 [] (Core.eraseP ss)) (Core.lineTableP ss),
    numLocals := 0, numParams := 0, line := 0 }

/-- … and `Vm.run` on the real bytes, with the compiler's line table, reports the runtime error on
line 4 (the code has no `Mul`: no alternative) -/
example : ∃ fuelV vs' msg, Vm.run (mainProgL progL4) (Core.constsP (Core.eraseP progL4)) fuelV = (.error (.err msg 4), vs') := by
  obtain ⟨st', h⟩ := progL4_ref
  exact oracle_program_error_vm_line_nomul progL4_wf h (mainProgL progL4) rfl rfl (by decide) (by decide) (by decide)
    (by decide) (by decide)

/-- `C13.ex5`: a labelled `loop` with `continue out`, a `match` whose arm for 3 fails on line 6 in the
third round, a `break` -/
def progL5 : List Core.LStmt := P2sh.Props.C13.ex5
theorem progL5_ref : ∃ st', run (evalStmts 100 [[]] (toStmtsL nm1 progL5) .null) {} = (.error (.rt 6), st') :=
  of_isRtAt (by decide +kernel)
example : ∃ fuelV vs' msg, Vm.run (mainProgL progL5) (Core.constsP (Core.eraseP progL5)) fuelV = (.error (.err msg 6), vs') := by
  obtain ⟨st', h⟩ := progL5_ref
  exact oracle_program_error_vm_line_nomul (N := 1) (by decide) h (mainProgL progL5) rfl rfl (by decide) (by decide) (by decide)
    (by decide) (by decide)

/-- the recogniser that keeps the lines reads the program back -/
example : (Core.ofStmtsL 30 0 [] [] (toStmtsL nm1 progL4)).map (·.1) = some progL4 := by rfl

end Examples

#print axioms toAstL_annot
#print axioms erase_annot
#print axioms ofExprL_toAstL
#print axioms main_coreL
#print axioms ref_value_coreL
#print axioms ref_error_coreL
#print axioms ref_no_jump_coreL
#print axioms oracle_error_line
#print axioms oracle_error_line_const
#print axioms oracle_error_vm_line_at
#print axioms oracle_error_vm_line
#print axioms oracle_error_vm_line_nomul
#print axioms oracle_exprstmt_error_vm_line
#print axioms main_coreGL
#print axioms sim_expr
#print axioms sim_stmts
#print axioms ref_stmts_failL
#print axioms failLine_mono
#print axioms oracle_stmts_error_line
#print axioms ref_stmts_coreL
#print axioms oracle_program_vm_L
#print axioms oracle_program_error_vm_line
#print axioms oracle_program_error_vm_line_nomul
#print axioms progL4_ref

end P2sh.ChainLines
