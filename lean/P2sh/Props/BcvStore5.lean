import P2sh.Props.BcvStore4
import P2sh.Props.BcvTick
/-!
# The store typing, part 5: the frame-stack invariant and the store typing together are an invariant of
`VM::run` on checked programs, and no iteration panics (no assumption `CD` left)
-/
namespace P2sh.Props.Bcv
open P2sh P2sh.Vm P2sh.Bcv P2sh.Code P2sh.Props.BcvWp P2sh.Props.BcvVals

/-- (b) in the no-panic calculus: one iteration of `VM::run` from a state with the frame-stack invariant and the
store typing does not panic and re-establishes the store typing -/
theorem sinv_tick_wp {consts : List Val} {s : St}
    (hfns : ∀ g, Val.func g ∈ consts → ∃ sm, Bcv.check consts .func g = .ok sm)
    (hI : Inv consts s) (hS : SInv consts s) : wp tick (fun _ s' => SInv consts s') s :=
  wp_mono (sinv_tick hfns hI hS (tick_inv hI (sinv_cd hS))) (fun _ _ h => h.2)

/-- both invariants together: no assumption about closures is left -/
theorem tick_inv_sinv {consts : List Val} {s : St}
    (hfns : ∀ g, Val.func g ∈ consts → ∃ sm, Bcv.check consts .func g = .ok sm)
    (hI : Inv consts s) (hS : SInv consts s) : wp tick (fun _ s' => Inv consts s' ∧ SInv consts s') s :=
  sinv_tick hfns hI hS (tick_inv hI (sinv_cd hS))

end P2sh.Props.Bcv

