import P2sh.Model.Builtins
import P2sh.Props.C09
/-!
# C08 — execution never crashes: the pure builtins and the format family

The model of `src/builtins/functions.rs` (`Builtins.call`) carries an explicit `panic` outcome.
`builtins_no_panic`: no builtin name and no argument list (any arity, any kinds) reaches it.
The model has no `panic` site of its own left after the repairs; where the implementation may
still abort for want of memory (a format width beyond 100 000 bytes of padding — the bound up to
which the reference renderer of C12 fixes padded text) the model
*declines* (`.unmodelled`) instead of answering, so the exclusion is made explicit the other way
round: `builtins_answer`, `str_declines`, `float_declines`, `format_answers` say exactly when the
model declines — `hugeWidth` is the memory exclusion, as `hugeRepeat` is for `*` in C09.
`ops_and_builtins_no_panic` restates the operator half (C09) next to it.
-/
namespace P2sh.Props.C08
open P2sh P2sh.Builtins

theorem arity1_no_panic (args : List Val) (k : Val → Res) (hk : ∀ v msg, k v ≠ .panic msg) :
    ∀ msg, arity1 args k ≠ .panic msg := by
  intro msg
  unfold arity1
  split
  · exact hk _ _
  · intro h; cases h

theorem builtins_no_panic (name : String) (args : List Val) : ∀ msg, call name args ≠ .panic msg := by
  intro msg
  unfold call
  split
  all_goals first
    | (apply arity1_no_panic; intro v msg; (repeat' split) <;> (intro h; cases h); done)
    | (repeat' split) <;> (intro h; cases h)

/-- non-vacuity: the requests that used to crash (negative index, out-of-range code point, wrong arity) -/
example : ∀ msg, call "get" [.arr 0 [], .int (-1)] ≠ .panic msg := builtins_no_panic _ _
example : call "char" [.int 55296] = .ok .null := rfl
example : ∃ m, call "push" [.arr 0 []] = .err m := ⟨_, rfl⟩

/-! ## the model answers: outside `str` of an undetermined text, `float` of a string (Rust's
float parser is not modelled) and the format family below, a pure builtin is never declined -/

def totalNames : List String :=
  ["len", "first", "last", "rest", "push", "pop", "get", "contains", "insert", "int", "char", "byte",
   "tolower", "toupper", "is_error", "sort", "chars", "join", "encode_utf8", "decode_utf8", "round"]

theorem arity1_modelled (args : List Val) (k : Val → Res) (hk : ∀ v, k v ≠ .unmodelled) :
    arity1 args k ≠ .unmodelled := by
  unfold arity1
  split
  · exact hk _
  · intro h; cases h

theorem builtins_answer (name : String) (hn : name ∈ totalNames) (args : List Val) :
    call name args ≠ .unmodelled := by
  simp only [totalNames, List.mem_cons, List.mem_nil_iff, or_false] at hn
  rcases hn with rfl | rfl | rfl | rfl | rfl | rfl | rfl | rfl | rfl | rfl | rfl | rfl | rfl | rfl | rfl |
    rfl | rfl | rfl | rfl | rfl | rfl <;> simp only [call]
  all_goals first
    | (apply arity1_modelled; intro v; (repeat' split) <;> (intro h; cases h); done)
    | (repeat' split) <;> (intro h; cases h)

theorem str_declines (args : List Val) (h : call "str" args = .unmodelled) :
    ∃ v, args = [v] ∧ display v = none := by
  simp only [call, arity1] at h
  split at h
  · rename_i a
    refine ⟨a, rfl, ?_⟩
    repeat' split at h
    all_goals first | (cases h; done) | assumption
  · cases h

theorem float_declines (args : List Val) (h : call "float" args = .unmodelled) : ∃ s, args = [.str s] := by
  simp only [call, arity1] at h
  split at h
  · repeat' split at h
    all_goals first | (cases h; done) | exact ⟨_, rfl⟩
  · cases h

example : call "str" [.err "io"] = .unmodelled := rfl
example : call "sort" [.arr 0 [.int 2, .str "a"]] ≠ .unmodelled := builtins_answer _ (by decide) _

/-! ## the format family -/

/-- every message `format_buf` / `format_obj` (as modelled) can fail with; the two bracketed
markers are not messages of p2sh but the model declining: a padding of more than 65 536 bytes
(the memory exclusion) and a text the model does not determine (floats under a width, maps,
error objects) -/
def fmtErrs : List String :=
  ["Failed to parse width", "Can't format non-number as binary", "Can't format non-number as octal",
   "Can't format non-number as hex", "⟦unmodelled-display⟧", "⟦huge-width⟧",
   "positional arguments exceeded the count", "invalid digit found in string",
   "positional argument index exceeded the count", "takes a minimum of one argument",
   "Expected a string or format specifier"]

structure ErrIn {α} (r : Except String α) : Prop where
  mem : ∀ e, r = .error e → e ∈ fmtErrs

theorem ErrIn.pure {α} (a : α) : ErrIn (Pure.pure a : Except String α) := ⟨by intro e h; cases h⟩
theorem ErrIn.ok {α} (a : α) : ErrIn (Except.ok a : Except String α) := ⟨by intro e h; cases h⟩
theorem ErrIn.throw {α} (m : String) (hm : m ∈ fmtErrs) : ErrIn (throw m : Except String α) :=
  ⟨by intro e h; cases h; exact hm⟩
theorem ErrIn.bind {α β} (x : Except String α) (f : α → Except String β) (hx : ErrIn x) (hf : ∀ a, ErrIn (f a)) :
    ErrIn (x >>= f) := by
  constructor
  intro e h
  cases x with
  | error m => cases h; exact hx.mem _ rfl
  | ok a => exact (hf a).mem e h

/-- structural walk through a `do` block: every leaf is a `pure` or a listed `throw` -/
macro "err_walk" : tactic => `(tactic|
  repeat' first
    | with_reducible exact ErrIn.pure _
    | with_reducible exact ErrIn.ok _
    | with_reducible refine ErrIn.throw _ ?_
    | with_reducible apply ErrIn.bind
    | intro _
    | split
    | dsimp only
    | decide)

theorem formatObj_errs (padding : String) (just : Justify) (widthStr : String) (nf : NumFmt) (obj : Val) :
    ErrIn (formatObj padding just widthStr nf obj) := by
  unfold formatObj
  err_walk

theorem formatLoop_errs (args : List Val) : ∀ (fuel : Nat) (cs : List Char) (st : FState),
    ErrIn (formatLoop args fuel cs st) := by
  intro fuel
  induction fuel with
  | zero => intro cs st; unfold formatLoop; exact ErrIn.pure _
  | succ fuel ih =>
    intro cs st
    cases cs with
    | nil => unfold formatLoop; exact ErrIn.pure _
    | cons curr rest =>
      unfold formatLoop
      repeat' first
        | exact ih _ _
        | with_reducible exact ErrIn.pure _
        | with_reducible refine ErrIn.throw _ ?_
        | exact formatObj_errs _ _ _ _ _
        | with_reducible apply ErrIn.bind
        | intro _
        | split
        | dsimp only
        | decide

theorem formatBuf_errs (args : List Val) : ErrIn (formatBuf args) := by
  unfold formatBuf
  split
  · exact ErrIn.throw _ (by decide)
  · exact formatLoop_errs _ _ _ _
  · exact ErrIn.throw _ (by decide)

/-- **the memory exclusion of the format family**: some field asks for more than 100 000 bytes of
padding (`format!` with an absurd width allocates it); the model declines (`.unmodelled`) -/
def hugeWidth (args : List Val) : Bool :=
  match formatBuf args with
  | .error e => e == "⟦huge-width⟧"
  | .ok _ => false

/-- the text of some argument is not determined by the model (a float under a width, a map with
several entries, an error object): the model declines, the implementation is tested only -/
def unmodelledDisplay (args : List Val) : Bool :=
  match formatBuf args with
  | .error e => e == "⟦unmodelled-display⟧"
  | .ok _ => false

/-- outside the two exclusions `format` answers: a string or a runtime error, for every format
string and every argument list -/
theorem format_answers (args : List Val) (hw : hugeWidth args = false) (hd : unmodelledDisplay args = false) :
    (∃ s, call "format" args = .ok (.str s)) ∨ (∃ m, call "format" args = .err m) := by
  simp only [call]
  cases args with
  | nil => exact .inr ⟨_, rfl⟩
  | cons a rest =>
    simp only
    have he := formatBuf_errs (a :: rest)
    unfold hugeWidth at hw
    unfold unmodelledDisplay at hd
    cases h : formatBuf (a :: rest) with
    | ok pieces => exact .inl ⟨_, rfl⟩
    | error e =>
      rw [h] at hw hd
      have hm := he.mem e h
      simp only [fmtErrs, List.mem_cons, List.mem_nil_iff, or_false] at hm
      right
      rcases hm with rfl | rfl | rfl | rfl | rfl | rfl | rfl | rfl | rfl | rfl | rfl
      all_goals first
        | (exact absurd hw (by decide))
        | (exact absurd hd (by decide))
        | exact ⟨_, if_neg (by decide +kernel)⟩

/-- the print family writes a text or fails with a runtime error -/
theorem printLen_total (args : List Val) (nl : Bool) :
    (∃ t n, printLen args nl = .ok (t, n)) ∨ (∃ m, printLen args nl = .error m) := by
  cases h : printLen args nl with
  | ok p => exact .inl ⟨p.1, p.2, rfl⟩
  | error m => exact .inr ⟨m, rfl⟩

/-- non-vacuity: an ordinary request is outside both exclusions, an absurd width is inside the first -/
example : (∃ s, call "format" [.str "{:>5}|{}", .str "ab", .str "x"] = .ok (.str s)) ∨
    (∃ m, call "format" [.str "{:>5}|{}", .str "ab", .str "x"] = .err m) :=
  format_answers _ (by decide +kernel) (by decide +kernel)
example : hugeWidth [.str "{:>100002}", .str "a"] = true := by decide +kernel
example : hugeWidth [.str "{:>100001}", .str "a"] = false := by decide +kernel
example : hugeWidth [.str "{:>70000}", .str "a"] = false := by decide +kernel

/-! ## operators and builtins together -/

theorem ops_and_builtins_no_panic :
    (∀ (op : Operator) (l r : Val), (∀ k, ¬ C09.hugeRepeat k l r) → ∀ msg, execOperator op l r ≠ .panic msg) ∧
    (∀ v : Val, (∀ msg, unaryMinus v ≠ .panic msg) ∧ (∀ msg, unaryBang v ≠ .panic msg) ∧
      (∀ msg, unaryNot v ≠ .panic msg)) ∧
    (∀ (name : String) (args : List Val) msg, call name args ≠ .panic msg) :=
  ⟨C09.ops_no_panic, C09.unary_no_panic, builtins_no_panic⟩

end P2sh.Props.C08
