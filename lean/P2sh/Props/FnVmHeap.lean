import P2sh.Props.FnVm
set_option linter.unusedSimpArgs false
set_option linter.unusedVariables false
/-!
# The machine with functions, closures AND CONTAINERS (arrays, maps with plain keys) is a refinement of the VM model

`Props/FnVm.lean` proves `fstep_refines_partial`: one `Core.Fn.fstep` is one iteration of the VM model's loop, for every
instruction except `Array` / `Map` / `GetIndex` / `SetIndex` (`noHeapI`), under a relation `FRel` in which every value is a
scalar and `Core/Fn`'s container heap `FSt.a` is unconstrained.  This file covers `Array n`, `Map n`, `GetIndex` and `SetIndex`
(arrays; maps WITH PLAIN KEYS), and re-proves every step lemma of `FnVm` under the relation that this needs.

**Why a new relation, and why all the steps again.**  `Core/Fn` has TWO heaps — the closure cells `FSt.h` (cell id = index in a
list) and the containers `FSt.a` (ids from `a.next`) —, the VM model ONE (`St.heap`: the closures' free-variable vectors and
the arrays, ids from ONE counter).  `FnVm.FRel` asks for EQUAL values and `heap.next = h.length`: after one `Array` the VM's
counter is ahead, and the next `Closure` gets cell 1 in `Core/Fn` and object 2 in the VM (`Example.closure_ids_shift`, proved
by evaluation).  So BOTH kinds of id correspond through an injection, not only the containers':

* `Ren` (`c`: closure cell ↦ VM object, `o`: container ↦ VM object), `rn ρ : Val → Val` (references renamed, every other value
  the same — values are shallow: a reference carries no payload);
* `HRelH ρ hp h a` — the heap relation: closure cell `i` of `h` is the VM's array object `ρ.c i` (contents renamed), object
  `id` of `a` is the VM's object `ρ.o id` renamed (`rnO`: the elements of an array, the VALUES of a map's entries — the value
  relation extended to references, pointwise; the keys of a map are plain values, the same on both sides);
  `ρ` injective on what exists, cells and containers apart, everything below `hp.next`, no container at VM id 0;
  `allocCell` / `allocObj` (the renaming is EXTENDED: `Ren.addC` / `Ren.addO`), `setCell` / `setObj`;
* `FRelH K ρ fs d vs` — `FnVm.FRel` with stack, globals, cells, objects renamed by `ρ` (`SRel … (fs.stk.map (rn ρ)) d`: the
  shadow of defined slots is `FnVm`'s), and `okv` (closures name existing cells, array references are shallow and name existing
  objects of their kind) and `okO` (the keys of every map object are plain) instead of `scalar`;
* `step_array`, `step_hmap`, `step_getIndex`, `step_setIndex` — the new steps (`reflect` on a new array of renamed well-formed
  values allocates exactly ONE object: `reflect_newArr`; the VM's `execIndex` on the renamed object);
* maps: with plain keys `Core/Fn`'s association view IS the `HashMap` model — `insertKV_eq` (`insertKV` = `HMap.insert`),
  `lookupKV_eq` (`lookupKV` = `HMap.get?`), `insert_stored` (what `build_map` / `exec_index_expr` store — the entries zipped
  back onto their original keys, or the new pair appended — is the table after `insert`), `insert_rnP` / `get?_rnP` (renaming
  the values commutes), `wpe_build` (the VM's `build_map` loop computes `buildMap`), `wpe_reifyKeys`;
* `step_…` for the 27 instructions of `FnVm`, under `FRelH` (`Closure` extends the renaming; truth tests — `Bang`, `JumpIfFalse`,
  `JumpIfFalseNoPop` — look into arrays on both sides: `falsey_rel`);
* `fstep_refines_heap_partial` — one `fstep` = one `tick`, `∃ ρ'`, `FRelH` preserved; `fsteps_refine_heap_partial`,
  `run_refines_heap_partial`, `program_run_refines_heap_partial` (composed with `Core.Fn.program_correct_fn`: the VM's final
  globals are the evaluator's renamed, its heap holds the evaluator's cells, arrays and maps);
* `Example.array_run` — `let x = [1, 2]; fn get(a) { a[1] } x[1] = 5; let y = get(x);`: every hypothesis by `rfl` / `decide`;
  `Example.map_run` — `let m = map {'a': 10, 'b': 20}; m['a'] = 11; m['c'] = [7]; let z = m['a']; let w = m['c'][0];`
  (the checked run and the evaluation by `decide +kernel`).

**Partial / excluded** (`preOkH`):
* MAP KEYS THAT ARE NOT PLAIN: the keys of a `Map n` literal (`plainKeys`) and the key of a `GetIndex` / `SetIndex` on a map
  (`idxPlain`) must be plain values (no array as a key, no closure): an array key is compared through `view` in `Core/Fn` and
  through `reify … reifyDepth` in the VM (see `Deep.deep_eq_diverges`);
* calls of builtin functions (as in `FnVm`: the callee of a `Call` is a closure);
* OPERATORS ON REFERENCES: `op` needs both operands plain (`plainTop2`: no closure, no container) — `==` / `+` on arrays go
  through `reify` / `reflect` in the VM and are not covered.  Truth tests on arrays ARE covered.
* the initial container heap is empty (`rel_initH`).

**False** (proved by evaluation): `Example.closure_ids_shift` (closure ids differ after an `Array`: `FnVm.FRel` cannot be kept);
`Deep.deep_eq_diverges` (`==` on two arrays nested 66 deep, different at the bottom: `false` in `Core/Fn`, whose `view` expands
every level, `true` in the VM MODEL, whose `reifyDepth = 64` cuts both off — a difference between `Core/Fn` and the model's
depth bound, not the real VM's behaviour).

`Model/Vm.lean`, `FnVm.lean`, `Core/Fn` are not changed.
-/
namespace P2sh.FnVmHeap
open P2sh P2sh.Vm P2sh.Code P2sh.Props.BcvWp P2sh.CoreVm P2sh.FnVm
open P2sh.Props.Bcv (tick finish exec_runLoop_succ)
open P2sh.Core (Instr fetch bytes)
open P2sh.Core.Fn (FSt Act fstep FSteps botGet botSet botTake freeGet freeSet opH falseyH view cmpH mkArr allocH setH getIndexH setIndexH)

/-! ## renamings of heap ids, and the values they relate -/

/-- where the objects of `Core/Fn`'s two heaps live in the VM's ONE heap: closure cell `i` (index in `FSt.h`) is the VM
object `c i`, container `id` (of `FSt.a`) is the VM object `o id` -/
structure Ren where
  c : Nat → Nat
  o : Nat → Nat

/-- the VM's value for a value of `Core/Fn`: references renamed, everything else the same value -/
def rn (ρ : Ren) : Val → Val
  | .clos fd fr id => .clos fd fr (ρ.c id)
  | .arr id xs => .arr (ρ.o id) xs
  | .map id kvs => .map (ρ.o id) kvs
  | v => v

/-- not a reference: neither a closure nor an array / a map -/
def plain : Val → Bool
  | .arr .. | .map .. | .clos .. => false
  | _ => true

theorem rn_plain (ρ : Ren) {v : Val} (h : plain v = true) : rn ρ v = v := by
  cases v <;> first | rfl | simp [plain] at h

theorem plain_scalar {v : Val} (h : plain v = true) : scalar v = true := by
  cases v <;> first | rfl | simp [plain] at h

@[simp] theorem rn_null (ρ : Ren) : rn ρ .null = .null := rfl

/-- a well-formed value of a state whose closure heap has `hn` cells and whose container heap is `a`: a closure names an
existing cell, an array / a map reference is SHALLOW (no payload) and names an existing array / map object -/
def okv (hn : Nat) (a : Heap) : Val → Prop
  | .clos _ _ id => id < hn
  | .arr id xs => xs = [] ∧ ∃ ys, a.get? id = some (.arr ys)
  | .map id kvs => kvs = [] ∧ ∃ ps, a.get? id = some (.map ps)
  | _ => True

def oks (hn : Nat) (a : Heap) (l : List Val) : Prop := ∀ v ∈ l, okv hn a v

theorem okv_plain {hn : Nat} {a : Heap} {v : Val} (h : plain v = true) : okv hn a v := by
  cases v <;> first | trivial | simp [plain] at h

section oks
variable {hn : Nat} {a : Heap}

theorem oks_nil : oks hn a [] := by intro v hv; cases hv

theorem oks_cons {v : Val} {l : List Val} (hv : okv hn a v) (hl : oks hn a l) : oks hn a (v :: l) := by
  intro x hx
  rcases List.mem_cons.mp hx with rfl | hx
  · exact hv
  · exact hl x hx

theorem oks_tail {v : Val} {l : List Val} (h : oks hn a (v :: l)) : oks hn a l := fun x hx => h x (by simp [hx])
theorem oks_head {v : Val} {l : List Val} (h : oks hn a (v :: l)) : okv hn a v := h v (by simp)
theorem oks_drop {l : List Val} (h : oks hn a l) (n : Nat) : oks hn a (l.drop n) := fun x hx => h x (List.mem_of_mem_drop hx)
theorem oks_take {l : List Val} (h : oks hn a l) (n : Nat) : oks hn a (l.take n) := fun x hx => h x (List.mem_of_mem_take hx)

theorem oks_append {l l' : List Val} (h : oks hn a l) (h' : oks hn a l') : oks hn a (l ++ l') := by
  intro x hx
  rcases List.mem_append.mp hx with hx | hx
  · exact h x hx
  · exact h' x hx

theorem oks_reverse {l : List Val} (h : oks hn a l) : oks hn a l.reverse := fun x hx => h x (by simpa using hx)

theorem oks_set {l : List Val} (h : oks hn a l) {v : Val} (hv : okv hn a v) (i : Nat) : oks hn a (l.set i v) := by
  intro x hx
  rcases List.mem_or_eq_of_mem_set hx with hx | rfl
  · exact h x hx
  · exact hv

theorem oks_replicate_null (n : Nat) : oks hn a (List.replicate n .null) := by
  intro x hx
  rw [List.eq_of_mem_replicate hx]; trivial

theorem oks_botSet {l : List Val} (hl : oks hn a l) {v : Val} (hv : okv hn a v) (p : Nat) : oks hn a (botSet l p v) := by
  unfold botSet
  exact oks_reverse (oks_set (oks_reverse hl) hv p)

theorem oks_botTake {l : List Val} (hl : oks hn a l) (n : Nat) : oks hn a (botTake l n) := by
  unfold botTake
  exact oks_drop hl _

theorem oks_getD {l : List Val} (h : oks hn a l) (i : Nat) : okv hn a (l.getD i .null) := by
  rw [List.getD_eq_getElem?_getD]
  cases hi : l[i]? with
  | none => trivial
  | some v => exact h v (List.mem_of_getElem? hi)

end oks

/-- every object of `a` is still an object of `a'`, an array an array, a map a map -/
def Keeps (a a' : Heap) : Prop :=
  (∀ id ys, a.get? id = some (.arr ys) → ∃ ys', a'.get? id = some (.arr ys')) ∧
  (∀ id ps, a.get? id = some (.map ps) → ∃ ps', a'.get? id = some (.map ps'))

theorem Keeps.refl (a : Heap) : Keeps a a := ⟨fun _ ys h => ⟨ys, h⟩, fun _ ps h => ⟨ps, h⟩⟩

theorem okv_mono {hn hn' : Nat} {a a' : Heap} {v : Val} (hle : hn ≤ hn') (ha : Keeps a a') (hv : okv hn a v) : okv hn' a' v := by
  cases v <;> try trivial
  case clos fd fr id => exact Nat.lt_of_lt_of_le hv hle
  case arr id xs =>
    obtain ⟨h1, ys, hy⟩ := hv
    exact ⟨h1, ha.1 id ys hy⟩
  case map id kvs =>
    obtain ⟨h1, ps, hy⟩ := hv
    exact ⟨h1, ha.2 id ps hy⟩

theorem oks_mono {hn hn' : Nat} {a a' : Heap} {l : List Val} (hle : hn ≤ hn') (ha : Keeps a a') (hl : oks hn a l) : oks hn' a' l :=
  fun v hv => okv_mono hle ha (hl v hv)

/-- two renamings that agree on the ids in range rename a well-formed value alike -/
theorem rn_congr {ρ ρ' : Ren} {hn : Nat} {a : Heap} {v : Val} (hv : okv hn a v) (hc : ∀ i, i < hn → ρ'.c i = ρ.c i)
    (ho : ∀ i o, a.get? i = some o → ρ'.o i = ρ.o i) : rn ρ' v = rn ρ v := by
  cases v <;> try rfl
  case clos fd fr id => simp [rn, hc id hv]
  case arr id xs =>
    obtain ⟨_, ys, hy⟩ := hv
    simp [rn, ho id _ hy]
  case map id kvs =>
    obtain ⟨_, ps, hy⟩ := hv
    simp [rn, ho id _ hy]

theorem map_rn_congr {ρ ρ' : Ren} {hn : Nat} {a : Heap} {l : List Val} (hl : oks hn a l) (hc : ∀ i, i < hn → ρ'.c i = ρ.c i)
    (ho : ∀ i o, a.get? i = some o → ρ'.o i = ρ.o i) : l.map (rn ρ') = l.map (rn ρ) :=
  List.map_congr_left fun v hv => rn_congr (hl v hv) hc ho

/-- the entries of a map object: the keys are plain values (`preOkH`), the values are renamed -/
def rnP (ρ : Ren) (p : Val × Val) : Val × Val := (p.1, rn ρ p.2)

/-- a heap object renamed -/
def rnO (ρ : Ren) : HObj → HObj
  | .arr xs => .arr (xs.map (rn ρ))
  | .map ps => .map (ps.map (rnP ρ))

/-- a well-formed heap object: the elements of an array are well-formed; the keys of a map are PLAIN, its values well-formed -/
def okO (hn : Nat) (a : Heap) : HObj → Prop
  | .arr xs => oks hn a xs
  | .map ps => ∀ p ∈ ps, plain p.1 = true ∧ okv hn a p.2

theorem okO_mono {hn hn' : Nat} {a a' : Heap} {o : HObj} (hle : hn ≤ hn') (ha : Keeps a a') (ho : okO hn a o) : okO hn' a' o := by
  cases o with
  | arr xs => exact oks_mono hle ha ho
  | map ps => exact fun p hp => ⟨(ho p hp).1, okv_mono hle ha (ho p hp).2⟩

theorem rnO_congr {ρ ρ' : Ren} {hn : Nat} {a : Heap} {o : HObj} (hO : okO hn a o) (hc : ∀ i, i < hn → ρ'.c i = ρ.c i)
    (ho : ∀ i o, a.get? i = some o → ρ'.o i = ρ.o i) : rnO ρ' o = rnO ρ o := by
  cases o with
  | arr xs => simp only [rnO]; rw [map_rn_congr hO hc ho]
  | map ps =>
    simp only [rnO]
    congr 1
    exact List.map_congr_left fun p hp => by simp only [rnP]; rw [rn_congr (hO p hp).2 hc ho]

/-! ## `Core/Fn`'s heap operations are the model's -/

theorem allocH_eq (a : Heap) (o : HObj) : allocH a o = a.alloc o := by cases a; rfl
theorem setH_eq (a : Heap) (id : Nat) (o : HObj) : setH a id o = a.set id o := by cases a; rfl

theorem next_set (hp : Heap) (id : Nat) (o : HObj) : (hp.set id o).next = hp.next := rfl
theorem next_alloc (hp : Heap) (o : HObj) : (hp.alloc o).1.next = hp.next + 1 := rfl

theorem get?_set_self {hp : Heap} {id : Nat} {o o' : HObj} (h : hp.get? id = some o) : (hp.set id o').get? id = some o' := by
  rw [get?_set]; simp [h]

theorem get?_set_other {hp : Heap} {id id' : Nat} {o' : HObj} (hne : id' ≠ id) : (hp.set id o').get? id' = hp.get? id' := by
  rw [get?_set]; simp [hne]

theorem get?_set_some {hp : Heap} {id id' : Nat} {o o' : HObj} (h : (hp.set id o').get? id' = some o) : ∃ o0, hp.get? id' = some o0 := by
  rw [get?_set] at h
  by_cases hx : id' = id
  · simp only [hx, if_true] at h
    cases hg : hp.get? id with
    | none => simp [hg] at h
    | some o0 => exact ⟨o0, by rw [hx]; exact hg⟩
  · simp only [hx, if_false] at h
    exact ⟨o, h⟩

theorem get?_alloc_old {a : Heap} {o o' : HObj} (hab : ∀ id o, a.get? id = some o → id < a.next) {id : Nat}
    (hid : a.get? id = some o') : (a.alloc o).1.get? id = some o' := by
  rw [get?_alloc_other a _ _ (by have := hab id _ hid; omega)]; exact hid

theorem Keeps.alloc {a : Heap} (hab : ∀ id o, a.get? id = some o → id < a.next) (o : HObj) : Keeps a (a.alloc o).1 :=
  ⟨fun _ ys hid => ⟨ys, get?_alloc_old hab hid⟩, fun _ ps hid => ⟨ps, get?_alloc_old hab hid⟩⟩

theorem Keeps.setArr {a : Heap} {id : Nat} {ys : List Val} (hid : a.get? id = some (.arr ys)) (ys' : List Val) : Keeps a (a.set id (.arr ys')) := by
  constructor
  · intro id' zs hid'
    by_cases hx : id' = id
    · subst hx; exact ⟨_, get?_set_self hid'⟩
    · exact ⟨zs, by rw [get?_set_other hx]; exact hid'⟩
  · intro id' ps hid'
    by_cases hx : id' = id
    · subst hx; rw [hid] at hid'; cases hid'
    · exact ⟨ps, by rw [get?_set_other hx]; exact hid'⟩

theorem Keeps.setMap {a : Heap} {id : Nat} {ps : List (Val × Val)} (hid : a.get? id = some (.map ps)) (ps' : List (Val × Val)) :
    Keeps a (a.set id (.map ps')) := by
  constructor
  · intro id' zs hid'
    by_cases hx : id' = id
    · subst hx; rw [hid] at hid'; cases hid'
    · exact ⟨zs, by rw [get?_set_other hx]; exact hid'⟩
  · intro id' qs hid'
    by_cases hx : id' = id
    · subst hx; exact ⟨_, get?_set_self hid'⟩
    · exact ⟨qs, by rw [get?_set_other hx]; exact hid'⟩

theorem okO_len {hn hn' : Nat} {a : Heap} {o : HObj} (e : hn = hn') (ho : okO hn a o) : okO hn' a o := e ▸ ho

/-! ## the heap relation -/

/-- the two heaps of `Core/Fn` inside the VM's heap, through the renaming `ρ`:
* `cells` — closure cell `id` is the VM's array object `ρ.c id`, its values renamed (an absent object reads as the empty
  vector: cell 0, the main program's);
* `objs`  — array object `id` of `a` is the VM's array object `ρ.o id`, its elements renamed;
* the renaming is injective on the existing cells and objects, cells and containers are apart, everything lies below the
  VM heap's `next` (a new object is new for both), no container has VM id 0 (`reflect` reads id 0 as "not yet stored") -/
structure HRelH (ρ : Ren) (hp : Heap) (h : List (List Val)) (a : Heap) : Prop where
  cells : ∀ id fr, h[id]? = some fr → hp.getArr (ρ.c id) = fr.map (rn ρ)
  objs : ∀ id o, a.get? id = some o → hp.get? (ρ.o id) = some (rnO ρ o)
  cb : ∀ id, id < h.length → ρ.c id < hp.next
  ob : ∀ id o, a.get? id = some o → ρ.o id < hp.next ∧ ρ.o id ≠ 0
  ab : ∀ id o, a.get? id = some o → id < a.next
  hb : ∀ id o, hp.get? id = some o → id < hp.next
  hpos : 0 < hp.next
  cinj : ∀ i j, i < h.length → j < h.length → ρ.c i = ρ.c j → i = j
  oinj : ∀ i j oi oj, a.get? i = some oi → a.get? j = some oj → ρ.o i = ρ.o j → i = j
  disj : ∀ i j o, i < h.length → a.get? j = some o → ρ.c i ≠ ρ.o j

theorem lt_of_get? {α : Type} {l : List α} {i : Nat} {v : α} (h : l[i]? = some v) : i < l.length :=
  (List.getElem?_eq_some_iff.mp h).1

/-- a new closure cell: the VM allocates the renamed captured values; the renaming is extended at the new cell -/
def Ren.addC (ρ : Ren) (k n : Nat) : Ren := ⟨fun i => if i = k then n else ρ.c i, ρ.o⟩
/-- a new container -/
def Ren.addO (ρ : Ren) (k n : Nat) : Ren := ⟨ρ.c, fun i => if i = k then n else ρ.o i⟩

theorem HRelH.allocCell {ρ : Ren} {hp : Heap} {h : List (List Val)} {a : Heap} (R : HRelH ρ hp h a) (fr : List Val)
    (hfr : oks h.length a fr) (hokH : ∀ c ∈ h, oks h.length a c) (hokA : ∀ id o, a.get? id = some o → okO h.length a o) :
    HRelH (ρ.addC h.length hp.next) (hp.alloc (.arr (fr.map (rn ρ)))).1 (h ++ [fr]) a := by
  have hc : ∀ i, i < h.length → (ρ.addC h.length hp.next).c i = ρ.c i := by
    intro i hi
    have : i ≠ h.length := by omega
    simp [Ren.addC, this]
  have ho : ∀ i o, a.get? i = some o → (ρ.addC h.length hp.next).o i = ρ.o i := fun _ _ _ => rfl
  have hself : (ρ.addC h.length hp.next).c h.length = hp.next := by simp [Ren.addC]
  refine ⟨?_, ?_, ?_, ?_, R.ab, ?_, by simp [next_alloc], ?_, ?_, ?_⟩
  · intro id fr' hid
    by_cases hlt : id < h.length
    · rw [List.getElem?_append_left hlt] at hid
      have hne : ρ.c id ≠ hp.next := by have := R.cb id hlt; omega
      unfold Heap.getArr
      rw [hc id hlt, get?_alloc_other hp _ _ hne, map_rn_congr (hokH fr' (List.mem_of_getElem? hid)) hc ho]
      exact R.cells id fr' hid
    · have hge : h.length ≤ id := by omega
      rw [List.getElem?_append_right hge] at hid
      have hid0 : id - h.length = 0 := by
        cases hx : id - h.length with
        | zero => rfl
        | succ k => rw [hx] at hid; simp at hid
      rw [hid0] at hid
      simp at hid
      subst hid
      have : id = h.length := by omega
      subst this
      unfold Heap.getArr
      rw [hself, get?_alloc_self, map_rn_congr hfr hc ho]
  · intro id ys hid
    have hne : ρ.o id ≠ hp.next := by have := (R.ob id _ hid).1; omega
    show (hp.alloc _).1.get? (ρ.o id) = _
    rw [get?_alloc_other hp _ _ hne, rnO_congr (hokA id ys hid) hc ho]
    exact R.objs id ys hid
  · intro id hid
    simp only [List.length_append, List.length_cons, List.length_nil] at hid
    by_cases hlt : id < h.length
    · rw [hc id hlt, next_alloc]; have := R.cb id hlt; omega
    · have : id = h.length := by omega
      subst this
      rw [hself, next_alloc]; omega
  · intro id o hid
    have := R.ob id o hid
    exact ⟨by show ρ.o id < _; rw [next_alloc]; omega, this.2⟩
  · intro id o hid
    by_cases hx : id = hp.next
    · rw [hx, next_alloc]; omega
    · rw [get?_alloc_other hp _ _ hx] at hid
      have := R.hb id o hid
      rw [next_alloc]; omega
  · intro i j hi hj hij
    simp only [List.length_append, List.length_cons, List.length_nil] at hi hj
    by_cases hi' : i < h.length <;> by_cases hj' : j < h.length
    · rw [hc i hi', hc j hj'] at hij
      exact R.cinj i j hi' hj' hij
    · have : j = h.length := by omega
      subst this
      rw [hc i hi', hself] at hij
      have := R.cb i hi'; omega
    · have : i = h.length := by omega
      subst this
      rw [hc j hj', hself] at hij
      have := R.cb j hj'; omega
    · omega
  · exact R.oinj
  · intro i j o hi hj
    simp only [List.length_append, List.length_cons, List.length_nil] at hi
    by_cases hi' : i < h.length
    · rw [hc i hi']; exact R.disj i j o hi' hj
    · have : i = h.length := by omega
      subst this
      rw [hself]
      have := (R.ob j o hj).1
      show hp.next ≠ ρ.o j
      omega

theorem HRelH.allocObj {ρ : Ren} {hp : Heap} {h : List (List Val)} {a : Heap} (R : HRelH ρ hp h a) (xs : HObj)
    (hxs : okO h.length a xs) (hokH : ∀ c ∈ h, oks h.length a c) (hokA : ∀ id o, a.get? id = some o → okO h.length a o) :
    HRelH (ρ.addO a.next hp.next) (hp.alloc (rnO ρ xs)).1 h (a.alloc xs).1 := by
  have hc : ∀ i, i < h.length → (ρ.addO a.next hp.next).c i = ρ.c i := fun _ _ => rfl
  have ho : ∀ i o, a.get? i = some o → (ρ.addO a.next hp.next).o i = ρ.o i := by
    intro i o hi
    have : i ≠ a.next := by have := R.ab i o hi; omega
    simp [Ren.addO, this]
  have hself : (ρ.addO a.next hp.next).o a.next = hp.next := by simp [Ren.addO]
  have hold : ∀ id o, id ≠ a.next → (a.alloc xs).1.get? id = some o → a.get? id = some o := by
    intro id o hne hid
    rwa [get?_alloc_other a _ _ hne] at hid
  have hnew : ∀ o, (a.alloc xs).1.get? a.next = some o → o = xs := by
    intro o ho'
    rw [get?_alloc_self] at ho'
    exact (Option.some.inj ho').symm
  refine ⟨?_, ?_, ?_, ?_, ?_, ?_, by simp [next_alloc], R.cinj, ?_, ?_⟩
  · intro id fr hid
    have hlt := lt_of_get? hid
    have hne : ρ.c id ≠ hp.next := by have := R.cb id hlt; omega
    unfold Heap.getArr
    show (match (hp.alloc _).1.get? (ρ.c id) with | some (.arr xs) => xs | _ => []) = _
    rw [get?_alloc_other hp _ _ hne, map_rn_congr (hokH fr (List.mem_of_getElem? hid)) hc ho]
    exact R.cells id fr hid
  · intro id ys hid
    by_cases hx : id = a.next
    · subst hx
      have := hnew _ hid
      subst this
      rw [hself, get?_alloc_self, rnO_congr hxs hc ho]
    · have hid' := hold id _ hx hid
      have hne : ρ.o id ≠ hp.next := by have := (R.ob id _ hid').1; omega
      rw [ho id _ hid', get?_alloc_other hp _ _ hne, rnO_congr (hokA id ys hid') hc ho]
      exact R.objs id ys hid'
  · intro id hid
    show ρ.c id < _
    rw [next_alloc]; have := R.cb id hid; omega
  · intro id o hid
    by_cases hx : id = a.next
    · subst hx
      rw [hself, next_alloc]
      exact ⟨by omega, by have := R.hpos; omega⟩
    · have hid' := hold id _ hx hid
      rw [ho id _ hid', next_alloc]
      have := R.ob id o hid'
      exact ⟨by omega, this.2⟩
  · intro id o hid
    by_cases hx : id = a.next
    · rw [hx, next_alloc]; omega
    · have := R.ab id o (hold id _ hx hid)
      rw [next_alloc]; omega
  · intro id o hid
    by_cases hx : id = hp.next
    · rw [hx, next_alloc]; omega
    · rw [get?_alloc_other hp _ _ hx] at hid
      have := R.hb id o hid
      rw [next_alloc]; omega
  · intro i j oi oj hi hj hij
    by_cases hi' : i = a.next <;> by_cases hj' : j = a.next
    · omega
    · subst hi'
      have hj2 := hold j _ hj' hj
      rw [hself, ho j _ hj2] at hij
      have := (R.ob j _ hj2).1; omega
    · subst hj'
      have hi2 := hold i _ hi' hi
      rw [hself, ho i _ hi2] at hij
      have := (R.ob i _ hi2).1; omega
    · have hi2 := hold i _ hi' hi
      have hj2 := hold j _ hj' hj
      rw [ho i _ hi2, ho j _ hj2] at hij
      exact R.oinj i j _ _ hi2 hj2 hij
  · intro i j o hi hj
    show ρ.c i ≠ _
    by_cases hj' : j = a.next
    · subst hj'
      rw [hself]
      have := R.cb i hi; omega
    · have hj2 := hold j _ hj' hj
      rw [ho j _ hj2]
      exact R.disj i j o hi hj2

/-- `free[i] = v` in a closure cell -/
theorem HRelH.setCell {ρ : Ren} {hp : Heap} {h : List (List Val)} {a : Heap} (R : HRelH ρ hp h a) {id i : Nat} {fr : List Val} {v : Val}
    (hid : h[id]? = some fr) (hi : i < fr.length) :
    HRelH ρ (hp.set (ρ.c id) (.arr ((fr.map (rn ρ)).set i (rn ρ v)))) (h.set id (fr.set i v)) a := by
  have hlt := lt_of_get? hid
  refine ⟨?_, ?_, fun i' hi' => R.cb i' (by simpa using hi'), R.ob, R.ab, ?_, R.hpos,
    fun i' j hi' hj => R.cinj i' j (by simpa using hi') (by simpa using hj), R.oinj, fun i' j o hi' hj => R.disj i' j o (by simpa using hi') hj⟩
  · intro id' fr' hid'
    unfold Heap.getArr
    rw [get?_set]
    by_cases hx : id' = id
    · subst hx
      simp [hlt] at hid'
      subst hid'
      have hg := R.cells id' fr hid
      unfold Heap.getArr at hg
      cases hgo : hp.get? (ρ.c id') with
      | none =>
        rw [hgo] at hg
        have : fr = [] := by
          cases fr with
          | nil => rfl
          | cons x xs => simp at hg
        subst this
        simp at hi
      | some o => simp [List.map_set]
    · have hlt' : id' < h.length := by
        have := lt_of_get? hid'
        simpa using this
      have hne : ρ.c id' ≠ ρ.c id := fun he => hx (R.cinj id' id hlt' hlt he)
      simp only [hne, if_false]
      rw [List.getElem?_set_ne (fun h => hx h.symm)] at hid'
      exact R.cells id' fr' hid'
  · intro id' ys hid'
    have hne : ρ.o id' ≠ ρ.c id := fun he => R.disj id id' _ hlt hid' he.symm
    rw [get?_set_other hne]
    exact R.objs id' ys hid'
  · intro id' o hid'
    obtain ⟨o0, h0⟩ := get?_set_some hid'
    exact R.hb id' o0 h0

/-- an existing container gets new contents -/
theorem HRelH.setObj {ρ : Ren} {hp : Heap} {h : List (List Val)} {a : Heap} (R : HRelH ρ hp h a) {id : Nat} {o0 : HObj}
    (hid : a.get? id = some o0) (o' : HObj) :
    HRelH ρ (hp.set (ρ.o id) (rnO ρ o')) h (a.set id o') := by
  have hpres : ∀ id' o, (a.set id o').get? id' = some o → ∃ o0, a.get? id' = some o0 := fun id' o h => get?_set_some h
  refine ⟨?_, ?_, R.cb, ?_, ?_, ?_, R.hpos, R.cinj, ?_, ?_⟩
  · intro id' fr hid'
    have hlt := lt_of_get? hid'
    have hne : ρ.c id' ≠ ρ.o id := R.disj id' id _ hlt hid
    unfold Heap.getArr
    rw [get?_set_other hne]
    exact R.cells id' fr hid'
  · intro id' ys' hid'
    by_cases hx : id' = id
    · subst hx
      rw [get?_set_self hid] at hid'
      cases hid'
      rw [get?_set_self (R.objs id' o0 hid)]
    · rw [get?_set_other hx] at hid'
      have hne : ρ.o id' ≠ ρ.o id := fun he => hx (R.oinj id' id _ _ hid' hid he)
      rw [get?_set_other hne]
      exact R.objs id' ys' hid'
  · intro id' o hid'
    obtain ⟨o0, h0⟩ := hpres id' o hid'
    exact R.ob id' o0 h0
  · intro id' o hid'
    obtain ⟨o0, h0⟩ := hpres id' o hid'
    exact R.ab id' o0 h0
  · intro id' o hid'
    obtain ⟨o0, h0⟩ := get?_set_some hid'
    exact R.hb id' o0 h0
  · intro i' j oi oj hi' hj hij
    obtain ⟨o1, h1⟩ := hpres i' oi hi'
    obtain ⟨o2, h2⟩ := hpres j oj hj
    exact R.oinj i' j o1 o2 h1 h2 hij
  · intro i' j o hi' hj
    obtain ⟨o2, h2⟩ := hpres j o hj
    exact R.disj i' j o2 hi' h2

/-! ## operators on plain operands give plain results -/


theorem arithInt_plain {op a b v} (h : arithInt op a b = .ok v) : plain v = true := by
  unfold arithInt at h
  split at h <;> (try split at h) <;> cases h <;> rfl

theorem arithByte_plain {op a b v} (h : arithByte op a b = .ok v) : plain v = true := by
  unfold arithByte at h
  split at h <;> (try split at h) <;> cases h <;> rfl

theorem arithFloat_plain (op a b) : plain (arithFloat op a b) = true := by
  cases op <;> rfl

theorem arith_plain {op l r v} (h : arith op l r = .ok v) : plain v = true := by
  unfold arith at h
  split at h
  all_goals first
    | exact arithInt_plain h
    | exact arithByte_plain h
    | (cases h; exact arithFloat_plain _ _ _)
    | cases h

theorem applyBin_plain {k l r v} (h : applyBin k l r = .ok v) : plain v = true := by
  unfold applyBin at h
  split at h
  · exact arith_plain h
  · cases h; rfl
  · cases h; rfl

theorem binaryOp_plain {k l r v} (hl : plain l = true) (hr : plain r = true) (h : binaryOp k l r = .ok v) :
    plain v = true := by
  unfold binaryOp at h
  split at h
  · split at h
    · cases h
    · split at h
      · cases h
      · exact applyBin_plain h
  · split at h
    · split at h <;> first | exact applyBin_plain h | (cases h; rfl) | cases h
    · split at h <;> first | exact applyBin_plain h | (cases h; rfl) | cases h
    · split at h
      · split at h
        · cases h
        · split at h
          · cases h
          · cases h; rfl
      · cases h
    · split at h
      · split at h
        · cases h
        · split at h
          · cases h
          · cases h; rfl
      · cases h
    · simp [plain] at hl
    · cases h

theorem bitwiseOp_plain {op l r v} (h : bitwiseOp op l r = .ok v) : plain v = true := by
  unfold bitwiseOp at h
  split at h
  · cases h; rfl
  · cases h

theorem execOperator_plain {o l r v} (hl : plain l = true) (hr : plain r = true) (h : execOperator o l r = .ok v) :
    plain v = true := by
  cases o <;> simp only [execOperator] at h
  all_goals first
    | exact binaryOp_plain hl hr h
    | exact bitwiseOp_plain h
    | (cases h; rfl)

theorem unaryMinus_plain {a v} (h : unaryMinus a = .ok v) : plain a = true ∧ plain v = true := by
  unfold unaryMinus at h
  split at h <;> cases h <;> exact ⟨rfl, rfl⟩

theorem unaryNot_plain {a v} (h : unaryNot a = .ok v) : plain a = true ∧ plain v = true := by
  unfold unaryNot at h
  split at h <;> cases h <;> exact ⟨rfl, rfl⟩

/-! ## the simulation relation -/

/-- as `FnVm.ActRel`; the VM frame's closure object is the RENAMED cell of the machine's frame -/
structure ActRelH (ρ : Ren) (a : Act) (f : Frame) : Prop where
  code : f.fn.code = Core.encode a.code
  lines : f.fn.code.length ≤ f.fn.lines.length
  fits : a.code.all Core.fitsI = true
  ip : f.ip = a.pc
  bp : f.bp = a.bp
  cid : f.closId = ρ.c a.cid
  fd : f.fn = a.fd ∨ noCurr a.code = true

inductive FramesRelH (ρ : Ren) : List Act → List Frame → Prop
  | nil : FramesRelH ρ [] []
  | cons {a f as fs} : ActRelH ρ a f → FramesRelH ρ as fs → FramesRelH ρ (a :: as) (f :: fs)

theorem FramesRelH.length {ρ as fs} (h : FramesRelH ρ as fs) : as.length = fs.length := by
  induction h with
  | nil => rfl
  | cons _ _ ih => simp [ih]

theorem FramesRelH.congr {ρ ρ' : Ren} {as fs} (h : FramesRelH ρ as fs) (hc : ∀ x ∈ as, ρ'.c x.cid = ρ.c x.cid) : FramesRelH ρ' as fs := by
  induction h with
  | nil => exact .nil
  | cons hA _ ih =>
    refine .cons ⟨hA.code, hA.lines, hA.fits, hA.ip, hA.bp, ?_, hA.fd⟩ (ih fun x hx => hc x (by simp [hx]))
    rw [hc _ (by simp)]; exact hA.cid

def plains (l : List Val) : Prop := ∀ v ∈ l, plain v = true

/-- `vs` is the VM state that stands for the state `fs` of the machine with frames THROUGH THE RENAMING `ρ`, `d` being the
shadow of `fs.stk`.  As `FnVm.FRel`, with every value of the stack, the globals, the closure cells and the array objects
renamed by `ρ` (`rn ρ`), the container heap `fs.a` related to the VM's heap (`HRelH.objs`), and — instead of "every value
is a scalar" — every value WELL-FORMED (`okv`): closures name existing cells, array references are shallow and name existing
array objects (no map value: `Map` is not covered).  The constants are plain values (function constants included). -/
structure FRelH (K : List Val) (ρ : Ren) (fs : FSt) (d : List Bool) (vs : Vm.St) : Prop where
  frames : FramesRelH ρ (fs.act :: fs.callers) vs.frames
  bps : bpsOk ((fs.act :: fs.callers).map (·.bp))
  consts : vs.constants.toList = K
  size : vs.stack.size = stackSize
  stack : SRel vs.stack vs.sp (fs.stk.map (rn ρ)) d
  globals : GRel vs.globals (fs.g.map (rn ρ))
  heap : HRelH ρ vs.heap fs.h fs.a
  plainK : plains K
  okS : oks fs.h.length fs.a fs.stk
  okG : oks fs.h.length fs.a fs.g
  okH : ∀ c ∈ fs.h, oks fs.h.length fs.a c
  okA : ∀ id o, fs.a.get? id = some o → okO fs.h.length fs.a o
  okF : ∀ x ∈ fs.act :: fs.callers, x.cid < fs.h.length

variable {K : List Val} {F : FnDef → Option (List Instr)} {ρ : Ren}
variable {act : Act} {stk g : List Val} {h : List (List Val)} {a : Heap} {callers : List Act} {d : List Bool} {vs : Vm.St}

theorem FRelH.next {f : Frame} {rest : List Frame} (R : FRelH K ρ ⟨act, stk, g, h, a, callers⟩ d vs)
    (hf : vs.frames = f :: rest) {vs' : St} {pc' : Nat} {stk' g' : List Val} {d' : List Bool}
    (hfr : vs'.frames = { f with ip := pc' } :: rest) (hc : vs'.constants = vs.constants)
    (hst : SRel vs'.stack vs'.sp (stk'.map (rn ρ)) d') (hsz : vs'.stack.size = vs.stack.size) (hg : GRel vs'.globals (g'.map (rn ρ)))
    (hh : HRelH ρ vs'.heap h a) (hs : oks h.length a stk') (hsg : oks h.length a g') :
    FRelH K ρ ⟨{ act with pc := pc' }, stk', g', h, a, callers⟩ d' vs' := by
  have hfs := R.frames
  rw [hf] at hfs
  cases hfs with
  | cons hA hrest =>
    refine ⟨?_, R.bps, by rw [hc]; exact R.consts, by rw [hsz]; exact R.size, hst, hg, hh, R.plainK, hs, hsg, R.okH, R.okA, ?_⟩
    · rw [hfr]
      exact .cons ⟨hA.code, hA.lines, hA.fits, rfl, hA.bp, hA.cid, hA.fd⟩ hrest
    · intro x hx
      rcases List.mem_cons.mp hx with rfl | hx
      · exact R.okF act (by simp)
      · exact R.okF x (by simp [hx])

theorem setup {i : Instr} (R : FRelH K ρ ⟨act, stk, g, h, a, callers⟩ d vs) (hfetch : fetch act.code act.pc = some i) :
    ∃ f rest line pre post, vs.frames = f :: rest ∧ ActRelH ρ act f ∧ FramesRelH ρ callers rest ∧
      f.fn.code = pre ++ (Core.encodeI i ++ post) ∧ f.ip = pre.length ∧
      act.pc = pre.length ∧ f.fn.lines[f.ip]? = some line ∧ f.ip < f.fn.code.length ∧ Core.fitsI i = true := by
  have hfs := R.frames
  cases hvf : vs.frames with
  | nil => rw [hvf] at hfs; cases hfs
  | cons f rest =>
    rw [hvf] at hfs
    cases hfs with
    | cons hA hrest =>
      obtain ⟨pre, post, he, hpc⟩ := fetch_encode act.code _ i hfetch
      have hlt : f.ip < f.fn.code.length := by
        rw [hA.code, he, hA.ip, hpc]
        have h1 := encodeI_length i
        have h2 := i.size_pos
        simp; omega
      have hl := hA.lines
      exact ⟨f, rest, f.fn.lines[f.ip]'(by omega), pre, post, rfl, hA, hrest, hA.code.trans he, hA.ip.trans hpc, hpc,
        List.getElem?_eq_getElem (by omega), hlt, (List.all_eq_true.mp hA.fits) i (fetch_mem act.code _ i hfetch)⟩

/-- one iteration of the VM's loop ends normally in a state related to `fs'` through the SAME renaming -/
abbrev GoalR (K : List Val) (ρ : Ren) (fs' : FSt) (d' : List Bool) (vs : St) : Prop :=
  wpe tick (fun b s' => b = true ∧ FRelH K ρ fs' d' s') noErr vs

/-- … through SOME renaming (an allocation extends it) -/
abbrev GoalH (K : List Val) (fs' : FSt) (d' : List Bool) (vs : St) : Prop :=
  wpe tick (fun b s' => b = true ∧ ∃ ρ', FRelH K ρ' fs' d' s') noErr vs

theorem GoalR.toH {fs' : FSt} {d' : List Bool} (hg : GoalR K ρ fs' d' vs) : GoalH K fs' d' vs :=
  wpe_mono hg (fun _ _ h => ⟨h.1, ρ, h.2⟩) (fun _ _ h => h)

/-! ### what the VM sees of a renamed value -/

theorem isEmpty_map {α β : Type} (f : α → β) (l : List α) : (l.map f).isEmpty = l.isEmpty := by cases l <;> rfl

/-- truth tests: the VM reifies the renamed value, `Core/Fn` looks into its own heap -/
theorem falsey_rel {hp : Heap} (R : HRelH ρ hp h a) {v : Val} (hv : okv h.length a v) :
    (reify hp reifyDepth (rn ρ v)).isFalsey = falseyH a v := by
  cases v <;> try rfl
  case arr id xs =>
    obtain ⟨_, ys, hy⟩ := hv
    have hne : (ρ.o id == 0) = false := by simpa using (R.ob id _ hy).2
    have hg : hp.getArr (ρ.o id) = ys.map (rn ρ) := by unfold Heap.getArr; rw [R.objs id _ hy]; first | done | rfl
    have ha : a.getArr id = ys := by unfold Heap.getArr; rw [hy]
    simp [rn, reify, reifyDepth, hne, hg, falseyH, ha, Val.isFalsey, isEmpty_map]
  case map id kvs =>
    obtain ⟨_, ps, hy⟩ := hv
    have hne : (ρ.o id == 0) = false := by simpa using (R.ob id _ hy).2
    have hg : hp.getMap (ρ.o id) = ps.map (rnP ρ) := by unfold Heap.getMap; rw [R.objs id _ hy]; first | done | rfl
    have ha : a.getMap id = ps := by unfold Heap.getMap; rw [hy]
    simp [rn, reify, reifyDepth, hne, hg, falseyH, ha, Val.isFalsey, isEmpty_map]

set_option hygiene false in
macro "fh_pre" : tactic => `(tactic| (
  obtain ⟨f, rest, line, pre, post, hf, hA, hrest, hcode, hip, hpc, hline, hlt, hfi⟩ := setup R hfetch
  have hipc := hA.ip
  refine tick_wpe' hf hlt hline ?_))

variable {fs' : FSt}

theorem room' {st : Array Val} {sp : Nat} {l : List Val} {d : List Bool} (hst : SRel st sp l d) (hsz : st.size = stackSize)
    (hb : l.length + 1 ≤ stackSize) : sp < st.size := by
  have := hst.length.1
  omega

theorem step_const {idx : Nat} (R : FRelH K ρ ⟨act, stk, g, h, a, callers⟩ d vs) (hfetch : fetch act.code act.pc = some (.const idx))
    (hstep : fstep K F ⟨act, stk, g, h, a, callers⟩ = some fs') (hpost : postOk (.const idx) fs' = true) :
    GoalR K ρ fs' (true :: d) vs := by
  fh_pre
  rw [encodeI_const] at hcode
  have hnm := opname (b := 0) (name := "Constant") hcode hip rfl rfl
  obtain ⟨h1, h2⟩ := operands16 hcode hip
  unfold step; simp only [hnm]
  unfold fstep at hstep
  simp only [hfetch, Core.step] at hstep
  cases hk : K[idx]? with
  | none => simp [hk] at hstep
  | some v =>
    simp only [hk, Option.map_some, Option.some.injEq] at hstep
    subst hstep
    have hkc : vs.constants[idx]? = some v := by
      rw [← R.consts] at hk; simpa using hk
    have hsp := room' R.stack R.size (by simpa using post_stk hpost)
    have hpv := R.plainK _ (List.mem_of_getElem? hk)
    simp only [wpe_bind, wpe_readU16 _ _ _ _ _ _ _ h1 h2, wpe_get, dec16 (fits16 hfi), hkc, wpe_push, wpe_setIp,
      wpe_pure, finish, wpe_curFrame, withIp, hf, hsp, ↓reduceIte]
    exact R.next hf (by rw [hipc]) rfl (by simpa [rn_plain ρ hpv] using R.stack.push hsp v) (by simp) R.globals R.heap
      (oks_cons (okv_plain hpv) R.okS) R.okG

theorem step_pop (R : FRelH K ρ ⟨act, stk, g, h, a, callers⟩ d vs) (hfetch : fetch act.code act.pc = some .pop)
    (hstep : fstep K F ⟨act, stk, g, h, a, callers⟩ = some fs') (hpre : preOk .pop ⟨act, stk, g, h, a, callers⟩ d = true) :
    GoalR K ρ fs' (d.drop 1) vs := by
  fh_pre
  have hnm := opname (b := 1) (name := "Pop") hcode hip rfl rfl
  unfold step; simp only [hnm]
  unfold fstep at hstep
  simp only [hfetch, Core.step] at hstep
  simp only [preOk, need, noHeapI, Bool.and_eq_true, Bool.true_and, Bool.and_true] at hpre
  cases stk with
  | nil => simp at hstep
  | cons v rest =>
    simp at hstep
    subst hstep
    obtain ⟨n1, e1, s1⟩ := R.stack.pop hpre
    simp only [wpe_bind, wpe_pop, wpe_pure, finish, wpe_curFrame, wpe_setIp, withIp, hf, n1, ↓reduceIte]
    exact R.next hf (by rw [hipc]) rfl s1 rfl R.globals R.heap (oks_tail R.okS) R.okG

/-- the arms `push v; pure .advance` for a plain value -/
theorem push_arm {f : Frame} {rest : List Frame} (R : FRelH K ρ ⟨act, stk, g, h, a, callers⟩ d vs) (hf : vs.frames = f :: rest)
    (hipc : f.ip = act.pc) (v : Val) (line : Nat) (hv : plain v = true) (hb : (v :: stk).length ≤ stackSize) :
    wpe ((do push v line; pure Next.advance) >>= finish)
      (fun _ s' => FRelH K ρ ⟨{ act with pc := act.pc + 1 }, v :: stk, g, h, a, callers⟩ (true :: d) s') noErr vs := by
  have hsp := room' R.stack R.size (by simpa using hb)
  simp only [wpe_bind, wpe_push, wpe_pure, finish, wpe_curFrame, wpe_setIp, withIp, hf, hsp, ↓reduceIte]
  exact R.next hf (by rw [hipc]) rfl (by simpa [rn_plain ρ hv] using R.stack.push hsp v) (by simp) R.globals R.heap
    (oks_cons (okv_plain hv) R.okS) R.okG

theorem step_tru (R : FRelH K ρ ⟨act, stk, g, h, a, callers⟩ d vs) (hfetch : fetch act.code act.pc = some .tru)
    (hstep : fstep K F ⟨act, stk, g, h, a, callers⟩ = some fs') (hpost : postOk .tru fs' = true) : GoalR K ρ fs' (true :: d) vs := by
  fh_pre
  have hnm := opname (b := 7) (name := "True") hcode hip rfl rfl
  unfold step; simp only [hnm]
  unfold fstep at hstep
  simp [hfetch, Core.step] at hstep
  subst hstep
  exact push_arm R hf hipc _ line rfl (post_stk hpost)

theorem step_fls (R : FRelH K ρ ⟨act, stk, g, h, a, callers⟩ d vs) (hfetch : fetch act.code act.pc = some .fls)
    (hstep : fstep K F ⟨act, stk, g, h, a, callers⟩ = some fs') (hpost : postOk .fls fs' = true) : GoalR K ρ fs' (true :: d) vs := by
  fh_pre
  have hnm := opname (b := 8) (name := "False") hcode hip rfl rfl
  unfold step; simp only [hnm]
  unfold fstep at hstep
  simp [hfetch, Core.step] at hstep
  subst hstep
  exact push_arm R hf hipc _ line rfl (post_stk hpost)

theorem step_null (R : FRelH K ρ ⟨act, stk, g, h, a, callers⟩ d vs) (hfetch : fetch act.code act.pc = some .null)
    (hstep : fstep K F ⟨act, stk, g, h, a, callers⟩ = some fs') (hpost : postOk .null fs' = true) : GoalR K ρ fs' (true :: d) vs := by
  fh_pre
  have hnm := opname (b := 18) (name := "Null") hcode hip rfl rfl
  unfold step; simp only [hnm]
  unfold fstep at hstep
  simp [hfetch, Core.step] at hstep
  subst hstep
  exact push_arm R hf hipc _ line rfl (post_stk hpost)

theorem step_dup (R : FRelH K ρ ⟨act, stk, g, h, a, callers⟩ d vs) (hfetch : fetch act.code act.pc = some .dup)
    (hstep : fstep K F ⟨act, stk, g, h, a, callers⟩ = some fs') (hpre : preOk .dup ⟨act, stk, g, h, a, callers⟩ d = true)
    (hpost : postOk .dup fs' = true) : GoalR K ρ fs' (true :: d) vs := by
  fh_pre
  have hnm := opname (b := 44) (name := "Dup") hcode hip rfl rfl
  unfold step; simp only [hnm]
  unfold fstep at hstep
  simp only [hfetch, Core.step] at hstep
  have hd := preOk_need hpre
  cases stk with
  | nil => simp at hstep
  | cons v rest' =>
    simp at hstep
    subst hstep
    obtain ⟨n1, e1, s1⟩ := R.stack.pop hd
    have hsp := room' R.stack R.size (by simpa using post_stk hpost)
    simp only [wpe_bind, wpe_peek0, wpe_push, wpe_pure, finish, wpe_curFrame, wpe_setIp, withIp, hf, n1, e1, hsp, ↓reduceIte]
    exact R.next hf (by rw [hipc]) rfl (R.stack.push hsp (rn ρ v)) (by simp) R.globals R.heap
      (oks_cons (oks_head R.okS) R.okS) R.okG

theorem step_minus (R : FRelH K ρ ⟨act, stk, g, h, a, callers⟩ d vs) (hfetch : fetch act.code act.pc = some .minus)
    (hstep : fstep K F ⟨act, stk, g, h, a, callers⟩ = some fs') (hpre : preOk .minus ⟨act, stk, g, h, a, callers⟩ d = true) :
    GoalR K ρ fs' (true :: d.drop 1) vs := by
  fh_pre
  have hnm := opname (b := 13) (name := "Minus") hcode hip rfl rfl
  unfold step; simp only [hnm]
  unfold fstep at hstep
  simp only [hfetch, Core.step] at hstep
  have hd := preOk_need hpre
  cases stk with
  | nil => simp at hstep
  | cons v rest' =>
    simp only at hstep
    cases hx : unaryMinus v with
    | err m => rw [hx] at hstep; simp at hstep
    | panic m => rw [hx] at hstep; simp at hstep
    | ok w =>
      rw [hx] at hstep; simp at hstep
      subst hstep
      obtain ⟨n1, e1, s1⟩ := R.stack.pop hd
      obtain ⟨hpv, hpw⟩ := unaryMinus_plain hx
      rw [rn_plain ρ hpv] at e1
      have hroom : vs.sp - 1 < vs.stack.size := by have := R.stack.1; omega
      have hnum := unaryMinus_isNumber hx
      have hw := plain_scalar hpw
      simp only [wpe_bind, wpe_peek0, wpe_ite, wpe_rtErr, wpe_pop, wpe_ofOpRes, wpe_push, wpe_pure, finish,
        wpe_curFrame, wpe_setIp, withIp, hf, n1, e1, hnum, hx, reflect_scalar _ _ hw, hroom, ↓reduceIte,
        Bool.not_true, Bool.false_eq_true]
      exact R.next hf (by rw [hipc]) rfl (by simpa [rn_plain ρ hpw] using s1.push hroom w) (by simp) R.globals R.heap
        (oks_cons (okv_plain hpw) (oks_tail R.okS)) R.okG

theorem step_bnot (R : FRelH K ρ ⟨act, stk, g, h, a, callers⟩ d vs) (hfetch : fetch act.code act.pc = some .bnot)
    (hstep : fstep K F ⟨act, stk, g, h, a, callers⟩ = some fs') (hpre : preOk .bnot ⟨act, stk, g, h, a, callers⟩ d = true) :
    GoalR K ρ fs' (true :: d.drop 1) vs := by
  fh_pre
  have hnm := opname (b := 38) (name := "Not") hcode hip rfl rfl
  unfold step; simp only [hnm]
  unfold fstep at hstep
  simp only [hfetch, Core.step] at hstep
  have hd := preOk_need hpre
  cases stk with
  | nil => simp at hstep
  | cons v rest' =>
    simp only at hstep
    cases hx : unaryNot v with
    | err m => rw [hx] at hstep; simp at hstep
    | panic m => rw [hx] at hstep; simp at hstep
    | ok w =>
      rw [hx] at hstep; simp at hstep
      subst hstep
      obtain ⟨n1, e1, s1⟩ := R.stack.pop hd
      obtain ⟨hpv, hpw⟩ := unaryNot_plain hx
      rw [rn_plain ρ hpv] at e1
      have hroom : vs.sp - 1 < vs.stack.size := by have := R.stack.1; omega
      have hw := plain_scalar hpw
      simp only [wpe_bind, wpe_pop, wpe_ofOpRes, wpe_push, wpe_pure, finish,
        wpe_curFrame, wpe_setIp, withIp, hf, n1, e1, hx, reflect_scalar _ _ hw, hroom, ↓reduceIte]
      exact R.next hf (by rw [hipc]) rfl (by simpa [rn_plain ρ hpw] using s1.push hroom w) (by simp) R.globals R.heap
        (oks_cons (okv_plain hpw) (oks_tail R.okS)) R.okG

theorem step_bang (R : FRelH K ρ ⟨act, stk, g, h, a, callers⟩ d vs) (hfetch : fetch act.code act.pc = some .bang)
    (hstep : fstep K F ⟨act, stk, g, h, a, callers⟩ = some fs') (hpre : preOk .bang ⟨act, stk, g, h, a, callers⟩ d = true) :
    GoalR K ρ fs' (true :: d.drop 1) vs := by
  fh_pre
  have hnm := opname (b := 14) (name := "Bang") hcode hip rfl rfl
  unfold step; simp only [hnm]
  unfold fstep at hstep
  simp only [hfetch] at hstep
  have hd := preOk_need hpre
  cases stk with
  | nil => simp at hstep
  | cons v rest' =>
    simp at hstep
    subst hstep
    obtain ⟨n1, e1, s1⟩ := R.stack.pop hd
    have hroom : vs.sp - 1 < vs.stack.size := by have := R.stack.1; omega
    have hfal := falsey_rel R.heap (oks_head R.okS)
    simp only [wpe_bind, wpe_pop, wpe_reifyM, wpe_push, wpe_pure, finish,
      wpe_curFrame, wpe_setIp, withIp, hf, n1, e1, hfal, hroom, ↓reduceIte]
    exact R.next hf (by rw [hipc]) rfl (s1.push hroom _) (by simp) R.globals R.heap
      (oks_cons trivial (oks_tail R.okS)) R.okG

theorem step_jump {t : Nat} (R : FRelH K ρ ⟨act, stk, g, h, a, callers⟩ d vs) (hfetch : fetch act.code act.pc = some (.jump t))
    (hstep : fstep K F ⟨act, stk, g, h, a, callers⟩ = some fs') : GoalR K ρ fs' d vs := by
  fh_pre
  rw [encodeI_jump] at hcode
  have hnm := opname (b := 15) (name := "Jump") hcode hip rfl rfl
  obtain ⟨h1, h2⟩ := operands16 hcode hip
  unfold step; simp only [hnm]
  unfold fstep at hstep
  simp [hfetch, Core.step] at hstep
  subst hstep
  simp only [wpe_bind, wpe_readU16 _ _ _ _ _ _ _ h1 h2, dec16 (fits16 hfi), wpe_setIp, wpe_pure, finish, withIp, hf]
  exact R.next hf rfl rfl R.stack rfl R.globals R.heap R.okS R.okG

theorem step_jif {t : Nat} (R : FRelH K ρ ⟨act, stk, g, h, a, callers⟩ d vs) (hfetch : fetch act.code act.pc = some (.jif t))
    (hstep : fstep K F ⟨act, stk, g, h, a, callers⟩ = some fs') (hpre : preOk (.jif t) ⟨act, stk, g, h, a, callers⟩ d = true) :
    GoalR K ρ fs' (d.drop 1) vs := by
  fh_pre
  rw [encodeI_jif] at hcode
  have hnm := opname (b := 16) (name := "JumpIfFalse") hcode hip rfl rfl
  obtain ⟨h1, h2⟩ := operands16 hcode hip
  unfold step; simp only [hnm]
  unfold fstep at hstep
  simp only [hfetch] at hstep
  have hd := preOk_need hpre
  cases stk with
  | nil => simp at hstep
  | cons v rest' =>
    simp at hstep
    subst hstep
    obtain ⟨n1, e1, s1⟩ := R.stack.pop hd
    have hfal := falsey_rel R.heap (oks_head R.okS)
    simp only [wpe_bind, wpe_readU16 _ _ _ _ _ _ _ h1 h2, dec16 (fits16 hfi), wpe_setIp, wpe_pop, wpe_reifyM,
      withIp, hf, n1, e1, hfal, ↓reduceIte]
    by_cases hfl : falseyH a v = true
    · simp only [hfl, ↓reduceIte, wpe_bind, wpe_setIp, wpe_pure, finish, withIp]
      exact R.next hf rfl rfl s1 rfl R.globals R.heap (oks_tail R.okS) R.okG
    · simp only [hfl, Bool.false_eq_true, ↓reduceIte, wpe_bind, wpe_setIp, wpe_pure, finish, withIp, wpe_curFrame]
      exact R.next hf (by rw [hipc]) rfl s1 rfl R.globals R.heap (oks_tail R.okS) R.okG

theorem step_jifnp {t : Nat} (R : FRelH K ρ ⟨act, stk, g, h, a, callers⟩ d vs) (hfetch : fetch act.code act.pc = some (.jifnp t))
    (hstep : fstep K F ⟨act, stk, g, h, a, callers⟩ = some fs') (hpre : preOk (.jifnp t) ⟨act, stk, g, h, a, callers⟩ d = true) :
    GoalR K ρ fs' d vs := by
  fh_pre
  rw [encodeI_jifnp] at hcode
  have hnm := opname (b := 17) (name := "JumpIfFalseNoPop") hcode hip rfl rfl
  obtain ⟨h1, h2⟩ := operands16 hcode hip
  unfold step; simp only [hnm]
  unfold fstep at hstep
  simp only [hfetch] at hstep
  have hd := preOk_need hpre
  cases stk with
  | nil => simp at hstep
  | cons v rest' =>
    simp at hstep
    subst hstep
    obtain ⟨n1, e1, s1⟩ := R.stack.pop hd
    have hfal := falsey_rel R.heap (oks_head R.okS)
    simp only [wpe_bind, wpe_readU16 _ _ _ _ _ _ _ h1 h2, dec16 (fits16 hfi), wpe_setIp, wpe_top0, wpe_reifyM,
      withIp, hf, n1, e1, hfal, ↓reduceIte]
    by_cases hfl : falseyH a v = true
    · simp only [hfl, ↓reduceIte, wpe_bind, wpe_setIp, wpe_pure, finish, withIp]
      exact R.next hf rfl rfl R.stack rfl R.globals R.heap R.okS R.okG
    · simp only [hfl, Bool.false_eq_true, ↓reduceIte, wpe_bind, wpe_setIp, wpe_pure, finish, withIp, wpe_curFrame]
      exact R.next hf (by rw [hipc]) rfl R.stack rfl R.globals R.heap R.okS R.okG

theorem getD_map_rn (ρ : Ren) (g : List Val) (i : Nat) : (g.map (rn ρ))[i]?.getD .null = rn ρ (g.getD i .null) := by
  rw [List.getD_eq_getElem?_getD, List.getElem?_map]
  cases g[i]? <;> rfl

theorem step_getGlobal {i : Nat} (R : FRelH K ρ ⟨act, stk, g, h, a, callers⟩ d vs) (hfetch : fetch act.code act.pc = some (.getGlobal i))
    (hstep : fstep K F ⟨act, stk, g, h, a, callers⟩ = some fs') (hpost : postOk (.getGlobal i) fs' = true) :
    GoalR K ρ fs' (true :: d) vs := by
  fh_pre
  rw [encodeI_getGlobal] at hcode
  have hnm := opname (b := 20) (name := "GetGlobal") hcode hip rfl rfl
  obtain ⟨h1, h2⟩ := operands16 hcode hip
  unfold step; simp only [hnm]
  unfold fstep at hstep
  simp [hfetch, Core.step] at hstep
  subst hstep
  have hsp := room' R.stack R.size (by simpa using post_stk hpost)
  have hroom := globals_room R.globals (fits16 hfi)
  have hget : vs.globals.getD i .null = rn ρ (g.getD i .null) :=
    ((R.globals.2.2 i).trans (List.getD_eq_getElem?_getD ..)).trans (getD_map_rn ρ g i)
  simp only [wpe_bind, wpe_readU16 _ _ _ _ _ _ _ h1 h2, dec16 (fits16 hfi), wpe_setIp, wpe_get, wpe_ite, wpe_panicM,
    wpe_push, wpe_pure, finish, wpe_curFrame, withIp, hf, hroom, hsp, hget, ↓reduceIte]
  have hgd : g[i]?.getD .null = g.getD i .null := (List.getD_eq_getElem?_getD ..).symm
  rw [hgd]
  exact R.next hf (by rw [hipc]) rfl (R.stack.push hsp _) (by simp) R.globals R.heap (oks_cons (oks_getD R.okG i) R.okS) R.okG

theorem step_setGlobal {i : Nat} (R : FRelH K ρ ⟨act, stk, g, h, a, callers⟩ d vs) (hfetch : fetch act.code act.pc = some (.setGlobal i))
    (hstep : fstep K F ⟨act, stk, g, h, a, callers⟩ = some fs') (hpre : preOk (.setGlobal i) ⟨act, stk, g, h, a, callers⟩ d = true) :
    GoalR K ρ fs' d vs := by
  fh_pre
  rw [encodeI_setGlobal] at hcode
  have hnm := opname (b := 21) (name := "SetGlobal") hcode hip rfl rfl
  obtain ⟨h1, h2⟩ := operands16 hcode hip
  unfold step; simp only [hnm]
  unfold fstep at hstep
  simp only [hfetch, Core.step] at hstep
  have hd := preOk_need hpre
  cases stk with
  | nil => simp at hstep
  | cons v rest' =>
    by_cases hi : i < g.length
    case neg => simp [hi] at hstep
    simp [hi] at hstep
    subst hstep
    obtain ⟨n1, e1, s1⟩ := R.stack.pop hd
    have hroom := globals_room R.globals (fits16 hfi)
    simp only [wpe_bind, wpe_readU16 _ _ _ _ _ _ _ h1 h2, dec16 (fits16 hfi), wpe_setIp, wpe_top0, wpe_get, wpe_ite,
      wpe_panicM, wpe_set, wpe_pure, finish, wpe_curFrame, withIp, hf, hroom, n1, e1, ↓reduceIte]
    exact R.next hf (by rw [hipc]) rfl R.stack rfl (by simpa [List.map_set] using R.globals.set (i := i) (by simpa using hi) (rn ρ v)) R.heap
      R.okS (oks_set R.okG (oks_head R.okS) i)

theorem step_defGlobal {i : Nat} (R : FRelH K ρ ⟨act, stk, g, h, a, callers⟩ d vs) (hfetch : fetch act.code act.pc = some (.defGlobal i))
    (hstep : fstep K F ⟨act, stk, g, h, a, callers⟩ = some fs') (hpre : preOk (.defGlobal i) ⟨act, stk, g, h, a, callers⟩ d = true) :
    GoalR K ρ fs' (d.drop 1) vs := by
  fh_pre
  rw [encodeI_defGlobal] at hcode
  have hnm := opname (b := 19) (name := "DefineGlobal") hcode hip rfl rfl
  obtain ⟨h1, h2⟩ := operands16 hcode hip
  unfold step; simp only [hnm]
  unfold fstep at hstep
  simp only [hfetch, Core.step] at hstep
  have hd := preOk_need hpre
  cases stk with
  | nil => simp at hstep
  | cons v rest' =>
    by_cases hi : i < g.length
    case neg => simp [hi] at hstep
    simp [hi] at hstep
    subst hstep
    obtain ⟨n1, e1, s1⟩ := R.stack.pop hd
    have hroom := globals_room R.globals (fits16 hfi)
    simp only [wpe_bind, wpe_readU16 _ _ _ _ _ _ _ h1 h2, dec16 (fits16 hfi), wpe_setIp, wpe_pop, wpe_get, wpe_ite,
      wpe_panicM, wpe_set, wpe_pure, finish, wpe_curFrame, withIp, hf, hroom, n1, e1, ↓reduceIte]
    exact R.next hf (by rw [hipc]) rfl s1 rfl (by simpa [List.map_set] using R.globals.set (i := i) (by simpa using hi) (rn ρ v)) R.heap
      (oks_tail R.okS) (oks_set R.okG (oks_head R.okS) i)

/-- the general form of `FRelH.next`: the renaming may be extended (agreeing on the existing cells), the heaps may change -/
theorem FRelH.step {f : Frame} {rest : List Frame} (R : FRelH K ρ ⟨act, stk, g, h, a, callers⟩ d vs)
    (hf : vs.frames = f :: rest) {vs' : St} {pc' : Nat} {stk' g' : List Val} {h' : List (List Val)} {a' : Heap} {d' : List Bool} {ρ' : Ren}
    (hfr : vs'.frames = { f with ip := pc' } :: rest) (hc : vs'.constants = vs.constants)
    (hρc : ∀ i, i < h.length → ρ'.c i = ρ.c i) (hlen : h.length ≤ h'.length)
    (hst : SRel vs'.stack vs'.sp (stk'.map (rn ρ')) d') (hsz : vs'.stack.size = vs.stack.size) (hg : GRel vs'.globals (g'.map (rn ρ')))
    (hh : HRelH ρ' vs'.heap h' a') (hs : oks h'.length a' stk') (hsg : oks h'.length a' g') (hsh : ∀ c ∈ h', oks h'.length a' c)
    (hsa : ∀ id o, a'.get? id = some o → okO h'.length a' o) :
    FRelH K ρ' ⟨{ act with pc := pc' }, stk', g', h', a', callers⟩ d' vs' := by
  have hfs := R.frames
  rw [hf] at hfs
  have hcid : ∀ x ∈ act :: callers, ρ'.c x.cid = ρ.c x.cid := fun x hx => hρc _ (R.okF x hx)
  cases hfs with
  | cons hA hrest =>
    refine ⟨?_, R.bps, by rw [hc]; exact R.consts, by rw [hsz]; exact R.size, hst, hg, hh, R.plainK, hs, hsg, hsh, hsa, ?_⟩
    · rw [hfr]
      exact .cons ⟨hA.code, hA.lines, hA.fits, rfl, hA.bp, by rw [hcid act (by simp)]; exact hA.cid, hA.fd⟩
        (hrest.congr fun x hx => hcid x (by simp [hx]))
    · intro x hx
      rcases List.mem_cons.mp hx with rfl | hx
      · exact Nat.lt_of_lt_of_le (R.okF act (by simp)) hlen
      · exact Nat.lt_of_lt_of_le (R.okF x (by simp [hx])) hlen

/-! ### maps with plain keys: `Core/Fn`'s association view is the `HashMap` model -/

section maps
open P2sh.Core.Fn (insertKV lookupKV buildMap mkMap isNullV)

theorem view_plain (a : Heap) {v : Val} (h : plain v = true) : view a v = v := reify_scalar _ _ (plain_scalar h)

def keysPlain (ps : List (Val × Val)) : Prop := ∀ p ∈ ps, plain p.1 = true

theorem insertKV_eq (a : Heap) {k : Val} (hk : plain k = true) (v : Val) :
    ∀ (ps : List (Val × Val)), keysPlain ps → insertKV a k v ps = (HMap.insert ps k v).1
  | [], _ => rfl
  | (k0, v0) :: rest, h => by
    have hk0 : plain k0 = true := h (k0, v0) (by simp)
    have ih := insertKV_eq a hk v rest (fun p hp => h p (by simp [hp]))
    simp only [insertKV, HMap.insert, view_plain a hk, view_plain a hk0]
    by_cases hm : HMap.keyMatch k k0 = true
    · simp [hm]
    · simp [hm, ih]

theorem insert_keys {k : Val} (hk : plain k = true) (v : Val) :
    ∀ (ps : List (Val × Val)), keysPlain ps → keysPlain (HMap.insert ps k v).1
  | [], _ => by intro p hp; simp [HMap.insert] at hp; subst hp; exact hk
  | (k0, v0) :: rest, h => by
    have ih := insert_keys hk v rest (fun p hp => h p (by simp [hp]))
    simp only [HMap.insert]
    by_cases hm : HMap.keyMatch k k0 = true
    · simp only [hm, if_true]
      intro p hp
      rcases List.mem_cons.mp hp with rfl | hp
      · exact h (k0, v0) (by simp)
      · exact h p (by simp [hp])
    · simp only [hm, Bool.false_eq_true, if_false]
      intro p hp
      rcases List.mem_cons.mp hp with rfl | hp
      · exact h (k0, v0) (by simp)
      · exact ih p hp

theorem insert_vals {P : Val → Prop} {k v : Val} (hv : P v) :
    ∀ (ps : List (Val × Val)), (∀ p ∈ ps, P p.2) → ∀ p ∈ (HMap.insert ps k v).1, P p.2
  | [], _ => by intro p hp; simp [HMap.insert] at hp; subst hp; exact hv
  | (k0, v0) :: rest, h => by
    have ih := insert_vals (k := k) hv rest (fun p hp => h p (by simp [hp]))
    simp only [HMap.insert]
    by_cases hm : HMap.keyMatch k k0 = true
    · simp only [hm, if_true]
      intro p hp
      rcases List.mem_cons.mp hp with rfl | hp
      · exact hv
      · exact h p (by simp [hp])
    · simp only [hm, Bool.false_eq_true, if_false]
      intro p hp
      rcases List.mem_cons.mp hp with rfl | hp
      · exact h (k0, v0) (by simp)
      · exact ih p hp

/-- renaming the values commutes with `HashMap::insert` (the keys are untouched) -/
theorem insert_rnP (ρ : Ren) (k v : Val) :
    ∀ (ps : List (Val × Val)), (HMap.insert (ps.map (rnP ρ)) k (rn ρ v)).1 = ((HMap.insert ps k v).1).map (rnP ρ)
  | [] => rfl
  | (k0, v0) :: rest => by
    have ih := insert_rnP ρ k v rest
    simp only [List.map_cons, rnP, HMap.insert]
    by_cases hm : HMap.keyMatch k k0 = true
    · simp [hm, rnP]
    · simp only [hm, Bool.false_eq_true, if_false, List.map_cons, rnP]
      rw [ih]

theorem zip_self_map (f : (Val × Val) × (Val × Val) → Val × Val) (hf : ∀ x y, f (x, y) = (x.1, y.2)) :
    ∀ (l : List (Val × Val)), (l.zip l).map f = l
  | [] => rfl
  | p :: l => by simp [hf, zip_self_map f hf l]

theorem insert_shape (f : (Val × Val) × (Val × Val) → Val × Val) (hf : ∀ x y, f (x, y) = (x.1, y.2)) (k v : Val) :
    ∀ (L : List (Val × Val)),
      ((HMap.insert L k v).1.length = L.length ∧ (L.zip (HMap.insert L k v).1).map f = (HMap.insert L k v).1) ∨
      ((HMap.insert L k v).1.length = L.length + 1 ∧ L ++ [(k, v)] = (HMap.insert L k v).1)
  | [] => Or.inr ⟨rfl, rfl⟩
  | (k0, v0) :: rest => by
    simp only [HMap.insert]
    by_cases hm : HMap.keyMatch k k0 = true
    · left
      simp [hm, hf, zip_self_map f hf rest]
    · simp only [hm, Bool.false_eq_true, if_false]
      rcases insert_shape f hf k v rest with ⟨h1, h2⟩ | ⟨h1, h2⟩
      · left; simp [h1, h2, hf]
      · right; simp [h1, ← h2]

/-- what `build_map` / `exec_index_expr` store: the entries with their ORIGINAL keys are the table after `insert` -/
theorem insert_stored (f : (Val × Val) × (Val × Val) → Val × Val) (hf : ∀ x y, f (x, y) = (x.1, y.2)) (k v : Val) (L : List (Val × Val)) :
    (if ((HMap.insert L k v).1.length == L.length) = true then (L.zip (HMap.insert L k v).1).map f else L ++ [(k, v)]) = (HMap.insert L k v).1 := by
  rcases insert_shape f hf k v L with ⟨h1, h2⟩ | ⟨h1, h2⟩
  · simp [h1, h2]
  · simp [h1, h2]

theorem lookupKV_eq (a : Heap) {k : Val} (hk : plain k = true) :
    ∀ (ps : List (Val × Val)), keysPlain ps → lookupKV a k ps = HMap.get? ps k
  | [], _ => rfl
  | (k0, v0) :: rest, h => by
    have hk0 : plain k0 = true := h (k0, v0) (by simp)
    have ih := lookupKV_eq a hk rest (fun p hp => h p (by simp [hp]))
    simp only [lookupKV, HMap.get?, view_plain a hk, view_plain a hk0, List.find?_cons]
    by_cases hm : HMap.keyMatch k k0 = true
    · simp [hm]
    · simp only [hm, Bool.false_eq_true, if_false]
      rw [ih]; rfl

theorem get?_rnP (ρ : Ren) (k : Val) : ∀ (ps : List (Val × Val)), HMap.get? (ps.map (rnP ρ)) k = (HMap.get? ps k).map (rn ρ)
  | [] => rfl
  | (k0, v0) :: rest => by
    have ih := get?_rnP ρ k rest
    simp only [HMap.get?, List.map_cons, rnP, List.find?_cons] at ih ⊢
    by_cases hm : HMap.keyMatch k k0 = true
    · simp [hm]
    · simp only [hm, Bool.false_eq_true, if_false]
      exact ih

/-- the keys at the even positions (`k1, v1, k2, v2, …`) are plain -/
def plainKeys : List Val → Bool
  | k :: _ :: rest => plain k && plainKeys rest
  | _ => true

theorem reify_keys {hp : Heap} {n : Nat} : ∀ {ps : List (Val × Val)}, keysPlain ps → ps.map (fun p => (reify hp n p.1, p.2)) = ps
  | [], _ => rfl
  | p :: ps, h => by
    have h1 := h p (by simp)
    simp [reify_scalar _ _ (plain_scalar h1), reify_keys (ps := ps) (fun q hq => h q (List.mem_cons_of_mem _ hq))]

theorem wpe_mapM_read {α β : Type} (f : α → M β) (g : St → α → β)
    (hf : ∀ x (Q : β → St → Prop) (E : Res → St → Prop) s, wpe (f x) Q E s ↔ Q (g s x) s) :
    ∀ (l : List α) (Q : List β → St → Prop) (E : Res → St → Prop) (s : St), wpe (l.mapM f) Q E s ↔ Q (l.map (g s)) s := by
  intro l
  induction l with
  | nil => intro Q E s; simp only [List.mapM_nil, wpe_pure, List.map_nil]
  | cons x l ih =>
    intro Q E s
    rw [List.mapM_cons]
    simp only [wpe_bind, hf, ih, wpe_pure, List.map_cons]

/-- `build_map` in the VM on the renamed operands (plain keys) yields `Core/Fn`'s `buildMap`, the values renamed; the state is
untouched -/
theorem wpe_build {a : Heap} (ρ : Ren) (line : Nat) (Q : List (Val × Val) → St → Prop) (E : Res → St → Prop) (s : St) :
    ∀ (xs : List Val) (acc res : List (Val × Val)), plainKeys xs = true → keysPlain acc → buildMap a xs acc = some res →
      Q (res.map (rnP ρ)) s → wpe (step.build line (xs.map (rn ρ)) (acc.map (rnP ρ)) (acc.map (rnP ρ))) Q E s
  | [], acc, res, _, _, hb, hq => by
    simp only [buildMap, Option.some.injEq] at hb
    subst hb
    unfold step.build
    simpa only [List.map_nil, wpe_pure] using hq
  | [k], acc, res, _, _, hb, _ => by simp [buildMap] at hb
  | k :: v :: rest, acc, res, hpk, hacc, hb, hq => by
    simp only [plainKeys, Bool.and_eq_true] at hpk
    simp only [buildMap] at hb
    by_cases hvk : k.isValidKey = true
    case neg => simp [hvk] at hb
    simp only [hvk, if_true] at hb
    have hins : insertKV a k v acc = (HMap.insert acc k v).1 := insertKV_eq a hpk.1 v acc hacc
    have ih := wpe_build ρ line Q E s rest (insertKV a k v acc) res hpk.2 (by rw [hins]; exact insert_keys hpk.1 v acc hacc) hb hq
    unfold step.build
    simp only [List.map_cons, rn_plain ρ hpk.1, wpe_bind, wpe_reifyM, reify_scalar _ _ (plain_scalar hpk.1), hvk, Bool.not_true,
      Bool.false_eq_true, if_false, wpe_ite, wpe_pure]
    cases hi : HMap.insert (acc.map (rnP ρ)) k (rn ρ v) with
    | mk r o =>
      have hr : r = (HMap.insert (acc.map (rnP ρ)) k (rn ρ v)).1 := by rw [hi]
      simp only []
      rw [hr, insert_stored _ (fun _ _ => rfl), insert_rnP, ← hins]
      exact ih

theorem keysPlain_rnP (ρ : Ren) {ps : List (Val × Val)} (h : keysPlain ps) : keysPlain (ps.map (rnP ρ)) := by
  intro p hp
  obtain ⟨q, hq, rfl⟩ := List.mem_map.mp hp
  exact h q hq

/-- the keys of a map object are reified one by one (`exec_index_expr`): the state is only read -/
theorem wpe_reifyKeys (kvs : List (Val × Val)) (Q : List (Val × Val) → St → Prop) (E : Res → St → Prop) (s : St) :
    wpe (kvs.mapM fun (a, b) => do return (← reifyM a, b)) Q E s ↔ Q (kvs.map fun p => (reify s.heap reifyDepth p.1, p.2)) s :=
  wpe_mapM_read _ (fun s p => (reify s.heap reifyDepth p.1, p.2))
    (by intro ⟨a, b⟩ Q E s; simp only [wpe_bind, wpe_reifyM, wpe_pure]) kvs Q E s

theorem buildMap_ok {hn : Nat} {a : Heap} : ∀ (xs : List Val) (acc res : List (Val × Val)), plainKeys xs = true → oks hn a xs →
    okO hn a (.map acc) → buildMap a xs acc = some res → okO hn a (.map res)
  | [], acc, res, _, _, hacc, hb => by
    simp only [buildMap, Option.some.injEq] at hb
    subst hb; exact hacc
  | [k], acc, res, _, _, _, hb => by simp [buildMap] at hb
  | k :: v :: rest, acc, res, hpk, hxs, hacc, hb => by
    simp only [plainKeys, Bool.and_eq_true] at hpk
    simp only [buildMap] at hb
    by_cases hvk : k.isValidKey = true
    case neg => simp [hvk] at hb
    simp only [hvk, if_true] at hb
    have hkp : keysPlain acc := fun p hp => (hacc p hp).1
    have hins : insertKV a k v acc = (HMap.insert acc k v).1 := insertKV_eq a hpk.1 v acc hkp
    refine buildMap_ok rest (insertKV a k v acc) res hpk.2 (oks_tail (oks_tail hxs)) ?_ hb
    rw [hins]
    intro p hp
    exact ⟨insert_keys hpk.1 v acc hkp p hp, insert_vals (P := okv hn a) (hxs v (by simp)) acc (fun q hq => (hacc q hq).2) p hp⟩

theorem get?_mem {ps : List (Val × Val)} {k w : Val} (h : HMap.get? ps k = some w) : ∃ p ∈ ps, p.2 = w := by
  unfold HMap.get? at h
  cases hf : ps.find? (fun e => HMap.keyMatch k e.1) with
  | none => simp [hf] at h
  | some e =>
    simp only [hf, Option.some.injEq] at h
    exact ⟨e, List.mem_of_find?_eq_some hf, h⟩

/-- the side condition on `GetIndex` / `SetIndex` of a MAP: the key is a plain value -/
def idxPlain : List Val → Bool
  | i :: .map _ _ :: _ => plain i
  | _ => true

theorem getMap_of_get? {a : Heap} {id : Nat} {ps : List (Val × Val)} (h : a.get? id = some (.map ps)) : a.getMap id = ps := by
  unfold Heap.getMap; rw [h]

end maps

/-! ### `Array`, `GetIndex`, `SetIndex` (arrays) -/

/-- `reflect` leaves a renamed well-formed value alone: a plain value and a closure are not containers, an array
reference has a VM id other than 0 and no payload -/
theorem reflect_rn {hp : Heap} (R : HRelH ρ hp h a) {v : Val} (hv : okv h.length a v) (n : Nat) : reflect hp n (rn ρ v) = (hp, rn ρ v) := by
  cases v
  case arr id xs =>
    obtain ⟨rfl, ys, hy⟩ := hv
    have hne : (ρ.o id != 0) = true := by simpa using (R.ob id _ hy).2
    cases n with
    | zero => rfl
    | succ n => simp [rn, reflect, hne]
  case map id kvs =>
    obtain ⟨rfl, ps, hy⟩ := hv
    have hne : (ρ.o id != 0) = true := by simpa using (R.ob id _ hy).2
    cases n with
    | zero => rfl
    | succ n => simp [rn, reflect, hne]
  all_goals exact reflect_scalar hp n rfl

theorem foldl_reflect {hp : Heap} {n : Nat} : ∀ (l acc : List Val), (∀ x ∈ l, reflect hp n x = (hp, x)) →
    l.foldl (fun (acc : Heap × List Val) x => ((reflect acc.1 n x).1, acc.2 ++ [(reflect acc.1 n x).2])) (hp, acc) = (hp, acc ++ l)
  | [], acc, _ => by simp
  | x :: l, acc, hl => by
    have hx := hl x (by simp)
    simp only [List.foldl_cons, hx]
    rw [foldl_reflect l (acc ++ [x]) (fun y hy => hl y (by simp [hy]))]
    simp

/-- `build_array`: a new array of values that `reflect` leaves alone is ONE new object -/
theorem reflect_newArr {hp : Heap} {l : List Val} (hl : ∀ x ∈ l, reflect hp 63 x = (hp, x)) :
    reflect hp reifyDepth (.arr 0 l) = ((hp.alloc (.arr l)).1, .arr hp.next []) := by
  have := foldl_reflect (hp := hp) (n := 63) l [] hl
  simp only [reifyDepth, reflect, bne_self_eq_false, Bool.false_eq_true, if_false]
  simp only [List.nil_append] at this
  rw [this]
  rfl

theorem encodeI_array (n : Nat) : Core.encodeI (.array n) = [22, n % 65536 / 256 % 256, n % 65536 % 256] := enc3 22 n

theorem step_array {n : Nat} (R : FRelH K ρ ⟨act, stk, g, h, a, callers⟩ d vs) (hfetch : fetch act.code act.pc = some (.array n))
    (hstep : fstep K F ⟨act, stk, g, h, a, callers⟩ = some fs') (hd : (d.take n).all id = true)
    (hpost : postOk (.array n) fs' = true) : GoalH K fs' (true :: d.drop n) vs := by
  fh_pre
  rw [encodeI_array] at hcode
  have hnm := opname (b := 22) (name := "Array") hcode hip rfl rfl
  obtain ⟨h1, h2⟩ := operands16 hcode hip
  unfold step; simp only [hnm]
  unfold fstep at hstep
  simp only [hfetch] at hstep
  have hlen : (stk.map (rn ρ)).length = vs.sp := R.stack.length.1
  by_cases hn : n ≤ stk.length
  case neg => simp [hn] at hstep
  simp only [hn, if_true, mkArr, allocH_eq, Option.some.injEq] at hstep
  subst hstep
  have hnsp : ¬ vs.sp < n := by simp at hlen; omega
  have helems := R.stack.topN n hd (by simp at hlen; omega)
  have hs1 := R.stack.dropN n (by simp at hlen; omega)
  have hroom : vs.sp - n < vs.stack.size := by
    have hb := post_stk hpost
    have hsz := R.size
    have hl1 := hs1.length.1
    simp at hb hl1
    omega
  have hokE : oks h.length a (stk.take n).reverse := oks_reverse (oks_take R.okS n)
  have hmapE : ((stk.map (rn ρ)).take n).reverse = ((stk.take n).reverse).map (rn ρ) := by simp [List.map_take, List.map_reverse]
  have hrefl : ∀ x ∈ ((stk.take n).reverse).map (rn ρ), reflect vs.heap 63 x = (vs.heap, x) := by
    intro x hx
    obtain ⟨v, hv, rfl⟩ := List.mem_map.mp hx
    exact reflect_rn R.heap (hokE v hv) 63
  rw [hmapE] at helems
  simp only [wpe_bind, wpe_readU16 _ _ _ _ _ _ _ h1 h2, dec16 (fits16 hfi), wpe_get, hnsp, wpe_ite, wpe_panicM, wpe_set, wpe_reflectM,
    helems, reflect_newArr hrefl, wpe_push, wpe_setIp, wpe_pure, finish, wpe_curFrame, withIp, hf, hroom, ↓reduceIte]
  have hH := R.heap.allocObj (.arr (stk.take n).reverse) hokE R.okH R.okA
  have hc : ∀ i, i < h.length → (ρ.addO a.next vs.heap.next).c i = ρ.c i := fun _ _ => rfl
  have ho : ∀ i o, a.get? i = some o → (ρ.addO a.next vs.heap.next).o i = ρ.o i := by
    intro i o hi
    have hlt : i < a.next := R.heap.ab i o hi
    have : i ≠ a.next := by omega
    simp [Ren.addO, this]
  have hmono : Keeps a (a.alloc (.arr (stk.take n).reverse)).1 := Keeps.alloc R.heap.ab _
  refine ⟨ρ.addO a.next vs.heap.next, ?_⟩
  refine R.step hf (by simp [hipc]) rfl hc (Nat.le_refl _) ?_ (by simp) ?_ hH ?_ (oks_mono (Nat.le_refl _) hmono R.okG)
    (fun c hc' => oks_mono (Nat.le_refl _) hmono (R.okH c hc')) ?_
  · have hp := hs1.push hroom (.arr vs.heap.next [])
    have e1 : (stk.drop n).map (rn (ρ.addO a.next vs.heap.next)) = (stk.map (rn ρ)).drop n := by
      rw [map_rn_congr (oks_drop R.okS n) hc ho, List.map_drop]
    have e2 : rn (ρ.addO a.next vs.heap.next) (.arr (a.alloc (.arr (stk.take n).reverse)).2 []) = .arr vs.heap.next [] := by
      simp [rn, Ren.addO, Heap.alloc]
    simp only [List.map_cons, e1, e2]
    exact hp
  · rw [map_rn_congr R.okG hc ho]; exact R.globals
  · refine oks_cons ⟨rfl, _, get?_alloc_self a _⟩ (oks_mono (Nat.le_refl _) hmono (oks_drop R.okS n))
  · intro id ys hid
    by_cases hx : id = a.next
    · subst hx
      rw [get?_alloc_self] at hid
      cases hid
      exact oks_mono (Nat.le_refl _) hmono hokE
    · rw [get?_alloc_other a _ _ hx] at hid
      exact okO_mono (Nat.le_refl _) hmono (R.okA id ys hid)

theorem encodeI_hmap (n : Nat) : Core.encodeI (.hmap n) = [23, n % 65536 / 256 % 256, n % 65536 % 256] := enc3 23 n

/-- `Map n` with plain keys: the VM's `build_map` builds `Core/Fn`'s entries (values renamed), then ONE new object -/
theorem step_hmap {n : Nat} (R : FRelH K ρ ⟨act, stk, g, h, a, callers⟩ d vs) (hfetch : fetch act.code act.pc = some (.hmap n))
    (hstep : fstep K F ⟨act, stk, g, h, a, callers⟩ = some fs') (hd : (d.take n).all id = true)
    (hkeys : plainKeys (stk.take n).reverse = true) (hpost : postOk (.hmap n) fs' = true) : GoalH K fs' (true :: d.drop n) vs := by
  fh_pre
  rw [encodeI_hmap] at hcode
  have hnm := opname (b := 23) (name := "Map") hcode hip rfl rfl
  obtain ⟨h1, h2⟩ := operands16 hcode hip
  unfold step; simp only [hnm]
  unfold fstep at hstep
  simp only [hfetch] at hstep
  have hlen : (stk.map (rn ρ)).length = vs.sp := R.stack.length.1
  by_cases hn : n ≤ stk.length
  case neg => simp [hn] at hstep
  simp only [hn, if_true, P2sh.Core.Fn.mkMap] at hstep
  cases hb : P2sh.Core.Fn.buildMap a (stk.take n).reverse [] with
  | none => simp [hb] at hstep
  | some kvs =>
    simp only [hb, allocH_eq, Option.some.injEq] at hstep
    subst hstep
    have hnsp : ¬ vs.sp < n := by simp at hlen; omega
    have helems := R.stack.topN n hd (by simp at hlen; omega)
    have hs1 := R.stack.dropN n (by simp at hlen; omega)
    have hroom : vs.sp - n < vs.stack.size := by
      have hb := post_stk hpost
      have hsz := R.size
      have hl1 := hs1.length.1
      simp at hb hl1
      omega
    have hokE : oks h.length a (stk.take n).reverse := oks_reverse (oks_take R.okS n)
    have hmapE : ((stk.map (rn ρ)).take n).reverse = ((stk.take n).reverse).map (rn ρ) := by simp [List.map_take, List.map_reverse]
    rw [hmapE] at helems
    have hokM : okO h.length a (.map kvs) := buildMap_ok _ [] kvs hkeys hokE (fun p hp => by cases hp) hb
    simp only [wpe_bind, wpe_readU16 _ _ _ _ _ _ _ h1 h2, dec16 (fits16 hfi), wpe_get, hnsp, wpe_ite, wpe_panicM, wpe_pure, helems, ↓reduceIte]
    refine wpe_build (a := a) ρ line _ _ vs _ [] kvs hkeys (fun p hp => by cases hp) hb ?_
    simp only [wpe_bind, wpe_modify, wpe_get, Heap.alloc, wpe_set, wpe_push, wpe_setIp, wpe_pure, finish, wpe_curFrame, withIp, hf, hroom,
      ↓reduceIte]
    have hH := R.heap.allocObj (.map kvs) hokM R.okH R.okA
    simp only [Heap.alloc, rnO] at hH
    have hc : ∀ i, i < h.length → (ρ.addO a.next vs.heap.next).c i = ρ.c i := fun _ _ => rfl
    have ho : ∀ i o, a.get? i = some o → (ρ.addO a.next vs.heap.next).o i = ρ.o i := by
      intro i o hi
      have hlt : i < a.next := R.heap.ab i o hi
      have : i ≠ a.next := by omega
      simp [Ren.addO, this]
    have hmono : Keeps a (a.alloc (.map kvs)).1 := Keeps.alloc R.heap.ab _
    refine ⟨ρ.addO a.next vs.heap.next, ?_⟩
    refine R.step hf (by simp [hipc]) rfl hc (Nat.le_refl _) ?_ (by simp) ?_ hH ?_ (oks_mono (Nat.le_refl _) hmono R.okG)
      (fun c hc' => oks_mono (Nat.le_refl _) hmono (R.okH c hc')) ?_
    · have hp := hs1.push hroom (.map vs.heap.next [])
      have e1 : (stk.drop n).map (rn (ρ.addO a.next vs.heap.next)) = (stk.map (rn ρ)).drop n := by
        rw [map_rn_congr (oks_drop R.okS n) hc ho, List.map_drop]
      have e2 : rn (ρ.addO a.next vs.heap.next) (.map a.next []) = .map vs.heap.next [] := by
        simp [rn, Ren.addO]
      simp only [List.map_cons, e1, e2]
      exact hp
    · rw [map_rn_congr R.okG hc ho]; exact R.globals
    · refine oks_cons ⟨rfl, _, get?_alloc_self a _⟩ (oks_mono (Nat.le_refl _) hmono (oks_drop R.okS n))
    · intro id o hid0
      have hid : (a.alloc (.map kvs)).1.get? id = some o := hid0
      by_cases hx : id = a.next
      · subst hx
        rw [get?_alloc_self] at hid
        cases hid
        exact okO_mono (Nat.le_refl _) hmono hokM
      · rw [get?_alloc_other a _ _ hx] at hid
        exact okO_mono (Nat.le_refl _) hmono (R.okA id o hid)

theorem getArr_of_get? {a : Heap} {id : Nat} {ys : List Val} (h : a.get? id = some (.arr ys)) : a.getArr id = ys := by
  unfold Heap.getArr; rw [h]

/-- `c[i]` for an array: the VM reads the renamed element of the renamed object -/
theorem step_getIndex (R : FRelH K ρ ⟨act, stk, g, h, a, callers⟩ d vs) (hfetch : fetch act.code act.pc = some .getIndex)
    (hstep : fstep K F ⟨act, stk, g, h, a, callers⟩ = some fs') (hd : (d.take 2).all id = true) (hkey : idxPlain stk = true) :
    GoalR K ρ fs' (true :: d.drop 2) vs := by
  fh_pre
  have hnm := opname (b := 24) (name := "GetIndex") hcode hip rfl rfl
  unfold step; simp only [hnm]
  unfold fstep at hstep
  simp only [hfetch] at hstep
  match stk, R, hstep, hkey with
  | [], _, hstep, _ => simp at hstep
  | [_], _, hstep, _ => simp at hstep
  | i :: c :: rest', R, hstep, hkey =>
    simp only at hstep
    cases hg : getIndexH a c i with
    | none => simp [hg] at hstep
    | some v =>
      simp only [hg, Option.some.injEq] at hstep
      subst hstep
      obtain ⟨hd1, hd2⟩ := all_take_succ hd
      obtain ⟨n1, e1, s1⟩ := R.stack.pop hd1
      obtain ⟨n2, e2, s2⟩ := s1.pop hd2
      have hokc : okv h.length a c := R.okS c (by simp)
      cases c with
      | arr id xs =>
        obtain ⟨rfl, ys, hy⟩ := hokc
        cases i with
        | int idx =>
          simp only [getIndexH, getArr_of_get? hy] at hg
          by_cases hneg : idx < 0
          case pos => simp [hneg] at hg
          simp only [hneg, if_false] at hg
          have hk : idx.toNatClampNeg < ys.length := lt_of_get? hg
          have hgV : vs.heap.getArr (ρ.o id) = ys.map (rn ρ) := getArr_of_get? (R.heap.objs id _ hy)
          have hnge : ¬ idx.toNatClampNeg ≥ (ys.map (rn ρ)).length := by simp; omega
          have helt : (ys.map (rn ρ)).getD idx.toNatClampNeg .null = rn ρ v := by
            rw [List.getD_eq_getElem?_getD, List.getElem?_map, hg]; rfl
          have hroom : vs.sp - 1 - 1 < vs.stack.size := by have := R.stack.1; omega
          simp only [rn] at e1 e2
          simp only [wpe_bind, wpe_pop, n1, n2, e1, e2, ↓reduceIte, execIndex, wpe_get, hgV, hneg, hnge, wpe_ite, wpe_rtErr, helt,
            wpe_push, hroom, wpe_pure, finish, wpe_curFrame, wpe_setIp, withIp, hf]
          refine R.next hf (by rw [hipc]) rfl ?_ (by simp) R.globals R.heap
            (oks_cons (R.okA id _ hy v (List.mem_of_getElem? hg)) (oks_tail (oks_tail R.okS))) R.okG
          have := s2.push hroom (rn ρ v)
          simpa [List.drop_drop] using this
        | _ => simp [getIndexH] at hg
      | map id kvs =>
        obtain ⟨rfl, ps, hy⟩ := hokc
        have hpi : plain i = true := by simpa [idxPlain] using hkey
        have hokps := R.okA id _ hy
        have hkp : keysPlain ps := fun p hp => (hokps p hp).1
        simp only [getIndexH, getMap_of_get? hy] at hg
        by_cases hvk : i.isValidKey = true
        case neg => simp [hvk] at hg
        simp only [hvk, if_true, lookupKV_eq a hpi ps hkp] at hg
        cases hl : HMap.get? ps i with
        | none => simp [hl] at hg
        | some w =>
          simp only [hl] at hg
          by_cases hnull : P2sh.Core.Fn.isNullV w = true
          case pos => simp [hnull] at hg
          simp only [hnull, Bool.false_eq_true, if_false, Option.some.injEq] at hg
          subst hg
          have hgV : vs.heap.getMap (ρ.o id) = ps.map (rnP ρ) := getMap_of_get? (R.heap.objs id _ hy)
          have hgetV : HMap.get (ps.map (rnP ρ)) i = rn ρ w := by simp [HMap.get, get?_rnP, hl]
          have hroom : vs.sp - 1 - 1 < vs.stack.size := by have := R.stack.1; omega
          simp only [rn] at e2
          rw [rn_plain ρ hpi] at e1
          simp only [wpe_bind, wpe_pop, n1, n2, e1, e2, ↓reduceIte, execIndex, wpe_get, wpe_reifyM, reify_scalar _ _ (plain_scalar hpi), hvk,
            Bool.not_true, Bool.false_eq_true, wpe_ite, wpe_pure, wpe_reifyKeys, hgV, reify_keys (keysPlain_rnP ρ hkp), hgetV]
          split
          · rename_i heq
            exfalso
            cases w <;> simp [rn, P2sh.Core.Fn.isNullV] at heq hnull
          · simp only [wpe_push, hroom, wpe_pure, finish, wpe_curFrame, wpe_setIp, withIp, hf, wpe_bind, ↓reduceIte]
            obtain ⟨pw, hpw, hw⟩ := get?_mem hl
            have hokw : okv h.length a w := hw ▸ (hokps pw hpw).2
            refine R.next hf (by rw [hipc]) rfl ?_ (by simp) R.globals R.heap
              (oks_cons hokw (oks_tail (oks_tail R.okS))) R.okG
            have := s2.push hroom (rn ρ w)
            simpa [List.drop_drop] using this
      | _ => simp [getIndexH] at hg

/-- `c[i] = v` for an array: the VM changes the renamed object -/
theorem step_setIndex (R : FRelH K ρ ⟨act, stk, g, h, a, callers⟩ d vs) (hfetch : fetch act.code act.pc = some .setIndex)
    (hstep : fstep K F ⟨act, stk, g, h, a, callers⟩ = some fs') (hd : (d.take 3).all id = true) (hkey : idxPlain stk = true) :
    GoalR K ρ fs' (true :: d.drop 3) vs := by
  fh_pre
  have hnm := opname (b := 25) (name := "SetIndex") hcode hip rfl rfl
  unfold step; simp only [hnm]
  unfold fstep at hstep
  simp only [hfetch] at hstep
  match stk, R, hstep, hkey with
  | [], _, hstep, _ => simp at hstep
  | [_], _, hstep, _ => simp at hstep
  | [_, _], _, hstep, _ => simp at hstep
  | i :: c :: v :: rest', R, hstep, hkey =>
    simp only at hstep
    cases hg : setIndexH a c i v with
    | none => simp [hg] at hstep
    | some a' =>
      simp only [hg, Option.some.injEq] at hstep
      subst hstep
      obtain ⟨hd1, hd23⟩ := all_take_succ hd
      obtain ⟨hd2, hd3⟩ := all_take_succ hd23
      obtain ⟨n1, e1, s1⟩ := R.stack.pop hd1
      obtain ⟨n2, e2, s2⟩ := s1.pop hd2
      obtain ⟨n3, e3, s3⟩ := s2.pop hd3
      have hokc : okv h.length a c := R.okS c (by simp)
      have hokv : okv h.length a v := R.okS v (by simp)
      have hokr : oks h.length a rest' := oks_tail (oks_tail (oks_tail R.okS))
      cases c with
      | arr id xs =>
        obtain ⟨rfl, ys, hy⟩ := hokc
        cases i with
        | int idx =>
          simp only [setIndexH, getArr_of_get? hy, setH_eq] at hg
          by_cases hneg : idx < 0
          case pos => simp [hneg] at hg
          simp only [hneg, if_false] at hg
          by_cases hk : idx.toNatClampNeg < ys.length
          case neg => simp [hk] at hg
          simp only [hk, if_true, Option.some.injEq] at hg
          subst hg
          have hgV : vs.heap.getArr (ρ.o id) = ys.map (rn ρ) := getArr_of_get? (R.heap.objs id _ hy)
          have hnge : ¬ idx.toNatClampNeg ≥ (ys.map (rn ρ)).length := by simp; omega
          have hroom : vs.sp - 1 - 1 - 1 < vs.stack.size := by have := R.stack.1; omega
          simp only [rn] at e1 e2
          simp only [wpe_bind, wpe_pop, n1, n2, n3, e1, e2, e3, ↓reduceIte, execIndex, wpe_get, hgV, hneg, hnge, wpe_ite, wpe_rtErr,
            wpe_modify, wpe_push, hroom, wpe_pure, finish, wpe_curFrame, wpe_setIp, withIp, hf]
          have hmono : Keeps a (a.set id (.arr (ys.set idx.toNatClampNeg v))) := Keeps.setArr hy _
          have hH := R.heap.setObj hy (.arr (ys.set idx.toNatClampNeg v))
          simp only [rnO, List.map_set] at hH
          refine R.step hf (by simp [hipc]) rfl (fun _ _ => rfl) (Nat.le_refl _) ?_ (by simp) R.globals hH
            (oks_cons (okv_mono (Nat.le_refl _) hmono hokv) (oks_mono (Nat.le_refl _) hmono hokr))
            (oks_mono (Nat.le_refl _) hmono R.okG) (fun c hc' => oks_mono (Nat.le_refl _) hmono (R.okH c hc')) ?_
          · have := s3.push hroom (rn ρ v)
            simpa [List.drop_drop] using this
          · intro id' ys' hid'
            by_cases hx : id' = id
            · subst hx
              rw [get?_set_self hy] at hid'
              cases hid'
              exact oks_mono (Nat.le_refl _) hmono (oks_set (R.okA id' _ hy) hokv _)
            · rw [get?_set_other hx] at hid'
              exact okO_mono (Nat.le_refl _) hmono (R.okA id' ys' hid')
        | _ => simp [setIndexH] at hg
      | map id kvs =>
        obtain ⟨rfl, ps, hy⟩ := hokc
        have hpi : plain i = true := by simpa [idxPlain] using hkey
        have hokps := R.okA id _ hy
        have hkp : keysPlain ps := fun p hp => (hokps p hp).1
        simp only [setIndexH, getMap_of_get? hy, setH_eq] at hg
        by_cases hvk : i.isValidKey = true
        case neg => simp [hvk] at hg
        simp only [hvk, if_true, Option.some.injEq, insertKV_eq a hpi v ps hkp] at hg
        subst hg
        have hgV : vs.heap.getMap (ρ.o id) = ps.map (rnP ρ) := getMap_of_get? (R.heap.objs id _ hy)
        have hroom : vs.sp - 1 - 1 - 1 < vs.stack.size := by have := R.stack.1; omega
        simp only [rn] at e2
        rw [rn_plain ρ hpi] at e1
        cases hi : HMap.insert (ps.map (rnP ρ)) i (rn ρ v) with
        | mk r o =>
          have hr : r = (HMap.insert (ps.map (rnP ρ)) i (rn ρ v)).1 := by rw [hi]
          simp only [wpe_bind, wpe_pop, n1, n2, n3, e1, e2, e3, ↓reduceIte, execIndex, wpe_get, wpe_reifyM, reify_scalar _ _ (plain_scalar hpi), hvk,
            Bool.not_true, Bool.false_eq_true, wpe_ite, wpe_pure, wpe_reifyKeys, hgV, reify_keys (keysPlain_rnP ρ hkp), hi]
          rw [hr, insert_stored _ (fun _ _ => rfl), insert_rnP]
          simp only [wpe_modify, wpe_push, hroom, wpe_pure, finish, wpe_curFrame, wpe_setIp, withIp, hf, wpe_bind, ↓reduceIte]
          have hmono : Keeps a (a.set id (.map (HMap.insert ps i v).1)) := Keeps.setMap hy _
          have hH := R.heap.setObj hy (.map (HMap.insert ps i v).1)
          simp only [rnO] at hH
          refine R.step hf (by simp [hipc]) rfl (fun _ _ => rfl) (Nat.le_refl _) ?_ (by simp) R.globals hH
            (oks_cons (okv_mono (Nat.le_refl _) hmono hokv) (oks_mono (Nat.le_refl _) hmono hokr))
            (oks_mono (Nat.le_refl _) hmono R.okG) (fun c hc' => oks_mono (Nat.le_refl _) hmono (R.okH c hc')) ?_
          · have := s3.push hroom (rn ρ v)
            simpa [List.drop_drop] using this
          · intro id' o' hid'
            by_cases hx : id' = id
            · subst hx
              rw [get?_set_self hy] at hid'
              cases hid'
              refine okO_mono (Nat.le_refl _) hmono (o := .map (HMap.insert ps i v).1) ?_
              intro p hp
              exact ⟨insert_keys hpi v ps hkp p hp, insert_vals (P := okv h.length a) hokv ps (fun q hq => (hokps q hq).2) p hp⟩
            · rw [get?_set_other hx] at hid'
              exact okO_mono (Nat.le_refl _) hmono (R.okA id' o' hid')
      | _ => simp [setIndexH] at hg

/-! ### operators (plain operands), locals, captured values -/

/-- the side condition on `op`: both operands are plain values (no closure, no container) — the operators on containers
(`==` element-wise, `+` on arrays) go through the VM's `reify` / `reflect` and are NOT covered -/
def plainTop2 : List Val → Bool
  | r :: l :: _ => plain r && plain l
  | _ => true

theorem advance_effH {stk' : List Val} {d' : List Bool} {f : Frame} {rest : List Frame} {s' : St}
    (R : FRelH K ρ ⟨act, stk, g, h, a, callers⟩ d vs) (hf : vs.frames = f :: rest) (hipc : f.ip = act.pc)
    (he : Eff vs s' (stk'.map (rn ρ)) d') (hs : oks h.length a stk') :
    wpe (pure Next.advance >>= finish) (fun _ s'' => FRelH K ρ ⟨{ act with pc := act.pc + 1 }, stk', g, h, a, callers⟩ d' s'') noErr s' := by
  have hfr : s'.frames = f :: rest := he.frames.trans hf
  simp only [wpe_bind, wpe_pure, finish, wpe_curFrame, hfr, wpe_setIp, withIp]
  refine R.next hf (by rw [hipc]) he.constants he.stack he.size ?_ ?_ hs R.okG
  · show GRel s'.globals _
    rw [he.globals]; exact R.globals
  · show HRelH ρ s'.heap h a
    rw [he.heap]; exact R.heap

set_option hygiene false in
macro "fh_op" nm:str "," b:num "," eff:term : tactic => `(tactic| (
  have hnm := opname (b := $b) (name := $nm) hcode hip rfl rfl
  unfold step; simp only [hnm]
  simp only [execOperator] at hexec
  rw [wpe_bind, wpe_bind]
  refine wpe_mono $eff ?_ (fun _ _ h => h)
  intro _ s' he
  exact advance_effH R hf hipc (by simpa [rn_plain ρ hpv] using he) hsc))

theorem step_op {o : Operator} (R : FRelH K ρ ⟨act, stk, g, h, a, callers⟩ d vs) (hfetch : fetch act.code act.pc = some (.op o))
    (hstep : fstep K F ⟨act, stk, g, h, a, callers⟩ = some fs') (hpre : preOk (.op o) ⟨act, stk, g, h, a, callers⟩ d = true)
    (hpl : plainTop2 stk = true) : GoalR K ρ fs' (true :: d.drop 2) vs := by
  fh_pre
  unfold fstep at hstep
  simp only [hfetch] at hstep
  have hd : (d.take 2).all id = true := preOk_need hpre
  match stk, R, hstep, hpl with
  | [], _, hstep, _ => simp at hstep
  | [_], _, hstep, _ => simp at hstep
  | r :: l :: rest', R, hstep, hpl =>
    simp only at hstep
    simp only [plainTop2, Bool.and_eq_true] at hpl
    have hr : scalar r = true := plain_scalar hpl.1
    have hl : scalar l = true := plain_scalar hpl.2
    have hrest : oks h.length a rest' := oks_tail (oks_tail R.okS)
    rcases opH_scalar a (o := o) hl hr with ⟨v, hexec, hsame⟩ | hfail
    case inr => rw [hfail] at hstep; simp at hstep
    rw [hsame] at hstep
    simp at hstep
    subst hstep
    have hpv : plain v = true := execOperator_plain hpl.2 hpl.1 hexec
    have hsc : oks h.length a (v :: rest') := oks_cons (okv_plain hpv) hrest
    have hstk : SRel vs.stack vs.sp (r :: l :: rest'.map (rn ρ)) d := by
      have := R.stack
      simpa [rn_plain ρ hpl.1, rn_plain ρ hpl.2] using this
    cases o
    case add => fh_op "Add", 2, (eff_binaryVm_ok hstk hd hr hl hexec)
    case sub => fh_op "Sub", 3, (eff_binaryVm_ok hstk hd hr hl hexec)
    case mul => fh_op "Mul", 4, (eff_binaryVm_ok hstk hd hr hl hexec)
    case div => fh_op "Div", 5, (eff_binaryVm_ok hstk hd hr hl hexec)
    case mod => fh_op "Mod", 6, (eff_binaryVm_ok hstk hd hr hl hexec)
    case greater => fh_op "Greater", 11, (eff_binaryVm_ok hstk hd hr hl hexec)
    case greaterEq => fh_op "GreaterEq", 12, (eff_binaryVm_ok hstk hd hr hl hexec)
    case band => fh_op "And", 39, (eff_bitwiseVm_ok hstk hd hexec)
    case bor => fh_op "Or", 40, (eff_bitwiseVm_ok hstk hd hexec)
    case bxor => fh_op "Xor", 41, (eff_bitwiseVm_ok hstk hd hexec)
    case shl => fh_op "ShiftLeft", 42, (eff_bitwiseVm_ok hstk hd hexec)
    case shr => fh_op "ShiftRight", 43, (eff_bitwiseVm_ok hstk hd hexec)
    case equal =>
      have hnm := opname (b := 9) (name := "Equal") hcode hip rfl rfl
      unfold step; simp only [hnm]
      simp only [execOperator] at hexec
      cases hexec
      obtain ⟨hd1, hd2⟩ := all_take_succ hd
      obtain ⟨n1, e1, s1⟩ := hstk.pop hd1
      obtain ⟨n2, e2, s2⟩ := s1.pop hd2
      have hroom : vs.sp - 1 - 1 < vs.stack.size := by have := R.stack.1; omega
      simp only [wpe_bind, wpe_pop, wpe_reifyM, wpe_push, wpe_pure, finish, wpe_curFrame, wpe_setIp, withIp, hf,
        n1, n2, ↓reduceIte, e1, e2, reify_scalar _ _ hr, reify_scalar _ _ hl, hroom]
      refine R.next hf (by rw [hipc]) rfl ?_ (by simp) R.globals R.heap hsc R.okG
      have := s2.push hroom (.bool (l.eq r))
      simpa [List.drop_drop, rn] using this
    case notEqual =>
      have hnm := opname (b := 10) (name := "NotEqual") hcode hip rfl rfl
      unfold step; simp only [hnm]
      simp only [execOperator] at hexec
      cases hexec
      obtain ⟨hd1, hd2⟩ := all_take_succ hd
      obtain ⟨n1, e1, s1⟩ := hstk.pop hd1
      obtain ⟨n2, e2, s2⟩ := s1.pop hd2
      have hroom : vs.sp - 1 - 1 < vs.stack.size := by have := R.stack.1; omega
      simp only [wpe_bind, wpe_pop, wpe_reifyM, wpe_push, wpe_pure, finish, wpe_curFrame, wpe_setIp, withIp, hf,
        n1, n2, ↓reduceIte, e1, e2, reify_scalar _ _ hr, reify_scalar _ _ hl, hroom]
      refine R.next hf (by rw [hipc]) rfl ?_ (by simp) R.globals R.heap hsc R.okG
      have := s2.push hroom (.bool (!(l.eq r)))
      simpa [List.drop_drop, rn] using this

theorem botGet_map (f : Val → Val) (l : List Val) (j : Nat) : botGet (l.map f) j = (botGet l j).map f := by
  simp [botGet, ← List.map_reverse]

theorem botSet_map (f : Val → Val) (l : List Val) (p : Nat) (v : Val) : botSet (l.map f) p (f v) = (botSet l p v).map f := by
  simp [botSet, List.map_reverse, List.map_set]

theorem botTake_map (f : Val → Val) (l : List Val) (n : Nat) : botTake (l.map f) n = (botTake l n).map f := by
  simp [botTake, List.map_drop]

theorem step_getLocal {x : Nat} (R : FRelH K ρ ⟨act, stk, g, h, a, callers⟩ d vs) (hfetch : fetch act.code act.pc = some (.getLocal x))
    (hstep : fstep K F ⟨act, stk, g, h, a, callers⟩ = some fs') (hpre : preOk (.getLocal x) ⟨act, stk, g, h, a, callers⟩ d = true)
    (hpost : postOk (.getLocal x) fs' = true) : GoalR K ρ fs' (true :: d) vs := by
  fh_pre
  rw [encodeI_getLocal] at hcode
  have hnm := opname (b := 30) (name := "GetLocal") hcode hip rfl rfl
  have h1 := operand8 hcode hip (fits8 hfi)
  unfold step; simp only [hnm]
  unfold fstep at hstep
  simp only [hfetch] at hstep
  have hdx : d.reverse[act.bp + x]? = some true := by
    simp only [preOk, Bool.and_eq_true, beq_iff_eq] at hpre
    exact hpre.2
  obtain ⟨hget, hlt2⟩ := R.stack.getAt _ hdx
  cases hb : botGet stk (act.bp + x) with
  | none => simp [hb] at hstep
  | some v =>
    have hget' : some (rn ρ v) = some (vs.stack.getD (act.bp + x) .null) := by
      have : botGet (stk.map (rn ρ)) (act.bp + x) = some (vs.stack.getD (act.bp + x) .null) := hget
      rw [botGet_map, hb] at this
      exact this
    have hval : vs.stack.getD (act.bp + x) .null = rn ρ v := (Option.some.inj hget').symm
    have hsc : okv h.length a v := R.okS _ (botGet_mem hb)
    rw [hb] at hstep
    simp only [Option.some.injEq] at hstep
    subst hstep
    have hsp := room' R.stack R.size (by simpa using post_stk hpost)
    have hroom : ¬ f.bp + x ≥ vs.stack.size := by rw [hA.bp]; have := R.stack.1; omega
    simp only [wpe_bind, wpe_readU8 _ _ _ _ _ _ h1, wpe_setIp, wpe_curFrame, wpe_get, wpe_ite, wpe_panicM, wpe_push, wpe_pure,
      finish, withIp, hf, hroom, hsp, ↓reduceIte]
    rw [hA.bp, hval]
    exact R.next hf (by simp [hipc, hA.bp, hA.cid]) rfl (R.stack.push hsp _) (by simp) R.globals R.heap
      (oks_cons hsc R.okS) R.okG

theorem step_setLocal {x : Nat} (R : FRelH K ρ ⟨act, stk, g, h, a, callers⟩ d vs) (hfetch : fetch act.code act.pc = some (.setLocal x))
    (hstep : fstep K F ⟨act, stk, g, h, a, callers⟩ = some fs') (hpre : preOk (.setLocal x) ⟨act, stk, g, h, a, callers⟩ d = true) :
    GoalR K ρ fs' ((d.reverse.set (act.bp + x) true).reverse) vs := by
  fh_pre
  rw [encodeI_setLocal] at hcode
  have hnm := opname (b := 31) (name := "SetLocal") hcode hip rfl rfl
  have h1 := operand8 hcode hip (fits8 hfi)
  unfold step; simp only [hnm]
  unfold fstep at hstep
  simp only [hfetch] at hstep
  have hd := preOk_need hpre
  cases stk with
  | nil => simp at hstep
  | cons v rest' =>
    simp only at hstep
    simp at hstep
    obtain ⟨hi, rfl⟩ := hstep
    obtain ⟨n1, e1, s1⟩ := R.stack.pop hd
    have hroom : ¬ f.bp + x ≥ vs.stack.size := by
      rw [hA.bp]; have := R.stack.1; have hl : ((v :: rest').map (rn ρ)).length = vs.sp := R.stack.length.1; simp at hl; omega
    simp only [wpe_bind, wpe_readU8 _ _ _ _ _ _ h1, wpe_setIp, wpe_curFrame, wpe_top0, wpe_get, wpe_ite, wpe_panicM, wpe_set, wpe_pure,
      finish, withIp, hf, hroom, n1, e1, ↓reduceIte]
    rw [hA.bp]
    exact R.next hf (by simp [hipc, hA.bp, hA.cid]) rfl (by rw [← botSet_map]; exact R.stack.setAt _ (rn ρ v)) (by simp) R.globals R.heap
      (oks_botSet R.okS (oks_head R.okS) _) R.okG

theorem step_defLocal {x : Nat} (R : FRelH K ρ ⟨act, stk, g, h, a, callers⟩ d vs) (hfetch : fetch act.code act.pc = some (.defLocal x))
    (hstep : fstep K F ⟨act, stk, g, h, a, callers⟩ = some fs') (hpre : preOk (.defLocal x) ⟨act, stk, g, h, a, callers⟩ d = true) :
    GoalR K ρ fs' (((d.drop 1).reverse.set (act.bp + x) true).reverse) vs := by
  fh_pre
  rw [encodeI_defLocal] at hcode
  have hnm := opname (b := 29) (name := "DefineLocal") hcode hip rfl rfl
  have h1 := operand8 hcode hip (fits8 hfi)
  unfold step; simp only [hnm]
  unfold fstep at hstep
  simp only [hfetch] at hstep
  have hd := preOk_need hpre
  cases stk with
  | nil => simp at hstep
  | cons v rest' =>
    simp only at hstep
    simp at hstep
    obtain ⟨hi, rfl⟩ := hstep
    obtain ⟨n1, e1, s1⟩ := R.stack.pop hd
    have hroom : ¬ f.bp + x ≥ vs.stack.size := by
      rw [hA.bp]; have := R.stack.1; have hl := s1.length.1; simp at hl; omega
    simp only [wpe_bind, wpe_readU8 _ _ _ _ _ _ h1, wpe_setIp, wpe_curFrame, wpe_pop, wpe_get, wpe_ite, wpe_panicM, wpe_set, wpe_pure,
      finish, withIp, hf, hroom, n1, e1, ↓reduceIte]
    rw [hA.bp]
    exact R.next hf (by simp [hipc, hA.bp, hA.cid]) rfl (by rw [← botSet_map]; exact s1.setAt _ (rn ρ v)) (by simp) R.globals R.heap
      (oks_botSet (oks_tail R.okS) (oks_head R.okS) _) R.okG

theorem step_currClosure (R : FRelH K ρ ⟨act, stk, g, h, a, callers⟩ d vs) (hfetch : fetch act.code act.pc = some .currClosure)
    (hstep : fstep K F ⟨act, stk, g, h, a, callers⟩ = some fs') (hpost : postOk .currClosure fs' = true) : GoalR K ρ fs' (true :: d) vs := by
  fh_pre
  have hnm := opname (b := 37) (name := "CurrClosure") hcode hip rfl rfl
  unfold step; simp only [hnm]
  unfold fstep at hstep
  simp [hfetch] at hstep
  subst hstep
  have hfd : f.fn = act.fd := by
    rcases hA.fd with h1 | h1
    · exact h1
    · rw [noCurr_fetch hfetch] at h1; cases h1
  have hsp := room' R.stack R.size (by simpa using post_stk hpost)
  simp only [wpe_bind, wpe_curFrame, wpe_push, wpe_pure, finish, wpe_setIp, withIp, hf, hsp, ↓reduceIte]
  rw [hfd, hA.cid]
  exact R.next hf (by simp [hipc, hA.bp, hA.cid, hfd]) rfl (R.stack.push hsp (rn ρ (.clos act.fd [] act.cid))) (by simp) R.globals R.heap
    (oks_cons (R.okF act (by simp)) R.okS) R.okG

theorem step_getBuiltin {x : Nat} (R : FRelH K ρ ⟨act, stk, g, h, a, callers⟩ d vs) (hfetch : fetch act.code act.pc = some (.getBuiltin x))
    (hstep : fstep K F ⟨act, stk, g, h, a, callers⟩ = some fs') (hpost : postOk (.getBuiltin x) fs' = true) : GoalR K ρ fs' (true :: d) vs := by
  fh_pre
  rw [encodeI_getBuiltin] at hcode
  have hnm := opname (b := 32) (name := "GetBuiltinFn") hcode hip rfl rfl
  have h1 := operand8 hcode hip (fits8 hfi)
  unfold step; simp only [hnm]
  unfold fstep at hstep
  simp only [hfetch] at hstep
  cases hb : Core.Fn.builtinName x with
  | none => simp [hb] at hstep
  | some n =>
    simp [hb] at hstep
    subst hstep
    have hb' : Vm.builtinName x = some n := hb
    have hsp := room' R.stack R.size (by simpa using post_stk hpost)
    simp only [wpe_bind, wpe_readU8 _ _ _ _ _ _ h1, wpe_setIp, hb', wpe_push, wpe_pure, finish, wpe_curFrame, withIp, hf, hsp, ↓reduceIte]
    exact R.next hf (by simp [hipc, hA.bp, hA.cid]) rfl (R.stack.push hsp (rn ρ (.builtin n))) (by simp) R.globals R.heap
      (oks_cons trivial R.okS) R.okG

theorem step_getFree {x : Nat} (R : FRelH K ρ ⟨act, stk, g, h, a, callers⟩ d vs) (hfetch : fetch act.code act.pc = some (.getFree x))
    (hstep : fstep K F ⟨act, stk, g, h, a, callers⟩ = some fs') (hpost : postOk (.getFree x) fs' = true) : GoalR K ρ fs' (true :: d) vs := by
  fh_pre
  rw [encodeI_getFree] at hcode
  have hnm := opname (b := 35) (name := "GetFree") hcode hip rfl rfl
  have h1 := operand8 hcode hip (fits8 hfi)
  unfold step; simp only [hnm]
  unfold fstep at hstep
  simp only [hfetch] at hstep
  cases hg : freeGet h act.cid x with
  | none => simp [hg] at hstep
  | some v =>
    simp [hg] at hstep
    subst hstep
    unfold freeGet at hg
    cases hc : h[act.cid]? with
    | none => simp [hc] at hg
    | some fr =>
      simp only [hc] at hg
      have hfree : freeOf vs.heap f.closId = fr.map (rn ρ) := by rw [hA.cid]; exact R.heap.cells _ _ hc
      have hgV : (fr.map (rn ρ))[x]? = some (rn ρ v) := by rw [List.getElem?_map, hg]; rfl
      have hsp := room' R.stack R.size (by simpa using post_stk hpost)
      simp only [wpe_bind, wpe_readU8 _ _ _ _ _ _ h1, wpe_setIp, wpe_curFrame, wpe_get, withIp, hf]
      have hfree' : freeOf vs.heap f.closId = fr.map (rn ρ) := hfree
      simp only [hfree', hgV, wpe_bind, wpe_push, wpe_pure, finish, wpe_curFrame, wpe_setIp, withIp, hsp, ↓reduceIte]
      exact R.next hf (by simp [hipc, hA.bp, hA.cid]) rfl (R.stack.push hsp _) (by simp) R.globals R.heap
        (oks_cons (R.okH fr (List.mem_of_getElem? hc) v (List.mem_of_getElem? hg)) R.okS) R.okG

theorem oks_len {hn hn' : Nat} {a : Heap} {l : List Val} (e : hn = hn') (hl : oks hn a l) : oks hn' a l := e ▸ hl

theorem step_setFree {x : Nat} (R : FRelH K ρ ⟨act, stk, g, h, a, callers⟩ d vs) (hfetch : fetch act.code act.pc = some (.setFree x))
    (hstep : fstep K F ⟨act, stk, g, h, a, callers⟩ = some fs') (hpre : preOk (.setFree x) ⟨act, stk, g, h, a, callers⟩ d = true) :
    GoalR K ρ fs' d vs := by
  fh_pre
  rw [encodeI_setFree] at hcode
  have hnm := opname (b := 36) (name := "SetFree") hcode hip rfl rfl
  have h1 := operand8 hcode hip (fits8 hfi)
  unfold step; simp only [hnm]
  unfold fstep at hstep
  simp only [hfetch] at hstep
  have hd := preOk_need hpre
  cases stk with
  | nil => simp at hstep
  | cons v rest' =>
    simp only at hstep
    cases hg : freeSet h act.cid x v with
    | none => simp [hg] at hstep
    | some h' =>
      simp [hg] at hstep
      subst hstep
      unfold freeSet at hg
      cases hc : h[act.cid]? with
      | none => simp [hc] at hg
      | some fr =>
        simp only [hc] at hg
        by_cases hx : x < fr.length
        case neg => simp [hx] at hg
        simp only [hx, if_true, Option.some.injEq] at hg
        subst hg
        have hfree : freeOf vs.heap f.closId = fr.map (rn ρ) := by rw [hA.cid]; exact R.heap.cells _ _ hc
        obtain ⟨n1, e1, s1⟩ := R.stack.pop hd
        have hx' : ¬ x ≥ (fr.map (rn ρ)).length := by simp; omega
        simp only [wpe_bind, wpe_readU8 _ _ _ _ _ _ h1, wpe_setIp, wpe_curFrame, wpe_get, withIp, hf]
        simp only [hfree, hx', wpe_bind, wpe_ite, wpe_panicM, wpe_top0, wpe_modify, wpe_pure, finish, wpe_curFrame, wpe_setIp, withIp,
          n1, e1, ↓reduceIte]
        rw [hA.cid]
        have hl : (h.set act.cid (fr.set x v)).length = h.length := by simp
        refine R.step hf (by simp [hipc, hA.bp, hA.cid]) rfl (fun _ _ => rfl) (by simp) R.stack rfl R.globals (R.heap.setCell hc hx)
          (oks_len hl.symm R.okS) (oks_len hl.symm R.okG) ?_ (fun id ys hid => okO_len hl.symm (R.okA id ys hid))
        intro c hcm
        rcases List.mem_or_eq_of_mem_set hcm with hcm | rfl
        · exact oks_len hl.symm (R.okH c hcm)
        · exact oks_len hl.symm (oks_set (R.okH fr (List.mem_of_getElem? hc)) (oks_head R.okS) x)

/-! ### `Closure`, `Call`, `ReturnValue`, `Return` -/

/-- `Closure`: the VM's new object gets the id `heap.next`, the machine's new cell the index `h.length` — after an `Array`
these differ (`closure_ids_shift` below): the renaming is extended at the new cell -/
theorem step_closure {c n : Nat} (R : FRelH K ρ ⟨act, stk, g, h, a, callers⟩ d vs) (hfetch : fetch act.code act.pc = some (.closure c n))
    (hstep : fstep K F ⟨act, stk, g, h, a, callers⟩ = some fs') (hpre : preOk (.closure c n) ⟨act, stk, g, h, a, callers⟩ d = true)
    (hpost : postOk (.closure c n) fs' = true) : GoalH K fs' (true :: d.drop n) vs := by
  fh_pre
  rw [encodeI_closure] at hcode
  have hnm := opname (b := 34) (name := "Closure") hcode hip rfl rfl
  obtain ⟨hc16, hn8⟩ := fits_closure hfi
  have h1 : f.fn.code[f.ip + 1]? = some (c % 65536 / 256 % 256) := byte_at hcode hip 1 (by simp)
  have h2 : f.fn.code[f.ip + 1 + 1]? = some (c % 65536 % 256) := byte_at hcode hip 2 (by simp)
  have h3 : f.fn.code[f.ip + 3]? = some n := by
    rw [byte_at hcode hip 3 (by simp)]
    simp [Nat.mod_eq_of_lt hn8]
  unfold step; simp only [hnm]
  unfold fstep at hstep
  simp only [hfetch] at hstep
  have hd : (d.take n).all id = true := preOk_need hpre
  have hlen : (stk.map (rn ρ)).length = vs.sp := R.stack.length.1
  cases hk : K[c]? with
  | none => simp [hk] at hstep
  | some kv =>
    cases kv with
    | func fd =>
      simp only [hk] at hstep
      by_cases hn : n ≤ stk.length
      case neg => simp [hn] at hstep
      simp only [hn, if_true, Option.some.injEq] at hstep
      subst hstep
      have hkc : vs.constants[c]? = some (.func fd) := by
        rw [← R.consts] at hk; simpa using hk
      have hnsp : ¬ vs.sp < n := by simp at hlen; omega
      have hfree := R.stack.topN n hd (by simp at hlen; omega)
      have hs1 := R.stack.dropN n (by simp at hlen; omega)
      have hroom : vs.sp - n < vs.stack.size := by
        have hb := post_stk hpost
        have hsz := R.size
        have hl1 := hs1.length.1
        simp at hb hl1
        omega
      have hokE : oks h.length a (stk.take n).reverse := oks_reverse (oks_take R.okS n)
      have hmapE : ((stk.map (rn ρ)).take n).reverse = ((stk.take n).reverse).map (rn ρ) := by simp [List.map_take, List.map_reverse]
      rw [hmapE] at hfree
      simp only [wpe_bind, wpe_readU16 _ _ _ _ _ _ _ h1 h2, wpe_readU8 _ _ _ _ _ _ h3, dec16 hc16, wpe_get, hkc, hnsp, wpe_ite, wpe_panicM,
        Heap.alloc, wpe_set, wpe_push, wpe_setIp, wpe_pure, finish, wpe_curFrame, withIp, hf, hfree, hroom, ↓reduceIte]
      have hH := R.heap.allocCell (stk.take n).reverse hokE R.okH R.okA
      simp only [Heap.alloc] at hH
      have hc : ∀ i, i < h.length → (ρ.addC h.length vs.heap.next).c i = ρ.c i := by
        intro i hi
        have : i ≠ h.length := by omega
        simp [Ren.addC, this]
      have ho : ∀ i o, a.get? i = some o → (ρ.addC h.length vs.heap.next).o i = ρ.o i := fun _ _ _ => rfl
      have hle : h.length ≤ (h ++ [(stk.take n).reverse]).length := by simp
      have hmono : Keeps a a := Keeps.refl a
      refine ⟨ρ.addC h.length vs.heap.next, ?_⟩
      refine R.step hf (by simp [hipc]) rfl hc hle ?_ (by simp) ?_ hH ?_ (oks_mono hle hmono R.okG) ?_
        (fun id ys hid => okO_mono hle hmono (R.okA id ys hid))
      · have hp := hs1.push hroom (.clos fd [] vs.heap.next)
        have e1 : (stk.drop n).map (rn (ρ.addC h.length vs.heap.next)) = (stk.map (rn ρ)).drop n := by
          rw [map_rn_congr (oks_drop R.okS n) hc ho, List.map_drop]
        have e2 : rn (ρ.addC h.length vs.heap.next) (.clos fd [] h.length) = .clos fd [] vs.heap.next := by simp [rn, Ren.addC]
        simp only [List.map_cons, e1, e2]
        exact hp
      · rw [map_rn_congr R.okG hc ho]; exact R.globals
      · refine oks_cons ?_ (oks_mono hle hmono (oks_drop R.okS n))
        show h.length < (h ++ [(stk.take n).reverse]).length
        simp
      · intro cell hcm
        rcases List.mem_append.mp hcm with hcm | hcm
        · exact oks_mono hle hmono (R.okH cell hcm)
        · simp at hcm; subst hcm
          exact oks_mono hle hmono hokE
    | _ => simp [hk] at hstep

theorem step_call {n : Nat} (hF : Coded F) (R : FRelH K ρ ⟨act, stk, g, h, a, callers⟩ d vs) (hfetch : fetch act.code act.pc = some (.call n))
    (hstep : fstep K F ⟨act, stk, g, h, a, callers⟩ = some fs') (hpre : preOk (.call n) ⟨act, stk, g, h, a, callers⟩ d = true)
    (hpost : postOk (.call n) fs' = true) : GoalR K ρ fs' (nextD (.call n) ⟨act, stk, g, h, a, callers⟩ d) vs := by
  fh_pre
  rw [encodeI_call] at hcode
  have hnm := opname (b := 26) (name := "Call") hcode hip rfl rfl
  have h1 := operand8 hcode hip (fits8 hfi)
  unfold step; simp only [hnm]
  unfold fstep at hstep
  simp only [hfetch] at hstep
  have hd : (d.take (n + 1)).all id = true := preOk_need hpre
  have hlen : stk.length = vs.sp := by have := R.stack.length.1; simpa using this
  have hdlen : d.length = vs.sp := R.stack.length.2
  cases hk : stk[n]? with
  | none => simp [hk] at hstep
  | some cv =>
    cases cv with
    | clos fd fr id =>
      simp only [hk] at hstep
      by_cases hnp : n = fd.numParams
      case neg => simp [hnp] at hstep
      rw [if_pos hnp] at hstep
      cases hFc : F fd with
      | none => simp [hFc] at hstep
      | some code =>
        simp only [hFc, Option.some.injEq] at hstep
        subst hstep
        obtain ⟨hcd, hln, hft, hnl⟩ := hF fd code hFc
        have hnd : nextD (.call n) ⟨act, stk, g, h, a, callers⟩ d = List.replicate (fd.numLocals - n) false ++ d := by
          simp [nextD, hk]
        rw [hnd]
        have hkl : n < stk.length := (List.getElem?_eq_some_iff.mp hk).1
        have hdn : d[n]? = some true := all_take_get hd (by omega) (by omega)
        have hkV : (stk.map (rn ρ))[n]? = some (.clos fd fr (ρ.c id)) := by rw [List.getElem?_map, hk]; rfl
        obtain ⟨_, hcallee⟩ := R.stack.nth hdn hkV
        have hidlt : id < h.length := R.okS _ (List.mem_of_getElem? hk)
        have hnlt : ¬ vs.sp < 1 + n := by omega
        have hne : (n != fd.numParams) = false := by simp [hnp]
        simp only [postOk, Bool.and_eq_true, decide_eq_true_eq, List.length_append, List.length_replicate, List.length_cons] at hpost
        obtain ⟨⟨hp1, hp2⟩, hp3⟩ := hpost
        have hrl : rest.length = callers.length := hrest.length.symm
        have hsz := R.size
        have hfl : ¬ (rest.length + 1 ≥ maxFrames) := by omega
        have hbl : ¬ (vs.sp - n + fd.numLocals ≥ vs.stack.size) := by omega
        simp only [wpe_bind, wpe_readU8 _ _ _ _ _ _ h1, execCall, wpe_get, hnlt, wpe_ite, hcallee, hne, wpe_curFrame, wpe_setIp, withIp, hf,
          pushFrame, wpe_set, wpe_modify, wpe_pure, finish, Bool.or_eq_true, decide_eq_true_eq, List.length_cons, hfl, hbl, or_self,
          Bool.false_eq_true, ↓reduceIte]
        refine ⟨?_, ?_, R.consts, R.size, ?_, R.globals, R.heap, R.plainK, ?_, R.okG, R.okH, R.okA, ?_⟩
        · exact .cons ⟨hcd, hln, hft, rfl, by simp [hlen], rfl, .inl rfl⟩
            (.cons ⟨hA.code, hA.lines, hA.fits, by simp [hipc], hA.bp, hA.cid, hA.fd⟩ hrest)
        · exact ⟨by show 1 ≤ stk.length - n; omega, R.bps⟩
        · have hg := R.stack.grow (fd.numLocals - n) (by omega)
          have e : vs.sp - n + fd.numLocals = vs.sp + (fd.numLocals - n) := by omega
          show SRel vs.stack (vs.sp - n + fd.numLocals) _ _
          rw [e]
          simpa [List.map_append, List.map_replicate] using hg
        · exact oks_append (oks_replicate_null _) R.okS
        · intro x hx
          rcases List.mem_cons.mp hx with rfl | hx
          · exact hidlt
          · rcases List.mem_cons.mp hx with rfl | hx
            · exact R.okF act (by simp)
            · exact R.okF x (by simp [hx])
    | _ => simp [preOk, hk] at hpre

theorem step_retv (R : FRelH K ρ ⟨act, stk, g, h, a, callers⟩ d vs) (hfetch : fetch act.code act.pc = some .retv)
    (hstep : fstep K F ⟨act, stk, g, h, a, callers⟩ = some fs') (hpre : preOk .retv ⟨act, stk, g, h, a, callers⟩ d = true) :
    GoalR K ρ fs' (true :: d.drop (d.length - (act.bp - 1))) vs := by
  fh_pre
  have hnm := opname (b := 27) (name := "ReturnValue") hcode hip rfl rfl
  unfold step; simp only [hnm]
  unfold fstep at hstep
  simp only [hfetch] at hstep
  have hd := preOk_need hpre
  have hbp : act.bp ≤ stk.length := by
    simp only [preOk, Bool.and_eq_true, decide_eq_true_eq] at hpre
    exact hpre.2
  have hlen : stk.length = vs.sp := by have := R.stack.length.1; simpa using this
  cases stk with
  | nil => simp at hstep
  | cons v rest' =>
    cases callers with
    | nil => simp at hstep
    | cons c cs =>
      simp only [Option.some.injEq] at hstep
      subst hstep
      cases hrest with
      | cons hA2 hrest2 =>
        rename_i f2 rest2
        have hb := R.bps
        have hb1 : 1 ≤ act.bp := hb.1
        have hb2 : bpsOk ((c :: cs).map (·.bp)) := hb.2
        obtain ⟨n1, e1, s1⟩ := R.stack.pop hd
        have hnb : ¬ act.bp < 1 := by omega
        have hle : act.bp - 1 ≤ vs.sp := by omega
        have hsh := R.stack.shrink (act.bp - 1) hle
        have hroom : act.bp - 1 < vs.stack.size := by have := R.stack.1; omega
        simp only [wpe_bind, wpe_pop, wpe_get, hf, hnb, wpe_ite, wpe_panicM, wpe_set, wpe_push, wpe_pure, finish, n1, e1, hA.bp, hroom, ↓reduceIte]
        refine ⟨.cons hA2 hrest2, hb2, R.consts, by simpa using R.size, ?_, R.globals, R.heap, R.plainK,
          oks_cons (oks_head R.okS) (oks_botTake R.okS _), R.okG, R.okH, R.okA, fun x hx => R.okF x (by simp [hx])⟩
        have := hsh.push hroom (rn ρ v)
        rw [botTake_map] at this
        exact this

theorem step_ret (R : FRelH K ρ ⟨act, stk, g, h, a, callers⟩ d vs) (hfetch : fetch act.code act.pc = some .ret)
    (hstep : fstep K F ⟨act, stk, g, h, a, callers⟩ = some fs') (hpre : preOk .ret ⟨act, stk, g, h, a, callers⟩ d = true) :
    GoalR K ρ fs' (true :: d.drop (d.length - (act.bp - 1))) vs := by
  fh_pre
  have hnm := opname (b := 28) (name := "Return") hcode hip rfl rfl
  unfold step; simp only [hnm]
  unfold fstep at hstep
  simp only [hfetch] at hstep
  have hbp : act.bp ≤ stk.length := by
    simp only [preOk, Bool.and_eq_true, decide_eq_true_eq] at hpre
    exact hpre.2
  have hlen : stk.length = vs.sp := by have := R.stack.length.1; simpa using this
  cases callers with
  | nil => simp at hstep
  | cons c cs =>
    simp only [Option.some.injEq] at hstep
    subst hstep
    cases hrest with
    | cons hA2 hrest2 =>
      rename_i f2 rest2
      have hb := R.bps
      have hb1 : 1 ≤ act.bp := hb.1
      have hb2 : bpsOk ((c :: cs).map (·.bp)) := hb.2
      have hnb : ¬ act.bp < 1 := by omega
      have hle : act.bp - 1 ≤ vs.sp := by omega
      have hsh := R.stack.shrink (act.bp - 1) hle
      have hroom : act.bp - 1 < vs.stack.size := by have := R.stack.1; omega
      simp only [wpe_bind, wpe_get, hf, hnb, wpe_ite, wpe_panicM, wpe_set, wpe_push, wpe_pure, finish, hA.bp, hroom, ↓reduceIte]
      refine ⟨.cons hA2 hrest2, hb2, R.consts, by simpa using R.size, ?_, R.globals, R.heap, R.plainK,
        oks_cons trivial (oks_botTake R.okS _), R.okG, R.okH, R.okA, fun x hx => R.okF x (by simp [hx])⟩
      have := hsh.push hroom .null
      rw [botTake_map] at this
      exact this


/-! ## one step of the machine with frames is one iteration of the VM's loop — with arrays -/

/-- the side conditions BEFORE instruction `i`: as `FnVm.preOk` for the instructions of `FnVm`; `Array n`, `Map n`, `GetIndex`,
`SetIndex` are now COVERED (their operands must be defined slots; the keys of a `Map n` and the key used on a map must be plain:
`plainKeys`, `idxPlain`); an operator needs plain operands (`plainTop2`); calls of builtins are not covered (`FnVm.preOk` asks the
callee of a `Call` to be a closure) -/
def preOkH (i : Instr) (s : FSt) (d : List Bool) : Bool :=
  match i with
  | .array n => (d.take n).all id
  | .hmap n => (d.take n).all id && plainKeys (s.stk.take n).reverse
  | .getIndex => (d.take 2).all id && idxPlain s.stk
  | .setIndex => (d.take 3).all id && idxPlain s.stk
  | .op _ => preOk i s d && plainTop2 s.stk
  | _ => preOk i s d

/-- the shadow after instruction `i` -/
def nextDH (i : Instr) (s : FSt) (d : List Bool) : List Bool :=
  match i with
  | .array n => true :: d.drop n
  | .hmap n => true :: d.drop n
  | .getIndex => true :: d.drop 2
  | .setIndex => true :: d.drop 3
  | _ => nextD i s d

/-- **one `fstep` is one iteration of `VM::run`, containers included**: `Array n`, `Map n`, `GetIndex` and `SetIndex` on arrays
and on maps, and every instruction of `FnVm.fstep_refines_partial`.  The states are related through a renaming of heap ids that an
allocation (`Closure`, `Array`, `Map`) extends: `∃ ρ'`.  NOT covered (`_partial`, see `preOkH`): map keys that are not plain
values, calls of builtins, operators on operands that are closures or containers. -/
theorem fstep_refines_heap_partial {fs fs' : FSt} {d : List Bool} {vs : Vm.St} {i : Instr} (hF : Coded F) (R : FRelH K ρ fs d vs)
    (hfetch : fetch fs.act.code fs.act.pc = some i) (hstep : fstep K F fs = some fs')
    (hpre : preOkH i fs d = true) (hpost : postOk i fs' = true) :
    ∃ ρ' vs', exec tick vs = (.ok true, vs') ∧ FRelH K ρ' fs' (nextDH i fs d) vs' := by
  obtain ⟨act, stk, g, h, a, callers⟩ := fs
  suffices hg : GoalH K fs' (nextDH i ⟨act, stk, g, h, a, callers⟩ d) vs by
    obtain ⟨b, vs', he, rfl, ρ', hr⟩ := wpe_elim _ _ hg
    exact ⟨ρ', vs', he, hr⟩
  cases i with
  | const idx => exact (step_const R hfetch hstep hpost).toH
  | pop => exact (step_pop R hfetch hstep hpre).toH
  | op o =>
    simp only [preOkH, Bool.and_eq_true] at hpre
    exact (step_op R hfetch hstep hpre.1 hpre.2).toH
  | tru => exact (step_tru R hfetch hstep hpost).toH
  | fls => exact (step_fls R hfetch hstep hpost).toH
  | null => exact (step_null R hfetch hstep hpost).toH
  | minus => exact (step_minus R hfetch hstep hpre).toH
  | bang => exact (step_bang R hfetch hstep hpre).toH
  | bnot => exact (step_bnot R hfetch hstep hpre).toH
  | jump t => exact (step_jump R hfetch hstep).toH
  | jif t => exact (step_jif R hfetch hstep hpre).toH
  | jifnp t => exact (step_jifnp R hfetch hstep hpre).toH
  | getGlobal i => exact (step_getGlobal R hfetch hstep hpost).toH
  | setGlobal i => exact (step_setGlobal R hfetch hstep hpre).toH
  | defGlobal i => exact (step_defGlobal R hfetch hstep hpre).toH
  | dup => exact (step_dup R hfetch hstep hpre hpost).toH
  | call n => exact (step_call hF R hfetch hstep hpre hpost).toH
  | retv => exact (step_retv R hfetch hstep hpre).toH
  | ret => exact (step_ret R hfetch hstep hpre).toH
  | getLocal x => exact (step_getLocal R hfetch hstep hpre hpost).toH
  | setLocal x => exact (step_setLocal R hfetch hstep hpre).toH
  | defLocal x => exact (step_defLocal R hfetch hstep hpre).toH
  | closure c n => exact step_closure R hfetch hstep hpre hpost
  | currClosure => exact (step_currClosure R hfetch hstep hpost).toH
  | getFree x => exact (step_getFree R hfetch hstep hpost).toH
  | setFree x => exact (step_setFree R hfetch hstep hpre).toH
  | getBuiltin x => exact (step_getBuiltin R hfetch hstep hpost).toH
  | array n => exact step_array R hfetch hstep hpre hpost
  | hmap n =>
    simp only [preOkH, Bool.and_eq_true] at hpre
    exact step_hmap R hfetch hstep hpre.1 hpre.2 hpost
  | getIndex =>
    simp only [preOkH, Bool.and_eq_true] at hpre
    exact (step_getIndex R hfetch hstep hpre.1 hpre.2).toH
  | setIndex =>
    simp only [preOkH, Bool.and_eq_true] at hpre
    exact (step_setIndex R hfetch hstep hpre.1 hpre.2).toH

/-! ## runs -/

/-- `fstep` with the checks `preOkH` / `postOk` and the shadow threaded -/
def dstepH (K : List Val) (F : FnDef → Option (List Instr)) : FSt × List Bool → Option (FSt × List Bool)
  | (s, d) =>
    match fetch s.act.code s.act.pc with
    | none => none
    | some i =>
      if preOkH i s d then
        (match fstep K F s with
         | some s' => if postOk i s' then some (s', nextDH i s d) else none
         | none => none)
      else none

theorem dstepH_inv {s s' : FSt} {d d' : List Bool} (hd : dstepH K F (s, d) = some (s', d')) :
    ∃ i, fetch s.act.code s.act.pc = some i ∧ preOkH i s d = true ∧ fstep K F s = some s' ∧ postOk i s' = true ∧ d' = nextDH i s d := by
  unfold dstepH at hd
  cases hf : fetch s.act.code s.act.pc with
  | none => simp [hf] at hd
  | some i =>
    simp only [hf] at hd
    by_cases hp : preOkH i s d = true
    case neg => simp [hp] at hd
    simp only [hp, if_true] at hd
    cases hs : fstep K F s with
    | none => simp [hs] at hd
    | some s1 =>
      simp only [hs] at hd
      by_cases hq : postOk i s1 = true
      case neg => simp [hq] at hd
      simp only [hq, if_true, Option.some.injEq, Prod.mk.injEq] at hd
      obtain ⟨rfl, rfl⟩ := hd
      exact ⟨i, rfl, hp, rfl, hq, rfl⟩

theorem dstepH_fstep {s s' : FSt} {d d' : List Bool} (hd : dstepH K F (s, d) = some (s', d')) : fstep K F s = some s' := by
  obtain ⟨_, _, _, h, _⟩ := dstepH_inv hd
  exact h

theorem dstepH_refines {s s' : FSt} {d d' : List Bool} {vs : Vm.St} (hF : Coded F) (R : FRelH K ρ s d vs)
    (hd : dstepH K F (s, d) = some (s', d')) : ∃ ρ' vs', exec tick vs = (.ok true, vs') ∧ FRelH K ρ' s' d' vs' := by
  obtain ⟨i, hf, hp, hs, hq, rfl⟩ := dstepH_inv hd
  exact fstep_refines_heap_partial hF R hf hs hp hq

inductive DStepsH (K : List Val) (F : FnDef → Option (List Instr)) : FSt × List Bool → FSt × List Bool → Prop
  | refl (x) : DStepsH K F x x
  | cons {x y z} : dstepH K F x = some y → DStepsH K F y z → DStepsH K F x z

theorem DStepsH.fsteps {x y : FSt × List Bool} (hs : DStepsH K F x y) : FSteps K F x.1 y.1 := by
  induction hs with
  | refl x => exact .refl _
  | cons hd _ ih =>
    rename_i x y z
    obtain ⟨s, d⟩ := x
    obtain ⟨s1, d1⟩ := y
    exact .cons (dstepH_fstep hd) ih

/-- **runs**: a checked run of the machine with frames — arrays included — is a sequence of iterations of the VM's loop -/
theorem fsteps_refine_heap_partial {x y : FSt × List Bool} {vs : Vm.St} (hF : Coded F) (R : FRelH K ρ x.1 x.2 vs) (hs : DStepsH K F x y) :
    ∃ ρ' vs', VmSteps vs vs' ∧ FRelH K ρ' y.1 y.2 vs' := by
  induction hs generalizing vs ρ with
  | refl x => exact ⟨ρ, vs, .refl _, R⟩
  | cons hd _ ih =>
    rename_i x y z
    obtain ⟨s, d⟩ := x
    obtain ⟨s1, d1⟩ := y
    obtain ⟨ρ1, v1, he, R1⟩ := dstepH_refines hF R hd
    obtain ⟨ρ2, v2, hv, R2⟩ := ih R1
    exact ⟨ρ2, v2, .cons he hv, R2⟩

def dstepsH (K : List Val) (F : FnDef → Option (List Instr)) : Nat → FSt × List Bool → Option (FSt × List Bool)
  | 0, x => some x
  | n+1, x =>
    match dstepH K F x with
    | some y => dstepsH K F n y
    | none => none

theorem dstepsH_DStepsH : ∀ (n : Nat) (x y : FSt × List Bool), dstepsH K F n x = some y → DStepsH K F x y
  | 0, x, y, h => by simp [dstepsH] at h; subst h; exact .refl _
  | n+1, x, y, h => by
    simp only [dstepsH] at h
    cases hd : dstepH K F x with
    | none => simp [hd] at h
    | some x1 =>
      simp only [hd] at h
      exact .cons hd (dstepsH_DStepsH n x1 y h)

theorem tick_haltH {fs : FSt} {d : List Bool} {vs : Vm.St} (R : FRelH K ρ fs d vs) (hpc : fs.act.pc = bytes fs.act.code) :
    exec tick vs = (.ok false, vs) := by
  have hfs := R.frames
  cases hvf : vs.frames with
  | nil => rw [hvf] at hfs; cases hfs
  | cons f rest =>
    rw [hvf] at hfs
    cases hfs with
    | cons hA _ =>
      have hnlt : ¬ f.ip < f.fn.code.length := by rw [hA.code, encode_length, hA.ip, hpc]; omega
      have hw : wpe tick (fun b s' => b = false ∧ s' = vs) noErr vs := by
        unfold tick
        simp only [wpe_bind, wpe_curFrame, hvf, hnlt, if_false, wpe_pure, and_self]
      obtain ⟨b, s', he, rfl, rfl⟩ := wpe_elim _ _ hw
      exact he

/-- the identity renaming -/
def Ren.id : Ren := ⟨fun i => i, fun i => i⟩

/-- the initial state of `Vm.run` stands for the initial state of the machine with frames with the EMPTY container heap,
through the identity renaming -/
theorem rel_initH (main mfd : FnDef) (M : List Instr) (n : Nat) (hcode : main.code = Core.encode M)
    (hlines : main.code.length ≤ main.lines.length) (hfits : M.all Core.fitsI = true) (hfd : main = mfd ∨ noCurr M = true)
    (hK : plains K) (hn : n ≤ P2sh.Gen.Limits.GLOBALS_SIZE) :
    FRelH K Ren.id ⟨⟨M, mfd, 0, 0, 0⟩, [], List.replicate n .null, [[]], {}, []⟩ [] (initState main K) := by
  have hnone : ∀ id, ({} : Heap).get? id = none := fun _ => rfl
  have hheap : HRelH Ren.id ({} : Heap) [[]] {} := by
    refine ⟨?_, ?_, ?_, ?_, ?_, ?_, by decide, ?_, ?_, ?_⟩
    · intro id fr hid
      cases id with
      | zero => simp at hid; subst hid; rfl
      | succ k => simp at hid
    · intro id ys hid; rw [hnone] at hid; cases hid
    · intro id hid
      have : id = 0 := by simpa using hid
      subst this; decide
    · intro id o hid; rw [hnone] at hid; cases hid
    · intro id o hid; rw [hnone] at hid; cases hid
    · intro id o hid; rw [hnone] at hid; cases hid
    · intro i j _ _ hij; exact hij
    · intro i j oi oj hi; rw [hnone] at hi; cases hi
    · intro i j o _ hj; rw [hnone] at hj; cases hj
  have hgl : GRel (initState main K).globals ((List.replicate n Val.null).map (rn Ren.id)) := by
    refine ⟨by simp [initState], by simpa [initState] using hn, fun i => ?_⟩
    simp only [initState, Array.getD_eq_getD_getElem?, List.getD_eq_getElem?_getD, List.map_replicate, rn_null]
    by_cases h1 : i < P2sh.Gen.Limits.GLOBALS_SIZE <;> by_cases h2 : i < n <;> simp [h1, h2]
  exact {
    frames := .cons ⟨hcode, hlines, hfits, rfl, rfl, rfl, hfd⟩ .nil
    bps := trivial
    consts := by simp [initState]
    size := by simp [initState]
    stack := ⟨by simp [initState], by simpa [initState] using SR.nil⟩
    globals := hgl
    heap := hheap
    plainK := hK
    okS := oks_nil
    okG := oks_replicate_null n
    okH := by
      intro c hc
      simp at hc; subst hc
      exact oks_nil
    okA := by intro id ys hid; rw [hnone] at hid; cases hid
    okF := by intro x hx; simp at hx; subst hx; exact Nat.zero_lt_one }

/-- **a checked halting run of the machine with frames, arrays included, is a normal run of the VM model** -/
theorem run_refines_heap_partial (hF : Coded F) (main mfd : FnDef) (M : List Instr) (n : Nat)
    (hcode : main.code = Core.encode M) (hlines : main.code.length ≤ main.lines.length) (hfits : M.all Core.fitsI = true)
    (hfd : main = mfd ∨ noCurr M = true) (hK : plains K) (hn : n ≤ P2sh.Gen.Limits.GLOBALS_SIZE)
    {y : FSt × List Bool} (hsteps : DStepsH K F (⟨⟨M, mfd, 0, 0, 0⟩, [], List.replicate n .null, [[]], {}, []⟩, []) y)
    (hend : y.1.act.pc = bytes y.1.act.code) :
    ∃ fuel vs' ρ', Vm.run main K fuel = (.ok (), vs') ∧ FRelH K ρ' y.1 y.2 vs' := by
  obtain ⟨ρ', vs', hv, R'⟩ := fsteps_refine_heap_partial hF (rel_initH main mfd M n hcode hlines hfits hfd hK hn) hsteps
  obtain ⟨m, hm⟩ := hv.fuel 1
  refine ⟨m + 1, vs', ρ', ?_, R'⟩
  show exec (Vm.runLoop (m + 1)) (initState main K) = _
  rw [hm, exec_runLoop_succ, tick_haltH R' hend]

def checkedRunH (K : List Val) (F : FnDef → Option (List Instr)) (k : Nat) (x : FSt × List Bool) : Bool :=
  match dstepsH K F k x with
  | some y => y.1.act.pc == bytes y.1.act.code
  | none => false

theorem plains_of_all {l : List Val} (hl : l.all plain = true) : plains l := fun v hv => (List.all_eq_true.mp hl) v hv

open P2sh.Core.Fn (FTop FDecl evalT phiT codeT codesT constsT compileT lookupFd program_correct_fn) in
/-- **a terminating evaluation of a program with functions, closures, ARRAYS AND MAPS (plain keys) ⇒ `Vm.run` on the encoded main code ends
normally**, the VM's globals being the evaluator's globals renamed, and the VM's heap holding the evaluator's closure cells
and container objects (`HRelH`), for some renaming `ρ'` of heap ids.  `hchk`: the run of the machine with frames passes the
checks `preOkH` / `postOk` at each of its `k` steps (an executable predicate). -/
theorem program_run_refines_heap_partial (T : List FTop) (efuel n k : Nat) (a' : Heap) (g' : List Val) (h' : List (List Val))
    (he : evalT (phiT T) efuel (List.replicate n .null) [[]] {} T = some (g', h', a'))
    (main : FnDef) (hcode : main.code = Core.encode (compileT 0 0 T)) (hlines : main.code.length ≤ main.lines.length)
    (hfits : (compileT 0 0 T).all Core.fitsI = true) (hnc : noCurr (compileT 0 0 T) = true)
    (hF : codedB (codesT 0 T) = true) (hK : plains (constsT T)) (hn : n ≤ P2sh.Gen.Limits.GLOBALS_SIZE)
    (hchk : checkedRunH (constsT T) (codeT T) k (progInit T n {}, []) = true) :
    ∃ fuel vs' ρ', Vm.run main (constsT T) fuel = (.ok (), vs') ∧ GRel vs'.globals (g'.map (rn ρ')) ∧ HRelH ρ' vs'.heap h' a' ∧
      vs'.sp = 0 ∧ vs'.frames.length = 1 := by
  unfold checkedRunH at hchk
  cases hd : dstepsH (constsT T) (codeT T) k (progInit T n {}, []) with
  | none => simp [hd] at hchk
  | some y =>
    simp only [hd, beq_iff_eq] at hchk
    have hDS := dstepsH_DStepsH k _ _ hd
    have hFc : Coded (codeT T) := coded_of_table hF
    obtain ⟨fuel, vs', ρ', hrun, R⟩ := run_refines_heap_partial hFc main ⟨[], [], 0, 0, 0⟩ (compileT 0 0 T) n hcode hlines hfits (.inr hnc) hK hn
      hDS hchk
    have hfin := program_correct_fn efuel T _ g' _ h' {} a' he
    have hy : y.1 = ⟨⟨compileT 0 0 T, ⟨[], [], 0, 0, 0⟩, 0, bytes (compileT 0 0 T), 0⟩, [], g', h', a', []⟩ :=
      FSteps_det hDS.fsteps (fstep_end hchk) hfin (fstep_end rfl)
    have hg := R.globals
    have hh := R.heap
    have hst := R.stack.length.1
    have hfr := R.frames.length
    rw [hy] at hg hh hst hfr
    exact ⟨fuel, vs', ρ', hrun, hg, hh, by simpa using hst.symm, by simpa using hfr.symm⟩

/-! ## non-vacuity -/

namespace Example
open P2sh.Core.Fn
open P2sh.FnVm.Example (argsOf)

/-- `fn get(a) { a[1] }` -/
def getD : FDecl := ⟨1, 1, [.expr 2 (.index 2 (.lget 2 0) (.lit 2 (.int 1)))], 2⟩
def getC : List Nat × List Nat := fnTop 2 getD

/-- `let x = [1, 2];  fn get(a) { a[1] }  x[1] = 5;  let y = get(x);` — the closure of `get` is created AFTER the array:
its cell is 1 in `Core/Fn`, its object 2 in the VM (the array is object 1 in both) -/
def prog : List FTop :=
  [.stmt (.letG 1 0 (.arrLit 1 (argsOf [.lit 1 (.int 1), .lit 1 (.int 2)]))),
   .fnDef 2 1 getC.1 getC.2 getD,
   .stmt (.expr 3 (.setIndex 3 (.gget 3 0) (.lit 3 (.int 1)) (.lit 3 (.int 5)))),
   .stmt (.letG 4 2 (.call 4 (.gget 4 1) (argsOf [.gget 4 0])))]

/-- the compiled program: `Array 2`, then the `Closure` of `get`, `SetIndex`, the call with the array as its argument -/
example : compileT 0 0 prog =
    [.const 0, .const 1, .array 2, .defGlobal 0, .closure 3 0, .defGlobal 1, .const 4, .getGlobal 0, .const 5, .setIndex, .pop,
     .getGlobal 1, .getGlobal 0, .call 1, .defGlobal 2] := by rfl
example : (codesT 0 prog).map (·.2) = [[.getLocal 0, .const 2, .getIndex, .retv]] := by rfl

def exMain : FnDef := ⟨Core.encode (compileT 0 0 prog), List.replicate (Core.encode (compileT 0 0 prog)).length 1, 0, 0, 0⟩

/-- the relation holds initially (identity renaming, empty container heap) -/
example : FRelH (constsT prog) Ren.id (progInit prog 3 {}) [] (initState exMain (constsT prog)) :=
  rel_initH exMain _ (compileT 0 0 prog) 3 rfl (by simp [exMain]) (by decide) (.inr rfl) (plains_of_all rfl) (by decide)

/-- the side conditions hold along the whole run: 19 steps (`Array`, `Closure` after it, `SetIndex`, a call that passes the
array reference, `GetIndex` inside the callee) -/
example : checkedRunH (constsT prog) (codeT prog) 19 (progInit prog 3 {}, []) = true := by rfl

/-- **the run-level theorem, instantiated**: `Vm.run` on the encoded program ends normally; `y = 5` — the element written
through `x` is read through the parameter `a` of `get`: ONE shared object —, the global `x` is a reference to a VM object
that holds `[1, 5]`; the stack is empty, only the main frame is left -/
theorem array_run : ∃ fuel vs', Vm.run exMain (constsT prog) fuel = (.ok (), vs') ∧
      vs'.globals.getD 2 .null = .int 5 ∧
      (∃ id, vs'.globals.getD 0 .null = .arr id [] ∧ vs'.heap.get? id = some (.arr [.int 1, .int 5])) ∧
      vs'.sp = 0 ∧ vs'.frames.length = 1 := by
  obtain ⟨fuel, vs', ρ', hrun, hg, hh, hsp, hfr⟩ :=
    program_run_refines_heap_partial prog 40 3 19 ⟨[(1, .arr [.int 1, .int 5])], 2⟩
      [.arr 1 [], .clos (mkFd getC.1 getC.2 getD) [] 1, .int 5] [[], []] (by rfl) exMain rfl (by simp [exMain]) (by decide) rfl (by decide)
      (plains_of_all rfl) (by decide) (by rfl)
  refine ⟨fuel, vs', hrun, ?_, ⟨ρ'.o 1, ?_, ?_⟩, hsp, hfr⟩
  · exact hg.2.2 2
  · exact hg.2.2 0
  · exact hh.objs 1 (.arr [.int 1, .int 5]) rfl

/-! ### why closures need the renaming too -/

def closId : Val → Option Nat
  | .clos _ _ id => some id
  | _ => none

/-- **the ids of closure objects differ once an array exists.**  After the first five steps of the program above
(`Constant; Constant; Array 2; DefineGlobal 0; Closure 3 0`) the closure of `get` on top of the stack is `clos … 1` in the
machine of `Core/Fn` (cell 1 of its closure heap) and `clos … 2` in the VM model (object 2 of its one heap: object 1 is the
array).  `FnVm.FRel` (equal values, `heap.next = h.length`) cannot hold after an `Array`: hence `Ren.c`. -/
theorem closure_ids_shift :
    (match dstepsH (constsT prog) (codeT prog) 5 (progInit prog 3 {}, []) with | some (s, _) => s.stk.map closId | none => []) = [some 1] ∧
    (match Vm.run exMain (constsT prog) 5 with | (_, vs') => (vs'.sp, closId (vs'.stack.getD 0 .null))) = (1, some 2) := by
  constructor
  · rfl
  · decide +kernel

/-! ### maps -/

/-- `let m = map {'a': 10, 'b': 20};  m['a'] = 11;  m['c'] = [7];  let z = m['a'];  let w = m['c'][0];` — an existing key is
overwritten, a new key is added with an ARRAY as its value, both are read back (character keys: the hash stream of an
integer key goes through `Float`, which the kernel cannot evaluate) -/
def progM : List FTop :=
  [.stmt (.letG 1 0 (.mapLit 1 (argsOf [.lit 1 (.char 'a'), .lit 1 (.int 10), .lit 1 (.char 'b'), .lit 1 (.int 20)]))),
   .stmt (.expr 2 (.setIndex 2 (.gget 2 0) (.lit 2 (.char 'a')) (.lit 2 (.int 11)))),
   .stmt (.expr 3 (.setIndex 3 (.gget 3 0) (.lit 3 (.char 'c')) (.arrLit 3 (argsOf [.lit 3 (.int 7)])))),
   .stmt (.letG 4 1 (.index 4 (.gget 4 0) (.lit 4 (.char 'a')))),
   .stmt (.letG 5 2 (.index 5 (.index 5 (.gget 5 0) (.lit 5 (.char 'c'))) (.lit 5 (.int 0))))]

example : compileT 0 0 progM =
    [.const 0, .const 1, .const 2, .const 3, .hmap 4, .defGlobal 0, .const 4, .getGlobal 0, .const 5, .setIndex, .pop,
     .const 6, .array 1, .getGlobal 0, .const 7, .setIndex, .pop, .getGlobal 0, .const 8, .getIndex, .defGlobal 1,
     .getGlobal 0, .const 9, .getIndex, .const 10, .getIndex, .defGlobal 2] := by rfl

def exMainM : FnDef := ⟨Core.encode (compileT 0 0 progM), List.replicate (Core.encode (compileT 0 0 progM)).length 1, 0, 0, 0⟩

/-- the side conditions (plain keys included) hold along the 27 steps -/
theorem progM_checked : checkedRunH (constsT progM) (codeT progM) 27 (progInit progM 3 {}, []) = true := by decide +kernel

open P2sh.FnVm.Stale (isInt) in
/-- the evaluator: `z = 11`, `w = 7` -/
theorem progM_eval : (match evalT (phiT progM) 40 (List.replicate 3 .null) [[]] {} progM with
    | some (g, _, _) => isInt 11 (g.getD 1 .null) && isInt 7 (g.getD 2 .null)
    | none => false) = true := by decide +kernel

open P2sh.FnVm.Stale (isInt) in
theorem isInt_rn (ρ : Ren) {n : Int} {v : Val} (h : isInt n v = true) : isInt n (rn ρ v) = true := by
  cases v <;> first | exact h | simp [isInt] at h

open P2sh.FnVm.Stale (isInt) in
/-- **the run-level theorem on a program with a map**: `Vm.run` ends normally, `z = 11` (the overwritten entry), `w = 7` (read
through the array stored under the new key `'c'`) -/
theorem map_run : ∃ fuel vs', Vm.run exMainM (constsT progM) fuel = (.ok (), vs') ∧
      isInt 11 (vs'.globals.getD 1 .null) = true ∧ isInt 7 (vs'.globals.getD 2 .null) = true ∧ vs'.sp = 0 ∧ vs'.frames.length = 1 := by
  have hev := progM_eval
  cases he : evalT (phiT progM) 40 (List.replicate 3 .null) [[]] {} progM with
  | none => rw [he] at hev; cases hev
  | some r =>
    obtain ⟨g', h', a'⟩ := r
    rw [he] at hev
    simp only [Bool.and_eq_true] at hev
    obtain ⟨fuel, vs', ρ', hrun, hg, hh, hsp, hfr⟩ :=
      program_run_refines_heap_partial progM 40 3 27 a' g' h' he exMainM rfl (by simp [exMainM]) (by decide) rfl (by decide)
        (plains_of_all rfl) (by decide) progM_checked
    have e1 : vs'.globals.getD 1 .null = rn ρ' (g'.getD 1 .null) :=
      ((hg.2.2 1).trans (List.getD_eq_getElem?_getD ..)).trans (getD_map_rn ρ' g' 1)
    have e2 : vs'.globals.getD 2 .null = rn ρ' (g'.getD 2 .null) :=
      ((hg.2.2 2).trans (List.getD_eq_getElem?_getD ..)).trans (getD_map_rn ρ' g' 2)
    exact ⟨fuel, vs', hrun, by rw [e1]; exact isInt_rn ρ' hev.1, by rw [e2]; exact isInt_rn ρ' hev.2, hsp, hfr⟩

end Example

/-! ## where the machines differ on containers: operators on deeply nested arrays -/

namespace Deep
open P2sh.Core.Fn

/-- objects `base+1 … base+k+1`: object `base+1` is `[leaf]`, object `base+j+1` is `[ref (base+j)]` -/
def chain (base : Nat) (leaf : Val) : Nat → List (Nat × HObj)
  | 0 => [(base + 1, .arr [leaf])]
  | k+1 => (base + k + 2, .arr [.arr (base + k + 1) []]) :: chain base leaf k

/-- two arrays nested 66 deep, `[[…[1]…]]` (object 66) and `[[…[2]…]]` (object 166), in ONE heap — the heap of `Core/Fn`'s
machine and the VM's heap at once (identity renaming, no closure) -/
def heap : Heap := ⟨chain 0 (.int 1) 65 ++ chain 100 (.int 2) 65, 200⟩

/-- **finding** (why `preOkH` keeps containers away from the operators): `==` on the two arrays is `false` in `Core/Fn`
(`opH` looks through `view`, which expands `objs.length + 1` levels: all of them) and `true` in the VM model (`Equal`
compares `reify heap reifyDepth`, and `reifyDepth = 64` cuts both values off at two unexpanded references, which `Val.eq`
— ignoring ids — finds equal).  The real VM has no such bound: the difference is one between `Core/Fn`'s `view` and the
MODEL's `reifyDepth`, for values nested deeper than 64. -/
theorem deep_eq_diverges :
    (match opH heap .equal (.arr 66 []) (.arr 166 []) with | .same (.bool b) => some b | _ => none) = some false ∧
    (reify heap reifyDepth (.arr 66 [])).eq (reify heap reifyDepth (.arr 166 [])) = true := by
  constructor
  · decide +kernel
  · decide +kernel

end Deep

#print axioms fstep_refines_heap_partial
#print axioms fsteps_refine_heap_partial
#print axioms run_refines_heap_partial
#print axioms program_run_refines_heap_partial
#print axioms rel_initH
#print axioms step_array
#print axioms step_getIndex
#print axioms step_setIndex
#print axioms Example.array_run
#print axioms Example.map_run
#print axioms step_hmap
#print axioms Example.closure_ids_shift
#print axioms Deep.deep_eq_diverges

end P2sh.FnVmHeap
