import P2sh.Props.BcvStore2
/-!
# The store typing, part 3: containers (`Array`, `Map`, `GetIndex`, `SetIndex`), `Call` (frames and builtins),
returns
-/
namespace P2sh.Props.Bcv
open P2sh P2sh.Vm P2sh.Bcv P2sh.Code P2sh.Props.BcvWp P2sh.Props.BcvVals

section
variable {consts : List Val} {F : Nat → Prop} {T : Nat → Nat}

/-- `mapM` of a computation that keeps the typing (and may allocate) -/
theorem si_mapM {α β} (f : α → M β) (A : Nat → α → Prop) (B : Nat → β → Prop)
    (hA : ∀ n n' a, n ≤ n' → A n a → A n' a) (hB : ∀ n n' b, n ≤ n' → B n b → B n' b)
    (hf : ∀ a n s, SI consts F T n s → A n a →
      wpl (f a) (fun b s' => ∃ n', n ≤ n' ∧ SI consts F T n' s' ∧ B n' b) s) :
    ∀ (l : List α) (n : Nat) (s : St), SI consts F T n s → (∀ a ∈ l, A n a) →
      wpl (l.mapM f) (fun bs s' => ∃ n', n ≤ n' ∧ SI consts F T n' s' ∧ ∀ b ∈ bs, B n' b) s := by
  intro l
  induction l with
  | nil =>
    intro n s h _
    simp only [List.mapM_nil, wpl_pure]
    exact ⟨n, Nat.le_refl _, h, fun b hb => by cases hb⟩
  | cons a l ih =>
    intro n s h hl
    rw [List.mapM_cons, wpl_bind]
    refine wpl_mono (hf a n s h (hl a List.mem_cons_self)) ?_
    rintro b s1 ⟨n1, hn1, h1, hb⟩
    rw [wpl_bind]
    refine wpl_mono (ih n1 s1 h1 (fun a' ha' => hA _ _ _ hn1 (hl a' (List.mem_cons_of_mem _ ha')))) ?_
    rintro bs s2 ⟨n2, hn2, h2, hbs⟩
    rw [wpl_pure]
    refine ⟨n2, Nat.le_trans hn1 hn2, h2, ?_⟩
    intro b' hb'
    rcases List.mem_cons.1 hb' with rfl | hb'
    · exact hB _ _ _ hn2 hb
    · exact hbs b' hb'

variable {n : Nat} {s : St}

theorem SI.framesSp (h : SI consts F T n s) {fs : List Frame} (hf : FramesOk (PP consts F T) fs) (k : Nat) :
    SI consts F T n { s with frames := fs, sp := k } :=
  ⟨h.nx, h.wf, h.pos, h.f0, h.hok, h.fs, h.stack, h.globals, h.cst, hf⟩

theorem vokP_stored {P : FnDef → Nat → Prop} {C : Nat → Prop} {kvs m' : List (Val × Val)} {k v : Val} {c : Prop}
    {_ : Decidable c} (h1 : VOkP P C kvs) (h2 : VOkP P C m') (hk : VOk P C k) (hv : VOk P C v) :
    VOkP P C (if c then (kvs.zip m').map (fun x => (x.1.1, x.2.2)) else kvs ++ [(k, v)]) := by
  split
  · exact vokP_zip_map h1 h2
  · exact vokP_append h1 (vokP_cons.2 ⟨hk, hv, vokP_nil⟩)

theorem vokP_reifyKeys {P : FnDef → Nat → Prop} {C : Nat → Prop} {hp : Heap} (hh : HeapOk P C hp) {kvs : List (Val × Val)}
    (h1 : VOkP P C kvs) : VOkP P C (kvs.map fun p => (reify hp reifyDepth p.1, p.2)) := by
  rw [vokP_iff] at *
  intro p hp'
  obtain ⟨q, hq, rfl⟩ := List.mem_map.1 hp'
  exact ⟨vok_reify hh _ _ (h1 q hq).1, (h1 q hq).2⟩

/-! ## `execIndex` -/

set_option maxHeartbeats 400000 in
theorem si_execIndex (h : SI consts F T n s) {l ix : Val} (hl : VS consts F T n l) (hix : VS consts F T n ix)
    (sv : Option Val) (hsv : ∀ v, sv = some v → VS consts F T n v) (line : Nat) :
    wpl (execIndex l ix sv line) (fun _ s' => SInv consts s') s := by
  unfold execIndex
  simp only [wpl_bind, wpl_get]
  split
  · rename_i id xs0 idx
    simp only [wpl_ite, wpl_rtErr]
    split
    · trivial
    · split
      · trivial
      · split
        · rename_i v
          simp only [wpl_bind, wpl_modify]
          have hv := hsv v rfl
          have h' := h.heapSet (id := id) (o := .arr ((s.heap.getArr id).set idx.toNatClampNeg v))
            (vokL_set (vokL_getArr h.hok) hv) (fun hF => absurd hF (notF_of_cid h (vok_arr.1 hl).1))
          wstep (si_push h' hv line); intro _ s2 h2; exact h2.sinv
        · wstep (si_push h (vok_getD (vokL_getArr h.hok) vok_null) line); intro _ s2 h2; exact h2.sinv
  · rename_i id kvs0
    simp only [wpl_bind, wpl_reifyM, wpl_ite, wpl_rtErr, wpl_pure]
    split
    · trivial
    · refine (wpl_mapM_read _ (fun (s : St) (p : Val × Val) => (reify s.heap reifyDepth p.1, p.2)) ?_ _ _ _).2 ?_
      · rintro ⟨a, b⟩ Q s0
        simp only [wpl_bind, wpl_reifyM, wpl_pure]
      · have hkvs : VOkP (PP consts F T) (CC F n) (s.heap.getMap id) := vokP_getMap h.hok
        have hr := vokP_reifyKeys h.hok hkvs
        have hk' : VS consts F T n (reify s.heap reifyDepth ix) := vok_reify h.hok _ _ hix
        split
        · rename_i v
          have hv := hsv v rfl
          have hins := (vok_hmap_insert hr hk' hv).1
          simp only [wpl_bind, wpl_modify]
          refine wpl_mono (si_push (?_ : SI consts F T n _) hv line) ?_
          · exact h.heapSet (id := id) (vokP_stored hkvs hins hix hv)
              (fun hF => absurd hF (notF_of_cid h (vok_map.1 hl).1))
          · intro _ s2 h2; exact h2.sinv
        · simp only [wpl_ite, wpl_rtErr]
          split
          · trivial
          · wstep (si_push h (vok_hmap_get hr) line); intro _ s2 h2; exact h2.sinv
  · simp only [wpl_rtErr]

end

section
variable {consts : List Val} {F : Nat → Prop} {T : Nat → Nat} {n : Nat} {s : St} {op : Nat} {code : List Nat}
  {ip line : Nat}

set_option quotPrecheck false in
local notation "NM" => (P2sh.Gen.Opcodes.names[op]?).getD "Invalid"
set_option quotPrecheck false in
local notation "GOAL" => wpl (step op code ip line) (fun _ s' => SInv consts s') s

theorem s_GetIndex (h : SI consts F T n s) (hnm : NM = "GetIndex") : GOAL := by
  unfold step; simp only [hnm]
  wstep (si_pop h line); rintro i s1 ⟨h1, hi⟩
  wstep (si_pop h1 line); rintro l s2 ⟨h2, hl⟩
  wstep (si_execIndex h2 hl hi none (fun _ e => by cases e) line); intro _ s3 h3; wfin h3

theorem s_SetIndex (h : SI consts F T n s) (hnm : NM = "SetIndex") : GOAL := by
  unfold step; simp only [hnm]
  wstep (si_pop h line); rintro i s1 ⟨h1, hi⟩
  wstep (si_pop h1 line); rintro l s2 ⟨h2, hl⟩
  wstep (si_pop h2 line); rintro v s3 ⟨h3, hv⟩
  wstep (si_execIndex h3 hl hi (some v) (fun _ e => by cases e; exact hv) line); intro _ s4 h4; wfin h4

/-! ## `Array`, `Map` -/

theorem s_Array (h : SI consts F T n s) (hnm : NM = "Array") : GOAL := by
  unfold step; simp only [hnm]
  rw [wpl_bind]; apply wpl_readU16; intro k
  simp only [wpl_bind, wpl_get, wpl_ite, wpl_panicM, wpl_pure, wpl_set]
  split
  · trivial
  · wstep (si_reflectM (h.setSp (s.sp - k)) (vok_arr.2 ⟨Or.inl rfl, vsL_range h k (s.sp - k)⟩))
    rintro v s1 ⟨n', _, h1, hv⟩
    wstep (si_push h1 hv line); intro _ s2 h2
    wstep (si_setIp h2 _); intro _ s3 h3; wfin h3.sinv

theorem si_build (h : SI consts F T n s) (line : Nat) :
    ∀ (k : Nat) (xs : List Val) (acc racc : List (Val × Val)), xs.length ≤ k →
      VOkL (PP consts F T) (CC F n) xs → VOkP (PP consts F T) (CC F n) acc → VOkP (PP consts F T) (CC F n) racc →
      wpl (step.build line xs acc racc) (fun pairs s' => s' = s ∧ VOkP (PP consts F T) (CC F n) pairs) s := by
  intro k
  induction k with
  | zero =>
    intro xs acc racc hl _ ha _
    have : xs = [] := List.length_eq_zero_iff.mp (by omega)
    subst this
    unfold step.build
    rw [wpl_pure]
    exact ⟨rfl, ha⟩
  | succ k ih =>
    intro xs acc racc hl hx ha hr
    match xs with
    | [] => unfold step.build; rw [wpl_pure]; exact ⟨rfl, ha⟩
    | [k1] =>
      unfold step.build
      simp only [wpl_bind, wpl_reifyM, wpl_ite, wpl_rtErr, wpl_pure]
      split
      · trivial
      · exact ⟨trivial, vokP_append ha (vokP_cons.2 ⟨(vokL_cons.1 hx).1, vok_null, vokP_nil⟩)⟩
    | k1 :: v1 :: rest' =>
      unfold step.build
      simp only [wpl_bind, wpl_reifyM, wpl_ite, wpl_rtErr, wpl_pure]
      obtain ⟨hk1, hx2⟩ := vokL_cons.1 hx
      obtain ⟨hv1, hrest⟩ := vokL_cons.1 hx2
      have hk' : VS consts F T n (reify s.heap reifyDepth k1) := vok_reify h.hok _ _ hk1
      have hins := (vok_hmap_insert hr hk' hv1).1
      split
      · trivial
      · exact ih _ _ _ (by simp only [List.length_cons] at hl; omega) hrest (vokP_stored ha hins hk1 hv1) hins

theorem s_Map (h : SI consts F T n s) (hnm : NM = "Map") : GOAL := by
  unfold step; simp only [hnm]
  rw [wpl_bind]; apply wpl_readU16; intro k
  simp only [wpl_bind, wpl_get, wpl_ite, wpl_panicM, wpl_pure]
  split
  · trivial
  · refine wpl_mono (si_build h line _ _ _ _ (Nat.le_refl _) (vsL_range h k (s.sp - k)) vokP_nil vokP_nil) ?_
    rintro pairs s' ⟨rfl, hp⟩
    simp only [wpl_bind, wpl_modify, wpl_get, wpl_set]
    obtain ⟨h1, hcc⟩ := (h.setSp (s'.sp - k)).alloced (o := .map pairs) hp
    have hv : VS consts F T (n + 1) (.map s'.heap.next []) := by
      rw [h.nx]; exact vok_map.2 ⟨Or.inr hcc, vokP_nil⟩
    wstep (si_push h1 hv line); intro _ s2 h2
    wstep (si_setIp h2 _); intro _ s3 h3; wfin h3.sinv

/-! ## returns -/

theorem s_ReturnValue (h : SI consts F T n s) (hnm : NM = "ReturnValue") : GOAL := by
  unfold step; simp only [hnm]
  wstep (si_pop h line); rintro v s1 ⟨h1, hv⟩
  simp only [wpl_bind, wpl_get]
  split
  · rename_i f rest hfr
    have hfo := h1.frames
    rw [hfr] at hfo
    simp only [wpl_ite, wpl_panicM, wpl_bind, wpl_set, wpl_pure]
    split
    · trivial
    · wstep (si_push (h1.framesSp hfo.2 (f.bp - 1)) hv line); intro _ s2 h2; wfin h2.sinv
  · simp only [wpl_panicM]

theorem s_Return (h : SI consts F T n s) (hnm : NM = "Return") : GOAL := by
  unfold step; simp only [hnm]
  simp only [wpl_bind, wpl_get]
  split
  · rename_i f rest hfr
    have hfo := h.frames
    rw [hfr] at hfo
    simp only [wpl_ite, wpl_panicM, wpl_bind, wpl_set, wpl_pure]
    split
    · trivial
    · wstep (si_push (h.framesSp hfo.2 (f.bp - 1)) vok_null line); intro _ s2 h2; wfin h2.sinv
  · simp only [wpl_panicM]

end

/-! ## `Call` -/

section
variable {consts : List Val} {F : Nat → Prop} {T : Nat → Nat} {n : Nat} {s : St}

theorem si_pushFrame (h : SI consts F T n s) (f : Frame) (hP : PP consts F T f.fn f.closId) (line : Nat) :
    wpl (pushFrame f line) (fun _ s' => SI consts F T n s') s := by
  unfold pushFrame
  simp only [wpl_bind, wpl_get, wpl_ite, wpl_rtErr, wpl_set]
  split
  · trivial
  · exact h.setFrames ⟨fun _ => hP, h.frames⟩

/-- the common end of `callBuiltin`: drop the callee and its arguments, push the result, step over the `Call` -/
def tailS (k line : Nat) (v' : Val) : M Unit := do
  let s ← get
  if s.sp < k + 1 then panicM "attempt to subtract with overflow" else do
    set { s with sp := s.sp - k - 1 }
    push v' line
    let f ← curFrame
    setIp (f.ip + 2)

theorem si_tailS (h : SI consts F T n s) (k line : Nat) {v' : Val} (hv : VS consts F T n v') :
    wpl (tailS k line v') (fun _ s' => SInv consts s') s := by
  unfold tailS
  simp only [wpl_bind, wpl_get, wpl_ite, wpl_panicM, wpl_set]
  split
  · trivial
  · wstep (si_push (h.setSp _) hv line); intro _ s1 h1
    wstep (si_curFrame h1); intro f s2 h2
    wstep (si_setIp h2 _); intro _ s3 h3; exact h3.sinv

theorem si_rest (h : SI consts F T n s) (k line : Nat) (mv : M Val)
    (hmv : wpl mv (fun v' s' => ∃ n', SI consts F T n' s' ∧ VS consts F T n' v') s) :
    wpl (mv >>= tailS k line) (fun _ s' => SInv consts s') s := by
  rw [wpl_bind]
  refine wpl_mono hmv ?_
  rintro v' s1 ⟨n1, h1, hv⟩
  exact si_tailS h1 k line hv

set_option maxHeartbeats 400000 in
theorem si_callBuiltin (h : SI consts F T n s) (name : String) (k line : Nat) :
    wpl (callBuiltin name k line) (fun _ s' => SInv consts s') s := by
  unfold callBuiltin
  simp only [wpl_bind, wpl_get, wpl_ite, wpl_panicM]
  split
  · trivial
  · rw [wpl_mapM_read reifyM (fun s v => reify s.heap reifyDepth v) (fun a Q s => wpl_reifyM a Q s)]
    have hA : VOkL (PP consts F T) (CC F n) ((List.range k).map fun i => s.stack.getD (s.sp - k + i) .null) :=
      vsL_range h k (s.sp - k)
    generalize ((List.range k).map fun i => s.stack.getD (s.sp - k + i) Val.null) = args at hA ⊢
    have hres := resOk_call (P := PP consts F T) (C := CC F n) name (args.map (fun v => reify s.heap reifyDepth v)) (by
      intro a ha
      obtain ⟨b, hb, rfl⟩ := List.mem_map.1 ha
      exact vok_reify h.hok _ _ (vokL_iff.1 hA b hb))
    split
    · simp only [wpl_throw]
    · simp only [wpl_panicM]
    · simp only [wpl_rtErr]
    · rename_i v heq
      rw [heq] at hres
      refine si_rest h k line (reflectM v) ?_
      refine wpl_mono (si_reflectM h hres) ?_
      rintro v' s1 ⟨n1, _, h1, hv⟩; exact ⟨n1, h1, hv⟩
    · rename_i ret nf heq
      rw [heq] at hres
      obtain ⟨hret, hnf⟩ := hres
      rw [wpl_bind]
      have key : ∀ n1 s1, n ≤ n1 → SI consts F T n1 s1 →
          wpl ((if (name == "sort") = true then pure (args.headD Val.null) else reflectM ret) >>= tailS k line)
            (fun _ s' => SInv consts s') s1 := by
        intro n1 s1 hn1 h1
        refine si_rest h1 k line _ ?_
        split
        · rw [wpl_pure]
          refine ⟨n1, h1, vs_grow hn1 ?_⟩
          cases args with
          | nil => exact vok_null
          | cons a as => exact (vokL_cons.1 hA).1
        · refine wpl_mono (si_reflectM h1 (vs_grow hn1 hret)) ?_
          rintro v' s2 ⟨n2, _, h2, hv⟩; exact ⟨n2, h2, hv⟩
      split
      · rename_i id xs0 nid xs hhead
        have hid : ¬ F id := by
          cases args with
          | nil => cases hhead
          | cons a as =>
            simp only [List.head?_cons, Option.some.injEq] at hhead
            subst hhead
            exact notF_of_cid h (vok_arr.1 (vokL_cons.1 hA).1).1
        rw [wpl_bind]
        refine wpl_mono (si_mapM reflectM (fun n v => VS consts F T n v) (fun n v => VS consts F T n v)
          (fun _ _ _ hn hv => vs_grow hn hv) (fun _ _ _ hn hv => vs_grow hn hv)
          (fun a n0 s0 h0 ha => si_reflectM h0 ha) xs n s h (vokL_iff.1 (vok_arr.1 hnf).2)) ?_
        rintro xs' s1 ⟨n1, hn1, h1, hxs'⟩
        rw [wpl_modify]
        exact key n1 _ hn1 (h1.heapSet (id := id) (o := .arr xs') (vokL_iff.2 hxs') (fun hF => absurd hF hid))
      · rename_i id kvs0 nid kvs hhead
        have hid : ¬ F id := by
          cases args with
          | nil => cases hhead
          | cons a as =>
            simp only [List.head?_cons, Option.some.injEq] at hhead
            subst hhead
            exact notF_of_cid h (vok_map.1 (vokL_cons.1 hA).1).1
        rw [wpl_bind]
        refine wpl_mono (si_mapM _ (fun n (p : Val × Val) => VS consts F T n p.1 ∧ VS consts F T n p.2)
          (fun n (p : Val × Val) => VS consts F T n p.1 ∧ VS consts F T n p.2)
          (fun _ _ _ hn hv => ⟨vs_grow hn hv.1, vs_grow hn hv.2⟩) (fun _ _ _ hn hv => ⟨vs_grow hn hv.1, vs_grow hn hv.2⟩)
          ?_ kvs n s h (vokP_iff.1 (vok_map.1 hnf).2)) ?_
        · rintro ⟨a, b⟩ n0 s0 h0 ⟨ha, hb⟩
          simp only [wpl_bind]
          refine wpl_mono (si_reflectM h0 ha) ?_
          rintro a' s1 ⟨n1, hn1, h1, ha'⟩
          refine wpl_mono (si_reflectM h1 (vs_grow hn1 hb)) ?_
          rintro b' s2 ⟨n2, hn2, h2, hb'⟩
          rw [wpl_pure]
          exact ⟨n2, Nat.le_trans hn1 hn2, h2, vs_grow hn2 ha', hb'⟩
        · rintro kvs' s1 ⟨n1, hn1, h1, hkvs'⟩
          rw [wpl_modify]
          exact key n1 _ hn1 (h1.heapSet (id := id) (o := .map kvs') (vokP_iff.2 hkvs') (fun hF => absurd hF hid))
      · rw [wpl_pure]
        exact key n s (Nat.le_refl _) h

theorem si_execCall (h : SI consts F T n s) (k line : Nat) :
    wpl (execCall k line) (fun _ s' => SInv consts s') s := by
  unfold execCall
  simp only [wpl_bind, wpl_get, wpl_ite, wpl_panicM]
  split
  · trivial
  · split
    · rename_i g fr id hslot
      have hP : PP consts F T g id := by
        have := h.stack (s.sp - 1 - k)
        rw [hslot] at this
        exact vok_clos.1 this
      rw [wpl_ite]
      split
      · simp only [wpl_rtErr]
      · wstep (si_curFrame h); intro f s1 h1
        wstep (si_setIp h1 _); intro _ s2 h2
        wstep (si_pushFrame h2 { fn := g, closId := id, ip := 0, bp := s.sp - k } hP line); intro _ s3 h3
        rw [wpl_modify]; exact (h3.setSp _).sinv
    · exact si_callBuiltin h _ k line
    · simp only [wpl_rtErr]

end

section
variable {consts : List Val} {F : Nat → Prop} {T : Nat → Nat} {n : Nat} {s : St} {op : Nat} {code : List Nat}
  {ip line : Nat}

set_option quotPrecheck false in
local notation "NM" => (P2sh.Gen.Opcodes.names[op]?).getD "Invalid"
set_option quotPrecheck false in
local notation "GOAL" => wpl (step op code ip line) (fun _ s' => SInv consts s') s

theorem s_Call (h : SI consts F T n s) (hnm : NM = "Call") : GOAL := by
  unfold step; simp only [hnm]
  rw [wpl_bind]; apply wpl_readU8; intro k
  wstep (si_execCall h k line); intro _ s1 h1; wfin h1

end

end P2sh.Props.Bcv
