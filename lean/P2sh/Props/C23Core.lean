import P2sh.Core.Prog
/-!
# C23 at the compiler/VM level, for the core fragment

The REPL compiles every accepted line on its own — a fresh instruction stream starting at byte
0 — but in the *carried* state: the constant pool keeps growing (the line's constants are
appended), the globals persist.  `accepted_lines_compose`: running line 1 and then line 2 that
way ends with the globals that evaluating the one program `line1 ++ line2` ends with (which,
by `Core.program_correct`, is also what the compiled one-program ends with).
-/
namespace P2sh.Props.C23
open P2sh P2sh.Core

/-- more fuel never changes a result -/
theorem eval_mono : ∀ (fuel : Nat),
    (∀ (s : CStmt) (g : List Val) (r : List Val × Flow) (f' : Nat), fuel ≤ f' → evalS fuel g s = some r → evalS f' g s = some r) ∧
    (∀ (ss : List CStmt) (g : List Val) (r : List Val × Flow) (f' : Nat), fuel ≤ f' → evalP fuel g ss = some r → evalP f' g ss = some r)
  | 0 => ⟨fun s g r f' _ h => by simp [evalS] at h, fun ss g r f' _ h => by simp [evalP] at h⟩
  | fuel+1 => by
    have ih := eval_mono fuel
    constructor
    · intro s g r f' hle h
      cases f' with
      | zero => omega
      | succ m =>
        have hm : fuel ≤ m := by omega
        cases s with
        | letG i e => simpa [evalS] using h
        | expr e => simpa [evalS] using h
        | breakS l => simpa [evalS] using h
        | continueS l => simpa [evalS] using h
        | block body => simp only [evalS] at h ⊢; exact ih.2 body g r m hm h
        | ifS c thn els =>
          simp only [evalS] at h ⊢
          cases hc : eval g c with
          | none => simp [hc] at h
          | some rc =>
            obtain ⟨vc, g1⟩ := rc
            simp only [hc] at h ⊢
            by_cases hf : vc.isFalsey = true
            · simp only [hf, if_true] at h ⊢; exact ih.2 els g1 r m hm h
            · simp only [hf, Bool.false_eq_true, if_false] at h ⊢; exact ih.2 thn g1 r m hm h
        | loopS lbl body =>
          simp only [evalS] at h ⊢
          cases hb : evalP fuel g body with
          | none => simp [hb] at h
          | some rb =>
            obtain ⟨g2, f2⟩ := rb
            simp only [hb] at h
            rw [ih.2 body g (g2, f2) m hm hb]
            cases ha : loopAct lbl f2 with
            | again => simp only [ha] at h ⊢; exact ih.1 _ g2 r m hm h
            | exit => simpa [ha] using h
            | propagate => simpa [ha] using h
        | whileS lbl c body =>
          simp only [evalS] at h ⊢
          cases hc : eval g c with
          | none => simp [hc] at h
          | some rc =>
            obtain ⟨vc, g1⟩ := rc
            simp only [hc] at h ⊢
            by_cases hf : vc.isFalsey = true
            · simpa [hf] using h
            · simp only [hf, Bool.false_eq_true, if_false] at h ⊢
              cases hb : evalP fuel g1 body with
              | none => simp [hb] at h
              | some rb =>
                obtain ⟨g2, f2⟩ := rb
                simp only [hb] at h
                rw [ih.2 body g1 (g2, f2) m hm hb]
                cases ha : loopAct lbl f2 with
                | again => simp only [ha] at h ⊢; exact ih.1 _ g2 r m hm h
                | exit => simpa [ha] using h
                | propagate => simpa [ha] using h
    · intro ss g r f' hle h
      cases f' with
      | zero => omega
      | succ m =>
        have hm : fuel ≤ m := by omega
        cases ss with
        | nil => simpa [evalP] using h
        | cons s rest =>
          simp only [evalP] at h ⊢
          cases hs : evalS fuel g s with
          | none => simp [hs] at h
          | some rs =>
            obtain ⟨g1, f1⟩ := rs
            rw [ih.1 s g (g1, f1) m hm hs]
            cases f1 with
            | normal => simp only [hs] at h ⊢; exact ih.2 rest g1 r m hm h
            | brk l => simpa [hs] using h
            | cont l => simpa [hs] using h

/-- evaluating `ss₁` (to its normal end) and then `ss₂` is evaluating `ss₁ ++ ss₂` -/
theorem evalP_append : ∀ (ss1 ss2 : List CStmt) (f1 f2 : Nat) (g g1 : List Val) (r : List Val × Flow),
    evalP f1 g ss1 = some (g1, .normal) → evalP f2 g1 ss2 = some r → ∃ f, evalP f g (ss1 ++ ss2) = some r := by
  intro ss1
  induction ss1 with
  | nil =>
    intro ss2 f1 f2 g g1 r h1 h2
    cases f1 with
    | zero => simp [evalP] at h1
    | succ n =>
      simp only [evalP, Option.some.injEq, Prod.mk.injEq] at h1
      obtain ⟨rfl, _⟩ := h1
      exact ⟨f2, by simpa using h2⟩
  | cons s rest ih =>
    intro ss2 f1 f2 g g1 r h1 h2
    cases f1 with
    | zero => simp [evalP] at h1
    | succ n =>
      simp only [evalP] at h1
      cases hs : evalS n g s with
      | none => simp [hs] at h1
      | some rs =>
        obtain ⟨gm, fm⟩ := rs
        cases fm with
        | normal =>
          simp only [hs] at h1
          obtain ⟨f, hf⟩ := ih ss2 n f2 gm g1 r h1 h2
          refine ⟨max n f + 1, ?_⟩
          simp only [List.cons_append, evalP]
          rw [(eval_mono n).1 s g (gm, .normal) (max n f) (Nat.le_max_left _ _) hs]
          exact (eval_mono f).2 _ gm r (max n f) (Nat.le_max_right _ _) hf
        | brk l => simp [hs] at h1
        | cont l => simp [hs] at h1

/-- **accepted lines compose** (core fragment): line 1 compiled at byte 0 with an empty pool,
line 2 compiled at byte 0 *in the carried state* (its constants appended to the pool, the
globals line 1 left) — the second run ends with the globals of the one program
`line1 ++ line2`, and with an empty stack -/
theorem accepted_lines_compose (ss1 ss2 : List CStmt) (f1 f2 : Nat) (g g1 g2 : List Val)
    (h1 : evalP f1 g ss1 = some (g1, .normal)) (h2 : evalP f2 g1 ss2 = some (g2, .normal)) :
    Steps (compileP 0 0 [] ss1) (constsP ss1 ++ constsP ss2) ⟨0, [], g⟩ ⟨bytes (compileP 0 0 [] ss1), [], g1⟩ ∧
    Steps (compileP 0 (constsP ss1).length [] ss2) (constsP ss1 ++ constsP ss2) ⟨0, [], g1⟩
      ⟨bytes (compileP 0 (constsP ss1).length [] ss2), [], g2⟩ ∧
    ∃ f, evalP f g (ss1 ++ ss2) = some (g2, .normal) := by
  refine ⟨?_, ?_, evalP_append ss1 ss2 f1 f2 g g1 _ h1 h2⟩
  · have := compileP_correct f1 ss1 (compileP 0 0 [] ss1) (constsP ss1 ++ constsP ss2) 0 0 [] [] g g1 .normal
      ⟨[], [], by simp, rfl⟩ ⟨[], constsP ss2, by simp, rfl⟩ h1
    simpa [exitPc] using this
  · have := compileP_correct f2 ss2 (compileP 0 (constsP ss1).length [] ss2) (constsP ss1 ++ constsP ss2) 0 (constsP ss1).length [] [] g1 g2 .normal
      ⟨[], [], by simp, rfl⟩ ⟨constsP ss1, [], by simp, rfl⟩ h2
    simpa [exitPc] using this

/-- non-vacuity: `let x = 2;` then `x = x * 21;` -/
example : evalP 5 [.null] [.letG 0 (.lit (.int 2))] = some ([.int 2], .normal) ∧
    evalP 5 [.int 2] [.expr (.gset 0 (.bin .mul (.gget 0) (.lit (.int 21))))] = some ([.int 42], .normal) := ⟨rfl, rfl⟩

end P2sh.Props.C23
