import P2sh.Props.BcvInv
import P2sh.Props.C09
/-!
# Per-opcode lemmas: one iteration of `VM::run` on checked code keeps the frame-stack invariant and
does not panic
-/
namespace P2sh.Props.Bcv
open P2sh P2sh.Vm P2sh.Bcv P2sh.Code P2sh.Props.BcvWp

theorem wp_curFrame' (Q : Frame → St → Prop) (s : St) :
    wp curFrame Q s ↔ match s.frames with | f :: _ => Q f s | [] => memPanic "no frame" := by
  simp only [curFrame, wp_bind, wp_get]
  cases s.frames <;> simp [wp_pure, wp_panicM]

/-- everything known about the top frame before its instruction executes -/
structure Top (consts : List Val) (s : St) (f : Frame) (rest : List Frame) (sm : Summary) (i : Instr) (ws : List Nat)
    (h : Nat) (succs : List (Nat × Nat)) : Prop where
  inv : Inv consts s
  hf : s.frames = f :: rest
  ck : check consts (kindOf rest) f.fn = .ok sm
  sp : s.sp = f.bp + f.fn.numLocals + h
  bp : f.bp + f.fn.numLocals ≤ stackSize
  below : Below consts rest f.bp
  lt : f.ip < f.fn.code.length
  name : i.name = (P2sh.Gen.Opcodes.names[opOfByte (f.fn.code.getD f.ip 0)]?).getD "Invalid"
  shape : shapeOf i.name = some ws
  len : f.ip + 1 + ws.sum ≤ f.fn.code.length
  ops : i.ops = decodeOps f.fn.code (f.ip + 1) ws
  ilen : i.len = 1 + ws.sum
  eff : effect ⟨consts, kindOf rest, f.fn⟩ i f.ip h = .ok succs
  succ : ∀ p ∈ succs, succOk ⟨consts, kindOf rest, f.fn⟩ sm.heights p = true

/-- the iteration's body after the `lines` lookup -/
def Goal (consts : List Val) (s : St) (f : Frame) (line : Nat) : Prop :=
  wp (do let nx ← step (opOfByte (f.fn.code.getD f.ip 0)) f.fn.code f.ip line; finish nx) (fun _ s' => Inv consts s') s

/-- `s'` is `s` with the top frame at `ip'`, the stack pointer at `sp'`, and possibly other stack / heap /
global contents -/
def Moved (s : St) (f : Frame) (rest : List Frame) (ip' sp' : Nat) (s' : St) : Prop :=
  s'.frames = { f with ip := ip' } :: rest ∧ s'.sp = sp' ∧ s'.stack.size = s.stack.size ∧
    s'.globals.size = s.globals.size ∧ s'.constants = s.constants

def Lands (s : St) (f : Frame) (rest : List Frame) (nx : Next) (s' : St) (pc' σ : Nat) : Prop :=
  match nx with
  | .advance => ∃ q, pc' = q + 1 ∧ Moved s f rest q σ s'
  | .stay => Moved s f rest pc' σ s'

section
variable {consts : List Val} {s : St} {f : Frame} {rest : List Frame} {sm : Summary} {i : Instr} {ws : List Nat}
  {h : Nat} {succs : List (Nat × Nat)}

theorem inv_move (T : Top consts s f rest sm i ws h succs) {pc' h' : Nat} (hsucc : (pc', h') ∈ succs)
    {s' : St} (hm : Moved s f rest pc' (f.bp + f.fn.numLocals + h') s') : Inv consts s' := by
  obtain ⟨hfr, hsp, hsz, hg, hc⟩ := hm
  refine ⟨⟨_, _, hfr, ⟨sm, h', T.ck, T.succ _ hsucc, hsp, T.bp⟩, T.below⟩, ?_, ?_, ?_⟩
  · rw [hsz]; exact T.inv.size
  · rw [hg]; exact T.inv.globals
  · rw [hc]; exact T.inv.consts

theorem goal_of (T : Top consts s f rest sm i ws h succs) (line : Nat)
    (hw : wp (step (opOfByte (f.fn.code.getD f.ip 0)) f.fn.code f.ip line)
      (fun nx s' => ∃ pc' h', (pc', h') ∈ succs ∧ Lands s f rest nx s' pc' (f.bp + f.fn.numLocals + h')) s) :
    Goal consts s f line := by
  unfold Goal
  rw [wp_bind]
  refine wp_mono hw ?_
  intro nx s' ⟨pc', h', hmem, hl⟩
  cases nx with
  | stay =>
    simp only [finish, wp_pure]
    exact inv_move T hmem hl
  | advance =>
    obtain ⟨q, rfl, hm⟩ := hl
    simp only [finish, wp_bind, wp_curFrame', wp_setIp, withIp, hm.1]
    refine inv_move T hmem ?_
    exact ⟨rfl, hm.2.1, hm.2.2.1, hm.2.2.2.1, hm.2.2.2.2⟩

theorem simple_ok {pops pushes h next : Nat} {e : String} {succs : List (Nat × Nat)}
    (he : (if pops ≤ h then Except.ok [(next, h - pops + pushes)] else Except.error e) = Except.ok succs) :
    pops ≤ h ∧ succs = [(next, h - pops + pushes)] := by
  split at he
  · cases he; exact ⟨by assumption, rfl⟩
  · cases he

end

/-! ## shapes of the composite primitives: they change `sp` by a fixed amount and leave the frames alone -/

def Same (s s' : St) : Prop :=
  s'.frames = s.frames ∧ s'.stack.size = s.stack.size ∧ s'.globals.size = s.globals.size ∧ s'.constants = s.constants

theorem Same.refl (s : St) : Same s s := ⟨rfl, rfl, rfl, rfl⟩
theorem Same.trans {a b c : St} (h1 : Same a b) (h2 : Same b c) : Same a c :=
  ⟨h2.1.trans h1.1, h2.2.1.trans h1.2.1, h2.2.2.1.trans h1.2.2.1, h2.2.2.2.trans h1.2.2.2⟩

theorem binaryOp_panic_msg {k : BinKind} {l r : Val} {msg : String} (h : binaryOp k l r = .panic msg) : memPanic msg := by
  by_cases hh : C09.hugeRepeat k l r
  · obtain ⟨rfl, s', n, hlr, hn, hbig⟩ := hh
    rcases hlr with ⟨rfl, rfl⟩ | ⟨rfl, rfl⟩
    · simp [binaryOp, isNumKind, hn, hbig] at h
      exact h.symm
    · simp [binaryOp, isNumKind, hn, hbig] at h
      exact h.symm
  · exact absurd h (C09.binaryOp_no_panic k l r hh msg)

theorem wp_ofOpRes (line : Nat) (r : OpRes) (Q : Val → St → Prop) (s : St) :
    wp (ofOpRes line r) Q s ↔ match r with
      | .ok v => Q (reflect s.heap reifyDepth v).2 { s with heap := (reflect s.heap reifyDepth v).1 }
      | .err _ => True
      | .panic msg => memPanic msg := by
  cases r <;> simp [ofOpRes, wp_reflectM, wp_rtErr, wp_panicM]

theorem size_set! (a : Array Val) (i : Nat) (v : Val) : (a.set! i v).size = a.size := by simp

theorem shape_binaryVm (k : BinKind) (line : Nat) (s : St) :
    wp (binaryVm k line) (fun _ s' => Same s s' ∧ s'.sp + 1 = s.sp ∧ 2 ≤ s.sp) s := by
  simp only [binaryVm, wp_bind, wp_pop, wp_reifyM, wp_ofOpRes]
  intro h1 h2
  split
  · simp only [wp_push]
    intro _
    refine ⟨⟨rfl, by simp, rfl, rfl⟩, ?_, ?_⟩ <;> omega
  · trivial
  · rename_i msg hm; exact binaryOp_panic_msg hm

theorem shape_bitwiseVm (op : BitOp) (line : Nat) (s : St) :
    wp (bitwiseVm op line) (fun _ s' => Same s s' ∧ s'.sp + 1 = s.sp ∧ 2 ≤ s.sp) s := by
  simp only [bitwiseVm, wp_bind, wp_pop, wp_ofOpRes]
  intro h1 h2
  split
  · simp only [wp_push]
    intro _
    refine ⟨⟨rfl, by simp, rfl, rfl⟩, ?_, ?_⟩ <;> omega
  · trivial
  · rename_i msg hm
    exfalso
    revert hm
    unfold bitwiseOp
    split <;> simp

theorem succOk_lt {cx : Cx} {H : Heights} {pc h : Nat} (hs : succOk cx H (pc, h) = true) (hlt : pc < cx.fn.code.length) :
    hAt H pc = some h := by
  unfold succOk at hs
  have : pc ≠ cx.fn.code.length := by omega
  simpa [this] using hs

/-- the facts about the instruction the top frame is about to execute -/
theorem top_of_inv {consts : List Val} {s : St} {f : Frame} {rest : List Frame} (hI : Inv consts s)
    (hf : s.frames = f :: rest) (hlt : f.ip < f.fn.code.length) :
    f.ip < f.fn.lines.length ∧ ∃ sm i ws h succs, Top consts s f rest sm i ws h succs := by
  obtain ⟨f', rest', hf', ⟨sm, h, hck, hsucc, hsp, hbp⟩, hbelow⟩ := hI.top
  rw [hf] at hf'
  cases hf'
  have hacc := (check_ok hck).1
  have hH := succOk_lt hsucc hlt
  have hok := accept_okAt hacc (pc := f.ip) hlt hH
  obtain ⟨hlines, i, succs, hi, heff, hall⟩ := okAt_ok hok
  obtain ⟨ws, _, _, hlen, hname, hshape, hops, hilen⟩ := instrAt_ok hi
  exact ⟨hlines, sm, i, ws, h, succs, ⟨hI, hf, hck, hsp, hbp, hbelow, hlt, hname, hshape, hlen, hops, hilen, heff, hall⟩⟩

theorem opnd2 (code : List Nat) (pos : Nat) : opnd code pos 2 = code.getD pos 0 * 256 + code.getD (pos + 1) 0 := by
  simp [opnd]
theorem opnd1 (code : List Nat) (pos : Nat) : opnd code pos 1 = code.getD pos 0 := by simp [opnd]

set_option hygiene false in
/-- preamble of a per-opcode lemma: concrete widths, operands, length and the effect's arm -/
macro "bcv_pre" T:ident hn:ident : tactic => `(tactic| (
  have hws := ($T).shape; rw [$hn:ident] at hws; simp [shapeOf] at hws
  subst hws
  have hops := ($T).ops; have hil := ($T).ilen; have hlen := ($T).len
  simp only [decodeOps, List.sum_cons, List.sum_nil, opnd1, opnd2, Nat.add_zero] at hops hil hlen
  have he := ($T).eff; unfold effect at he; simp only [$hn:ident, hops, hil] at he
  have hnm := ($T).name.symm.trans $hn
  have hsp := ($T).sp
  have hfr := ($T).hf))

theorem moved_of_same {s s' : St} {f : Frame} {rest : List Frame} {σ : Nat} (hs : Same s s') (hf : s.frames = f :: rest)
    (hsp : s'.sp = σ) : Moved s f rest f.ip σ s' :=
  ⟨hs.1.trans hf, hsp, hs.2.1, hs.2.2.1, hs.2.2.2⟩

end P2sh.Props.Bcv
