import P2sh.Model.MainLoop
/-!
# C20 — filter mode: the stream loop

A model of `run_filters` with the filters abstracted by their meaning: filter `f` on packet
number `np` (in state `σ`) yields a new state and whether the packet is selected
(`Some true`), not (`Some false`), or fails (`None`: runtime error ⇒ the loop stops).
-/
namespace P2sh.Props.C20

structure Filter (σ : Type) where
  run : σ → Nat → σ × Option Bool      -- state, NP ↦ new state, selection

/-- all filters on one packet, in source order; `none` = a filter failed (the stream loop stops) -/
def onPacket {σ} (fs : List (Filter σ)) (st : σ) (np : Nat) : σ × Option (List Nat) :=
  fs.foldl (fun (acc : σ × Option (List Nat)) f =>
    match acc with
    | (s, none) => (s, none)
    | (s, some sel) =>
      match f.run s np with
      | (s', some true) => (s', some (sel ++ [np]))
      | (s', some false) => (s', some sel)
      | (s', none) => (s', none)) (st, some [])

/-- the `'out` loop of `run_filters`: packets are numbered from `count`; returns the final
state, the selected packet numbers in output order, and the NP the `end` filter sees -/
def streamLoop {σ} (fs : List (Filter σ)) : σ → Nat → List Unit → σ × List Nat × Nat
  | st, count, [] => (st, [], count - 1)
  | st, count, _ :: rest =>
    match onPacket fs st count with
    | (st', some sel) =>
      let (st'', sel', n) := streamLoop fs st' (count + 1) rest
      (st'', sel ++ sel', n)
    | (st', none) => (st', [], count)      -- a failing filter stops the loop; NP stays at this packet

/-- **NP is the 1-based index**: every selected number is the index of a packet of the stream -/
theorem selected_are_indices {σ} (fs : List (Filter σ)) :
    ∀ (pkts : List Unit) (st : σ) (count : Nat),
      ∀ n ∈ (streamLoop fs st count pkts).2.1, count ≤ n ∧ n < count + pkts.length := by
  intro pkts
  induction pkts with
  | nil => intro st count n h; simp [streamLoop] at h
  | cons p rest ih =>
    intro st count n h
    simp only [streamLoop] at h
    -- every number the filters select on this packet is `count`
    have hsel : ∀ (fs' : List (Filter σ)) (acc : σ × Option (List Nat)),
        (∀ l, acc.2 = some l → ∀ m ∈ l, m = count) →
        ∀ l, (fs'.foldl (fun (acc : σ × Option (List Nat)) f =>
          match acc with
          | (s, none) => (s, none)
          | (s, some sel) =>
            match f.run s count with
            | (s', some true) => (s', some (sel ++ [count]))
            | (s', some false) => (s', some sel)
            | (s', none) => (s', none)) acc).2 = some l → ∀ m ∈ l, m = count := by
      intro fs'
      induction fs' with
      | nil => intro acc hacc l hl; exact hacc l hl
      | cons f fs'' ih2 =>
        intro acc hacc l hl
        simp only [List.foldl] at hl
        apply ih2 _ _ l hl
        intro l' hl'
        obtain ⟨s, o⟩ := acc
        cases o with
        | none => simp at hl'
        | some sel =>
          simp only at hl'
          split at hl'
          · simp only [Option.some.injEq] at hl'
            subst hl'
            intro m hm
            simp only [List.mem_append, List.mem_singleton] at hm
            rcases hm with hm | hm
            · exact hacc sel rfl m hm
            · exact hm
          · simp only [Option.some.injEq] at hl'
            subst hl'
            exact hacc sel rfl
          · simp at hl'
    cases hop : onPacket fs st count with
    | mk st' o =>
      rw [hop] at h
      cases o with
      | none => simp at h
      | some sel =>
        simp only [List.mem_append] at h
        rcases h with h | h
        · have := hsel fs (st, some []) (by intro l hl; simp at hl; subst hl; simp) sel (by
            have := hop; unfold onPacket at this; rw [this]) n h
          subst this
          simp
        · have := ih st' (count + 1) n h
          simp only [List.length_cons]
          omega

/-- **the end filter sees the number of packets read** when no filter fails -/
theorem end_np_is_count {σ} (fs : List (Filter σ)) (hok : ∀ s np, ∃ s' b, (onPacket fs s np) = (s', some b)) :
    ∀ (pkts : List Unit) (st : σ) (count : Nat),
      (streamLoop fs st count pkts).2.2 = count + pkts.length - 1 := by
  intro pkts
  induction pkts with
  | nil => intro st count; simp [streamLoop]
  | cons p rest ih =>
    intro st count
    obtain ⟨s', b, h⟩ := hok st count
    simp only [streamLoop, h, ih, List.length_cons]
    omega

/-- **packets are written in input order** -/
theorem selected_sorted {σ} (fs : List (Filter σ)) :
    ∀ (pkts : List Unit) (st : σ) (count : Nat),
      List.Pairwise (· ≤ ·) (streamLoop fs st count pkts).2.1 := by
  intro pkts
  induction pkts with
  | nil => intro st count; simp [streamLoop]
  | cons p rest ih =>
    intro st count
    simp only [streamLoop]
    cases hop : onPacket fs st count with
    | mk st' o =>
      cases o with
      | none => simp
      | some sel =>
        simp only
        rw [List.pairwise_append]
        refine ⟨?_, ih st' (count + 1), ?_⟩
        · -- all entries of `sel` are `count`
          have hall : ∀ m ∈ sel, m = count := by
            intro m hm
            have := selected_are_indices fs [()] st count m (by
              simp only [streamLoop, hop]; simp [hm])
            simp at this; omega
          apply List.pairwise_of_forall_mem_list
          intro a ha b hb
          rw [hall a ha, hall b hb]
          exact Nat.le_refl _
        · intro a ha b hb
          have h1 := selected_are_indices fs [()] st count a (by simp only [streamLoop, hop]; simp [ha])
          have h2 := selected_are_indices fs rest st' (count + 1) b hb
          simp at h1; omega

end P2sh.Props.C20
