import P2sh.Model.MainLoop
import P2sh.Spec.FilterSpec
/-!
# C20 — filter mode: the stream loop

**What is what.**
* **MODEL** of `run_filters` (`src/main.rs`), hand-written from the code: the abstract fold of this
  file (`Ans`, `pstep`, `onPacket`, `streamLoop` — the filters abstracted by what running one yields)
  and, for the bytes, `Model/FilterOut.lean` (`filterOutput`) with the byte-sink loop `streamLoopB` /
  `runFiltersOut` of `Props/C20Bytes.lean`.  A model is not verified against the Rust code by proof:
  it is tied to the real binary by the end-to-end engine `tools/props/c20.py` (selections; stdout
  byte for byte through driver op `filterout`; the failing and the non-boolean paths on fixed programs
  judged against the Python mirror `stream_loop` of this fold).
* **SPECIFICATION**: `FilterSpec.run` (`Spec/FilterSpec.lean`), written from the property statement
  with filters evaluated by the reference semantics `Spec/Ref.lean`; `unc` where the documents are
  silent (runtime error in a filter, non-boolean pattern, `end` reading PL/WL/TSS/TSU, …).
* **What relates them**: `stream_loop_refines` — for runs where the specification is determined
  (`.ok`), it *is* this fold instantiated with the specification's filters.  The theorems about the
  fold alone (`multiplicity`, `failing_filter_keeps_earlier_selections`,
  `nonboolean_result_skips_rest_of_packet`, `np_sequence`, …) are facts about the model; the ones with a
  `FilterSpec.run … = .ok …` hypothesis are facts about the specification.

The model: filter `f` on packet number `np` (in state `σ`) yields a new state and an `Ans`:
`sel true` / `sel false` (`pop_filter_frame = Ok(b)`: the packet is written iff `b`), `fail`
(`push_filter_frame` / `vm.run()` error ⇒ `break 'out`: the stream loop stops) or `skipRest`
(`pop_filter_frame` error "filter expression must evaluate to a boolean" ⇒ a bare `break`: the
remaining filters of this packet are skipped, `count += 1` runs, the next packet is processed).
As in the code, a packet is written the moment a filter selects it: what the filters before a
failing / non-boolean one selected on that packet stays selected; after `fail` the later packets do
not run and the `end` filter still runs, with NP at the failing packet.

* `selected_are_indices`, `end_np_is_count`, `selected_sorted` — the abstract loop;
* `multiplicity` (+ `onPacket_answers`, `hitsPerPacket_numbers`, `hitsPerPacket_length`) — the output
  is, packet by packet, the packet's number once per filter that answered `true` (consecutive copies);
* `failing_filter_keeps_earlier_selections` (+ `cleanRun`, `streamLoop_append_clean`, `onPacket_fail`) —
  `break 'out`: everything selected before, then the failing packet's selections so far; NP stays there;
* `nonboolean_result_skips_rest_of_packet` (+ `onPacket_skipRest`) — the bare `break`: the rest of that
  packet's filters do not run, the stream goes on with the next packet;
* `np_sequence` — the loop with every filter recording `(NP, its position)`: recording changes
  nothing, and when all results are booleans the calls are packets in order × filters in source order;
* `stream_loop_refines` — the executable specification `FilterSpec.run` (the oracle of the
  end-to-end engine) *is* this loop, instantiated with σ := reference state × unread input,
  the packet-variable step `prep` (`set_curr_pkt` + `update_builtin_var`) followed by the
  program's filters run by `FilterSpec.runFilter` in the environment of the non-filter statements;
  the `end` filter runs once in the loop's final state with NP = number of packets;
* for the specification: `order_preserved`, `selected_in_range`, `multiplicity_spec` (the multiplicities
  are `hitsPerPacket`'s: the number of `sel true` answers on each packet), `select_only_actionless`,
  `end_once` (the state is the loop's), `setVars_np`/`prep_np`.
-/
namespace P2sh.Props.C20

/-- what running one filter on the current packet yields, as `run_filters` distinguishes it -/
inductive Ans where
  /-- `pop_filter_frame() = Ok(b)`: the packet is written iff `b` -/
  | sel (b : Bool)
  /-- `push_filter_frame` or `vm.run()` returned an error: `break 'out` — the stream loop ends -/
  | fail
  /-- `pop_filter_frame()` returned an error (the filter's result is not a boolean): a bare `break` —
  only the `for filter in &filters` loop is left: the remaining filters of *this* packet are skipped,
  `count += 1` runs and the next packet is processed -/
  | skipRest
deriving DecidableEq, Repr

structure Filter (σ : Type) where
  run : σ → Nat → σ × Ans      -- state, NP ↦ new state, outcome

/-- where the per-packet loop stands: still running filters, left by the bare `break` (this packet
is done, the stream goes on), or left by `break 'out` (the stream is done) -/
inductive Status where
  | run | skip | stop
deriving DecidableEq, Repr

/-- one filter of the per-packet loop: state, the packet's selections so far (each one is a
packet already written), and the status -/
def pstep {σ} (np : Nat) (acc : σ × List Nat × Status) (f : Filter σ) : σ × List Nat × Status :=
  match acc with
  | (s, sel, .skip) => (s, sel, .skip)
  | (s, sel, .stop) => (s, sel, .stop)
  | (s, sel, .run) =>
    match f.run s np with
    | (s', .sel true) => (s', sel ++ [np], .run)
    | (s', .sel false) => (s', sel, .run)
    | (s', .fail) => (s', sel, .stop)
    | (s', .skipRest) => (s', sel, .skip)

/-- all filters on one packet, in source order: the final state, the selections made (those made
before a failing filter are kept: the packet has been written by then), and how the loop was left -/
def onPacket {σ} (fs : List (Filter σ)) (st : σ) (np : Nat) : σ × List Nat × Status :=
  fs.foldl (pstep np) (st, [], .run)

/-- the `'out` loop of `run_filters`: packets are numbered from `count`; returns the final
state, the selected packet numbers in output order, and the NP the `end` filter sees (the `end`
filter runs after a failure too, with NP still at the failing packet); a packet left by the bare
`break` (`Status.skip`) counts like any other -/
def streamLoop {σ} (fs : List (Filter σ)) : σ → Nat → List Unit → σ × List Nat × Nat
  | st, count, [] => (st, [], count - 1)
  | st, count, _ :: rest =>
    match onPacket fs st count with
    | (st', sel, .stop) => (st', sel, count)   -- `break 'out`; NP stays at this packet
    | (st', sel, _) =>
      let (st'', sel', n) := streamLoop fs st' (count + 1) rest
      (st'', sel ++ sel', n)

/-! ### the loop unfolded -/

theorem streamLoop_nil {σ} (fs : List (Filter σ)) (st : σ) (count : Nat) :
    streamLoop fs st count [] = (st, [], count - 1) := rfl

theorem streamLoop_cons_ok {σ} (fs : List (Filter σ)) (st st' : σ) (count : Nat) (sel : List Nat)
    (rest : List Unit) (u : Unit) (stt : Status) (h : onPacket fs st count = (st', sel, stt))
    (hs : stt ≠ .stop) :
    streamLoop fs st count (u :: rest) =
      ((streamLoop fs st' (count + 1) rest).1, sel ++ (streamLoop fs st' (count + 1) rest).2.1,
       (streamLoop fs st' (count + 1) rest).2.2) := by
  cases stt with
  | stop => exact absurd rfl hs
  | run => simp only [streamLoop, h]
  | skip => simp only [streamLoop, h]

theorem streamLoop_cons_fail {σ} (fs : List (Filter σ)) (st st' : σ) (count : Nat) (sel : List Nat)
    (rest : List Unit) (u : Unit) (h : onPacket fs st count = (st', sel, .stop)) :
    streamLoop fs st count (u :: rest) = (st', sel, count) := by
  simp only [streamLoop, h]

theorem foldl_pstep_halted {σ} (np : Nat) (fs : List (Filter σ)) (s : σ) (sel : List Nat) (stt : Status)
    (h : stt ≠ .run) : fs.foldl (pstep np) (s, sel, stt) = (s, sel, stt) := by
  induction fs with
  | nil => rfl
  | cons f fs ih =>
    cases stt with
    | run => exact absurd rfl h
    | skip => exact ih
    | stop => exact ih

/-- the answers of the filters on one packet, in source order, up to and including the first one
that is not a selection (`fail` or `skipRest`) -/
def answers {σ} : List (Filter σ) → σ → Nat → List Ans
  | [], _, _ => []
  | f :: fs, st, np =>
    match f.run st np with
    | (s', .sel b) => .sel b :: answers fs s' np
    | (_, a) => [a]

/-- how the per-packet loop is left, from the answers -/
def statusOf (as : List Ans) : Status :=
  if .fail ∈ as then .stop else if .skipRest ∈ as then .skip else .run

/-- how one answer leaves the per-packet loop -/
def Ans.status : Ans → Status
  | .sel _ => .run
  | .fail => .stop
  | .skipRest => .skip

theorem pstep_run {σ} (np : Nat) (st s' : σ) (sel : List Nat) (f : Filter σ) (a : Ans)
    (hr : f.run st np = (s', a)) :
    pstep np (st, sel, .run) f =
      (s', (if a = .sel true then sel ++ [np] else sel),
       a.status) := by
  rcases a with (_ | _) | _ | _ <;> simp [pstep, hr, Ans.status]

theorem foldl_pstep_answers {σ} (np : Nat) :
    ∀ (fs : List (Filter σ)) (st : σ) (sel : List Nat),
      (fs.foldl (pstep np) (st, sel, .run)).2 =
        (sel ++ List.replicate ((answers fs st np).count (.sel true)) np,
         statusOf (answers fs st np)) := by
  intro fs
  induction fs with
  | nil => intro st sel; simp [answers, statusOf]
  | cons f fs ih =>
    intro st sel
    rw [List.foldl_cons]
    cases hr : f.run st np with
    | mk s' a =>
      rw [pstep_run np st s' sel f a hr]
      rcases a with (_ | _) | _ | _
      · show (fs.foldl (pstep np) (s', sel, .run)).2 = _
        rw [ih]; simp [answers, hr, statusOf]
      · show (fs.foldl (pstep np) (s', sel ++ [np], .run)).2 = _
        rw [ih]; simp [answers, hr, statusOf, List.replicate_succ]
      · show (fs.foldl (pstep np) (s', sel, .stop)).2 = _
        rw [foldl_pstep_halted _ _ _ _ _ (by decide)]; simp [answers, hr, statusOf]
      · show (fs.foldl (pstep np) (s', sel, .skip)).2 = _
        rw [foldl_pstep_halted _ _ _ _ _ (by decide)]; simp [answers, hr, statusOf]

/-- **multiplicity, one packet**: the packet is selected once per filter that answered `true`
before the first failure / non-boolean result, if any; the status says which of the two it was -/
theorem onPacket_answers {σ} (fs : List (Filter σ)) (st : σ) (np : Nat) :
    (onPacket fs st np).2 =
      (List.replicate ((answers fs st np).count (.sel true)) np, statusOf (answers fs st np)) := by
  rw [onPacket, foldl_pstep_answers]
  simp

theorem onPacket_sel_eq {σ} (fs : List (Filter σ)) (st : σ) (np : Nat) :
    ∀ m ∈ (onPacket fs st np).2.1, m = np := by
  intro m hm
  rw [onPacket_answers] at hm
  exact (List.mem_replicate.mp hm).2


/-- **NP is the 1-based index**: every selected number is the index of a packet of the stream -/
theorem selected_are_indices {σ} (fs : List (Filter σ)) :
    ∀ (pkts : List Unit) (st : σ) (count : Nat),
      ∀ n ∈ (streamLoop fs st count pkts).2.1, count ≤ n ∧ n < count + pkts.length := by
  intro pkts
  induction pkts with
  | nil => intro st count n h; simp [streamLoop] at h
  | cons p rest ih =>
    intro st count n h
    have hall := onPacket_sel_eq fs st count
    cases hop : onPacket fs st count with
    | mk st' r =>
      obtain ⟨sel, stt⟩ := r
      rw [hop] at hall
      by_cases hs : stt = .stop
      · subst hs
        rw [streamLoop_cons_fail _ _ _ _ _ _ _ hop] at h
        have := hall n h
        simp only [List.length_cons]; omega
      · rw [streamLoop_cons_ok _ _ _ _ _ _ _ _ hop hs] at h
        simp only [List.mem_append] at h
        rcases h with h | h
        · have := hall n h
          simp only [List.length_cons]; omega
        · have := ih st' (count + 1) n h
          simp only [List.length_cons]; omega

/-- **the end filter sees the number of packets read** when no filter fails (`break 'out`); packets
left through the bare `break` count -/
theorem end_np_is_count {σ} (fs : List (Filter σ))
    (hok : ∀ s np, (onPacket fs s np).2.2 ≠ .stop) :
    ∀ (pkts : List Unit) (st : σ) (count : Nat),
      (streamLoop fs st count pkts).2.2 = count + pkts.length - 1 := by
  intro pkts
  induction pkts with
  | nil => intro st count; simp [streamLoop]
  | cons p rest ih =>
    intro st count
    have h := hok st count
    cases hop : onPacket fs st count with
    | mk st' r =>
      obtain ⟨sel, stt⟩ := r
      rw [hop] at h
      rw [streamLoop_cons_ok _ _ _ _ _ _ _ _ hop h]
      simp only [ih, List.length_cons]
      omega

/-- **packets are written in input order** -/
theorem selected_sorted {σ} (fs : List (Filter σ)) :
    ∀ (pkts : List Unit) (st : σ) (count : Nat),
      List.Pairwise (· ≤ ·) (streamLoop fs st count pkts).2.1 := by
  intro pkts
  induction pkts with
  | nil => intro st count; simp [streamLoop]
  | cons p rest ih =>
    intro st count
    have hall := onPacket_sel_eq fs st count
    cases hop : onPacket fs st count with
    | mk st' r =>
      obtain ⟨sel, stt⟩ := r
      rw [hop] at hall
      have hsel : List.Pairwise (· ≤ ·) sel := by
        apply List.pairwise_of_forall_mem_list
        intro a ha b hb
        rw [hall a ha, hall b hb]
        exact Nat.le_refl _
      by_cases hs : stt = .stop
      · subst hs
        rw [streamLoop_cons_fail _ _ _ _ _ _ _ hop]
        exact hsel
      · rw [streamLoop_cons_ok _ _ _ _ _ _ _ _ hop hs]
        simp only
        rw [List.pairwise_append]
        refine ⟨hsel, ih st' (count + 1), ?_⟩
        intro a ha b hb
        have h1 := hall a ha
        have h2 := selected_are_indices fs rest st' (count + 1) b hb
        omega

/-! ### multiplicity -/

/-- per packet the loop reached, in order: its number and how many filters answered `true` on it
(before the first failure or non-boolean result) -/
def hitsPerPacket {σ} (fs : List (Filter σ)) : σ → Nat → List Unit → List (Nat × Nat)
  | _, _, [] => []
  | st, count, _ :: rest =>
    match onPacket fs st count with
    | (_, _, .stop) => [(count, (answers fs st count).count (.sel true))]
    | (st', _, _) =>
      (count, (answers fs st count).count (.sel true)) :: hitsPerPacket fs st' (count + 1) rest

theorem hitsPerPacket_cons_ok {σ} (fs : List (Filter σ)) (st st' : σ) (count : Nat) (sel : List Nat)
    (rest : List Unit) (u : Unit) (stt : Status) (h : onPacket fs st count = (st', sel, stt))
    (hs : stt ≠ .stop) :
    hitsPerPacket fs st count (u :: rest) =
      (count, (answers fs st count).count (.sel true)) :: hitsPerPacket fs st' (count + 1) rest := by
  cases stt with
  | stop => exact absurd rfl hs
  | run => simp only [hitsPerPacket, h]
  | skip => simp only [hitsPerPacket, h]

theorem hitsPerPacket_cons_fail {σ} (fs : List (Filter σ)) (st st' : σ) (count : Nat) (sel : List Nat)
    (rest : List Unit) (u : Unit) (h : onPacket fs st count = (st', sel, .stop)) :
    hitsPerPacket fs st count (u :: rest) = [(count, (answers fs st count).count (.sel true))] := by
  simp only [hitsPerPacket, h]

/-- **multiplicity**: the output is, packet by packet in input order, the packet's number
repeated once per filter that answered `true` on it — so the copies of one packet are consecutive -/
theorem multiplicity {σ} (fs : List (Filter σ)) :
    ∀ (pkts : List Unit) (st : σ) (count : Nat),
      (streamLoop fs st count pkts).2.1 =
        (hitsPerPacket fs st count pkts).flatMap (fun ik => List.replicate ik.2 ik.1) := by
  intro pkts
  induction pkts with
  | nil => intro st count; rfl
  | cons u rest ih =>
    intro st count
    have ha := onPacket_answers fs st count
    cases hop : onPacket fs st count with
    | mk st' r =>
      obtain ⟨sel, stt⟩ := r
      rw [hop] at ha
      simp only [Prod.mk.injEq] at ha
      by_cases hs : stt = .stop
      · subst hs
        rw [streamLoop_cons_fail _ _ _ _ _ _ _ hop, hitsPerPacket_cons_fail _ _ _ _ _ _ _ hop]
        simp only [List.flatMap_cons, List.flatMap_nil, List.append_nil, ha.1]
      · rw [streamLoop_cons_ok _ _ _ _ _ _ _ _ hop hs, hitsPerPacket_cons_ok _ _ _ _ _ _ _ _ hop hs]
        simp only [List.flatMap_cons, ih, ha.1]

/-- the packets of `hitsPerPacket` are numbered consecutively from `count` -/
theorem hitsPerPacket_numbers {σ} (fs : List (Filter σ)) :
    ∀ (pkts : List Unit) (st : σ) (count : Nat),
      (hitsPerPacket fs st count pkts).map Prod.fst =
        List.range' count (hitsPerPacket fs st count pkts).length := by
  intro pkts
  induction pkts with
  | nil => intro st count; rfl
  | cons u rest ih =>
    intro st count
    cases hop : onPacket fs st count with
    | mk st' r =>
      obtain ⟨sel, stt⟩ := r
      by_cases hs : stt = .stop
      · subst hs
        rw [hitsPerPacket_cons_fail _ _ _ _ _ _ _ hop]; rfl
      · rw [hitsPerPacket_cons_ok _ _ _ _ _ _ _ _ hop hs]
        simp only [List.map_cons, List.length_cons, ih, List.range'_succ]

/-- … and all packets are there when no filter fails -/
theorem hitsPerPacket_length {σ} (fs : List (Filter σ))
    (hok : ∀ s np, (onPacket fs s np).2.2 ≠ .stop) :
    ∀ (pkts : List Unit) (st : σ) (count : Nat),
      (hitsPerPacket fs st count pkts).length = pkts.length := by
  intro pkts
  induction pkts with
  | nil => intro st count; rfl
  | cons u rest ih =>
    intro st count
    have h := hok st count
    cases hop : onPacket fs st count with
    | mk st' r =>
      obtain ⟨sel, stt⟩ := r
      rw [hop] at h
      rw [hitsPerPacket_cons_ok _ _ _ _ _ _ _ _ hop h]
      simp only [List.length_cons, ih]

/-! ### a failing filter, and a filter whose result is not a boolean -/

/-- the state after `pkts` when no filter fails on them (`none` otherwise); packets left through
the bare `break` are clean in this sense: the stream goes on -/
def cleanRun {σ} (fs : List (Filter σ)) : σ → Nat → List Unit → Option σ
  | st, _, [] => some st
  | st, count, _ :: rest =>
    match onPacket fs st count with
    | (_, _, .stop) => none
    | (st', _, _) => cleanRun fs st' (count + 1) rest

theorem cleanRun_cons_ok {σ} (fs : List (Filter σ)) (st st' : σ) (count : Nat) (sel : List Nat)
    (rest : List Unit) (u : Unit) (stt : Status) (h : onPacket fs st count = (st', sel, stt))
    (hs : stt ≠ .stop) : cleanRun fs st count (u :: rest) = cleanRun fs st' (count + 1) rest := by
  cases stt with
  | stop => exact absurd rfl hs
  | run => simp only [cleanRun, h]
  | skip => simp only [cleanRun, h]

/-- the loop over a prefix on which nothing fails, then the rest -/
theorem streamLoop_append_clean {σ} (fs : List (Filter σ)) (post : List Unit) :
    ∀ (pre : List Unit) (st : σ) (count : Nat) (s1 : σ), cleanRun fs st count pre = some s1 →
      streamLoop fs st count (pre ++ post) =
        ((streamLoop fs s1 (count + pre.length) post).1,
         (streamLoop fs st count pre).2.1 ++ (streamLoop fs s1 (count + pre.length) post).2.1,
         (streamLoop fs s1 (count + pre.length) post).2.2) := by
  intro pre
  induction pre with
  | nil =>
    intro st count s1 h
    simp only [cleanRun, Option.some.injEq] at h
    subst h
    simp [streamLoop_nil]
  | cons u pre ih =>
    intro st count s1 h
    cases hop : onPacket fs st count with
    | mk st' r =>
      obtain ⟨sel, stt⟩ := r
      by_cases hs : stt = .stop
      · subst hs; simp [cleanRun, hop] at h
      · rw [cleanRun_cons_ok _ _ _ _ _ _ _ _ hop hs] at h
        rw [List.cons_append, streamLoop_cons_ok _ _ _ _ _ _ _ _ hop hs,
          streamLoop_cons_ok _ _ _ _ _ _ _ _ hop hs, ih st' (count + 1) s1 h]
        simp only [List.length_cons, List.append_assoc]
        rw [show count + 1 + pre.length = count + (pre.length + 1) by omega]

/-- **failing_filter_keeps_earlier_selections** (`break 'out`: an error from `push_filter_frame` or
`vm.run()`): when the first such failure happens on the packet after `pre`, the result is
everything selected on the earlier packets, then what the filters before the failing one selected
on that packet (it has been written by then); the loop stops there — no later packet is read — and
NP stays at that packet for the `end` filter.  (A filter whose *result* is not a boolean is the
other kind: `nonboolean_result_skips_rest_of_packet`.) -/
theorem failing_filter_keeps_earlier_selections {σ} (fs : List (Filter σ)) (pre post : List Unit)
    (u : Unit) (st s1 s2 : σ) (count : Nat) (sel : List Nat)
    (hclean : cleanRun fs st count pre = some s1)
    (hfail : onPacket fs s1 (count + pre.length) = (s2, sel, .stop)) :
    streamLoop fs st count (pre ++ u :: post) =
      (s2, (streamLoop fs st count pre).2.1 ++ sel, count + pre.length) ∧
    sel = List.replicate ((answers fs s1 (count + pre.length)).count (.sel true)) (count + pre.length) ∧
    Ans.fail ∈ answers fs s1 (count + pre.length) := by
  have := onPacket_answers fs s1 (count + pre.length)
  rw [hfail] at this
  refine ⟨?_, (Prod.mk.inj this).1, ?_⟩
  · rw [streamLoop_append_clean fs _ pre st count s1 hclean, streamLoop_cons_fail _ _ _ _ _ _ _ hfail]
  · have h2 := (Prod.mk.inj this).2
    unfold statusOf at h2
    split at h2
    · assumption
    · split at h2 <;> cases h2

/-- one packet, filters `pre ++ f :: post`: the filters of `pre` all return booleans (from `st` to
`s1`), then `f`'s result is not a boolean: the filters of `post` do not run (the state is `f`'s),
the selections of `pre` stay, the status is `skip` -/
theorem onPacket_skipRest {σ} (pre post : List (Filter σ)) (f : Filter σ) (st s1 s2 : σ) (np : Nat)
    (sel : List Nat) (hpre : onPacket pre st np = (s1, sel, .run)) (hf : f.run s1 np = (s2, .skipRest)) :
    onPacket (pre ++ f :: post) st np = (s2, sel, .skip) := by
  unfold onPacket at hpre ⊢
  rw [List.foldl_append, hpre, List.foldl_cons]
  have : pstep np (s1, sel, .run) f = (s2, sel, .skip) := by simp only [pstep, hf]
  rw [this, foldl_pstep_halted _ _ _ _ _ (by decide)]

/-- … and with `fail` instead: the same, with status `stop` -/
theorem onPacket_fail {σ} (pre post : List (Filter σ)) (f : Filter σ) (st s1 s2 : σ) (np : Nat)
    (sel : List Nat) (hpre : onPacket pre st np = (s1, sel, .run)) (hf : f.run s1 np = (s2, .fail)) :
    onPacket (pre ++ f :: post) st np = (s2, sel, .stop) := by
  unfold onPacket at hpre ⊢
  rw [List.foldl_append, hpre, List.foldl_cons]
  have : pstep np (s1, sel, .run) f = (s2, sel, .stop) := by simp only [pstep, hf]
  rw [this, foldl_pstep_halted _ _ _ _ _ (by decide)]

/-- **nonboolean_result_skips_rest_of_packet** (the bare `break` after `pop_filter_frame` returned
"filter expression must evaluate to a boolean"): when, on the packet after the clean prefix `pre`,
the filters `fpre` return booleans and then `f`'s result is not a boolean, the filters after `f` do
not run on that packet, what `fpre` selected stays selected — and, unlike after a failure, the
stream goes on: the next packet is processed with NP one higher, from the state `f` left, and the
`end` filter sees what the rest of the stream makes of NP -/
theorem nonboolean_result_skips_rest_of_packet {σ} (fpre fpost : List (Filter σ)) (f : Filter σ)
    (pre post : List Unit) (u : Unit) (st s1 s1' s2 : σ) (count : Nat) (sel : List Nat)
    (hclean : cleanRun (fpre ++ f :: fpost) st count pre = some s1)
    (hpre : onPacket fpre s1 (count + pre.length) = (s1', sel, .run))
    (hf : f.run s1' (count + pre.length) = (s2, .skipRest)) :
    onPacket (fpre ++ f :: fpost) s1 (count + pre.length) = (s2, sel, .skip) ∧
    streamLoop (fpre ++ f :: fpost) st count (pre ++ u :: post) =
      ((streamLoop (fpre ++ f :: fpost) s2 (count + pre.length + 1) post).1,
       (streamLoop (fpre ++ f :: fpost) st count pre).2.1 ++ sel ++
         (streamLoop (fpre ++ f :: fpost) s2 (count + pre.length + 1) post).2.1,
       (streamLoop (fpre ++ f :: fpost) s2 (count + pre.length + 1) post).2.2) := by
  have hop := onPacket_skipRest fpre fpost f s1 s1' s2 (count + pre.length) sel hpre hf
  refine ⟨hop, ?_⟩
  rw [streamLoop_append_clean _ _ pre st count s1 hclean,
    streamLoop_cons_ok _ _ _ _ _ _ _ _ hop (by decide)]
  simp only [List.append_assoc]


/-! ### which filter runs with which NP: the loop with a call log -/

/-- the filters numbered from `j`, each recording `(NP, its number)` when it is run -/
def logged {σ} (j : Nat) (f : Filter σ) : Filter (σ × List (Nat × Nat)) :=
  ⟨fun s np => (((f.run s.1 np).1, s.2 ++ [(np, j)]), (f.run s.1 np).2)⟩

def instr {σ} : Nat → List (Filter σ) → List (Filter (σ × List (Nat × Nat)))
  | _, [] => []
  | j, f :: fs => logged j f :: instr (j + 1) fs

theorem foldl_instr {σ} (np : Nat) :
    ∀ (fs : List (Filter σ)) (j : Nat) (st : σ) (log : List (Nat × Nat)) (sel : List Nat),
      ∃ m, m ≤ fs.length ∧
        (instr j fs).foldl (pstep np) ((st, log), sel, .run) =
          (((fs.foldl (pstep np) (st, sel, .run)).1,
            log ++ (List.range' j m).map (fun k => (np, k))),
           (fs.foldl (pstep np) (st, sel, .run)).2) ∧
        ((fs.foldl (pstep np) (st, sel, .run)).2.2 = .run → m = fs.length) := by
  intro fs
  induction fs with
  | nil => intro j st log sel; exact ⟨0, Nat.le_refl _, by simp [instr], fun _ => rfl⟩
  | cons f fs ih =>
    intro j st log sel
    cases hr : f.run st np with
    | mk s' a =>
      have h1 := pstep_run np st s' sel f a hr
      have h2 : pstep np ((st, log), sel, .run) (logged j f) =
          ((s', log ++ [(np, j)]), (if a = .sel true then sel ++ [np] else sel), a.status) :=
        pstep_run np (st, log) (s', log ++ [(np, j)]) sel (logged j f) a (by simp [logged, hr])
      by_cases ha : a.status = .run
      · rw [ha] at h1 h2
        obtain ⟨m, hm, he, hfull⟩ :=
          ih (j + 1) s' (log ++ [(np, j)]) (if a = .sel true then sel ++ [np] else sel)
        refine ⟨m + 1, by simp; omega, ?_, ?_⟩
        · simp only [instr, List.foldl_cons]
          rw [h1, h2, he]
          simp [List.range'_succ]
        · intro hne
          rw [List.foldl_cons, h1] at hne
          simp [hfull hne]
      · refine ⟨1, by simp, ?_, ?_⟩
        · simp only [instr, List.foldl_cons]
          rw [h1, h2, foldl_pstep_halted _ _ _ _ _ ha, foldl_pstep_halted _ _ _ _ _ ha]
          simp
        · intro hne
          rw [List.foldl_cons, h1, foldl_pstep_halted _ _ _ _ _ ha] at hne
          exact absurd hne ha

/-- **np_sequence**: recording the calls changes nothing (first part), and when every filter
returns a boolean on every packet the calls are: for each packet `i` in order, filters `0 … n-1`
in source order, each with NP = `i` -/
theorem np_sequence {σ} (fs : List (Filter σ)) :
    ∀ (pkts : List Unit) (st : σ) (log : List (Nat × Nat)) (count : Nat),
      ∃ calls,
        streamLoop (instr 0 fs) (st, log) count pkts =
          (((streamLoop fs st count pkts).1, log ++ calls),
           (streamLoop fs st count pkts).2.1, (streamLoop fs st count pkts).2.2) ∧
        ((∀ s np, (onPacket fs s np).2.2 = .run) →
          calls = (List.range' count pkts.length).flatMap
            (fun i => (List.range' 0 fs.length).map (fun j => (i, j)))) := by
  intro pkts
  induction pkts with
  | nil => intro st log count; exact ⟨[], by simp [streamLoop], fun _ => rfl⟩
  | cons u rest ih =>
    intro st log count
    obtain ⟨m, hm, he, hfull⟩ := foldl_instr count fs 0 st log []
    change onPacket (instr 0 fs) (st, log) count = ((((onPacket fs st count).1), _), (onPacket fs st count).2) at he
    change (onPacket fs st count).2.2 = .run → _ at hfull
    cases hop : onPacket fs st count with
    | mk st' r =>
      obtain ⟨sel, stt⟩ := r
      rw [hop] at he hfull
      by_cases hs : stt = .stop
      · subst hs
        refine ⟨(List.range' 0 m).map (fun k => (count, k)), ?_, ?_⟩
        · rw [streamLoop_cons_fail _ _ _ _ _ _ _ he, streamLoop_cons_fail _ _ _ _ _ _ _ hop]
        · intro hok
          have := hok st count
          rw [hop] at this; cases this
      · obtain ⟨calls, hc, hcf⟩ := ih st' (log ++ (List.range' 0 m).map (fun k => (count, k))) (count + 1)
        refine ⟨(List.range' 0 m).map (fun k => (count, k)) ++ calls, ?_, ?_⟩
        · rw [streamLoop_cons_ok _ _ _ _ _ _ _ _ he hs, streamLoop_cons_ok _ _ _ _ _ _ _ _ hop hs, hc]
          simp
        · intro hok
          have hrun := hok st count
          rw [hop] at hrun
          have hmf := hfull hrun
          subst hmf
          rw [hcf hok]
          simp [List.range'_succ]

/-! ## the specification is the stream loop -/
open P2sh P2sh.Ref P2sh.FilterSpec


/-! ## the specification's filters as filters of the stream loop -/

/-- the state of the loop: the reference-semantics state and the unread input -/
abbrev LoopSt := St × List Pkt

/-- reading the next packet and setting NP, PL, WL, TSS, TSU (`set_curr_pkt`, `update_builtin_var`):
the step before the filters; it selects nothing; with no input left the loop stops -/
def prep : Filter LoopSt :=
  ⟨fun s np => match s.2 with
    | pk :: rest => ((setVars s.1 (.int (Int64.ofNat np)) (some pk), rest), .sel false)
    | [] => (s, .fail)⟩

/-- the specification's answer as an answer of the loop; `none` (the documents do not determine the
outcome: the whole run is `unc`) never occurs in an `.ok` run — it is mapped to `fail` -/
def ansOf : Option Bool → Ans
  | some b => .sel b
  | none => .fail

/-- a filter of the program, run by the specification's `runFilter` in the environment the
non-filter statements left -/
def filterOf (env : Env) (f : FPat × Option Block) : Filter LoopSt :=
  ⟨fun s _ => (((runFilter env s.1 f.1 f.2).2, s.2), ansOf (runFilter env s.1 f.1 f.2).1)⟩

def plainOf (p : Program) : List Stmt :=
  p.stmts.filter fun s => match s with | .filter .. => false | _ => true

def filterList (p : Program) : List (FPat × Option Block) :=
  p.stmts.filterMap fun s => match s with
    | .filter _ pat act => (match pat with | .fend => none | _ => some (pat, act))
    | _ => none

def endsOf (p : Program) : List (Option Block) :=
  p.stmts.filterMap fun s => match s with
    | .filter _ .fend act => some act
    | _ => none

def filtersOf (env : Env) (p : Program) : List (Filter LoopSt) :=
  prep :: (filterList p).map (filterOf env)

/-- the non-filter statements, once: the environment and state the stream loop starts from -/
def initOf (p : Program) : Option (Env × St) :=
  match (evalStmts fuel [[]] (plainOf p) .null).run.run {} with
  | (.ok (.normal, _, env), st0) => some (env, st0)
  | _ => none

/-- the specification's inner loop is the fold of `onPacket` over the program's filters -/
theorem each_fold (env : Env) (idx : Nat) (input : List Pkt) :
    ∀ (fs : List (FPat × Option Block)) (st : St) (sel acc : List Nat) (st' : St) (sel' : List Nat),
      FilterSpec.run.loop.each env idx fs st sel = some (st', sel') →
      ∃ new, sel' = sel ++ new ∧
        (fs.map (filterOf env)).foldl (pstep idx) ((st, input), acc, .run)
          = ((st', input), acc ++ new, .run) := by
  intro fs
  induction fs with
  | nil =>
    intro st sel acc st' sel' h
    simp only [FilterSpec.run.loop.each, Option.some.injEq, Prod.mk.injEq] at h
    obtain ⟨rfl, rfl⟩ := h
    exact ⟨[], by simp, by simp⟩
  | cons f more ih =>
    intro st sel acc st' sel' h
    obtain ⟨pat, act⟩ := f
    rw [FilterSpec.run.loop.each] at h
    cases hr : runFilter env st pat act with
    | mk r st1 =>
      rw [hr] at h
      have hstep : ∀ b, r = some b → pstep idx ((st, input), acc, .run) (filterOf env (pat, act)) =
          ((st1, input), (if b then acc ++ [idx] else acc), .run) := by
        intro b hb
        subst hb
        simp only [pstep, filterOf, hr, ansOf]
        cases b <;> rfl
      cases r with
      | none => simp at h
      | some b =>
        cases b with
        | true =>
          simp only at h
          obtain ⟨new, h1, h2⟩ := ih st1 (sel ++ [idx]) (acc ++ [idx]) st' sel' h
          refine ⟨idx :: new, by simp [h1], ?_⟩
          rw [List.map_cons, List.foldl_cons, hstep true rfl, if_pos rfl, h2]
          simp
        | false =>
          simp only at h
          obtain ⟨new, h1, h2⟩ := ih st1 sel acc st' sel' h
          refine ⟨new, h1, ?_⟩
          rw [List.map_cons, List.foldl_cons, hstep false rfl, if_neg (by decide), h2]


theorem onPacket_spec (env : Env) (fs : List (FPat × Option Block)) (idx : Nat) (st : St) (pk : Pkt)
    (rest : List Pkt) (sel : List Nat) (st' : St) (sel' : List Nat)
    (h : FilterSpec.run.loop.each env idx fs (setVars st (.int (Int64.ofNat idx)) (some pk)) sel
      = some (st', sel')) :
    ∃ new, sel' = sel ++ new ∧
      onPacket (prep :: fs.map (filterOf env)) (st, pk :: rest) idx = ((st', rest), new, .run) := by
  obtain ⟨new, h1, h2⟩ := each_fold env idx rest fs _ sel [] st' sel' h
  refine ⟨new, h1, ?_⟩
  rw [onPacket, List.foldl_cons]
  have : pstep idx ((st, pk :: rest), [], .run) prep =
      ((setVars st (.int (Int64.ofNat idx)) (some pk), rest), [], .run) := rfl
  rw [this, h2]
  simp

/-- the specification's outer loop is `streamLoop` -/
theorem loop_streamLoop (env : Env) (fs : List (FPat × Option Block)) :
    ∀ (pkts : List Pkt) (idx : Nat) (st : St) (sel : List Nat) (st1 : St) (selF : List Nat),
      FilterSpec.run.loop fs env pkts idx st sel = some (st1, selF) →
      selF = sel ++ (streamLoop (prep :: fs.map (filterOf env)) (st, pkts) idx (pkts.map fun _ => ())).2.1 ∧
      (streamLoop (prep :: fs.map (filterOf env)) (st, pkts) idx (pkts.map fun _ => ())).1 = (st1, []) ∧
      (streamLoop (prep :: fs.map (filterOf env)) (st, pkts) idx (pkts.map fun _ => ())).2.2
        = idx + pkts.length - 1 ∧
      (hitsPerPacket (prep :: fs.map (filterOf env)) (st, pkts) idx (pkts.map fun _ => ())).length
        = pkts.length := by
  intro pkts
  induction pkts with
  | nil =>
    intro idx st sel st1 selF h
    simp only [FilterSpec.run.loop, Option.some.injEq, Prod.mk.injEq] at h
    obtain ⟨rfl, rfl⟩ := h
    simp [streamLoop_nil, hitsPerPacket]
  | cons pk rest ih =>
    intro idx st sel st1 selF h
    rw [FilterSpec.run.loop] at h
    cases he : FilterSpec.run.loop.each env idx fs (setVars st (.int (Int64.ofNat idx)) (some pk)) sel with
    | none => rw [he] at h; simp at h
    | some r =>
      obtain ⟨st', sel'⟩ := r
      rw [he] at h
      simp only [] at h
      obtain ⟨new, h1, h2⟩ := onPacket_spec env fs idx st pk rest sel st' sel' he
      obtain ⟨i1, i2, i3, i4⟩ := ih (idx + 1) st' sel' st1 selF h
      rw [List.map_cons, streamLoop_cons_ok _ _ _ _ _ _ _ _ h2 (by decide)]
      refine ⟨?_, i2, ?_, ?_⟩
      · rw [i1, h1, List.append_assoc]
      · simp only [i3, List.length_cons]; omega
      · rw [hitsPerPacket_cons_ok _ _ _ _ _ _ _ _ h2 (by decide)]
        simp only [List.length_cons, i4]


/-- the `.ok` outcomes of the specification, taken apart: the non-filter statements ran, its
loop returned, and the `end` filters are none (then nothing more runs) or one (which runs once) -/
theorem run_ok (p : Program) (pkts : List Pkt) (sel : List Nat) (out : List String)
    (e : Bool) (h : FilterSpec.run p pkts = .ok sel out e) :
    ∃ env st0 st1, initOf p = some (env, st0) ∧
      FilterSpec.run.loop (filterList p) env pkts 1 st0 [] = some (st1, sel) ∧
      (match endsOf p with
       | [] => e = false ∧ out = st1.out.reverse
       | [act] => e = true ∧ ∃ b st2,
           runFilter env (setVars st1 (.int (Int64.ofNat pkts.length)) none) .fend act = (some b, st2) ∧
           out = st2.out.reverse
       | _ => False) := by
  unfold FilterSpec.run at h
  split at h
  · cases h
  · simp only [] at h
    split at h
    · rename_i x env st0 hinit
      have hi : initOf p = some (env, st0) := by
        have h' : (evalStmts fuel [[]] (plainOf p) .null).run.run {} = (.ok (.normal, x, env), st0) := hinit
        unfold initOf
        rw [h']
      split at h
      · cases h
      · rename_i st1 sel' hloop
        have hends : ∀ (es : List (Option Block)),
            (match es with
            | [] => Outcome.ok sel' st1.out.reverse false
            | [act] =>
              match runFilter env (setVars st1 (Val.int (Int64.ofNat pkts.length)) none) FPat.fend act with
              | (some _, st2) => Outcome.ok sel' st2.out.reverse true
              | (none, _) => Outcome.unc
            | _ => Outcome.unc) = Outcome.ok sel out e →
            sel' = sel ∧
            (match es with
             | [] => e = false ∧ out = st1.out.reverse
             | [act] => e = true ∧ ∃ b st2,
                 runFilter env (setVars st1 (.int (Int64.ofNat pkts.length)) none) .fend act = (some b, st2) ∧
                 out = st2.out.reverse
             | _ => False) := by
          intro es hm
          match es, hm with
          | [], hm =>
            simp only [Outcome.ok.injEq] at hm
            exact ⟨hm.1, hm.2.2.symm, hm.2.1.symm⟩
          | [act], hm =>
            simp only [] at hm
            split at hm
            · rename_i b st2 hrun
              simp only [Outcome.ok.injEq] at hm
              exact ⟨hm.1, hm.2.2.symm, b, st2, hrun, hm.2.1.symm⟩
            · cases hm
          | _ :: _ :: _, hm => cases hm
        obtain ⟨e1, e2⟩ := hends (endsOf p) h
        subst e1
        exact ⟨env, st0, st1, hi, hloop, e2⟩
    · cases h

/-- **stream_loop_refines**: where the specification fixes the outcome, it is the stream loop
over the program's filters (after the packet-variable step `prep`), started in the state the
non-filter statements left, with the packets numbered from 1: the selection is the loop's, all
input is consumed, the NP left for `end` is the number of packets, and `end` — if there is
one — runs exactly once, in the loop's final state with NP = that number -/
theorem stream_loop_refines (p : Program) (pkts : List Pkt) (sel : List Nat) (out : List String)
    (e : Bool) (h : FilterSpec.run p pkts = .ok sel out e) :
    ∃ env st0, initOf p = some (env, st0) ∧
      let r := streamLoop (filtersOf env p) (st0, pkts) 1 (pkts.map fun _ => ())
      sel = r.2.1 ∧ r.1.2 = [] ∧ r.2.2 = pkts.length ∧
      (match endsOf p with
       | [] => e = false ∧ out = r.1.1.out.reverse
       | [act] => e = true ∧ ∃ b st2,
           runFilter env (setVars r.1.1 (.int (Int64.ofNat r.2.2)) none) .fend act = (some b, st2) ∧
           out = st2.out.reverse
       | _ => False) := by
  obtain ⟨env, st0, st1, hi, hloop, hend⟩ := run_ok p pkts sel out e h
  refine ⟨env, st0, hi, ?_⟩
  obtain ⟨l1, l2, l3, _⟩ := loop_streamLoop env (filterList p) pkts 1 st0 [] st1 sel hloop
  have l3' : (streamLoop (filtersOf env p) (st0, pkts) 1 (pkts.map fun _ => ())).2.2 = pkts.length := by
    rw [filtersOf, l3]; omega
  have l2' : (streamLoop (filtersOf env p) (st0, pkts) 1 (pkts.map fun _ => ())).1 = (st1, []) := l2
  simp only [List.nil_append] at l1
  show _ ∧ _ ∧ _ ∧ _
  rw [l3', l2']
  exact ⟨l1, rfl, rfl, hend⟩

/-! ## what the property names, for the specification -/

/-- **order_preserved**: packets are written in input order -/
theorem order_preserved (p : Program) (pkts : List Pkt) (sel : List Nat) (out : List String)
    (e : Bool) (h : FilterSpec.run p pkts = .ok sel out e) : sel.Pairwise (· ≤ ·) := by
  obtain ⟨env, st0, _, hr⟩ := stream_loop_refines p pkts sel out e h
  rw [hr.1]
  exact selected_sorted _ _ _ _

/-- every selected number is the 1-based index of a packet of the input -/
theorem selected_in_range (p : Program) (pkts : List Pkt) (sel : List Nat) (out : List String)
    (e : Bool) (h : FilterSpec.run p pkts = .ok sel out e) : ∀ n ∈ sel, 1 ≤ n ∧ n ≤ pkts.length := by
  obtain ⟨env, st0, _, hr⟩ := stream_loop_refines p pkts sel out e h
  intro n hn
  rw [hr.1] at hn
  have := selected_are_indices _ _ _ _ n hn
  simp only [List.length_map] at this
  omega

/-- only a filter without action can select: `runFilter` answers `true` for those alone -/
theorem select_only_actionless (env : Env) (st : St) (pat : FPat) (act : Option Block)
    (h : (runFilter env st pat act).1 = some true) : act = none := by
  cases act with
  | none => rfl
  | some b =>
    exfalso
    unfold runFilter at h
    simp only [] at h
    repeat' split at h
    all_goals first | cases h | skip

/-- what `hitsPerPacket` lists: for every packet `i` the loop reached, the number of `sel true`
answers of the filters run on it, from the state the (clean) run over the packets before it left -/
theorem hitsPerPacket_mem {σ} (fs : List (Filter σ)) :
    ∀ (pkts : List Unit) (st : σ) (count : Nat) (ik : Nat × Nat), ik ∈ hitsPerPacket fs st count pkts →
      count ≤ ik.1 ∧ ∃ si, cleanRun fs st count (pkts.take (ik.1 - count)) = some si ∧
        ik.2 = (answers fs si ik.1).count (.sel true) := by
  intro pkts
  induction pkts with
  | nil => intro st count ik h; simp [hitsPerPacket] at h
  | cons u rest ih =>
    intro st count ik h
    cases hop : onPacket fs st count with
    | mk st' r =>
      obtain ⟨sel, stt⟩ := r
      have hhead : ik = (count, (answers fs st count).count (.sel true)) →
          count ≤ ik.1 ∧ ∃ si, cleanRun fs st count ((u :: rest).take (ik.1 - count)) = some si ∧
            ik.2 = (answers fs si ik.1).count (.sel true) := by
        intro he
        subst he
        exact ⟨Nat.le_refl _, st, by simp [cleanRun], rfl⟩
      by_cases hs : stt = .stop
      · subst hs
        rw [hitsPerPacket_cons_fail _ _ _ _ _ _ _ hop] at h
        exact hhead (by simpa using h)
      · rw [hitsPerPacket_cons_ok _ _ _ _ _ _ _ _ hop hs] at h
        rcases List.mem_cons.mp h with h | h
        · exact hhead h
        · obtain ⟨h1, si, h2, h3⟩ := ih st' (count + 1) ik h
          refine ⟨by omega, si, ?_, h3⟩
          rw [show ik.1 - count = (ik.1 - (count + 1)) + 1 by omega, List.take_succ_cons,
            cleanRun_cons_ok _ _ _ _ _ _ _ _ hop hs]
          exact h2

/-- **multiplicity** for the specification, with the multiplicities named: with
`hp := hitsPerPacket (filtersOf env p) …` — for each packet its number and the number of filters that
answered `sel true` on it (`hitsPerPacket_mem`) — the packets listed are 1, 2, …, n and the selection
is, in that order, each packet's number repeated that many times (consecutively); the filters that
answer `true` are action-less (`select_only_actionless`) -/
theorem multiplicity_spec (p : Program) (pkts : List Pkt) (sel : List Nat) (out : List String)
    (e : Bool) (h : FilterSpec.run p pkts = .ok sel out e) :
    ∃ env st0, initOf p = some (env, st0) ∧
      (hitsPerPacket (filtersOf env p) (st0, pkts) 1 (pkts.map fun _ => ())).map Prod.fst
        = List.range' 1 pkts.length ∧
      sel = (hitsPerPacket (filtersOf env p) (st0, pkts) 1 (pkts.map fun _ => ())).flatMap
        (fun ik => List.replicate ik.2 ik.1) ∧
      sel = ((List.range' 1 pkts.length).zip
          ((hitsPerPacket (filtersOf env p) (st0, pkts) 1 (pkts.map fun _ => ())).map Prod.snd)).flatMap
        (fun ik => List.replicate ik.2 ik.1) := by
  obtain ⟨env, st0, st1, hi, hloop, hend⟩ := run_ok p pkts sel out e h
  obtain ⟨l1, _, _, l4⟩ := loop_streamLoop env (filterList p) pkts 1 st0 [] st1 sel hloop
  simp only [List.nil_append] at l1
  have hm := multiplicity (prep :: (filterList p).map (filterOf env)) (pkts.map fun _ => ()) (st0, pkts) 1
  have hn := hitsPerPacket_numbers (prep :: (filterList p).map (filterOf env)) (pkts.map fun _ => ()) (st0, pkts) 1
  refine ⟨env, st0, hi, ?_⟩
  show _ ∧ _ ∧ _
  unfold filtersOf
  generalize hitsPerPacket (prep :: (filterList p).map (filterOf env)) (st0, pkts) 1 (pkts.map fun _ => ()) = hp at *
  rw [l4] at hn
  refine ⟨hn, by rw [l1, hm], ?_⟩
  rw [l1, hm]
  congr 1
  exact List.zip_of_prod hn rfl

/-- **end_once**: with `r` the specification's stream loop over the program's filters from the state
the non-filter statements left: a program without `end` filter prints what the loop's final state
`r.1.1` holds; a program with one runs it exactly once, in that state with NP = the number of packets
read (and PL, WL, TSS, TSU unset), and prints what its final state holds; a program with two `end`
filters is outside the specification -/
theorem end_once (p : Program) (pkts : List Pkt) (sel : List Nat) (out : List String)
    (e : Bool) (h : FilterSpec.run p pkts = .ok sel out e) :
    ∃ env st0, initOf p = some (env, st0) ∧
      ((e = false ∧ endsOf p = [] ∧
        out = (streamLoop (filtersOf env p) (st0, pkts) 1 (pkts.map fun _ => ())).1.1.out.reverse) ∨
       (e = true ∧ ∃ act, endsOf p = [act] ∧
        (runFilter env (setVars (streamLoop (filtersOf env p) (st0, pkts) 1 (pkts.map fun _ => ())).1.1
          (.int (Int64.ofNat pkts.length)) none) .fend act).1.isSome ∧
        out = (runFilter env (setVars (streamLoop (filtersOf env p) (st0, pkts) 1 (pkts.map fun _ => ())).1.1
          (.int (Int64.ofNat pkts.length)) none) .fend act).2.out.reverse)) := by
  obtain ⟨env, st0, hi, hr⟩ := stream_loop_refines p pkts sel out e h
  refine ⟨env, st0, hi, ?_⟩
  obtain ⟨_, _, hnp, hend⟩ := hr
  rw [hnp] at hend
  match hes : endsOf p, hend with
  | [], hend => exact Or.inl ⟨hend.1, rfl, hend.2⟩
  | [act], hend =>
    obtain ⟨he, b, st2, hrun, ho⟩ := hend
    exact Or.inr ⟨he, act, rfl, by rw [hrun]; rfl, by rw [hrun]; exact ho⟩
  | _ :: _ :: _, hend => exact hend.elim

/-- the packet-variable step makes NP the packet's number, and `end` sees the number it is given -/
theorem setVars_np (st : St) (np : Val) (pk : Option Pkt) :
    (setVars st np pk).bvars.lookup "NP" = some np := by
  cases pk <;> rfl

/-- in `end` only NP is set: reading PL, WL, TSS, TSU there is outside the specification -/
theorem setVars_end (st : St) (np : Val) : (setVars st np none).bvars = [("NP", np)] := rfl

theorem prep_np (st : St) (pk : Pkt) (rest : List Pkt) (np : Nat) :
    (prep.run (st, pk :: rest) np).1.1.bvars.lookup "NP" = some (.int (Int64.ofNat np)) ∧
    (prep.run (st, pk :: rest) np).1.2 = rest ∧ (prep.run (st, pk :: rest) np).2 = .sel false :=
  ⟨setVars_np _ _ _, rfl, rfl⟩

/-! ## non-vacuity -/

section Examples

/-- toy filters over a call counter: `always` selects every packet, `second` only packet 2,
`failAt3` fails on packet 3 -/
def always : Filter Nat := ⟨fun s _ => (s + 1, .sel true)⟩
def second : Filter Nat := ⟨fun s np => (s + 1, .sel (np == 2))⟩
def failAt3 : Filter Nat := ⟨fun s np => (s + 1, if np == 3 then .fail else .sel false)⟩
/-- the result on packet 2 is not a boolean -/
def nonBoolAt2 : Filter Nat := ⟨fun s np => (s + 1, if np == 2 then .skipRest else .sel false)⟩

-- 3 packets × 2 filters: packet 2 is written twice, consecutively; `end` would see NP = 3; 6 calls
example : streamLoop [always, second] 0 1 [(), (), ()] = (6, [1, 2, 2, 3], 3) := by decide
example : answers [always, second] 2 2 = [.sel true, .sel true] := by decide
example : hitsPerPacket [always, second] 0 1 [(), (), ()] = [(1, 1), (2, 2), (3, 1)] := by decide
-- the call sequence: (NP, filter) in packet order, then source order
example : (streamLoop (instr 0 [always, second]) (0, []) 1 [(), (), ()]).1.2
    = [(1, 0), (1, 1), (2, 0), (2, 1), (3, 0), (3, 1)] := by decide
-- a failing filter stops the stream: packet 3 was selected by `always` before `failAt3` failed on
-- it and stays selected (it has been written); `second` does not run on it; packet 4 is not read;
-- `end` would see NP = 3
example : streamLoop [always, failAt3, second] 0 1 [(), (), (), ()] = (8, [1, 2, 2, 3], 3) := by decide
example : onPacket [always, failAt3, second] 6 3 = (8, [3], .stop) := by decide
example : cleanRun [always, failAt3, second] 0 1 [(), ()] = some 6 := by decide
example : hitsPerPacket [always, failAt3, second] 0 1 [(), (), (), ()] = [(1, 1), (2, 2), (3, 1)] := by decide
-- … as `failing_filter_keeps_earlier_selections` says (pre = 2 packets, failure on the third)
example : streamLoop [always, failAt3, second] 0 1 ([(), ()] ++ () :: [()]) =
    (8, (streamLoop [always, failAt3, second] 0 1 [(), ()]).2.1 ++ [3], 1 + 2) :=
  (failing_filter_keeps_earlier_selections [always, failAt3, second] [(), ()] [()] () 0 6 8 1 [3]
    (by decide) (by decide)).1
example : (streamLoop (instr 0 [always, failAt3, second]) (0, []) 1 [(), (), (), ()]).1.2
    = [(1, 0), (1, 1), (1, 2), (2, 0), (2, 1), (2, 2), (3, 0), (3, 1)] := by decide

-- a result that is not a boolean (bare `break`): on packet 2 `always` has selected it, `nonBoolAt2` ends
-- that packet — `second` does not run on it (it would have selected it again) — and the stream goes on:
-- packets 3 and 4 are processed, `end` would see NP = 4; 3 + 2 + 3 + 3 = 11 calls
example : streamLoop [always, nonBoolAt2, second] 0 1 [(), (), (), ()] = (11, [1, 2, 3, 4], 4) := by decide
example : onPacket [always, nonBoolAt2, second] 3 2 = (5, [2], .skip) := by decide
example : answers [always, nonBoolAt2, second] 3 2 = [.sel true, .skipRest] := by decide
example : hitsPerPacket [always, nonBoolAt2, second] 0 1 [(), (), (), ()] = [(1, 1), (2, 1), (3, 1), (4, 1)] := by decide
-- … as `nonboolean_result_skips_rest_of_packet` says (clean prefix = 1 packet, then the non-boolean result)
example : streamLoop ([always] ++ nonBoolAt2 :: [second]) 0 1 ([()] ++ () :: [(), ()]) =
    ((streamLoop [always, nonBoolAt2, second] 5 3 [(), ()]).1,
     (streamLoop [always, nonBoolAt2, second] 0 1 [()]).2.1 ++ [2] ++ (streamLoop [always, nonBoolAt2, second] 5 3 [(), ()]).2.1,
     (streamLoop [always, nonBoolAt2, second] 5 3 [(), ()]).2.2) :=
  (nonboolean_result_skips_rest_of_packet [always] [second] nonBoolAt2 [()] [(), ()] () 0 3 4 5 1 [2]
    (by decide) (by decide) (by decide)).2
-- the two kinds side by side, same position: `fail` stops the stream at packet 3, `skipRest` does not
example : (streamLoop [always, failAt3, second] 0 1 [(), (), (), ()]).2 = ([1, 2, 2, 3], 3) := by decide
example : (streamLoop [always, nonBoolAt2, second] 0 1 [(), (), (), ()]).2 = ([1, 2, 3, 4], 4) := by decide
example : (streamLoop (instr 0 [always, nonBoolAt2, second]) (0, []) 1 [(), (), ()]).1.2
    = [(1, 0), (1, 1), (1, 2), (2, 0), (2, 1), (3, 0), (3, 1), (3, 2)] := by decide

deriving instance DecidableEq for FilterSpec.Outcome

def exPkts : List Pkt := [⟨0, 0, 60, 60⟩, ⟨1, 0, 60, 60⟩, ⟨2, 0, 42, 42⟩]
def putsS (l : Nat) (s : String) : Stmt := .exprS l (.call l (.ident l "puts" .get) [.str l s])
/-- `let n = 0; true; NP == 2; PL > 50 { n = n + 1 }; end { if NP == 3 {puts(…)} if n == 2 {puts(…)} }` -/
def exProg : Program := ⟨[
  .letS 1 0 "n" (.int 1 0),
  .filter 2 (.expr (.bool 2 true)) none,
  .filter 3 (.expr (.binary 3 "==" (.ident 3 "NP" .get) (.int 3 2))) none,
  .filter 4 (.expr (.binary 4 ">" (.ident 4 "PL" .get) (.int 4 50)))
    (some (.mk 4 [.exprS 4 (.assign 4 (.ident 4 "n" .set) (.binary 4 "+" (.ident 4 "n" .get) (.int 4 1)))])),
  .filter 5 .fend (some (.mk 5 [
    .exprS 5 (.ifE 5 (.binary 5 "==" (.ident 5 "NP" .get) (.int 5 3)) (.mk 5 [putsS 5 "NP is 3"]) .none),
    .exprS 6 (.ifE 6 (.binary 6 "==" (.ident 6 "n" .get) (.int 6 2)) (.mk 6 [putsS 6 "two big packets"]) .none)]))]⟩

/-- the specification on 3 packets × 3 filters + `end`: packet 2 twice, the action filter selects
nothing but counts the two 60-byte packets, `end` runs once with NP = 3 -/
theorem exRun : FilterSpec.run exProg exPkts = .ok [1, 2, 2, 3] ["NP is 3", "two big packets"] true := by
  decide +kernel

example : filterList exProg = [(.expr (.bool 2 true), none),
    (.expr (.binary 3 "==" (.ident 3 "NP" .get) (.int 3 2)), none),
    (.expr (.binary 4 ">" (.ident 4 "PL" .get) (.int 4 50)),
      some (.mk 4 [.exprS 4 (.assign 4 (.ident 4 "n" .set) (.binary 4 "+" (.ident 4 "n" .get) (.int 4 1)))]))] := rfl
example : (endsOf exProg).length = 1 := rfl

-- the theorems apply to it (their hypothesis is satisfiable)
example : ∃ env st0, initOf exProg = some (env, st0) ∧
    [1, 2, 2, 3] = (streamLoop (filtersOf env exProg) (st0, exPkts) 1 [(), (), ()]).2.1 := by
  obtain ⟨env, st0, h0, h1, _⟩ := stream_loop_refines _ _ _ _ _ exRun
  exact ⟨env, st0, h0, h1⟩
example : ∃ env st0, initOf exProg = some (env, st0) ∧
    [1, 2, 2, 3] = ((List.range' 1 3).zip
      ((hitsPerPacket (filtersOf env exProg) (st0, exPkts) 1 [(), (), ()]).map Prod.snd)).flatMap
        (fun ik => List.replicate ik.2 ik.1) := by
  obtain ⟨env, st0, h0, _, _, h3⟩ := multiplicity_spec _ _ _ _ _ exRun
  exact ⟨env, st0, h0, h3⟩
example : ∃ env st0, initOf exProg = some (env, st0) ∧ ∃ act, endsOf exProg = [act] ∧
    ["NP is 3", "two big packets"] = (runFilter env (setVars
      (streamLoop (filtersOf env exProg) (st0, exPkts) 1 [(), (), ()]).1.1 (.int 3) none) .fend act).2.out.reverse := by
  obtain ⟨env, st0, h0, h1⟩ := end_once _ _ _ _ _ exRun
  rcases h1 with ⟨he, _⟩ | ⟨_, act, ha, _, ho⟩
  · cases he
  · exact ⟨env, st0, h0, act, ha, ho⟩
-- an `end` filter that reads TSS (or PL, WL, TSU) is outside the specification
example : FilterSpec.run ⟨[.filter 1 (.expr (.bool 1 true)) none,
    .filter 2 .fend (some (.mk 2 [.exprS 2 (.call 2 (.ident 2 "puts" .get) [.ident 2 "TSS" .get])]))]⟩ exPkts = .unc := by
  decide +kernel
-- without `end`, and a program outside the specification (a non-boolean pattern)
example : FilterSpec.run ⟨[.filter 1 (.expr (.bool 1 true)) none]⟩ exPkts = .ok [1, 2, 3] [] false := by
  decide +kernel
example : FilterSpec.run ⟨[.filter 1 (.expr (.int 1 7)) none]⟩ exPkts = .unc := by decide +kernel

end Examples

end P2sh.Props.C20
