import P2sh.Props.BcvStore3
/-!
# The store typing, part 4: `Closure`, `CurrClosure` (the two opcodes that need the frame-stack invariant),
one iteration of `VM::run`, and the interface theorems `sinv_cd` (in part 1), `sinv_tick`, `sinv_init` (in part 1)
-/
namespace P2sh.Props.Bcv
open P2sh P2sh.Vm P2sh.Bcv P2sh.Code P2sh.Props.BcvWp P2sh.Props.BcvVals

section
variable {consts : List Val} {s : St} {f : Frame} {rest : List Frame} {sm : Summary} {i : Instr} {ws : List Nat}
  {h0 : Nat} {succs : List (Nat × Nat)} {F : Nat → Prop} {T : Nat → Nat} {n : Nat}

theorem s_Closure (tp : Top consts s f rest sm i ws h0 succs)
    (hfns : ∀ g, Val.func g ∈ consts → ∃ sm, Bcv.check consts .func g = .ok sm)
    (h : SI consts F T n s) (line : Nat) (hn : i.name = "Closure") :
    wpl (step (opOfByte (f.fn.code.getD f.ip 0)) f.fn.code f.ip line) (fun _ s' => SInv consts s') s := by
  bcv_pre tp hn
  split at he
  case h_2 => cases he
  case h_3 => cases he
  rename_i g hg
  split at he
  case isFalse => cases he
  rename_i hfn
  have hc := tp.inv.consts
  have hck := hfns g (List.mem_of_getElem? hg)
  have e3 : f.ip + 1 + 2 = f.ip + 3 := rfl
  rw [e3] at hfn
  unfold step; simp only [hnm]
  rw [wpl_bind, wpl_readU16' _ _ _ _ (by omega), wpl_bind, wpl_readU8' _ _ _ _ (by omega)]
  simp only [wpl_bind, wpl_get]
  have hcs : s.constants[f.fn.code.getD (f.ip + 1) 0 * 256 + f.fn.code.getD (f.ip + 1 + 1) 0]? = some (.func g) := by
    rw [hc]; simpa using hg
  rw [hcs]
  simp only [wpl_ite, wpl_panicM, wpl_bind, wpl_pure, wpl_set]
  split
  · trivial
  · have hfree := vsL_range h (f.fn.code.getD (f.ip + 3) 0) (s.sp - f.fn.code.getD (f.ip + 3) 0)
    obtain ⟨h', hV⟩ := (h.setSp (s.sp - f.fn.code.getD (f.ip + 3) 0)).closure hfree
    refine wpl_mono (si_push h' (vok_clos.2 ⟨hck, Or.inr h.nx, ?_⟩) line) ?_
    · show freeNeed g ≤ if s.heap.next = n then _ else _
      rw [if_pos h.nx]
      simpa using hfn
    · intro _ s1 h1
      wstep (si_setIp h1 _); intro _ s2 h2; wfin h2.sinv

theorem s_CurrClosure (tp : Top consts s f rest sm i ws h0 succs) (h : SI consts F T n s) (line : Nat)
    (hn : i.name = "CurrClosure") :
    wpl (step (opOfByte (f.fn.code.getD f.ip 0)) f.fn.code f.ip line) (fun _ s' => SInv consts s') s := by
  bcv_pre tp hn
  split at he
  case isTrue => cases he
  rename_i hk
  have hr : rest ≠ [] := by
    intro e; apply hk; simp [kindOf, e]
  have hfo := h.frames
  rw [hfr] at hfo
  unfold step; simp only [hnm]
  simp only [wpl_bind, wpl_curFrame', hfr]
  wstep (si_push h (vok_clos.2 (hfo.1 hr)) line); intro _ s1 h1; wfin h1.sinv

theorem name_cases (nm : String) (ws : List Nat) (hs : shapeOf nm = some ws) (Pr : String → Prop)
    (H : ∀ x ∈ ["Constant", "Jump", "JumpIfFalse", "JumpIfFalseNoPop", "DefineGlobal", "GetGlobal", "SetGlobal", "Array", "Map", "Call", "DefineLocal", "GetLocal", "SetLocal", "GetBuiltinFn", "GetBuiltinVar", "GetFree", "SetFree", "GetProp", "SetProp", "Closure", "Pop", "Add", "Sub", "Mul", "Div", "Mod", "True", "False", "Equal", "NotEqual", "Greater", "GreaterEq", "Minus", "Bang", "Null", "GetIndex", "SetIndex", "ReturnValue", "Return", "CurrClosure", "Not", "And", "Or", "Xor", "ShiftLeft", "ShiftRight", "Dup", "Dollar"], Pr x) : Pr nm := by
  unfold shapeOf at hs
  split at hs
  all_goals first
    | (cases hs; done)
    | (apply H; simp)

set_option maxHeartbeats 400000 in
/-- every opcode keeps the store typing -/
theorem sinv_step (tp : Top consts s f rest sm i ws h0 succs)
    (hfns : ∀ g, Val.func g ∈ consts → ∃ sm, Bcv.check consts .func g = .ok sm)
    (h : SI consts F T n s) (line : Nat) :
    wpl (step (opOfByte (f.fn.code.getD f.ip 0)) f.fn.code f.ip line) (fun _ s' => SInv consts s') s := by
  refine name_cases i.name ws tp.shape
    (fun x => i.name = x → wpl (step (opOfByte (f.fn.code.getD f.ip 0)) f.fn.code f.ip line) (fun _ s' => SInv consts s') s)
    ?_ rfl
  intro x hx hn
  simp only [List.mem_cons, List.mem_nil_iff, or_false] at hx
  rcases hx with rfl | rfl | rfl | rfl | rfl | rfl | rfl | rfl | rfl | rfl | rfl | rfl | rfl | rfl | rfl | rfl | rfl | rfl | rfl | rfl | rfl | rfl | rfl | rfl | rfl | rfl | rfl | rfl | rfl | rfl | rfl | rfl | rfl | rfl | rfl | rfl | rfl | rfl | rfl | rfl | rfl | rfl | rfl | rfl | rfl | rfl | rfl | rfl
  all_goals first
    | exact s_Constant h (tp.name.symm.trans hn)
    | exact s_Jump h (tp.name.symm.trans hn)
    | exact s_JumpIfFalse h (tp.name.symm.trans hn)
    | exact s_JumpIfFalseNoPop h (tp.name.symm.trans hn)
    | exact s_DefineGlobal h (tp.name.symm.trans hn)
    | exact s_GetGlobal h (tp.name.symm.trans hn)
    | exact s_SetGlobal h (tp.name.symm.trans hn)
    | exact s_Array h (tp.name.symm.trans hn)
    | exact s_Map h (tp.name.symm.trans hn)
    | exact s_Call h (tp.name.symm.trans hn)
    | exact s_DefineLocal h (tp.name.symm.trans hn)
    | exact s_GetLocal h (tp.name.symm.trans hn)
    | exact s_SetLocal h (tp.name.symm.trans hn)
    | exact s_GetBuiltinFn h (tp.name.symm.trans hn)
    | exact s_GetBuiltinVar (tp.name.symm.trans hn)
    | exact s_GetFree h (tp.name.symm.trans hn)
    | exact s_SetFree h (tp.name.symm.trans hn)
    | exact s_GetProp (tp.name.symm.trans hn)
    | exact s_SetProp (tp.name.symm.trans hn)
    | exact s_Closure tp hfns h line hn
    | exact s_Pop h (tp.name.symm.trans hn)
    | exact s_Add h (tp.name.symm.trans hn)
    | exact s_Sub h (tp.name.symm.trans hn)
    | exact s_Mul h (tp.name.symm.trans hn)
    | exact s_Div h (tp.name.symm.trans hn)
    | exact s_Mod h (tp.name.symm.trans hn)
    | exact s_True h (tp.name.symm.trans hn)
    | exact s_False h (tp.name.symm.trans hn)
    | exact s_Equal h (tp.name.symm.trans hn)
    | exact s_NotEqual h (tp.name.symm.trans hn)
    | exact s_Greater h (tp.name.symm.trans hn)
    | exact s_GreaterEq h (tp.name.symm.trans hn)
    | exact s_Minus h (tp.name.symm.trans hn)
    | exact s_Bang h (tp.name.symm.trans hn)
    | exact s_Null h (tp.name.symm.trans hn)
    | exact s_GetIndex h (tp.name.symm.trans hn)
    | exact s_SetIndex h (tp.name.symm.trans hn)
    | exact s_ReturnValue h (tp.name.symm.trans hn)
    | exact s_Return h (tp.name.symm.trans hn)
    | exact s_CurrClosure tp h line hn
    | exact s_Not h (tp.name.symm.trans hn)
    | exact s_And h (tp.name.symm.trans hn)
    | exact s_Or h (tp.name.symm.trans hn)
    | exact s_Xor h (tp.name.symm.trans hn)
    | exact s_ShiftLeft h (tp.name.symm.trans hn)
    | exact s_ShiftRight h (tp.name.symm.trans hn)
    | exact s_Dup h (tp.name.symm.trans hn)
    | exact s_Dollar (tp.name.symm.trans hn)

end

theorem sinv_finish {consts : List Val} {s : St} (h : SInv consts s) (nx : Next) :
    wpl (finish nx) (fun _ s' => SInv consts s') s := by
  obtain ⟨F, T, n, h⟩ := h
  cases nx with
  | stay => simp only [finish, wpl_pure]; exact h.sinv
  | advance =>
    simp only [finish]
    wstep (si_curFrame h); intro f s1 h1
    wstep (si_setIp h1 _); intro _ s2 h2; exact h2.sinv

/-- (b), partial-correctness form: one iteration of `VM::run` keeps the store typing -/
theorem sinv_tick_wpl {consts : List Val} {s : St}
    (hfns : ∀ g, Val.func g ∈ consts → ∃ sm, Bcv.check consts .func g = .ok sm)
    (hI : Inv consts s) (hS : SInv consts s) : wpl tick (fun _ s' => SInv consts s') s := by
  unfold tick
  rw [wpl_bind, wpl_curFrame']
  split
  · rename_i f rest hfr
    rw [wpl_ite]
    split
    · rename_i hlt
      obtain ⟨hlines, sm, i, ws, h0, succs, tp⟩ := top_of_inv hI hfr hlt
      have hl : f.fn.lines[f.ip]? = some (f.fn.lines[f.ip]'hlines) := List.getElem?_eq_getElem hlines
      rw [hl]
      simp only [wpl_bind]
      obtain ⟨F, T, n, h⟩ := hS
      refine wpl_mono (sinv_step tp hfns h _) ?_
      intro nx s1 h1
      refine wpl_mono (sinv_finish h1 nx) ?_
      intro _ s2 h2
      rw [wpl_pure]; exact h2
    · rw [wpl_pure]; exact hS
  · trivial

/-- (b), as a statement about successful runs -/
theorem sinv_tick_exec {consts : List Val} {s s' : St} {b : Bool}
    (hfns : ∀ g, Val.func g ∈ consts → ∃ sm, Bcv.check consts .func g = .ok sm)
    (hI : Inv consts s) (hS : SInv consts s) (he : exec tick s = (.ok b, s')) : SInv consts s' :=
  wpl_ok (Q := fun _ s' => SInv consts s') (sinv_tick_wpl hfns hI hS) he

/-- (b), in the no-panic calculus: whatever postcondition `tick` is known to establish without panicking, it
establishes together with the store typing -/
theorem sinv_tick {consts : List Val} {s : St} {Q : Bool → St → Prop}
    (hfns : ∀ g, Val.func g ∈ consts → ∃ sm, Bcv.check consts .func g = .ok sm)
    (hI : Inv consts s) (hS : SInv consts s) (hQ : wp tick Q s) :
    wp tick (fun b s' => Q b s' ∧ SInv consts s') s :=
  wp_and_wpl hQ (sinv_tick_wpl hfns hI hS)

end P2sh.Props.Bcv

