import P2sh.Props.C02
import P2sh.Props.C11
/-!
# C02 × C11 — a compiled call of a documented pure builtin yields what the documentation prescribes

`builtin_call_correct` (Props/C02.lean): the compiled call `name(a1, …, an)` of a builtin function
— `GetBuiltinFn i; a1; …; an; Call n` — yields exactly `callBuiltinH`: the model `Builtins.call` of
`src/builtins/functions.rs` on the views of the argument values, with the containers it builds
stored as new objects and the new contents of a mutated first argument written into ITS object.
`P2sh.Props.C11.builtin_contract_final`: that model refines the documentation-derived
specification `Spec.Builtins.call`.  Together: `builtin_call_documented`.
-/
namespace P2sh.Props.C02
open P2sh P2sh.Core P2sh.Core.Fn

/-- what the documentation-derived specification prescribes for the call is what `callBuiltinH`
yields: a value row — that value (its new containers stored as new objects); an error row — no
value (a runtime error); a mutation row — the returned value, and the object of the first
argument holds the prescribed new contents (`writeBack`; for `sort`, which returns its argument: the same reference) -/
theorem builtin_call_documented (a : Heap) (name : String) (vs : List Val)
    (hk : ¬ P2sh.Props.C11.knownFindingRow name (vs.map (view a))) :
    match Spec.Builtins.call name (vs.map (view a)) with
    | .value w => callBuiltinH a name vs = some (storeNew a w)
    | .error => callBuiltinH a name vs = none
    | .mutate ret nf =>
      callBuiltinH a name vs =
        (if name == "sort" then some (vs.headD .null, writeBack a vs nf) else some (storeNew (writeBack a vs nf) ret))
    | _ => True := by
  have h := P2sh.Props.C11.builtin_contract_final name (vs.map (view a)) hk
  cases hs : Spec.Builtins.call name (vs.map (view a)) with
  | value w =>
    rw [hs] at h
    simp only [P2sh.Props.C11.Refines] at h
    simp [callBuiltinH, h]
  | error =>
    rw [hs] at h
    obtain ⟨msg, hm⟩ := h
    simp [callBuiltinH, hm]
  | mutate ret nf =>
    rw [hs] at h
    simp only [P2sh.Props.C11.Refines] at h
    simp only [callBuiltinH, h]
  | okAny => trivial
  | any => trivial


/-- **a compiled call of a documented pure builtin yields what the documentation-derived
specification prescribes**: `name(a1, …, an)` compiled to `GetBuiltinFn i; a1; …; an; Call n` and run
on the machine (any activation, any operands underneath) pushes a value `v` and ends with a heap
`a'` such that, for the row `Spec.Builtins.call name (views of the argument values)`:
a value row `w` — `(v, a')` is `w` with its new containers stored; a mutation row — the first
argument's OBJECT holds the prescribed contents (`writeBack`) and `v` is the prescribed result
(`sort`: the argument itself); an error row — impossible: the call has no value (the reference
evaluation fails and the machine is stuck at the `Call`, `P2sh.Props.C13.fail_line_fn_call`). -/
theorem compiled_builtin_call_documented {Φ : FnDef → Option FDecl} {K : List Val} {F : FnDef → Option (List Instr)} (hL : Linked Φ K F)
    (fuel : Nat) (l lb i : Nat) (args : FArgs) (X : Ctxt) (pos k : Nat) (ops : List Val) (cx : Option (FnDef × Nat)) (σ σ' : Sto) (v : Val)
    (h : codeAt X.code pos (compileE pos k (.call l (.bfn lb i) args))) (hp : poolAt K k (constsE (.call l (.bfn lb i) args))) (hx : Agree cx X)
    (he : evalE Φ (fuel + 2) cx σ (.call l (.bfn lb i) args) = some (v, σ')) :
    FSteps K F (X.st pos ops σ) (X.st (pos + bytes (compileE pos k (.call l (.bfn lb i) args))) (v :: ops) σ') ∧
    ∃ name vs σ1, builtinName i = some name ∧ evalArgs Φ (fuel + 1) cx σ args = some (vs, σ1) ∧
      σ'.l = σ1.l ∧ σ'.g = σ1.g ∧ σ'.h = σ1.h ∧
      (¬ P2sh.Props.C11.knownFindingRow name (vs.map (view σ1.a)) →
        match Spec.Builtins.call name (vs.map (view σ1.a)) with
        | .value w => (v, σ'.a) = storeNew σ1.a w
        | .error => False
        | .mutate ret nf =>
          (v, σ'.a) = (if name == "sort" then (vs.headD .null, writeBack σ1.a vs nf) else storeNew (writeBack σ1.a vs nf) ret)
        | _ => True) := by
  obtain ⟨_, ⟨name, vs, σ1, a', hn, hargs, hcall, rfl⟩, hsteps⟩ :=
    Containers.builtin_call_correct hL fuel l lb i args X pos k ops cx σ σ' v h hp hx he
  refine ⟨hsteps, name, vs, σ1, hn, hargs, rfl, rfl, rfl, ?_⟩
  intro hk
  have hd := builtin_call_documented σ1.a name vs hk
  cases hs : Spec.Builtins.call name (vs.map (view σ1.a)) with
  | value w =>
    simp only [hs] at hd
    rw [hcall] at hd
    simpa using hd
  | error =>
    simp only [hs] at hd
    rw [hcall] at hd
    simp at hd
  | mutate ret nf =>
    simp only [hs] at hd
    rw [hcall] at hd
    by_cases hsort : (name == "sort") = true
    · simp only [hsort, if_true, Option.some.injEq] at hd ⊢
      exact hd
    · simp only [hsort, Bool.false_eq_true, if_false, Option.some.injEq] at hd ⊢
      exact hd
  | okAny => trivial
  | any => trivial

/-- non-vacuity: a value row (`rest` builds a NEW object), an error row (no value), a mutation row (`push` changes the
object every reference denotes), and the specification's row for the first -/
example : callBuiltinH ⟨[(1, .arr [.bool true, .bool false])], 2⟩ "rest" [.arr 1 []] =
    some (.arr 2 [], ⟨[(2, .arr [.bool false]), (1, .arr [.bool true, .bool false])], 3⟩) := by rfl
example : callBuiltinH ⟨[(1, .arr [.bool true])], 2⟩ "rest" [.bool true] = none := by rfl
example : callBuiltinH ⟨[(1, .arr [.bool true])], 2⟩ "push" [.arr 1 [], .null] = some (.null, ⟨[(1, .arr [.bool true, .null])], 2⟩) := by rfl
example : P2sh.Spec.Builtins.call "rest" [.arr 1 [.bool true, .bool false]] = .value (.arr 0 [.bool false]) := by rfl

end P2sh.Props.C02
