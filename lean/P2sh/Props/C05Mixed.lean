import P2sh.Gen.MatchTypes
import P2sh.Model.Resolver
import P2sh.Spec.Static
/-!
# C05 — "arms whose patterns differ in type are rejected"

Three layers, each tied to the next by a theorem:

1. `Gen/MatchTypes.lean` — the table of `MatchPattern::matches_type` (src/parser/ast/expr.rs), regenerated
   from the Rust source on every run (the rest of the function body must be the known skeleton, otherwise
   the translator reports a tie problem).  `rustMatches` below interprets the table in the arm order of the
   Rust function.
2. `Model.Resolver.matchesType` on pattern kinds — what the compiler model (`walkPats` / `walkArms`) uses.
   `matchesType_is_rust_table`: the two agree on every pair of pattern shapes (7 variants × every pair of
   range-bound kinds), so a change of the Rust table breaks this proof obligation.
3. `Spec.Static.checkArms` — the specification written from the statement (`mixedMatch`).
   `mixed_arms_rejected`: an arm containing a pattern whose type differs from the first pattern's makes the
   specification report `mixedMatch l` AND the compiler model stop with the compile error on the same line;
   `same_type_arms_pass` is the converse for the pattern walk (no spurious rejection).
-/
namespace P2sh.Props.C05Mixed
open P2sh P2sh.Gen.MatchTypes

/-- shape of a pattern as `matches_type` sees it: the variant, and for a range the kinds of its two bounds -/
inductive Shape where
  | plain (v : PV)            -- any variant except `Range`
  | range (lo hi : EV)
deriving DecidableEq, Repr

/-- `matches_type` read off the generated table, arm by arm in the order of the Rust function -/
def rustMatches : Shape → Shape → Bool
  | .plain .Default, _ | _, .plain .Default => defaultMatchesAll
  | .plain a, .plain b => samePairs.contains (a, b)
  | .range l1 h1, .range l2 h2 => rangeRange.contains (l1, h1, l2, h2)
  | .range l h, .plain o | .plain o, .range l h => rangeOther.contains (l, h, o)

/-- the kind of a range bound -/
def evOf : Expr → EV
  | .int .. => .Integer
  | .str .. => .Str
  | .char .. => .Char
  | .byte .. => .Byte
  | _ => .Other

/-- the shape of a model pattern (the parser builds `Pat.pint` for `MatchPattern::Integer`, …) -/
def shapeOf : Pat → Shape
  | .pbool .. => .plain .Boolean
  | .pint .. => .plain .Integer
  | .pchar .. => .plain .Char
  | .pbyte .. => .plain .Byte
  | .pstr .. => .plain .Str
  | .pdef _ => .plain .Default
  | .prange _ _ lo hi => .range (evOf lo) (evOf hi)

/-- the model's pattern kind, on shapes -/
def kindOfEV : EV → EV → Option Resolver.PK
  | .Integer, .Integer => some .i
  | .Str, .Str => some .s
  | .Char, .Char => some .c
  | .Byte, .Byte => some .y
  | _, _ => none

def kindOf : Shape → Option Resolver.PK
  | .plain .Boolean => some .b
  | .plain .Integer => some .i
  | .plain .Char => some .c
  | .plain .Byte => some .y
  | .plain .Str => some .s
  | .plain .Default => some .d
  | .plain .Range => none            -- not a shape of any pattern (`shapeOf` never yields it)
  | .range lo hi => kindOfEV lo hi

theorem kindOf_shapeOf (p : Pat) : kindOf (shapeOf p) = Resolver.patKind p := by
  cases p with
  | prange l op lo hi => cases lo <;> cases hi <;> rfl
  | _ => rfl

/-- a shape that some pattern has -/
def Shape.real : Shape → Bool
  | .plain .Range => false
  | _ => true

theorem shapeOf_real (p : Pat) : (shapeOf p).real = true := by
  cases p <;> rfl

/-- **the model's `matchesType` is the Rust table** — for every pair of pattern shapes (all 7 variants, every
pair of bound kinds for ranges).  The table side is regenerated from the source on every run. -/
theorem matchesType_is_rust_table (a b : Shape) (ha : a.real = true) (hb : b.real = true) :
    rustMatches a b = Resolver.matchesType (kindOf a) (kindOf b) := by
  cases a with
  | plain va =>
    cases b with
    | plain vb => cases va <;> cases vb <;> first | rfl | (simp [Shape.real] at ha hb)
    | range l h => cases va <;> cases l <;> cases h <;> first | rfl | (simp [Shape.real] at ha)
  | range l1 h1 =>
    cases b with
    | plain vb => cases vb <;> cases l1 <;> cases h1 <;> first | rfl | (simp [Shape.real] at hb)
    | range l2 h2 => cases l1 <;> cases h1 <;> cases l2 <;> cases h2 <;> rfl

/-- on patterns -/
theorem matchesType_patterns (p q : Pat) :
    Resolver.matchesType (Resolver.patKind p) (Resolver.patKind q) = rustMatches (shapeOf p) (shapeOf q) := by
  rw [matchesType_is_rust_table _ _ (shapeOf_real p) (shapeOf_real q), kindOf_shapeOf, kindOf_shapeOf]

/-! ## the specification's kinds and the model's kinds -/

def toSpec : Resolver.PK → Static.PK
  | .b => .b | .i => .i | .c => .c | .y => .y | .s => .s | .d => .d

theorem toSpec_inj {a b' : Resolver.PK} (h : toSpec a = toSpec b') : a = b' := by
  cases a <;> cases b' <;> first | rfl | (simp [toSpec] at h)

theorem patKind_spec (p : Pat) : Static.patKind p = (Resolver.patKind p).map toSpec := by
  cases p with
  | prange l op lo hi => cases lo <;> cases hi <;> rfl
  | _ => rfl

/-- the pattern loop of `Static.checkArms`, as a function of its own (`spec_loop_eq` shows it is that loop) -/
def specPats (first : Option Static.PK) (l : Nat) : List Pat → Static.R Unit
  | [] => pure ()
  | p :: ps =>
    match Static.patKind p, first with
    | none, _ => throw .unc
    | some .d, _ => specPats first l ps
    | some _, some .d => specPats first l ps
    | some k, some k0 => if k != k0 then throw (.mixedMatch l) else specPats first l ps
    | some _, none => specPats first l ps

theorem specPats_cons (first : Option Static.PK) (l : Nat) (p : Pat) (ps : List Pat) :
    specPats first l (p :: ps) =
      (match Static.patKind p, first with
      | none, _ => throw .unc
      | some .d, _ => specPats first l ps
      | some _, some .d => specPats first l ps
      | some k, some k0 => if k != k0 then throw (.mixedMatch l) else specPats first l ps
      | some _, none => specPats first l ps) := rfl

/-- one iteration of the pattern loop of `Static.checkArms` -/
def stepK (first : Option Static.PK) (l : Nat) (p : Pat) : Static.R (ForInStep PUnit) :=
  match Static.patKind p, first with
  | none, _ => .error .unc
  | some .d, _ => .ok (.yield ⟨⟩)
  | some _, some .d => .ok (.yield ⟨⟩)
  | some k, some k0 => if k != k0 then .error (.mixedMatch l) else .ok (.yield ⟨⟩)
  | some _, none => .ok (.yield ⟨⟩)

/-- the `for p in pats do …` loop of `Static.checkArms` is `specPats` (for any loop body that is `stepK`) -/
theorem spec_loop_eq (first : Option Static.PK) (l : Nat) (pats : List Pat)
    (F : Pat → PUnit → Static.R (ForInStep PUnit)) (hF : ∀ p s, F p s = stepK first l p) :
    forIn pats PUnit.unit F = specPats first l pats := by
  induction pats with
  | nil => rfl
  | cons p ps ih =>
    rw [List.forIn_cons, hF, specPats_cons]
    unfold stepK
    cases hk : Static.patKind p with
    | none => rfl
    | some k =>
      cases first with
      | none => cases k <;> simpa [bind, Except.bind] using ih
      | some k0 =>
        cases k <;> cases k0 <;>
          first
          | (simpa [bind, Except.bind] using ih)
          | (simp [bind, Except.bind, throw, throwThe, MonadExceptOf.throw])

/-- all patterns have a kind (every range has two literal bounds of one kind) — the patterns the real parser
accepts without a later `invalid range expression` -/
def kinded (pats : List Pat) : Prop := ∀ p ∈ pats, (Resolver.patKind p).isSome

/-- pattern walk: some pattern's type differs from the first pattern's ⇒ specification `mixedMatch l`, model
compile error on line `l` (when the first pattern has a kind) -/
theorem mixed_pats_rejected (first : Resolver.PK) (l : Nat) (pats : List Pat) (n : Nat)
    (hk : kinded pats)
    (hmix : ∃ p ∈ pats, Resolver.matchesType (some first) (Resolver.patKind p) = false) :
    specPats (some (toSpec first)) l pats = .error (.mixedMatch l) ∧
    Resolver.walkPats (some first) l pats n = .error (.other l) := by
  induction pats generalizing n with
  | nil => obtain ⟨p, hp, _⟩ := hmix; cases hp
  | cons p ps ih =>
    have hp := hk p (List.mem_cons_self ..)
    obtain ⟨k, hkp⟩ := Option.isSome_iff_exists.mp hp
    by_cases hm : Resolver.matchesType (some first) (Resolver.patKind p) = true
    · -- this pattern is fine: go on
      have hrest : ∃ q ∈ ps, Resolver.matchesType (some first) (Resolver.patKind q) = false := by
        obtain ⟨q, hq, hqf⟩ := hmix
        rcases List.mem_cons.mp hq with rfl | hq'
        · rw [hm] at hqf; cases hqf
        · exact ⟨q, hq', hqf⟩
      have hk' : kinded ps := fun q hq => hk q (List.mem_cons_of_mem _ hq)
      have hc : ∃ c, Resolver.patConsts p = .ok c := by
        cases p with
        | prange l' op lo hi =>
          have : (Resolver.patKind (.prange l' "" lo hi)).isSome := by
            have : Resolver.patKind (.prange l' "" lo hi) = Resolver.patKind (.prange l' op lo hi) := by
              cases lo <;> cases hi <;> rfl
            rw [this]; exact hp
          exact ⟨2, by simp [Resolver.patConsts, this]⟩
        | _ => exact ⟨_, rfl⟩
      obtain ⟨c, hc⟩ := hc
      obtain ⟨ih1, ih2⟩ := ih (n + c) hk' hrest
      refine ⟨?_, ?_⟩
      · rw [specPats_cons, patKind_spec, hkp]
        rw [hkp] at hm
        cases k <;> cases first <;> first | exact ih1 | (simp [Resolver.matchesType] at hm)
      · rw [Resolver.walkPats, hm, hc]; simpa using ih2
    · have hm' : Resolver.matchesType (some first) (Resolver.patKind p) = false := by
        cases h : Resolver.matchesType (some first) (Resolver.patKind p) <;> simp_all
      refine ⟨?_, ?_⟩
      · rw [specPats_cons, patKind_spec, hkp]
        rw [hkp] at hm'
        cases k <;> cases first <;> first | rfl | (simp [Resolver.matchesType] at hm')
      · rw [Resolver.walkPats, hm']; rfl

/-- no spurious rejection: if every pattern's type matches the first pattern's, neither side reports a
mixed match (the specification passes the arm's patterns, the model's walk succeeds) -/
theorem same_type_pats_pass (first : Resolver.PK) (l : Nat) (pats : List Pat) (n : Nat)
    (hk : kinded pats)
    (hall : ∀ p ∈ pats, Resolver.matchesType (some first) (Resolver.patKind p) = true) :
    specPats (some (toSpec first)) l pats = .ok () ∧ ∃ k, Resolver.walkPats (some first) l pats n = .ok k := by
  induction pats generalizing n with
  | nil => exact ⟨rfl, n, rfl⟩
  | cons p ps ih =>
    have hp := hk p (List.mem_cons_self ..)
    obtain ⟨k, hkp⟩ := Option.isSome_iff_exists.mp hp
    have hm := hall p (List.mem_cons_self ..)
    have hk' : kinded ps := fun q hq => hk q (List.mem_cons_of_mem _ hq)
    have hall' : ∀ q ∈ ps, Resolver.matchesType (some first) (Resolver.patKind q) = true :=
      fun q hq => hall q (List.mem_cons_of_mem _ hq)
    have hc : ∃ c, Resolver.patConsts p = .ok c := by
      cases p with
      | prange l' op lo hi =>
        have : (Resolver.patKind (.prange l' "" lo hi)).isSome := by
          have : Resolver.patKind (.prange l' "" lo hi) = Resolver.patKind (.prange l' op lo hi) := by
            cases lo <;> cases hi <;> rfl
          rw [this]; exact hp
        exact ⟨2, by simp [Resolver.patConsts, this]⟩
      | _ => exact ⟨_, rfl⟩
    obtain ⟨c, hc⟩ := hc
    obtain ⟨ih1, k', ih2⟩ := ih (n + c) hk' hall'
    refine ⟨?_, k', ?_⟩
    · rw [specPats_cons, patKind_spec, hkp]
      rw [hkp] at hm
      cases k <;> cases first <;> first | exact ih1 | (simp [Resolver.matchesType] at hm)
    · rw [Resolver.walkPats, hm, hc]; simpa using ih2

/-- **arms whose patterns differ in type are rejected** — an arm on line `l`, some pattern of which has a type
different from the first pattern's (`first`, a kind other than `_`'s is not required: `_` matches everything, so
`hmix` cannot hold against it): the specification's `checkArms` reports `mixedMatch l` and the compiler model's
`walkArms` stops with the compile error on line `l`, whatever the state, the body and the later arms are. -/
theorem mixed_arms_rejected (fuel : Nat) (c : Static.Ctx) (st : Resolver.St) (first : Resolver.PK) (l : Nat)
    (pats : List Pat) (body : Block) (rest : List Arm)
    (hk : kinded pats)
    (hmix : ∃ p ∈ pats, Resolver.matchesType (some first) (Resolver.patKind p) = false) :
    Static.checkArms (fuel + 1) c (some (toSpec first)) (.mk l pats body :: rest) = .error (.mixedMatch l) ∧
    Resolver.walkArms (fuel + 1) st (some first) (.mk l pats body :: rest) = .error (.other l) := by
  obtain ⟨h1, h2⟩ := mixed_pats_rejected first l pats 0 hk hmix
  refine ⟨?_, ?_⟩
  · rw [Static.checkArms, spec_loop_eq (some (toSpec first)) l pats, h1]
    · rfl
    · intro p s
      unfold stepK
      cases hkk : Static.patKind p with
      | none => rfl
      | some k => cases k <;> cases first <;> rfl
  · rw [Resolver.walkArms, h2]

/-- the table lifted to the theorem's hypothesis: against a first pattern that is not `_` and not a range, a
pattern of another plain type, or a range over another type, is a mismatch (read off the generated Rust table) -/
theorem mismatch_examples :
    rustMatches (.plain .Integer) (.plain .Str) = false ∧
    rustMatches (.plain .Integer) (.range .Char .Char) = false ∧
    rustMatches (.plain .Integer) (.range .Integer .Integer) = true ∧
    rustMatches (.range .Integer .Integer) (.range .Integer .Str) = false ∧
    rustMatches (.plain .Boolean) (.plain .Default) = true := by decide

/-- non-vacuity: `match x { 1 => …, "a" | 2 => … }` — the second arm is rejected by both -/
example : kinded [.pstr 2 "a", .pint 2 2] ∧
    (∃ p ∈ [Pat.pstr 2 "a", .pint 2 2], Resolver.matchesType (some .i) (Resolver.patKind p) = false) :=
  ⟨by intro p hp; simp at hp; rcases hp with rfl | rfl <;> rfl, ⟨.pstr 2 "a", by simp, rfl⟩⟩

end P2sh.Props.C05Mixed
