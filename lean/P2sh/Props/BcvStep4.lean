import P2sh.Props.BcvStep3
/-! # Per-opcode lemmas, part 4: `Call` (closures: a new frame; builtins: `Builtins.call`) -/
namespace P2sh.Props.Bcv
open P2sh P2sh.Vm P2sh.Bcv P2sh.Code P2sh.Props.BcvWp

variable {consts : List Val} {s : St} {f : Frame} {rest : List Frame} {sm : Summary} {i : Instr} {ws : List Nat}
  {h : Nat} {succs : List (Nat × Nat)}

/-- the common end of `callBuiltin`: drop the callee and its arguments, push the result, step over the `Call` -/
def tailM (n line : Nat) (v' : Val) : M Unit := do
  let s ← get
  if s.sp < n + 1 then panicM "attempt to subtract with overflow" else do
    set { s with sp := s.sp - n - 1 }
    push v' line
    let f ← curFrame
    setIp (f.ip + 2)

theorem tail_ok (n line : Nat) (s : St) (f : Frame) (rest : List Frame) (hf : s.frames = f :: rest) (hsp : n + 1 ≤ s.sp)
    (v' : Val) (s2 : St) (hs : HeapOnly s s2) :
    wp (tailM n line v') (fun _ s' => Moved s f rest (f.ip + 2) (s.sp - n) s') s2 := by
  obtain ⟨h2, hs2⟩ := hs
  subst hs2
  unfold tailM
  simp only [wp_bind, wp_get, wp_ite, wp_panicM, wp_set, wp_push, wp_curFrame', wp_setIp, withIp, hf]
  rw [if_neg (by omega)]
  intro _
  refine ⟨rfl, ?_, by simp, rfl, rfl⟩
  dsimp only; omega

theorem rest_ok (n line : Nat) (s : St) (f : Frame) (rest : List Frame) (hf : s.frames = f :: rest) (hsp : n + 1 ≤ s.sp)
    (mv : M Val) (hmv : ∀ s0, wp mv (fun _ s' => HeapOnly s0 s') s0) (s2 : St) (hs : HeapOnly s s2) :
    wp (mv >>= tailM n line) (fun _ s' => Moved s f rest (f.ip + 2) (s.sp - n) s') s2 := by
  rw [wp_bind]
  refine wp_mono (hmv s2) ?_
  intro v' s3 hs3
  exact tail_ok n line s f rest hf hsp v' s3 (HeapOnly.trans _ _ _ hs hs3)

theorem shape_callBuiltin (name : String) (n line : Nat) (s : St) (f : Frame) (rest : List Frame)
    (hf : s.frames = f :: rest) (hsp : n + 1 ≤ s.sp) :
    wp (callBuiltin name n line) (fun _ s' => Moved s f rest (f.ip + 2) (s.sp - n) s') s := by
  unfold callBuiltin
  simp only [wp_bind, wp_get, wp_ite, wp_panicM]
  rw [if_neg (by omega)]
  refine wp_mono (wp_mapM reifyM (fun a b => HeapOnly a b) HeapOnly.refl HeapOnly.trans heapOnly_reifyM _ s) ?_
  intro rargs s1 hs1
  split
  · simp only [wp_throw_unmodelled]
  · rename_i msg hm
    exact absurd hm (C08.builtins_no_panic _ _ msg)
  · simp only [wp_rtErr]
  · rename_i v hv
    exact rest_ok n line s f rest hf hsp (reflectM v) (heapOnly_reflectM v) s1 hs1
  · rename_i ret nf hv
    rw [wp_bind]
    have key : ∀ s2, HeapOnly s s2 →
        wp ((if (name == "sort") = true then
              pure ((List.map (fun i => s.stack.getD (s.sp - n + i) Val.null) (List.range n)).headD Val.null)
            else reflectM ret) >>= tailM n line)
          (fun _ s' => Moved s f rest (f.ip + 2) (s.sp - n) s') s2 := by
      intro s2 hs2
      refine rest_ok n line s f rest hf hsp _ ?_ s2 hs2
      intro s0
      split
      · simp only [wp_pure]; exact HeapOnly.refl s0
      · exact heapOnly_reflectM _ s0
    split
    · rw [wp_bind]
      refine wp_mono (wp_mapM reflectM (fun a b => HeapOnly a b) HeapOnly.refl HeapOnly.trans heapOnly_reflectM _ s1) ?_
      intro xs' s3 hs3
      rw [wp_modify]
      exact key _ (HeapOnly.trans _ _ _ (HeapOnly.trans _ _ _ hs1 hs3) ⟨_, rfl⟩)
    · rw [wp_bind]
      refine wp_mono (wp_mapM _ (fun a b => HeapOnly a b) HeapOnly.refl HeapOnly.trans ?_ _ s1) ?_
      · intro x s4
        simp only [wp_bind, wp_reflectM, wp_pure]
        exact ⟨_, rfl⟩
      · intro xs' s3 hs3
        rw [wp_modify]
        exact key _ (HeapOnly.trans _ _ _ (HeapOnly.trans _ _ _ hs1 hs3) ⟨_, rfl⟩)
    · rw [wp_pure]
      exact key _ hs1

theorem t_Call (T : Top consts s f rest sm i ws h succs) (hC : CD consts s) (line : Nat) (hn : i.name = "Call") :
    Goal consts s f line := by
  bcv_pre T hn
  obtain ⟨hp, rfl⟩ := simple_ok he
  have hsz := T.inv.size
  unfold Goal step; simp only [hnm]
  rw [wp_bind, wp_bind, wp_readU8 _ _ _ _ (by omega)]
  unfold execCall
  simp only [wp_bind, wp_get, wp_ite, wp_panicM]
  rw [if_neg (by omega)]
  split
  · -- a closure: a new frame
    rename_i g fr id hslot
    obtain ⟨⟨smg, hckg⟩, _⟩ := hC.slots _ g fr id hslot
    simp only [wp_rtErr, wp_bind, wp_curFrame', hfr, wp_setIp, withIp, pushFrame, wp_get, wp_set, wp_modify, wp_pure, finish, wp_ite]
    split
    · trivial
    · split
      · trivial
      · rename_i hnp hpf
        simp only [Bool.or_eq_true, decide_eq_true_eq, not_or, Nat.not_le] at hpf
        refine ⟨⟨_, _, rfl, ⟨smg, 0, hckg, accept_entry (check_ok hckg).1, rfl, ?_⟩, ?_⟩, hsz, T.inv.globals, T.inv.consts⟩
        · dsimp only; unfold stackSize at *; omega
        · refine ⟨by dsimp only; omega, ⟨sm, _, T.ck, T.succ _ (List.mem_singleton.mpr rfl), ?_, T.bp⟩, T.below⟩
          dsimp only; omega
  · -- a builtin
    rename_i name hslot
    refine wp_mono (shape_callBuiltin name _ line s f rest hfr (by omega)) ?_
    intro _ s' hm
    simp only [wp_pure, finish]
    refine inv_move T (List.mem_singleton.mpr rfl) ?_
    obtain ⟨a, b, c, d, e⟩ := hm
    exact ⟨a, by omega, c, d, e⟩
  · simp only [wp_rtErr]

end P2sh.Props.Bcv
