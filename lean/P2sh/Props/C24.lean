import P2sh.Model.MainLoop
/-!
# C24 — script and command modes run a program the same way with the same argv

Over the model of `main`/`CliArgs`/`run_buf` (tied to the binary by the `cli` end-to-end engine):
-/
namespace P2sh.Props.C24
open P2sh.MainLoop

/-- **same run**: for every program outcome, command mode prints exactly what script mode
prints, followed by the final value's line when the program ran to its end with a non-null
final value -/
theorem modes_same_run (o : Outcome) :
    ∃ extra, runBufStdout true o = runBufStdout false o ++ extra ∧
      (extra ≠ "" → executes o = true ∧ o.rtError = false ∧ ∃ t, o.finalDisplay = some t ∧ extra = t ++ "\n") := by
  unfold runBufStdout executes
  by_cases h : (o.blank || o.diagnostics) = true
  · exact ⟨"", by simp [h], by simp⟩
  · simp only [h, Bool.false_eq_true, if_false, Bool.true_and, Bool.false_and, String.append_empty]
    by_cases h2 : (!o.hasFilters && !o.rtError) = true
    · cases hf : o.finalDisplay with
      | none => exact ⟨"", by simp [h2], by simp⟩
      | some t =>
        refine ⟨t ++ "\n", by simp [h2], ?_⟩
        intro _
        simp only [Bool.and_eq_true, Bool.not_eq_true'] at h2
        exact ⟨by simpa using h, h2.2, t, rfl, rfl⟩
    · exact ⟨"", by simp [h2], by simp⟩

/-- script mode prints nothing of its own -/
theorem script_prints_only_program_output (o : Outcome) (h : executes o = true) :
    runBufStdout false o = o.stdout := by
  unfold executes at h
  have : (o.blank || o.diagnostics) = false := by simpa using h
  simp [runBufStdout, this]

/-- a program with diagnostics prints nothing in either mode (the gate) -/
theorem diagnostics_print_nothing (o : Outcome) (h : o.diagnostics = true) (c : Bool) :
    runBufStdout c o = "" := by
  simp [runBufStdout, h]

/-- argv in script mode: the script path followed by the remaining arguments -/
theorem argv_script (p : String) (args : List String) :
    mode { command := none, script := some p, args := args } = .file p ∧
    argvOf { command := none, script := some p, args := args } = p :: args := by
  simp [mode, argvOf, cliArgv]

/-- argv in command mode: the positional arguments -/
theorem argv_cmd (t : String) (script : Option String) (args : List String) :
    mode { command := some t, script := script, args := args } = .cmd t ∧
    argvOf { command := some t, script := script, args := args } = (match script with | some s => [s] | none => []) ++ args := by
  cases script <;> simp [mode, argvOf, cliArgv]

/-- the REPL starts only without any positional argument, and then argv is empty -/
theorem argv_repl_empty (c : Cli) (h : mode c = .repl) : argvOf c = [] := by
  unfold mode at h
  cases hc : c.command with
  | some t => simp [hc] at h
  | none =>
    simp only [hc] at h
    unfold argvOf
    cases ha : cliArgv c with
    | nil => rfl
    | cons p ps => simp [ha] at h

end P2sh.Props.C24
