import P2sh.Model.Proto
import P2sh.Spec.Rfc
import P2sh.Props.C16
/-!
# C17 — assigning a header field changes exactly that field

Per header (pcap record, Ethernet, VLAN, IPv4, IPv6, TCP, UDP), over the `set_*` / `get_*` models:

* `set_frame` — an accepted assignment to `p` leaves every other getter unchanged (`tcp.len` / `tcp.dataoff` are two
  names of one field);
* `set_get_in_range` — an integer within the RFC width of a writable numeric field is accepted and read back;
* `set_checked_invalid` — Ethernet / VLAN / IPv4 refuse an out-of-range integer (nothing changes);
  `set_cast_invalid` — pcap / IPv6 / TCP / UDP store it modulo 2^width, the width being the RFC one for every field;
* `set_wrong_kind`, `set_version_refused` — a value that is not an integer, and any assignment to `version`, is refused;
* `*_reparse` — serialise-then-parse gives the header back, for every header whose fields are within their widths
  (for IPv4 and TCP: whose option bytes are as many as the length field says) — so a value read back immediately is also
  the value read after writing and re-reading the packet, and, with `getter_is_slice`, the written bytes differ from the
  old ones only inside the field.

History: before /repo commits aefd4e7 and 3aaa561 `tcp.dataoff` kept 8 bits and was not written back, `tcp.flags` kept
16 bits and overwrote the data-offset nibble, `tcp.urgent` was never written, `ipv6.flowlabel` kept 32 bits and spilled
into the traffic class; `set_cast_invalid` and the TCP / IPv6 re-parse theorems were `_partial` and seven witnesses
recorded the violations.
-/
namespace P2sh.Props.C17
open P2sh P2sh.Proto P2sh.Spec
open P2sh.Props.C16 (hdrLayer)

/-! ## other properties are unchanged -/

theorem pcap_set_frame (h h' : PcapHdr) (p q : PP) (v : SetVal) (hs : h.set p v = some h') (hq : q ≠ p) :
    h'.get q = h.get q := by
  cases p <;> simp only [PcapHdr.set, Option.map_eq_some_iff] at hs <;>
    first
    | (cases hs; done)
    | (obtain ⟨n, -, rfl⟩ := hs; cases q <;> first | rfl | exact absurd rfl hq)

theorem eth_set_frame (h h' : EthHdr) (p q : PP) (v : SetVal) (hs : h.set p v = some h') (hq : q ≠ p) :
    h'.get q = h.get q := by
  cases p <;> simp only [EthHdr.set, Option.map_eq_some_iff] at hs <;>
    first
    | (cases hs; done)
    | (obtain ⟨n, -, rfl⟩ := hs; cases q <;> first | rfl | exact absurd rfl hq)

theorem vlan_set_frame (h h' : VlanHdr) (p q : PP) (v : SetVal) (hs : h.set p v = some h') (hq : q ≠ p) :
    h'.get q = h.get q := by
  cases p <;> simp only [VlanHdr.set, Option.map_eq_some_iff] at hs <;>
    first
    | (cases hs; done)
    | (obtain ⟨n, -, rfl⟩ := hs; cases q <;> first | rfl | exact absurd rfl hq)
    | (cases v <;> simp at hs; subst hs; cases q <;> first | rfl | exact absurd rfl hq)

theorem ipv4_set_frame (h h' : Ipv4Hdr) (p q : PP) (v : SetVal) (hs : h.set p v = some h') (hq : q ≠ p) :
    h'.get q = h.get q := by
  cases p <;> simp only [Ipv4Hdr.set, Option.map_eq_some_iff] at hs <;>
    first
    | (cases hs; done)
    | (obtain ⟨n, -, rfl⟩ := hs; cases q <;> first | rfl | exact absurd rfl hq)

theorem ipv6_set_frame (h h' : Ipv6Hdr) (p q : PP) (v : SetVal) (hs : h.set p v = some h') (hq : q ≠ p) :
    h'.get q = h.get q := by
  cases p <;> simp only [Ipv6Hdr.set, Option.map_eq_some_iff] at hs <;>
    first
    | (cases hs; done)
    | (obtain ⟨n, -, rfl⟩ := hs; cases q <;> first | rfl | exact absurd rfl hq)

/-- `len` and `dataoff` are the same TCP field; apart from that pair nothing else moves -/
theorem tcp_set_frame (h h' : TcpHdr) (p q : PP) (v : SetVal) (hs : h.set p v = some h') (hq : q ≠ p)
    (halias : ¬(p = .dataoff ∧ q = .len) ∧ ¬(p = .len ∧ q = .dataoff)) :
    h'.get q = h.get q := by
  cases p <;> simp only [TcpHdr.set, Option.map_eq_some_iff] at hs <;>
    first
    | (cases hs; done)
    | (obtain ⟨n, -, rfl⟩ := hs; cases q <;> first | rfl | exact absurd rfl hq | simp at halias)

theorem udp_set_frame (h h' : UdpHdr) (p q : PP) (v : SetVal) (hs : h.set p v = some h') (hq : q ≠ p) :
    h'.get q = h.get q := by
  cases p <;> simp only [UdpHdr.set, Option.map_eq_some_iff] at hs <;>
    first
    | (cases hs; done)
    | (obtain ⟨n, -, rfl⟩ := hs; cases q <;> first | rfl | exact absurd rfl hq)

/-- **other properties read as before** — for every header kind -/
theorem set_frame (hd hd' : Hdr) (p q : PP) (v : SetVal) (hs : hd.set p v = some hd') (hq : q ≠ p)
    (halias : ¬(p = .dataoff ∧ q = .len) ∧ ¬(p = .len ∧ q = .dataoff)) :
    hd'.get q = hd.get q := by
  cases hd <;> simp only [Hdr.set, Option.map_eq_some_iff] at hs <;> obtain ⟨x, hx, rfl⟩ := hs <;> simp only [Hdr.get]
  · exact pcap_set_frame _ _ p q v hx hq
  · exact eth_set_frame _ _ p q v hx hq
  · exact vlan_set_frame _ _ p q v hx hq
  · exact ipv4_set_frame _ _ p q v hx hq
  · exact ipv6_set_frame _ _ p q v hx hq
  · exact tcp_set_frame _ _ p q v hx hq halias
  · exact udp_set_frame _ _ p q v hx hq

/-! ## set then get; invalid values -/

theorem castU_in_range (bits : Nat) (i : Int) (h0 : 0 ≤ i) (h1 : i < (2 ^ bits : Nat)) : castU bits i = i.toNat := by
  unfold castU
  rw [Int.emod_eq_of_lt h0 h1]

theorem checked_in_range (hi : Nat) (i : Int) (h0 : 0 ≤ i) (h1 : i ≤ hi) : checked hi (.int i) = some i.toNat := by
  simp [checked]; omega

theorem casted_in_range (bits : Nat) (i : Int) (h0 : 0 ≤ i) (h1 : i < (2 ^ bits : Nat)) : casted bits (.int i) = some i.toNat := by
  simp [casted, castU_in_range bits i h0 h1]

set_option maxHeartbeats 2000000 in
/-- **set then get**: an integer within the RFC width of a writable numeric field is accepted and is what the getter then returns -/
theorem set_get_in_range (hd : Hdr) (p : PP) (o w : Nat) (i : Int)
    (hlay : Rfc.layout (hdrLayer hd) p = some (o, w)) (hk : Rfc.kindOf (hdrLayer hd) p = .num)
    (hro : Rfc.readOnly (hdrLayer hd) p = false) (h0 : 0 ≤ i) (h1 : i < (2 ^ w : Nat)) :
    (hd.set p (.int i)).bind (fun hd' => hd'.get p) = some (.num i.toNat) := by
  cases hd <;> cases p <;> simp [hdrLayer, Rfc.layout, Rfc.kindOf, Rfc.readOnly] at hlay hk hro <;>
    obtain ⟨rfl, rfl⟩ := hlay <;>
    simp (disch := omega) [Hdr.set, Hdr.get, PcapHdr.set, PcapHdr.get, EthHdr.set, EthHdr.get, VlanHdr.set, VlanHdr.get, Ipv4Hdr.set, Ipv4Hdr.get,
      Ipv6Hdr.set, Ipv6Hdr.get, TcpHdr.set, TcpHdr.get, UdpHdr.set, UdpHdr.get, checked_in_range, casted_in_range] <;> omega

/-- `tcp.flags = 0x12` on a header with reserved bits 0xA: read back 0x12; `tcp.dataoff = 9`: read back 9 -/
example (h : TcpHdr) : ((Hdr.tcp h).set .flags (.int 0x12)).bind (fun hd' => hd'.get .flags) = some (.num 0x12) :=
  set_get_in_range (.tcp h) .flags 104 8 0x12 rfl rfl rfl (by decide) (by decide)

theorem checked_out_of_range (hi : Nat) (i : Int) (h : i < 0 ∨ i > hi) : checked hi (.int i) = none := by
  simp [checked, h]

/-- headers whose setters check the range -/
def isChecked : Hdr → Bool
  | .eth _ | .vlan _ | .ipv4 _ => true
  | _ => false

set_option maxHeartbeats 2000000 in
/-- Ethernet, VLAN and IPv4 refuse an integer outside the RFC width: a runtime error, and nothing was changed -/
theorem set_checked_invalid (hd : Hdr) (p : PP) (o w : Nat) (i : Int) (hc : isChecked hd = true)
    (hlay : Rfc.layout (hdrLayer hd) p = some (o, w)) (hk : Rfc.kindOf (hdrLayer hd) p = .num)
    (hbad : i < 0 ∨ i ≥ (2 ^ w : Nat)) :
    hd.set p (.int i) = none := by
  cases hd <;> simp [isChecked] at hc <;> cases p <;> simp [hdrLayer, Rfc.layout, Rfc.kindOf] at hlay hk <;>
    obtain ⟨rfl, rfl⟩ := hlay <;>
    simp (disch := omega) [Hdr.set, EthHdr.set, VlanHdr.set, Ipv4Hdr.set, checked_out_of_range]

example (h : Ipv4Hdr) : (Hdr.ipv4 h).set .ttl (.int 256) = none :=
  set_checked_invalid (.ipv4 h) .ttl 64 8 256 rfl rfl rfl (by decide)

set_option maxHeartbeats 2000000 in
/-- **pcap record, IPv6, TCP and UDP store any integer reduced modulo 2^width, the width the RFC gives the field** -/
theorem set_cast_invalid (hd : Hdr) (p : PP) (o w : Nat) (i : Int) (hc : isChecked hd = false)
    (hlay : Rfc.layout (hdrLayer hd) p = some (o, w)) (hk : Rfc.kindOf (hdrLayer hd) p = .num)
    (hro : Rfc.readOnly (hdrLayer hd) p = false) :
    (hd.set p (.int i)).bind (fun hd' => hd'.get p) = some (.num (i % (2 ^ w : Nat)).toNat) := by
  cases hd <;> simp [isChecked] at hc <;> cases p <;>
    simp [hdrLayer, Rfc.layout, Rfc.kindOf, Rfc.readOnly] at hlay hk hro <;>
    obtain ⟨rfl, rfl⟩ := hlay <;>
    simp [Hdr.set, Hdr.get, PcapHdr.set, PcapHdr.get, Ipv6Hdr.set, Ipv6Hdr.get, TcpHdr.set, TcpHdr.get, UdpHdr.set, UdpHdr.get, casted, castU] <;>
    omega

/-- 21 bits into the flow label: 20 are kept; 0xAB into the data offset: 0xB; 0xABCD into the flags: 0xCD -/
example (h6 : Ipv6Hdr) (ht : TcpHdr) :
    ((Hdr.ipv6 h6).set .flowlabel (.int 0x1FFFFF)).bind (fun hd' => hd'.get .flowlabel) = some (.num 0xFFFFF) ∧
    ((Hdr.tcp ht).set .dataoff (.int 0xAB)).bind (fun hd' => hd'.get .dataoff) = some (.num 0xB) ∧
    ((Hdr.tcp ht).set .flags (.int 0xABCD)).bind (fun hd' => hd'.get .flags) = some (.num 0xCD) :=
  ⟨set_cast_invalid (.ipv6 h6) .flowlabel 12 20 _ rfl rfl rfl rfl, set_cast_invalid (.tcp ht) .dataoff 96 4 _ rfl rfl rfl rfl,
   set_cast_invalid (.tcp ht) .flags 104 8 _ rfl rfl rfl rfl⟩

set_option maxHeartbeats 2000000 in
/-- a value that is not an integer is refused by every numeric setter -/
theorem set_wrong_kind (hd : Hdr) (p : PP) (o w : Nat) (v : SetVal) (hv : ∀ i, v ≠ .int i)
    (hlay : Rfc.layout (hdrLayer hd) p = some (o, w)) (hk : Rfc.kindOf (hdrLayer hd) p = .num) :
    hd.set p v = none := by
  have hc : ∀ hi, checked hi v = none := by intro hi; cases v <;> simp_all [checked]
  have hcast : ∀ b, casted b v = none := by intro b; cases v <;> simp_all [casted]
  cases hd <;> cases p <;> simp [hdrLayer, Rfc.layout, Rfc.kindOf] at hlay hk <;>
    simp [Hdr.set, PcapHdr.set, EthHdr.set, VlanHdr.set, Ipv4Hdr.set, Ipv6Hdr.set, TcpHdr.set, UdpHdr.set, hc, hcast]

example (h : UdpHdr) : (Hdr.udp h).set .srcport (.str ['8', '0']) = none :=
  set_wrong_kind (.udp h) .srcport 0 16 _ (by intro i; simp) rfl rfl

/-- `version` is read-only -/
theorem set_version_refused (hd : Hdr) (v : SetVal) : hd.set .version v = none := by
  cases hd <;> simp [Hdr.set, PcapHdr.set, EthHdr.set, VlanHdr.set, Ipv4Hdr.set, Ipv6Hdr.set, TcpHdr.set, UdpHdr.set]

/-! ## serialise and re-parse -/

/-- reading a serialised header back: byte `i` of a byte string, 0 beyond its end -/
def reader (bs : Bytes) : Nat → Nat := fun i => bs.getD i 0

/-- the bytes appended after a fixed part are read back as they are -/
theorem read_back_tail (pre l : Bytes) :
    (List.range l.length).map (fun i => reader (pre ++ l) (pre.length + i)) = l := by
  apply List.ext_getElem
  · simp
  · intro i h1 h2
    simp [reader, List.getD_eq_getElem?_getD, List.getElem?_append_right, List.getElem?_eq_getElem h2]

theorem udp_reparse (h : UdpHdr) (h1 : h.srcport < 65536) (h2 : h.dstport < 65536) (h3 : h.len < 65536) (h4 : h.checksum < 65536) :
    UdpHdr.parse (reader h.toBytes) = h := by
  cases h
  simp [UdpHdr.parse, UdpHdr.toBytes, reader, be16, u16be] at *
  omega

theorem pcap_reparse (h : PcapHdr) (h1 : h.sec < 4294967296) (h2 : h.usec < 4294967296) (h3 : h.caplen < 4294967296)
    (h4 : h.wirelen < 4294967296) : PcapHdr.parse (reader h.toBytes) = h := by
  cases h
  simp [PcapHdr.parse, PcapHdr.toBytes, reader, le32, u32le] at *
  omega

theorem vlan_reparse (h : VlanHdr) (h1 : h.priority < 8) (h2 : h.vid < 4096) (h3 : h.ethertype < 65536) :
    VlanHdr.parse (reader h.toBytes) = h := by
  obtain ⟨pr, dei, vid, et⟩ := h
  cases dei <;> simp [VlanHdr.parse, VlanHdr.toBytes, reader, be16, u16be] at * <;> omega

theorem eth_reparse (d0 d1 d2 d3 d4 d5 s0 s1 s2 s3 s4 s5 et : Nat) (het : et < 65536) :
    EthHdr.parse (reader (EthHdr.toBytes ⟨[d0, d1, d2, d3, d4, d5], [s0, s1, s2, s3, s4, s5], et⟩)) =
      ⟨[d0, d1, d2, d3, d4, d5], [s0, s1, s2, s3, s4, s5], et⟩ := by
  simp [EthHdr.parse, EthHdr.toBytes, reader, be16, u16be]
  omega

example : EthHdr.parse (reader (EthHdr.toBytes ⟨[1, 2, 3, 4, 5, 6], [7, 8, 9, 10, 11, 12], 0x0800⟩)) =
    ⟨[1, 2, 3, 4, 5, 6], [7, 8, 9, 10, 11, 12], 0x0800⟩ := eth_reparse _ _ _ _ _ _ _ _ _ _ _ _ _ (by decide)


theorem range_map_getD (l : Bytes) : (List.range l.length).map (fun i => l.getD i 0) = l := by
  apply List.ext_getElem
  · simp
  · intro i h1 h2
    simp [List.getD_eq_getElem?_getD, List.getElem?_eq_getElem h2]

theorem ipv4_reparse (version ihl dscp ecn totlen ident flags fragoff ttl proto checksum a0 a1 a2 a3 b0 b1 b2 b3 : Nat) (opts : Bytes)
    (hv : version < 16) (hi : ihl < 16) (hd : dscp < 64) (he : ecn < 4) (ht : totlen < 65536) (hid : ident < 65536)
    (hf : flags < 8) (hfo : fragoff < 8192) (hc : checksum < 65536) (hopt : opts.length = max (ihl * 4) 20 - 20) :
    Ipv4Hdr.parse (reader (Ipv4Hdr.toBytes ⟨version, ihl, dscp, ecn, totlen, ident, flags, fragoff, ttl, proto, checksum, [a0, a1, a2, a3], [b0, b1, b2, b3], opts⟩)) =
      ⟨version, ihl, dscp, ecn, totlen, ident, flags, fragoff, ttl, proto, checksum, [a0, a1, a2, a3], [b0, b1, b2, b3], opts⟩ := by
  have hb0 : (version * 16 % 256 + ihl) % 256 % 16 = ihl := by omega
  have hn : max (ihl % 16 * 4) 20 - 20 = opts.length := by rw [hopt]; congr 2; omega
  simp [Ipv4Hdr.parse, Ipv4Hdr.toBytes, Ipv4Hdr.hdrLen, reader, be16, u16be, Nat.add_comm 20, hn]
  have hr := range_map_getD opts
  simp only [List.getD_eq_getElem?_getD] at hr
  refine ⟨by omega, by omega, by omega, by omega, by omega, by omega, by omega, by omega, by omega, hr⟩

theorem or_disjoint : ∀ x y : Fin 16, (x.val * 16) ||| y.val = x.val * 16 + y.val := by decide

theorem or_disjoint' (a b : Nat) (ha : a < 16) (hb : b < 16) : (a * 16) ||| b = a * 16 + b := or_disjoint ⟨a, ha⟩ ⟨b, hb⟩

/-- IPv6 comes back unchanged (every field within its width: the setters guarantee it) -/
theorem ipv6_reparse (version tc flow plen nh hop s0 s1 s2 s3 s4 s5 s6 s7 d0 d1 d2 d3 d4 d5 d6 d7 : Nat)
    (hv : version < 16) (htc : tc < 256) (hfl : flow < 1048576) (hpl : plen < 65536)
    (hs : ∀ g ∈ [s0, s1, s2, s3, s4, s5, s6, s7, d0, d1, d2, d3, d4, d5, d6, d7], g < 65536) :
    Ipv6Hdr.parse (reader (Ipv6Hdr.toBytes ⟨version, tc, flow, plen, nh, hop, [s0, s1, s2, s3, s4, s5, s6, s7], [d0, d1, d2, d3, d4, d5, d6, d7]⟩)) =
      ⟨version, tc, flow, plen, nh, hop, [s0, s1, s2, s3, s4, s5, s6, s7], [d0, d1, d2, d3, d4, d5, d6, d7]⟩ := by
  have e1 : tc * 16 % 256 = (tc % 16) * 16 := by omega
  have e2 : flow / 65536 % 256 = flow / 65536 := by omega
  have e3 := or_disjoint' (tc % 16) (flow / 65536) (by omega) (by omega)
  simp only [List.mem_cons, List.mem_nil_iff, or_false, forall_eq_or_imp, forall_eq] at hs
  simp only [Ipv6Hdr.toBytes, e1, e2, e3]
  simp [Ipv6Hdr.parse, reader, be16, u16be, v6Bytes, v6Groups, List.range, List.range.loop, List.flatMap]
  omega

/-- **TCP comes back unchanged**: data offset, reserved and control bits, urgent pointer, options -/
theorem tcp_reparse (srcport dstport seq ack dataoff flags win checksum urgent : Nat) (opts : Bytes)
    (h1 : srcport < 65536) (h2 : dstport < 65536) (h3 : seq < 4294967296) (h4 : ack < 4294967296) (hdo : dataoff < 16)
    (h5 : flags < 4096) (h6 : win < 65536) (h7 : checksum < 65536) (h8 : urgent < 65536)
    (hopt : opts.length = max (dataoff * 4) 20 - 20) :
    TcpHdr.parse (reader (TcpHdr.toBytes ⟨srcport, dstport, seq, ack, dataoff, flags, win, checksum, urgent, opts⟩)) =
      ⟨srcport, dstport, seq, ack, dataoff, flags, win, checksum, urgent, opts⟩ := by
  have hw : (dataoff % 16 * 4096 + flags % 4096) / 256 % 256 / 16 = dataoff := by omega
  have hn : max ((dataoff % 16 * 4096 + flags % 4096) / 256 % 256 / 16 * 4) 20 - 20 = opts.length := by rw [hw, hopt]
  have hr := range_map_getD opts
  simp only [List.getD_eq_getElem?_getD] at hr
  simp [TcpHdr.parse, TcpHdr.toBytes, TcpHdr.hdrLen, reader, be16, be32, u16be, u32be, Nat.add_comm 20, hn]
  refine ⟨by omega, by omega, by omega, by omega, by omega, by omega, by omega, by omega, by omega, hr⟩

example : TcpHdr.parse (reader (TcpHdr.toBytes ⟨80, 8080, 1, 2, 6, 0xA12, 512, 7, 0x1234, [1, 2, 3, 4]⟩)) =
    ⟨80, 8080, 1, 2, 6, 0xA12, 512, 7, 0x1234, [1, 2, 3, 4]⟩ :=
  tcp_reparse _ _ _ _ _ _ _ _ _ _ (by decide) (by decide) (by decide) (by decide) (by decide) (by decide) (by decide) (by decide) (by decide) (by decide)


example : Ipv4Hdr.parse (reader (Ipv4Hdr.toBytes ⟨4, 6, 1, 2, 50, 7, 2, 9, 64, 6, 0xABCD, [10, 0, 0, 1], [10, 0, 0, 2], [1, 2, 3, 4]⟩)) =
    ⟨4, 6, 1, 2, 50, 7, 2, 9, 64, 6, 0xABCD, [10, 0, 0, 1], [10, 0, 0, 2], [1, 2, 3, 4]⟩ :=
  ipv4_reparse _ _ _ _ _ _ _ _ _ _ _ _ _ _ _ _ _ _ _ _ (by decide) (by decide) (by decide) (by decide) (by decide) (by decide) (by decide)
    (by decide) (by decide) (by decide)

/-! ## assignments on a concrete packet: read back, written, re-parsed, read again -/

def numOf : Out → Option Nat
  | .ok (.int i) => some i.toInt.toNat
  | _ => none

/-- Ethernet + IPv4 + TCP (data offset 5, SYN/ACK, urgent pointer 0x1234) + two bytes -/
def tcpFrame : Bytes :=
  [0,1,2,3,4,5, 6,7,8,9,10,11, 8,0,
   0x45,0,0,42, 0,0,0,0, 64,6,0,0, 10,0,0,1, 10,0,0,2,
   0x1f,0x90,0,80, 0,0,0,1, 0,0,0,2, 0x50,0x12,0xff,0xff, 0xab,0xcd,0x12,0x34, 0xde,0xad]

def rec0 (raw : Bytes) : PcapHdr := { sec := 0, usec := 0, caplen := raw.length, wirelen := raw.length }

/-- `tcp.flags = 0x10`, `tcp.urgent = 7`, `tcp.srcport = 1`: each is read back, survives write + re-parse, and leaves
the data offset alone -/
example :
    ((Pkt.new (rec0 tcpFrame) tcpFrame).run
      [.set .pkt [.eth, .ipv4, .tcp, .flags] (.int 16), .set .pkt [.eth, .ipv4, .tcp, .urgent] (.int 7),
       .set .pkt [.eth, .ipv4, .tcp, .srcport] (.int 1), .get .pkt [.eth, .ipv4, .tcp, .flags], .reparse,
       .get .pkt [.eth, .ipv4, .tcp, .flags], .get .pkt [.eth, .ipv4, .tcp, .urgent], .get .pkt [.eth, .ipv4, .tcp, .srcport],
       .get .pkt [.eth, .ipv4, .tcp, .dataoff]]).2.map numOf
      = [some 16, some 7, some 1, some 16, none, some 16, some 7, some 1, some 5] := by
  decide

/-- Ethernet + IPv6 (traffic class 0, flow label 0) + UDP -/
def v6Frame : Bytes :=
  [0,1,2,3,4,5, 6,7,8,9,10,11, 0x86,0xdd,
   0x60,0,0,0, 0,8, 17, 64] ++ List.replicate 15 0 ++ [1] ++ List.replicate 15 0 ++ [2] ++ [0,53,0,53, 0,8,0,0]

/-- `ipv6.flowlabel = 0x1FFFFF` (21 bits): 20 bits are kept and the traffic class stays 0 after write + re-parse -/
example :
    ((Pkt.new (rec0 v6Frame) v6Frame).run
      [.set .pkt [.eth, .ipv6, .flowlabel] (.int 0x1FFFFF), .get .pkt [.eth, .ipv6, .flowlabel], .reparse,
       .get .pkt [.eth, .ipv6, .trafficclass], .get .pkt [.eth, .ipv6, .flowlabel]]).2.map numOf
      = [some 0x1FFFFF, some 0xFFFFF, none, some 0, some 0xFFFFF] := by
  decide

end P2sh.Props.C17
