import P2sh.Model.Proto
import P2sh.Spec.Rfc
import P2sh.Props.C16
import P2sh.Props.C15
/-!
# C17 — assigning a header field changes exactly that field

Per header (pcap record, Ethernet, VLAN, IPv4, IPv6, TCP, UDP), over the `set_*` / `get_*` models:

* `set_frame` — an accepted assignment to `p` leaves every other getter unchanged (only `tcp.len` / `tcp.dataoff`
  are two names of one field);
* `set_get_in_range` — an integer within the RFC width of a writable numeric field is accepted and read back;
* `set_checked_invalid` — Ethernet / VLAN / IPv4 refuse an out-of-range integer (nothing changes);
  `set_cast_invalid_partial` — pcap / IPv6 / TCP / UDP store it modulo 2^width, where the width is the RFC one for
  every field except `tcp.dataoff` (8 bits kept instead of 4), `tcp.flags` (16 instead of 8) and `ipv6.flowlabel`
  (32 instead of 20): witnesses `tcp_dataoff_keeps_8_bits_witness`, `tcp_flags_keeps_16_bits_witness`,
  `ipv6_flowlabel_keeps_32_bits_witness`;
* `set_wrong_kind` — a value that is not an integer is refused by every numeric setter;
* `*_reparse` — serialise-then-parse gives the header back (UDP, VLAN, pcap record, Ethernet, IPv4 in full; IPv6 when the
  flow label fits 20 bits; TCP for every field but the data offset and the urgent pointer);
  `tcp_dataoff_lost_witness`, `tcp_flags_clobber_dataoff_witness`, `tcp_urgent_lost_witness`,
  `ipv6_flowlabel_spills_witness` run the assignment, the serialisation and the re-parse on a concrete packet.
-/
namespace P2sh.Props.C17
open P2sh P2sh.Proto P2sh.Spec
open P2sh.Props.C16 (hdrLayer)
open P2sh.Props.C15 (tcpFrame rec0)

/-! ## other properties are unchanged -/

theorem pcap_set_frame (h h' : PcapHdr) (p q : PP) (v : SetVal) (hs : h.set p v = some h') (hq : q ≠ p) :
    h'.get q = h.get q := by
  cases p <;> simp only [PcapHdr.set, Option.map_eq_some_iff] at hs <;>
    first
    | (cases hs; done)
    | (obtain ⟨n, -, rfl⟩ := hs; cases q <;> first | rfl | exact absurd rfl hq)

theorem eth_set_frame (h h' : EthHdr) (p q : PP) (v : SetVal) (hs : h.set p v = some h') (hq : q ≠ p) :
    h'.get q = h.get q := by
  cases p <;> simp only [EthHdr.set, Option.map_eq_some_iff] at hs <;>
    first
    | (cases hs; done)
    | (obtain ⟨n, -, rfl⟩ := hs; cases q <;> first | rfl | exact absurd rfl hq)

theorem vlan_set_frame (h h' : VlanHdr) (p q : PP) (v : SetVal) (hs : h.set p v = some h') (hq : q ≠ p) :
    h'.get q = h.get q := by
  cases p <;> simp only [VlanHdr.set, Option.map_eq_some_iff] at hs <;>
    first
    | (cases hs; done)
    | (obtain ⟨n, -, rfl⟩ := hs; cases q <;> first | rfl | exact absurd rfl hq)
    | (cases v <;> simp at hs; subst hs; cases q <;> first | rfl | exact absurd rfl hq)

theorem ipv4_set_frame (h h' : Ipv4Hdr) (p q : PP) (v : SetVal) (hs : h.set p v = some h') (hq : q ≠ p) :
    h'.get q = h.get q := by
  cases p <;> simp only [Ipv4Hdr.set, Option.map_eq_some_iff] at hs <;>
    first
    | (cases hs; done)
    | (obtain ⟨n, -, rfl⟩ := hs; cases q <;> first | rfl | exact absurd rfl hq)

theorem ipv6_set_frame (h h' : Ipv6Hdr) (p q : PP) (v : SetVal) (hs : h.set p v = some h') (hq : q ≠ p) :
    h'.get q = h.get q := by
  cases p <;> simp only [Ipv6Hdr.set, Option.map_eq_some_iff] at hs <;>
    first
    | (cases hs; done)
    | (obtain ⟨n, -, rfl⟩ := hs; cases q <;> first | rfl | exact absurd rfl hq)

/-- `len` and `dataoff` are the same TCP field; apart from that pair nothing else moves -/
theorem tcp_set_frame (h h' : TcpHdr) (p q : PP) (v : SetVal) (hs : h.set p v = some h') (hq : q ≠ p)
    (halias : ¬(p = .dataoff ∧ q = .len) ∧ ¬(p = .len ∧ q = .dataoff)) :
    h'.get q = h.get q := by
  cases p <;> simp only [TcpHdr.set, Option.map_eq_some_iff] at hs <;>
    first
    | (cases hs; done)
    | (obtain ⟨n, -, rfl⟩ := hs; cases q <;> first | rfl | exact absurd rfl hq | simp at halias)

theorem udp_set_frame (h h' : UdpHdr) (p q : PP) (v : SetVal) (hs : h.set p v = some h') (hq : q ≠ p) :
    h'.get q = h.get q := by
  cases p <;> simp only [UdpHdr.set, Option.map_eq_some_iff] at hs <;>
    first
    | (cases hs; done)
    | (obtain ⟨n, -, rfl⟩ := hs; cases q <;> first | rfl | exact absurd rfl hq)

/-- **other properties read as before** — for every header kind -/
theorem set_frame (hd hd' : Hdr) (p q : PP) (v : SetVal) (hs : hd.set p v = some hd') (hq : q ≠ p)
    (halias : ¬(p = .dataoff ∧ q = .len) ∧ ¬(p = .len ∧ q = .dataoff)) :
    hd'.get q = hd.get q := by
  cases hd <;> simp only [Hdr.set, Option.map_eq_some_iff] at hs <;> obtain ⟨x, hx, rfl⟩ := hs <;> simp only [Hdr.get]
  · exact pcap_set_frame _ _ p q v hx hq
  · exact eth_set_frame _ _ p q v hx hq
  · exact vlan_set_frame _ _ p q v hx hq
  · exact ipv4_set_frame _ _ p q v hx hq
  · exact ipv6_set_frame _ _ p q v hx hq
  · exact tcp_set_frame _ _ p q v hx hq halias
  · exact udp_set_frame _ _ p q v hx hq

/-! ## set then get; invalid values -/


theorem castU_in_range (bits : Nat) (i : Int) (h0 : 0 ≤ i) (h1 : i < (2 ^ bits : Nat)) : castU bits i = i.toNat := by
  unfold castU
  rw [Int.emod_eq_of_lt h0 h1]

theorem checked_in_range (hi : Nat) (i : Int) (h0 : 0 ≤ i) (h1 : i ≤ hi) : checked hi (.int i) = some i.toNat := by
  simp [checked]; omega

theorem casted_in_range (bits : Nat) (i : Int) (h0 : 0 ≤ i) (h1 : i < (2 ^ bits : Nat)) : casted bits (.int i) = some i.toNat := by
  simp [casted, castU_in_range bits i h0 h1]

set_option maxHeartbeats 2000000 in
/-- **set then get**: an integer within the RFC width of a writable numeric field is accepted and is what the getter then returns -/
theorem set_get_in_range (hd : Hdr) (p : PP) (o w : Nat) (i : Int)
    (hlay : Rfc.layout (hdrLayer hd) p = some (o, w)) (hk : Rfc.kindOf (hdrLayer hd) p = .num)
    (hro : Rfc.readOnly (hdrLayer hd) p = false) (h0 : 0 ≤ i) (h1 : i < (2 ^ w : Nat)) :
    (hd.set p (.int i)).bind (fun hd' => hd'.get p) = some (.num i.toNat) := by
  cases hd <;> cases p <;> simp [hdrLayer, Rfc.layout, Rfc.kindOf, Rfc.readOnly] at hlay hk hro <;>
    obtain ⟨rfl, rfl⟩ := hlay <;>
    simp (disch := omega) [Hdr.set, Hdr.get, PcapHdr.set, PcapHdr.get, EthHdr.set, EthHdr.get, VlanHdr.set, VlanHdr.get, Ipv4Hdr.set, Ipv4Hdr.get,
      Ipv6Hdr.set, Ipv6Hdr.get, TcpHdr.set, TcpHdr.get, UdpHdr.set, UdpHdr.get, checked_in_range, casted_in_range]


theorem checked_out_of_range (hi : Nat) (i : Int) (h : i < 0 ∨ i > hi) : checked hi (.int i) = none := by
  simp [checked, h]

/-- headers whose setters check the range -/
def isChecked : Hdr → Bool
  | .eth _ | .vlan _ | .ipv4 _ => true
  | _ => false

set_option maxHeartbeats 2000000 in
/-- Ethernet, VLAN and IPv4 refuse an integer outside the RFC width: a runtime error, and nothing was changed -/
theorem set_checked_invalid (hd : Hdr) (p : PP) (o w : Nat) (i : Int) (hc : isChecked hd = true)
    (hlay : Rfc.layout (hdrLayer hd) p = some (o, w)) (hk : Rfc.kindOf (hdrLayer hd) p = .num)
    (hbad : i < 0 ∨ i ≥ (2 ^ w : Nat)) :
    hd.set p (.int i) = none := by
  cases hd <;> simp [isChecked] at hc <;> cases p <;> simp [hdrLayer, Rfc.layout, Rfc.kindOf] at hlay hk <;>
    obtain ⟨rfl, rfl⟩ := hlay <;>
    simp (disch := omega) [Hdr.set, EthHdr.set, VlanHdr.set, Ipv4Hdr.set, checked_out_of_range]

/-- the three cast setters that keep more bits than the field has -/
def keepsTooManyBits : Hdr → PP → Bool
  | .tcp _, .dataoff | .tcp _, .len | .tcp _, .flags | .ipv6 _, .flowlabel => true
  | _, _ => false

set_option maxHeartbeats 2000000 in
/-- pcap record, IPv6, TCP and UDP store any integer reduced modulo 2^width — the RFC width, three setters excepted -/
theorem set_cast_invalid_partial (hd : Hdr) (p : PP) (o w : Nat) (i : Int) (hc : isChecked hd = false)
    (hlay : Rfc.layout (hdrLayer hd) p = some (o, w)) (hk : Rfc.kindOf (hdrLayer hd) p = .num)
    (hro : Rfc.readOnly (hdrLayer hd) p = false) (hx : keepsTooManyBits hd p = false) :
    (hd.set p (.int i)).bind (fun hd' => hd'.get p) = some (.num (i % (2 ^ w : Nat)).toNat) := by
  cases hd <;> simp [isChecked] at hc <;> cases p <;>
    simp [hdrLayer, Rfc.layout, Rfc.kindOf, Rfc.readOnly, keepsTooManyBits] at hlay hk hro hx <;>
    obtain ⟨rfl, rfl⟩ := hlay <;>
    simp [Hdr.set, Hdr.get, PcapHdr.set, PcapHdr.get, Ipv6Hdr.set, Ipv6Hdr.get, TcpHdr.set, TcpHdr.get, UdpHdr.set, UdpHdr.get, casted, castU]

theorem tcp_dataoff_keeps_8_bits_witness (h : TcpHdr) :
    ((Hdr.tcp h).set .dataoff (.int 0xAB)).bind (fun hd' => hd'.get .dataoff) = some (.num 0xAB) := by
  simp [Hdr.set, Hdr.get, TcpHdr.set, TcpHdr.get, casted, castU]

theorem tcp_flags_keeps_16_bits_witness (h : TcpHdr) :
    ((Hdr.tcp h).set .flags (.int 0xABCD)).bind (fun hd' => hd'.get .flags) = some (.num 0xABCD) := by
  simp [Hdr.set, Hdr.get, TcpHdr.set, TcpHdr.get, casted, castU]

theorem ipv6_flowlabel_keeps_32_bits_witness (h : Ipv6Hdr) :
    ((Hdr.ipv6 h).set .flowlabel (.int 0xFFFFFFFF)).bind (fun hd' => hd'.get .flowlabel) = some (.num 0xFFFFFFFF) := by
  simp [Hdr.set, Hdr.get, Ipv6Hdr.set, Ipv6Hdr.get, casted, castU]

set_option maxHeartbeats 2000000 in
/-- a value that is not an integer is refused by every numeric setter -/
theorem set_wrong_kind (hd : Hdr) (p : PP) (o w : Nat) (v : SetVal) (hv : ∀ i, v ≠ .int i)
    (hlay : Rfc.layout (hdrLayer hd) p = some (o, w)) (hk : Rfc.kindOf (hdrLayer hd) p = .num) :
    hd.set p v = none := by
  have hc : ∀ hi, checked hi v = none := by intro hi; cases v <;> simp_all [checked]
  have hcast : ∀ b, casted b v = none := by intro b; cases v <;> simp_all [casted]
  cases hd <;> cases p <;> simp [hdrLayer, Rfc.layout, Rfc.kindOf] at hlay hk <;>
    simp [Hdr.set, PcapHdr.set, EthHdr.set, VlanHdr.set, Ipv4Hdr.set, Ipv6Hdr.set, TcpHdr.set, UdpHdr.set, hc, hcast]

/-- `version` is read-only -/
theorem set_version_refused (hd : Hdr) (v : SetVal) : hd.set .version v = none := by
  cases hd <;> simp [Hdr.set, PcapHdr.set, EthHdr.set, VlanHdr.set, Ipv4Hdr.set, Ipv6Hdr.set, TcpHdr.set, UdpHdr.set]

/-! ## serialise and re-parse -/


/-- reading a serialised header back: byte `i` of a byte string, 0 beyond its end -/
def reader (bs : Bytes) : Nat → Nat := fun i => bs.getD i 0

theorem udp_reparse (h : UdpHdr) (h1 : h.srcport < 65536) (h2 : h.dstport < 65536) (h3 : h.len < 65536) (h4 : h.checksum < 65536) :
    UdpHdr.parse (reader h.toBytes) = h := by
  cases h
  simp [UdpHdr.parse, UdpHdr.toBytes, reader, be16, u16be] at *
  omega

theorem pcap_reparse (h : PcapHdr) (h1 : h.sec < 4294967296) (h2 : h.usec < 4294967296) (h3 : h.caplen < 4294967296)
    (h4 : h.wirelen < 4294967296) : PcapHdr.parse (reader h.toBytes) = h := by
  cases h
  simp [PcapHdr.parse, PcapHdr.toBytes, reader, le32, u32le] at *
  omega

theorem vlan_reparse (h : VlanHdr) (h1 : h.priority < 8) (h2 : h.vid < 4096) (h3 : h.ethertype < 65536) :
    VlanHdr.parse (reader h.toBytes) = h := by
  obtain ⟨pr, dei, vid, et⟩ := h
  cases dei <;> simp [VlanHdr.parse, VlanHdr.toBytes, reader, be16, u16be] at * <;> omega

theorem eth_reparse (d0 d1 d2 d3 d4 d5 s0 s1 s2 s3 s4 s5 et : Nat) (het : et < 65536) :
    EthHdr.parse (reader (EthHdr.toBytes ⟨[d0, d1, d2, d3, d4, d5], [s0, s1, s2, s3, s4, s5], et⟩)) =
      ⟨[d0, d1, d2, d3, d4, d5], [s0, s1, s2, s3, s4, s5], et⟩ := by
  simp [EthHdr.parse, EthHdr.toBytes, reader, be16, u16be]
  omega

theorem ipv4_reparse (version ihl dscp ecn totlen ident flags fragoff ttl proto checksum a0 a1 a2 a3 b0 b1 b2 b3 : Nat)
    (hv : version < 16) (hi : ihl < 16) (hd : dscp < 64) (he : ecn < 4) (ht : totlen < 65536) (hid : ident < 65536)
    (hf : flags < 8) (hfo : fragoff < 8192) (hc : checksum < 65536) :
    Ipv4Hdr.parse (reader (Ipv4Hdr.toBytes ⟨version, ihl, dscp, ecn, totlen, ident, flags, fragoff, ttl, proto, checksum, [a0, a1, a2, a3], [b0, b1, b2, b3], []⟩)) =
      ⟨version, ihl, dscp, ecn, totlen, ident, flags, fragoff, ttl, proto, checksum, [a0, a1, a2, a3], [b0, b1, b2, b3], []⟩ := by
  simp [Ipv4Hdr.parse, Ipv4Hdr.toBytes, reader, be16, u16be]
  omega

/-- TCP: what comes back after serialise + parse.  The data offset is whatever the top nibble of `flags` says and the
urgent pointer is the next two bytes of the stream (0 here: nothing follows) — both differ from the header written. -/
theorem tcp_reparse_partial (h : TcpHdr) (h1 : h.srcport < 65536) (h2 : h.dstport < 65536) (h3 : h.seq < 4294967296)
    (h4 : h.ack < 4294967296) (h5 : h.flags < 65536) (h6 : h.win < 65536) (h7 : h.checksum < 65536) (h8 : h.options = []) :
    TcpHdr.parse (reader h.toBytes) = { h with dataoff := h.flags / 4096, urgent := 0 } := by
  cases h
  simp only at h8
  subst h8
  simp [TcpHdr.parse, TcpHdr.toBytes, reader, be16, be32, u16be, u32be] at *
  omega


theorem or_disjoint : ∀ x y : Fin 16, (x.val * 16) ||| y.val = x.val * 16 + y.val := by decide

theorem or_disjoint' (a b : Nat) (ha : a < 16) (hb : b < 16) : (a * 16) ||| b = a * 16 + b := or_disjoint ⟨a, ha⟩ ⟨b, hb⟩

/-- IPv6 comes back unchanged when the flow label fits its 20 bits -/
theorem ipv6_reparse_partial (version tc flow plen nh hop s0 s1 s2 s3 s4 s5 s6 s7 d0 d1 d2 d3 d4 d5 d6 d7 : Nat)
    (hv : version < 16) (htc : tc < 256) (hfl : flow < 1048576) (hpl : plen < 65536) 
    (hs : ∀ g ∈ [s0, s1, s2, s3, s4, s5, s6, s7, d0, d1, d2, d3, d4, d5, d6, d7], g < 65536) :
    Ipv6Hdr.parse (reader (Ipv6Hdr.toBytes ⟨version, tc, flow, plen, nh, hop, [s0, s1, s2, s3, s4, s5, s6, s7], [d0, d1, d2, d3, d4, d5, d6, d7]⟩)) =
      ⟨version, tc, flow, plen, nh, hop, [s0, s1, s2, s3, s4, s5, s6, s7], [d0, d1, d2, d3, d4, d5, d6, d7]⟩ := by
  have e1 : tc * 16 % 256 = (tc % 16) * 16 := by omega
  have e2 : flow / 65536 % 256 = flow / 65536 := by omega
  have e3 := or_disjoint' (tc % 16) (flow / 65536) (by omega) (by omega)
  simp only [List.mem_cons, List.mem_nil_iff, or_false, forall_eq_or_imp, forall_eq] at hs
  simp only [Ipv6Hdr.toBytes, e1, e2, e3]
  simp [Ipv6Hdr.parse, reader, be16, u16be, v6Bytes, v6Groups, List.range, List.range.loop, List.flatMap]
  omega

/-! ## the violations present today, on concrete packets -/


def numOf : Out → Option Nat
  | .ok (.int i) => some i.toInt.toNat
  | _ => none

def outNums (os : List Out) : List (Option Nat) := os.map numOf

/-- `tcp.dataoff = 9`: read back as 9, but the bytes written still say 5, and so does the re-parsed packet -/
theorem tcp_dataoff_lost_witness :
    outNums ((Pkt.new (rec0 tcpFrame) tcpFrame).run
      [.set .pkt [.eth, .ipv4, .tcp, .dataoff] (.int 9), .get .pkt [.eth, .ipv4, .tcp, .dataoff], .reparse,
       .get .pkt [.eth, .ipv4, .tcp, .dataoff]]).2 = [some 9, some 9, none, some 5] := by
  decide

/-- `tcp.flags = 0x10` (ACK): the data offset nibble of the written header becomes 0 -/
theorem tcp_flags_clobber_dataoff_witness :
    outNums ((Pkt.new (rec0 tcpFrame) tcpFrame).run
      [.get .pkt [.eth, .ipv4, .tcp, .dataoff], .set .pkt [.eth, .ipv4, .tcp, .flags] (.int 16), .reparse,
       .get .pkt [.eth, .ipv4, .tcp, .dataoff], .get .pkt [.eth, .ipv4, .tcp, .flags]]).2 = [some 5, some 16, none, some 0, some 16] := by
  decide

/-- `tcp.urgent = 7`: read back as 7, but never written; after re-parsing the field holds the first payload bytes (0xdead) -/
theorem tcp_urgent_lost_witness :
    outNums ((Pkt.new (rec0 tcpFrame) tcpFrame).run
      [.set .pkt [.eth, .ipv4, .tcp, .urgent] (.int 7), .get .pkt [.eth, .ipv4, .tcp, .urgent], .reparse,
       .get .pkt [.eth, .ipv4, .tcp, .urgent]]).2 = [some 7, some 7, none, some 0xdead] := by
  decide

/-- Ethernet + IPv6 (traffic class 0, flow label 0) + UDP -/
def v6Frame : Bytes :=
  [0,1,2,3,4,5, 6,7,8,9,10,11, 0x86,0xdd,
   0x60,0,0,0, 0,8, 17, 64] ++ List.replicate 15 0 ++ [1] ++ List.replicate 15 0 ++ [2] ++ [0,53,0,53, 0,8,0,0]

/-- `ipv6.flowlabel = 0x1FFFFF` (21 bits): read back as such, and the traffic class of the written packet becomes 1 -/
theorem ipv6_flowlabel_spills_witness :
    outNums ((Pkt.new (rec0 v6Frame) v6Frame).run
      [.get .pkt [.eth, .ipv6, .trafficclass], .set .pkt [.eth, .ipv6, .flowlabel] (.int 0x1FFFFF), .get .pkt [.eth, .ipv6, .flowlabel],
       .reparse, .get .pkt [.eth, .ipv6, .trafficclass], .get .pkt [.eth, .ipv6, .flowlabel]]).2
      = [some 0, some 0x1FFFFF, some 0x1FFFFF, none, some 1, some 0xFFFFF] := by
  decide

end P2sh.Props.C17
