import P2sh.Model.Proto
import P2sh.Spec.Rfc
import P2sh.Props.C16
/-!
# C16, continued — IPv6 text and `$n`

* `hex16L_is_reference_digits` — the group printer `{:x}` of a `u16` is the reference's shortest lower-case digit string,
  for all 65 536 group values (by the number of significant nibbles, not by enumeration);
  `v6_text_is_reference` — hence the text `Display` prints for an IPv6 address is the reference's full lower-case
  rendering, and is one of the renderings the reference accepts (`v6_text_in_reference_renderings`);
  `v6_getter_is_reference` — the `src` / `dst` getters of a parsed IPv6 header print the eight 16-bit slices
  `Rfc.layout` names.
* `dollar_n` — `$n` on a freshly built packet hands to its continuation the object the reference cursor
  `Rfc.downN n` stands for: the layer the type fields select, parsed at the offset the length fields give, the error
  object for a truncated layer, null where no supported layer follows; nothing is demanded below a malformed header.
  `dollar_n_access` is the same for the model's `access` (`0 ≤ n ≤ MAX_PROTO_DEPTH`, against `Rfc.headCur`), with the
  value the script sees.
-/
namespace P2sh.Props.C16
open P2sh P2sh.Proto P2sh.Spec

/-! ## IPv6 text -/

/-- **the model's `{:x}` of a 16-bit group is the reference's digit string, for every group value** -/
theorem hex16L_is_reference_digits (g : Nat) (hg : g < 65536) : hex16L g = (Rfc.digits 16 0 g).map Rfc.digitL := by
  have e : Rfc.digitL = lowerDigit := rfl
  unfold hex16L
  by_cases h1 : g < 16
  · have : g % 16 = g := by omega
    simp [Rfc.digits, List.range, List.range.loop, h1, e, this]
  · by_cases h2 : g < 256
    · have a : g / 16 % 16 = g / 16 := by omega
      simp [Rfc.digits, List.range, List.range.loop, h1, h2, e, a]
    · by_cases h3 : g < 4096
      · have a : g / 256 % 16 = g / 256 := by omega
        simp [Rfc.digits, List.range, List.range.loop, h1, h2, h3, e, a]
      · simp [Rfc.digits, List.range, List.range.loop, h1, h2, h3, e, hg]

/-- one to four digits, by the leading nibble that is not zero -/
example : hex16L 0 = ['0'] ∧ hex16L 0xa = ['a'] ∧ hex16L 0x10 = ['1', '0'] ∧ hex16L 0xabc = ['a', 'b', 'c'] ∧
    hex16L 0x1000 = ['1', '0', '0', '0'] ∧ hex16L 0xffff = ['f', 'f', 'f', 'f'] ∧
    (Rfc.digits 16 0 0xabc).map Rfc.digitL = ['a', 'b', 'c'] := by decide

/-- **the IPv6 text the code prints is the reference's full lower-case rendering** -/
theorem v6_text_is_reference (a : List Nat) (ha : ∀ g ∈ a, g < 65536) : showV6 a = Rfc.showV6Full Rfc.digitL 0 a := by
  simp only [showV6, Rfc.showV6Full, joinSep_eq_join]
  congr 1
  apply List.map_congr_left
  intro g hg
  exact hex16L_is_reference_digits g (ha g hg)

/-- and therefore one of the renderings the reference accepts as the textual form of the address -/
theorem v6_text_in_reference_renderings (a : List Nat) (ha : ∀ g ∈ a, g < 65536) : showV6 a ∈ Rfc.showV6All a := by
  rw [v6_text_is_reference a ha, Rfc.showV6All, List.mem_eraseDups]
  simp

example : showV6 [0xfe80, 0, 0, 0, 1, 0xabcd, 0xffff, 0x10] = "fe80:0:0:0:1:abcd:ffff:10".toList ∧
    Rfc.showV6Full Rfc.digitL 0 [0xfe80, 0, 0, 0, 1, 0xabcd, 0xffff, 0x10] = "fe80:0:0:0:1:abcd:ffff:10".toList := by decide

example : showV6 [0xfe80, 0, 0, 0, 1, 0xabcd, 0xffff, 0x10] ∈ Rfc.showV6All [0xfe80, 0, 0, 0, 1, 0xabcd, 0xffff, 0x10] :=
  v6_text_in_reference_renderings _ (by decide)

/-- the eight 16-bit slices of an address field -/
def v6Slices (bs : List Nat) (o : Nat) : List Nat := (List.range 8).map fun i => Rfc.bitSlice bs (o + 16 * i) 16

/-- **the IPv6 address getters print the eight 16-bit slices `Rfc.layout` names, in a rendering the reference accepts** -/
theorem v6_getter_is_reference (p : PP) (o w : Nat) (b : Nat → Nat) (hb : ∀ i, b i < 256)
    (hlay : Rfc.layout .ipv6 p = some (o, w)) (hk : Rfc.kindOf .ipv6 p = .v6) :
    ∃ t, (parseAs .ipv6 b).get p = some (.text t) ∧ t = Rfc.showV6Full Rfc.digitL 0 (v6Slices (hdrBytes b 40) o) ∧
      t ∈ Rfc.showV6All (v6Slices (hdrBytes b 40) o) := by
  have hsl : ∀ k, k + 1 < 40 → Rfc.bitSlice (hdrBytes b 40) (8 * k) 16 = b k * 256 + b (k + 1) := by
    intro k hk
    have h1 := hb k; have h2 := hb (k + 1)
    have e1 : (8 * k + 16 + 7) / 8 = k + 2 := by omega
    have e2 : 8 * k / 8 = k := by omega
    simp only [Rfc.bitSlice, e1, e2]
    have e3 : k + 2 - k = 2 := by omega
    simp [e3, List.range, List.range.loop, Rfc.beNat, byteAt_hdr, hk, Nat.lt_of_succ_lt hk]
    have e4 : 8 * (k + 2) - (8 * k + 16) = 0 := by omega
    rw [e4]; simp; omega
  have hrange : ∀ c : Nat → Nat, (∀ i, c i < 256) → ∀ g ∈ v6Groups c, g < 65536 := by
    intro c hc g hg
    simp only [v6Groups, List.mem_map, List.mem_range] at hg
    obtain ⟨i, _, rfl⟩ := hg
    have := hc (2 * i); have := hc (2 * i + 1); omega
  cases p <;> simp [Rfc.layout, Rfc.kindOf] at hlay hk <;> obtain ⟨rfl, rfl⟩ := hlay
  · -- src
    have hg : v6Slices (hdrBytes b 40) 64 = v6Groups (fun i => b (8 + i)) := by
      simp only [v6Slices, v6Groups]
      apply List.map_congr_left
      intro i hi
      have hi' : i < 8 := List.mem_range.mp hi
      have := hsl (8 + 2 * i) (by omega)
      have e : 64 + 16 * i = 8 * (8 + 2 * i) := by omega
      rw [e, this, Nat.add_assoc]
    refine ⟨_, rfl, ?_, ?_⟩
    · rw [hg]; exact v6_text_is_reference _ (hrange (fun i => b (8 + i)) (fun i => hb (8 + i)))
    · rw [hg]; exact v6_text_in_reference_renderings _ (hrange (fun i => b (8 + i)) (fun i => hb (8 + i)))
  · -- dst
    have hg : v6Slices (hdrBytes b 40) 192 = v6Groups (fun i => b (24 + i)) := by
      simp only [v6Slices, v6Groups]
      apply List.map_congr_left
      intro i hi
      have hi' : i < 8 := List.mem_range.mp hi
      have := hsl (24 + 2 * i) (by omega)
      have e : 192 + 16 * i = 8 * (24 + 2 * i) := by omega
      rw [e, this, Nat.add_assoc]
    refine ⟨_, rfl, ?_, ?_⟩
    · rw [hg]; exact v6_text_is_reference _ (hrange (fun i => b (24 + i)) (fun i => hb (24 + i)))
    · rw [hg]; exact v6_text_in_reference_renderings _ (hrange (fun i => b (24 + i)) (fun i => hb (24 + i)))

/-! ## `$n` -/

/-- the object a cursor of the reference stands for: the layer parsed at the cursor's offset with nothing cached below
it, the error object, null; a free cursor demands nothing -/
def Stands (raw : List Nat) : Obj → Rfc.Cur → Prop
  | o, .at l s _ _ =>
      (l = .record ∧ s = 0 ∧ ∃ ph, o = .layer (.pcap ph) 0 .none) ∨
      (l ≠ .record ∧ o = .layer (parseAs l (rd raw s)) (s + Rfc.headerLen raw l s) .none)
  | o, .err => o = .err
  | o, .null => o = .val .null
  | _, .free => True

theorem downN_free (st : Rfc.SState) : ∀ n, Rfc.downN st n .free = .free := by
  intro n; induction n with
  | zero => rfl
  | succ n ih => simpa [Rfc.downN, Rfc.down] using ih

theorem downN_null (st : Rfc.SState) : ∀ n, Rfc.downN st n .null = .null := by
  intro n; induction n with
  | zero => rfl
  | succ n ih => simpa [Rfc.downN, Rfc.down] using ih

/-- whatever the depth, `get_inner` ends by handing some object to its continuation -/
theorem descend_ends (raw : List Nat) (kf : Obj → Obj × StepOut) : ∀ n o, ∃ o', (descend raw kf n o).2 = (kf o').2 := by
  intro n
  induction n with
  | zero => intro o; exact ⟨o, rfl⟩
  | succ n ih =>
    intro o
    cases o with
    | none => exact ⟨_, rfl⟩
    | err => exact ⟨_, rfl⟩
    | val v => exact ⟨_, rfl⟩
    | layer h off inner =>
      cases inner with
      | none =>
        simp only [descend, innerStep]
        split
        · exact ih _
        · exact ⟨_, rfl⟩
      | err => exact ih _
      | val v => exact ih _
      | layer a b c => exact ih _

theorem hdrLayer_parseAs (l : Rfc.Layer) (b : Nat → Nat) : hdrLayer (parseAs l b) = l := by cases l <;> rfl

/-- the type field of a parsed header is the bit slice the reference reads the next layer from -/
theorem typeVal_is_slice (raw : List Nat) (hw : wf raw) (l : Rfc.Layer) (s : Nat) (tf : PP) (o w : Nat)
    (htf : Rfc.typeField l = some tf) (hlay : Rfc.layout l tf = some (o, w)) :
    typeVal (parseAs l (rd raw s)) = Rfc.bitSlice (raw.drop s) o w := by
  have h6 := getB_lt hw (s + 6); have h9 := getB_lt hw (s + 9)
  have h12 := getB_lt hw (s + 12); have h13 := getB_lt hw (s + 13)
  have h2 := getB_lt hw (s + 2); have h3 := getB_lt hw (s + 3)
  cases l <;> simp [Rfc.typeField] at htf <;> subst htf <;> simp [Rfc.layout] at hlay <;> obtain ⟨rfl, rfl⟩ := hlay <;>
    simp [typeVal, parseAs, EthHdr.parse, VlanHdr.parse, Ipv4Hdr.parse, Ipv6Hdr.parse, u16be,
      Rfc.bitSlice, Rfc.beNat, byteAt_drop, rd, List.range, List.range.loop] <;> omega

/-- **one level**: below a complete layer the model parses the layer the reference's table selects, at the offset the
reference computes — or finds none where the table has no entry -/
theorem inner_agrees (raw : List Nat) (hw : wf raw) (l : Rfc.Layer) (s d : Nat) (ends : List Nat) (h : Hdr) (off : Nat)
    (hs : Stands raw (.layer h off .none) (.at l s d ends)) :
    (dispatch h = none ∧ Rfc.innerOf raw l s = none) ∨
    (∃ k, dispatch h = some k ∧ Rfc.innerOf raw l s = some (kindLayer k, off)) := by
  rcases hs with ⟨rfl, rfl, ph, e⟩ | ⟨hl, e⟩
  · cases e; right; exact ⟨.eth, rfl, rfl⟩
  · cases e
    have hd := dispatch_agrees (parseAs l (rd raw s)) (by intro ph; cases l <;> simp_all [parseAs])
    rw [hdrLayer_parseAs] at hd
    cases htf : Rfc.typeField l with
    | none =>
      have hnl : ∀ v, Rfc.nextLayer l v = none := by intro v; cases l <;> simp_all [Rfc.typeField, Rfc.nextLayer]
      rw [hnl] at hd
      left
      refine ⟨by simpa using hd, ?_⟩
      cases l <;> simp_all [Rfc.innerOf]
    | some tf =>
      have hlay : ∃ o w, Rfc.layout l tf = some (o, w) := by
        cases l <;> simp [Rfc.typeField] at htf <;> subst htf <;> simp [Rfc.layout]
      obtain ⟨o, w, hlay⟩ := hlay
      rw [typeVal_is_slice raw hw l s tf o w htf hlay] at hd
      have hin : Rfc.innerOf raw l s =
          (Rfc.nextLayer l (Rfc.bitSlice (raw.drop s) o w)).map (fun l' => (l', s + Rfc.headerLen raw l s)) := by
        cases l <;> simp_all [Rfc.innerOf] <;> split <;> simp_all
      cases hdis : dispatch (parseAs l (rd raw s)) with
      | none => left; rw [hdis] at hd; simp at hd; rw [hin, ← hd]; simp
      | some k => right; rw [hdis] at hd; simp at hd; exact ⟨k, rfl, by rw [hin, ← hd]; simp⟩

theorem parseLayer_hdr (raw : List Nat) (k : LayerKind) (s off : Nat) (h : Hdr) (inner : Obj)
    (hp : parseLayer raw k s = .layer h off inner) : h = parseAs (kindLayer k) (rd raw s) ∧ inner = .none := by
  cases k <;> simp only [parseLayer] at hp <;> (repeat' split at hp) <;> cases hp <;> exact ⟨rfl, rfl⟩

theorem kindLayer_ne_record (k : LayerKind) : kindLayer k ≠ .record := by cases k <;> simp [kindLayer]

/-- **arriving**: what `from_bytes` yields at `s` is what the reference's cursor stands for there — the error object when
the capture ends inside the header, the layer with its payload after IHL·4 / data offset·4 / the fixed size -/
theorem arrive_stands (raw : List Nat) (hw : wf raw) (k : LayerKind) (s d : Nat) (ends : List Nat) :
    Stands raw (parseLayer raw k s) (Rfc.arrive raw (kindLayer k) s d ends) := by
  have herr := truncated_is_error_object raw hw k s
  unfold Rfc.arrive
  by_cases h1 : s + Rfc.fixedSize (kindLayer k) > raw.length
  · simp only [h1, if_true, Stands]
    rw [herr]; simp only [headerEnd]; omega
  · simp only [h1, if_false]
    by_cases h2 : Rfc.malformed raw (kindLayer k) s = true
    · simp [h2, Stands]
    · simp only [h2]
      have hmf : Rfc.fixedSize (kindLayer k) ≤ Rfc.headerLen raw (kindLayer k) s := by
        simp [Rfc.malformed] at h2; omega
      by_cases h3 : Rfc.complete raw (kindLayer k) s = true
      · simp only [h3]
        have hnot : ¬ parseLayer raw k s = .err := by
          rw [herr]; simp [Rfc.complete] at h3; simp only [headerEnd]; omega
        cases hp : parseLayer raw k s with
        | none => cases k <;> simp only [parseLayer] at hp <;> (repeat' split at hp) <;> cases hp
        | err => exact absurd hp hnot
        | val v => cases k <;> simp only [parseLayer] at hp <;> (repeat' split at hp) <;> cases hp
        | layer h off inner =>
          obtain ⟨rfl, rfl⟩ := parseLayer_hdr raw k s off _ inner hp
          have hoff := payload_offset raw hw k s off _ _ hp
          simp only [Bool.not_true, Bool.false_eq_true, if_false, Stands]
          right
          refine ⟨kindLayer_ne_record k, ?_⟩
          rw [hoff]; simp only [headerEnd]
          congr 1; omega
      · have h2' : Rfc.malformed raw (kindLayer k) s = false := by simpa using h2
        have h3' : Rfc.complete raw (kindLayer k) s = false := by simpa using h3
        simp only [h3', Bool.not_false, if_true, Bool.false_eq_true, if_false, Stands]
        rw [herr]; simp [Rfc.complete] at h3; simp only [headerEnd]; omega

/-- **`$n` descends `n` layers.**  On an object the reference cursor `c` stands for, `get_inner(_, n)` hands its
continuation an object the cursor `n` levels further down stands for — for every frame, every depth and every
continuation (the rest of the property path). -/
theorem descend_stands (raw : List Nat) (hw : wf raw) (st : Rfc.SState) (hfr : st.fr = raw) (hd : st.dirty = none)
    (kf : Obj → Obj × StepOut) :
    ∀ (n : Nat) (o : Obj) (c : Rfc.Cur), Stands raw o c →
      ∃ o', Stands raw o' (Rfc.downN st n c) ∧ (descend raw kf n o).2 = (kf o').2 := by
  intro n
  induction n with
  | zero => intro o c hs; exact ⟨o, hs, rfl⟩
  | succ n ih =>
    intro o c hs
    cases c with
    | free =>
      obtain ⟨o', ho'⟩ := descend_ends raw kf (n + 1) o
      exact ⟨o', by simp [downN_free, Stands], ho'⟩
    | err =>
      simp only [Stands] at hs; subst hs
      exact ⟨.err, by simp [Rfc.downN, Rfc.down, downN_free, Stands], rfl⟩
    | null =>
      simp only [Stands] at hs; subst hs
      exact ⟨.val .null, by simp [Rfc.downN, Rfc.down, downN_null, Stands], rfl⟩
    | «at» l s d ends =>
      have ho : ∃ h off, o = .layer h off .none := by
        rcases hs with ⟨_, _, ph, e⟩ | ⟨_, e⟩ <;> exact ⟨_, _, e⟩
      obtain ⟨h, off, rfl⟩ := ho
      have hdirty : st.isDirty d = false := by simp [Rfc.SState.isDirty, hd]
      rcases inner_agrees raw hw l s d ends h off hs with ⟨hdis, hin⟩ | ⟨k, hdis, hin⟩
      · refine ⟨.val .null, ?_, ?_⟩
        · simp [Rfc.downN, Rfc.down, hdirty, hfr, hin, downN_null, Stands]
        · simp [descend, innerStep, hdis]
      · obtain ⟨o', hs', ho'⟩ := ih (parseLayer raw k off) (Rfc.arrive raw (kindLayer k) off (d + 1) ends)
          (arrive_stands raw hw k off (d + 1) ends)
        refine ⟨o', ?_, ?_⟩
        · simpa [Rfc.downN, Rfc.down, hdirty, hfr, hin] using hs'
        · simpa [descend, innerStep, hdis] using ho'


/-- the packet the reference has in mind for a capture: record header and frame as captured, nothing assigned -/
def specState (ph : PcapHdr) (raw : List Nat) : Rfc.SState := { rh := ph.toBytes, fr := raw }

/-- **`$n` (depth `n`) descends `n` layers**, as one theorem over the model's `descend`: on the packet built from any
record header and any captured bytes, for every depth `n` and every continuation `kf` (the property path after `$n`),
the object `kf` receives is the one the reference cursor `downN n` stands for — the layer selected by the `n − 1` type
fields above it and parsed where their length fields end, the error object if that layer is truncated, null if the
table selects none; nothing is demanded below a header whose length field is smaller than its fixed part. -/
theorem dollar_n (ph : PcapHdr) (raw : List Nat) (hw : wf raw) (n : Nat) (kf : Obj → Obj × StepOut) :
    ∃ o, Stands raw o (Rfc.downN (specState ph raw) n Rfc.startCur) ∧
      (descend raw kf n (Pkt.new ph raw).root).2 = (kf o).2 :=
  descend_stands raw hw (specState ph raw) rfl rfl kf n _ _ (Or.inl ⟨rfl, rfl, ph, rfl⟩)

/-- what a script sees, against what the reference expects to be seen -/
def Shows : StepOut → Rfc.Expect → Prop
  | .ok (.other name), .obj l => name = l.objName
  | .ok (.err _), .errObj => True
  | .ok .null, .null => True
  | _, .any => True
  | _, _ => False

theorem kindName_parseAs (l : Rfc.Layer) (b : Nat → Nat) : (parseAs l b).kindName = l.objName := by cases l <;> rfl

theorem stands_shows (raw : List Nat) (o : Obj) (c : Rfc.Cur) (hs : Stands raw o c) :
    Shows (.ok o.toVal) (Rfc.curExpect c) := by
  cases c with
  | free => cases o <;> simp [Rfc.curExpect, Shows]
  | err => simp only [Stands] at hs; subst hs; simp [Rfc.curExpect, Shows, Obj.toVal]
  | null => simp only [Stands] at hs; subst hs; simp [Rfc.curExpect, Shows, Obj.toVal]
  | «at» l s d ends =>
    rcases hs with ⟨rfl, _, ph, rfl⟩ | ⟨_, rfl⟩
    · simp [Rfc.curExpect, Shows, Obj.toVal, Hdr.kindName, Rfc.Layer.objName]
    · simp [Rfc.curExpect, Shows, Obj.toVal, kindName_parseAs]

/-- **`$n` as the script sees it**: for `0 ≤ n ≤ MAX_PROTO_DEPTH` the value of `$n` on a captured packet is what the
reference demands — the object of the layer `n` levels down, the packet error object, or null -/
theorem dollar_n_access (ph : PcapHdr) (raw : List Nat) (hw : wf raw) (n : Int) (h0 : 0 ≤ n) (h1 : n ≤ maxProtoDepth) :
    Shows (access raw (Pkt.new ph raw).root (.dollar n) [] none).2 (Rfc.readExpect (specState ph raw) (.dollar n) []) := by
  have hmax : (maxProtoDepth : Int) = 10 := rfl
  have hn : ¬ (n < 0 ∨ n > 10) := by omega
  have hn' : ¬ (n < 0 ∨ n > (maxProtoDepth : Int)) := by omega
  obtain ⟨o, hs, ho⟩ := dollar_n ph raw hw n.toNat (walk raw none [])
  simp only [access, hn', if_false, Rfc.readExpect, specState, Rfc.readFrom, Rfc.headCur, hn]
  rw [ho]
  exact stands_shows raw o _ hs

/-- beyond `MAX_PROTO_DEPTH` (and for a negative depth) `$n` is a runtime error and touches nothing -/
theorem dollar_n_beyond (raw : List Nat) (root : Obj) (n : Int) (path : List PP) (setv : Option Val)
    (h : n < 0 ∨ n > P2sh.Gen.Limits.MAX_PROTO_DEPTH) :
    (access raw root (.dollar n) path setv).1 = root ∧ (access raw root (.dollar n) path setv).2 matches .rterr := by
  have e : (P2sh.Gen.Limits.MAX_PROTO_DEPTH : Int) = (maxProtoDepth : Int) := by
    rw [props_table_agrees.2.2]
  rw [e] at h
  simp [access, h]

/-- Ethernet + VLAN + IPv4 (IHL 6) + TCP (data offset 6) + two bytes -/
def vlanTcpFrame : List Nat :=
  [0,1,2,3,4,5, 6,7,8,9,10,11, 0x81,0, 0x20,5, 8,0,
   0x46,0,0,50, 0,0,0,0, 64,6,0,0, 10,0,0,1, 10,0,0,2, 1,2,3,4,
   0x1f,0x90,0,80, 0,0,0,1, 0,0,0,2, 0x60,0x12,0xff,0xff, 0xab,0xcd,0x12,0x34, 9,9,9,9, 0xde,0xad]

/-- the reference cursor four levels down is the TCP header at byte 42 (14 + 4 + 6·4); `$0 … $5` show packet, eth, vlan,
ipv4, tcp, null; cut inside the TCP options `$4` is the error object; all as `dollar_n_access` says -/
example :
    let ph : PcapHdr := { sec := 0, usec := 0, caplen := 68, wirelen := 68 }
    let show_ (o : StepOut) : String := match o with | .ok (.other k) => k | .ok .null => "null" | .ok (.err _) => "err" | _ => "?"
    (match Rfc.downN (specState ph vlanTcpFrame) 4 Rfc.startCur with | .at l s d _ => some (l, s, d) | _ => none) = some (.tcp, 42, 4) ∧
    ([0, 1, 2, 3, 4, 5] : List Int).map (fun n => show_ (access vlanTcpFrame (Pkt.new ph vlanTcpFrame).root (.dollar n) [] none).2)
      = ["packet", "eth", "vlan", "ipv4", "tcp", "null"] ∧
    show_ (access (vlanTcpFrame.take 64) (Pkt.new ph (vlanTcpFrame.take 64)).root (.dollar 4) [] none).2 = "err" ∧
    (Rfc.downN (specState ph (vlanTcpFrame.take 64)) 4 Rfc.startCur matches .err) = true := by
  decide

example : Shows (access vlanTcpFrame (Pkt.new ⟨0, 0, 68, 68⟩ vlanTcpFrame).root (.dollar 4) [] none).2
    (Rfc.readExpect (specState ⟨0, 0, 68, 68⟩ vlanTcpFrame) (.dollar 4) []) :=
  dollar_n_access _ _ (by unfold wf; decide) 4 (by decide) (by decide)

/-- the source address of an IPv6 header whose bytes 8–23 are 0xfe, 0x80, 0, …, 1 -/
example : (parseAs .ipv6 (fun i => if i = 8 then 0xfe else if i = 9 then 0x80 else if i = 23 then 1 else 0)).get .src =
    some (.text "fe80:0:0:0:0:0:0:1".toList) := by decide

end P2sh.Props.C16
