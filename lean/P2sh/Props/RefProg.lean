import P2sh.Props.RefCore
import P2sh.Props.C23Core
import P2sh.Core.Prog
/-!
# The oracle and the compiler's source semantics agree on core statements and programs

`Props/RefCore.lean` connects the oracle (`Spec/Ref.lean`, `Ref.evalE`) with `Core.eval` on every core
*expression*.  This file does the same one level up: the oracle's `evalStmt` / `evalStmts` /
`evalBlock` / `evalLoop` against `Core.evalS` / `Core.evalP` (`Core/Prog.lean`), the semantics
`Core.compileP_correct` is stated against.

`toStmt nm ln` / `toStmts nm ln` embed core statements into the AST the way their source parses (the
shapes `Core.ofStmts`, the recogniser of the fragment, reads -- the examples check
`ofStmts (toStmts p) = p` by `rfl`): `letG i e` is `let <nm i> = e;` with definition site `i` (the
parser numbers the sites in text order, as `ofStmts` numbers the slots), `ifS c t e` is the expression
statement `if c { t } else { e }`, loops and `break`/`continue` carry their labels.

## the main theorems (Part 2 of the file): every well-scoped program of the fragment

* `ref_stmts_core` -- if the oracle's run of the program ends (normally, or in a `break` / `continue`
  no loop consumed), `Core.evalP` with enough fuel ends in the same flow, and the final states are
  related again;
* `ref_stmts_error_core` -- if the oracle raises a runtime error, `Core.evalP f g ss = none`
  **for every fuel `f`**.  `Core.evalS/evalP` answer `none` both for a runtime error and for
  insufficient fuel, so "a runtime error" cannot be said more precisely on Core's side: the statement
  is that no fuel makes Core's evaluation end (it uses that Core's evaluation is deterministic in the
  fuel, `evalS_det`, from `C23.eval_mono`);
* `ref_stmts_no_return` -- the oracle never ends such a program in `return`;
* `ref_program_compiled` -- with `Core.program_correct`: the compiled program, run on the Core machine
  from the empty stack and null globals, reaches the end of its code with the empty stack and
  globals related to the oracle's final state.

Nothing is claimed when the oracle ends in `unc`, `mem` or `fuel`.

**The fragment** is `wfP nm N vis ss`: all of `CStmt` -- `let` (at top level *and* inside blocks, loop
bodies, branches; shadowing; re-definition of a name), expression statements, blocks, `while`, `loop`,
labelled and plain `break` / `continue` (also ones no loop of the program consumes), statement-level
`if` with statement blocks, nested arbitrarily -- subject to what makes a `CStmt` the image of source
text: every global an expression mentions is the one its name resolves to among the visible bindings
(`resolves`: `Core.globalIndex vis (nm k) = some k`, with `vis` threaded as `Core.ofStmts` threads it: a
block's bindings end with it), and slots are below `N`, the number of Core's globals.  One exclusion:
the initializer of `let x = e` must not mention the name `x` (the compiler resolves it to the new,
still undefined slot, the oracle to an older `x` if there is one; `Spec/Static.lean` leaves a use of
the name inside its own initializer unconstrained, so the oracle makes no demand there).

**The relation** `GR vis env st g` goes through the oracle's `sites` map (`Coupled`): every executed
definition site `i` has its own cell `c`, and cell `c` holds what Core's slot `i` holds (a scalar);
a `let` in a loop body reuses its cell on both sides; cells are numbered in execution order, slots in
text order, so `c ≠ i` in general.  `EnvOK vis env sites`: every name visible at this program point
is bound, in the oracle's environment, by reference to the cell of the slot it resolves to; the
environment has no function activation.  `GR.init`: the state a program starts in.  `GR.lookup`: what
the relation says about a visible name.

Expressions: `RefCore.main_core` is stated for `RefCore.EnvRel` (cell `i` = slot `i`, every cell bound
to its own name), which blocks and shadowing break.  `main_coreG` is the same induction over
`CExpr`, *parametric* in the relation (`RelOps`: what reading and assigning a global and entering a
branch need), reusing RefCore's lemmas about `Out`; `relOps` instantiates it with `GR`.

The statement proof is an induction on the oracle's fuel (`all_okG`: statement, statement list,
block, loop -- the oracle's functions share one fuel), with Core's fuel chosen existentially and joined
by monotonicity.

## Part 1: the special case `let` at top level only, with the sharper relation (`…_partial`)

`topOK N n ss`: `let` only at the top level of the program, each `letG i e` defining the next slot
(`i = n`), names pairwise distinct, everything else `letFree`.  There cell `i` *is* slot `i` and the
oracle's cells are exactly the defined prefix of Core's globals: `TopRel nm n env st g` contains
`st.cells = g.take n` and `RefCore.EnvRel nm env st (g.take n)`, and `RefCore.main_core` can be used as
it is (`frame_core`: `Core.eval` only depends on and only changes the globals an expression mentions,
carries it from `g.take n` to `g`).  `ref_stmts_core_partial`, `ref_stmts_error_core_partial`,
`ref_stmts_no_return_partial`, `ref_inner_stmts_core` (`let`-free statement lists in any environment),
`ref_program_compiled_partial`.  Part 1 also holds what both parts share: `Res`, the equations of the
oracle's statement evaluator, Core's fuel lemmas.

No disagreement between the oracle and `Core.evalP` was found.
-/
namespace P2sh.RefProg
open P2sh P2sh.Ref P2sh.RefCore
open P2sh.Core (CExpr CArms CPat UnOp CStmt)

/-! ## the embedding of core statements into the AST -/

mutual
/-- a core statement as the AST of its source (`nm i`: the name of global `i`; `ln`: the line put on
every node).  A `let` is definition site `i`; `if` without `else` and `else {}` are the same core
statement, embedded as `else {}` (the oracle yields null for both) -/
def toStmt (nm : Nat → String) (ln : Nat) : CStmt → Stmt
  | .letG i e => .letS ln i (nm i) (toAst nm ln e)
  | .expr e => .exprS ln (toAst nm ln e)
  | .block body => .block (.mk ln (toStmts nm ln body))
  | .whileS lbl c body => .whileS ln lbl (toAst nm ln c) (.mk ln (toStmts nm ln body))
  | .loopS lbl body => .loop ln lbl (.mk ln (toStmts nm ln body))
  | .breakS l => .breakS ln l
  | .continueS l => .continueS ln l
  | .ifS c t e => .exprS ln (.ifE ln (toAst nm ln c) (.mk ln (toStmts nm ln t)) (.els (.mk ln (toStmts nm ln e))))
def toStmts (nm : Nat → String) (ln : Nat) : List CStmt → List Stmt
  | [] => []
  | s :: rest => toStmt nm ln s :: toStmts nm ln rest
end

mutual
/-- no `let` at any depth, and only the first `n` globals are mentioned -/
def letFree (n : Nat) : CStmt → Bool
  | .letG _ _ => false
  | .expr e => globalsBelow n e
  | .block body => letFreeP n body
  | .whileS _ c body => globalsBelow n c && letFreeP n body
  | .loopS _ body => letFreeP n body
  | .breakS _ | .continueS _ => true
  | .ifS c t e => globalsBelow n c && letFreeP n t && letFreeP n e
def letFreeP (n : Nat) : List CStmt → Bool
  | [] => true
  | s :: rest => letFree n s && letFreeP n rest
end

/-- the programs covered: `let` at top level only, defining the slots `n, n+1, …` (below `N`) in
order, from initializers that mention earlier globals; everything else `letFree` -/
def topOK (N : Nat) : Nat → List CStmt → Bool
  | _, [] => true
  | n, .letG i e :: rest => i == n && decide (n < N) && globalsBelow n e && topOK N (n + 1) rest
  | n, s :: rest => letFree n s && topOK N n rest

/-! ## Core.eval only looks at the globals an expression mentions -/

def FrameE (e : CExpr) : Prop := ∀ (gc pad : List Val), globalsBelow gc.length e = true →
  (∀ v gc', Core.eval gc e = some (v, gc') → gc'.length = gc.length ∧ Core.eval (gc ++ pad) e = some (v, gc' ++ pad)) ∧
  (Core.eval gc e = none → Core.eval (gc ++ pad) e = none)

def FrameA (arms : CArms) : Prop := ∀ (gc pad : List Val) (x : Val), globalsBelowArms gc.length arms = true →
  (∀ v gc', Core.evalArms gc x arms = some (v, gc') → gc'.length = gc.length ∧ Core.evalArms (gc ++ pad) x arms = some (v, gc' ++ pad)) ∧
  (Core.evalArms gc x arms = none → Core.evalArms (gc ++ pad) x arms = none)

theorem leaf_some (w : Val) (gc g1 pad : List Val) (hl : g1.length = gc.length) :
    (∀ v gc', some (w, g1) = some (v, gc') → gc'.length = gc.length ∧ some (w, g1 ++ pad) = some (v, gc' ++ pad)) ∧
    (some (w, g1) = (none : Option (Val × List Val)) → some (w, g1 ++ pad) = (none : Option (Val × List Val))) := by
  refine ⟨?_, fun hh => by simp at hh⟩
  intro v gc' hh
  simp only [Option.some.injEq, Prod.mk.injEq] at hh
  obtain ⟨rfl, rfl⟩ := hh
  exact ⟨hl, rfl⟩

theorem leaf_none (gc pad : List Val) :
    (∀ v gc', (none : Option (Val × List Val)) = some (v, gc') → gc'.length = gc.length ∧ (none : Option (Val × List Val)) = some (v, gc' ++ pad)) ∧
    ((none : Option (Val × List Val)) = none → (none : Option (Val × List Val)) = none) :=
  ⟨fun _ _ hh => by simp at hh, fun _ => rfl⟩

macro "frame_leaf" : tactic =>
  `(tactic| first
      | exact leaf_none _ _
      | exact leaf_some _ _ _ _ rfl
      | exact leaf_some _ _ _ _ (by assumption)
      | exact leaf_some _ _ _ _ (by omega))

theorem frame_two {op : Val → Val → OpRes} (a b : CExpr) (iha : FrameE a) (ihb : FrameE b) (gc pad : List Val)
    (hfa : globalsBelow gc.length a = true) (hfb : globalsBelow gc.length b = true) :
    (∀ v gc', (match Core.eval gc a with
        | some (va, g1) => (match Core.eval g1 b with
          | some (vb, g2) => (match op va vb with | .ok r => some (r, g2) | _ => none)
          | none => none)
        | none => none) = some (v, gc') → gc'.length = gc.length ∧
      (match Core.eval (gc ++ pad) a with
        | some (va, g1) => (match Core.eval g1 b with
          | some (vb, g2) => (match op va vb with | .ok r => some (r, g2) | _ => none)
          | none => none)
        | none => none) = some (v, gc' ++ pad)) ∧
    ((match Core.eval gc a with
        | some (va, g1) => (match Core.eval g1 b with
          | some (vb, g2) => (match op va vb with | .ok r => some (r, g2) | _ => none)
          | none => none)
        | none => none) = none →
      (match Core.eval (gc ++ pad) a with
        | some (va, g1) => (match Core.eval g1 b with
          | some (vb, g2) => (match op va vb with | .ok r => some (r, g2) | _ => none)
          | none => none)
        | none => none) = none) := by
  have ha := iha gc pad hfa
  cases h : Core.eval gc a with
  | none => simp [ha.2 h]
  | some p =>
    obtain ⟨va, g1⟩ := p
    obtain ⟨hl1, hp1⟩ := ha.1 va g1 h
    simp only [hp1]
    have hb := ihb g1 pad (hl1 ▸ hfb)
    cases h2 : Core.eval g1 b with
    | none => simp [hb.2 h2]
    | some p2 =>
      obtain ⟨vb, g2⟩ := p2
      obtain ⟨hl2, hp2⟩ := hb.1 vb g2 h2
      simp only [hp2]
      cases op va vb <;> frame_leaf

theorem frame_arms : ∀ arms : CArms, arms.All FrameE → FrameA arms := by
  intro arms
  induction arms using CArms.ind with
  | last d =>
    intro hall gc pad x hf
    simp only [CArms.All] at hall
    simp only [globalsBelowArms] at hf
    simp only [Core.evalArms]
    exact hall gc pad hf
  | cons pats body rest ih =>
    intro hall gc pad x hf
    simp only [CArms.All] at hall
    simp only [globalsBelowArms, Bool.and_eq_true] at hf
    simp only [Core.evalArms]
    cases hp : Core.patsTest x pats with
    | none => simp
    | some b =>
      cases b with
      | true => exact hall.1 gc pad hf.1
      | false => exact ih hall.2 gc pad x hf.2

theorem frame_core : ∀ e, FrameE e := by
  intro e
  induction e with
  | lit v => intro gc pad _; simp only [Core.eval]; frame_leaf
  | tru => intro gc pad _; simp only [Core.eval]; frame_leaf
  | fls => intro gc pad _; simp only [Core.eval]; frame_leaf
  | null => intro gc pad _; simp only [Core.eval]; frame_leaf
  | un op a ih =>
    intro gc pad hf
    simp only [globalsBelow] at hf
    have ha := ih gc pad hf
    simp only [Core.eval]
    cases h : Core.eval gc a with
    | none => simp [ha.2 h]
    | some p =>
      obtain ⟨va, g1⟩ := p
      obtain ⟨hl1, hp1⟩ := ha.1 va g1 h
      simp only [hp1]
      cases Core.applyUn op va <;> frame_leaf
  | bin op a b iha ihb =>
    intro gc pad hf
    simp only [globalsBelow, Bool.and_eq_true] at hf
    simp only [Core.eval]
    exact frame_two (op := execOperator op) a b iha ihb gc pad hf.1 hf.2
  | lt a b iha ihb =>
    intro gc pad hf
    simp only [globalsBelow, Bool.and_eq_true] at hf
    simp only [Core.eval]
    exact frame_two (op := execOperator .greater) b a ihb iha gc pad hf.2 hf.1
  | le a b iha ihb =>
    intro gc pad hf
    simp only [globalsBelow, Bool.and_eq_true] at hf
    simp only [Core.eval]
    exact frame_two (op := execOperator .greaterEq) b a ihb iha gc pad hf.2 hf.1
  | and a b iha ihb =>
    intro gc pad hf
    simp only [globalsBelow, Bool.and_eq_true] at hf
    have ha := iha gc pad hf.1
    simp only [Core.eval]
    cases h : Core.eval gc a with
    | none => simp [ha.2 h]
    | some p =>
      obtain ⟨va, g1⟩ := p
      obtain ⟨hl1, hp1⟩ := ha.1 va g1 h
      simp only [hp1]
      have hb := ihb g1 pad (hl1 ▸ hf.2)
      cases va.isFalsey with
      | true => simp only [if_true]; frame_leaf
      | false =>
        simp only [Bool.false_eq_true, if_false]
        exact ⟨fun v gc' hh => ⟨((hb.1 v gc' hh).1).trans hl1, (hb.1 v gc' hh).2⟩, hb.2⟩
  | or a b iha ihb =>
    intro gc pad hf
    simp only [globalsBelow, Bool.and_eq_true] at hf
    have ha := iha gc pad hf.1
    simp only [Core.eval]
    cases h : Core.eval gc a with
    | none => simp [ha.2 h]
    | some p =>
      obtain ⟨va, g1⟩ := p
      obtain ⟨hl1, hp1⟩ := ha.1 va g1 h
      simp only [hp1]
      have hb := ihb g1 pad (hl1 ▸ hf.2)
      cases va.isFalsey with
      | false => simp only [Bool.false_eq_true, if_false]; frame_leaf
      | true =>
        simp only [if_true]
        exact ⟨fun v gc' hh => ⟨((hb.1 v gc' hh).1).trans hl1, (hb.1 v gc' hh).2⟩, hb.2⟩
  | ite c t e ihc iht ihe =>
    intro gc pad hf
    simp only [globalsBelow, Bool.and_eq_true] at hf
    have hc := ihc gc pad hf.1.1
    simp only [Core.eval]
    cases h : Core.eval gc c with
    | none => simp [hc.2 h]
    | some p =>
      obtain ⟨vc, g1⟩ := p
      obtain ⟨hl1, hp1⟩ := hc.1 vc g1 h
      simp only [hp1]
      cases vc.isFalsey with
      | true =>
        simp only [if_true]
        have hb := ihe g1 pad (hl1 ▸ hf.2)
        exact ⟨fun v gc' hh => ⟨((hb.1 v gc' hh).1).trans hl1, (hb.1 v gc' hh).2⟩, hb.2⟩
      | false =>
        simp only [Bool.false_eq_true, if_false]
        have hb := iht g1 pad (hl1 ▸ hf.1.2)
        exact ⟨fun v gc' hh => ⟨((hb.1 v gc' hh).1).trans hl1, (hb.1 v gc' hh).2⟩, hb.2⟩
  | gget i =>
    intro gc pad hf
    simp only [globalsBelow, decide_eq_true_eq] at hf
    simp only [Core.eval]
    have : (gc ++ pad).getD i Val.null = gc.getD i Val.null := by
      simp [List.getD_eq_getElem?_getD, List.getElem?_append_left hf]
    rw [this]
    frame_leaf
  | gset i e ih =>
    intro gc pad hf
    simp only [globalsBelow, Bool.and_eq_true, decide_eq_true_eq] at hf
    have ha := ih gc pad hf.2
    simp only [Core.eval]
    cases h : Core.eval gc e with
    | none => simp [ha.2 h]
    | some p =>
      obtain ⟨v0, g1⟩ := p
      obtain ⟨hl1, hp1⟩ := ha.1 v0 g1 h
      simp only [hp1]
      have hi : i < g1.length := hl1 ▸ hf.1
      have hi' : i < (g1 ++ pad).length := by rw [List.length_append]; omega
      simp only [hi, hi', if_true]
      rw [List.set_append_left _ _ hi]
      refine ⟨?_, ?_⟩
      · intro v gc' hh
        simp only [Option.some.injEq, Prod.mk.injEq] at hh
        obtain ⟨rfl, rfl⟩ := hh
        exact ⟨by rw [List.length_set]; exact hl1, rfl⟩
      · intro hh; simp at hh
  | matchE s arms ihs iharms =>
    intro gc pad hf
    simp only [globalsBelow, Bool.and_eq_true] at hf
    have ha := ihs gc pad hf.1
    simp only [Core.eval]
    cases h : Core.eval gc s with
    | none => simp [ha.2 h]
    | some p =>
      obtain ⟨v0, g1⟩ := p
      obtain ⟨hl1, hp1⟩ := ha.1 v0 g1 h
      simp only [hp1]
      have hb := frame_arms arms iharms g1 pad v0 (hl1 ▸ hf.2)
      exact ⟨fun v gc' hh => ⟨((hb.1 v gc' hh).1).trans hl1, (hb.1 v gc' hh).2⟩, hb.2⟩

/-! ## results of a run of the oracle's monad -/

def Res {α} (P : α → St → Prop) (E : Prop) : Except Err α × St → Prop
  | (.ok a, s) => P a s
  | (.error (.rt _), _) => E
  | (.error _, _) => True

theorem Res.bind {α β} {P : α → St → Prop} {E : Prop} {P' : β → St → Prop} {E' : Prop}
    {m : M α} {k : α → M β} {s : St}
    (hm : Res P E (run m s)) (hE : E → E') (hk : ∀ a s', P a s' → Res P' E' (run (k a) s')) :
    Res P' E' (run (m >>= k) s) := by
  rw [run_bind]
  revert hm
  rcases run m s with ⟨er | a, s1⟩
  · cases er <;> intro h <;> first | exact hE h | exact True.intro
  · intro h; exact hk a s1 h

theorem Res.mono {α} {P P' : α → St → Prop} {E E' : Prop} {o : Except Err α × St}
    (hP : ∀ a s, P a s → P' a s) (hE : E → E') (h : Res P E o) : Res P' E' o := by
  rcases o with ⟨er | a, s1⟩
  · cases er <;> first | exact hE h | exact True.intro
  · exact hP _ _ h

theorem Out.res {α} {env : Env} {P : α → St → Prop} {E : Prop} {o : Except Err (R α) × St} (h : Out env P E o) :
    Res (fun r s => ∃ v, r = .val v env ∧ P v s) E o := by
  rcases o with ⟨er | (⟨v, env1⟩ | ⟨fl, env1⟩), s1⟩
  · cases er <;> first | exact h | exact True.intro
  · obtain ⟨rfl, hp⟩ := h; exact ⟨v, rfl, hp⟩
  · exact h.elim

/-! ## equations of the oracle's statement evaluator -/

theorem evalStmts_zero (env : Env) (ss : List Stmt) (last : Val) : evalStmts 0 env ss last = throw .fuel := by
  rw [evalStmts]

theorem evalStmts_nil (f : Nat) (env : Env) (last : Val) : evalStmts (f+1) env [] last = pure (.normal, last, env) := by
  rw [evalStmts]; exact Nat.succ_ne_zero _

def stmtsK (f : Nat) (rest : List Stmt) : Flow × Val × Env → M (Flow × Val × Env)
  | (.normal, v, env) => evalStmts f env rest v
  | (fl, _, env) => pure (fl, .null, env)

theorem evalStmts_cons (f : Nat) (env : Env) (s : Stmt) (rest : List Stmt) (last : Val) :
    evalStmts (f+1) env (s :: rest) last = evalStmt f env s >>= stmtsK f rest := by
  rw [evalStmts]
  apply bind_congr_fun
  rintro ⟨fl, v, env1⟩
  cases fl <;> rfl

theorem evalBlock_zero (env : Env) (b : Block) : evalBlock 0 env b = throw .fuel := by rw [evalBlock]

theorem evalBlock_succ (f : Nat) (env : Env) (b : Block) :
    evalBlock (f+1) env b = evalStmts f ([] :: env) b.stmts .null >>= fun r => pure (r.1, r.2.1, r.2.2.tail) := by
  rw [evalBlock]

theorem evalBranch_zero (env : Env) (b : Block) : evalBranch 0 env b = throw .fuel := by rw [evalBranch]

def branchK : Flow × Val × Env → M (R Val)
  | (.normal, v, env) => pure (.val v env)
  | (fl, _, env) => pure (.jump fl env)

theorem evalBranch_succ (f : Nat) (env : Env) (b : Block) : evalBranch (f+1) env b = evalBlock f env b >>= branchK := by
  rw [evalBranch]
  apply bind_congr_fun
  rintro ⟨fl, v, env1⟩
  cases fl <;> rfl

theorem evalStmt_zero (env : Env) (s : Stmt) : evalStmt 0 env s = throw .fuel := by rw [evalStmt]

def exprK : R Val → M (Flow × Val × Env)
  | .val v env => pure (.normal, v, env)
  | .jump fl env => pure (fl, .null, env)

theorem evalStmt_expr (f : Nat) (env : Env) (l : Nat) (e : Expr) (hx : ∀ l' fn args, e = .call l' fn args → False) :
    evalStmt (f+1) env (.exprS l e) = evalE f env e >>= exprK := by
  rw [evalStmt]
  case x_3 => exact hx
  apply bind_congr_fun
  intro r
  cases r <;> rfl

theorem evalStmt_block (f : Nat) (env : Env) (b : Block) :
    evalStmt (f+1) env (.block b) = evalBlock f env b >>= fun r => pure (r.1, .null, r.2.2) := by
  rw [evalStmt]

theorem evalStmt_break (f : Nat) (env : Env) (l : Nat) (lbl : Option String) :
    evalStmt (f+1) env (.breakS l lbl) = pure (.brk lbl, .null, env) := by rw [evalStmt]

theorem evalStmt_continue (f : Nat) (env : Env) (l : Nat) (lbl : Option String) :
    evalStmt (f+1) env (.continueS l lbl) = pure (.cont lbl, .null, env) := by rw [evalStmt]

theorem evalStmt_loop (f : Nat) (env : Env) (l : Nat) (lbl : Option String) (b : Block) :
    evalStmt (f+1) env (.loop l lbl b) = evalLoop f env lbl none b := by rw [evalStmt]

theorem evalStmt_while (f : Nat) (env : Env) (l : Nat) (lbl : Option String) (c : Expr) (b : Block) :
    evalStmt (f+1) env (.whileS l lbl c b) = evalLoop f env lbl (some c) b := by rw [evalStmt]

def letK (site : Nat) (name : String) : R Val → M (Flow × Val × Env)
  | .jump fl env => pure (fl, .null, env)
  | .val v env =>
    if isGlobalEnv env then
      siteCell site >>= fun c => setCell c v >>= fun _ => pure (.normal, .null, bindTop name (.g c) env)
    else pure (.normal, .null, bindTop name (.l v) env)

theorem evalStmt_let (f : Nat) (env : Env) (l site : Nat) (name : String) (e : Expr) :
    evalStmt (f+1) env (.letS l site name e) = evalE f env e >>= letK site name := by
  rw [evalStmt]
  apply bind_congr_fun
  intro r
  cases r <;> rfl

theorem evalLoop_zero (env : Env) (lbl : Option String) (c : Option Expr) (b : Block) :
    evalLoop 0 env lbl c b = throw .fuel := by rw [evalLoop]

def condK : R Val → M (R Bool)
  | .val vc env => truthy vc >>= fun t => pure (.val t env)
  | .jump fl env => pure (.jump fl env)

def loopCond (f : Nat) (env : Env) : Option Expr → M (R Bool)
  | none => pure (.val true env)
  | some c => evalE f env c >>= condK

def loopBodyK (f : Nat) (label : Option String) (cond : Option Expr) (b : Block) : Flow × Val × Env → M (Flow × Val × Env)
  | (.normal, _, env) => evalLoop f env label cond b
  | (.brk l, _, env) => if labelMatches label l then pure (.normal, .null, env) else pure (.brk l, .null, env)
  | (.cont l, _, env) => if labelMatches label l then evalLoop f env label cond b else pure (.cont l, .null, env)
  | (.ret v, _, env) => pure (.ret v, .null, env)

def loopK (f : Nat) (label : Option String) (cond : Option Expr) (b : Block) : R Bool → M (Flow × Val × Env)
  | .jump fl env => pure (fl, .null, env)
  | .val false env => pure (.normal, .null, env)
  | .val true env => evalBlock f env b >>= loopBodyK f label cond b

theorem evalLoop_succ (f : Nat) (env : Env) (lbl : Option String) (c : Option Expr) (b : Block) :
    evalLoop (f+1) env lbl c b = loopCond f env c >>= loopK f lbl c b := by
  cases c with
  | none =>
    unfold evalLoop
    simp only [loopCond, pure_bind]
    show _ = evalBlock f env b >>= loopBodyK f lbl none b
    apply bind_congr_fun
    rintro ⟨fl, v, env1⟩
    cases fl <;> rfl
  | some c =>
    unfold evalLoop
    simp only [loopCond, bind_assoc]
    apply bind_congr_fun
    intro r
    cases r with
    | jump fl env1 => simp only [condK, pure_bind]; rfl
    | val vc env1 =>
      simp only [condK, bind_assoc, pure_bind]
      apply bind_congr_fun
      intro t
      cases t with
      | false => rfl
      | true =>
        show _ = evalBlock f env1 b >>= loopBodyK f lbl (some c) b
        apply bind_congr_fun
        rintro ⟨fl, v, env2⟩
        cases fl <;> rfl

/-! ## the relation between the oracle's state and Core's globals -/

structure Rel (nm : Nat → String) (n : Nat) (env : Env) (st : St) (g : List Val) : Prop where
  le : n ≤ g.length
  rel : EnvRel nm env st (g.take n)

def Next (n : Nat) (st : St) (g g' : List Val) (st' : St) : Prop :=
  st' = { st with cells := g'.take n } ∧ g'.length = g.length ∧ ∀ x ∈ g'.take n, isScalar x = true

theorem Next.refl {nm n env st g} (hr : Rel nm n env st g) : Next n st g g st :=
  ⟨st_self hr.rel.cells, rfl, hr.rel.scalars⟩

theorem Next.rel {nm n env st g g' st'} (hr : Rel nm n env st g) (h : Next n st g g' st') : Rel nm n env st' g' := by
  obtain ⟨rfl, hl, hs⟩ := h
  refine ⟨hl ▸ hr.le, hr.rel.step ?_ hs⟩
  rw [List.length_take, List.length_take, hl]

theorem Next.trans {n st g g1 st1 g2 st2} (h1 : Next n st g g1 st1) (h2 : Next n st1 g1 g2 st2) : Next n st g g2 st2 := by
  obtain ⟨rfl, hl1, _⟩ := h1
  obtain ⟨rfl, hl2, hs2⟩ := h2
  exact ⟨rfl, hl2.trans hl1, hs2⟩

theorem Rel.push {nm n env st g} (hr : Rel nm n env st g) : Rel nm n ([] :: env) st g := ⟨hr.le, hr.rel.push⟩

/-! ## expressions: `RefCore.main_core` on the defined prefix, framed to all of Core's globals -/

def EOK (n : Nat) (env : Env) (st : St) (g : List Val) (e : CExpr) (r : R Val) (st' : St) : Prop :=
  ∃ v g', r = .val v env ∧ isScalar v = true ∧ Core.eval g e = some (v, g') ∧ Next n st g g' st'

theorem expr_bridge {nm : Nat → String} {ln n : Nat} {env : Env} {st : St} {g : List Val} (e : CExpr) (fuel : Nat)
    (hr : Rel nm n env st g) (hf : globalsBelow n e = true) :
    Res (EOK n env st g e) (Core.eval g e = none) (run (evalE fuel env (toAst nm ln e)) st) := by
  have hlen : (g.take n).length = n := by rw [List.length_take]; exact Nat.min_eq_left hr.le
  have hm := main_core nm ln e fuel env st (g.take n) hr.rel (by rw [hlen]; exact hf)
  have hfr := frame_core e (g.take n) (g.drop n) (by rw [hlen]; exact hf)
  rw [List.take_append_drop] at hfr
  refine (Out.res hm).mono ?_ hfr.2
  rintro r s ⟨v, rfl, hv, g', he, rfl, hl, hs⟩
  obtain ⟨_, he'⟩ := hfr.1 v g' he
  have hl' : g'.length = n := hl.trans hlen
  have htake : (g' ++ g.drop n).take n = g' := by
    rw [List.take_append_of_le_length (by omega), List.take_of_length_le (by omega)]
  refine ⟨v, g' ++ g.drop n, rfl, hv, he', ?_, ?_, ?_⟩
  · rw [htake]
  · rw [List.length_append, List.length_drop, hl']; have := hr.le; omega
  · rw [htake]; exact hs

/-! ## fuel on Core's side -/

theorem evalS_mono {f f' : Nat} {g : List Val} {s : CStmt} {r : List Val × Core.Flow} (hle : f ≤ f')
    (h : Core.evalS f g s = some r) : Core.evalS f' g s = some r := (P2sh.Props.C23.eval_mono f).1 s g r f' hle h

theorem evalP_mono {f f' : Nat} {g : List Val} {ss : List CStmt} {r : List Val × Core.Flow} (hle : f ≤ f')
    (h : Core.evalP f g ss = some r) : Core.evalP f' g ss = some r := (P2sh.Props.C23.eval_mono f).2 ss g r f' hle h

theorem evalS_det {f1 f2 : Nat} {g : List Val} {s : CStmt} {r1 r2 : List Val × Core.Flow}
    (h1 : Core.evalS f1 g s = some r1) (h2 : Core.evalS f2 g s = some r2) : r1 = r2 := by
  have a := evalS_mono (Nat.le_max_left f1 f2) h1
  have b := evalS_mono (Nat.le_max_right f1 f2) h2
  rw [a] at b; exact Option.some.inj b

theorem evalP_det {f1 f2 : Nat} {g : List Val} {ss : List CStmt} {r1 r2 : List Val × Core.Flow}
    (h1 : Core.evalP f1 g ss = some r1) (h2 : Core.evalP f2 g ss = some r2) : r1 = r2 := by
  have a := evalP_mono (Nat.le_max_left f1 f2) h1
  have b := evalP_mono (Nat.le_max_right f1 f2) h2
  rw [a] at b; exact Option.some.inj b

/-! ## what is proved of one run of the oracle on a statement -/

def toFlow : Core.Flow → Flow
  | .normal => .normal
  | .brk l => .brk l
  | .cont l => .cont l

abbrev Ev := Nat → Option (List Val × Core.Flow)

def SOK (n : Nat) (env : Env) (st : St) (g : List Val) (ev : Ev) (r : Flow × Val × Env) (st' : St) : Prop :=
  r.2.2 = env ∧ ∃ fl' g' f', r.1 = toFlow fl' ∧ ev f' = some (g', fl') ∧ Next n st g g' st'

def PostS (n : Nat) (env : Env) (st : St) (g : List Val) (ev : Ev) : Except Err (Flow × Val × Env) × St → Prop :=
  Res (SOK n env st g ev) (∀ f, ev f = none)

theorem PostS.trans {n : Nat} {env : Env} {st st1 : St} {g g1 : List Val} {ev ev' : Ev}
    {o : Except Err (Flow × Val × Env) × St} (hnext : Next n st g g1 st1)
    (hok : ∀ f r, ev' f = some r → ∃ f', ev f' = some r) (herr : (∀ f, ev' f = none) → ∀ f, ev f = none)
    (h : PostS n env st1 g1 ev' o) : PostS n env st g ev o := by
  refine Res.mono ?_ herr h
  rintro r s ⟨henv, fl', g', f', hfl, hev, hn⟩
  obtain ⟨f'', hf''⟩ := hok _ _ hev
  exact ⟨henv, fl', g', f'', hfl, hf'', hnext.trans hn⟩

theorem labelMatches_eq (a b : Option String) : labelMatches a b = Core.targets a b := by
  cases b <;> rfl

def mkLoop (lbl : Option String) : Option CExpr → List CStmt → CStmt
  | none, body => .loopS lbl body
  | some c, body => .whileS lbl c body

def condOK (n : Nat) : Option CExpr → Bool
  | none => true
  | some c => globalsBelow n c

section Induction
variable (nm : Nat → String) (ln : Nat)

def StmtOK (fuel : Nat) : Prop :=
  ∀ (s : CStmt) (n : Nat) (env : Env) (st : St) (g : List Val), Rel nm n env st g → letFree n s = true →
    PostS n env st g (fun f => Core.evalS f g s) (run (evalStmt fuel env (toStmt nm ln s)) st)

def StmtsOK (fuel : Nat) : Prop :=
  ∀ (ss : List CStmt) (n : Nat) (env : Env) (st : St) (g : List Val) (last : Val), Rel nm n env st g → letFreeP n ss = true →
    PostS n env st g (fun f => Core.evalP f g ss) (run (evalStmts fuel env (toStmts nm ln ss) last) st)

def BlockOK (fuel : Nat) : Prop :=
  ∀ (ss : List CStmt) (n : Nat) (env : Env) (st : St) (g : List Val), Rel nm n env st g → letFreeP n ss = true →
    PostS n env st g (fun f => Core.evalP f g ss) (run (evalBlock fuel env (.mk ln (toStmts nm ln ss))) st)

def LoopOK (fuel : Nat) : Prop :=
  ∀ (lbl : Option String) (cond : Option CExpr) (body : List CStmt) (n : Nat) (env : Env) (st : St) (g : List Val),
    Rel nm n env st g → condOK n cond = true → letFreeP n body = true →
    PostS n env st g (fun f => Core.evalS f g (mkLoop lbl cond body))
      (run (evalLoop fuel env lbl (cond.map (toAst nm ln)) (.mk ln (toStmts nm ln body))) st)

def AllOK (fuel : Nat) : Prop := StmtOK nm ln fuel ∧ StmtsOK nm ln fuel ∧ BlockOK nm ln fuel ∧ LoopOK nm ln fuel

theorem all_zero : AllOK nm ln 0 := by
  refine ⟨?_, ?_, ?_, ?_⟩
  · intro s n env st g _ _; rw [evalStmt_zero]; exact True.intro
  · intro ss n env st g last _ _; rw [evalStmts_zero]; exact True.intro
  · intro ss n env st g _ _; rw [evalBlock_zero]; exact True.intro
  · intro lbl cond body n env st g _ _ _; rw [evalLoop_zero]; exact True.intro

theorem stmts_succ (fuel : Nat) (hS : StmtOK nm ln fuel) (hP : StmtsOK nm ln fuel) : StmtsOK nm ln (fuel + 1) := by
  intro ss n env st g last hr hlf
  cases ss with
  | nil =>
    rw [toStmts, evalStmts_nil]
    exact ⟨rfl, .normal, g, 1, rfl, rfl, Next.refl hr⟩
  | cons s rest =>
    simp only [letFreeP, Bool.and_eq_true] at hlf
    rw [toStmts, evalStmts_cons]
    refine Res.bind (hS s n env st g hr hlf.1)
      (show (∀ k, Core.evalS k g s = none) → ∀ k, Core.evalP k g (s :: rest) = none from ?_) ?_
    · intro h k
      cases k with
      | zero => rfl
      | succ k => simp only [Core.evalP, h k]
    · rintro ⟨fl, v, env1⟩ s1 ⟨henv, fl', g1, f1, hfl, hev, hn⟩
      have hev' : Core.evalS f1 g s = some (g1, fl') := hev
      have henv' : env1 = env := henv
      have hfl' : fl = toFlow fl' := hfl
      subst henv' hfl'
      cases fl' with
      | normal =>
        show PostS n env1 st g _ (run (evalStmts fuel env1 (toStmts nm ln rest) v) s1)
        refine PostS.trans hn ?_ ?_ (hP rest n env1 s1 g1 v (hn.rel hr) hlf.2)
        · intro f r hr'
          have hr'' : Core.evalP f g1 rest = some r := hr'
          refine ⟨max f1 f + 1, ?_⟩
          show Core.evalP (max f1 f + 1) g (s :: rest) = some r
          simp only [Core.evalP]
          rw [evalS_mono (Nat.le_max_left f1 f) hev']
          exact evalP_mono (Nat.le_max_right f1 f) hr''
        · intro h k
          show Core.evalP k g (s :: rest) = none
          cases k with
          | zero => rfl
          | succ k =>
            simp only [Core.evalP]
            cases hk : Core.evalS k g s with
            | none => rfl
            | some r =>
              obtain rfl := evalS_det hk hev'
              exact h k
      | brk l =>
        exact ⟨rfl, .brk l, g1, f1 + 1, rfl, by show Core.evalP (f1 + 1) g (s :: rest) = _; simp only [Core.evalP, hev'], hn⟩
      | cont l =>
        exact ⟨rfl, .cont l, g1, f1 + 1, rfl, by show Core.evalP (f1 + 1) g (s :: rest) = _; simp only [Core.evalP, hev'], hn⟩

theorem block_succ (fuel : Nat) (hP : StmtsOK nm ln fuel) : BlockOK nm ln (fuel + 1) := by
  intro ss n env st g hr hlf
  rw [evalBlock_succ]
  refine Res.bind (hP ss n ([] :: env) st g .null hr.push hlf) id ?_
  rintro ⟨fl, v, env1⟩ s1 ⟨henv, rest⟩
  have henv' : env1 = [] :: env := henv
  subst henv'
  exact ⟨rfl, rest⟩

/-- a branch of a statement-level `if` -/
theorem branch_ok (f0 : Nat) (hB : ∀ f', f' ≤ f0 → BlockOK nm ln f') (body : List CStmt) (n : Nat) (env : Env)
    (st s1 : St) (g g1 : List Val) (ev : Ev) (hr1 : Rel nm n env s1 g1) (hlf : letFreeP n body = true)
    (hn : Next n st g g1 s1)
    (hev : ∀ k r, Core.evalP k g1 body = some r → ∃ k', ev k' = some r)
    (herr : (∀ k, Core.evalP k g1 body = none) → ∀ k, ev k = none) :
    PostS n env st g ev (run (evalBranch f0 env (.mk ln (toStmts nm ln body)) >>= exprK) s1) := by
  cases f0 with
  | zero => rw [evalBranch_zero]; exact True.intro
  | succ f1 =>
    rw [evalBranch_succ, bind_assoc]
    refine PostS.trans (ev' := fun k => Core.evalP k g1 body) hn hev herr ?_
    refine Res.bind (hB f1 (Nat.le_succ f1) body n env s1 g1 hr1 hlf) id ?_
    rintro ⟨fl, v, env1⟩ s2 ⟨henv, fl', g2, f2, hfl, hev2, hn2⟩
    have henv' : env1 = env := henv
    have hfl' : fl = toFlow fl' := hfl
    subst henv' hfl'
    cases fl' <;> exact ⟨rfl, _, g2, f2, rfl, hev2, hn2⟩

theorem stmt_succ (f : Nat) (ih : ∀ f', f' ≤ f → AllOK nm ln f') : StmtOK nm ln (f + 1) := by
  intro s n env st g hr hlf
  cases s with
  | letG i e => simp [letFree] at hlf
  | expr e =>
    simp only [letFree] at hlf
    rw [toStmt, evalStmt_expr _ _ _ _ (fun l fn args h => toAst_not_call nm ln e l fn args h)]
    refine Res.bind (expr_bridge e f hr hlf)
      (show Core.eval g e = none → ∀ k, Core.evalS k g (.expr e) = none from ?_) ?_
    · intro h k; cases k <;> simp [Core.evalS, h]
    · rintro r s1 ⟨v, g1, rfl, hv, he, hn⟩
      exact ⟨rfl, .normal, g1, 1, rfl, by show Core.evalS 1 g (.expr e) = _; simp [Core.evalS, he], hn⟩
  | block body =>
    simp only [letFree] at hlf
    rw [toStmt, evalStmt_block]
    refine Res.bind ((ih f (Nat.le_refl f)).2.2.1 body n env st g hr hlf)
      (show (∀ k, Core.evalP k g body = none) → ∀ k, Core.evalS k g (.block body) = none from ?_) ?_
    · intro h k
      cases k with
      | zero => rfl
      | succ k => simp only [Core.evalS, h k]
    · rintro ⟨fl, v, env1⟩ s1 ⟨henv, fl', g1, f1, hfl, hev, hn⟩
      have hev' : Core.evalP f1 g body = some (g1, fl') := hev
      exact ⟨henv, fl', g1, f1 + 1, hfl, by show Core.evalS (f1 + 1) g (.block body) = _; simp only [Core.evalS, hev'], hn⟩
  | breakS l =>
    rw [toStmt, evalStmt_break]
    exact ⟨rfl, .brk l, g, 1, rfl, rfl, Next.refl hr⟩
  | continueS l =>
    rw [toStmt, evalStmt_continue]
    exact ⟨rfl, .cont l, g, 1, rfl, rfl, Next.refl hr⟩
  | whileS lbl c body =>
    simp only [letFree, Bool.and_eq_true] at hlf
    rw [toStmt, evalStmt_while]
    exact (ih f (Nat.le_refl f)).2.2.2 lbl (some c) body n env st g hr hlf.1 hlf.2
  | loopS lbl body =>
    simp only [letFree] at hlf
    rw [toStmt, evalStmt_loop]
    exact (ih f (Nat.le_refl f)).2.2.2 lbl none body n env st g hr rfl hlf
  | ifS c t e =>
    simp only [letFree, Bool.and_eq_true] at hlf
    rw [toStmt, evalStmt_expr _ _ _ _ (fun l fn args h => by cases h)]
    cases f with
    | zero => rw [evalE_zero]; exact True.intro
    | succ f0 =>
      rw [evalE_ite]
      unfold bindR
      rw [bind_assoc]
      refine Res.bind (expr_bridge c f0 hr hlf.1.1)
        (show Core.eval g c = none → ∀ k, Core.evalS k g (.ifS c t e) = none from ?_) ?_
      · intro h k; cases k <;> simp [Core.evalS, h]
      · rintro r s1 ⟨vc, g1, rfl, hvc, hec, hn⟩
        dsimp only
        rw [truthy_scalar hvc, pure_bind, ← P2sh.Props.C06.falsey_table]
        have hr1 := hn.rel hr
        have hB : ∀ f', f' ≤ f0 → BlockOK nm ln f' := fun f' hf' => (ih f' (Nat.le_succ_of_le hf')).2.2.1
        cases hfal : vc.isFalsey with
        | true =>
          simp only [Bool.not_true, Bool.false_eq_true, if_false]
          refine branch_ok nm ln f0 hB e n env st s1 g g1 _ hr1 hlf.2 hn ?_ ?_
          · intro k r hk
            exact ⟨k + 1, by show Core.evalS (k + 1) g (.ifS c t e) = _; simp only [Core.evalS, hec, hfal, if_true, hk]⟩
          · intro h k
            show Core.evalS k g (.ifS c t e) = none
            cases k with
            | zero => rfl
            | succ k => simp only [Core.evalS, hec, hfal, if_true, h k]
        | false =>
          simp only [Bool.not_false, if_true]
          refine branch_ok nm ln f0 hB t n env st s1 g g1 _ hr1 hlf.1.2 hn ?_ ?_
          · intro k r hk
            exact ⟨k + 1, by show Core.evalS (k + 1) g (.ifS c t e) = _; simp only [Core.evalS, hec, hfal, Bool.false_eq_true, if_false, hk]⟩
          · intro h k
            show Core.evalS k g (.ifS c t e) = none
            cases k with
            | zero => rfl
            | succ k => simp only [Core.evalS, hec, hfal, Bool.false_eq_true, if_false, h k]

/-- Core's evaluation of a loop after its condition: the body, then what the loop does with the flow -/
def bodyEv (lbl : Option String) (loop : CStmt) (g1 : List Val) (body : List CStmt) : Ev := fun k =>
  match Core.evalP k g1 body with
  | some (g2, fl) =>
    (match Core.loopAct lbl fl with
     | .again => Core.evalS k g2 loop
     | .exit => some (g2, .normal)
     | .propagate => some (g2, fl))
  | none => none

theorem bodyEv_some {lbl : Option String} {loop : CStmt} {g1 g2 : List Val} {body : List CStmt} {k : Nat} {fl : Core.Flow}
    (h : Core.evalP k g1 body = some (g2, fl)) :
    bodyEv lbl loop g1 body k = (match Core.loopAct lbl fl with
     | .again => Core.evalS k g2 loop
     | .exit => some (g2, .normal)
     | .propagate => some (g2, fl)) := by
  simp only [bodyEv, h]

theorem bodyEv_none {lbl : Option String} {loop : CStmt} {g1 : List Val} {body : List CStmt} {k : Nat}
    (h : Core.evalP k g1 body = none) : bodyEv lbl loop g1 body k = none := by
  simp only [bodyEv, h]

theorem evalS_loopS (lbl : Option String) (body : List CStmt) (g : List Val) (k : Nat) :
    Core.evalS (k + 1) g (.loopS lbl body) = bodyEv lbl (.loopS lbl body) g body k := by
  simp only [Core.evalS, bodyEv]
  cases Core.evalP k g body with
  | none => rfl
  | some p =>
    obtain ⟨g2, fl⟩ := p
    dsimp only
    cases Core.loopAct lbl fl <;> rfl

theorem evalS_whileS (lbl : Option String) (c : CExpr) (body : List CStmt) (g g1 : List Val) (vc : Val) (k : Nat)
    (hec : Core.eval g c = some (vc, g1)) (hfal : vc.isFalsey = false) :
    Core.evalS (k + 1) g (.whileS lbl c body) = bodyEv lbl (.whileS lbl c body) g1 body k := by
  simp only [Core.evalS, bodyEv, hec, hfal, Bool.false_eq_true, if_false]
  cases Core.evalP k g1 body with
  | none => rfl
  | some p =>
    obtain ⟨g2, fl⟩ := p
    dsimp only
    cases Core.loopAct lbl fl <;> rfl

theorem loop_body (f : Nat) (hB : BlockOK nm ln f) (hL : LoopOK nm ln f) (lbl : Option String) (cond : Option CExpr)
    (body : List CStmt) (n : Nat) (env : Env) (st s1 : St) (g g1 : List Val) (ev : Ev)
    (hr1 : Rel nm n env s1 g1) (hc : condOK n cond = true) (hlf : letFreeP n body = true) (hn : Next n st g g1 s1)
    (hev : ∀ k r, bodyEv lbl (mkLoop lbl cond body) g1 body k = some r → ∃ k', ev k' = some r)
    (herr : (∀ k, bodyEv lbl (mkLoop lbl cond body) g1 body k = none) → ∀ k, ev k = none) :
    PostS n env st g ev (run (evalBlock f env (.mk ln (toStmts nm ln body)) >>=
      loopBodyK f lbl (cond.map (toAst nm ln)) (.mk ln (toStmts nm ln body))) s1) := by
  refine PostS.trans (ev' := bodyEv lbl (mkLoop lbl cond body) g1 body) hn hev herr ?_
  refine Res.bind (hB body n env s1 g1 hr1 hlf)
    (show (∀ k, Core.evalP k g1 body = none) → ∀ k, bodyEv lbl (mkLoop lbl cond body) g1 body k = none from ?_) ?_
  · intro h k; exact bodyEv_none (h k)
  · rintro ⟨fl, v, env1⟩ s2 ⟨henv, fl', g2, f2, hfl, hev2, hn2⟩
    have henv' : env1 = env := henv
    have hfl' : fl = toFlow fl' := hfl
    have hev2' : Core.evalP f2 g1 body = some (g2, fl') := hev2
    subst henv' hfl'
    have hr2 := hn2.rel hr1
    have again : Core.loopAct lbl fl' = .again →
        PostS n env1 s1 g1 (bodyEv lbl (mkLoop lbl cond body) g1 body)
          (run (evalLoop f env1 lbl (cond.map (toAst nm ln)) (.mk ln (toStmts nm ln body))) s2) := by
      intro hact
      refine PostS.trans hn2 ?_ ?_ (hL lbl cond body n env1 s2 g2 hr2 hc hlf)
      · intro k r hk
        have hk' : Core.evalS k g2 (mkLoop lbl cond body) = some r := hk
        refine ⟨max f2 k, ?_⟩
        rw [bodyEv_some (evalP_mono (Nat.le_max_left f2 k) hev2')]
        simp only [hact]
        exact evalS_mono (Nat.le_max_right f2 k) hk'
      · intro h k
        cases hk : Core.evalP k g1 body with
        | none => exact bodyEv_none hk
        | some r =>
          obtain rfl := evalP_det hk hev2'
          rw [bodyEv_some hk]
          simp only [hact]
          exact h k
    cases fl' with
    | normal => exact again rfl
    | brk l =>
      show PostS n env1 s1 g1 _ (run (if labelMatches lbl l then _ else _) s2)
      rw [labelMatches_eq]
      cases ht : Core.targets lbl l with
      | true =>
        simp only [if_true]
        exact ⟨rfl, .normal, g2, f2, rfl, by rw [bodyEv_some hev2']; simp [Core.loopAct, ht], hn2⟩
      | false =>
        simp only [Bool.false_eq_true, if_false]
        exact ⟨rfl, .brk l, g2, f2, rfl, by rw [bodyEv_some hev2']; simp [Core.loopAct, ht], hn2⟩
    | cont l =>
      show PostS n env1 s1 g1 _ (run (if labelMatches lbl l then _ else _) s2)
      rw [labelMatches_eq]
      cases ht : Core.targets lbl l with
      | true =>
        simp only [if_true]
        exact again (by simp [Core.loopAct, ht])
      | false =>
        simp only [Bool.false_eq_true, if_false]
        exact ⟨rfl, .cont l, g2, f2, rfl, by rw [bodyEv_some hev2']; simp [Core.loopAct, ht], hn2⟩

theorem loop_succ (f : Nat) (hB : BlockOK nm ln f) (hL : LoopOK nm ln f) : LoopOK nm ln (f + 1) := by
  intro lbl cond body n env st g hr hc hlf
  rw [evalLoop_succ]
  cases cond with
  | none =>
    simp only [Option.map_none, loopCond, pure_bind]
    show PostS n env st g _ (run (evalBlock f env _ >>= loopBodyK f lbl ((none : Option CExpr).map (toAst nm ln)) _) st)
    refine loop_body nm ln f hB hL lbl none body n env st st g g _ hr rfl hlf (Next.refl hr) ?_ ?_
    · intro k r hk
      exact ⟨k + 1, by show Core.evalS (k + 1) g (.loopS lbl body) = _; rw [evalS_loopS]; exact hk⟩
    · intro h k
      show Core.evalS k g (.loopS lbl body) = none
      cases k with
      | zero => rfl
      | succ k => rw [evalS_loopS]; exact h k
  | some c =>
    simp only [Option.map_some, loopCond, bind_assoc]
    refine Res.bind (expr_bridge c f hr hc)
      (show Core.eval g c = none → ∀ k, Core.evalS k g (.whileS lbl c body) = none from ?_) ?_
    · intro h k; cases k <;> simp [Core.evalS, h]
    · rintro r s1 ⟨vc, g1, rfl, hvc, hec, hn⟩
      simp only [condK, bind_assoc, pure_bind]
      rw [truthy_scalar hvc, pure_bind, ← P2sh.Props.C06.falsey_table]
      cases hfal : vc.isFalsey with
      | true =>
        simp only [Bool.not_true]
        exact ⟨rfl, .normal, g1, 1, rfl,
          by show Core.evalS 1 g (.whileS lbl c body) = _; simp [Core.evalS, hec, hfal], hn⟩
      | false =>
        simp only [Bool.not_false]
        show PostS n env st g _ (run (evalBlock f env _ >>= loopBodyK f lbl ((some c).map (toAst nm ln)) _) s1)
        refine loop_body nm ln f hB hL lbl (some c) body n env st s1 g g1 _ (hn.rel hr) hc hlf hn ?_ ?_
        · intro k r hk
          exact ⟨k + 1, by show Core.evalS (k + 1) g (.whileS lbl c body) = _; rw [evalS_whileS lbl c body g g1 vc k hec hfal]; exact hk⟩
        · intro h k
          show Core.evalS k g (.whileS lbl c body) = none
          cases k with
          | zero => rfl
          | succ k => rw [evalS_whileS lbl c body g g1 vc k hec hfal]; exact h k

/-- the four statements, for every fuel of the oracle -/
theorem all_ok : ∀ fuel, AllOK nm ln fuel := by
  intro fuel
  induction fuel using Nat.strongRecOn with
  | ind fuel ih =>
    cases fuel with
    | zero => exact all_zero nm ln
    | succ f =>
      have ihf := ih f (Nat.lt_succ_self f)
      exact ⟨stmt_succ nm ln f (fun f' hf' => ih f' (Nat.lt_succ_of_le hf')),
        stmts_succ nm ln f ihf.1 ihf.2.1, block_succ nm ln f ihf.2.1, loop_succ nm ln f ihf.2.2.1 ihf.2.2.2⟩

end Induction

/-! ## top level: `let` defines the next global -/

theorem run_siteCell_fresh (site : Nat) (s : St) (h : s.sites.find? (·.1 == site) = none) :
    run (siteCell site) s = (.ok s.cells.length, { s with cells := s.cells ++ [Val.null], sites := (site, s.cells.length) :: s.sites }) := by
  unfold siteCell
  show run (get >>= _) s = _
  rw [run_bind]
  show run (match s.sites.find? _ with | some p => _ | none => _) s = _
  rw [h]
  rfl

theorem take_set_succ : ∀ (l : List Val) (n : Nat) (v : Val), n < l.length → (l.set n v).take (n+1) = l.take n ++ [v]
  | [], n, v, h => by simp at h
  | x :: l, 0, v, _ => by simp
  | x :: l, n+1, v, h => by
    simp only [List.set_cons_succ, List.take_succ_cons, List.cons_append, List.cons.injEq, true_and]
    exact take_set_succ l n v (by simpa using h)

theorem append_set_last : ∀ (l : List Val) (x v : Val), (l ++ [x]).set l.length v = l ++ [v]
  | [], x, v => rfl
  | y :: l, x, v => by simp [append_set_last l x v]

theorem lookupEnv_bindTop (name x : String) (b : Bind) (env : Env) :
    lookupEnv name (bindTop x b env) = if x == name then some b else lookupEnv name env := by
  cases env with
  | nil => 
    simp only [bindTop, lookupEnv, lookupScope]
    by_cases hx : (x == name) = true <;> simp [hx]
  | cons sc rest =>
    simp only [bindTop, lookupEnv, lookupScope]
    by_cases hx : (x == name) = true <;> simp [hx]

theorem isGlobalEnv_bindTop (x : String) (c : Nat) (env : Env) (h : isGlobalEnv env = true) :
    isGlobalEnv (bindTop x (.g c) env) = true := by
  cases env with
  | nil => simp [bindTop, isGlobalEnv]
  | cons sc rest =>
    simp only [isGlobalEnv, bindTop, List.all_cons, Bool.and_eq_true] at h ⊢
    exact ⟨⟨trivial, h.1⟩, h.2⟩

/-- the relation at top level: the first `n` globals are defined -- cell `i` of the oracle is slot `i` of
Core, bound to the name `nm i` --, the environment is the global one, and the definition sites
`n, n+1, …` have not been executed -/
structure TopRel (nm : Nat → String) (n : Nat) (env : Env) (st : St) (g : List Val) : Prop where
  rel : Rel nm n env st g
  glob : isGlobalEnv env = true
  fresh : ∀ i, n ≤ i → st.sites.find? (·.1 == i) = none

theorem TopRel.next {nm n env st g g' st'} (hr : TopRel nm n env st g) (h : Next n st g g' st') : TopRel nm n env st' g' := by
  refine ⟨h.rel hr.rel, hr.glob, ?_⟩
  obtain ⟨rfl, -, -⟩ := h
  exact hr.fresh

/-- the empty program state: no global defined, `N` slots on Core's side -/
theorem TopRel.init (nm : Nat → String) (N : Nat) : TopRel nm 0 [[]] {} (List.replicate N .null) :=
  ⟨⟨Nat.zero_le _, ⟨rfl, fun i hi => by simp at hi, fun v hv => by simp at hv⟩⟩, rfl, fun _ _ => rfl⟩

def LOK (nm : Nat → String) (n : Nat) (g : List Val) (e : CExpr) (r : Flow × Val × Env) (st' : St) : Prop :=
  r.1 = .normal ∧ ∃ g' f', Core.evalS f' g (.letG n e) = some (g', .normal) ∧ TopRel nm (n + 1) r.2.2 st' g' ∧
    g'.length = g.length

theorem let_ok (nm : Nat → String) (ln fuel n : Nat) (e : CExpr) (env : Env) (st : St) (g : List Val)
    (hr : TopRel nm n env st g) (hinj : ∀ i, i < n → nm n ≠ nm i) (hn : n < g.length) (hf : globalsBelow n e = true) :
    Res (LOK nm n g e) (∀ k, Core.evalS k g (.letG n e) = none)
      (run (evalStmt fuel env (toStmt nm ln (.letG n e))) st) := by
  cases fuel with
  | zero => rw [evalStmt_zero]; exact True.intro
  | succ f =>
    rw [toStmt, evalStmt_let]
    refine Res.bind (expr_bridge e f hr.rel hf) ?_ ?_
    · intro h k; cases k <;> simp [Core.evalS, h]
    · rintro r s1 ⟨v, g1, rfl, hv, he, rfl, hl, hs⟩
      have hn1 : n < g1.length := hl ▸ hn
      have hlen1 : (g1.take n).length = n := by rw [List.length_take]; omega
      show Res _ _ (run (if isGlobalEnv env then _ else _) _)
      rw [hr.glob]
      simp only [if_true]
      have hfresh : ({ st with cells := g1.take n } : St).sites.find? (·.1 == n) = none := hr.fresh n (Nat.le_refl n)
      rw [run_bind, run_siteCell_fresh _ _ hfresh]
      dsimp only
      rw [run_setCell_bind, run_pure]
      dsimp only
      rw [hlen1]
      have hcells : ((g1.take n) ++ [Val.null]).set n v = (g1.set n v).take (n + 1) := by
        rw [take_set_succ g1 n v hn1]
        have := append_set_last (g1.take n) .null v
        rw [hlen1] at this
        exact this
      refine ⟨rfl, g1.set n v, 1, by simp [Core.evalS, he, hn1], ⟨⟨?_, ⟨hcells, ?_, ?_⟩⟩, ?_, ?_⟩, ?_⟩
      · rw [List.length_set]; omega
      · intro i hi
        rw [List.length_take, List.length_set] at hi
        show lookupEnv (nm i) (bindTop (nm n) (.g n) env) = some (.g i)
        rw [lookupEnv_bindTop]
        by_cases hin : i = n
        · subst hin; simp
        · have hi' : i < n := by omega
          have hne : (nm n == nm i) = false := by simpa using hinj i hi'
          rw [hne]
          simp only [Bool.false_eq_true, if_false]
          exact hr.rel.rel.bound i (by rw [List.length_take]; omega)
      · intro x hx
        rw [take_set_succ g1 n v hn1, List.mem_append] at hx
        rcases hx with hx | hx
        · exact hs x hx
        · simp only [List.mem_singleton] at hx; rw [hx]; exact hv
      · exact isGlobalEnv_bindTop _ _ _ hr.glob
      · intro i hi
        show ((n, n) :: st.sites).find? _ = none
        rw [List.find?_cons]
        have hne : (n == i) = false := by simp; omega
        simp only [hne]
        exact hr.fresh i (by omega)
      · rw [List.length_set]; exact hl

/-- what is proved of one run of the oracle on a top-level statement list -/
def TOK (nm : Nat → String) (g : List Val) (ss : List CStmt) (r : Flow × Val × Env) (st' : St) : Prop :=
  ∃ fl' g' f' n', r.1 = toFlow fl' ∧ Core.evalP f' g ss = some (g', fl') ∧ TopRel nm n' r.2.2 st' g' ∧
    g'.length = g.length

def PostTop (nm : Nat → String) (g : List Val) (ss : List CStmt) : Except Err (Flow × Val × Env) × St → Prop :=
  Res (TOK nm g ss) (∀ f, Core.evalP f g ss = none)

def HeadOK (nm : Nat → String) (N : Nat) (g : List Val) (s : CStmt) (rest : List CStmt) (r : Flow × Val × Env) (st' : St) : Prop :=
  ∃ fl' g1 f1 n1, r.1 = toFlow fl' ∧ Core.evalS f1 g s = some (g1, fl') ∧ TopRel nm n1 r.2.2 st' g1 ∧
    g1.length = g.length ∧ (fl' = .normal → topOK N n1 rest = true)

theorem top_cons (nm : Nat → String) (ln N f : Nat) (s : CStmt) (rest : List CStmt) (env : Env) (st : St) (g : List Val)
    (hg : g.length = N)
    (hs : Res (HeadOK nm N g s rest) (∀ k, Core.evalS k g s = none) (run (evalStmt f env (toStmt nm ln s)) st))
    (ih : ∀ n1 env1 st1 g1 last, g1.length = N → TopRel nm n1 env1 st1 g1 → topOK N n1 rest = true →
      PostTop nm g1 rest (run (evalStmts f env1 (toStmts nm ln rest) last) st1)) :
    PostTop nm g (s :: rest) (run (evalStmt f env (toStmt nm ln s) >>= stmtsK f (toStmts nm ln rest)) st) := by
  refine Res.bind hs ?_ ?_
  · intro h k
    cases k with
    | zero => rfl
    | succ k => simp only [Core.evalP, h k]
  · rintro ⟨fl, v, env1⟩ s1 ⟨fl', g1, f1, n1, hfl, hev, hr1, hl1, hrest⟩
    have hfl' : fl = toFlow fl' := hfl
    subst hfl'
    cases fl' with
    | normal =>
      show PostTop nm g (s :: rest) (run (evalStmts f env1 (toStmts nm ln rest) v) s1)
      refine Res.mono ?_ ?_ (ih n1 env1 s1 g1 v (hl1.trans hg) hr1 (hrest rfl))
      · rintro r s2 ⟨fl2, g2, f2, n2, hfl2, hev2, hr2, hl2⟩
        refine ⟨fl2, g2, max f1 f2 + 1, n2, hfl2, ?_, hr2, hl2.trans hl1⟩
        simp only [Core.evalP]
        rw [evalS_mono (Nat.le_max_left f1 f2) hev]
        exact evalP_mono (Nat.le_max_right f1 f2) hev2
      · intro h k
        cases k with
        | zero => rfl
        | succ k =>
          simp only [Core.evalP]
          cases hk : Core.evalS k g s with
          | none => rfl
          | some r =>
            obtain rfl := evalS_det hk hev
            exact h k
    | brk l => exact ⟨.brk l, g1, f1 + 1, n1, rfl, by simp only [Core.evalP, hev], hr1, hl1⟩
    | cont l => exact ⟨.cont l, g1, f1 + 1, n1, rfl, by simp only [Core.evalP, hev], hr1, hl1⟩

theorem top_inner (nm : Nat → String) (ln N f n : Nat) (s : CStmt) (rest : List CStmt) (env : Env) (st : St) (g : List Val)
    (hr : TopRel nm n env st g) (hlf : letFree n s = true) (hrest : topOK N n rest = true) :
    Res (HeadOK nm N g s rest) (∀ k, Core.evalS k g s = none) (run (evalStmt f env (toStmt nm ln s)) st) := by
  refine Res.mono ?_ id ((all_ok nm ln f).1 s n env st g hr.rel hlf)
  rintro ⟨fl, v, env1⟩ s1 ⟨henv, fl', g1, f1, hfl, hev, hn⟩
  have henv' : env1 = env := henv
  subst henv'
  exact ⟨fl', g1, f1, n, hfl, hev, hr.next hn, hn.2.1, fun _ => hrest⟩

theorem top_ok (nm : Nat → String) (ln N : Nat) (hinj : ∀ i j, i < N → j < N → nm i = nm j → i = j) :
    ∀ (fuel : Nat) (ss : List CStmt) (n : Nat) (env : Env) (st : St) (g : List Val) (last : Val),
      g.length = N → TopRel nm n env st g → topOK N n ss = true →
      PostTop nm g ss (run (evalStmts fuel env (toStmts nm ln ss) last) st) := by
  intro fuel
  induction fuel with
  | zero => intro ss n env st g last _ _ _; rw [evalStmts_zero]; exact True.intro
  | succ f ih =>
    intro ss n env st g last hg hr hok
    cases ss with
    | nil =>
      rw [toStmts, evalStmts_nil]
      exact ⟨.normal, g, 1, n, rfl, rfl, hr, rfl⟩
    | cons s rest =>
      rw [toStmts, evalStmts_cons]
      have ih' := fun n1 env1 st1 g1 last h1 h2 h3 => ih rest n1 env1 st1 g1 last h1 h2 h3
      cases s with
      | letG i e =>
        simp only [topOK, Bool.and_eq_true, beq_iff_eq, decide_eq_true_eq] at hok
        obtain ⟨⟨⟨rfl, hnN⟩, hf⟩, hrest⟩ := hok
        refine top_cons nm ln N f _ rest env st g hg ?_ ih'
        refine Res.mono ?_ id (let_ok nm ln f i e env st g hr (fun j hj h => ?_) (hg ▸ hnN) hf)
        · rintro ⟨fl, v, env1⟩ s1 ⟨hfl, g1, f1, hev, hr1, hl1⟩
          exact ⟨.normal, g1, f1, i + 1, hfl, hev, hr1, hl1, fun _ => hrest⟩
        · have := hinj i j hnN (by omega) h
          omega
      | expr e =>
        simp only [topOK, Bool.and_eq_true] at hok
        exact top_cons nm ln N f _ rest env st g hg (top_inner nm ln N f n _ rest env st g hr hok.1 hok.2) ih'
      | block b =>
        simp only [topOK, Bool.and_eq_true] at hok
        exact top_cons nm ln N f _ rest env st g hg (top_inner nm ln N f n _ rest env st g hr hok.1 hok.2) ih'
      | whileS l c b =>
        simp only [topOK, Bool.and_eq_true] at hok
        exact top_cons nm ln N f _ rest env st g hg (top_inner nm ln N f n _ rest env st g hr hok.1 hok.2) ih'
      | loopS l b =>
        simp only [topOK, Bool.and_eq_true] at hok
        exact top_cons nm ln N f _ rest env st g hg (top_inner nm ln N f n _ rest env st g hr hok.1 hok.2) ih'
      | breakS l =>
        simp only [topOK, Bool.and_eq_true] at hok
        exact top_cons nm ln N f _ rest env st g hg (top_inner nm ln N f n _ rest env st g hr hok.1 hok.2) ih'
      | continueS l =>
        simp only [topOK, Bool.and_eq_true] at hok
        exact top_cons nm ln N f _ rest env st g hg (top_inner nm ln N f n _ rest env st g hr hok.1 hok.2) ih'
      | ifS c t e =>
        simp only [topOK, Bool.and_eq_true] at hok
        exact top_cons nm ln N f _ rest env st g hg (top_inner nm ln N f n _ rest env st g hr hok.1 hok.2) ih'

/-! ## the theorems -/

/-- **the oracle's run of a program is Core's evaluation.**  Whenever the reference interpreter
runs the AST of a program of the fragment (`topOK`) to an end -- normally, or through a
`break`/`continue` that no loop of the program consumes --, `Core.evalP` -- the semantics
`Core.compileP_correct` is stated against -- with enough fuel ends in the same flow, with globals
`g'` that are again related to the oracle's final environment and state: the `n'` globals defined so
far are the oracle's cells (`st'.cells = g'.take n'`), each bound to its name in `env'`. -/
theorem ref_stmts_core_partial {nm : Nat → String} {ln n fuel : Nat} {ss : List CStmt} {env env' : Env} {st st' : St}
    {g : List Val} {last v : Val} {flow : Flow}
    (hinj : ∀ i j, i < g.length → j < g.length → nm i = nm j → i = j)
    (hr : TopRel nm n env st g) (hok : topOK g.length n ss = true)
    (h : run (evalStmts fuel env (toStmts nm ln ss) last) st = (.ok (flow, v, env'), st')) :
    ∃ fuel' g' flow' n', flow = toFlow flow' ∧ Core.evalP fuel' g ss = some (g', flow') ∧
      TopRel nm n' env' st' g' ∧ g'.length = g.length := by
  have hm := top_ok nm ln g.length hinj fuel ss n env st g last rfl hr hok
  rw [h] at hm
  obtain ⟨fl', g', f', n', hfl, hev, hr', hl⟩ := hm
  exact ⟨f', g', fl', n', hfl, hev, hr', hl⟩

/-- **the oracle's runtime error is Core's.**  `Core.evalP` answers `none` both for a runtime error
and for insufficient fuel, so the statement is: no fuel makes Core's evaluation of the program end. -/
theorem ref_stmts_error_core_partial {nm : Nat → String} {ln n fuel l : Nat} {ss : List CStmt} {env : Env} {st st' : St}
    {g : List Val} {last : Val}
    (hinj : ∀ i j, i < g.length → j < g.length → nm i = nm j → i = j)
    (hr : TopRel nm n env st g) (hok : topOK g.length n ss = true)
    (h : run (evalStmts fuel env (toStmts nm ln ss) last) st = (.error (.rt l), st')) :
    ∀ f, Core.evalP f g ss = none := by
  have hm := top_ok nm ln g.length hinj fuel ss n env st g last rfl hr hok
  rw [h] at hm
  exact hm

/-- the same for a `let`-free statement list anywhere (inside blocks, loop bodies, branches): the
environment is unchanged, only the cells of the defined globals change -/
theorem ref_inner_stmts_core {nm : Nat → String} {ln n fuel : Nat} {ss : List CStmt} {env env' : Env} {st st' : St}
    {g : List Val} {last v : Val} {flow : Flow}
    (hr : Rel nm n env st g) (hok : letFreeP n ss = true)
    (h : run (evalStmts fuel env (toStmts nm ln ss) last) st = (.ok (flow, v, env'), st')) :
    ∃ fuel' g' flow', flow = toFlow flow' ∧ Core.evalP fuel' g ss = some (g', flow') ∧ env' = env ∧
      st' = { st with cells := g'.take n } ∧ Rel nm n env' st' g' := by
  have hm := (all_ok nm ln fuel).2.1 ss n env st g last hr hok
  rw [h] at hm
  obtain ⟨henv, fl', g', f', hfl, hev, hn⟩ := hm
  have henv' : env' = env := henv
  subst henv'
  exact ⟨f', g', fl', hfl, hev, rfl, hn.1, hn.rel hr⟩

theorem ref_inner_stmts_error_core {nm : Nat → String} {ln n fuel l : Nat} {ss : List CStmt} {env : Env} {st st' : St}
    {g : List Val} {last : Val}
    (hr : Rel nm n env st g) (hok : letFreeP n ss = true)
    (h : run (evalStmts fuel env (toStmts nm ln ss) last) st = (.error (.rt l), st')) :
    ∀ f, Core.evalP f g ss = none := by
  have hm := (all_ok nm ln fuel).2.1 ss n env st g last hr hok
  rw [h] at hm
  exact hm

/-- a program of the fragment never ends in `return` -/
theorem ref_stmts_no_return_partial {nm : Nat → String} {ln n fuel : Nat} {ss : List CStmt} {env env' : Env} {st st' : St}
    {g : List Val} {last v r : Val}
    (hinj : ∀ i j, i < g.length → j < g.length → nm i = nm j → i = j)
    (hr : TopRel nm n env st g) (hok : topOK g.length n ss = true) :
    run (evalStmts fuel env (toStmts nm ln ss) last) st ≠ (.ok (.ret r, v, env'), st') := by
  intro h
  obtain ⟨_, _, fl', _, hfl, _⟩ := ref_stmts_core_partial hinj hr hok h
  cases fl' <;> cases hfl

/-- **composition with compiler correctness**: when the oracle runs a whole program (from the empty
state, as `Driver/LangDrv.lean` runs it) to its normal end, the code `Core.compileP` emits, run on the
Core machine from `N` null globals and the empty stack, reaches the end of the code with the empty
stack and globals `g'` whose defined part is the oracle's cells. -/
theorem ref_program_compiled_partial {nm : Nat → String} {ln N fuel : Nat} {ss : List CStmt} {env' : Env} {st' : St} {v : Val}
    (hinj : ∀ i j, i < N → j < N → nm i = nm j → i = j) (hok : topOK N 0 ss = true)
    (h : run (evalStmts fuel [[]] (toStmts nm ln ss) .null) {} = (.ok (.normal, v, env'), st')) :
    ∃ g' n', Core.Steps (Core.compileP 0 0 [] ss) (Core.constsP ss) ⟨0, [], List.replicate N .null⟩
        ⟨Core.bytes (Core.compileP 0 0 [] ss), [], g'⟩ ∧ TopRel nm n' env' st' g' ∧ st'.cells = g'.take n' := by
  have hlen : (List.replicate N Val.null).length = N := List.length_replicate
  obtain ⟨f', g', fl', n', hfl, hev, hr', -⟩ :=
    ref_stmts_core_partial (g := List.replicate N .null) (by rw [hlen]; exact hinj) (TopRel.init nm N) (by rw [hlen]; exact hok) h
  have : fl' = .normal := by cases fl' <;> first | rfl | cases hfl
  subst this
  exact ⟨g', n', Core.program_correct f' ss _ g' hev, hr', hr'.rel.rel.cells⟩

/-! ## non-vacuity -/

section Examples

theorem nm1_inj : ∀ i j, i < 2 → j < 2 → nm1 i = nm1 j → i = j := by
  intro i j hi hj h
  have h1 : i = 0 ∨ i = 1 := by omega
  have h2 : j = 0 ∨ j = 1 := by omega
  rcases h1 with rfl | rfl <;> rcases h2 with rfl | rfl <;> first | rfl | (simp [nm1] at h)

/-- ```
let x = 0;
outer: while x < 10 { x = x + 1; if x == 1 { break outer; } else { x = 5; } }
``` -/
def p0 : List CStmt := [
  .letG 0 (.lit (.int 0)),
  .whileS (some "outer") (.lt (.gget 0) (.lit (.int 10))) [
    .expr (.gset 0 (.bin .add (.gget 0) (.lit (.int 1)))),
    .ifS (.bin .equal (.gget 0) (.lit (.int 1))) [.breakS (some "outer")] [.expr (.gset 0 (.lit (.int 5)))]]]

/-- the oracle runs `p0` from the empty state to its normal end (a `while` loop, an `if` statement,
a labelled `break`) -/
theorem p0_ref : run (evalStmts 30 [[]] (toStmts nm1 1 p0) .null) {} =
    (.ok (.normal, .null, [[("x", .g 0)]]), { cells := [.int 1], sites := [(0, 0)] }) := by rfl

example : ∃ fuel' g', Core.evalP fuel' [.null, .null] p0 = some (g', .normal) ∧ g'.take 1 = [.int 1] := by
  obtain ⟨f', g', fl', n', hfl, hev, hr', hl⟩ :=
    ref_stmts_core_partial (g := [.null, .null]) nm1_inj (TopRel.init nm1 2) (by decide) p0_ref
  have : fl' = .normal := by cases fl' <;> first | rfl | cases hfl
  subst this
  have hc := hr'.rel.rel.cells
  have hn' : n' = 1 := by
    have h1 := congrArg List.length hc
    simp only [List.length_cons, List.length_nil, List.length_take] at h1
    have := hr'.rel.le
    omega
  subst hn'
  exact ⟨f', g', hev, hc.symm⟩

/-- the compiled program reaches its end -/
example : ∃ g', Core.Steps (Core.compileP 0 0 [] p0) (Core.constsP p0) ⟨0, [], [.null, .null]⟩
    ⟨Core.bytes (Core.compileP 0 0 [] p0), [], g'⟩ :=
  let ⟨g', _, h, _⟩ := ref_program_compiled_partial (N := 2) nm1_inj (by decide) p0_ref
  ⟨g', h⟩

/-- the recogniser of the fragment (`Core.ofStmts`, which reads the AST of the parsed source) maps the
embedding back to the program -/
example : (Core.ofStmts 30 0 [] [] (toStmts nm1 1 p0)).map (·.1) = some p0 := by rfl

/-- ```
let x = 0; let y = 1;
outer: while x < 10 { x = x + 1; if x == 3 { break outer; } else { y = y * 2; } }
loop { if y > 100 { break; } y = y * y; continue; }
```
(five iterations: `rfl` through the elaborator's `whnf` is exponential in the number of iterations,
so this run is checked by the kernel, through a Boolean test of the outcome) -/
def p1 : List CStmt := [
  .letG 0 (.lit (.int 0)),
  .letG 1 (.lit (.int 1)),
  .whileS (some "outer") (.lt (.gget 0) (.lit (.int 10))) [
    .expr (.gset 0 (.bin .add (.gget 0) (.lit (.int 1)))),
    .ifS (.bin .equal (.gget 0) (.lit (.int 3))) [.breakS (some "outer")]
      [.expr (.gset 1 (.bin .mul (.gget 1) (.lit (.int 2))))]],
  .loopS none [
    .ifS (.bin .greater (.gget 1) (.lit (.int 100))) [.breakS none] [],
    .expr (.gset 1 (.bin .mul (.gget 1) (.gget 1))),
    .continueS none]]

def intOf : Val → Option Int
  | .int v => some v.toInt
  | _ => none

/-- the run ended normally with these integer cells -/
def endsWith (o : Except Err (Flow × Val × Env) × St) (cells : List Int) : Bool :=
  match o with
  | (.ok (.normal, _, _), st) => st.cells.map intOf == cells.map some
  | _ => false

theorem of_endsWith {o : Except Err (Flow × Val × Env) × St} {cs : List Int} (h : endsWith o cs = true) :
    ∃ v env' st', o = (.ok (.normal, v, env'), st') ∧ st'.cells.map intOf = cs.map some := by
  rcases o with ⟨er | ⟨fl, v, env'⟩, st'⟩
  · simp [endsWith] at h
  · cases fl <;> first | (simp [endsWith] at h; done) | exact ⟨v, env', st', rfl, by simpa [endsWith] using h⟩

/-- the oracle runs `p1` from the empty state to its normal end: `x = 3`, `y = 256` -/
theorem p1_ref : endsWith (run (evalStmts 60 [[]] (toStmts nm1 1 p1) .null) {}) [3, 256] = true := by decide +kernel

example : ∃ fuel' g' n', Core.evalP fuel' [.null, .null] p1 = some (g', .normal) ∧ (g'.take n').map intOf = [some 3, some 256] := by
  obtain ⟨v, env', st', h, hcells⟩ := of_endsWith p1_ref
  obtain ⟨f', g', fl', n', hfl, hev, hr', hl⟩ :=
    ref_stmts_core_partial (g := [.null, .null]) nm1_inj (TopRel.init nm1 2) (by decide) h
  have : fl' = .normal := by cases fl' <;> first | rfl | cases hfl
  subst this
  exact ⟨f', g', n', hev, by rw [← hr'.rel.rel.cells]; exact hcells⟩

example : (Core.ofStmts 30 0 [] [] (toStmts nm1 1 p1)).map (·.1) = some p1 := by rfl

/-- ```
let x = 1;
while true { x = x + true; }
```
a runtime error inside a loop body (on line 7): no fuel makes Core's evaluation end -/
def p2 : List CStmt := [
  .letG 0 (.lit (.int 1)),
  .whileS none .tru [.expr (.gset 0 (.bin .add (.gget 0) .tru))]]

theorem p2_ref : run (evalStmts 20 [[]] (toStmts nm1 7 p2) .null) {} =
    (.error (.rt 7), { cells := [.int 1], sites := [(0, 0)] }) := by rfl

example : ∀ f, Core.evalP f [.null] p2 = none :=
  ref_stmts_error_core_partial (g := [.null]) (by intro i j hi hj _; simp at hi hj; omega) (TopRel.init nm1 1) (by decide) p2_ref

/-- a `break` that no loop consumes ends the program in that flow on both sides -/
def p3 : List CStmt := [.letG 0 (.lit (.int 1)), .block [.breakS (some "l")], .expr (.gset 0 (.lit (.int 2)))]

theorem p3_ref : run (evalStmts 20 [[]] (toStmts nm1 1 p3) .null) {} =
    (.ok (.brk (some "l"), .null, [[("x", .g 0)]]), { cells := [.int 1], sites := [(0, 0)] }) := by rfl

example : ∃ fuel' g', Core.evalP fuel' [.null] p3 = some (g', .brk (some "l")) := by
  obtain ⟨f', g', fl', n', hfl, hev, -, -⟩ :=
    ref_stmts_core_partial (g := [.null]) (by intro i j hi hj _; simp at hi hj; omega) (TopRel.init nm1 1) (by decide) p3_ref
  cases fl' <;> cases hfl
  exact ⟨f', g', hev⟩

end Examples

/-! # Part 2: the whole fragment -- `let` anywhere, shadowing, re-definition -/

mutual
/-- every global the expression reads or assigns satisfies `P` -/
def globalsSat (P : Nat → Bool) : CExpr → Bool
  | .lit _ | .tru | .fls | .null => true
  | .un _ e => globalsSat P e
  | .bin _ a b | .lt a b | .le a b | .and a b | .or a b => globalsSat P a && globalsSat P b
  | .ite c t e => globalsSat P c && globalsSat P t && globalsSat P e
  | .gget i => P i
  | .gset i e => P i && globalsSat P e
  | .matchE s arms => globalsSat P s && globalsSatArms P arms
def globalsSatArms (P : Nat → Bool) : CArms → Bool
  | .last d => globalsSat P d
  | .cons _ body rest => globalsSat P body && globalsSatArms P rest
end

/-- what the expression proof needs of a relation `Rl` between the oracle's environment / state and
Core's globals, for the globals that satisfy `P` -/
structure RelOps (nm : Nat → String) (P : Nat → Bool) (Rl : Env → St → List Val → Prop) : Prop where
  get : ∀ env st g i, Rl env st g → P i = true → ∃ c, lookupEnv (nm i) env = some (.g c) ∧
    st.cells.getD c .null = g.getD i .null ∧ isScalar (g.getD i .null) = true
  set : ∀ env st g i v, Rl env st g → P i = true → isScalar v = true → ∃ c, lookupEnv (nm i) env = some (.g c) ∧
    i < g.length ∧ Rl env { st with cells := st.cells.set c v } (g.set i v)
  push : ∀ env st g, Rl env st g → Rl ([] :: env) st g
  pop : ∀ env st g, Rl ([] :: env) st g → Rl env st g

section Expr
variable {nm : Nat → String} {P : Nat → Bool} {Rl : Env → St → List Val → Prop} (ops : RelOps nm P Rl) (ln : Nat)

def ValOKG (Rl : Env → St → List Val → Prop) (env : Env) (ev : Option (Val × List Val)) (v : Val) (st' : St) : Prop :=
  isScalar v = true ∧ ∃ g', ev = some (v, g') ∧ Rl env st' g'

def PostG (Rl : Env → St → List Val → Prop) (env : Env) (ev : Option (Val × List Val)) : Except Err (Ref.R Val) × St → Prop :=
  Out env (ValOKG Rl env ev) (ev = none)

def MainG (nm : Nat → String) (P : Nat → Bool) (Rl : Env → St → List Val → Prop) (ln : Nat) (e : CExpr) : Prop :=
  ∀ fuel env st g, Rl env st g → globalsSat P e = true →
    PostG Rl env (Core.eval g e) (run (evalE fuel env (toAst nm ln e)) st)

theorem postG_eq {env : Env} {ev ev' : Option (Val × List Val)} {o : Except Err (Ref.R Val) × St} (hev : ev = ev')
    (h : PostG Rl env ev' o) : PostG Rl env ev o := by subst hev; exact h

include ops in
theorem postG_pop {env : Env} {ev ev' : Option (Val × List Val)} {o : Except Err (Ref.R Val) × St} (hev : ev = ev')
    (h : Out ([] :: env) (ValOKG Rl ([] :: env) ev') (ev' = none) o) :
    Out ([] :: env) (ValOKG Rl env ev) (ev = none) o := by
  subst hev
  exact h.mono (fun v s ⟨hv, g', he, hr'⟩ => ⟨hv, g', he, ops.pop _ _ _ hr'⟩) id

theorem main_binopG (op : Operator) (x y e : CExpr) (ihx : MainG nm P Rl ln x) (ihy : MainG nm P Rl ln y)
    (line f : Nat) (env : Env) (st : St) (g : List Val) (hr : Rl env st g)
    (hfx : globalsSat P x = true) (hfy : globalsSat P y = true)
    (h1 : Core.eval g x = none → Core.eval g e = none)
    (h2 : ∀ vx g1, Core.eval g x = some (vx, g1) → Core.eval g1 y = none → Core.eval g e = none)
    (h3 : ∀ vx g1 vy g2 r, Core.eval g x = some (vx, g1) → Core.eval g1 y = some (vy, g2) →
      execOperator op vx vy = .ok r → Core.eval g e = some (r, g2))
    (h4 : ∀ vx g1 vy g2 msg, Core.eval g x = some (vx, g1) → Core.eval g1 y = some (vy, g2) →
      execOperator op vx vy = .err msg → Core.eval g e = none) :
    PostG Rl env (Core.eval g e) (run (bindR (evalE f env (toAst nm ln x)) fun vx env =>
      bindR (evalE f env (toAst nm ln y)) fun vy env =>
        applyBinary line (P2sh.Props.C09.specOp op) vx vy >>= fun r => pure (.val r env)) st) := by
  refine out_bindR (ihx f env st g hr hfx) h1 ?_
  rintro vx s1 ⟨hvx, g1, hex, hr1⟩
  refine out_bindR (ihy f env _ g1 hr1 hfy) (h2 vx g1 hex) ?_
  rintro vy s2 ⟨hvy, g2, hey, hr2⟩
  refine out_applyBinary line op vx vy _ hvx hvy ?_ ?_
  · intro r hop hrs
    exact ⟨hrs, g2, h3 _ _ _ _ _ hex hey hop, hr2⟩
  · rintro ⟨msg, hop⟩
    exact h4 _ _ _ _ _ hex hey hop

def ArmsMainG (nm : Nat → String) (P : Nat → Bool) (Rl : Env → St → List Val → Prop) (ln : Nat) (arms : CArms) : Prop :=
  ∀ fuel env st g v, Rl env st g → isScalar v = true → globalsSatArms P arms = true →
    PostG Rl env (Core.evalArms g v arms) (run (evalArms fuel env v (toArms nm ln arms)) st)

include ops in
theorem main_armsG : ∀ arms : CArms, arms.All (MainG nm P Rl ln) → ArmsMainG nm P Rl ln arms := by
  intro arms
  induction arms using CArms.ind with
  | last d =>
    intro hall fuel env st g v hr hv hf
    simp only [CArms.All] at hall
    simp only [globalsSatArms] at hf
    cases fuel with
    | zero => rw [evalArms_zero]; exact True.intro
    | succ f =>
      rw [toArms, evalArms_cons]
      refine out_bind_hit (run_hitLoop ln v st [.dflt] false) ?_
      intro b hb
      have hb' : b = true := by simpa [Core.patsTest, Core.patTest] using hb.symm
      subst hb'
      simp only [if_true]
      exact out_evalBranch f ln _ _ (fun l fn args h => toAst_not_call nm ln d l fn args h) fun f' =>
        postG_pop ops (by simp only [Core.evalArms]) (hall f' _ _ g (ops.push _ _ _ hr) hf)
  | cons pats body rest ih =>
    intro hall fuel env st g v hr hv hf
    simp only [CArms.All] at hall
    simp only [globalsSatArms, Bool.and_eq_true] at hf
    cases fuel with
    | zero => rw [evalArms_zero]; exact True.intro
    | succ f =>
      rw [toArms, evalArms_cons]
      refine out_bind_hit (run_hitLoop ln v st pats false) ?_
      intro b hb
      simp only [Bool.false_eq_true, if_false] at hb
      cases b with
      | true =>
        simp only [if_true]
        exact out_evalBranch f ln _ _ (fun l fn args h => toAst_not_call nm ln body l fn args h) fun f' =>
          postG_pop ops (by simp only [Core.evalArms, hb]) (hall.1 f' _ _ g (ops.push _ _ _ hr) hf.1)
      | false =>
        simp only [Bool.false_eq_true, if_false]
        rw [show Core.evalArms g v (.cons pats body rest) = Core.evalArms g v rest by simp only [Core.evalArms, hb]]
        exact ih hall.2 f env st g v hr hv hf.2

include ops in
theorem main_coreG : ∀ e, MainG nm P Rl ln e := by
  intro e
  induction e with
  | lit v =>
    intro fuel env st g hr _
    cases fuel with
    | zero => rw [evalE_zero]; exact True.intro
    | succ f =>
      rw [toAst, evalE_lit]
      cases hc : isLit v with
      | true => exact ⟨rfl, isLit_scalar hc, g, rfl, hr⟩
      | false => exact True.intro
  | tru =>
    intro fuel env st g hr _
    cases fuel with
    | zero => rw [evalE_zero]; exact True.intro
    | succ f => rw [toAst, evalE_bool]; exact ⟨rfl, rfl, g, rfl, hr⟩
  | fls =>
    intro fuel env st g hr _
    cases fuel with
    | zero => rw [evalE_zero]; exact True.intro
    | succ f => rw [toAst, evalE_bool]; exact ⟨rfl, rfl, g, rfl, hr⟩
  | null =>
    intro fuel env st g hr _
    cases fuel with
    | zero => rw [evalE_zero]; exact True.intro
    | succ f => rw [toAst, evalE_null]; exact ⟨rfl, rfl, g, rfl, hr⟩
  | un op a ih =>
    intro fuel env st g hr hf
    cases fuel with
    | zero => rw [evalE_zero]; exact True.intro
    | succ f =>
      rw [toAst, evalE_un]
      simp only [globalsSat] at hf
      refine out_bindR (ih f env st g hr hf) (fun h => by simp only [Core.eval, h]) ?_
      rintro v s1 ⟨hv, g1, he, hr1⟩
      rw [reifyM_scalar hv, pure_bind]
      have hspec := P2sh.Props.C09.unary_spec (specUn op) v
      have hes := unary_scalar (specUn op) v
      refine out_ofExpect ln _ _ ?_ ?_
      · intro r hx
        rw [hx] at hspec hes
        have h1 : Core.applyUn op v = .ok r := by rw [applyUn_eq]; exact hspec
        exact ⟨hes, g1, by simp only [Core.eval, he, h1], hr1⟩
      · intro hx
        rw [hx] at hspec
        obtain ⟨msg, hm⟩ := hspec
        have h1 : Core.applyUn op v = .err msg := by rw [applyUn_eq]; exact hm
        simp only [Core.eval, he, h1]
  | bin op a b iha ihb =>
    intro fuel env st g hr hf
    cases fuel with
    | zero => rw [evalE_zero]; exact True.intro
    | succ f =>
      rw [toAst, evalE_bin]
      simp only [globalsSat, Bool.and_eq_true] at hf
      exact main_binopG ln op a b _ iha ihb ln f env st g hr hf.1 hf.2 (by binop_side) (by binop_side) (by binop_side) (by binop_side)
  | lt a b iha ihb =>
    intro fuel env st g hr hf
    cases fuel with
    | zero => rw [evalE_zero]; exact True.intro
    | succ f =>
      rw [toAst, evalE_lt]
      simp only [globalsSat, Bool.and_eq_true] at hf
      exact main_binopG ln .greater b a _ ihb iha ln f env st g hr hf.2 hf.1 (by binop_side) (by binop_side) (by binop_side) (by binop_side)
  | le a b iha ihb =>
    intro fuel env st g hr hf
    cases fuel with
    | zero => rw [evalE_zero]; exact True.intro
    | succ f =>
      rw [toAst, evalE_le]
      simp only [globalsSat, Bool.and_eq_true] at hf
      exact main_binopG ln .greaterEq b a _ ihb iha ln f env st g hr hf.2 hf.1 (by binop_side) (by binop_side) (by binop_side) (by binop_side)
  | and a b iha ihb =>
    intro fuel env st g hr hf
    cases fuel with
    | zero => rw [evalE_zero]; exact True.intro
    | succ f =>
      rw [toAst, evalE_and]
      simp only [globalsSat, Bool.and_eq_true] at hf
      refine out_bindR (iha f env st g hr hf.1) (fun h => by simp only [Core.eval, h]) ?_
      rintro va s1 ⟨hva, g1, hea, hr1⟩
      rw [truthy_scalar hva, pure_bind, ← P2sh.Props.C06.falsey_table]
      cases hfal : va.isFalsey with
      | true =>
        simp only [Bool.not_true, Bool.false_eq_true, if_false]
        exact ⟨rfl, hva, g1, by simp only [Core.eval, hea, hfal, if_true], hr1⟩
      | false =>
        simp only [Bool.not_false, if_true]
        exact postG_eq (by simp [Core.eval, hea, hfal]) (ihb f env _ g1 hr1 hf.2)
  | or a b iha ihb =>
    intro fuel env st g hr hf
    cases fuel with
    | zero => rw [evalE_zero]; exact True.intro
    | succ f =>
      rw [toAst, evalE_or]
      simp only [globalsSat, Bool.and_eq_true] at hf
      refine out_bindR (iha f env st g hr hf.1) (fun h => by simp only [Core.eval, h]) ?_
      rintro va s1 ⟨hva, g1, hea, hr1⟩
      rw [truthy_scalar hva, pure_bind, ← P2sh.Props.C06.falsey_table]
      cases hfal : va.isFalsey with
      | true =>
        simp only [Bool.not_true, Bool.false_eq_true, if_false]
        exact postG_eq (by simp [Core.eval, hea, hfal]) (ihb f env _ g1 hr1 hf.2)
      | false =>
        simp only [Bool.not_false, if_true]
        exact ⟨rfl, hva, g1, by simp [Core.eval, hea, hfal], hr1⟩
  | ite c t e ihc iht ihe =>
    intro fuel env st g hr hf
    cases fuel with
    | zero => rw [evalE_zero]; exact True.intro
    | succ f =>
      rw [toAst, evalE_ite]
      simp only [globalsSat, Bool.and_eq_true] at hf
      refine out_bindR (ihc f env st g hr hf.1.1) (fun h => by simp only [Core.eval, h]) ?_
      rintro vc s1 ⟨hvc, g1, hec, hr1⟩
      rw [truthy_scalar hvc, pure_bind, ← P2sh.Props.C06.falsey_table]
      have hr1p := ops.push _ _ _ hr1
      cases hfal : vc.isFalsey with
      | true =>
        simp only [Bool.not_true, Bool.false_eq_true, if_false]
        exact out_evalBranch f ln _ _ (fun l fn args h => toAst_not_call nm ln e l fn args h) fun f' =>
          postG_pop ops (by simp [Core.eval, hec, hfal]) (ihe f' _ _ g1 hr1p hf.2)
      | false =>
        simp only [Bool.not_false, if_true]
        exact out_evalBranch f ln _ _ (fun l fn args h => toAst_not_call nm ln t l fn args h) fun f' =>
          postG_pop ops (by simp [Core.eval, hec, hfal]) (iht f' _ _ g1 hr1p hf.1.2)
  | gget i =>
    intro fuel env st g hr hf
    cases fuel with
    | zero => rw [evalE_zero]; exact True.intro
    | succ f =>
      simp only [globalsSat] at hf
      obtain ⟨c, hlk, hval, hsc⟩ := ops.get env st g i hr hf
      rw [toAst, evalE_gget _ _ _ _ _ c hlk, run_getCell_bind, hval]
      rw [not_poison _ hsc]
      exact ⟨rfl, hsc, g, rfl, hr⟩
  | gset i e ih =>
    intro fuel env st g hr hf
    cases fuel with
    | zero => rw [evalE_zero]; exact True.intro
    | succ f =>
      simp only [globalsSat, Bool.and_eq_true] at hf
      rw [toAst, evalE_gset]
      refine out_bindR (ih f env st g hr hf.2) (fun h => by simp only [Core.eval, h]) ?_
      rintro v s1 ⟨hv, g1, he, hr1⟩
      obtain ⟨c, hlk, hi, hr2⟩ := ops.set env s1 g1 i v hr1 hf.1 hv
      rw [assignIdent_g hlk, run_setCell_bind]
      exact ⟨rfl, hv, g1.set i v, by simp only [Core.eval, he, hi, if_true], hr2⟩
  | matchE s arms ihs iharms =>
    intro fuel env st g hr hf
    cases fuel with
    | zero => rw [evalE_zero]; exact True.intro
    | succ f =>
      rw [toAst, evalE_match]
      simp only [globalsSat, Bool.and_eq_true] at hf
      refine out_bindR (ihs f env st g hr hf.1) (fun h => by simp only [Core.eval, h]) ?_
      rintro v s1 ⟨hv, g1, hes, hr1⟩
      rw [reifyM_scalar hv, pure_bind]
      exact postG_eq (by simp only [Core.eval, hes])
        (main_armsG ops ln arms iharms f env _ g1 v hr1 hv hf.2)

end Expr

/-! ## the relation through the oracle's `sites` map -/

theorem getD_set_self (l : List Val) (a : Nat) (v : Val) (h : a < l.length) : (l.set a v).getD a .null = v := by
  simp [List.getD_eq_getElem?_getD, List.getElem?_set_self h]

theorem getD_set_ne (l : List Val) (a b : Nat) (v : Val) (h : a ≠ b) : (l.set a v).getD b .null = l.getD b .null := by
  simp [List.getD_eq_getElem?_getD, List.getElem?_set_ne h]

/-- every executed definition site `i` has its own cell `c`, which holds what Core's slot `i` holds -/
structure Coupled (st : St) (g : List Val) : Prop where
  inj : ∀ i c i' c', (i, c) ∈ st.sites → (i', c') ∈ st.sites → (i = i' ↔ c = c')
  ok : ∀ i c, (i, c) ∈ st.sites → c < st.cells.length ∧ i < g.length ∧
    st.cells.getD c .null = g.getD i .null ∧ isScalar (g.getD i .null) = true

theorem Coupled.set {st : St} {g : List Val} (h : Coupled st g) {i c : Nat} (hic : (i, c) ∈ st.sites) {v : Val}
    (hv : isScalar v = true) : Coupled { st with cells := st.cells.set c v } (g.set i v) := by
  obtain ⟨hc, hi, -, -⟩ := h.ok i c hic
  refine ⟨h.inj, ?_⟩
  intro i' c' hp
  obtain ⟨hc', hi', hval, hsc⟩ := h.ok i' c' hp
  refine ⟨by simpa using hc', by simpa using hi', ?_, ?_⟩
  · by_cases hii : i = i'
    · have hcc : c = c' := (h.inj i c i' c' hic hp).mp hii
      subst hii hcc
      show (st.cells.set c v).getD c .null = _
      rw [getD_set_self _ _ _ hc, getD_set_self _ _ _ hi]
    · have hcc : c ≠ c' := fun e => hii ((h.inj i c i' c' hic hp).mpr e)
      show (st.cells.set c v).getD c' .null = _
      rw [getD_set_ne _ _ _ _ hcc, getD_set_ne _ _ _ _ hii]; exact hval
  · by_cases hii : i = i'
    · subst hii; rw [getD_set_self _ _ _ hi]; exact hv
    · rw [getD_set_ne _ _ _ _ hii]; exact hsc

/-- the names visible at a program point (`vis`, as `Core.ofStmts` threads them) resolve in the oracle's
environment to the cells of their slots; no function activation -/
structure EnvOK (vis : Core.Vis) (env : Env) (sites : List (Nat × Nat)) : Prop where
  glob : isGlobalEnv env = true
  bound : ∀ name i, Core.globalIndex vis name = some i → ∃ c, lookupEnv name env = some (.g c) ∧ (i, c) ∈ sites

theorem EnvOK.mono {vis : Core.Vis} {env : Env} {s1 s2 : List (Nat × Nat)} (h : EnvOK vis env s1)
    (hsub : ∀ p ∈ s1, p ∈ s2) : EnvOK vis env s2 :=
  ⟨h.glob, fun name i hn => let ⟨c, h1, h2⟩ := h.bound name i hn; ⟨c, h1, hsub _ h2⟩⟩

theorem isGlobalEnv_push (env : Env) : isGlobalEnv ([] :: env) = isGlobalEnv env := by
  simp [isGlobalEnv]

theorem lookupEnv_push (name : String) (env : Env) : lookupEnv name ([] :: env) = lookupEnv name env := by
  simp [lookupEnv, lookupScope]

theorem EnvOK.push {vis : Core.Vis} {env : Env} {s : List (Nat × Nat)} (h : EnvOK vis env s) : EnvOK vis ([] :: env) s :=
  ⟨by rw [isGlobalEnv_push]; exact h.glob, fun name i hn => by rw [lookupEnv_push]; exact h.bound name i hn⟩

theorem EnvOK.pop {vis : Core.Vis} {env : Env} {s : List (Nat × Nat)} (h : EnvOK vis ([] :: env) s) : EnvOK vis env s :=
  ⟨by rw [← isGlobalEnv_push]; exact h.glob, fun name i hn => by rw [← lookupEnv_push]; exact h.bound name i hn⟩

/-- the relation, with the sites and the number of Core's globals fixed (expressions change neither) -/
def GR0 (vis : Core.Vis) (sites0 : List (Nat × Nat)) (n0 : Nat) (env : Env) (st : St) (g : List Val) : Prop :=
  Coupled st g ∧ EnvOK vis env st.sites ∧ st.sites = sites0 ∧ g.length = n0

/-- **the relation** between the oracle's environment / state and Core's globals -/
def GR (vis : Core.Vis) (env : Env) (st : St) (g : List Val) : Prop := Coupled st g ∧ EnvOK vis env st.sites

theorem relOps (nm : Nat → String) (vis : Core.Vis) (sites0 : List (Nat × Nat)) (n0 : Nat) (P : Nat → Bool)
    (hP : ∀ k, P k = true → Core.globalIndex vis (nm k) = some k) : RelOps nm P (GR0 vis sites0 n0) := by
  refine ⟨?_, ?_, ?_, ?_⟩
  · rintro env st g i ⟨hc, he, -, -⟩ hi
    obtain ⟨c, hlk, hic⟩ := he.bound _ _ (hP i hi)
    obtain ⟨-, -, hval, hsc⟩ := hc.ok i c hic
    exact ⟨c, hlk, hval, hsc⟩
  · rintro env st g i v ⟨hc, he, hs, hn⟩ hi hv
    obtain ⟨c, hlk, hic⟩ := he.bound _ _ (hP i hi)
    obtain ⟨-, hig, -, -⟩ := hc.ok i c hic
    exact ⟨c, hlk, hig, hc.set hic hv, he, hs, by rw [List.length_set]; exact hn⟩
  · rintro env st g ⟨hc, he, hs, hn⟩; exact ⟨hc, he.push, hs, hn⟩
  · rintro env st g ⟨hc, he, hs, hn⟩; exact ⟨hc, he.pop, hs, hn⟩

def EOKG (vis : Core.Vis) (env : Env) (st : St) (g : List Val) (e : CExpr) (r : Ref.R Val) (st' : St) : Prop :=
  ∃ v g', r = .val v env ∧ isScalar v = true ∧ Core.eval g e = some (v, g') ∧ GR vis env st' g' ∧
    st'.sites = st.sites ∧ g'.length = g.length

theorem expr_bridgeG {nm : Nat → String} {ln : Nat} {vis : Core.Vis} {env : Env} {st : St} {g : List Val}
    (e : CExpr) (fuel : Nat) (P : Nat → Bool) (hP : ∀ k, P k = true → Core.globalIndex vis (nm k) = some k)
    (hr : GR vis env st g) (hf : globalsSat P e = true) :
    Res (EOKG vis env st g e) (Core.eval g e = none) (run (evalE fuel env (toAst nm ln e)) st) := by
  have hm := main_coreG (relOps nm vis st.sites g.length P hP) ln e fuel env st g ⟨hr.1, hr.2, rfl, rfl⟩ hf
  refine (Out.res hm).mono ?_ id
  rintro r s ⟨v, rfl, hv, g', he, hc, hen, hs, hl⟩
  exact ⟨v, g', rfl, hv, he, ⟨hc, hen⟩, hs, hl⟩

/-! ## well-scoped programs -/

/-- the name of global `k` resolves to `k` among the visible bindings -/
def resolves (nm : Nat → String) (vis : Core.Vis) (k : Nat) : Bool := decide (Core.globalIndex vis (nm k) = some k)

/-- the bindings visible after a statement: a `let` adds its name (a block's bindings end with it) -/
def visAfter (nm : Nat → String) (vis : Core.Vis) : CStmt → Core.Vis
  | .letG i _ => (nm i, i) :: vis
  | _ => vis

def visAfterP (nm : Nat → String) : Core.Vis → List CStmt → Core.Vis
  | vis, [] => vis
  | vis, s :: rest => visAfterP nm (visAfter nm vis s) rest

mutual
/-- a statement whose source denotes it, given the visible bindings: every global an expression
mentions is the one its name resolves to; the initializer of `let x = e` does not mention `x` -/
def wfS (nm : Nat → String) (N : Nat) (vis : Core.Vis) : CStmt → Bool
  | .letG i e => decide (i < N) && globalsSat (fun k => resolves nm vis k && (nm k != nm i)) e
  | .expr e => globalsSat (resolves nm vis) e
  | .block body => wfP nm N vis body
  | .whileS _ c body => globalsSat (resolves nm vis) c && wfP nm N vis body
  | .loopS _ body => wfP nm N vis body
  | .breakS _ | .continueS _ => true
  | .ifS c t e => globalsSat (resolves nm vis) c && wfP nm N vis t && wfP nm N vis e
def wfP (nm : Nat → String) (N : Nat) (vis : Core.Vis) : List CStmt → Bool
  | [] => true
  | s :: rest => wfS nm N vis s && wfP nm N (visAfter nm vis s) rest
end

theorem resolves_sound {nm : Nat → String} {vis : Core.Vis} (k : Nat) (h : resolves nm vis k = true) :
    Core.globalIndex vis (nm k) = some k := by simpa [resolves] using h

theorem globalIndex_cons (x : String) (i : Nat) (vis : Core.Vis) (name : String) :
    Core.globalIndex ((x, i) :: vis) name = if x == name then some i else Core.globalIndex vis name := by
  simp only [Core.globalIndex, List.find?_cons]
  by_cases h : (x == name) = true <;> simp [h]

/-! ## what is proved of one run of the oracle on a statement -/

/-- a statement / statement list: the environment may have grown at its top scope -/
def SOKG (vis' : Core.Vis) (env : Env) (st : St) (g : List Val) (ev : Ev) (r : Flow × Val × Env) (st' : St) : Prop :=
  r.2.2.tail = env.tail ∧ (∀ p ∈ st.sites, p ∈ st'.sites) ∧
  ∃ fl' g' f', r.1 = toFlow fl' ∧ ev f' = some (g', fl') ∧ g'.length = g.length ∧ Coupled st' g' ∧
    (fl' = .normal → EnvOK vis' r.2.2 st'.sites)

/-- a block / loop: the environment is unchanged -/
def SOKE (env : Env) (st : St) (g : List Val) (ev : Ev) (r : Flow × Val × Env) (st' : St) : Prop :=
  r.2.2 = env ∧ (∀ p ∈ st.sites, p ∈ st'.sites) ∧
  ∃ fl' g' f', r.1 = toFlow fl' ∧ ev f' = some (g', fl') ∧ g'.length = g.length ∧ Coupled st' g'

def PostSG (vis' : Core.Vis) (env : Env) (st : St) (g : List Val) (ev : Ev) : Except Err (Flow × Val × Env) × St → Prop :=
  Res (SOKG vis' env st g ev) (∀ f, ev f = none)

def PostSE (env : Env) (st : St) (g : List Val) (ev : Ev) : Except Err (Flow × Val × Env) × St → Prop :=
  Res (SOKE env st g ev) (∀ f, ev f = none)

theorem PostSG.trans {vis' : Core.Vis} {env env1 : Env} {st st1 : St} {g g1 : List Val} {ev ev' : Ev}
    {o : Except Err (Flow × Val × Env) × St} (henv : env1.tail = env.tail) (hsub : ∀ p ∈ st.sites, p ∈ st1.sites)
    (hl : g1.length = g.length)
    (hok : ∀ f r, ev' f = some r → ∃ f', ev f' = some r) (herr : (∀ f, ev' f = none) → ∀ f, ev f = none)
    (h : PostSG vis' env1 st1 g1 ev' o) : PostSG vis' env st g ev o := by
  refine Res.mono ?_ herr h
  rintro r s ⟨he, hs, fl', g', f', hfl, hev, hl', hc, hen⟩
  obtain ⟨f'', hf''⟩ := hok _ _ hev
  exact ⟨he.trans henv, fun p hp => hs p (hsub p hp), fl', g', f'', hfl, hf'', hl'.trans hl, hc, hen⟩

theorem PostSE.trans {env : Env} {st st1 : St} {g g1 : List Val} {ev ev' : Ev}
    {o : Except Err (Flow × Val × Env) × St} (hsub : ∀ p ∈ st.sites, p ∈ st1.sites)
    (hl : g1.length = g.length)
    (hok : ∀ f r, ev' f = some r → ∃ f', ev f' = some r) (herr : (∀ f, ev' f = none) → ∀ f, ev f = none)
    (h : PostSE env st1 g1 ev' o) : PostSE env st g ev o := by
  refine Res.mono ?_ herr h
  rintro r s ⟨he, hs, fl', g', f', hfl, hev, hl', hc⟩
  obtain ⟨f'', hf''⟩ := hok _ _ hev
  exact ⟨he, fun p hp => hs p (hsub p hp), fl', g', f'', hfl, hf'', hl'.trans hl, hc⟩

/-- an unchanged environment is in particular one that still resolves the names visible before -/
theorem SOKE.toG {vis : Core.Vis} {env : Env} {st : St} {g : List Val} {ev : Ev} {r : Flow × Val × Env} {st' : St}
    (he : EnvOK vis env st.sites) (h : SOKE env st g ev r st') : SOKG vis env st g ev r st' := by
  obtain ⟨henv, hs, fl', g', f', hfl, hev, hl, hc⟩ := h
  exact ⟨by rw [henv], hs, fl', g', f', hfl, hev, hl, hc, fun _ => by rw [henv]; exact he.mono hs⟩

/-! ## `let`: the cell of the definition site -/

theorem run_siteCell_found (site : Nat) (s : St) (p : Nat × Nat) (h : s.sites.find? (·.1 == site) = some p) :
    run (siteCell site) s = (.ok p.2, s) := by
  unfold siteCell
  show run (get >>= _) s = _
  rw [run_bind]
  show run (match s.sites.find? _ with | some p => _ | none => _) s = _
  rw [h]
  rfl

theorem getD_append_last (l : List Val) (v : Val) : (l ++ [v]).getD l.length .null = v := by
  simp [List.getD_eq_getElem?_getD]

theorem getD_append_lt (l : List Val) (v : Val) (c : Nat) (h : c < l.length) : (l ++ [v]).getD c .null = l.getD c .null := by
  simp [List.getD_eq_getElem?_getD, List.getElem?_append_left h]

/-- executing `let` of site `i` with value `v`: afterwards the site has a cell, which holds `v`, as
Core's slot `i` does -/
theorem run_let_cell {β : Type} (K : Nat → M β) (s1 : St) (g1 : List Val) (i : Nat) (v : Val) (hc : Coupled s1 g1)
    (hi : i < g1.length) (hv : isScalar v = true) :
    ∃ c st2, run (siteCell i >>= fun c => setCell c v >>= fun _ => K c) s1 = run (K c) st2 ∧
      (i, c) ∈ st2.sites ∧ Coupled st2 (g1.set i v) ∧ (∀ p ∈ s1.sites, p ∈ st2.sites) := by
  cases hfind : s1.sites.find? (·.1 == i) with
  | some p =>
    have hmem : p ∈ s1.sites := List.mem_of_find?_eq_some hfind
    have hp1 : p.1 = i := by simpa using List.find?_some hfind
    obtain ⟨pi, pc⟩ := p
    simp only at hp1
    subst hp1
    refine ⟨pc, { s1 with cells := s1.cells.set pc v }, ?_, hmem, hc.set hmem hv, fun p hp => hp⟩
    rw [run_bind, run_siteCell_found _ _ _ hfind]
    dsimp only
    rw [run_setCell_bind]
  | none =>
    have hnone : ∀ p ∈ s1.sites, p.1 ≠ i := by
      intro p hp
      have := List.find?_eq_none.mp hfind p hp
      simpa using this
    refine ⟨s1.cells.length, { s1 with cells := s1.cells ++ [v], sites := (i, s1.cells.length) :: s1.sites }, ?_,
      List.mem_cons_self .., ⟨?_, ?_⟩, fun p hp => List.mem_cons_of_mem _ hp⟩
    · rw [run_bind, run_siteCell_fresh _ _ hfind]
      dsimp only
      rw [run_setCell_bind]
      dsimp only
      rw [append_set_last]
    · intro a c a' c' h1 h2
      rcases List.mem_cons.mp h1 with e1 | h1 <;> rcases List.mem_cons.mp h2 with e2 | h2
      · cases e1; cases e2; exact ⟨fun _ => rfl, fun _ => rfl⟩
      · cases e1
        have := hnone _ h2
        have hlt := (hc.ok a' c' h2).1
        constructor
        · intro e; exact absurd e.symm this
        · intro e; omega
      · cases e2
        have := hnone _ h1
        have hlt := (hc.ok a c h1).1
        constructor
        · intro e; exact absurd e this
        · intro e; omega
      · exact hc.inj a c a' c' h1 h2
    · intro a c h1
      rcases List.mem_cons.mp h1 with e1 | h1
      · cases e1
        refine ⟨by simp, by simpa using hi, ?_, ?_⟩
        · show (s1.cells ++ [v]).getD s1.cells.length .null = _
          rw [getD_append_last, getD_set_self _ _ _ hi]
        · rw [getD_set_self _ _ _ hi]; exact hv
      · obtain ⟨hlt, ha, hval, hsc⟩ := hc.ok a c h1
        have hne : i ≠ a := fun e => hnone _ h1 e.symm
        refine ⟨by simp; omega, by simpa using ha, ?_, ?_⟩
        · show (s1.cells ++ [v]).getD c .null = _
          rw [getD_append_lt _ _ _ hlt, getD_set_ne _ _ _ _ hne]; exact hval
        · rw [getD_set_ne _ _ _ _ hne]; exact hsc

theorem tail_bindTop (x : String) (b : Bind) (env : Env) : (bindTop x b env).tail = env.tail := by
  cases env <;> rfl

/-! ## the induction on the oracle's fuel -/

def condOKG (nm : Nat → String) (vis : Core.Vis) : Option CExpr → Bool
  | none => true
  | some c => globalsSat (resolves nm vis) c

section InductionG
variable (nm : Nat → String) (ln N : Nat)

def StmtOKG (fuel : Nat) : Prop :=
  ∀ (s : CStmt) (vis : Core.Vis) (env : Env) (st : St) (g : List Val), g.length = N → GR vis env st g →
    wfS nm N vis s = true →
    PostSG (visAfter nm vis s) env st g (fun f => Core.evalS f g s) (run (evalStmt fuel env (toStmt nm ln s)) st)

def StmtsOKG (fuel : Nat) : Prop :=
  ∀ (ss : List CStmt) (vis : Core.Vis) (env : Env) (st : St) (g : List Val) (last : Val), g.length = N → GR vis env st g →
    wfP nm N vis ss = true →
    PostSG (visAfterP nm vis ss) env st g (fun f => Core.evalP f g ss) (run (evalStmts fuel env (toStmts nm ln ss) last) st)

def BlockOKG (fuel : Nat) : Prop :=
  ∀ (ss : List CStmt) (vis : Core.Vis) (env : Env) (st : St) (g : List Val), g.length = N → GR vis env st g →
    wfP nm N vis ss = true →
    PostSE env st g (fun f => Core.evalP f g ss) (run (evalBlock fuel env (.mk ln (toStmts nm ln ss))) st)

def LoopOKG (fuel : Nat) : Prop :=
  ∀ (lbl : Option String) (cond : Option CExpr) (body : List CStmt) (vis : Core.Vis) (env : Env) (st : St) (g : List Val),
    g.length = N → GR vis env st g → condOKG nm vis cond = true → wfP nm N vis body = true →
    PostSE env st g (fun f => Core.evalS f g (mkLoop lbl cond body))
      (run (evalLoop fuel env lbl (cond.map (toAst nm ln)) (.mk ln (toStmts nm ln body))) st)

def AllOKG (fuel : Nat) : Prop := StmtOKG nm ln N fuel ∧ StmtsOKG nm ln N fuel ∧ BlockOKG nm ln N fuel ∧ LoopOKG nm ln N fuel

theorem all_zeroG : AllOKG nm ln N 0 := by
  refine ⟨?_, ?_, ?_, ?_⟩
  · intro s vis env st g _ _ _; rw [evalStmt_zero]; exact True.intro
  · intro ss vis env st g last _ _ _; rw [evalStmts_zero]; exact True.intro
  · intro ss vis env st g _ _ _; rw [evalBlock_zero]; exact True.intro
  · intro lbl cond body vis env st g _ _ _ _; rw [evalLoop_zero]; exact True.intro

theorem stmts_succG (fuel : Nat) (hS : StmtOKG nm ln N fuel) (hP : StmtsOKG nm ln N fuel) : StmtsOKG nm ln N (fuel + 1) := by
  intro ss vis env st g last hg hr hwf
  cases ss with
  | nil =>
    rw [toStmts, evalStmts_nil]
    exact ⟨rfl, fun p hp => hp, .normal, g, 1, rfl, rfl, rfl, hr.1, fun _ => hr.2⟩
  | cons s rest =>
    simp only [wfP, Bool.and_eq_true] at hwf
    rw [toStmts, evalStmts_cons]
    refine Res.bind (hS s vis env st g hg hr hwf.1)
      (show (∀ k, Core.evalS k g s = none) → ∀ k, Core.evalP k g (s :: rest) = none from ?_) ?_
    · intro h k
      cases k with
      | zero => rfl
      | succ k => simp only [Core.evalP, h k]
    · rintro ⟨fl, v, env1⟩ s1 ⟨henv, hsub, fl', g1, f1, hfl, hev, hl1, hc1, hen1⟩
      have hev' : Core.evalS f1 g s = some (g1, fl') := hev
      have henv' : env1.tail = env.tail := henv
      have hfl' : fl = toFlow fl' := hfl
      subst hfl'
      cases fl' with
      | normal =>
        show PostSG (visAfterP nm (visAfter nm vis s) rest) env st g _ (run (evalStmts fuel env1 (toStmts nm ln rest) v) s1)
        refine PostSG.trans henv' hsub hl1 ?_ ?_
          (hP rest (visAfter nm vis s) env1 s1 g1 v (hl1.trans hg) ⟨hc1, hen1 rfl⟩ hwf.2)
        · intro f r hr'
          have hr'' : Core.evalP f g1 rest = some r := hr'
          refine ⟨max f1 f + 1, ?_⟩
          show Core.evalP (max f1 f + 1) g (s :: rest) = some r
          simp only [Core.evalP]
          rw [evalS_mono (Nat.le_max_left f1 f) hev']
          exact evalP_mono (Nat.le_max_right f1 f) hr''
        · intro h k
          show Core.evalP k g (s :: rest) = none
          cases k with
          | zero => rfl
          | succ k =>
            simp only [Core.evalP]
            cases hk : Core.evalS k g s with
            | none => rfl
            | some r =>
              obtain rfl := evalS_det hk hev'
              exact h k
      | brk l =>
        exact ⟨henv', hsub, .brk l, g1, f1 + 1, rfl, by show Core.evalP (f1 + 1) g (s :: rest) = _; simp only [Core.evalP, hev'],
          hl1, hc1, fun h => by cases h⟩
      | cont l =>
        exact ⟨henv', hsub, .cont l, g1, f1 + 1, rfl, by show Core.evalP (f1 + 1) g (s :: rest) = _; simp only [Core.evalP, hev'],
          hl1, hc1, fun h => by cases h⟩

theorem block_succG (fuel : Nat) (hP : StmtsOKG nm ln N fuel) : BlockOKG nm ln N (fuel + 1) := by
  intro ss vis env st g hg hr hwf
  rw [evalBlock_succ]
  refine Res.bind (hP ss vis ([] :: env) st g .null hg ⟨hr.1, hr.2.push⟩ hwf) id ?_
  rintro ⟨fl, v, env1⟩ s1 ⟨henv, hsub, fl', g', f', hfl, hev, hl, hc, -⟩
  exact ⟨henv, hsub, fl', g', f', hfl, hev, hl, hc⟩

theorem branch_okG (f0 : Nat) (hB : ∀ f', f' ≤ f0 → BlockOKG nm ln N f') (body : List CStmt) (vis : Core.Vis) (env : Env)
    (st s1 : St) (g g1 : List Val) (ev : Ev) (hg1 : g1.length = N) (hr1 : GR vis env s1 g1) (hwf : wfP nm N vis body = true)
    (hsub : ∀ p ∈ st.sites, p ∈ s1.sites) (hl : g1.length = g.length)
    (hev : ∀ k r, Core.evalP k g1 body = some r → ∃ k', ev k' = some r)
    (herr : (∀ k, Core.evalP k g1 body = none) → ∀ k, ev k = none) :
    PostSG vis env st g ev (run (evalBranch f0 env (.mk ln (toStmts nm ln body)) >>= exprK) s1) := by
  cases f0 with
  | zero => rw [evalBranch_zero]; exact True.intro
  | succ f1 =>
    rw [evalBranch_succ, bind_assoc]
    refine PostSG.trans (env1 := env) (ev' := fun k => Core.evalP k g1 body) rfl hsub hl hev herr ?_
    refine Res.bind (hB f1 (Nat.le_succ f1) body vis env s1 g1 hg1 hr1 hwf) id ?_
    rintro ⟨fl, v, env1⟩ s2 ⟨henv, hsub2, fl', g2, f2, hfl, hev2, hl2, hc2⟩
    have henv' : env1 = env := henv
    have hfl' : fl = toFlow fl' := hfl
    subst henv' hfl'
    cases fl' <;> exact ⟨rfl, hsub2, _, g2, f2, rfl, hev2, hl2, hc2, fun _ => hr1.2.mono hsub2⟩

theorem stmt_succG (f : Nat) (ih : ∀ f', f' ≤ f → AllOKG nm ln N f') : StmtOKG nm ln N (f + 1) := by
  intro s vis env st g hg hr hwf
  cases s with
  | letG i e =>
    simp only [wfS, Bool.and_eq_true, decide_eq_true_eq] at hwf
    rw [toStmt, evalStmt_let]
    refine Res.bind (expr_bridgeG e f (fun k => resolves nm vis k && (nm k != nm i))
        (fun k hk => resolves_sound k (by simp only [Bool.and_eq_true] at hk; exact hk.1)) hr hwf.2)
      (show Core.eval g e = none → ∀ k, Core.evalS k g (.letG i e) = none from ?_) ?_
    · intro h k; cases k <;> simp [Core.evalS, h]
    · rintro r s1 ⟨v, g1, rfl, hv, he, hr1, hs1, hl1⟩
      have hi1 : i < g1.length := by rw [hl1, hg]; exact hwf.1
      show Res _ _ (run (if isGlobalEnv env then _ else _) s1)
      rw [hr.2.glob]
      simp only [if_true]
      obtain ⟨c, st2, hrun, hic, hc2, hsub2⟩ :=
        run_let_cell (fun c => (pure (Flow.normal, Val.null, bindTop (nm i) (.g c) env) : M (Flow × Val × Env))) s1 g1 i v hr1.1 hi1 hv
      have hrun' : run (siteCell i >>= fun c => setCell c v >>= fun _ =>
          (pure (Flow.normal, Val.null, bindTop (nm i) (.g c) env) : M (Flow × Val × Env))) s1 =
          (.ok (Flow.normal, Val.null, bindTop (nm i) (.g c) env), st2) := hrun
      rw [hrun']
      refine ⟨tail_bindTop _ _ _, fun p hp => hsub2 p (by rw [hs1]; exact hp), .normal, g1.set i v, 1, rfl,
        by show Core.evalS 1 g (.letG i e) = _; simp [Core.evalS, he, hi1], by rw [List.length_set]; exact hl1, hc2,
        fun _ => ⟨isGlobalEnv_bindTop _ _ _ hr.2.glob, ?_⟩⟩
      intro name j hj
      show ∃ c', lookupEnv name (bindTop (nm i) (.g c) env) = some (.g c') ∧ (j, c') ∈ st2.sites
      rw [lookupEnv_bindTop]
      have hj' : (if nm i == name then some i else Core.globalIndex vis name) = some j := by
        rw [← globalIndex_cons]; exact hj
      by_cases hx : (nm i == name) = true
      · simp only [hx, if_true, Option.some.injEq] at hj' ⊢
        subst hj'
        exact ⟨c, rfl, hic⟩
      · simp only [hx, Bool.false_eq_true, if_false] at hj' ⊢
        obtain ⟨c', hlk, hmem⟩ := hr1.2.bound name j hj'
        exact ⟨c', hlk, hsub2 _ hmem⟩
  | expr e =>
    simp only [wfS] at hwf
    rw [toStmt, evalStmt_expr _ _ _ _ (fun l fn args h => toAst_not_call nm ln e l fn args h)]
    refine Res.bind (expr_bridgeG e f (resolves nm vis) (fun k hk => resolves_sound k hk) hr hwf)
      (show Core.eval g e = none → ∀ k, Core.evalS k g (.expr e) = none from ?_) ?_
    · intro h k; cases k <;> simp [Core.evalS, h]
    · rintro r s1 ⟨v, g1, rfl, hv, he, hr1, hs1, hl1⟩
      exact ⟨rfl, fun p hp => by rw [hs1]; exact hp, .normal, g1, 1, rfl,
        by show Core.evalS 1 g (.expr e) = _; simp [Core.evalS, he], hl1, hr1.1, fun _ => hr1.2⟩
  | block body =>
    simp only [wfS] at hwf
    rw [toStmt, evalStmt_block]
    refine Res.bind ((ih f (Nat.le_refl f)).2.2.1 body vis env st g hg hr hwf)
      (show (∀ k, Core.evalP k g body = none) → ∀ k, Core.evalS k g (.block body) = none from ?_) ?_
    · intro h k
      cases k with
      | zero => rfl
      | succ k => simp only [Core.evalS, h k]
    · rintro ⟨fl, v, env1⟩ s1 ⟨henv, hsub, fl', g1, f1, hfl, hev, hl, hc⟩
      have hev' : Core.evalP f1 g body = some (g1, fl') := hev
      have henv' : env1 = env := henv
      subst henv'
      exact ⟨rfl, hsub, fl', g1, f1 + 1, hfl, by show Core.evalS (f1 + 1) g (.block body) = _; simp only [Core.evalS, hev'],
        hl, hc, fun _ => hr.2.mono hsub⟩
  | breakS l =>
    rw [toStmt, evalStmt_break]
    exact ⟨rfl, fun p hp => hp, .brk l, g, 1, rfl, rfl, rfl, hr.1, fun h => by cases h⟩
  | continueS l =>
    rw [toStmt, evalStmt_continue]
    exact ⟨rfl, fun p hp => hp, .cont l, g, 1, rfl, rfl, rfl, hr.1, fun h => by cases h⟩
  | whileS lbl c body =>
    simp only [wfS, Bool.and_eq_true] at hwf
    rw [toStmt, evalStmt_while]
    exact Res.mono (fun r s h => SOKE.toG hr.2 h) id
      ((ih f (Nat.le_refl f)).2.2.2 lbl (some c) body vis env st g hg hr hwf.1 hwf.2)
  | loopS lbl body =>
    simp only [wfS] at hwf
    rw [toStmt, evalStmt_loop]
    exact Res.mono (fun r s h => SOKE.toG hr.2 h) id
      ((ih f (Nat.le_refl f)).2.2.2 lbl none body vis env st g hg hr rfl hwf)
  | ifS c t e =>
    simp only [wfS, Bool.and_eq_true] at hwf
    rw [toStmt, evalStmt_expr _ _ _ _ (fun l fn args h => by cases h)]
    cases f with
    | zero => rw [evalE_zero]; exact True.intro
    | succ f0 =>
      rw [evalE_ite]
      unfold bindR
      rw [bind_assoc]
      refine Res.bind (expr_bridgeG c f0 (resolves nm vis) (fun k hk => resolves_sound k hk) hr hwf.1.1)
        (show Core.eval g c = none → ∀ k, Core.evalS k g (.ifS c t e) = none from ?_) ?_
      · intro h k; cases k <;> simp [Core.evalS, h]
      · rintro r s1 ⟨vc, g1, rfl, hvc, hec, hr1, hs1, hl1⟩
        dsimp only
        rw [truthy_scalar hvc, pure_bind, ← P2sh.Props.C06.falsey_table]
        have hsub : ∀ p ∈ st.sites, p ∈ s1.sites := fun p hp => by rw [hs1]; exact hp
        have hB : ∀ f', f' ≤ f0 → BlockOKG nm ln N f' := fun f' hf' => (ih f' (Nat.le_succ_of_le hf')).2.2.1
        cases hfal : vc.isFalsey with
        | true =>
          simp only [Bool.not_true, Bool.false_eq_true, if_false]
          refine branch_okG nm ln N f0 hB e vis env st s1 g g1 _ (hl1.trans hg) hr1 hwf.2 hsub hl1 ?_ ?_
          · intro k r hk
            exact ⟨k + 1, by show Core.evalS (k + 1) g (.ifS c t e) = _; simp only [Core.evalS, hec, hfal, if_true, hk]⟩
          · intro h k
            show Core.evalS k g (.ifS c t e) = none
            cases k with
            | zero => rfl
            | succ k => simp only [Core.evalS, hec, hfal, if_true, h k]
        | false =>
          simp only [Bool.not_false, if_true]
          refine branch_okG nm ln N f0 hB t vis env st s1 g g1 _ (hl1.trans hg) hr1 hwf.1.2 hsub hl1 ?_ ?_
          · intro k r hk
            exact ⟨k + 1, by show Core.evalS (k + 1) g (.ifS c t e) = _; simp only [Core.evalS, hec, hfal, Bool.false_eq_true, if_false, hk]⟩
          · intro h k
            show Core.evalS k g (.ifS c t e) = none
            cases k with
            | zero => rfl
            | succ k => simp only [Core.evalS, hec, hfal, Bool.false_eq_true, if_false, h k]

theorem loop_bodyG (f : Nat) (hB : BlockOKG nm ln N f) (hL : LoopOKG nm ln N f) (lbl : Option String) (cond : Option CExpr)
    (body : List CStmt) (vis : Core.Vis) (env : Env) (st s1 : St) (g g1 : List Val) (ev : Ev)
    (hg1 : g1.length = N) (hr1 : GR vis env s1 g1) (hc : condOKG nm vis cond = true) (hwf : wfP nm N vis body = true)
    (hsub : ∀ p ∈ st.sites, p ∈ s1.sites) (hl : g1.length = g.length)
    (hev : ∀ k r, bodyEv lbl (mkLoop lbl cond body) g1 body k = some r → ∃ k', ev k' = some r)
    (herr : (∀ k, bodyEv lbl (mkLoop lbl cond body) g1 body k = none) → ∀ k, ev k = none) :
    PostSE env st g ev (run (evalBlock f env (.mk ln (toStmts nm ln body)) >>=
      loopBodyK f lbl (cond.map (toAst nm ln)) (.mk ln (toStmts nm ln body))) s1) := by
  refine PostSE.trans (ev' := bodyEv lbl (mkLoop lbl cond body) g1 body) hsub hl hev herr ?_
  refine Res.bind (hB body vis env s1 g1 hg1 hr1 hwf)
    (show (∀ k, Core.evalP k g1 body = none) → ∀ k, bodyEv lbl (mkLoop lbl cond body) g1 body k = none from ?_) ?_
  · intro h k; exact bodyEv_none (h k)
  · rintro ⟨fl, v, env1⟩ s2 ⟨henv, hsub2, fl', g2, f2, hfl, hev2, hl2, hc2⟩
    have henv' : env1 = env := henv
    have hfl' : fl = toFlow fl' := hfl
    have hev2' : Core.evalP f2 g1 body = some (g2, fl') := hev2
    subst henv' hfl'
    have hr2 : GR vis env1 s2 g2 := ⟨hc2, hr1.2.mono hsub2⟩
    have again : Core.loopAct lbl fl' = .again →
        PostSE env1 s1 g1 (bodyEv lbl (mkLoop lbl cond body) g1 body)
          (run (evalLoop f env1 lbl (cond.map (toAst nm ln)) (.mk ln (toStmts nm ln body))) s2) := by
      intro hact
      refine PostSE.trans hsub2 hl2 ?_ ?_ (hL lbl cond body vis env1 s2 g2 (hl2.trans hg1) hr2 hc hwf)
      · intro k r hk
        have hk' : Core.evalS k g2 (mkLoop lbl cond body) = some r := hk
        refine ⟨max f2 k, ?_⟩
        rw [bodyEv_some (evalP_mono (Nat.le_max_left f2 k) hev2')]
        simp only [hact]
        exact evalS_mono (Nat.le_max_right f2 k) hk'
      · intro h k
        cases hk : Core.evalP k g1 body with
        | none => exact bodyEv_none hk
        | some r =>
          obtain rfl := evalP_det hk hev2'
          rw [bodyEv_some hk]
          simp only [hact]
          exact h k
    cases fl' with
    | normal => exact again rfl
    | brk l =>
      show PostSE env1 s1 g1 _ (run (if labelMatches lbl l then _ else _) s2)
      rw [labelMatches_eq]
      cases ht : Core.targets lbl l with
      | true =>
        simp only [if_true]
        exact ⟨rfl, hsub2, .normal, g2, f2, rfl, by rw [bodyEv_some hev2']; simp [Core.loopAct, ht], hl2, hc2⟩
      | false =>
        simp only [Bool.false_eq_true, if_false]
        exact ⟨rfl, hsub2, .brk l, g2, f2, rfl, by rw [bodyEv_some hev2']; simp [Core.loopAct, ht], hl2, hc2⟩
    | cont l =>
      show PostSE env1 s1 g1 _ (run (if labelMatches lbl l then _ else _) s2)
      rw [labelMatches_eq]
      cases ht : Core.targets lbl l with
      | true =>
        simp only [if_true]
        exact again (by simp [Core.loopAct, ht])
      | false =>
        simp only [Bool.false_eq_true, if_false]
        exact ⟨rfl, hsub2, .cont l, g2, f2, rfl, by rw [bodyEv_some hev2']; simp [Core.loopAct, ht], hl2, hc2⟩

theorem loop_succG (f : Nat) (hB : BlockOKG nm ln N f) (hL : LoopOKG nm ln N f) : LoopOKG nm ln N (f + 1) := by
  intro lbl cond body vis env st g hg hr hc hwf
  rw [evalLoop_succ]
  cases cond with
  | none =>
    simp only [Option.map_none, loopCond, pure_bind]
    show PostSE env st g _ (run (evalBlock f env _ >>= loopBodyK f lbl ((none : Option CExpr).map (toAst nm ln)) _) st)
    refine loop_bodyG nm ln N f hB hL lbl none body vis env st st g g _ hg hr rfl hwf (fun p hp => hp) rfl ?_ ?_
    · intro k r hk
      exact ⟨k + 1, by show Core.evalS (k + 1) g (.loopS lbl body) = _; rw [evalS_loopS]; exact hk⟩
    · intro h k
      show Core.evalS k g (.loopS lbl body) = none
      cases k with
      | zero => rfl
      | succ k => rw [evalS_loopS]; exact h k
  | some c =>
    simp only [Option.map_some, loopCond, bind_assoc]
    refine Res.bind (expr_bridgeG c f (resolves nm vis) (fun k hk => resolves_sound k hk) hr hc)
      (show Core.eval g c = none → ∀ k, Core.evalS k g (.whileS lbl c body) = none from ?_) ?_
    · intro h k; cases k <;> simp [Core.evalS, h]
    · rintro r s1 ⟨vc, g1, rfl, hvc, hec, hr1, hs1, hl1⟩
      have hsub : ∀ p ∈ st.sites, p ∈ s1.sites := fun p hp => by rw [hs1]; exact hp
      simp only [condK, bind_assoc, pure_bind]
      rw [truthy_scalar hvc, pure_bind, ← P2sh.Props.C06.falsey_table]
      cases hfal : vc.isFalsey with
      | true =>
        simp only [Bool.not_true]
        exact ⟨rfl, hsub, .normal, g1, 1, rfl,
          by show Core.evalS 1 g (.whileS lbl c body) = _; simp [Core.evalS, hec, hfal], hl1, hr1.1⟩
      | false =>
        simp only [Bool.not_false]
        show PostSE env st g _ (run (evalBlock f env _ >>= loopBodyK f lbl ((some c).map (toAst nm ln)) _) s1)
        refine loop_bodyG nm ln N f hB hL lbl (some c) body vis env st s1 g g1 _ (hl1.trans hg) hr1 hc hwf hsub hl1 ?_ ?_
        · intro k r hk
          exact ⟨k + 1, by show Core.evalS (k + 1) g (.whileS lbl c body) = _; rw [evalS_whileS lbl c body g g1 vc k hec hfal]; exact hk⟩
        · intro h k
          show Core.evalS k g (.whileS lbl c body) = none
          cases k with
          | zero => rfl
          | succ k => rw [evalS_whileS lbl c body g g1 vc k hec hfal]; exact h k

/-- the four statements, for every fuel of the oracle -/
theorem all_okG : ∀ fuel, AllOKG nm ln N fuel := by
  intro fuel
  induction fuel using Nat.strongRecOn with
  | ind fuel ih =>
    cases fuel with
    | zero => exact all_zeroG nm ln N
    | succ f =>
      have ihf := ih f (Nat.lt_succ_self f)
      exact ⟨stmt_succG nm ln N f (fun f' hf' => ih f' (Nat.lt_succ_of_le hf')),
        stmts_succG nm ln N f ihf.1 ihf.2.1, block_succG nm ln N f ihf.2.1, loop_succG nm ln N f ihf.2.2.1 ihf.2.2.2⟩

end InductionG

/-! ## the theorems, for `let` anywhere -/

/-- the state a program starts in: no binding, no cell, `N` null globals on Core's side -/
theorem GR.init (N : Nat) : GR [] [[]] {} (List.replicate N .null) := by
  refine ⟨⟨?_, ?_⟩, ⟨rfl, ?_⟩⟩
  · intro i c i' c' h; exact (List.not_mem_nil h).elim
  · intro i c h; exact (List.not_mem_nil h).elim
  · intro name i h; simp [Core.globalIndex] at h

/-- what the relation says about a visible name: the oracle's environment binds it to a cell that
holds what Core's slot of that name holds -/
theorem GR.lookup {vis : Core.Vis} {env : Env} {st : St} {g : List Val} (h : GR vis env st g) {name : String} {i : Nat}
    (hn : Core.globalIndex vis name = some i) :
    ∃ c, lookupEnv name env = some (.g c) ∧ st.cells.getD c .null = g.getD i .null ∧ i < g.length := by
  obtain ⟨c, hlk, hic⟩ := h.2.bound name i hn
  obtain ⟨-, hi, hval, -⟩ := h.1.ok i c hic
  exact ⟨c, hlk, hval, hi⟩

/-- **the oracle's run of a program is Core's evaluation** (`let` anywhere: in blocks, loop bodies,
branches; shadowing and re-definition of names).  Whenever the reference interpreter runs the AST of a
well-scoped program (`wfP`) to an end -- normally, or through a `break`/`continue` that no loop of the
program consumes --, `Core.evalP` with enough fuel ends in the same flow, with globals `g'` coupled to
the oracle's final state (every executed definition site has its own cell, holding what Core's slot
holds), and -- when the end is normal -- the names visible at the end of the program resolve in the
oracle's final environment to those cells (`GR.lookup`). -/
theorem ref_stmts_core {nm : Nat → String} {ln fuel : Nat} {ss : List CStmt} {vis : Core.Vis} {env env' : Env} {st st' : St}
    {g : List Val} {last v : Val} {flow : Flow}
    (hr : GR vis env st g) (hok : wfP nm g.length vis ss = true)
    (h : run (evalStmts fuel env (toStmts nm ln ss) last) st = (.ok (flow, v, env'), st')) :
    ∃ fuel' g' flow', flow = toFlow flow' ∧ Core.evalP fuel' g ss = some (g', flow') ∧ g'.length = g.length ∧
      Coupled st' g' ∧ (flow' = .normal → GR (visAfterP nm vis ss) env' st' g') := by
  have hm := (all_okG nm ln g.length fuel).2.1 ss vis env st g last rfl hr hok
  rw [h] at hm
  obtain ⟨-, -, fl', g', f', hfl, hev, hl, hc, hen⟩ := hm
  exact ⟨f', g', fl', hfl, hev, hl, hc, fun hn => ⟨hc, hen hn⟩⟩

/-- **the oracle's runtime error is Core's**: no fuel makes Core's evaluation of the program end
(`Core.evalP` answers `none` both for a runtime error and for insufficient fuel). -/
theorem ref_stmts_error_core {nm : Nat → String} {ln fuel l : Nat} {ss : List CStmt} {vis : Core.Vis} {env : Env} {st st' : St}
    {g : List Val} {last : Val}
    (hr : GR vis env st g) (hok : wfP nm g.length vis ss = true)
    (h : run (evalStmts fuel env (toStmts nm ln ss) last) st = (.error (.rt l), st')) :
    ∀ f, Core.evalP f g ss = none := by
  have hm := (all_okG nm ln g.length fuel).2.1 ss vis env st g last rfl hr hok
  rw [h] at hm
  exact hm

/-- a program of the fragment never ends in `return` -/
theorem ref_stmts_no_return {nm : Nat → String} {ln fuel : Nat} {ss : List CStmt} {vis : Core.Vis} {env env' : Env} {st st' : St}
    {g : List Val} {last v r : Val}
    (hr : GR vis env st g) (hok : wfP nm g.length vis ss = true) :
    run (evalStmts fuel env (toStmts nm ln ss) last) st ≠ (.ok (.ret r, v, env'), st') := by
  intro h
  obtain ⟨_, _, fl', hfl, _⟩ := ref_stmts_core hr hok h
  cases fl' <;> cases hfl

/-- **composition with compiler correctness**: when the oracle runs a whole well-scoped program (from
the empty state, as `Driver/LangDrv.lean` runs it) to its normal end, the code `Core.compileP` emits, run
on the Core machine from `N` null globals and the empty stack, reaches the end of the code with the
empty stack and globals `g'` related to the oracle's final environment and state. -/
theorem ref_program_compiled {nm : Nat → String} {ln N fuel : Nat} {ss : List CStmt} {env' : Env} {st' : St} {v : Val}
    (hok : wfP nm N [] ss = true)
    (h : run (evalStmts fuel [[]] (toStmts nm ln ss) .null) {} = (.ok (.normal, v, env'), st')) :
    ∃ g', Core.Steps (Core.compileP 0 0 [] ss) (Core.constsP ss) ⟨0, [], List.replicate N .null⟩
        ⟨Core.bytes (Core.compileP 0 0 [] ss), [], g'⟩ ∧ GR (visAfterP nm [] ss) env' st' g' := by
  have hlen : (List.replicate N Val.null).length = N := List.length_replicate
  obtain ⟨f', g', fl', hfl, hev, -, -, hgr⟩ :=
    ref_stmts_core (g := List.replicate N .null) (GR.init N) (by rw [hlen]; exact hok) h
  have : fl' = .normal := by cases fl' <;> first | rfl | cases hfl
  subst this
  exact ⟨g', Core.program_correct f' ss _ g' hev, hgr rfl⟩

section ExamplesG

def nm4 : Nat → String
  | 0 => "s"
  | 1 => "i"
  | 2 => "t"
  | 3 => "s"
  | _ => "i"

/-- ```
let s = 0; let i = 0;
l: while i < 2 { let t = i * 2; s = s + t; i = i + 1; if s > 100 { break l; } }
{ let s = 7; i = s; }
let i = 5;
s = s + i;
```
a `let` in a loop body (its definition site is executed twice), a `let` in a block that shadows a
global, the re-definition of a global -/
def p4 : List CStmt := [
  .letG 0 (.lit (.int 0)),
  .letG 1 (.lit (.int 0)),
  .whileS (some "l") (.lt (.gget 1) (.lit (.int 2))) [
    .letG 2 (.bin .mul (.gget 1) (.lit (.int 2))),
    .expr (.gset 0 (.bin .add (.gget 0) (.gget 2))),
    .expr (.gset 1 (.bin .add (.gget 1) (.lit (.int 1)))),
    .ifS (.bin .greater (.gget 0) (.lit (.int 100))) [.breakS (some "l")] []],
  .block [.letG 3 (.lit (.int 7)), .expr (.gset 1 (.gget 3))],
  .letG 4 (.lit (.int 5)),
  .expr (.gset 0 (.bin .add (.gget 0) (.gget 4)))]

theorem p4_wf : wfP nm4 5 [] p4 = true := by decide

/-- the recogniser of the fragment reads the embedding back as `p4` (slots in text order) -/
example : (Core.ofStmts 30 0 [] [] (toStmts nm4 1 p4)).map (·.1) = some p4 := by rfl

/-- the oracle runs `p4` from the empty state to its normal end; the cells (in the order of the first
execution of their definition sites) hold `s = 7`, the first `i = 7`, `t = 2`, the inner `s = 7`,
the second `i = 5` -/
theorem p4_ref : endsWith (run (evalStmts 60 [[]] (toStmts nm4 1 p4) .null) {}) [7, 7, 2, 7, 5] = true := by
  decide +kernel

/-- Core ends normally too, and the name `s` is bound, in the oracle's final environment, to a cell that
holds what Core's slot 0 holds -/
example : ∃ fuel' g' v env' st' c, Core.evalP fuel' (List.replicate 5 .null) p4 = some (g', .normal) ∧
    run (evalStmts 60 [[]] (toStmts nm4 1 p4) .null) {} = (.ok (.normal, v, env'), st') ∧
    lookupEnv "s" env' = some (.g c) ∧ st'.cells.getD c .null = g'.getD 0 .null := by
  obtain ⟨v, env', st', h, -⟩ := of_endsWith p4_ref
  obtain ⟨f', g', fl', hfl, hev, -, -, hgr⟩ :=
    ref_stmts_core (g := List.replicate 5 .null) (GR.init 5) p4_wf h
  have : fl' = .normal := by cases fl' <;> first | rfl | cases hfl
  subst this
  obtain ⟨c, hlk, hval, -⟩ := (hgr rfl).lookup (name := "s") (i := 0) (by decide)
  exact ⟨f', g', v, env', st', c, hev, h, hlk, hval⟩

/-- Core's evaluation of `p4`, computed: the same values, slot by slot -/
example : Core.evalP 30 (List.replicate 5 .null) p4 = some ([.int 7, .int 7, .int 2, .int 7, .int 5], .normal) := by rfl

/-- the compiled program reaches its end -/
example : ∃ g', Core.Steps (Core.compileP 0 0 [] p4) (Core.constsP p4) ⟨0, [], List.replicate 5 .null⟩
    ⟨Core.bytes (Core.compileP 0 0 [] p4), [], g'⟩ := by
  obtain ⟨v, env', st', h, -⟩ := of_endsWith p4_ref
  obtain ⟨g', hs, -⟩ := ref_program_compiled (N := 5) p4_wf h
  exact ⟨g', hs⟩

/-- the programs of the partial section are well-scoped too -/
example : wfP nm1 2 [] p0 = true := by decide
example : wfP nm1 2 [] p1 = true := by decide

/-- ```
let x = 1;
loop { let y = x + 1; y = y + true; }
```
a runtime error after a `let` in a loop body: no fuel makes Core's evaluation end -/
def p5 : List CStmt := [
  .letG 0 (.lit (.int 1)),
  .loopS none [.letG 1 (.bin .add (.gget 0) (.lit (.int 1))), .expr (.gset 1 (.bin .add (.gget 1) .tru))]]

theorem p5_ref : run (evalStmts 20 [[]] (toStmts nm1 3 p5) .null) {} =
    (.error (.rt 3), { cells := [.int 1, .int 2], sites := [(1, 1), (0, 0)] }) := by rfl

example : ∀ f, Core.evalP f [.null, .null] p5 = none :=
  ref_stmts_error_core (g := [.null, .null]) (GR.init 2) (by decide) p5_ref

end ExamplesG

#print axioms ref_stmts_core
#print axioms ref_stmts_error_core
#print axioms ref_stmts_no_return
#print axioms ref_program_compiled
#print axioms main_coreG
#print axioms GR.init
#print axioms ref_stmts_core_partial
#print axioms ref_stmts_error_core_partial
#print axioms ref_stmts_no_return_partial
#print axioms ref_inner_stmts_core
#print axioms ref_inner_stmts_error_core
#print axioms ref_program_compiled_partial
#print axioms frame_core
#print axioms TopRel.init

end P2sh.RefProg
