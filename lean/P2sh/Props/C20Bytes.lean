import P2sh.Props.C20
import P2sh.Props.C19
import P2sh.Props.C19Spec
import P2sh.Props.RefBvars
import P2sh.Model.FilterOut
/-!
# C20 — filter mode: the variables every filter sees, and the bytes of the output stream

**1. `np_sequence_spec`.**  `Props/C20.lean` has `np_sequence` for the abstract loop (the NP *argument*
of every filter call) and `prep_np` (the packet-variable step sets NP in the reference state).  The
reference evaluator reads NP, PL, WL, TSS, TSU from `St.bvars`; that it never *writes* them is
`RefBvars.bvars_preserved` (all of `Spec/Ref.lean`, any outcome).  Hence `runFilter_bvars`, and
`np_sequence_spec`: in the specification's own stream loop, with every filter recording
`(NP, position, state at the call)` (`watch`), program filter `j` on packet `i` is called in a state
whose builtin variables are `pktVars i pkᵢ` — whatever the filters before it did.  `ident_reads`:
that is what an identifier `NP` … `TSU` evaluates to (unless the program shadows it).

**2. The bytes.**  `filterOutput input sel` — stdout of filter mode without `-s` for the selection
`sel` (packet numbers in output order, with multiplicity) the stream loop makes — over the C19 pcap
model (`Model/Pcap.lean`): `fromFile` (`Pcap::from_file`), `newLike` (`Pcap::new_like`: the input's
header serialised), `readStream` (`next_packet` until the first error), one `writePacket`
(`Pcap::write_all` of `From<&PcapPacket>`) per selection.
* `runFiltersOut_eq` / `streamLoopB_eq` — the loop that writes a packet the moment a filter selects
  it (`streamLoopB`, the shape of `run_filters`, with its two ways out: `break 'out` after a failing
  filter, the bare `break` after a non-boolean result) produces exactly `filterOutput input sel` for
  the `sel` of `streamLoop`;
* `out_header_eq_in` — the first 24 bytes of the output are the input's, for either magic and any
  version / thiszone / sigfigs / snaplen / linktype; `filterOutput_unreadable` — no readable header, no output;
* `input_decomposes`, `filterOutput_eq` — input = header ++ records read ++ tail; output = header ++
  selected records: the records written are byte-identical to the input's;
* `output_is_encode` — the output is `Spec.PcapFile.encode` of a well-formed file (input header,
  selected records); `output_is_valid_pcap` — the C19 reader (`fromFile` + `pcap_read_all`, via
  `C19.read_all_decodes`) and the specification's decoder read back exactly the selected packets, in
  order, with multiplicity (`sel.length ≤ usize::MAX` for `read_all`'s counter); `output_reread` —
  the same through filter mode's own reader, without that bound;
* `filter_mode_output` — with the specification's selection (`multiplicity_spec`): header, then for
  packets 1, 2, … in input order the packet's record `kᵢ` times.

Packets are written as read: for a program that neither reads nor assigns packet fields (the
fragment of `FilterSpec`) "the packet as modified so far" is the identity — `PcapPacket.inner` stays
`None` and the record header is untouched; assignments are C17's, reads C15's.
-/
namespace P2sh.Props.C20
open P2sh P2sh.Ref P2sh.FilterSpec

/-! ## 1. every filter sees the variables of the packet it runs on -/

/-- a filter of the program (pattern and action, whatever their outcome) leaves NP, PL, WL, TSS, TSU alone -/
theorem runFilter_bvars (env : Env) (st : St) (pat : FPat) (act : Option Block) :
    (runFilter env st pat act).2.bvars = st.bvars := by
  have hE := fun e => RefBvars.bvars_preserved fuel ([] :: env) e st
  have hB := fun b s => RefBvars.bvars_preserved_block fuel ([] :: [[("·filter", Bind.l .null)]] ++ env) b s
  have key : ∀ (pv : Option Val) (st' : St), st'.bvars = st.bvars →
      (match act with
        | some b =>
          let go : Bool := match pv with
            | some v => !(Spec.falsey (reify st'.heap reifyDepth v))
            | none => true
          if go then
            (match (evalBlock fuel ([] :: [[("·filter", Bind.l .null)]] ++ env) b).run.run st' with
             | (.ok (.normal, _, _), st'') => (some false, st'')
             | (_, st'') => (none, st''))
          else
            (match pv with
             | some (.bool false) => (some false, st')
             | _ => (none, st'))
        | none =>
          match pv with
          | some (.bool b) => (some b, st')
          | _ => (none, st') : Option Bool × St).2.bvars = st.bvars := by
    intro pv st' h
    cases act with
    | none => simp only []; split <;> exact h
    | some b =>
      simp only []
      repeat' split
      all_goals first | exact h | (rename_i heq; have := hB b st'; rw [heq] at this; exact this.trans h)
  unfold runFilter
  cases pat with
  | expr e =>
    have := hE e
    simp only []
    generalize (evalE fuel ([] :: env) e).run.run st = r at this
    obtain ⟨res, st1⟩ := r
    simp only at this
    rcases res with er | (⟨v, env'⟩ | ⟨f, env'⟩)
    · exact this
    · exact key (some v) st1 this
    · exact this
  | none => exact key none st rfl
  | fend => exact key none st rfl

/-- the variables the stream loop sets for packet number `i` (`set_curr_pkt` + `update_builtin_var(NP)`) -/
def pktVars (i : Nat) (pk : Pkt) : List (String × Val) :=
  [("NP", .int (Int64.ofNat i)), ("PL", .int (Int64.ofNat pk.caplen)), ("WL", .int (Int64.ofNat pk.wirelen)),
   ("TSS", .int (Int64.ofNat pk.tsSec)), ("TSU", .int (Int64.ofNat pk.tsUsec))]

theorem setVars_bvars (st : St) (i : Nat) (pk : Pkt) :
    (setVars st (.int (Int64.ofNat i)) (some pk)).bvars = pktVars i pk := rfl

/-! ### the loop with every filter recording `(NP, its position, the state it is called in)` -/

def watched {σ} (j : Nat) (f : Filter σ) : Filter (σ × List (Nat × Nat × σ)) :=
  ⟨fun s np => (((f.run s.1 np).1, s.2 ++ [(np, j, s.1)]), (f.run s.1 np).2)⟩

def watch {σ} : Nat → List (Filter σ) → List (Filter (σ × List (Nat × Nat × σ)))
  | _, [] => []
  | j, f :: fs => watched j f :: watch (j + 1) fs

/-- one packet: recording changes nothing; the calls are filters `j, j+1, …` in source order (all of
them unless one fails or returns a non-boolean), each with this NP, and an invariant of the filters
holds at every call -/
theorem foldl_watch {σ} (np : Nat) (I : σ → Prop) :
    ∀ (fs : List (Filter σ)), (∀ f ∈ fs, ∀ s, I s → I (f.run s np).1) →
      ∀ (j : Nat) (st : σ) (log : List (Nat × Nat × σ)) (sel : List Nat), I st →
      ∃ calls m, m ≤ fs.length ∧
        (watch j fs).foldl (pstep np) ((st, log), sel, .run) =
          (((fs.foldl (pstep np) (st, sel, .run)).1, log ++ calls),
           (fs.foldl (pstep np) (st, sel, .run)).2) ∧
        calls.map (fun c => (c.1, c.2.1)) = (List.range' j m).map (fun k => (np, k)) ∧
        ((fs.foldl (pstep np) (st, sel, .run)).2.2 = .run → m = fs.length) ∧
        ∀ c ∈ calls, c.1 = np ∧ I c.2.2 := by
  intro fs
  induction fs with
  | nil => intro _ j st log sel _; exact ⟨[], 0, Nat.le_refl _, by simp [watch], rfl, fun _ => rfl, by simp⟩
  | cons f fs ih =>
    intro hI j st log sel hst
    have hI' : ∀ g ∈ fs, ∀ s, I s → I (g.run s np).1 := fun g hg => hI g (List.mem_cons_of_mem _ hg)
    have hnext : I (f.run st np).1 := hI f List.mem_cons_self st hst
    cases hr : f.run st np with
    | mk s' a =>
      rw [hr] at hnext
      have h1 := pstep_run np st s' sel f a hr
      have h2 : pstep np ((st, log), sel, .run) (watched j f) =
          ((s', log ++ [(np, j, st)]), (if a = .sel true then sel ++ [np] else sel), a.status) :=
        pstep_run np (st, log) (s', log ++ [(np, j, st)]) sel (watched j f) a (by simp [watched, hr])
      by_cases ha : a.status = .run
      · rw [ha] at h1 h2
        obtain ⟨calls, m, hm, he, hshape, hfull, hinv⟩ :=
          ih hI' (j + 1) s' (log ++ [(np, j, st)]) (if a = .sel true then sel ++ [np] else sel) hnext
        refine ⟨(np, j, st) :: calls, m + 1, by simp; omega, ?_, ?_, ?_, ?_⟩
        · simp only [watch, List.foldl_cons]
          rw [h1, h2, he]
          simp
        · simp [List.range'_succ, hshape]
        · intro hne
          rw [List.foldl_cons, h1] at hne
          simp [hfull hne]
        · intro c hc
          rcases List.mem_cons.mp hc with rfl | hc
          · exact ⟨rfl, hst⟩
          · exact hinv c hc
      · refine ⟨[(np, j, st)], 1, by simp, ?_, by simp [List.range'_succ], ?_, by simpa using hst⟩
        · simp only [watch, List.foldl_cons]
          rw [h1, h2, foldl_pstep_halted _ _ _ _ _ ha, foldl_pstep_halted _ _ _ _ _ ha]
        · intro hne
          rw [List.foldl_cons, h1, foldl_pstep_halted _ _ _ _ _ ha] at hne
          exact absurd hne ha

theorem filterOf_bvars (env : Env) (x : FPat × Option Block) (s : LoopSt) (np : Nat) :
    ((filterOf env x).run s np).1.1.bvars = s.1.bvars := runFilter_bvars env s.1 x.1 x.2

/-- the specification's loop, watched: see `np_sequence_spec` -/
theorem loop_watch (env : Env) (fs : List (FPat × Option Block)) :
    ∀ (pkts : List Pkt) (idx : Nat) (st : St) (sel : List Nat) (st1 : St) (selF : List Nat)
      (log : List (Nat × Nat × LoopSt)),
      FilterSpec.run.loop fs env pkts idx st sel = some (st1, selF) →
      ∃ calls,
        streamLoop (watch 0 (prep :: fs.map (filterOf env))) ((st, pkts), log) idx (pkts.map fun _ => ()) =
          (((streamLoop (prep :: fs.map (filterOf env)) (st, pkts) idx (pkts.map fun _ => ())).1, log ++ calls),
           (streamLoop (prep :: fs.map (filterOf env)) (st, pkts) idx (pkts.map fun _ => ())).2.1,
           (streamLoop (prep :: fs.map (filterOf env)) (st, pkts) idx (pkts.map fun _ => ())).2.2) ∧
        calls.map (fun c => (c.1, c.2.1)) =
          (List.range' idx pkts.length).flatMap
            (fun i => (List.range' 0 (fs.length + 1)).map (fun j => (i, j))) ∧
        ∀ c ∈ calls, idx ≤ c.1 ∧
          (1 ≤ c.2.1 → ∃ pk, pkts[c.1 - idx]? = some pk ∧ c.2.2.1.bvars = pktVars c.1 pk) := by
  intro pkts
  induction pkts with
  | nil =>
    intro idx st sel st1 selF log h
    exact ⟨[], by simp [streamLoop_nil], rfl, by simp⟩
  | cons pk rest ih =>
    intro idx st sel st1 selF log h
    rw [FilterSpec.run.loop] at h
    cases he : FilterSpec.run.loop.each env idx fs (setVars st (.int (Int64.ofNat idx)) (some pk)) sel with
    | none => rw [he] at h; simp at h
    | some r =>
      obtain ⟨st', sel'⟩ := r
      rw [he] at h
      simp only [] at h
      obtain ⟨new, _, hop⟩ := onPacket_spec env fs idx st pk rest sel st' sel' he
      -- the filters after `prep`, watched, with the invariant "bvars are this packet's"
      have hfold : (fs.map (filterOf env)).foldl (pstep idx)
          ((setVars st (.int (Int64.ofNat idx)) (some pk), rest), [], .run) = ((st', rest), new, .run) := hop
      obtain ⟨calls1, m, _, hw, hshape, hfull, hinv⟩ :=
        foldl_watch idx (fun s : LoopSt => s.1.bvars = pktVars idx pk) (fs.map (filterOf env))
          (by
            intro f hf s hs
            obtain ⟨x, _, rfl⟩ := List.mem_map.mp hf
            exact (filterOf_bvars env x s idx).trans hs)
          1 (setVars st (.int (Int64.ofNat idx)) (some pk), rest) (log ++ [(idx, 0, (st, pk :: rest))]) []
          (setVars_bvars st idx pk)
      rw [hfold] at hw hfull
      have hm : m = fs.length := by simpa using hfull rfl
      subst hm
      have hopw : onPacket (watch 0 (prep :: fs.map (filterOf env))) ((st, pk :: rest), log) idx =
          (((st', rest), log ++ (idx, 0, (st, pk :: rest)) :: calls1), new, .run) := by
        rw [onPacket, watch, List.foldl_cons]
        have : pstep idx (((st, pk :: rest), log), [], .run) (watched 0 prep) =
            (((setVars st (.int (Int64.ofNat idx)) (some pk), rest), log ++ [(idx, 0, (st, pk :: rest))]), [], .run) := rfl
        rw [this, hw]
        simp
      obtain ⟨calls2, hc, hshape2, hinv2⟩ := ih (idx + 1) st' sel' st1 selF (log ++ (idx, 0, (st, pk :: rest)) :: calls1) h
      refine ⟨(idx, 0, (st, pk :: rest)) :: calls1 ++ calls2, ?_, ?_, ?_⟩
      · rw [List.map_cons, streamLoop_cons_ok _ _ _ _ _ _ _ _ hopw (by decide),
          streamLoop_cons_ok _ _ _ _ _ _ _ _ hop (by decide), hc]
        simp
      · simp [List.range'_succ, hshape, hshape2]
      · intro c hc
        rcases List.mem_cons.mp hc with rfl | hc
        · exact ⟨Nat.le_refl _, fun h0 => absurd h0 (Nat.not_succ_le_zero 0)⟩
        · rcases List.mem_append.mp hc with hc | hc
          · obtain ⟨h1, h2⟩ := hinv c hc
            rw [h1]
            exact ⟨Nat.le_refl _, fun _ => ⟨pk, by simp, h2⟩⟩
          · obtain ⟨h1, h2⟩ := hinv2 c hc
            refine ⟨by omega, fun hj => ?_⟩
            obtain ⟨pk', hp, hb⟩ := h2 hj
            refine ⟨pk', ?_, hb⟩
            rw [show c.1 - idx = (c.1 - (idx + 1)) + 1 by omega, List.getElem?_cons_succ]
            exact hp


/-- **np_sequence_spec**: the specification's own stream loop, with every filter recording
`(NP, its position, the state it is called in)` (position 0 is the packet-variable step `prep`,
positions 1 … n the program's filters in source order).  Recording changes nothing; the calls are,
for each packet `i = 1 … N` in order, positions `0 … n` in order; and every program filter `j ≥ 1`
called on packet `i` finds the builtin variables of packet `i` — NP = `i` and PL, WL, TSS, TSU its
captured length, wire length and timestamp — whatever the filters before it did
(`RefBvars.bvars_preserved`: the reference evaluator never writes them). -/
theorem np_sequence_spec (p : Program) (pkts : List Pkt) (sel : List Nat) (out : List String)
    (e : Bool) (h : FilterSpec.run p pkts = .ok sel out e) :
    ∃ env st0 calls, initOf p = some (env, st0) ∧
      streamLoop (watch 0 (filtersOf env p)) ((st0, pkts), []) 1 (pkts.map fun _ => ()) =
        (((streamLoop (filtersOf env p) (st0, pkts) 1 (pkts.map fun _ => ())).1, calls), sel, pkts.length) ∧
      calls.map (fun c => (c.1, c.2.1)) =
        (List.range' 1 pkts.length).flatMap
          (fun i => (List.range' 0 ((filterList p).length + 1)).map (fun j => (i, j))) ∧
      ∀ c ∈ calls, 1 ≤ c.2.1 →
        ∃ pk, pkts[c.1 - 1]? = some pk ∧ c.2.2.1.bvars = pktVars c.1 pk := by
  obtain ⟨env, st0, st1, hi, hloop, _⟩ := run_ok p pkts sel out e h
  obtain ⟨l1, _, l3, _⟩ := loop_streamLoop env (filterList p) pkts 1 st0 [] st1 sel hloop
  obtain ⟨calls, hc, hshape, hinv⟩ := loop_watch env (filterList p) pkts 1 st0 [] st1 sel [] hloop
  refine ⟨env, st0, calls, hi, ?_, hshape, fun c hc' hj => (hinv c hc').2 hj⟩
  rw [filtersOf, hc, l3]
  simp only [List.nil_append] at l1 ⊢
  rw [← l1]
  congr 2
  omega

/-- what a filter reads: the values of `pktVars` -/
theorem pktVars_lookup (i : Nat) (pk : Pkt) :
    (pktVars i pk).lookup "NP" = some (.int (Int64.ofNat i)) ∧
    (pktVars i pk).lookup "PL" = some (.int (Int64.ofNat pk.caplen)) ∧
    (pktVars i pk).lookup "WL" = some (.int (Int64.ofNat pk.wirelen)) ∧
    (pktVars i pk).lookup "TSS" = some (.int (Int64.ofNat pk.tsSec)) ∧
    (pktVars i pk).lookup "TSU" = some (.int (Int64.ofNat pk.tsUsec)) := ⟨rfl, rfl, rfl, rfl, rfl⟩

theorem lookupScope_map (name : String) : ∀ bv : List (String × Val),
    lookupScope name (bv.map fun x => (x.1, Bind.l x.2)) = (bv.lookup name).map Bind.l
  | [] => rfl
  | (n, v) :: rest => by
    simp only [List.map_cons, lookupScope, List.lookup]
    by_cases h : n = name
    · subst h; simp
    · have h1 : (n == name) = false := by simpa using h
      have h2 : (name == n) = false := by simpa using Ne.symm h
      simp only [h1, h2]
      exact lookupScope_map name rest

/-- an identifier that is not bound and not a builtin function is read from the builtin variables -/
theorem ident_reads (fuel : Nat) (env : Env) (l : Nat) (k : Access) (s : St) (name : String) (v : Val)
    (hb : s.bvars.lookup name = some v)
    (hfn : isBuiltinFn name = false)
    (hshadow : lookupEnv name env = none) :
    (evalE (fuel + 1) env (.ident l name k)).run.run s = (.ok (.val v env), s) := by
  rw [evalE]
  simp only [hshadow, hfn, Bool.false_eq_true, if_false]
  rw [RefBvars.run_bind]
  have hg : (get : M St).run.run s = (.ok s, s) := rfl
  rw [hg]
  simp only []
  rw [lookupScope_map, hb]
  rfl

/-! ## 2. the bytes of the output stream -/

section Bytes
open P2sh.Pcap P2sh.Props.C19 P2sh.FilterOut

/-! ### the input, as the reader takes it apart -/

/-- a readable input: at least 24 bytes with a known magic; the parsed header serialises back to
exactly those 24 bytes (whatever the version, thiszone, sigfigs, snaplen, linktype), the cursor is the rest -/
theorem fromFile_ok (input : Bytes) (rd : Reader) (h : fromFile input = .ok rd) :
    24 ≤ input.length ∧ WfHeader rd.hdr ∧ rd.hdr.toBytes = input.take 24 ∧ rd.cur = input.drop 24 := by
  by_cases hl : 24 ≤ input.length
  · simp only [fromFile, readExact, hl, if_true] at h
    cases hp : GlobalHeader.fromBytes (input.take 24) with
    | error e => rw [hp] at h; cases h
    | ok hdr =>
      rw [hp] at h
      injection h with h
      subst h
      obtain ⟨wf, hb⟩ := header_parse_wf _ _ hp
      refine ⟨hl, wf, ?_, rfl⟩
      rw [hb, List.take_take]
      simp
  · simp only [fromFile, readExact, hl, if_false] at h
    cases h

theorem newLike_ok (rd : Reader) (wf : WfHeader rd.hdr) : newLike rd = .ok rd.hdr.toBytes := by
  have := header_roundtrip rd.hdr wf []
  rw [List.append_nil] at this
  simp only [newLike, this]

/-- a record header that parses serialises back to the 16 bytes it came from; its fields are 32-bit -/
theorem packet_header_parse (bs : Bytes) (h : PacketHeader) (hp : PacketHeader.fromBytes bs = .ok h) :
    h.toBytes = bs.take 16 ∧ h.tsSec < 4294967296 ∧ h.tsUsec < 4294967296 ∧ h.caplen < 4294967296 ∧
      h.wirelen < 4294967296 := by
  match bs, hp with
  | s0 :: s1 :: s2 :: s3 :: u0 :: u1 :: u2 :: u3 :: c0 :: c1 :: c2 :: c3 :: w0 :: w1 :: w2 :: w3 :: rest, hp =>
    simp only [PacketHeader.fromBytes] at hp
    injection hp with hp
    subst hp
    exact ⟨by simp [PacketHeader.toBytes, le32_rd32], rd32_lt .., rd32_lt .., rd32_lt .., rd32_lt ..⟩

/-- what `next_packet` hands out is a well-formed record, and its serialisation is the very bytes
it was read from: the cursor was `p.toBytes ++` the cursor afterwards -/
theorem nextPacket_ok (snap : Nat) (cur cur1 : Bytes) (p : Packet) (h : nextPacket snap cur = (.ok p, cur1)) :
    WfPacket snap p ∧ cur = p.toBytes ++ cur1 := by
  by_cases h16 : 16 ≤ cur.length
  · simp only [nextPacket, readExact, h16, if_true] at h
    cases hp : PacketHeader.fromBytes (cur.take 16) with
    | error e => rw [hp] at h; cases h
    | ok ph =>
      rw [hp] at h
      simp only [] at h
      obtain ⟨hb, f1, f2, f3, f4⟩ := packet_header_parse _ _ hp
      rw [List.take_take] at hb
      by_cases hs : ph.caplen > snap
      · simp only [hs, if_true] at h; cases h
      · simp only [hs, if_false] at h
        by_cases hc : ph.caplen ≤ (cur.drop 16).length
        · simp only [hc, if_true, Prod.mk.injEq, Except.ok.injEq] at h
          obtain ⟨rfl, rfl⟩ := h
          refine ⟨⟨f1, f2, f4, ?_, Nat.le_of_not_gt hs, f3⟩, ?_⟩
          · simp only [List.length_take]; omega
          · simp only [Packet.toBytes, hb, Nat.min_self, List.append_assoc, List.take_append_drop]
        · simp only [hc, if_false] at h; cases h
  · simp only [nextPacket, readExact, h16, if_false] at h
    cases h

/-- the packets read are well-formed records, and the cursor was their serialisations, in order,
followed by what stopped the loop -/
theorem readStream_wf (snap : Nat) : ∀ (n : Nat) (cur : Bytes),
    (∀ p ∈ readStream snap n cur, WfPacket snap p) ∧
    ∃ tail, cur = encodePackets (readStream snap n cur) ++ tail := by
  intro n
  induction n with
  | zero => intro cur; exact ⟨by simp [readStream], cur, by simp [readStream, encodePackets]⟩
  | succ n ih =>
    intro cur
    cases hn : nextPacket snap cur with
    | mk r cur1 =>
      cases r with
      | error e => simp only [readStream, hn]; exact ⟨by simp, cur, by simp [encodePackets]⟩
      | ok p =>
        obtain ⟨wf, hcur⟩ := nextPacket_ok snap cur cur1 p hn
        obtain ⟨ih1, tail, ih2⟩ := ih cur1
        simp only [readStream, hn]
        refine ⟨?_, tail, ?_⟩
        · intro q hq
          rcases List.mem_cons.mp hq with rfl | hq
          · exact wf
          · exact ih1 q hq
        · rw [encodePackets_cons, List.append_assoc, ← ih2, hcur]

theorem nextPacket_nil' (snap : Nat) : nextPacket snap [] = (.error .unexpectedEof, []) := nextPacket_nil snap

/-- the fuel of `readStream` is no restriction: any amount ≥ the number of bytes left gives the same packets -/
theorem readStream_fuel (snap : Nat) : ∀ (n m : Nat) (cur : Bytes), cur.length ≤ n → cur.length ≤ m →
    readStream snap n cur = readStream snap m cur := by
  have hnil : ∀ k, readStream snap k [] = [] := by
    intro k; cases k <;> simp [readStream, nextPacket_nil]
  intro n
  induction n with
  | zero =>
    intro m cur h1 _
    have : cur = [] := List.eq_nil_of_length_eq_zero (Nat.le_zero.mp h1)
    subst this
    rw [hnil, hnil]
  | succ n ih =>
    intro m cur h1 h2
    cases m with
    | zero =>
      have : cur = [] := List.eq_nil_of_length_eq_zero (Nat.le_zero.mp h2)
      subst this
      rw [hnil, hnil]
    | succ m =>
      cases hn : nextPacket snap cur with
      | mk r cur1 =>
        cases r with
        | error e => simp only [readStream, hn]
        | ok p =>
          obtain ⟨_, hcur⟩ := nextPacket_ok snap cur cur1 p hn
          have hl : cur.length = 16 + p.data.length + cur1.length := by
            rw [hcur]; simp [Packet.toBytes, packet_header_length]; omega
          simp only [readStream, hn]
          rw [ih m cur1 (by omega) (by omega)]

theorem writeSelected_eq (pkts : List Packet) : ∀ (sel : List Nat) (out : Bytes),
    writeSelected pkts out sel = out ++ encodePackets (selectedPackets pkts sel) := by
  intro sel
  induction sel with
  | nil => intro out; simp [writeSelected, selectedPackets, encodePackets]
  | cons i sel ih =>
    intro out
    have hstep : writeSelected pkts out (i :: sel) =
        writeSelected pkts (match pkts[i - 1]? with | some p => (writePacket out p).1 | none => out) sel := rfl
    rw [hstep, ih]
    cases hi : pkts[i - 1]? with
    | none => simp [selectedPackets, hi]
    | some p => simp [selectedPackets, hi, writePacket, encodePackets, List.append_assoc]

/-- the shape of the output: the 24 header bytes, then the selected records -/
theorem filterOutput_eq (input : Bytes) (rd : Reader) (h : fromFile input = .ok rd) (sel : List Nat) :
    filterOutput input sel = rd.hdr.toBytes ++ encodePackets (selectedPackets (inputPackets rd) sel) := by
  obtain ⟨_, wf, _, _⟩ := fromFile_ok input rd h
  simp only [filterOutput, h, newLike_ok rd wf, writeSelected_eq]

/-- an input without a readable global header: nothing is written -/
theorem filterOutput_unreadable (input : Bytes) (e : IoErr) (h : fromFile input = .error e) (sel : List Nat) :
    filterOutput input sel = [] := by
  simp only [filterOutput, h]

/-- **out_header_eq_in**: the first 24 bytes of the output are the first 24 bytes of the input — for
either magic and whatever version, thiszone, sigfigs, snaplen and linktype the input carries -/
theorem out_header_eq_in (input : Bytes) (rd : Reader) (h : fromFile input = .ok rd) (sel : List Nat) :
    (filterOutput input sel).take 24 = input.take 24 := by
  obtain ⟨hl, _, hb, _⟩ := fromFile_ok input rd h
  have hlen : rd.hdr.toBytes.length = 24 := by rw [hb]; simp; omega
  rw [filterOutput_eq input rd h, List.take_append_of_le_length (by omega), ← hlen, List.take_length]
  exact hb

/-- the input itself is its header, the records `run_filters` reads, and what stopped the reading:
the records written are slices of the input -/
theorem input_decomposes (input : Bytes) (rd : Reader) (h : fromFile input = .ok rd) :
    ∃ tail, input = input.take 24 ++ encodePackets (inputPackets rd) ++ tail := by
  obtain ⟨_, _, _, hc⟩ := fromFile_ok input rd h
  obtain ⟨_, tail, ht⟩ := readStream_wf rd.hdr.snaplen rd.cur.length rd.cur
  refine ⟨tail, ?_⟩
  rw [List.append_assoc, inputPackets, ← ht, hc, List.take_append_drop]

/-! ### the output is a pcap file: the specification's encoding of (input header, selected records) -/

def ofPacket (p : Packet) : Spec.PcapFile.Record :=
  { tsSec := p.hdr.tsSec, tsUsec := p.hdr.tsUsec, caplen := p.hdr.caplen, wirelen := p.hdr.wirelen, data := p.data }

def ofHeader (h : GlobalHeader) : Spec.PcapFile.Header :=
  { magic := h.magic, versionMajor := h.versionMajor, versionMinor := h.versionMinor, thiszone := h.thiszone,
    sigfigs := h.sigfigs, snaplen := h.snaplen, linktype := h.linktype }

theorem toPacket_ofPacket (p : Packet) : toPacket (ofPacket p) = p := rfl
theorem toHeader_ofHeader (h : GlobalHeader) : toHeader (ofHeader h) = h := rfl

/-- the file the output is: the input's header and the selected records, in selection order -/
def outputFile (rd : Reader) (sel : List Nat) : Spec.PcapFile.File :=
  { hdr := ofHeader rd.hdr, records := (selectedPackets (inputPackets rd) sel).map ofPacket }

theorem selectedPackets_mem (pkts : List Packet) (sel : List Nat) : ∀ p ∈ selectedPackets pkts sel, p ∈ pkts := by
  intro p hp
  obtain ⟨i, _, hi⟩ := List.mem_filterMap.mp hp
  exact List.mem_of_getElem? hi

theorem inputPackets_wf (rd : Reader) : ∀ p ∈ inputPackets rd, WfPacket rd.hdr.snaplen p :=
  (readStream_wf rd.hdr.snaplen rd.cur.length rd.cur).1

/-- **the output is the specification's encoding of a well-formed pcap file** whose header is the
input's and whose records are the selected packets, in selection order, with multiplicity -/
theorem output_is_encode (input : Bytes) (rd : Reader) (h : fromFile input = .ok rd) (sel : List Nat) :
    filterOutput input sel = Spec.PcapFile.encode (outputFile rd sel) ∧
    Spec.PcapFile.WfFile (outputFile rd sel) := by
  obtain ⟨_, wf, _, _⟩ := fromFile_ok input rd h
  constructor
  · rw [filterOutput_eq input rd h, Spec.PcapFile.encode, encodeHeader_eq, encodeRecords_eq]
    simp only [outputFile, toHeader_ofHeader, List.map_map]
    congr 2
    exact (List.map_id'' (fun p => toPacket_ofPacket p) _).symm
  · refine ⟨⟨wf.magic, wf.vmaj, wf.vmin, wf.zone, wf.sig, wf.snap, wf.link⟩, ?_⟩
    intro r hr
    obtain ⟨p, hp, rfl⟩ := List.mem_map.mp hr
    have w := inputPackets_wf rd p (selectedPackets_mem _ _ p hp)
    exact ⟨w.tsSec, w.tsUsec, w.wirelen, w.caplen, w.fits, w.cap32⟩

/-- **output_is_valid_pcap**: opening the output with the pcap reader succeeds, the header read is
the input's, and `pcap_read_all` yields exactly the selected packets — in selection order, each as
often as it was selected, with the timestamps, lengths and bytes it had in the input
(through `C19.read_all_decodes`); the specification's decoder agrees and leaves no tail -/
theorem output_is_valid_pcap (input : Bytes) (rd : Reader) (h : fromFile input = .ok rd) (sel : List Nat)
    (hlen : sel.length ≤ USIZE_MAX) :
    (∃ rd', fromFile (filterOutput input sel) = .ok rd' ∧ rd'.hdr = rd.hdr ∧
      (readAll rd' none).1 = .arr (selectedPackets (inputPackets rd) sel)) ∧
    Spec.PcapFile.decode (filterOutput input sel) =
      some (ofHeader rd.hdr, (selectedPackets (inputPackets rd) sel).map ofPacket, []) := by
  obtain ⟨henc, wf⟩ := output_is_encode input rd h sel
  have hl : (outputFile rd sel).records.length ≤ USIZE_MAX := by
    simp only [outputFile, List.length_map, selectedPackets]
    exact Nat.le_trans (List.length_filterMap_le _ _) hlen
  constructor
  · obtain ⟨rd', h1, h2⟩ := read_all_decodes (outputFile rd sel) wf hl
    refine ⟨rd', by rw [henc]; exact h1, ?_, ?_⟩
    · have h3 := fromFile_header (toHeader (outputFile rd sel).hdr) (wfHeader_of_spec _ wf.hdr)
        (encodePackets ((outputFile rd sel).records.map toPacket))
      rw [← encodeHeader_eq, ← encodeRecords_eq, ← Spec.PcapFile.encode] at h3
      rw [h3] at h1
      injection h1 with h1
      rw [← h1]
      rfl
    · rw [h2]
      simp only [outputFile, List.map_map]
      congr 1
      exact List.map_id'' (fun p => toPacket_ofPacket p) _
  · rw [henc]
    exact decode_encode (outputFile rd sel) wf

theorem readStream_nil (snap k : Nat) : readStream snap k [] = [] := by
  cases k <;> simp [readStream, nextPacket_nil]

/-- reading a sequence of well-formed records with the stream reader gives them back -/
theorem readStream_encode (snap : Nat) : ∀ (ps : List Packet) (n : Nat), (∀ p ∈ ps, WfPacket snap p) →
    (encodePackets ps).length ≤ n → readStream snap n (encodePackets ps) = ps := by
  intro ps
  induction ps with
  | nil => intro n _ _; simp [encodePackets, readStream_nil]
  | cons p ps ih =>
    intro n wf hn
    have hp := nextPacket_encode snap p (wf p List.mem_cons_self) (encodePackets ps)
    rw [encodePackets_cons] at hn ⊢
    have hl : (p.toBytes ++ encodePackets ps).length = 16 + p.data.length + (encodePackets ps).length := by
      simp [Packet.toBytes, packet_header_length]; omega
    obtain ⟨m, rfl⟩ : ∃ m, n = m + 1 := ⟨n - 1, by omega⟩
    simp only [readStream, hp]
    rw [ih m (fun q hq => wf q (List.mem_cons_of_mem _ hq)) (by omega)]

/-- **the output fed to filter mode again** is read as exactly the selected packets (no bound on
their number): `p2sh … | p2sh …` sees the header and the records the first stage selected -/
theorem output_reread (input : Bytes) (rd : Reader) (h : fromFile input = .ok rd) (sel : List Nat) :
    ∃ rd', fromFile (filterOutput input sel) = .ok rd' ∧ rd'.hdr = rd.hdr ∧
      inputPackets rd' = selectedPackets (inputPackets rd) sel := by
  obtain ⟨_, wf, _, _⟩ := fromFile_ok input rd h
  refine ⟨{ hdr := rd.hdr, cur := encodePackets (selectedPackets (inputPackets rd) sel) }, ?_, rfl, ?_⟩
  · rw [filterOutput_eq input rd h]
    exact fromFile_header _ wf _
  · exact readStream_encode _ _ _
      (fun p hp => inputPackets_wf rd p (selectedPackets_mem _ _ p hp)) (Nat.le_refl _)

/-! ### … for the selection the specification's stream loop makes -/

/-- the four numbers of a record the filters see (PL, WL, TSS, TSU) -/
def absPkt (p : Packet) : Pkt := ⟨p.hdr.tsSec, p.hdr.tsUsec, p.hdr.caplen, p.hdr.wirelen⟩

theorem filterMap_replicate_some {α β} (g : α → Option β) (a : α) (b : β) (h : g a = some b) (m : Nat) :
    (List.replicate m a).filterMap g = List.replicate m b := by
  induction m with
  | zero => rfl
  | succ m ih => simp [List.replicate_succ, h, ih]

/-- numbers `|pre|+1 …` repeated `k` times each, looked up: the packets repeated `k` times each -/
theorem selected_zip : ∀ (pkts : List Packet) (k : List Nat) (pre : List Packet), k.length = pkts.length →
    selectedPackets (pre ++ pkts)
      (((List.range' (pre.length + 1) pkts.length).zip k).flatMap (fun ik => List.replicate ik.2 ik.1)) =
    (pkts.zip k).flatMap (fun pk => List.replicate pk.2 pk.1) := by
  intro pkts
  induction pkts with
  | nil => intro k pre _; simp [selectedPackets]
  | cons p ps ih =>
    intro k pre hk
    cases k with
    | nil => simp at hk
    | cons m k =>
      have hk' : k.length = ps.length := by simpa using hk
      have hget : (pre ++ p :: ps)[pre.length + 1 - 1]? = some p := by simp
      have ih' := ih k (pre ++ [p]) hk'
      simp only [List.length_append, List.length_cons, List.length_nil, List.append_assoc,
        List.cons_append, List.nil_append] at ih'
      simp only [List.length_cons, List.range'_succ, List.zip_cons_cons, List.flatMap_cons, selectedPackets,
        List.filterMap_append] at ih' ⊢
      rw [filterMap_replicate_some (fun i => (pre ++ p :: ps)[i - 1]?) _ _ hget]
      rw [show pre.length + (0 + 1) + 1 = pre.length + 1 + 1 by omega] at ih'
      rw [ih']

/-- **filter_mode_output**: for a program and input inside the specification, the output is the
input's 24 header bytes followed by, for packets 1, 2, … in input order, the packet's record
(its 16-byte record header and captured bytes as in the input) `kᵢ` consecutive times, `kᵢ` = the
number of filters that answered `sel true` on packet `i` (`hitsPerPacket`, `hitsPerPacket_mem`;
`multiplicity_spec`) -/
theorem filter_mode_output (p : Program) (input : Bytes) (rd : Reader) (hrd : fromFile input = .ok rd)
    (sel : List Nat) (out : List String) (e : Bool)
    (h : FilterSpec.run p ((inputPackets rd).map absPkt) = .ok sel out e) :
    ∃ env st0, initOf p = some (env, st0) ∧
      let k := (hitsPerPacket (filtersOf env p) (st0, (inputPackets rd).map absPkt) 1
        (((inputPackets rd).map absPkt).map fun _ => ())).map Prod.snd
      k.length = (inputPackets rd).length ∧
      filterOutput input sel = input.take 24 ++
        encodePackets (((inputPackets rd).zip k).flatMap fun pk => List.replicate pk.2 pk.1) := by
  obtain ⟨env, st0, hi, hfst, _, hsel⟩ := multiplicity_spec p _ sel out e h
  refine ⟨env, st0, hi, ?_⟩
  show _ ∧ _
  generalize (hitsPerPacket (filtersOf env p) (st0, (inputPackets rd).map absPkt) 1
    (((inputPackets rd).map absPkt).map fun _ => ())) = hp at *
  have hk : (hp.map Prod.snd).length = (inputPackets rd).length := by
    have := congrArg List.length hfst
    simpa using this
  rw [List.length_map] at hsel
  obtain ⟨_, _, hb, _⟩ := fromFile_ok input rd hrd
  refine ⟨hk, ?_⟩
  have := selected_zip (inputPackets rd) (hp.map Prod.snd) [] hk
  simp only [List.length_nil, Nat.zero_add, List.nil_append] at this
  rw [filterOutput_eq input rd hrd, hb, hsel, this]

/-! ### the stream loop with its byte sink: `filterOutput` is what `run_filters` writes -/

/-- one filter of the inner `for` of `run_filters`: a selection writes the current packet at once -/
def pstepB {σ} (np : Nat) (pkt : Packet) (acc : σ × Bytes × Status) (f : Filter σ) : σ × Bytes × Status :=
  match acc with
  | (s, out, .skip) => (s, out, .skip)
  | (s, out, .stop) => (s, out, .stop)
  | (s, out, .run) =>
    match f.run s np with
    | (s', .sel true) => (s', (writePacket out pkt).1, .run)
    | (s', .sel false) => (s', out, .run)
    | (s', .fail) => (s', out, .stop)          -- `break 'out`
    | (s', .skipRest) => (s', out, .skip)      -- bare `break`

def onPacketB {σ} (fs : List (Filter σ)) (st : σ) (np : Nat) (pkt : Packet) (out : Bytes) : σ × Bytes × Status :=
  fs.foldl (pstepB np pkt) (st, out, .run)

/-- the `'out` loop of `run_filters` over the packets `next_packet` delivers, writing to `out` -/
def streamLoopB {σ} (fs : List (Filter σ)) : σ → Nat → List Packet → Bytes → σ × Bytes × Nat
  | st, count, [], out => (st, out, count - 1)
  | st, count, pkt :: rest, out =>
    match onPacketB fs st count pkt out with
    | (st', out', .stop) => (st', out', count)
    | (st', out', _) => streamLoopB fs st' (count + 1) rest out'

/-- `run_filters` without `-s`, filters abstract: header by `new_like`, then the loop; what is on stdout -/
def runFiltersOut {σ} (fs : List (Filter σ)) (st : σ) (input : Bytes) : Bytes :=
  match fromFile input with
  | .error _ => []
  | .ok rd =>
    match newLike rd with
    | .error _ => []
    | .ok hdrBytes => (streamLoopB fs st 1 (inputPackets rd) hdrBytes).2.1

theorem pstepB_run {σ} (np : Nat) (pkt : Packet) (st s' : σ) (out : Bytes) (f : Filter σ) (a : Ans)
    (hr : f.run st np = (s', a)) :
    pstepB np pkt (st, out, .run) f =
      (s', (if a = .sel true then (writePacket out pkt).1 else out), a.status) := by
  rcases a with (_ | _) | _ | _ <;> simp [pstepB, hr, Ans.status]

theorem foldl_pstepB_halted {σ} (np : Nat) (pkt : Packet) (fs : List (Filter σ)) (s : σ) (out : Bytes)
    (stt : Status) (h : stt ≠ .run) : fs.foldl (pstepB np pkt) (s, out, stt) = (s, out, stt) := by
  induction fs with
  | nil => rfl
  | cons f fs ih =>
    cases stt with
    | run => exact absurd rfl h
    | skip => exact ih
    | stop => exact ih

theorem foldl_pstepB {σ} (np : Nat) (pkt : Packet) (out : Bytes) :
    ∀ (fs : List (Filter σ)) (st : σ) (sel : List Nat),
      fs.foldl (pstepB np pkt) (st, out ++ encodePackets (sel.map fun _ => pkt), .run) =
        ((fs.foldl (pstep np) (st, sel, .run)).1,
         out ++ encodePackets ((fs.foldl (pstep np) (st, sel, .run)).2.1.map fun _ => pkt),
         (fs.foldl (pstep np) (st, sel, .run)).2.2) := by
  intro fs
  induction fs with
  | nil => intro st sel; rfl
  | cons f fs ih =>
    intro st sel
    rw [List.foldl_cons, List.foldl_cons]
    cases hr : f.run st np with
    | mk s' a =>
      rw [pstep_run np st s' sel f a hr, pstepB_run np pkt st s' _ f a hr]
      have hout : (if a = .sel true then (writePacket (out ++ encodePackets (sel.map fun _ => pkt)) pkt).1
            else out ++ encodePackets (sel.map fun _ => pkt)) =
          out ++ encodePackets ((if a = .sel true then sel ++ [np] else sel).map fun _ => pkt) := by
        split <;> simp [writePacket, encodePackets, List.append_assoc]
      rw [hout]
      by_cases ha : a.status = .run
      · rw [ha, ih]
      · rw [foldl_pstepB_halted _ _ _ _ _ _ ha, foldl_pstep_halted _ _ _ _ _ ha]

theorem filterMap_congr' {α β} (g g' : α → Option β) : ∀ (l : List α), (∀ a ∈ l, g a = g' a) →
    l.filterMap g = l.filterMap g'
  | [], _ => rfl
  | a :: l, h => by
    rw [List.filterMap_cons, List.filterMap_cons, h a List.mem_cons_self,
      filterMap_congr' g g' l (fun b hb => h b (List.mem_cons_of_mem _ hb))]

theorem onPacketB_eq {σ} (fs : List (Filter σ)) (st : σ) (np : Nat) (pkt : Packet) (out : Bytes) :
    onPacketB fs st np pkt out =
      ((onPacket fs st np).1, out ++ encodePackets ((onPacket fs st np).2.1.map fun _ => pkt),
       (onPacket fs st np).2.2) := by
  have := foldl_pstepB np pkt out fs st []
  simp only [List.map_nil, encodePackets, List.flatten_nil, List.append_nil] at this
  exact this

/-- **the byte sink follows the selection**: the loop that writes each packet the moment a filter
selects it ends in the state and with the NP of `streamLoop`, having appended to the sink the
records of the selected numbers, in selection order -/
theorem streamLoopB_eq {σ} (fs : List (Filter σ)) :
    ∀ (pkts : List Packet) (st : σ) (count : Nat) (out : Bytes),
      streamLoopB fs st count pkts out =
        ((streamLoop fs st count (pkts.map fun _ => ())).1,
         out ++ encodePackets ((streamLoop fs st count (pkts.map fun _ => ())).2.1.filterMap
           fun i => pkts[i - count]?),
         (streamLoop fs st count (pkts.map fun _ => ())).2.2) := by
  intro pkts
  induction pkts with
  | nil => intro st count out; simp [streamLoopB, streamLoop_nil, encodePackets]
  | cons pkt rest ih =>
    intro st count out
    have hB := onPacketB_eq fs st count pkt out
    have hall := onPacket_sel_eq fs st count
    cases hop : onPacket fs st count with
    | mk st' r =>
      obtain ⟨sel, stt⟩ := r
      rw [hop] at hB hall
      simp only [] at hB hall
      have hsel : sel.filterMap (fun i => (pkt :: rest)[i - count]?) = sel.map (fun _ => pkt) := by
        rw [← List.filterMap_eq_map]
        apply filterMap_congr'
        intro i hi
        rw [hall i hi]
        simp
      have hBok : stt ≠ .stop → streamLoopB fs st count (pkt :: rest) out =
          streamLoopB fs st' (count + 1) rest (out ++ encodePackets (sel.map fun _ => pkt)) := by
        intro hs
        cases stt with
        | stop => exact absurd rfl hs
        | run => simp only [streamLoopB, hB]
        | skip => simp only [streamLoopB, hB]
      by_cases hs : stt = .stop
      · subst hs
        rw [List.map_cons, streamLoop_cons_fail _ _ _ _ _ _ _ hop]
        simp only [streamLoopB, hB, hsel]
      · rw [List.map_cons, streamLoop_cons_ok _ _ _ _ _ _ _ _ hop hs, hBok hs]
        simp only [ih, List.filterMap_append, hsel]
        have hrest : (streamLoop fs st' (count + 1) (rest.map fun _ => ())).2.1.filterMap
              (fun i => (pkt :: rest)[i - count]?) =
            (streamLoop fs st' (count + 1) (rest.map fun _ => ())).2.1.filterMap
              (fun i => rest[i - (count + 1)]?) := by
          apply filterMap_congr'
          intro i hi
          have := (selected_are_indices fs _ st' (count + 1) i hi).1
          rw [show i - count = (i - (count + 1)) + 1 by omega, List.getElem?_cons_succ]
        rw [hrest]
        simp [encodePackets, List.append_assoc]

/-- **filterOutput is what the loop writes**: `run_filters` (header by `new_like`, one `write_all`
per selection as it happens) puts on stdout `filterOutput input sel` for the selection `sel` of
the stream loop over the packets read -/
theorem runFiltersOut_eq {σ} (fs : List (Filter σ)) (st : σ) (input : Bytes) :
    runFiltersOut fs st input =
      filterOutput input
        (match fromFile input with
         | .ok rd => (streamLoop fs st 1 ((inputPackets rd).map fun _ => ())).2.1
         | .error _ => []) := by
  cases h : fromFile input with
  | error e => simp only [runFiltersOut, filterOutput, h]
  | ok rd =>
    obtain ⟨_, wf, _, _⟩ := fromFile_ok input rd h
    simp only [runFiltersOut, filterOutput, h, newLike_ok rd wf, streamLoopB_eq, writeSelected_eq, selectedPackets]

/-! ### non-vacuity -/

section Examples
deriving instance DecidableEq for FilterSpec.Pkt

/-- nanosecond magic, version 3.0, thiszone −3600, sigfigs 6, snaplen 1500, linktype 101: none of the defaults -/
def exHdr : Bytes := [0x4D, 0x3C, 0xB2, 0xA1, 3, 0, 0, 0, 0xF0, 0xF1, 0xFF, 0xFF, 6, 0, 0, 0, 0xDC, 5, 0, 0, 101, 0, 0, 0]
def exRec (ts cap : Nat) (b : UInt8) : Bytes :=
  le32 ts ++ le32 0 ++ le32 cap ++ le32 cap ++ List.replicate cap b
/-- three records and the first three bytes of a fourth -/
def exInput : Bytes := exHdr ++ exRec 0 60 1 ++ exRec 1 60 2 ++ exRec 2 42 3 ++ [9, 9, 9]

-- the reader: the header fields, and the three packets as the filters see them (`exPkts` of `C20.lean`)
example : (fromFile exInput).toOption.map (fun rd =>
      (rd.hdr.magic == MAGIC_NS, rd.hdr.versionMajor, rd.hdr.snaplen, rd.hdr.linktype, (inputPackets rd).map absPkt))
    = some (true, 3, 1500, 101, exPkts) := by decide +kernel
-- the selection of `exRun` (packet 2 twice): header, then records 1, 2, 2, 3 byte for byte
example : filterOutput exInput [1, 2, 2, 3] =
    exHdr ++ exRec 0 60 1 ++ exRec 1 60 2 ++ exRec 1 60 2 ++ exRec 2 42 3 := by decide +kernel
example : filterOutput exInput [] = exHdr := by decide +kernel
example : (filterOutput exInput [3, 3]).take 24 = exInput.take 24 := by decide +kernel
-- no readable header (23 bytes; an unknown magic): nothing is written
example : filterOutput (exHdr.take 23) [1] = [] := by decide +kernel
example : filterOutput (0 :: exInput.drop 1) [1] = [] := by decide +kernel
-- a record whose caplen exceeds the snaplen stops the reading: the packets before it are still there
example : (fromFile (exHdr ++ exRec 0 60 1 ++ exRec 1 2000 2 ++ exRec 2 42 3)).toOption.map
    (fun rd => (inputPackets rd).map absPkt) = some [⟨0, 0, 60, 60⟩] := by decide +kernel
-- the loop with the byte sink, toy filters of `C20.lean` (`always`, `second`: packet 2 twice)
example : runFiltersOut [always, second] 0 exInput = filterOutput exInput [1, 2, 2, 3] := by decide +kernel
example : runFiltersOut [always, failAt3, second] 0 exInput = filterOutput exInput [1, 2, 2, 3] := by decide +kernel

-- the hypotheses of the theorems are satisfiable: the specification's run `exRun` on this input
theorem exRd : ∃ rd, fromFile exInput = .ok rd ∧ (inputPackets rd).map absPkt = exPkts := by
  have : (fromFile exInput).toOption.map (fun rd => (inputPackets rd).map absPkt) = some exPkts := by
    decide +kernel
  cases h : fromFile exInput with
  | error e => rw [h] at this; cases this
  | ok rd =>
    rw [h] at this
    exact ⟨rd, rfl, Option.some.inj this⟩

example : ∃ rd, ∃ k : List Nat, k.length = 3 ∧ filterOutput exInput [1, 2, 2, 3] = exInput.take 24 ++
    encodePackets (((inputPackets rd).zip k).flatMap fun pk => List.replicate pk.2 pk.1) := by
  obtain ⟨rd, h1, h2⟩ := exRd
  obtain ⟨env, st0, _, hk, ho⟩ := filter_mode_output exProg exInput rd h1 [1, 2, 2, 3] _ _ (by rw [h2]; exact exRun)
  have : (inputPackets rd).length = 3 := by
    have := congrArg List.length h2
    rw [List.length_map] at this
    exact this
  exact ⟨rd, _, by rw [hk, this], ho⟩

-- a non-boolean result on packet 2 (`nonBoolAt2` of `C20.lean`): packet 2 is written once (by `always`),
-- `second` does not run on it, the stream goes on
example : runFiltersOut [always, nonBoolAt2, second] 0 exInput = filterOutput exInput [1, 2, 3] := by decide +kernel

-- `np_sequence_spec` on `exRun`: 3 packets × (prep + 3 filters) = 12 calls, each program filter with its packet's variables
example : ∃ calls : List (Nat × Nat × LoopSt),
    calls.map (fun c => (c.1, c.2.1)) =
      [(1, 0), (1, 1), (1, 2), (1, 3), (2, 0), (2, 1), (2, 2), (2, 3), (3, 0), (3, 1), (3, 2), (3, 3)] ∧
    ∀ c ∈ calls, 1 ≤ c.2.1 → ∃ pk, exPkts[c.1 - 1]? = some pk ∧ c.2.2.1.bvars = pktVars c.1 pk := by
  obtain ⟨_, _, calls, _, _, h3, h4⟩ := np_sequence_spec _ _ _ _ _ exRun
  exact ⟨calls, h3, h4⟩

-- … and what such a filter then reads for `NP` (unless the program shadows the name)
example (st : St) (h : st.bvars = pktVars 2 ⟨1, 0, 60, 60⟩) :
    (evalE 3 [[]] (.ident 1 "NP" .get)).run.run st = (.ok (.val (.int 2) [[]]), st) :=
  ident_reads 2 [[]] 1 .get st "NP" (.int 2) (by rw [h]; rfl) rfl rfl

end Examples

end Bytes

end P2sh.Props.C20
