import P2sh.Core.Prog
/-!
# C07 — statements leave the operand stack balanced (core fragment)

From `compileS_correct` / `compileP_correct`: the code of every statement, and of every
statement sequence, takes the machine from a stack `stk` back to **the same** `stk`, whatever
is underneath; an expression's code to `v :: stk`.  So in the core fragment the stack height
after a statement equals the height before it, for every program and every run.
-/
namespace P2sh.Props.C07
open P2sh P2sh.Core

theorem statement_balanced (s : CStmt) (C : List Instr) (K : List Val) (pos k : Nat) (stk g g' : List Val)
    (h : codeAt C pos (compileS pos k s)) (hp : poolAt K k (consts s.e)) (he : evalP g [s] = some g') :
    ∃ st', Steps C K ⟨pos, stk, g⟩ st' ∧ st'.pc = pos + bytes (compileS pos k s) ∧ st'.stk.length = stk.length :=
  ⟨_, compileS_correct s C K pos k stk g g' h hp he, rfl, rfl⟩

theorem statements_balanced (ss : List CStmt) (C : List Instr) (K : List Val) (pos k : Nat) (stk g g' : List Val)
    (h : codeAt C pos (compileP pos k ss)) (hp : poolAt K k (constsP ss)) (he : evalP g ss = some g') :
    ∃ st', Steps C K ⟨pos, stk, g⟩ st' ∧ st'.stk = stk :=
  ⟨_, compileP_correct ss C K pos k stk g g' h hp he, rfl⟩

theorem expression_pushes_one (e : CExpr) (C : List Instr) (K : List Val) (pos k : Nat) (stk g : List Val) (v : Val) (g' : List Val)
    (h : codeAt C pos (compile pos k e)) (hp : poolAt K k (consts e)) (he : eval g e = some (v, g')) :
    ∃ st', Steps C K ⟨pos, stk, g⟩ st' ∧ st'.stk.length = stk.length + 1 :=
  ⟨_, compile_correct e C K pos k stk g v g' h hp he, by simp⟩

end P2sh.Props.C07
