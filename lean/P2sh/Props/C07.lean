import P2sh.Core.Prog
/-!
# C07 — statements leave the operand stack balanced (core fragment)

From `compileS_correct` / `compileP_correct`: the code of every statement (`let`, expression
statement, block, `while` / `loop`, `break` / `continue`, statement-level `if`), and of every
statement sequence, takes the machine from a stack `stk` back to **the same** `stk`, whatever
is underneath — whether the statement ends normally or by a `break` / `continue` that leaves or
restarts an enclosing loop; an expression's code to `v :: stk`.  So in the core fragment the
stack height after a statement equals the height before it, for every program and every run.
(`break` / `continue` occur in statement position only: the known finding K1, a jump with
pending operands, is outside the fragment by construction.)
-/
namespace P2sh.Props.C07
open P2sh P2sh.Core

theorem statement_balanced (fuel : Nat) (s : CStmt) (C : List Instr) (K : List Val) (pos k : Nat) (ctx : List LoopCtx)
    (stk g g' : List Val) (f : Flow)
    (h : codeAt C pos (compileS pos k ctx s)) (hp : poolAt K k (constsS s)) (he : evalS fuel g s = some (g', f)) :
    ∃ st', Steps C K ⟨pos, stk, g⟩ st' ∧ st'.pc = exitPc ctx (pos + bytes (compileS pos k ctx s)) f ∧ st'.stk = stk :=
  ⟨_, compileS_correct fuel s C K pos k ctx stk g g' f h hp he, rfl, rfl⟩

theorem statements_balanced (fuel : Nat) (ss : List CStmt) (C : List Instr) (K : List Val) (pos k : Nat) (ctx : List LoopCtx)
    (stk g g' : List Val) (f : Flow)
    (h : codeAt C pos (compileP pos k ctx ss)) (hp : poolAt K k (constsP ss)) (he : evalP fuel g ss = some (g', f)) :
    ∃ st', Steps C K ⟨pos, stk, g⟩ st' ∧ st'.stk = stk :=
  ⟨_, compileP_correct fuel ss C K pos k ctx stk g g' f h hp he, rfl⟩

/-- a loop — `while` or `loop`, labelled or not — runs in constant stack: whatever the number
of iterations of a terminating run, and however the loop is left (falsey condition, `break`,
a `break` / `continue` addressed to an enclosing loop), the machine leaves it with the stack
it entered it with -/
theorem loop_constant_stack (fuel : Nat) (s : CStmt) (hloop : (∃ lbl c body, s = .whileS lbl c body) ∨ (∃ lbl body, s = .loopS lbl body))
    (C : List Instr) (K : List Val) (pos k : Nat) (ctx : List LoopCtx)
    (stk g g' : List Val) (f : Flow) (h : codeAt C pos (compileS pos k ctx s)) (hp : poolAt K k (constsS s))
    (he : evalS fuel g s = some (g', f)) :
    ∃ st', Steps C K ⟨pos, stk, g⟩ st' ∧ st'.stk = stk ∧ st'.g = g' := by
  rcases hloop with ⟨lbl, c, body, rfl⟩ | ⟨lbl, body, rfl⟩
  · exact while_constant_stack fuel lbl c body C K pos k ctx stk g g' f h hp he
  · exact Core.loop_constant_stack fuel lbl body C K pos k ctx stk g g' f h hp he

/-- `break` and `continue` leave the stack as it is: after the jump the machine has the
stack the statement (and hence the loop it leaves or restarts) was entered with -/
theorem break_continue_balanced (l : Option String) (C : List Instr) (K : List Val) (pos k : Nat) (ctx : List LoopCtx) (stk g : List Val)
    (hb : codeAt C pos (compileS pos k ctx (.breakS l)))
    (hp : poolAt K k (constsS (.breakS l))) :
    Steps C K ⟨pos, stk, g⟩ ⟨breakTarget ctx l, stk, g⟩ :=
  compileS_correct 1 (.breakS l) C K pos k ctx stk g g (.brk l) hb hp (by simp [evalS])

/-- non-vacuity: `let i = 0; loop { i = i + 1; if i > 2 { break; } }` ends with `i = 3`, normally -/
example : evalP 40 [.null]
    [.letG 0 (.lit (.int 0)),
     .loopS none [.expr (.gset 0 (.bin .add (.gget 0) (.lit (.int 1)))),
                  .ifS (.bin .greater (.gget 0) (.lit (.int 2))) [.breakS none] []]] = some ([.int 3], .normal) := by rfl

theorem expression_pushes_one (e : CExpr) (C : List Instr) (K : List Val) (pos k : Nat) (stk g : List Val) (v : Val) (g' : List Val)
    (h : codeAt C pos (compile pos k e)) (hp : poolAt K k (consts e)) (he : eval g e = some (v, g')) :
    ∃ st', Steps C K ⟨pos, stk, g⟩ st' ∧ st'.stk.length = stk.length + 1 :=
  ⟨_, compile_correct e C K pos k stk g v g' h hp he, by simp⟩

end P2sh.Props.C07
