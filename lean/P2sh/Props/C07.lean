import P2sh.Core.Prog
/-!
# C07 — statements leave the operand stack balanced (core fragment)

From `compileS_correct` / `compileP_correct`: the code of every statement (`let`, expression
statement, block, `while` loop), and of every
statement sequence, takes the machine from a stack `stk` back to **the same** `stk`, whatever
is underneath; an expression's code to `v :: stk`.  So in the core fragment the stack height
after a statement equals the height before it, for every program and every run.
-/
namespace P2sh.Props.C07
open P2sh P2sh.Core

theorem statement_balanced (fuel : Nat) (s : CStmt) (C : List Instr) (K : List Val) (pos k : Nat) (stk g g' : List Val)
    (h : codeAt C pos (compileS pos k s)) (hp : poolAt K k (constsS s)) (he : evalS fuel g s = some g') :
    ∃ st', Steps C K ⟨pos, stk, g⟩ st' ∧ st'.pc = pos + bytes (compileS pos k s) ∧ st'.stk = stk :=
  ⟨_, compileS_correct fuel s C K pos k stk g g' h hp he, rfl, rfl⟩

theorem statements_balanced (fuel : Nat) (ss : List CStmt) (C : List Instr) (K : List Val) (pos k : Nat) (stk g g' : List Val)
    (h : codeAt C pos (compileP pos k ss)) (hp : poolAt K k (constsP ss)) (he : evalP fuel g ss = some g') :
    ∃ st', Steps C K ⟨pos, stk, g⟩ st' ∧ st'.stk = stk :=
  ⟨_, compileP_correct fuel ss C K pos k stk g g' h hp he, rfl⟩

/-- a `while` loop runs in constant stack: whatever the number of iterations of a terminating
run, the machine leaves the loop with the stack it entered it with -/
theorem loop_constant_stack (fuel : Nat) (c : CExpr) (body : List CStmt) (C : List Instr) (K : List Val) (pos k : Nat)
    (stk g g' : List Val) (h : codeAt C pos (compileS pos k (.whileS c body))) (hp : poolAt K k (constsS (.whileS c body)))
    (he : evalS fuel g (.whileS c body) = some g') :
    ∃ st', Steps C K ⟨pos, stk, g⟩ st' ∧ st'.stk = stk ∧ st'.g = g' :=
  while_constant_stack fuel c body C K pos k stk g g' h hp he

theorem expression_pushes_one (e : CExpr) (C : List Instr) (K : List Val) (pos k : Nat) (stk g : List Val) (v : Val) (g' : List Val)
    (h : codeAt C pos (compile pos k e)) (hp : poolAt K k (consts e)) (he : eval g e = some (v, g')) :
    ∃ st', Steps C K ⟨pos, stk, g⟩ st' ∧ st'.stk.length = stk.length + 1 :=
  ⟨_, compile_correct e C K pos k stk g v g' h hp he, by simp⟩

end P2sh.Props.C07
