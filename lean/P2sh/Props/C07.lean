import P2sh.Core.Prog
import P2sh.Core.Fn.Prog
/-!
# C07 — statements leave the operand stack balanced (core fragment)

From `compileS_correct` / `compileP_correct`: the code of every statement (`let`, expression
statement, block, `while` / `loop`, `break` / `continue`, statement-level `if`), and of every
statement sequence, takes the machine from a stack `stk` back to **the same** `stk`, whatever
is underneath — whether the statement ends normally or by a `break` / `continue` that leaves or
restarts an enclosing loop; an expression's code to `v :: stk`.  So in the core fragment the
stack height after a statement equals the height before it, for every program and every run.
(`break` / `continue` occur in statement position only: the known finding K1, a jump with
pending operands, is outside the fragment by construction.)
-/
namespace P2sh.Props.C07
open P2sh P2sh.Core

theorem statement_balanced (fuel : Nat) (s : CStmt) (C : List Instr) (K : List Val) (pos k : Nat) (ctx : List LoopCtx)
    (stk g g' : List Val) (f : Flow)
    (h : codeAt C pos (compileS pos k ctx s)) (hp : poolAt K k (constsS s)) (he : evalS fuel g s = some (g', f)) :
    Steps C K ⟨pos, stk, g⟩ ⟨exitPc ctx (pos + bytes (compileS pos k ctx s)) f, stk, g'⟩ :=
  compileS_correct fuel s C K pos k ctx stk g g' f h hp he

theorem statements_balanced (fuel : Nat) (ss : List CStmt) (C : List Instr) (K : List Val) (pos k : Nat) (ctx : List LoopCtx)
    (stk g g' : List Val) (f : Flow)
    (h : codeAt C pos (compileP pos k ctx ss)) (hp : poolAt K k (constsP ss)) (he : evalP fuel g ss = some (g', f)) :
    Steps C K ⟨pos, stk, g⟩ ⟨exitPc ctx (pos + bytes (compileP pos k ctx ss)) f, stk, g'⟩ :=
  compileP_correct fuel ss C K pos k ctx stk g g' f h hp he

/-- a loop — `while` or `loop`, labelled or not — runs in constant stack: whatever the number
of iterations of a terminating run, and however the loop is left (falsey condition, `break`,
a `break` / `continue` addressed to an enclosing loop), the machine leaves it with the stack
it entered it with, at the loop's exit (the end of its code, or the target of the jump that left it) and
with the globals of the reference evaluation -/
theorem loop_constant_stack (fuel : Nat) (s : CStmt) (hloop : (∃ lbl c body, s = .whileS lbl c body) ∨ (∃ lbl body, s = .loopS lbl body))
    (C : List Instr) (K : List Val) (pos k : Nat) (ctx : List LoopCtx)
    (stk g g' : List Val) (f : Flow) (h : codeAt C pos (compileS pos k ctx s)) (hp : poolAt K k (constsS s))
    (he : evalS fuel g s = some (g', f)) :
    ∃ st', Steps C K ⟨pos, stk, g⟩ st' ∧ st'.pc = exitPc ctx (pos + bytes (compileS pos k ctx s)) f ∧ st'.stk = stk ∧ st'.g = g' := by
  rcases hloop with ⟨lbl, c, body, rfl⟩ | ⟨lbl, body, rfl⟩
  · exact while_constant_stack fuel lbl c body C K pos k ctx stk g g' f h hp he
  · exact Core.loop_constant_stack fuel lbl body C K pos k ctx stk g g' f h hp he

/-- `break` and `continue` leave the stack as it is: after the jump the machine has the
stack the statement (and hence the loop it leaves or restarts) was entered with -/
theorem break_continue_balanced (l : Option String) (C : List Instr) (K : List Val) (pos k : Nat) (ctx : List LoopCtx) (stk g : List Val)
    (hp : poolAt K k []) :
    (codeAt C pos (compileS pos k ctx (.breakS l)) → Steps C K ⟨pos, stk, g⟩ ⟨breakTarget ctx l, stk, g⟩) ∧
    (codeAt C pos (compileS pos k ctx (.continueS l)) → Steps C K ⟨pos, stk, g⟩ ⟨contTarget ctx l, stk, g⟩) :=
  ⟨fun hb => compileS_correct 1 (.breakS l) C K pos k ctx stk g g (.brk l) hb hp (by simp [evalS]),
   fun hc => compileS_correct 1 (.continueS l) C K pos k ctx stk g g (.cont l) hc hp (by simp [evalS])⟩

/-- non-vacuity: `let i = 0; loop { i = i + 1; if i > 2 { break; } }` ends with `i = 3`, normally -/
example : evalP 40 [.null]
    [.letG 0 (.lit (.int 0)),
     .loopS none [.expr (.gset 0 (.bin .add (.gget 0) (.lit (.int 1)))),
                  .ifS (.bin .greater (.gget 0) (.lit (.int 2))) [.breakS none] []]] = some ([.int 3], .normal) := by rfl

theorem expression_pushes_one (e : CExpr) (C : List Instr) (K : List Val) (pos k : Nat) (stk g : List Val) (v : Val) (g' : List Val)
    (h : codeAt C pos (compile pos k e)) (hp : poolAt K k (consts e)) (he : eval g e = some (v, g')) :
    ∃ st', Steps C K ⟨pos, stk, g⟩ st' ∧ st'.pc = pos + bytes (compile pos k e) ∧ st'.stk = v :: stk ∧ st'.g = g' :=
  ⟨_, compile_correct e C K pos k stk g v g' h hp he, rfl, rfl, rfl⟩


/-! ## calls (`P2sh.Core.Fn`: functions and closures)

A call leaves exactly one value in place of the callee and the arguments — also when the callee
returns by `return` from inside nested loops and blocks (its whole activation, operands
included, is dropped: `sp = bp - 1`, then the value is pushed) — and the frame stack is as
before; a call statement (`f(a1, …, an);`) leaves the stack as it was. -/

section calls
open P2sh.Core.Fn

/-- **a call expression pushes exactly one value**: for every terminating call (any callee body:
loops, blocks, `return` at any nesting, recursion), with any operands `ops` underneath, in any
activation: afterwards the machine is after the `Call`, the stack is one higher than before the
callee expression was evaluated, the frame stack is the caller's again -/
theorem call_pushes_one {Φ : FnDef → Option FDecl} {K : List Val} {F : FnDef → Option (List Instr)} (hL : Linked Φ K F)
    (fuel : Nat) (l : Nat) (f : FExpr) (args : FArgs) (X : Ctxt) (pos k : Nat) (ops : List Val) (cx : Option (FnDef × Nat)) (σ σ' : Sto) (v : Val)
    (h : codeAt X.code pos (compileE pos k (.call l f args))) (hp : poolAt K k (constsE (.call l f args))) (hx : Agree cx X)
    (he : evalE Φ fuel cx σ (.call l f args) = some (v, σ')) :
    ∃ st', FSteps K F (X.st pos ops σ) st' ∧
      st'.act.pc = pos + bytes (compileE pos k (.call l f args)) ∧
      st'.stk.length = (X.st pos ops σ).stk.length + 1 ∧ st'.stk.head? = some v ∧
      st'.callers = X.callers ∧ st'.act.bp = X.base.length := by
  obtain ⟨hs, hl⟩ := call_correct hL fuel l f args X pos k ops cx σ σ' v h hp hx he
  refine ⟨_, hs, rfl, ?_, rfl, rfl, rfl⟩
  simp [Ctxt.st, Ctxt.at, hl]

/-- **a call statement leaves the stack as it was** -/
theorem call_statement_balanced {Φ : FnDef → Option FDecl} {K : List Val} {F : FnDef → Option (List Instr)} (hL : Linked Φ K F)
    (fuel : Nat) (ls l : Nat) (f : FExpr) (args : FArgs) (X : Ctxt) (pos k : Nat) (ctx : List LoopCtx) (ops : List Val) (cx : Option (FnDef × Nat))
    (σ σ' : Sto) (bv : Val)
    (h : codeAt X.code pos (compileS pos k ctx (.expr ls (.call l f args)))) (hp : poolAt K k (constsS (.expr ls (.call l f args))))
    (hx : Agree cx X) (he : evalS Φ fuel cx σ (.expr ls (.call l f args)) = some (σ', .normal, bv)) :
    ∃ st', FSteps K F (X.st pos ops σ) st' ∧
      st'.act.pc = pos + bytes (compileS pos k ctx (.expr ls (.call l f args))) ∧
      st'.stk.length = (X.st pos ops σ).stk.length ∧ st'.callers = X.callers := by
  have hs := (sound_all hL fuel).S _ X pos k ctx ops cx σ σ' .normal bv h hp hx he
  have hl := (pres_all fuel).S _ _ _ _ _ _ he
  refine ⟨_, hs, rfl, ?_, rfl⟩
  simp [exitS, Ctxt.st, Ctxt.at, hl]

/-- every statement of a function body or of the top level, calls inside included, is balanced:
ending normally or by `break` / `continue` it leaves the operands `ops` it started with on the
local slots; ending by `return` it leaves the caller with exactly the returned value in place of
the callee slot -/
theorem statement_balanced_fn {Φ : FnDef → Option FDecl} {K : List Val} {F : FnDef → Option (List Instr)} (hL : Linked Φ K F)
    (fuel : Nat) (s : FStmt) (X : Ctxt) (pos k : Nat) (ctx : List LoopCtx) (ops : List Val) (cx : Option (FnDef × Nat)) (σ σ' : Sto) (f : FFlow) (bv : Val)
    (h : codeAt X.code pos (compileS pos k ctx s)) (hp : poolAt K k (constsS s)) (hx : Agree cx X)
    (he : evalS Φ fuel cx σ s = some (σ', f, bv)) :
    FSteps K F (X.st pos ops σ) (exitS X ctx (pos + bytes (compileS pos k ctx s)) ops σ' f) :=
  (sound_all hL fuel).S s X pos k ctx ops cx σ σ' f bv h hp hx he

end calls

end P2sh.Props.C07
