import P2sh.Core.Checked
import P2sh.Props.BcvStep
/-!
# The core machine is a refinement of the VM model

`Core.step` (`Core/Lang.lean`) is the abstract stack machine against which compiler correctness is
stated; `Vm.step` / `Vm.runLoop` (`Model/Vm.lean`) is the model of the real VM that runs real
bytecode bytes.  This file connects them: on the bytes `Core.encode C` (the encoder the `core`
correspondence op compares byte-for-byte with the real compiler), **one step of the core machine
is exactly one iteration of the VM model's fetch–execute loop**, and the two states stay related.

* `Rel C K cs vs` — the simulation relation (below).
* `step_refines`   — one `Core.step` = one iteration (`Props.Bcv.tick`, the body of `runLoop`:
  `runLoop_succ`) ending normally, `Rel` preserved.
* `steps_refine`   — `Core.Steps` ⇒ `VmSteps` (iterations that go on); `VmSteps.fuel`: these are
  iterations of `runLoop`.
* `run_refines`    — a halting run of the core machine from its initial state is a normal run of
  `Vm.run` (for some fuel) from `Vm.initState`, ending in a related state.
* error direction  — `op_err_refines`, `op_panic_refines`, `minus_err_refines`, `bnot_err_refines`,
  `run_op_err_refines`: a failing operator is the *same* runtime error (message and line) in the
  VM model; `op_stuck_refines_partial` says what is not covered; `dup_empty_vm_goes_on` and
  `setGlobal_beyond_vm_goes_on` are the two places where the core machine is stuck and the VM is not.

Opcodes covered: every instruction `Core.step` executes (`const pop op(14 operators) tru fls null
minus bang bnot jump jif jifnp getGlobal setGlobal defGlobal dup`); on the function instructions
`Core.step` is `none`, so there is nothing to prove.

Model/Vm.lean is not changed: "one iteration" is `Props.Bcv.tick`, which `Props/BcvInv.lean`
already proves to be the loop body (`exec_runLoop_succ`).
-/
namespace P2sh.CoreVm
open P2sh P2sh.Vm P2sh.Code P2sh.Props.BcvWp
open P2sh.Props.Bcv (tick finish exec_runLoop_succ)

/-! ## a total-correctness calculus for the VM monad -/

def wpe {α} (m : M α) (Q : α → St → Prop) (E : Res → St → Prop) (s : St) : Prop :=
  match exec m s with
  | (.ok a, s') => Q a s'
  | (.error e, s') => E e s'

section calculus
variable {α β : Type} (Q : α → St → Prop) (E : Res → St → Prop) (s : St)

theorem wpe_bind (m : M β) (f : β → M α) :
    wpe (m >>= f) Q E s ↔ wpe m (fun a s' => wpe (f a) Q E s') E s := by
  unfold wpe
  rw [exec_bind]
  cases h : exec m s with
  | mk r s' => cases r <;> simp

theorem wpe_pure (a : α) : wpe (pure a : M α) Q E s ↔ Q a s := by simp [wpe]
theorem wpe_get (Q : St → St → Prop) : wpe (get : M St) Q E s ↔ Q s s := by simp [wpe]
theorem wpe_set (s' : St) (Q : PUnit → St → Prop) : wpe (set s' : M PUnit) Q E s ↔ Q ⟨⟩ s' := by simp [wpe]
theorem wpe_modify (f : St → St) (Q : PUnit → St → Prop) : wpe (modify f : M PUnit) Q E s ↔ Q ⟨⟩ (f s) := by
  simp [wpe]
theorem wpe_throw (e : Res) : wpe (throw e : M α) Q E s ↔ E e s := by simp [wpe]
theorem wpe_rtErr (msg : String) (l : Nat) : wpe (rtErr msg l : M α) Q E s ↔ E (.err msg l) s := by
  simp [wpe, rtErr]
theorem wpe_panicM (msg : String) : wpe (panicM msg : M α) Q E s ↔ E (.panic msg) s := by
  simp [wpe, panicM]
theorem wpe_ite (c : Prop) [Decidable c] (a b : M α) :
    wpe (if c then a else b) Q E s ↔ (if c then wpe a Q E s else wpe b Q E s) := by
  split <;> rfl

theorem wpe_ok {m : M α} {a : α} {s' : St} (h : exec m s = (.ok a, s')) : wpe m Q E s ↔ Q a s' := by
  simp [wpe, h]

theorem wpe_elim {m : M α} (h : wpe m Q (fun _ _ => False) s) : ∃ a s', exec m s = (.ok a, s') ∧ Q a s' := by
  unfold wpe at h
  cases he : exec m s with
  | mk r s' =>
    rw [he] at h
    cases r with
    | ok a => exact ⟨a, s', rfl, h⟩
    | error e => exact h.elim

theorem wpe_elim_err {m : M α} (h : wpe m (fun _ _ => False) E s) : ∃ e s', exec m s = (.error e, s') ∧ E e s' := by
  unfold wpe at h
  cases he : exec m s with
  | mk r s' =>
    rw [he] at h
    cases r with
    | ok a => exact h.elim
    | error e => exact ⟨e, s', rfl, h⟩

end calculus

section prims
variable (E : Res → St → Prop) (s : St)

theorem wpe_push (v : Val) (line : Nat) (Q : Unit → St → Prop) :
    wpe (push v line) Q E s ↔
      (if s.sp < s.stack.size then Q () { s with stack := s.stack.set! s.sp v, sp := s.sp + 1 }
       else E (.err "Stack overflow!" line) s) := by
  simp only [push, wpe_bind, wpe_get, wpe_ite, wpe_rtErr, wpe_set]
  by_cases h : s.sp < s.stack.size
  · simp [h, Nat.not_le.mpr h]
  · simp [h, Nat.not_lt.mp h]

theorem wpe_pop (line : Nat) (Q : Val → St → Prop) :
    wpe (pop line) Q E s ↔
      (if s.sp = 0 then E (.err "Stack underflow!" line) s
       else Q (s.stack.getD (s.sp - 1) .null) { s with sp := s.sp - 1 }) := by
  simp only [pop, wpe_bind, wpe_get, wpe_ite, wpe_rtErr, wpe_set, wpe_pure]
  by_cases h : s.sp = 0 <;> simp [h]

theorem wpe_peek0 (Q : Val → St → Prop) :
    wpe (peek 0) Q E s ↔ Q (if s.sp = 0 then .null else s.stack.getD (s.sp - 1) .null) s := by
  simp only [peek, wpe_bind, wpe_get, wpe_ite, wpe_panicM, wpe_pure]
  by_cases h : s.sp = 0 <;> simp [h]

theorem wpe_top0 (line : Nat) (Q : Val → St → Prop) :
    wpe (top 0 line) Q E s ↔
      (if s.sp = 0 then E (.err "Stack underflow!" line) s else Q (s.stack.getD (s.sp - 1) .null) s) := by
  simp only [top, wpe_bind, wpe_get, wpe_ite, wpe_panicM, wpe_pure, wpe_rtErr]
  by_cases h : s.sp = 0 <;> simp [h]

theorem wpe_curFrame (Q : Frame → St → Prop) :
    wpe curFrame Q E s ↔ match s.frames with | f :: _ => Q f s | [] => E (.panic "no frame") s := by
  simp only [curFrame, wpe_bind, wpe_get]
  cases s.frames <;> simp [wpe_pure, wpe_panicM]

theorem wpe_setIp (ip : Nat) (Q : Unit → St → Prop) : wpe (setIp ip) Q E s ↔ Q () (withIp ip s) := by
  simp only [setIp, wpe_modify, withIp]
  exact Iff.rfl

theorem wpe_reifyM (v : Val) (Q : Val → St → Prop) : wpe (reifyM v) Q E s ↔ Q (reify s.heap reifyDepth v) s := by
  simp only [reifyM, wpe_bind, wpe_get, wpe_pure]

theorem wpe_reflectM (v : Val) (Q : Val → St → Prop) :
    wpe (reflectM v) Q E s ↔ Q (reflect s.heap reifyDepth v).2 { s with heap := (reflect s.heap reifyDepth v).1 } := by
  simp only [reflectM, wpe_bind, wpe_get, wpe_pure, wpe_set]

theorem wpe_ofOpRes (line : Nat) (r : OpRes) (Q : Val → St → Prop) :
    wpe (ofOpRes line r) Q E s ↔ match r with
      | .ok v => Q (reflect s.heap reifyDepth v).2 { s with heap := (reflect s.heap reifyDepth v).1 }
      | .err msg => E (.err msg line) s
      | .panic msg => E (.panic msg) s := by
  cases r <;> simp [ofOpRes, wpe_reflectM, wpe_rtErr, wpe_panicM]

theorem wpe_readU16 (code : List Nat) (pos a b : Nat) (Q : Nat → St → Prop)
    (ha : code[pos]? = some a) (hb : code[pos + 1]? = some b) :
    wpe (readU16 code pos) Q E s ↔ Q (a * 256 + b) s := by
  unfold readU16
  rw [ha, hb]
  simp only [wpe_pure]

end prims


/-! ## scalar values: `reify` / `reflect` are the identity on them, operators keep them -/

/-- not a reference into the heap of shared arrays / maps -/
def scalar : Val → Bool
  | .arr .. | .map .. => false
  | _ => true

theorem reify_scalar (h : Heap) (n : Nat) {v : Val} (hv : scalar v = true) : reify h n v = v := by
  cases n with
  | zero => cases v <;> rfl
  | succ n => cases v <;> first | rfl | simp [scalar] at hv

theorem reflect_scalar (h : Heap) (n : Nat) {v : Val} (hv : scalar v = true) : reflect h n v = (h, v) := by
  cases n with
  | zero => cases v <;> rfl
  | succ n => cases v <;> first | rfl | simp [scalar] at hv

theorem arithInt_scalar {op a b v} (h : arithInt op a b = .ok v) : scalar v = true := by
  unfold arithInt at h
  split at h <;> (try split at h) <;> cases h <;> rfl

theorem arithByte_scalar {op a b v} (h : arithByte op a b = .ok v) : scalar v = true := by
  unfold arithByte at h
  split at h <;> (try split at h) <;> cases h <;> rfl

theorem arithFloat_scalar (op a b) : scalar (arithFloat op a b) = true := by
  cases op <;> rfl

theorem arith_scalar {op l r v} (h : arith op l r = .ok v) : scalar v = true := by
  unfold arith at h
  split at h
  all_goals first
    | exact arithInt_scalar h
    | exact arithByte_scalar h
    | (cases h; exact arithFloat_scalar _ _ _)
    | cases h

theorem applyBin_scalar {k l r v} (h : applyBin k l r = .ok v) : scalar v = true := by
  unfold applyBin at h
  split at h
  · exact arith_scalar h
  · cases h; rfl
  · cases h; rfl

theorem binaryOp_scalar {k l r v} (hl : scalar l = true) (hr : scalar r = true) (h : binaryOp k l r = .ok v) :
    scalar v = true := by
  unfold binaryOp at h
  split at h
  · split at h
    · cases h
    · split at h
      · cases h
      · exact applyBin_scalar h
  · split at h
    · split at h <;> first | exact applyBin_scalar h | (cases h; rfl) | cases h
    · split at h <;> first | exact applyBin_scalar h | (cases h; rfl) | cases h
    · split at h
      · split at h
        · cases h
        · split at h
          · cases h
          · cases h; rfl
      · cases h
    · split at h
      · split at h
        · cases h
        · split at h
          · cases h
          · cases h; rfl
      · cases h
    · simp [scalar] at hl
    · cases h

theorem bitwiseOp_scalar {op l r v} (h : bitwiseOp op l r = .ok v) : scalar v = true := by
  unfold bitwiseOp at h
  split at h
  · cases h; rfl
  · cases h

theorem execOperator_scalar {o l r v} (hl : scalar l = true) (hr : scalar r = true) (h : execOperator o l r = .ok v) :
    scalar v = true := by
  cases o <;> simp only [execOperator] at h
  all_goals first
    | exact binaryOp_scalar hl hr h
    | exact bitwiseOp_scalar h
    | (cases h; rfl)

theorem unaryMinus_scalar {a v} (h : unaryMinus a = .ok v) : scalar v = true := by
  unfold unaryMinus at h
  split at h <;> cases h <;> rfl

theorem unaryNot_scalar {a v} (h : unaryNot a = .ok v) : scalar v = true := by
  unfold unaryNot at h
  split at h <;> cases h <;> rfl

theorem unaryMinus_isNumber {a v} (h : unaryMinus a = .ok v) : a.isNumber = true := by
  unfold unaryMinus at h
  split at h <;> first | rfl | cases h


/-! ## the simulation relation -/

/-- the live part `stack[0 .. sp)` of the VM's operand stack, top first, is the core machine's stack -/
def StkRel (st : Array Val) (sp : Nat) (stk : List Val) : Prop :=
  sp ≤ st.size ∧ (st.toList.take sp).reverse = stk

theorem StkRel.length {st sp stk} (h : StkRel st sp stk) : stk.length = sp := by
  obtain ⟨h1, rfl⟩ := h
  simp; omega

theorem StkRel.push {st sp stk} (h : StkRel st sp stk) (hlt : sp < st.size) (v : Val) :
    StkRel (st.set! sp v) (sp + 1) (v :: stk) := by
  obtain ⟨h1, rfl⟩ := h
  refine ⟨by simp; omega, ?_⟩
  simp [List.take_add_one, List.take_set, hlt]
  exact List.set_eq_of_length_le (by simp; omega)

theorem StkRel.pop {st sp v stk} (h : StkRel st sp (v :: stk)) :
    sp ≠ 0 ∧ st.getD (sp - 1) .null = v ∧ StkRel st (sp - 1) stk := by
  obtain ⟨h1, h2⟩ := h
  cases sp with
  | zero => simp at h2
  | succ n =>
    have hn : n < st.size := by omega
    simp [List.take_add_one, hn] at h2
    refine ⟨by simp, ?_, by omega, ?_⟩
    · simp [hn, h2.1]
    · simpa using h2.2

/-- the VM's globals array (`GLOBALS_SIZE` slots) is the core machine's list of globals followed
by nulls: `Core.step` reads `g.getD i .null` and refuses to write at `i ≥ g.length`; the VM reads and
writes any slot below `GLOBALS_SIZE` (a 16-bit operand is always below it) -/
def GRel (gl : Array Val) (g : List Val) : Prop :=
  gl.size = P2sh.Gen.Limits.GLOBALS_SIZE ∧ g.length ≤ gl.size ∧ ∀ i, gl.getD i .null = g.getD i .null

theorem GRel.set {gl g} (h : GRel gl g) {i : Nat} (hi : i < g.length) (v : Val) : GRel (gl.set! i v) (g.set i v) := by
  obtain ⟨h1, h2, h3⟩ := h
  refine ⟨by simpa using h1, by simpa using h2, fun j => ?_⟩
  have hh := h3 j
  simp only [Array.getD_eq_getD_getElem?, List.getD_eq_getElem?_getD, Array.set!_eq_setIfInBounds,
    Array.getElem?_setIfInBounds, List.getElem?_set] at hh ⊢
  by_cases hj : i = j
  · subst hj
    have : i < gl.size := by omega
    simp [this, hi]
  · simp [hj, hh]

/-- `vs` is the VM state that stands for the core machine's state `cs` on code `C` with pool `K`:

* `frame`   — exactly one frame (the main frame); its code is `Core.encode C`; its `ip` is the byte
              offset `cs.pc` (the VM's `ip` points *at* the opcode byte: `runLoop` reads
              `code[ip]`, the arm adds the operand width, the loop adds 1); the `lines` table
              covers the code (otherwise `runLoop` panics on `lines[ip]`);
* `consts`  — the constant array is `K`;
* `size`    — the operand stack has `STACK_SIZE` slots;
* `stack`   — `stack[0 .. sp)` reversed is `cs.stk` (slots at and above `sp` are arbitrary: stale);
* `globals` — `GRel`: the globals array has `GLOBALS_SIZE` slots and is `cs.g` followed by nulls
              (`cs.g = vs.globals.toList` is the special case `cs.g.length = GLOBALS_SIZE`);
* `scalar…` — no value of the pool, the stack or the globals is a heap reference (`.arr`/`.map`),
              so that `reifyM` / `reflectM` are the identity (`reify_scalar`, `reflect_scalar`).
              Closures, functions and builtins are allowed: the VM does not reify them.

The heap, `bp`, `closId` and the frame's other fields are unconstrained. -/
structure Rel (C : List Core.Instr) (K : List Val) (cs : Core.St) (vs : Vm.St) : Prop where
  frame : ∃ f, vs.frames = [f] ∧ f.fn.code = Core.encode C ∧ f.ip = cs.pc ∧ f.fn.code.length ≤ f.fn.lines.length
  consts : vs.constants.toList = K
  size : vs.stack.size = stackSize
  stack : StkRel vs.stack vs.sp cs.stk
  globals : GRel vs.globals cs.g
  scalarK : ∀ v ∈ K, scalar v = true
  scalarS : ∀ v ∈ cs.stk, scalar v = true
  scalarG : ∀ v ∈ cs.g, scalar v = true

theorem Rel.next {C K cs vs f} (R : Rel C K cs vs) (hf : vs.frames = [f]) {vs' : St} {pc' : Nat} {stk' g' : List Val}
    (hfr : vs'.frames = [{ f with ip := pc' }]) (hc : vs'.constants = vs.constants)
    (hst : StkRel vs'.stack vs'.sp stk') (hsz : vs'.stack.size = vs.stack.size) (hg : GRel vs'.globals g')
    (hs : ∀ v ∈ stk', scalar v = true) (hsg : ∀ v ∈ g', scalar v = true) : Rel C K ⟨pc', stk', g'⟩ vs' := by
  obtain ⟨f0, hf0, hcode, _, hl⟩ := R.frame
  rw [hf] at hf0
  cases hf0
  exact ⟨⟨_, hfr, hcode, rfl, hl⟩, by rw [hc]; exact R.consts, by rw [hsz]; exact R.size, hst, hg, R.scalarK, hs, hsg⟩

/-- the function the (only) frame runs: it never changes (`step_refines`) -/
def mainFn (s : St) : Option FnDef := s.frames.head?.map (·.fn)

theorem Rel.next2 {C K cs vs f} (R : Rel C K cs vs) (hf : vs.frames = [f]) {vs' : St} {pc' : Nat} {stk' g' : List Val}
    (hfr : vs'.frames = [{ f with ip := pc' }]) (hc : vs'.constants = vs.constants)
    (hst : StkRel vs'.stack vs'.sp stk') (hsz : vs'.stack.size = vs.stack.size) (hg : GRel vs'.globals g')
    (hs : ∀ v ∈ stk', scalar v = true) (hsg : ∀ v ∈ g', scalar v = true) :
    Rel C K ⟨pc', stk', g'⟩ vs' ∧ mainFn vs' = mainFn vs :=
  ⟨R.next hf hfr hc hst hsz hg hs hsg, by simp [mainFn, hfr, hf]⟩

/-! ## the bytes of the fetched instruction -/

theorem encodeI_length (i : Core.Instr) : (Core.encodeI i).length = i.size := by
  cases i with
  | op o => cases o <;> rfl
  | _ => rfl

theorem fetch_encode : ∀ (C : List Core.Instr) (pc : Nat) (i : Core.Instr), Core.fetch C pc = some i →
    ∃ pre post, Core.encode C = pre ++ (Core.encodeI i ++ post) ∧ pc = pre.length
  | [], _, _, h => by simp [Core.fetch] at h
  | j :: js, pc, i, h => by
    unfold Core.fetch at h
    split at h
    · cases h
      exact ⟨[], Core.encode js, by simp [Core.encode], by simp [*]⟩
    · split at h
      · cases h
      · obtain ⟨pre, post, he, hl⟩ := fetch_encode js _ i h
        refine ⟨Core.encodeI j ++ pre, post, ?_, ?_⟩
        · simp only [Core.encode] at he ⊢
          simp [he]
        · simp [← hl, encodeI_length]; omega

theorem byte_at {code pre bs post : List Nat} {ip : Nat} (hcode : code = pre ++ (bs ++ post)) (hip : ip = pre.length)
    (k : Nat) (hk : k < bs.length) : code[ip + k]? = bs[k]? := by
  subst hcode hip
  rw [List.getElem?_append_right (by omega)]
  simp [List.getElem?_append_left hk]

theorem byte_at0 {code pre bs post : List Nat} {ip : Nat} (hcode : code = pre ++ (bs ++ post)) (hip : ip = pre.length)
    (hk : 0 < bs.length) : code[ip]? = bs[0]? := byte_at hcode hip 0 hk

theorem dec16 {n : Nat} (h : n < 65536) : n % 65536 / 256 % 256 * 256 + n % 65536 % 256 = n := by omega


theorem opname {code pre bs post : List Nat} {ip : Nat} (hcode : code = pre ++ (bs ++ post)) (hip : ip = pre.length)
    {b : Nat} {name : String} (hb : bs[0]? = some b)
    (hname : (P2sh.Gen.Opcodes.names[opOfByte b]?).getD "Invalid" = name) :
    (P2sh.Gen.Opcodes.names[opOfByte (code.getD ip 0)]?).getD "Invalid" = name := by
  have hpos : 0 < bs.length := by
    cases bs with
    | nil => simp at hb
    | cons _ _ => simp
  rw [List.getD_eq_getElem?_getD, byte_at0 hcode hip hpos, hb]
  exact hname

theorem operands16 {code pre post : List Nat} {ip b n : Nat}
    (hcode : code = pre ++ ([b, n % 65536 / 256 % 256, n % 65536 % 256] ++ post)) (hip : ip = pre.length) :
    code[ip + 1]? = some (n % 65536 / 256 % 256) ∧ code[ip + 1 + 1]? = some (n % 65536 % 256) :=
  ⟨byte_at hcode hip 1 (by simp), byte_at hcode hip 2 (by simp)⟩

theorem enc3 (b n : Nat) : b :: (beBytes 2 (n % 2 ^ 16) ++ []) = [b, n % 65536 / 256 % 256, n % 65536 % 256] := by
  simp [beBytes]

theorem encodeI_const (n : Nat) : Core.encodeI (.const n) = [0, n % 65536 / 256 % 256, n % 65536 % 256] := enc3 0 n
theorem encodeI_jump (n : Nat) : Core.encodeI (.jump n) = [15, n % 65536 / 256 % 256, n % 65536 % 256] := enc3 15 n
theorem encodeI_jif (n : Nat) : Core.encodeI (.jif n) = [16, n % 65536 / 256 % 256, n % 65536 % 256] := enc3 16 n
theorem encodeI_jifnp (n : Nat) : Core.encodeI (.jifnp n) = [17, n % 65536 / 256 % 256, n % 65536 % 256] := enc3 17 n
theorem encodeI_defGlobal (n : Nat) : Core.encodeI (.defGlobal n) = [19, n % 65536 / 256 % 256, n % 65536 % 256] := enc3 19 n
theorem encodeI_getGlobal (n : Nat) : Core.encodeI (.getGlobal n) = [20, n % 65536 / 256 % 256, n % 65536 % 256] := enc3 20 n
theorem encodeI_setGlobal (n : Nat) : Core.encodeI (.setGlobal n) = [21, n % 65536 / 256 % 256, n % 65536 % 256] := enc3 21 n

theorem fits16 {n : Nat} (h : (decide (n < 256 ^ 2) && true) = true) : n < 65536 := by simpa using h

/-! ## one iteration of `VM::run` (`Props.Bcv.tick`, the body of `runLoop`: `exec_runLoop_succ`) -/

abbrev noErr : Res → St → Prop := fun _ _ => False
abbrev noOk {α} : α → St → Prop := fun _ _ => False

theorem wpe_mono {α} {m : M α} {Q Q' : α → St → Prop} {E E' : Res → St → Prop} {s : St} (h : wpe m Q E s)
    (hq : ∀ a s', Q a s' → Q' a s') (he : ∀ e s', E e s' → E' e s') : wpe m Q' E' s := by
  unfold wpe at *
  cases hx : exec m s with
  | mk r s' =>
    rw [hx] at h
    cases r with
    | ok a => exact hq _ _ h
    | error e => exact he _ _ h

variable {C : List Core.Instr} {K : List Val} {cs cs' : Core.St} {vs : Vm.St}

theorem setup {i : Core.Instr} (R : Rel C K cs vs) (hfetch : Core.fetch C cs.pc = some i) :
    ∃ f line pre post, vs.frames = [f] ∧ f.fn.code = pre ++ (Core.encodeI i ++ post) ∧ f.ip = pre.length ∧
      cs.pc = pre.length ∧ f.fn.lines[f.ip]? = some line ∧ f.ip < f.fn.code.length := by
  obtain ⟨f, hf, hcode, hip, hl⟩ := R.frame
  obtain ⟨pre, post, he, hpc⟩ := fetch_encode C _ i hfetch
  have hlt : f.ip < f.fn.code.length := by
    rw [hcode, he, hip, hpc]
    have h1 := encodeI_length i
    have h2 := i.size_pos
    simp; omega
  exact ⟨f, f.fn.lines[f.ip]'(by omega), pre, post, hf, hcode.trans he, hip.trans hpc, hpc,
    List.getElem?_eq_getElem (by omega), hlt⟩

theorem tick_wpe {f : Frame} {line : Nat} {Q : St → Prop} {E : Res → St → Prop} (hf : vs.frames = [f])
    (hlt : f.ip < f.fn.code.length) (hline : f.fn.lines[f.ip]? = some line)
    (h : wpe (step (opOfByte (f.fn.code.getD f.ip 0)) f.fn.code f.ip line >>= finish) (fun _ s' => Q s') E vs) :
    wpe tick (fun b s' => b = true ∧ Q s') E vs := by
  unfold tick
  rw [wpe_bind] at h
  simp only [wpe_bind, wpe_curFrame, hf, hlt, if_true, hline, wpe_pure, true_and]
  exact h

/-- what an arm made of stack operations only leaves behind -/
structure Eff (vs vs' : St) (stk' : List Val) : Prop where
  frames : vs'.frames = vs.frames
  constants : vs'.constants = vs.constants
  globals : vs'.globals = vs.globals
  size : vs'.stack.size = vs.stack.size
  stack : StkRel vs'.stack vs'.sp stk'

/-- an arm that ends in `pure .advance`, followed by the loop's `ip += 1` -/
theorem advance_eff {pc : Nat} {stk g stk' : List Val} {f : Frame} {s' : St} (R : Rel C K ⟨pc, stk, g⟩ vs)
    (hf : vs.frames = [f]) (hip : f.ip = pc) (he : Eff vs s' stk') (hs : ∀ v ∈ stk', scalar v = true) :
    wpe (pure Next.advance >>= finish) (fun _ s'' => Rel C K ⟨pc + 1, stk', g⟩ s'' ∧ mainFn s'' = mainFn vs) noErr s' := by
  have hfr : s'.frames = [f] := he.frames.trans hf
  simp only [wpe_bind, wpe_pure, finish, wpe_curFrame, hfr, wpe_setIp, withIp]
  refine R.next2 hf (by rw [hip]) he.constants he.stack he.size ?_ hs R.scalarG
  show GRel s'.globals g
  rw [he.globals]
  exact R.globals

theorem eff_binaryVm_ok {r l v : Val} {rest : List Val} {k : BinKind} {line : Nat}
    (hst : StkRel vs.stack vs.sp (r :: l :: rest)) (hr : scalar r = true) (hl : scalar l = true)
    (h : binaryOp k l r = .ok v) :
    wpe (binaryVm k line) (fun _ s' => Eff vs s' (v :: rest)) noErr vs := by
  obtain ⟨n1, e1, s1⟩ := hst.pop
  obtain ⟨n2, e2, s2⟩ := s1.pop
  have hv := binaryOp_scalar hl hr h
  have hroom : vs.sp - 1 - 1 < vs.stack.size := by have := hst.1; omega
  simp only [binaryVm, wpe_bind, wpe_pop, wpe_reifyM, wpe_ofOpRes, wpe_push, n1, n2, ↓reduceIte, e1, e2,
    reify_scalar _ _ hr, reify_scalar _ _ hl, h, reflect_scalar _ _ hv, hroom]
  exact ⟨rfl, rfl, rfl, by simp, s2.push hroom v⟩

theorem eff_bitwiseVm_ok {r l v : Val} {rest : List Val} {op : BitOp} {line : Nat}
    (hst : StkRel vs.stack vs.sp (r :: l :: rest)) (h : bitwiseOp op l r = .ok v) :
    wpe (bitwiseVm op line) (fun _ s' => Eff vs s' (v :: rest)) noErr vs := by
  obtain ⟨n1, e1, s1⟩ := hst.pop
  obtain ⟨n2, e2, s2⟩ := s1.pop
  have hv := bitwiseOp_scalar h
  have hroom : vs.sp - 1 - 1 < vs.stack.size := by have := hst.1; omega
  simp only [bitwiseVm, wpe_bind, wpe_pop, wpe_ofOpRes, wpe_push, n1, n2, ↓reduceIte, e1, e2,
    h, reflect_scalar _ _ hv, hroom]
  exact ⟨rfl, rfl, rfl, by simp, s2.push hroom v⟩

/-- inversion of a core step on an operator instruction -/
theorem step_op_inv {pc : Nat} {stk g : List Val} {o : Operator} (hfetch : Core.fetch C pc = some (.op o))
    (hstep : Core.step C K ⟨pc, stk, g⟩ = some cs') :
    ∃ r l rest v, stk = r :: l :: rest ∧ execOperator o l r = .ok v ∧ cs' = ⟨pc + 1, v :: rest, g⟩ := by
  match stk with
  | [] => simp [Core.step, hfetch] at hstep
  | [_] => simp [Core.step, hfetch] at hstep
  | r :: l :: rest =>
    simp only [Core.step, hfetch] at hstep
    cases hx : execOperator o l r with
    | ok v => rw [hx] at hstep; simp at hstep; exact ⟨r, l, rest, v, rfl, hx, hstep.symm⟩
    | err m => rw [hx] at hstep; simp at hstep
    | panic m => rw [hx] at hstep; simp at hstep


set_option hygiene false in
macro "cv_pre" : tactic => `(tactic| (
  obtain ⟨f, line, pre, post, hf, hcode, hip, hpc, hline, hlt⟩ := setup R hfetch
  refine tick_wpe hf hlt hline ?_
  obtain ⟨pc, stk, g⟩ := cs
  simp only at hpc hfetch
  subst hpc))

abbrev Goal (C : List Core.Instr) (K : List Val) (cs' : Core.St) (vs : St) : Prop :=
  wpe tick (fun b s' => b = true ∧ Rel C K cs' s' ∧ mainFn s' = mainFn vs) noErr vs

set_option hygiene false in
macro "cv_op" nm:str "," b:num "," eff:term : tactic => `(tactic| (
  have hnm := opname (b := $b) (name := $nm) hcode hip rfl rfl
  unfold step; simp only [hnm]
  simp only [execOperator] at hexec
  rw [wpe_bind, wpe_bind]
  refine wpe_mono $eff ?_ (fun _ _ h => h)
  intro _ s' he
  exact advance_eff R hf hip he hsc))

theorem step_op {o : Operator} (R : Rel C K cs vs) (hfetch : Core.fetch C cs.pc = some (.op o))
    (hstep : Core.step C K cs = some cs') : Goal C K cs' vs := by
  cv_pre
  obtain ⟨r, l, rest, v, rfl, hexec, rfl⟩ := step_op_inv hfetch hstep
  have hr : scalar r = true := R.scalarS r (by simp)
  have hl : scalar l = true := R.scalarS l (by simp)
  have hrest : ∀ x ∈ rest, scalar x = true := fun x hx => R.scalarS x (by simp [hx])
  have hsc : ∀ x ∈ v :: rest, scalar x = true := by
    intro x hx
    rcases List.mem_cons.mp hx with rfl | hx
    · exact execOperator_scalar hl hr hexec
    · exact hrest x hx
  cases o
  case add => cv_op "Add", 2, (eff_binaryVm_ok R.stack hr hl hexec)
  case sub => cv_op "Sub", 3, (eff_binaryVm_ok R.stack hr hl hexec)
  case mul => cv_op "Mul", 4, (eff_binaryVm_ok R.stack hr hl hexec)
  case div => cv_op "Div", 5, (eff_binaryVm_ok R.stack hr hl hexec)
  case mod => cv_op "Mod", 6, (eff_binaryVm_ok R.stack hr hl hexec)
  case greater => cv_op "Greater", 11, (eff_binaryVm_ok R.stack hr hl hexec)
  case greaterEq => cv_op "GreaterEq", 12, (eff_binaryVm_ok R.stack hr hl hexec)
  case band => cv_op "And", 39, (eff_bitwiseVm_ok R.stack hexec)
  case bor => cv_op "Or", 40, (eff_bitwiseVm_ok R.stack hexec)
  case bxor => cv_op "Xor", 41, (eff_bitwiseVm_ok R.stack hexec)
  case shl => cv_op "ShiftLeft", 42, (eff_bitwiseVm_ok R.stack hexec)
  case shr => cv_op "ShiftRight", 43, (eff_bitwiseVm_ok R.stack hexec)
  case equal =>
    have hnm := opname (b := 9) (name := "Equal") hcode hip rfl rfl
    unfold step; simp only [hnm]
    simp only [execOperator] at hexec
    cases hexec
    obtain ⟨n1, e1, s1⟩ := R.stack.pop
    obtain ⟨n2, e2, s2⟩ := s1.pop
    have hroom : vs.sp - 1 - 1 < vs.stack.size := by have := R.stack.1; omega
    simp only [wpe_bind, wpe_pop, wpe_reifyM, wpe_push, wpe_pure, finish, wpe_curFrame, wpe_setIp, withIp, hf,
      n1, n2, ↓reduceIte, e1, e2, reify_scalar _ _ hr, reify_scalar _ _ hl, hroom]
    exact R.next2 hf (by rw [hip]) rfl (s2.push hroom _) (by simp) R.globals hsc R.scalarG
  case notEqual =>
    have hnm := opname (b := 10) (name := "NotEqual") hcode hip rfl rfl
    unfold step; simp only [hnm]
    simp only [execOperator] at hexec
    cases hexec
    obtain ⟨n1, e1, s1⟩ := R.stack.pop
    obtain ⟨n2, e2, s2⟩ := s1.pop
    have hroom : vs.sp - 1 - 1 < vs.stack.size := by have := R.stack.1; omega
    simp only [wpe_bind, wpe_pop, wpe_reifyM, wpe_push, wpe_pure, finish, wpe_curFrame, wpe_setIp, withIp, hf,
      n1, n2, ↓reduceIte, e1, e2, reify_scalar _ _ hr, reify_scalar _ _ hl, hroom]
    exact R.next2 hf (by rw [hip]) rfl (s2.push hroom _) (by simp) R.globals hsc R.scalarG

theorem step_const {idx : Nat} (R : Rel C K cs vs) (hfetch : Core.fetch C cs.pc = some (.const idx))
    (hfit : Core.fitsI (.const idx) = true) (hstep : Core.step C K cs = some cs') (hb : cs'.stk.length ≤ stackSize) :
    Goal C K cs' vs := by
  cv_pre
  rw [encodeI_const] at hcode
  have hnm := opname (b := 0) (name := "Constant") hcode hip rfl rfl
  obtain ⟨h1, h2⟩ := operands16 hcode hip
  unfold step; simp only [hnm]
  simp only [Core.step, hfetch] at hstep
  cases hk : K[idx]? with
  | none => simp [hk] at hstep
  | some v =>
    simp only [hk, Option.map_some, Option.some.injEq] at hstep
    subst hstep
    have hkc : vs.constants[idx]? = some v := by
      rw [← R.consts] at hk; simpa using hk
    have hsp : vs.sp < vs.stack.size := by
      have := R.stack.length; rw [R.size]; simp at hb this; omega
    simp only [wpe_bind, wpe_readU16 _ _ _ _ _ _ _ h1 h2, wpe_get, dec16 (fits16 hfit), hkc, wpe_push, wpe_setIp,
      wpe_pure, finish, wpe_curFrame, withIp, hf, hsp, ↓reduceIte]
    refine R.next2 hf (by rw [hip]) rfl (R.stack.push hsp v) (by simp) R.globals ?_ R.scalarG
    intro x hx
    rcases List.mem_cons.mp hx with rfl | hx
    · exact R.scalarK _ (List.mem_of_getElem? hk)
    · exact R.scalarS x hx

theorem step_pop (R : Rel C K cs vs) (hfetch : Core.fetch C cs.pc = some .pop)
    (hstep : Core.step C K cs = some cs') : Goal C K cs' vs := by
  cv_pre
  have hnm := opname (b := 1) (name := "Pop") hcode hip rfl rfl
  unfold step; simp only [hnm]
  cases stk with
  | nil => simp [Core.step, hfetch] at hstep
  | cons v rest =>
    simp [Core.step, hfetch] at hstep
    subst hstep
    obtain ⟨n1, e1, s1⟩ := R.stack.pop
    simp only [wpe_bind, wpe_pop, wpe_pure, finish, wpe_curFrame, wpe_setIp, withIp, hf, n1, ↓reduceIte]
    exact R.next2 hf (by rw [hip]) rfl s1 rfl R.globals (fun x hx => R.scalarS x (by simp [hx])) R.scalarG

/-- the arms `push v; pure .advance` -/
theorem push_arm {pc : Nat} {stk g : List Val} {f : Frame} (R : Rel C K ⟨pc, stk, g⟩ vs) (hf : vs.frames = [f])
    (hip : f.ip = pc) (v : Val) (line : Nat) (hv : scalar v = true) (hb : (v :: stk).length ≤ stackSize) :
    wpe ((do push v line; pure Next.advance) >>= finish) (fun _ s' => Rel C K ⟨pc + 1, v :: stk, g⟩ s' ∧ mainFn s' = mainFn vs) noErr vs := by
  have hsp : vs.sp < vs.stack.size := by
    have := R.stack.length; rw [R.size]; simp at hb this; omega
  simp only [wpe_bind, wpe_push, wpe_pure, finish, wpe_curFrame, wpe_setIp, withIp, hf, hsp, ↓reduceIte]
  refine R.next2 hf (by rw [hip]) rfl (R.stack.push hsp v) (by simp) R.globals ?_ R.scalarG
  intro x hx
  rcases List.mem_cons.mp hx with rfl | hx
  · exact hv
  · exact R.scalarS x hx

theorem step_tru (R : Rel C K cs vs) (hfetch : Core.fetch C cs.pc = some .tru)
    (hstep : Core.step C K cs = some cs') (hb : cs'.stk.length ≤ stackSize) : Goal C K cs' vs := by
  cv_pre
  have hnm := opname (b := 7) (name := "True") hcode hip rfl rfl
  unfold step; simp only [hnm]
  simp [Core.step, hfetch] at hstep
  subst hstep
  exact push_arm R hf hip _ line rfl hb

theorem step_fls (R : Rel C K cs vs) (hfetch : Core.fetch C cs.pc = some .fls)
    (hstep : Core.step C K cs = some cs') (hb : cs'.stk.length ≤ stackSize) : Goal C K cs' vs := by
  cv_pre
  have hnm := opname (b := 8) (name := "False") hcode hip rfl rfl
  unfold step; simp only [hnm]
  simp [Core.step, hfetch] at hstep
  subst hstep
  exact push_arm R hf hip _ line rfl hb

theorem step_null (R : Rel C K cs vs) (hfetch : Core.fetch C cs.pc = some .null)
    (hstep : Core.step C K cs = some cs') (hb : cs'.stk.length ≤ stackSize) : Goal C K cs' vs := by
  cv_pre
  have hnm := opname (b := 18) (name := "Null") hcode hip rfl rfl
  unfold step; simp only [hnm]
  simp [Core.step, hfetch] at hstep
  subst hstep
  exact push_arm R hf hip _ line rfl hb


theorem step_dup (R : Rel C K cs vs) (hfetch : Core.fetch C cs.pc = some .dup)
    (hstep : Core.step C K cs = some cs') (hb : cs'.stk.length ≤ stackSize) : Goal C K cs' vs := by
  cv_pre
  have hnm := opname (b := 44) (name := "Dup") hcode hip rfl rfl
  unfold step; simp only [hnm]
  cases stk with
  | nil => simp [Core.step, hfetch] at hstep
  | cons v rest =>
    simp [Core.step, hfetch] at hstep
    subst hstep
    obtain ⟨n1, e1, s1⟩ := R.stack.pop
    have hsp : vs.sp < vs.stack.size := by
      have := R.stack.length; rw [R.size]; simp at hb this; omega
    have hv : scalar v = true := R.scalarS v (by simp)
    simp only [wpe_bind, wpe_peek0, wpe_push, wpe_pure, finish, wpe_curFrame, wpe_setIp, withIp, hf, n1, e1, hsp,
      ↓reduceIte]
    refine R.next2 hf (by rw [hip]) rfl (R.stack.push hsp v) (by simp) R.globals ?_ R.scalarG
    intro x hx
    rcases List.mem_cons.mp hx with rfl | hx
    · exact hv
    · exact R.scalarS x hx

theorem step_minus (R : Rel C K cs vs) (hfetch : Core.fetch C cs.pc = some .minus)
    (hstep : Core.step C K cs = some cs') : Goal C K cs' vs := by
  cv_pre
  have hnm := opname (b := 13) (name := "Minus") hcode hip rfl rfl
  unfold step; simp only [hnm]
  cases stk with
  | nil => simp [Core.step, hfetch] at hstep
  | cons v rest =>
    simp only [Core.step, hfetch] at hstep
    cases hx : unaryMinus v with
    | err m => rw [hx] at hstep; simp at hstep
    | panic m => rw [hx] at hstep; simp at hstep
    | ok w =>
      rw [hx] at hstep; simp at hstep
      subst hstep
      obtain ⟨n1, e1, s1⟩ := R.stack.pop
      have hroom : vs.sp - 1 < vs.stack.size := by have := R.stack.1; omega
      have hnum := unaryMinus_isNumber hx
      have hw := unaryMinus_scalar hx
      simp only [wpe_bind, wpe_peek0, wpe_ite, wpe_rtErr, wpe_pop, wpe_ofOpRes, wpe_push, wpe_pure, finish,
        wpe_curFrame, wpe_setIp, withIp, hf, n1, e1, hnum, hx, reflect_scalar _ _ hw, hroom, ↓reduceIte,
        Bool.not_true, Bool.false_eq_true]
      refine R.next2 hf (by rw [hip]) rfl (s1.push hroom w) (by simp) R.globals ?_ R.scalarG
      intro x hx
      rcases List.mem_cons.mp hx with rfl | hx
      · exact hw
      · exact R.scalarS x (by simp [hx])

theorem step_bnot (R : Rel C K cs vs) (hfetch : Core.fetch C cs.pc = some .bnot)
    (hstep : Core.step C K cs = some cs') : Goal C K cs' vs := by
  cv_pre
  have hnm := opname (b := 38) (name := "Not") hcode hip rfl rfl
  unfold step; simp only [hnm]
  cases stk with
  | nil => simp [Core.step, hfetch] at hstep
  | cons v rest =>
    simp only [Core.step, hfetch] at hstep
    cases hx : unaryNot v with
    | err m => rw [hx] at hstep; simp at hstep
    | panic m => rw [hx] at hstep; simp at hstep
    | ok w =>
      rw [hx] at hstep; simp at hstep
      subst hstep
      obtain ⟨n1, e1, s1⟩ := R.stack.pop
      have hroom : vs.sp - 1 < vs.stack.size := by have := R.stack.1; omega
      have hw := unaryNot_scalar hx
      simp only [wpe_bind, wpe_pop, wpe_ofOpRes, wpe_push, wpe_pure, finish,
        wpe_curFrame, wpe_setIp, withIp, hf, n1, e1, hx, reflect_scalar _ _ hw, hroom, ↓reduceIte]
      refine R.next2 hf (by rw [hip]) rfl (s1.push hroom w) (by simp) R.globals ?_ R.scalarG
      intro x hx
      rcases List.mem_cons.mp hx with rfl | hx
      · exact hw
      · exact R.scalarS x (by simp [hx])

theorem step_bang (R : Rel C K cs vs) (hfetch : Core.fetch C cs.pc = some .bang)
    (hstep : Core.step C K cs = some cs') : Goal C K cs' vs := by
  cv_pre
  have hnm := opname (b := 14) (name := "Bang") hcode hip rfl rfl
  unfold step; simp only [hnm]
  cases stk with
  | nil => simp [Core.step, hfetch] at hstep
  | cons v rest =>
    simp [Core.step, hfetch, unaryBang] at hstep
    subst hstep
    obtain ⟨n1, e1, s1⟩ := R.stack.pop
    have hroom : vs.sp - 1 < vs.stack.size := by have := R.stack.1; omega
    have hv : scalar v = true := R.scalarS v (by simp)
    simp only [wpe_bind, wpe_pop, wpe_reifyM, wpe_push, wpe_pure, finish,
      wpe_curFrame, wpe_setIp, withIp, hf, n1, e1, reify_scalar _ _ hv, hroom, ↓reduceIte]
    refine R.next2 hf (by rw [hip]) rfl (s1.push hroom _) (by simp) R.globals ?_ R.scalarG
    intro x hx
    rcases List.mem_cons.mp hx with rfl | hx
    · rfl
    · exact R.scalarS x (by simp [hx])

theorem step_jump {t : Nat} (R : Rel C K cs vs) (hfetch : Core.fetch C cs.pc = some (.jump t))
    (hfit : Core.fitsI (.jump t) = true) (hstep : Core.step C K cs = some cs') : Goal C K cs' vs := by
  cv_pre
  rw [encodeI_jump] at hcode
  have hnm := opname (b := 15) (name := "Jump") hcode hip rfl rfl
  obtain ⟨h1, h2⟩ := operands16 hcode hip
  unfold step; simp only [hnm]
  simp [Core.step, hfetch] at hstep
  subst hstep
  simp only [wpe_bind, wpe_readU16 _ _ _ _ _ _ _ h1 h2, dec16 (fits16 hfit), wpe_setIp,
    wpe_pure, finish, withIp, hf]
  exact R.next2 hf rfl rfl R.stack rfl R.globals R.scalarS R.scalarG

theorem step_jif {t : Nat} (R : Rel C K cs vs) (hfetch : Core.fetch C cs.pc = some (.jif t))
    (hfit : Core.fitsI (.jif t) = true) (hstep : Core.step C K cs = some cs') : Goal C K cs' vs := by
  cv_pre
  rw [encodeI_jif] at hcode
  have hnm := opname (b := 16) (name := "JumpIfFalse") hcode hip rfl rfl
  obtain ⟨h1, h2⟩ := operands16 hcode hip
  unfold step; simp only [hnm]
  cases stk with
  | nil => simp [Core.step, hfetch] at hstep
  | cons v rest =>
    simp [Core.step, hfetch] at hstep
    subst hstep
    obtain ⟨n1, e1, s1⟩ := R.stack.pop
    have hv : scalar v = true := R.scalarS v (by simp)
    simp only [wpe_bind, wpe_readU16 _ _ _ _ _ _ _ h1 h2, dec16 (fits16 hfit), wpe_setIp, wpe_pop, wpe_reifyM,
      withIp, hf, n1, e1, reify_scalar _ _ hv, ↓reduceIte]
    by_cases hfal : v.isFalsey = true
    · simp only [hfal, ↓reduceIte, wpe_bind, wpe_setIp, wpe_pure, finish, withIp]
      exact R.next2 hf rfl rfl s1 rfl R.globals (fun x hx => R.scalarS x (by simp [hx])) R.scalarG
    · simp only [hfal, Bool.false_eq_true, ↓reduceIte, wpe_bind, wpe_setIp, wpe_pure, finish, withIp, wpe_curFrame]
      exact R.next2 hf (by rw [hip]) rfl s1 rfl R.globals (fun x hx => R.scalarS x (by simp [hx])) R.scalarG

theorem step_jifnp {t : Nat} (R : Rel C K cs vs) (hfetch : Core.fetch C cs.pc = some (.jifnp t))
    (hfit : Core.fitsI (.jifnp t) = true) (hstep : Core.step C K cs = some cs') : Goal C K cs' vs := by
  cv_pre
  rw [encodeI_jifnp] at hcode
  have hnm := opname (b := 17) (name := "JumpIfFalseNoPop") hcode hip rfl rfl
  obtain ⟨h1, h2⟩ := operands16 hcode hip
  unfold step; simp only [hnm]
  cases stk with
  | nil => simp [Core.step, hfetch] at hstep
  | cons v rest =>
    simp [Core.step, hfetch] at hstep
    subst hstep
    obtain ⟨n1, e1, s1⟩ := R.stack.pop
    have hv : scalar v = true := R.scalarS v (by simp)
    simp only [wpe_bind, wpe_readU16 _ _ _ _ _ _ _ h1 h2, dec16 (fits16 hfit), wpe_setIp, wpe_top0, wpe_reifyM,
      withIp, hf, n1, e1, reify_scalar _ _ hv, ↓reduceIte]
    by_cases hfal : v.isFalsey = true
    · simp only [hfal, ↓reduceIte, wpe_bind, wpe_setIp, wpe_pure, finish, withIp]
      exact R.next2 hf rfl rfl R.stack rfl R.globals R.scalarS R.scalarG
    · simp only [hfal, Bool.false_eq_true, ↓reduceIte, wpe_bind, wpe_setIp, wpe_pure, finish, withIp, wpe_curFrame]
      exact R.next2 hf (by rw [hip]) rfl R.stack rfl R.globals R.scalarS R.scalarG


theorem globals_room {g : List Val} {i : Nat} (hg : GRel vs.globals g) (hi : i < 65536) : ¬ i ≥ vs.globals.size := by
  have h : vs.globals.size = 65536 := hg.1
  omega

theorem step_getGlobal {i : Nat} (R : Rel C K cs vs) (hfetch : Core.fetch C cs.pc = some (.getGlobal i))
    (hfit : Core.fitsI (.getGlobal i) = true) (hstep : Core.step C K cs = some cs') (hb : cs'.stk.length ≤ stackSize) :
    Goal C K cs' vs := by
  cv_pre
  rw [encodeI_getGlobal] at hcode
  have hnm := opname (b := 20) (name := "GetGlobal") hcode hip rfl rfl
  obtain ⟨h1, h2⟩ := operands16 hcode hip
  unfold step; simp only [hnm]
  simp [Core.step, hfetch] at hstep
  subst hstep
  have hsp : vs.sp < vs.stack.size := by
    have := R.stack.length; rw [R.size]; simp at hb this; omega
  have hroom := globals_room R.globals (fits16 hfit)
  have hget : vs.globals.getD i .null = g[i]?.getD .null := (R.globals.2.2 i).trans (List.getD_eq_getElem?_getD ..)
  simp only [wpe_bind, wpe_readU16 _ _ _ _ _ _ _ h1 h2, dec16 (fits16 hfit), wpe_setIp, wpe_get, wpe_ite, wpe_panicM,
    wpe_push, wpe_pure, finish, wpe_curFrame, withIp, hf, hroom, hsp, hget, ↓reduceIte]
  refine R.next2 hf (by rw [hip]) rfl (R.stack.push hsp _) (by simp) R.globals ?_ R.scalarG
  intro x hx
  rcases List.mem_cons.mp hx with rfl | hx
  · cases hgi : g[i]? with
    | none => rfl
    | some w => exact R.scalarG w (List.mem_of_getElem? hgi)
  · exact R.scalarS x hx

theorem scalar_set {g : List Val} {i : Nat} {v : Val} (hg : ∀ x ∈ g, scalar x = true) (hv : scalar v = true) :
    ∀ x ∈ g.set i v, scalar x = true := by
  intro x hx
  rcases List.mem_or_eq_of_mem_set hx with h | rfl
  · exact hg x h
  · exact hv

theorem step_setGlobal {i : Nat} (R : Rel C K cs vs) (hfetch : Core.fetch C cs.pc = some (.setGlobal i))
    (hfit : Core.fitsI (.setGlobal i) = true) (hstep : Core.step C K cs = some cs') : Goal C K cs' vs := by
  cv_pre
  rw [encodeI_setGlobal] at hcode
  have hnm := opname (b := 21) (name := "SetGlobal") hcode hip rfl rfl
  obtain ⟨h1, h2⟩ := operands16 hcode hip
  unfold step; simp only [hnm]
  cases stk with
  | nil => simp [Core.step, hfetch] at hstep
  | cons v rest =>
    simp [Core.step, hfetch] at hstep
    obtain ⟨hi, rfl⟩ := hstep
    obtain ⟨n1, e1, s1⟩ := R.stack.pop
    have hroom := globals_room R.globals (fits16 hfit)
    have hv : scalar v = true := R.scalarS v (by simp)
    simp only [wpe_bind, wpe_readU16 _ _ _ _ _ _ _ h1 h2, dec16 (fits16 hfit), wpe_setIp, wpe_top0, wpe_get, wpe_ite,
      wpe_panicM, wpe_set, wpe_pure, finish, wpe_curFrame, withIp, hf, hroom, n1, e1, ↓reduceIte]
    exact R.next2 hf (by rw [hip]) rfl R.stack rfl (R.globals.set hi v) R.scalarS (scalar_set R.scalarG hv)

theorem step_defGlobal {i : Nat} (R : Rel C K cs vs) (hfetch : Core.fetch C cs.pc = some (.defGlobal i))
    (hfit : Core.fitsI (.defGlobal i) = true) (hstep : Core.step C K cs = some cs') : Goal C K cs' vs := by
  cv_pre
  rw [encodeI_defGlobal] at hcode
  have hnm := opname (b := 19) (name := "DefineGlobal") hcode hip rfl rfl
  obtain ⟨h1, h2⟩ := operands16 hcode hip
  unfold step; simp only [hnm]
  cases stk with
  | nil => simp [Core.step, hfetch] at hstep
  | cons v rest =>
    simp [Core.step, hfetch] at hstep
    obtain ⟨hi, rfl⟩ := hstep
    obtain ⟨n1, e1, s1⟩ := R.stack.pop
    have hroom := globals_room R.globals (fits16 hfit)
    have hv : scalar v = true := R.scalarS v (by simp)
    simp only [wpe_bind, wpe_readU16 _ _ _ _ _ _ _ h1 h2, dec16 (fits16 hfit), wpe_setIp, wpe_pop, wpe_get, wpe_ite,
      wpe_panicM, wpe_set, wpe_pure, finish, wpe_curFrame, withIp, hf, hroom, n1, e1, ↓reduceIte]
    exact R.next2 hf (by rw [hip]) rfl s1 rfl (R.globals.set hi v) (fun x hx => R.scalarS x (by simp [hx]))
      (scalar_set R.scalarG hv)

theorem fetch_mem : ∀ (C : List Core.Instr) (pc : Nat) (i : Core.Instr), Core.fetch C pc = some i → i ∈ C
  | [], _, _, h => by simp [Core.fetch] at h
  | j :: js, pc, i, h => by
    unfold Core.fetch at h
    split at h
    · cases h; simp
    · split at h
      · cases h
      · exact List.mem_cons_of_mem _ (fetch_mem js _ i h)

/-- **one core step is one iteration of the VM's loop.**  `tick` (`Props.Bcv.tick`) is the body of
`Vm.runLoop` (`Props.Bcv.exec_runLoop_succ`, restated below as `runLoop_succ`); the result `true`
means "the loop goes on".  The frame keeps running the same function (`mainFn`).

Side conditions: `hfit` — every operand of `C` fits the width `DEFINITIONS` declares for it (what
`Core.compileChecked` checks; otherwise the encoder truncates the operand and the VM reads another
number); `hb` — the stack after the step is within `STACK_SIZE` (otherwise the VM reports
"Stack overflow!", which the core machine does not model). -/
theorem step_refines (R : Rel C K cs vs) (hfit : C.all Core.fitsI = true) (hstep : Core.step C K cs = some cs')
    (hb : cs'.stk.length ≤ stackSize) :
    ∃ vs', exec tick vs = (.ok true, vs') ∧ Rel C K cs' vs' ∧ mainFn vs' = mainFn vs := by
  suffices h : Goal C K cs' vs by
    obtain ⟨b, vs', he, rfl, hr⟩ := wpe_elim _ _ h
    exact ⟨vs', he, hr⟩
  cases hfetch : Core.fetch C cs.pc with
  | none => simp [Core.step, hfetch] at hstep
  | some i =>
    have hfi : Core.fitsI i = true := (List.all_eq_true.mp hfit) i (fetch_mem C _ i hfetch)
    cases i with
    | const idx => exact step_const R hfetch hfi hstep hb
    | pop => exact step_pop R hfetch hstep
    | op o => exact step_op R hfetch hstep
    | tru => exact step_tru R hfetch hstep hb
    | fls => exact step_fls R hfetch hstep hb
    | null => exact step_null R hfetch hstep hb
    | minus => exact step_minus R hfetch hstep
    | bang => exact step_bang R hfetch hstep
    | bnot => exact step_bnot R hfetch hstep
    | jump t => exact step_jump R hfetch hfi hstep
    | jif t => exact step_jif R hfetch hfi hstep
    | jifnp t => exact step_jifnp R hfetch hfi hstep
    | getGlobal i => exact step_getGlobal R hfetch hfi hstep hb
    | setGlobal i => exact step_setGlobal R hfetch hfi hstep
    | defGlobal i => exact step_defGlobal R hfetch hfi hstep
    | dup => exact step_dup R hfetch hstep hb
    | _ => simp [Core.step, hfetch] at hstep

/-! ## runs -/

/-- `runLoop` with one more unit of fuel is one `tick` followed by `runLoop` (restatement of
`Props.Bcv.exec_runLoop_succ`, so that the meaning of "one iteration" can be read here) -/
theorem runLoop_succ (fuel : Nat) (s : St) :
    exec (runLoop (fuel + 1)) s = match exec tick s with
      | (.ok true, s') => exec (runLoop fuel) s'
      | (.ok false, s') => (.ok (), s')
      | (.error e, s') => (.error e, s') := exec_runLoop_succ fuel s

/-- iterations of the VM's loop that go on (reflexive–transitive closure of `tick = ok true`) -/
inductive VmSteps : St → St → Prop
  | refl (s) : VmSteps s s
  | cons {s s' s''} : exec tick s = (.ok true, s') → VmSteps s' s'' → VmSteps s s''

/-- runs of the core machine every state of which (after the first) keeps at most `B` values on
the stack -/
inductive StepsB (C : List Core.Instr) (K : List Val) (B : Nat) : Core.St → Core.St → Prop
  | refl (s) : StepsB C K B s s
  | cons {s s' s''} : Core.step C K s = some s' → s'.stk.length ≤ B → StepsB C K B s' s'' → StepsB C K B s s''

theorem StepsB.steps {B : Nat} (h : StepsB C K B cs cs') : Core.Steps C K cs cs' := by
  induction h with
  | refl s => exact .refl _
  | cons hs _ _ ih => exact .cons hs ih

theorem StepsB.of_steps {B : Nat} (h : Core.Steps C K cs cs')
    (hb : ∀ s, Core.Steps C K cs s → Core.Steps C K s cs' → s.stk.length ≤ B) : StepsB C K B cs cs' := by
  induction h with
  | refl s => exact .refl _
  | cons hs hrest ih =>
    exact .cons hs (hb _ (.one hs) hrest) (ih (fun s h1 h2 => hb s (.cons hs h1) h2))

theorem steps_refine_bounded (R : Rel C K cs vs) (hfit : C.all Core.fitsI = true)
    (hsteps : StepsB C K stackSize cs cs') : ∃ vs', VmSteps vs vs' ∧ Rel C K cs' vs' ∧ mainFn vs' = mainFn vs := by
  induction hsteps generalizing vs with
  | refl s => exact ⟨vs, .refl _, R, rfl⟩
  | cons hs hb _ ih =>
    obtain ⟨v1, he, R1, hm1⟩ := step_refines R hfit hs hb
    obtain ⟨v2, hv, R2, hm2⟩ := ih R1
    exact ⟨v2, .cons he hv, R2, hm2.trans hm1⟩

/-- **runs**: a run of the core machine all of whose states keep at most `STACK_SIZE` values on
the stack is a sequence of iterations of the VM's loop (`hb`: every state `s` on the way from `cs`
to `cs'` is within the bound) -/
theorem steps_refine (R : Rel C K cs vs) (hfit : C.all Core.fitsI = true) (hsteps : Core.Steps C K cs cs')
    (hb : ∀ s, Core.Steps C K cs s → Core.Steps C K s cs' → s.stk.length ≤ stackSize) :
    ∃ vs', VmSteps vs vs' ∧ Rel C K cs' vs' ∧ mainFn vs' = mainFn vs :=
  steps_refine_bounded R hfit (.of_steps hsteps hb)

/-- `VmSteps` are iterations of `runLoop`: they only consume fuel -/
theorem VmSteps.fuel {s s' : St} (h : VmSteps s s') :
    ∀ fuel, ∃ n, exec (runLoop (n + fuel)) s = exec (runLoop fuel) s' := by
  induction h with
  | refl s => exact fun fuel => ⟨0, by simp⟩
  | cons ht _ ih =>
    intro fuel
    obtain ⟨n, hn⟩ := ih fuel
    refine ⟨n + 1, ?_⟩
    have : n + 1 + fuel = (n + fuel) + 1 := by omega
    rw [this, exec_runLoop_succ, ht]
    exact hn

theorem encode_length (C : List Core.Instr) : (Core.encode C).length = Core.bytes C := by
  induction C with
  | nil => rfl
  | cons i is ih =>
    have : Core.encode (i :: is) = Core.encodeI i ++ Core.encode is := by simp [Core.encode]
    rw [this, List.length_append, ih, encodeI_length]
    rfl

/-- at the end of the code the loop ends normally, the state unchanged -/
theorem tick_halt (R : Rel C K cs vs) (hpc : cs.pc = Core.bytes C) : exec tick vs = (.ok false, vs) := by
  obtain ⟨f, hf, hcode, hip, _⟩ := R.frame
  have hnlt : ¬ f.ip < f.fn.code.length := by rw [hcode, encode_length, hip, hpc]; omega
  have h : wpe tick (fun b s' => b = false ∧ s' = vs) noErr vs := by
    unfold tick
    simp only [wpe_bind, wpe_curFrame, hf, hnlt, if_false, wpe_pure, and_self]
  obtain ⟨b, s', he, rfl, rfl⟩ := wpe_elim _ _ h
  exact he

/-- the initial state of `Vm.run` stands for the core machine's initial state with `n` global
slots (`Driver/CoreDrv.lean` starts the core machine with `g0 = List.replicate nglobals .null`) -/
theorem rel_init (main : FnDef) (n : Nat) (hcode : main.code = Core.encode C)
    (hlines : main.code.length ≤ main.lines.length) (hK : ∀ v ∈ K, scalar v = true)
    (hn : n ≤ P2sh.Gen.Limits.GLOBALS_SIZE) :
    Rel C K ⟨0, [], List.replicate n .null⟩ (initState main K) := by
  refine ⟨⟨_, rfl, hcode, rfl, hlines⟩, by simp [initState], by simp [initState], ⟨by simp [initState], by simp [initState]⟩,
    ⟨by simp [initState], by simpa [initState] using hn, fun i => ?_⟩, hK, by simp, ?_⟩
  · simp only [initState, Array.getD_eq_getD_getElem?, List.getD_eq_getElem?_getD]
    by_cases h1 : i < P2sh.Gen.Limits.GLOBALS_SIZE <;> by_cases h2 : i < n <;> simp [h1, h2]
  · intro v hv
    rw [List.eq_of_mem_replicate hv]; rfl

/-- **a halting run of the core machine is a normal run of the VM model**: from the initial
state of `Vm.run` on the encoded code, `runLoop` returns normally (for some amount of fuel) in a
state that stands for the core machine's final state -/
theorem run_refines_bounded (main : FnDef) (n : Nat) (hcode : main.code = Core.encode C)
    (hlines : main.code.length ≤ main.lines.length) (hK : ∀ v ∈ K, scalar v = true)
    (hn : n ≤ P2sh.Gen.Limits.GLOBALS_SIZE) (hfit : C.all Core.fitsI = true)
    (hsteps : StepsB C K stackSize ⟨0, [], List.replicate n .null⟩ cs') (hend : cs'.pc = Core.bytes C) :
    ∃ fuel vs', Vm.run main K fuel = (.ok (), vs') ∧ Rel C K cs' vs' := by
  obtain ⟨vs', hv, R', _⟩ := steps_refine_bounded (rel_init main n hcode hlines hK hn) hfit hsteps
  obtain ⟨m, hm⟩ := hv.fuel 1
  refine ⟨m + 1, vs', ?_, R'⟩
  show exec (Vm.runLoop (m + 1)) (initState main K) = _
  rw [hm, exec_runLoop_succ, tick_halt R' hend]

theorem run_refines (main : FnDef) (n : Nat) (hcode : main.code = Core.encode C)
    (hlines : main.code.length ≤ main.lines.length) (hK : ∀ v ∈ K, scalar v = true)
    (hn : n ≤ P2sh.Gen.Limits.GLOBALS_SIZE) (hfit : C.all Core.fitsI = true)
    (hsteps : Core.Steps C K ⟨0, [], List.replicate n .null⟩ cs') (hend : cs'.pc = Core.bytes C)
    (hb : ∀ s, Core.Steps C K ⟨0, [], List.replicate n .null⟩ s → Core.Steps C K s cs' → s.stk.length ≤ stackSize) :
    ∃ fuel vs', Vm.run main K fuel = (.ok (), vs') ∧ Rel C K cs' vs' :=
  run_refines_bounded main n hcode hlines hK hn hfit (.of_steps hsteps hb) hend

/-! ## the error direction (operators) -/

/-- the outcome of `ofOpRes` for a failed operator -/
def failRes (line : Nat) : OpRes → Option Res
  | .ok _ => none
  | .err msg => some (.err msg line)
  | .panic msg => some (.panic msg)

theorem fail_binaryVm {r l : Val} {rest : List Val} {k : BinKind} {line : Nat} {e : Res}
    (hst : StkRel vs.stack vs.sp (r :: l :: rest)) (hr : scalar r = true) (hl : scalar l = true)
    (h : failRes line (binaryOp k l r) = some e) :
    wpe (binaryVm k line) noOk (fun e' _ => e' = e) vs := by
  obtain ⟨n1, e1, s1⟩ := hst.pop
  obtain ⟨n2, e2, s2⟩ := s1.pop
  simp only [binaryVm, wpe_bind, wpe_pop, wpe_reifyM, wpe_ofOpRes, n1, n2, ↓reduceIte, e1, e2,
    reify_scalar _ _ hr, reify_scalar _ _ hl]
  cases hx : binaryOp k l r with
  | ok v => simp [hx, failRes] at h
  | err m => simp [hx, failRes] at h; simp [h]
  | panic m => simp [hx, failRes] at h; simp [h]

theorem fail_bitwiseVm {r l : Val} {rest : List Val} {op : BitOp} {line : Nat} {e : Res}
    (hst : StkRel vs.stack vs.sp (r :: l :: rest))
    (h : failRes line (bitwiseOp op l r) = some e) :
    wpe (bitwiseVm op line) noOk (fun e' _ => e' = e) vs := by
  obtain ⟨n1, e1, s1⟩ := hst.pop
  obtain ⟨n2, e2, s2⟩ := s1.pop
  simp only [bitwiseVm, wpe_bind, wpe_pop, wpe_ofOpRes, n1, n2, ↓reduceIte, e1, e2]
  cases hx : bitwiseOp op l r with
  | ok v => simp [hx, failRes] at h
  | err m => simp [hx, failRes] at h; simp [h]
  | panic m => simp [hx, failRes] at h; simp [h]

set_option hygiene false in
macro "cv_fail" nm:str "," b:num "," eff:term : tactic => `(tactic| (
  have hnm := opname (b := $b) (name := $nm) hcode hip rfl rfl
  unfold step; simp only [hnm]
  simp only [execOperator] at hfail
  rw [wpe_bind, wpe_bind]
  exact wpe_mono $eff (fun _ _ h => h.elim) (fun _ _ h => h)))

theorem tick_op_fail {o : Operator} {r l : Val} {rest : List Val} (R : Rel C K cs vs)
    (hfetch : Core.fetch C cs.pc = some (.op o)) (hstk : cs.stk = r :: l :: rest) :
    ∃ f line, vs.frames = [f] ∧ f.fn.lines[cs.pc]? = some line ∧
      ∀ e, failRes line (execOperator o l r) = some e → wpe tick noOk (fun e' _ => e' = e) vs := by
  obtain ⟨f, line, pre, post, hf, hcode, hip, hpc, hline, hlt⟩ := setup R hfetch
  refine ⟨f, line, hf, by rw [hpc, ← hip]; exact hline, fun e hfail => ?_⟩
  have key : wpe (step (opOfByte (f.fn.code.getD f.ip 0)) f.fn.code f.ip line >>= finish)
      (fun _ s' => False) (fun e' _ => e' = e) vs := by
    obtain ⟨pc, stk, g⟩ := cs
    simp only at hstk
    subst hstk
    have hr : scalar r = true := R.scalarS r (by simp)
    have hl : scalar l = true := R.scalarS l (by simp)
    cases o
    case add => cv_fail "Add", 2, (fail_binaryVm R.stack hr hl hfail)
    case sub => cv_fail "Sub", 3, (fail_binaryVm R.stack hr hl hfail)
    case mul => cv_fail "Mul", 4, (fail_binaryVm R.stack hr hl hfail)
    case div => cv_fail "Div", 5, (fail_binaryVm R.stack hr hl hfail)
    case mod => cv_fail "Mod", 6, (fail_binaryVm R.stack hr hl hfail)
    case greater => cv_fail "Greater", 11, (fail_binaryVm R.stack hr hl hfail)
    case greaterEq => cv_fail "GreaterEq", 12, (fail_binaryVm R.stack hr hl hfail)
    case band => cv_fail "And", 39, (fail_bitwiseVm R.stack hfail)
    case bor => cv_fail "Or", 40, (fail_bitwiseVm R.stack hfail)
    case bxor => cv_fail "Xor", 41, (fail_bitwiseVm R.stack hfail)
    case shl => cv_fail "ShiftLeft", 42, (fail_bitwiseVm R.stack hfail)
    case shr => cv_fail "ShiftRight", 43, (fail_bitwiseVm R.stack hfail)
    case equal => simp [execOperator, failRes] at hfail
    case notEqual => simp [execOperator, failRes] at hfail
  have := tick_wpe (Q := fun _ => False) hf hlt hline key
  exact wpe_mono this (fun _ _ h => h.2.elim) (fun _ _ h => h)

/-- **a runtime error of an operator in the core machine is the same runtime error in the VM
model**: if the operator instruction at `pc` fails with message `msg`, the VM's iteration ends in
the runtime error `msg` reported at `lines[pc]` (not in a panic, not normally). -/
theorem op_err_refines {o : Operator} {r l : Val} {rest : List Val} {msg : String} (R : Rel C K cs vs)
    (hfetch : Core.fetch C cs.pc = some (.op o)) (hstk : cs.stk = r :: l :: rest)
    (herr : execOperator o l r = .err msg) :
    ∃ f line vs', vs.frames = [f] ∧ f.fn.lines[cs.pc]? = some line ∧
      exec tick vs = (.error (.err msg line), vs') := by
  obtain ⟨f, line, hf, hline, h⟩ := tick_op_fail R hfetch hstk
  obtain ⟨e, vs', he, rfl⟩ := wpe_elim_err _ _ (h (.err msg line) (by rw [herr]; rfl))
  exact ⟨f, line, vs', hf, hline, he⟩

/-- an operator that panics in the core machine's operator model (`String::repeat` beyond the
memory exclusion, `Props.C09`) panics in the VM model with the same message -/
theorem op_panic_refines {o : Operator} {r l : Val} {rest : List Val} {msg : String} (R : Rel C K cs vs)
    (hfetch : Core.fetch C cs.pc = some (.op o)) (hstk : cs.stk = r :: l :: rest)
    (hp : execOperator o l r = .panic msg) :
    ∃ vs', exec tick vs = (.error (.panic msg), vs') := by
  obtain ⟨f, line, hf, hline, h⟩ := tick_op_fail R hfetch hstk
  obtain ⟨e, vs', he, rfl⟩ := wpe_elim_err _ _ (h (.panic msg) (by rw [hp]; rfl))
  exact ⟨vs', he⟩

/-- **the error direction for runs**: if the core machine, started like `Vm.run` starts the VM,
reaches an operator instruction that fails with the runtime error `msg`, then `Vm.run` ends in the
runtime error `msg` at the line `main.lines[pc]` of that instruction (what `Driver/CoreDrv.lean`
prints as `rterr {lines[st.pc]}`) -/
theorem run_op_err_refines {o : Operator} {r l : Val} {rest : List Val} {msg : String} (main : FnDef) (n : Nat)
    (hcode : main.code = Core.encode C) (hlines : main.code.length ≤ main.lines.length)
    (hK : ∀ v ∈ K, scalar v = true) (hn : n ≤ P2sh.Gen.Limits.GLOBALS_SIZE) (hfit : C.all Core.fitsI = true)
    (hsteps : StepsB C K stackSize ⟨0, [], List.replicate n .null⟩ cs)
    (hfetch : Core.fetch C cs.pc = some (.op o)) (hstk : cs.stk = r :: l :: rest)
    (herr : execOperator o l r = .err msg) :
    ∃ fuel vs' line, main.lines[cs.pc]? = some line ∧ Vm.run main K fuel = (.error (.err msg line), vs') := by
  obtain ⟨vs1, hv, R1, hm1⟩ := steps_refine_bounded (rel_init main n hcode hlines hK hn) hfit hsteps
  obtain ⟨f, line, vs', hf, hl, he⟩ := op_err_refines R1 hfetch hstk herr
  have hfn : f.fn = main := by
    have : some f.fn = some main := by simpa [mainFn, hf, initState] using hm1
    exact Option.some.inj this
  obtain ⟨m, hm⟩ := hv.fuel 1
  refine ⟨m + 1, vs', line, by rw [← hfn]; exact hl, ?_⟩
  show exec (Vm.runLoop (m + 1)) (initState main K) = _
  rw [hm, exec_runLoop_succ, he]

theorem execOperator_panic_msg {o : Operator} {l r : Val} {msg : String} (h : execOperator o l r = .panic msg) :
    msg = "capacity overflow" := by
  cases o <;> simp only [execOperator] at h
  all_goals first
    | exact P2sh.Props.Bcv.binaryOp_panic_msg h
    | (unfold bitwiseOp at h; split at h <;> cases h)
    | cases h

/-- **stuck ⇒ runtime error, for operator instructions** (partial).  If the core machine is stuck
at an operator instruction with two operands on the stack, the VM's iteration does not end
normally: it ends in the operator's runtime error, or in the panic "capacity overflow"
(`String::repeat` beyond the memory exclusion of C08/C09).

What is missing for a general "`Core.step = none` ⇒ the VM's iteration ends in a runtime error":
* not proved (true by inspection of `Vm.step`): a constant index outside the pool ("constant not
  found"), too few operands for `pop`/operators/`bang`/`bnot`/`minus`/`jif`/`jifnp`/`setGlobal`/
  `defGlobal` ("Stack underflow!", for `minus` "bad operand type");
* FALSE, the core machine is stricter than the VM: `dup` on an empty stack (`peek(0)` yields null
  and the VM goes on: `dup_empty_vm_goes_on`); `setGlobal`/`defGlobal` with `g.length ≤ i <
  GLOBALS_SIZE` (the VM writes the slot: `setGlobal_beyond_vm_goes_on`); the function instructions (`call` … `setFree`), which `Core.step` does not execute;
  a `pc` that is not an instruction boundary.  None of these occurs in code the functional compiler
  emits from a state `Core/Correct.lean` considers. -/
theorem op_stuck_refines_partial {o : Operator} {r l : Val} {rest : List Val} (R : Rel C K cs vs)
    (hfetch : Core.fetch C cs.pc = some (.op o)) (hstk : cs.stk = r :: l :: rest)
    (hnone : Core.step C K cs = none) :
    ∃ e vs', exec tick vs = (.error e, vs') ∧
      ((∃ msg line, e = .err msg line ∧ execOperator o l r = .err msg) ∨ e = .panic "capacity overflow") := by
  cases hx : execOperator o l r with
  | ok v =>
    obtain ⟨pc, stk, g⟩ := cs
    simp only at hstk hfetch
    subst hstk
    simp [Core.step, hfetch, hx] at hnone
  | err msg =>
    obtain ⟨f, line, vs', _, _, he⟩ := op_err_refines R hfetch hstk hx
    exact ⟨_, vs', he, .inl ⟨msg, line, rfl, rfl⟩⟩
  | panic msg =>
    obtain ⟨vs', he⟩ := op_panic_refines R hfetch hstk hx
    have := execOperator_panic_msg hx
    subst this
    exact ⟨_, vs', he, .inr rfl⟩

theorem unaryMinus_err {v : Val} {msg : String} (h : unaryMinus v = .err msg) :
    v.isNumber = false ∧ msg = "bad operand type for unary '-'" := by
  unfold unaryMinus at h
  split at h
  · cases h
  · cases h
  · rename_i h1 h2
    cases h
    refine ⟨?_, rfl⟩
    cases v <;> first | rfl | exact absurd rfl (h1 _) | exact absurd rfl (h2 _)

/-- unary `-` on a value that is not a number: the same runtime error in both machines -/
theorem minus_err_refines {v : Val} {rest : List Val} {msg : String} (R : Rel C K cs vs)
    (hfetch : Core.fetch C cs.pc = some .minus) (hstk : cs.stk = v :: rest) (herr : unaryMinus v = .err msg) :
    ∃ f line vs', vs.frames = [f] ∧ f.fn.lines[cs.pc]? = some line ∧
      exec tick vs = (.error (.err msg line), vs') := by
  obtain ⟨f, line, pre, post, hf, hcode, hip, hpc, hline, hlt⟩ := setup R hfetch
  have key : wpe (step (opOfByte (f.fn.code.getD f.ip 0)) f.fn.code f.ip line >>= finish)
      (fun _ s' => False) (fun e' _ => e' = .err msg line) vs := by
    obtain ⟨pc, stk, g⟩ := cs
    simp only at hstk
    subst hstk
    have hnm := opname (b := 13) (name := "Minus") hcode hip rfl rfl
    unfold step; simp only [hnm]
    obtain ⟨n1, e1, s1⟩ := R.stack.pop
    obtain ⟨hnum, rfl⟩ := unaryMinus_err herr
    simp only [wpe_bind, wpe_peek0, wpe_ite, wpe_rtErr, n1, e1, hnum, ↓reduceIte, Bool.not_false]
  have := tick_wpe (Q := fun _ => False) hf hlt hline key
  obtain ⟨e, vs', he, rfl⟩ := wpe_elim_err _ _ (wpe_mono this (fun _ _ h => h.2.elim) (fun _ _ h => h))
  exact ⟨f, line, vs', hf, by rw [hpc, ← hip]; exact hline, he⟩

/-- unary `~` on a value that is not an integer: the same runtime error in both machines -/
theorem bnot_err_refines {v : Val} {rest : List Val} {msg : String} (R : Rel C K cs vs)
    (hfetch : Core.fetch C cs.pc = some .bnot) (hstk : cs.stk = v :: rest) (herr : unaryNot v = .err msg) :
    ∃ f line vs', vs.frames = [f] ∧ f.fn.lines[cs.pc]? = some line ∧
      exec tick vs = (.error (.err msg line), vs') := by
  obtain ⟨f, line, pre, post, hf, hcode, hip, hpc, hline, hlt⟩ := setup R hfetch
  have key : wpe (step (opOfByte (f.fn.code.getD f.ip 0)) f.fn.code f.ip line >>= finish)
      (fun _ s' => False) (fun e' _ => e' = .err msg line) vs := by
    obtain ⟨pc, stk, g⟩ := cs
    simp only at hstk
    subst hstk
    have hnm := opname (b := 38) (name := "Not") hcode hip rfl rfl
    unfold step; simp only [hnm]
    obtain ⟨n1, e1, s1⟩ := R.stack.pop
    simp only [wpe_bind, wpe_pop, wpe_ofOpRes, n1, e1, herr, ↓reduceIte]
  have := tick_wpe (Q := fun _ => False) hf hlt hline key
  obtain ⟨e, vs', he, rfl⟩ := wpe_elim_err _ _ (wpe_mono this (fun _ _ h => h.2.elim) (fun _ _ h => h))
  exact ⟨f, line, vs', hf, by rw [hpc, ← hip]; exact hline, he⟩

/-! ## where the core machine is stricter than the VM (the converse of `step_refines` fails) -/

/-- **finding**: `dup` on the empty stack — the core machine is stuck, the VM model's iteration
ends normally (`peek(0)` yields null when `sp = 0`, and null is pushed) -/
theorem dup_empty_vm_goes_on (R : Rel C K cs vs) (hfetch : Core.fetch C cs.pc = some .dup) (hstk : cs.stk = []) :
    Core.step C K cs = none ∧ ∃ vs', exec tick vs = (.ok true, vs') := by
  obtain ⟨f, line, pre, post, hf, hcode, hip, hpc, hline, hlt⟩ := setup R hfetch
  obtain ⟨pc, stk, g⟩ := cs
  simp only at hstk hfetch
  subst hstk
  refine ⟨by simp [Core.step, hfetch], ?_⟩
  have h : wpe tick (fun b _ => b = true ∧ True) noErr vs := by
    refine tick_wpe (Q := fun _ => True) hf hlt hline ?_
    have hnm := opname (b := 44) (name := "Dup") hcode hip rfl rfl
    unfold step; simp only [hnm]
    have hsp : vs.sp = 0 := by have := R.stack.length; simpa using this.symm
    have hsz : vs.sp < vs.stack.size := by
      rw [hsp, R.size]; decide
    simp only [wpe_bind, wpe_peek0, wpe_push, wpe_pure, finish, wpe_curFrame, wpe_setIp, hf, hsz, ↓reduceIte]
  obtain ⟨b, vs', he, rfl, _⟩ := wpe_elim _ _ h
  exact ⟨vs', he⟩

/-- **finding**: `setGlobal i` with `cs.g.length ≤ i` — the core machine is stuck, the VM model
writes slot `i` of its `GLOBALS_SIZE` slots and goes on (the same holds for `defGlobal`) -/
theorem setGlobal_beyond_vm_goes_on {i : Nat} {v : Val} {rest : List Val} (R : Rel C K cs vs)
    (hfetch : Core.fetch C cs.pc = some (.setGlobal i)) (hfit : Core.fitsI (.setGlobal i) = true)
    (hstk : cs.stk = v :: rest) (hi : cs.g.length ≤ i) :
    Core.step C K cs = none ∧ ∃ vs', exec tick vs = (.ok true, vs') := by
  obtain ⟨f, line, pre, post, hf, hcode, hip, hpc, hline, hlt⟩ := setup R hfetch
  obtain ⟨pc, stk, g⟩ := cs
  simp only at hstk hfetch hi
  subst hstk
  refine ⟨by simp [Core.step, hfetch]; omega, ?_⟩
  have h : wpe tick (fun b _ => b = true ∧ True) noErr vs := by
    refine tick_wpe (Q := fun _ => True) hf hlt hline ?_
    rw [encodeI_setGlobal] at hcode
    have hnm := opname (b := 21) (name := "SetGlobal") hcode hip rfl rfl
    obtain ⟨h1, h2⟩ := operands16 hcode hip
    unfold step; simp only [hnm]
    obtain ⟨n1, e1, s1⟩ := R.stack.pop
    have hroom := globals_room R.globals (fits16 hfit)
    simp only [wpe_bind, wpe_readU16 _ _ _ _ _ _ _ h1 h2, dec16 (fits16 hfit), wpe_setIp, wpe_top0, wpe_get, wpe_ite,
      wpe_panicM, wpe_set, wpe_pure, finish, wpe_curFrame, withIp, hf, hroom, n1, ↓reduceIte]
  obtain ⟨b, vs', he, rfl, _⟩ := wpe_elim _ _ h
  exact ⟨vs', he⟩

/-! ## non-vacuity -/

def exC : List Core.Instr := [.const 0, .const 1, .op .add, .pop]
def exK : List Val := [.int 1, .int 2]
def exMain : FnDef := { code := Core.encode exC, lines := List.replicate 8 1, numLocals := 0, numParams := 0, line := 0 }

/-- the bytes the VM runs: `Constant 0; Constant 1; Add; Pop` -/
example : Core.encode exC = [0, 0, 0, 0, 0, 1, 2, 1] := by decide

/-- the relation holds initially -/
example : Rel exC exK ⟨0, [], []⟩ (initState exMain exK) :=
  rel_init (C := exC) exMain 0 rfl (by decide) (by decide) (by decide)

/-- the first step, instantiated: one iteration of the VM's loop pushes the constant -/
example : ∃ vs', exec tick (initState exMain exK) = (.ok true, vs') ∧ Rel exC exK ⟨3, [.int 1], []⟩ vs' ∧
    mainFn vs' = mainFn (initState exMain exK) :=
  step_refines (rel_init (C := exC) exMain 0 rfl (by decide) (by decide) (by decide)) (by decide) rfl (by decide)

/-- the whole run, instantiated: `Vm.run` ends normally in a state related to the core machine's final state -/
example : ∃ fuel vs', Vm.run exMain exK fuel = (.ok (), vs') ∧ Rel exC exK ⟨8, [], []⟩ vs' :=
  run_refines_bounded (C := exC) exMain 0 rfl (by decide) (by decide) (by decide) (by decide)
    (.cons (s' := ⟨3, [.int 1], []⟩) rfl (by decide)
      (.cons (s' := ⟨6, [.int 2, .int 1], []⟩) rfl (by decide)
        (.cons (s' := ⟨7, [.int (1 + 2)], []⟩) rfl (by decide)
          (.cons (s' := ⟨8, [], []⟩) rfl (by decide) (.refl _))))) rfl

def exC2 : List Core.Instr := [.const 0, .tru, .op .add]
def exMain2 : FnDef := { code := Core.encode exC2, lines := [1, 1, 1, 2, 3], numLocals := 0, numParams := 0, line := 0 }

/-- the error direction, instantiated: `1 + true` — `Vm.run` ends in the runtime error of the
operator, reported at the line of the `Add` byte (`lines[4] = 3`) -/
example : ∃ fuel vs', Vm.run exMain2 [.int 1] fuel = (.error (.err "Invalid binary operation." 3), vs') := by
  obtain ⟨fuel, vs', line, hl, he⟩ := run_op_err_refines (C := exC2) (K := [.int 1]) (o := .add)
    (cs := ⟨4, [.bool true, .int 1], []⟩) (msg := "Invalid binary operation.")
    exMain2 0 rfl (by decide) (by decide) (by decide) (by decide)
    (.cons (s' := ⟨3, [.int 1], []⟩) rfl (by decide) (.cons (s' := ⟨4, [.bool true, .int 1], []⟩) rfl (by decide) (.refl _)))
    rfl rfl rfl
  cases hl
  exact ⟨fuel, vs', he⟩

def exDup : FnDef := { code := Core.encode [.dup], lines := [1], numLocals := 0, numParams := 0, line := 0 }

/-- the `dup` finding is not vacuous: the initial state of `[Dup]` is such a state -/
example : Core.step [.dup] [] ⟨0, [], []⟩ = none ∧ ∃ vs', exec tick (initState exDup []) = (.ok true, vs') :=
  dup_empty_vm_goes_on (rel_init (C := [.dup]) exDup 0 rfl (by decide) (by simp) (by decide)) rfl rfl

#print axioms step_refines
#print axioms steps_refine
#print axioms steps_refine_bounded
#print axioms run_refines
#print axioms run_refines_bounded
#print axioms VmSteps.fuel
#print axioms rel_init
#print axioms tick_halt
#print axioms op_err_refines
#print axioms op_panic_refines
#print axioms op_stuck_refines_partial
#print axioms run_op_err_refines
#print axioms dup_empty_vm_goes_on
#print axioms setGlobal_beyond_vm_goes_on
#print axioms minus_err_refines
#print axioms bnot_err_refines
#print axioms reify_scalar
#print axioms reflect_scalar

end P2sh.CoreVm
